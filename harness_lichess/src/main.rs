//! Implementation side of the `json` op: decode with the real serde model, answer with the re-serialised value.
//! `json <state|event> x:<hex of the UTF-8 document>` -> `ok x:<hex of serde_json::to_string(&decoded)>` | `err` | `PANIC`
use std::io::{BufRead, BufWriter, Write};
use std::panic::{catch_unwind, AssertUnwindSafe};

use inkayaku_lichess_api::api::bot_event_response::BotEvent;
use inkayaku_lichess_api::api::bot_game_state_response::BotGameState;

fn hex_decode(s: &str) -> Option<Vec<u8>> {
    if s.len() % 2 != 0 {
        return None;
    }
    let b = s.as_bytes();
    (0..b.len()).step_by(2).map(|i| Some(((b[i] as char).to_digit(16)? * 16 + (b[i + 1] as char).to_digit(16)?) as u8)).collect()
}

fn hex_encode(bytes: &[u8]) -> String {
    bytes.iter().map(|b| format!("{:02x}", b)).collect()
}

fn answer(line: &str) -> String {
    let toks: Vec<&str> = line.split(' ').filter(|s| !s.is_empty()).collect();
    if toks.len() != 3 || toks[0] != "json" {
        return "bad-request".into();
    }
    let Some(bytes) = toks[2].strip_prefix("x:").and_then(hex_decode) else { return "bad-request".into() };
    let Ok(doc) = String::from_utf8(bytes) else { return "bad-request".into() };
    let result = catch_unwind(AssertUnwindSafe(|| match toks[1] {
        "state" => serde_json::from_str::<BotGameState>(&doc).ok().map(|v| serde_json::to_string(&v).unwrap()),
        "event" => serde_json::from_str::<BotEvent>(&doc).ok().map(|v| serde_json::to_string(&v).unwrap()),
        _ => Some("bad-request".to_string()),
    }));
    match result {
        Ok(Some(s)) if s == "bad-request" => s,
        Ok(Some(s)) => format!("ok x:{}", hex_encode(s.as_bytes())),
        Ok(None) => "err".into(),
        Err(_) => "PANIC".into(),
    }
}

fn main() {
    std::panic::set_hook(Box::new(|_| {}));
    let stdin = std::io::stdin();
    let stdout = std::io::stdout();
    let mut out = BufWriter::new(stdout.lock());
    for line in stdin.lock().lines() {
        writeln!(out, "{}", answer(&line.unwrap())).unwrap();
    }
    out.flush().unwrap();
}
