import Inkayaku.Model.ChessOps
import Inkayaku.Model.Table
import Inkayaku.Model.History
import Inkayaku.Model.Generate
import Inkayaku.Model.SpecOps
import Inkayaku.Model.Pgn
import Inkayaku.Model.Uci
import Inkayaku.Model.SessionOps
import Inkayaku.Model.AppOps
import Inkayaku.Model.Lichess
import Inkayaku.Model.SpecSearch
import Inkayaku.Model.RepSpec
import Inkayaku.Model.Console
import Inkayaku.Spec.UciOut
/-!
`modeldriver`: the model side of the line protocol.  `modeldriver run` reads one request per line from stdin and
writes one canonical answer per line.  Imports Model/Spec/Gen only (no Mathlib), so it links as a native executable.
-/
open Inkayaku

def dispatch (op : String) (args : List String) : String :=
  match op with
  | "legal" => ChessOps.handleLegal args
  | "pseudo" => ChessOps.handlePseudo args
  | "pseudoraw" => ChessOps.handlePseudoRaw args
  | "nq" => ChessOps.handleNq args
  | "perft" => ChessOps.handlePerft args
  | "make" => ChessOps.handleMake args
  | "mkunmk" => ChessOps.handleMkUnmk args
  | "line" => ChessOps.handleLine args
  | "incheck" => ChessOps.handleInCheck args
  | "terminal" => ChessOps.handleTerminal args
  | "anylegal" => ChessOps.handleAnyLegal args
  | "hash" => ChessOps.handleHash args
  | "xor" => ChessOps.handleXor args
  | "fen" => ChessOps.handleFen args
  | "fenvalid" => ChessOps.handleFenValid args
  | "finduci" => ChessOps.handleFindUci args
  | "finduci-all" => ChessOps.handleFindUciAll args
  | "makeuci" => ChessOps.handleMakeUci args
  | "makeall" => ChessOps.handleMakeAll args
  | "ucipgn" => ChessOps.handleUciPgn args
  | "sanmv" => ChessOps.handleSanMv args
  | "san" => ChessOps.handleSan args
  | "eval" => ChessOps.handleEval args
  | "scorefromvalue" => ChessOps.handleScoreFromValue args
  | "features" => ChessOps.handleFeatures args
  | "magic" => ChessOps.handleMagic args
  | "succ" => ChessOps.handleSucc args
  | "legalafter" => ChessOps.handleLegalAfter args
  | "wf" => (match args with | [f] => ChessOps.withBoard f (fun b => if WF.wf b then "1" else "0") | _ => "bad-request")
  | "spec:legal" => SpecOps.handleLegal args
  | "spec:succ" => SpecOps.handleSucc args
  | "spec:incheck" => SpecOps.handleInCheck args
  | "spec:terminal" => SpecOps.handleTerminal args
  | "spec:anylegal" => SpecOps.handleAnyLegal args
  | "spec:san" => SpecOps.handleSan args
  | "spec:nq" => SpecOps.handleNq args
  | "spec:perft" => SpecOps.handlePerft args
  | "spec:legalafter" => SpecOps.handleLegalAfter args
  | "spec:finduci" => SpecOps.handleFindUci args
  | "spec:makeuci" => SpecOps.handleMakeUci args
  | "spec:ucipgn" => SpecOps.handleUciPgn args
  | "spec:makeall" => SpecOps.handleMakeAll args
  | "spec:finduci-all" => SpecOps.handleFindUciAll args
  | "spec:sanmv" => SpecOps.handleSanMv args
  | "spec:gamesan" => SpecOps.handleGameSan args
  | "session" => SessionOps.handleSession args
  | "app" => AppOps.handleApp args
  | "spec-search" => SpecSearch.handleSpecSearch args
  | "rep-search" => RepSpec.handleRepSearch args
  | "perpetual" => RepSpec.handlePerpetual args
  | "json" => Lichess.handleJson args
  | "pgn" => Pgn.handlePgn args
  | "uciparse" => Uci.handleUciParse args
  | "console" => Console.handleConsole args
  | "spec:uciout" =>
    match args with
    | [t] => match Util.tokenString t with
      | some line => if UciOut.accepts line.toList then "accept" else "reject"
      | none => "bad-request"
    | _ => "bad-request"
  | "ucimove" => Uci.handleUciMove args
  | "table" => Table.handleTable args
  | "reps" => History.handleReps args
  | _ => "bad-request"

def runLine (line : String) : String :=
  match (line.trimAscii.toString.splitOn " ").filter (· ≠ "") with
  | [] => "bad-request"
  | op :: args => dispatch op args

partial def loop (h : IO.FS.Stream) (out : IO.FS.Stream) : IO Unit := do
  let line ← h.getLine
  if line.isEmpty then return ()
  out.putStrLn (runLine line)
  loop h out

def main (args : List String) : IO UInt32 := do
  match args with
  | ["run"] =>
    loop (← IO.getStdin) (← IO.getStdout)
    return 0
  | ["gen", "positions", seed, n] =>
    for l in Generate.genPositions seed.toNat! n.toNat! do IO.println l
    return 0
  | ["gen", "repgames", seed, n] =>
    for l in Generate.genRepGames seed.toNat! n.toNat! do IO.println l
    return 0
  | ["gen", "games", seed, n, maxLen] =>
    for l in Generate.genGames seed.toNat! n.toNat! maxLen.toNat! do IO.println l
    return 0
  | _ =>
    IO.eprintln "usage: modeldriver run < requests | gen positions <seed> <n> | gen games <seed> <n> <maxlen>"
    return 2
