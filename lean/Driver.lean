import Inkayaku.Model.ChessOps
import Inkayaku.Model.Table
import Inkayaku.Model.History
/-!
`modeldriver`: the model side of the line protocol.  `modeldriver run` reads one request per line from stdin and
writes one canonical answer per line.  Imports Model/Spec/Gen only (no Mathlib), so it links as a native executable.
-/
open Inkayaku

def dispatch (op : String) (args : List String) : String :=
  match op with
  | "legal" => ChessOps.handleLegal args
  | "pseudo" => ChessOps.handlePseudo args
  | "pseudoraw" => ChessOps.handlePseudoRaw args
  | "nq" => ChessOps.handleNq args
  | "perft" => ChessOps.handlePerft args
  | "make" => ChessOps.handleMake args
  | "mkunmk" => ChessOps.handleMkUnmk args
  | "line" => ChessOps.handleLine args
  | "incheck" => ChessOps.handleInCheck args
  | "terminal" => ChessOps.handleTerminal args
  | "hash" => ChessOps.handleHash args
  | "xor" => ChessOps.handleXor args
  | "fen" => ChessOps.handleFen args
  | "fenvalid" => ChessOps.handleFenValid args
  | "finduci" => ChessOps.handleFindUci args
  | "makeuci" => ChessOps.handleMakeUci args
  | "makeall" => ChessOps.handleMakeAll args
  | "ucipgn" => ChessOps.handleUciPgn args
  | "sanmv" => ChessOps.handleSanMv args
  | "san" => ChessOps.handleSan args
  | "eval" => ChessOps.handleEval args
  | "scorefromvalue" => ChessOps.handleScoreFromValue args
  | "magic" => ChessOps.handleMagic args
  | "table" => Table.handleTable args
  | "reps" => History.handleReps args
  | _ => "bad-request"

def runLine (line : String) : String :=
  match (line.trimAscii.toString.splitOn " ").filter (· ≠ "") with
  | [] => "bad-request"
  | op :: args => dispatch op args

partial def loop (h : IO.FS.Stream) (out : IO.FS.Stream) : IO Unit := do
  let line ← h.getLine
  if line.isEmpty then return ()
  out.putStrLn (runLine line)
  loop h out

def main (args : List String) : IO UInt32 := do
  match args with
  | ["run"] =>
    loop (← IO.getStdin) (← IO.getStdout)
    return 0
  | _ =>
    IO.eprintln "usage: modeldriver run < requests"
    return 2
