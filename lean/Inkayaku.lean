-- root of the library: everything the checks build
import Inkayaku.Model.Util
import Inkayaku.Model.ChessOps
import Inkayaku.Model.SpecOps
import Inkayaku.Model.SessionOps
import Inkayaku.Model.Generate
import Inkayaku.Props.C03
import Inkayaku.Props.C04
import Inkayaku.Props.C05
import Inkayaku.Props.C06
import Inkayaku.Props.C10
import Inkayaku.Props.C10Fifty
import Inkayaku.Props.C11
import Inkayaku.Props.C12
import Inkayaku.Props.C15
import Inkayaku.Props.C17
import Inkayaku.Props.C18
import Inkayaku.Props.C19
