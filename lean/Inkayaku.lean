import Inkayaku.Model.Util
