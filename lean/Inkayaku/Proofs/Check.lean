import Inkayaku.Proofs.Attack
/-!
# `_is_in_check_by_bits`, `is_valid`, `is_current_in_check`, `_is_occupancy_in_check` versus the rules

With exactly one king per side `trailing_zeros(kings)` is the king's square = `Spec.kingSquare`, and
`Attack.squareInCheck_iff` does the rest.
-/
namespace Inkayaku.Check
open Inkayaku.Board Inkayaku.Bits Inkayaku.Attack

/-- the structural part of `WF.wf` the check tests rely on: disjoint piece words and exactly one king per side.
It deliberately does NOT contain `isValid b` (conjunct (4) of `WF.wf`), so that `isValid_iff` is not circular. -/
structure Struct (b : Board) : Prop where
  disjoint : Disjoint b
  whiteKing : WF.popcount b.white.kings = 1
  blackKing : WF.popcount b.black.kings = 1

theorem struct_of_wf {b : Board} (h : WF.wf b = true) : Struct b ∧ b.turn ≤ 1 := by
  simp only [WF.wf, Bool.and_eq_true, beq_iff_eq, decide_eq_true_eq] at h
  obtain ⟨⟨⟨⟨⟨⟨⟨⟨⟨⟨⟨⟨⟨hd, hw⟩, hk⟩, _⟩, ht⟩, _⟩, _⟩, _⟩, _⟩, _⟩, _⟩, _⟩, _⟩, _⟩ := h
  exact ⟨⟨hd, hw, hk⟩, ht⟩

theorem find?_congr' {α} {p q : α → Bool} {l : List α} (h : ∀ x ∈ l, p x = q x) : l.find? p = l.find? q := by
  induction l with
  | nil => rfl
  | cons a t ih =>
    simp only [List.find?_cons, h a (by simp)]
    rw [ih (fun x hx => h x (by simp [hx]))]

theorem any_congr' {α} {p q : α → Bool} {l : List α} (h : ∀ x ∈ l, p x = q x) : l.any p = l.any q := by
  induction l with
  | nil => rfl
  | cons a t ih =>
    simp only [List.any_cons, h a (by simp)]
    rw [ih (fun x hx => h x (by simp [hx]))]

/-- a word with exactly one bit: `trailing_zeros` is that bit -/
theorem single_bit (x : UInt64) (h : WF.popcount x = 1) :
    ∃ s, s < 64 ∧ trailingZeros x = s ∧ (List.range 64).find? (testU x) = some s := by
  obtain ⟨s, hs⟩ := List.length_eq_one_iff.mp h
  have hf : (List.range 64).find? (testU x) = some s := by
    rw [← List.head?_filter]
    show (bitsAsc x).head? = some s
    rw [hs]; rfl
  refine ⟨s, ?_, ?_, hf⟩
  · exact List.mem_range.mp (List.mem_of_find?_eq_some hf)
  · unfold trailingZeros; rw [hf]; rfl

theorem kingSquare_eq (b : Board) (hd : Disjoint b) (w : Bool) :
    Spec.kingSquare (Abs.abs b) w = (List.range 64).find? (testU (sideOf b w).kings) := by
  unfold Spec.kingSquare
  apply find?_congr'
  intro s hs
  have := at_iff b hd s (List.mem_range.mp hs) w .king
  rw [Bool.eq_iff_iff, beq_iff_eq]
  exact this

theorem side_full_occ (b : Board) (w : Bool) (q : Nat) :
    testU ((sideOf b w).full ||| (sideOf b (!w)).full) q = testU (b.white.full ||| b.black.full) q := by
  cases w
  · simp only [sideOf, Bool.false_eq_true, if_false, Bool.not_false, if_true, testU_or, Bool.or_comm]
  · simp only [sideOf, if_true, Bool.not_true, Bool.false_eq_true, if_false]

theorem inCheck_unfold (b : Board) (c : Nat) :
    Board.inCheck b c = squareInCheck c (sideOf b (c != 0)) (trailingZeros (sideOf b (c == 0)).kings)
      ((sideOf b (c == 0)).full ||| (sideOf b (c != 0)).full) := by
  unfold Board.inCheck sideOf
  by_cases hc : c = 0
  · subst hc; simp
  · have h1 : (c == 0) = false := by simpa using hc
    have h2 : (c != 0) = true := by simpa using hc
    simp [h1, h2]

/-- **Item 6.**  `_is_in_check_by_bits(color)` = "the king of `color` is attacked by an enemy piece under the rules".
`c = 0` is white; every other value is treated as black by the code (`color == WHITE`), hence no bound on `c`. -/
theorem inCheck_iff' (b : Board) (hs : Struct b) (c : Nat) :
    Board.inCheck b c = Spec.inCheck (Abs.abs b) (c == 0) := by
  have hk : WF.popcount (sideOf b (c == 0)).kings = 1 := by
    unfold sideOf; split
    · exact hs.whiteKing
    · exact hs.blackKing
  obtain ⟨s, hs64, htz, hfind⟩ := single_bit _ hk
  rw [inCheck_unfold, htz]
  unfold Spec.inCheck
  rw [kingSquare_eq b hs.disjoint, hfind]
  exact squareInCheck_iff_occ b hs.disjoint c s hs64 _ (side_full_occ b (c == 0))

theorem inCheck_iff (b : Board) (h : WF.wf b = true) (c : Nat) (_hc : c ≤ 1) :
    Board.inCheck b c = Spec.inCheck (Abs.abs b) (c == 0) :=
  inCheck_iff' b (struct_of_wf h).1 c

/-- `is_current_in_check` = the side to move is in check under the rules -/
theorem isCurrentInCheck_iff (b : Board) (hs : Struct b) :
    isCurrentInCheck b = Spec.inCheck (Abs.abs b) (Abs.abs b).whiteToMove :=
  inCheck_iff' b hs b.turn

/-- `is_valid` = the side that just moved (the one NOT to move) did not leave its own king attacked -/
theorem isValid_iff (b : Board) (hs : Struct b) (ht : b.turn ≤ 1) :
    isValid b = !Spec.inCheck (Abs.abs b) (!(Abs.abs b).whiteToMove) := by
  unfold isValid
  rw [inCheck_iff' b hs]
  have : ((1 - b.turn) == 0) = !(b.turn == 0) := by
    have : b.turn = 0 ∨ b.turn = 1 := by omega
    rcases this with h | h <;> simp [h]
  rw [this]
  rfl

/-- `_is_occupancy_in_check` (castling: the king's path) = some square of the set is attacked by the enemy of `c` -/
theorem occupancyInCheck_iff (b : Board) (hd : Disjoint b) (c : Nat) (squares : UInt64) :
    occupancyInCheck c (sideOf b (c != 0)) (b.white.full ||| b.black.full) squares =
      (bitsAsc squares).any fun s => Spec.attacked (Abs.abs b) (c != 0) s := by
  unfold occupancyInCheck
  apply any_congr'
  intro s hs
  exact squareInCheck_iff b hd c s (testU_lt ((mem_bitsAsc _ _).mp hs))

end Inkayaku.Check
