import Inkayaku.Proofs.GenOK
import Inkayaku.Proofs.Check
import Inkayaku.Proofs.ZobristStep
/-!
# What the generator guarantees about every move it emits (helper for C02 and C06)

`GenFacts b f` is a decidable predicate on the decoded fields `f` of a move in position `b`.  It is much stronger than
`MakeUnmake.MoveOK` (which only says that `make`/`unmake` do not go wrong): it pins down EVERY field of the packed move
in terms of the position – who moves, which piece stands on the source, which piece is captured and where it stands,
the four "lost castling right" flags, the half-move reset flag, the next e.p. square – and the shape of the move
(castling squares, e.p. victim, promotion rank, pawn geometry, king step).

`genPseudo_facts : wf b → ∀ m ∈ genPseudo b, GenFacts b m.f`.

From it: `genPseudo_hashok` (the hypothesis `ZobristStep.HashMoveOK` of the C06 theorems holds for generated moves).
`Proofs/Successor.lean` uses `GenFacts` to compare `make` with `Spec.apply`.

Structure: `CallOK` = what a call `mkMove b nq src tgt piece castle ep promo epOpp` of the generator satisfies (one
lemma per call site), `mkMove_facts` = the fields `make_move` computes itself, and the fold lemmas of the generator loops.
-/
namespace Inkayaku.GenFacts
open Inkayaku.Board Inkayaku.Gen Inkayaku.WF Inkayaku.MakeUnmake Inkayaku.MoveBits Inkayaku.Attack

/-! ## The predicate -/

/-- the square the captured piece stands on: the target, or for en passant the square behind it -/
def capSq (white ep : Bool) (tgt : Nat) : Nat := if ep then (if white then tgt + 8 else tgt - 8) else tgt

/-- `dCastle` of `make_move`: 0 when white moves, 56 when black moves -/
def dHome (white : Bool) : Nat := if white then 0 else 56

/-- castling: the king goes from its home square two files towards a rook of which the right is still held; that rook
stands on its corner; the squares the king and the rook land on are empty -/
def CastleFacts (b : Board) (src tgt piece : Nat) (ep : Bool) (promo epOpp : Nat) : Prop :=
  let d := dHome b.whiteTurn
  let occ := b.active.full ||| b.passive.full
  piece = KING ∧ ep = false ∧ promo = 0 ∧ epOpp = 0 ∧ src = E1 - d ∧ testU occ tgt = false ∧
  ((tgt = C1 - d ∧ b.active.qs = true ∧ testU b.active.rooks (A1 - d) = true ∧ testU occ (D1 - d) = false) ∨
   (tgt = G1 - d ∧ b.active.ks = true ∧ testU b.active.rooks (H1 - d) = true ∧ testU occ (F1 - d) = false))

/-- en passant: the target is the (non-zero) e.p. square of the position and is empty, the move changes file, the
victim – an enemy pawn – stands one rank behind the target (in range) -/
def EpFacts (b : Board) (src tgt piece : Nat) (castle : Bool) (promo epOpp : Nat) : Prop :=
  piece = PAWN ∧ castle = false ∧ promo = 0 ∧ epOpp = 0 ∧ b.ep = tgt ∧ b.ep ≠ 0 ∧
  testU (b.active.full ||| b.passive.full) tgt = false ∧ src % 8 ≠ tgt % 8 ∧
  (if b.whiteTurn then tgt + 8 < 64 ∧ testU b.passive.pawns (tgt + 8) = true
   else 8 ≤ tgt ∧ testU b.passive.pawns (tgt - 8) = true)

/-- pawn moves: promotion exactly on the last rank; a move that changes file captures (e.p. or a piece on the target);
`epOpp` (the next e.p. square) is non-zero exactly for the double step and then is the square stepped over; every
other pawn move advances exactly one rank -/
def PawnFacts (b : Board) (src tgt : Nat) (castle ep : Bool) (promo epOpp : Nat) : Prop :=
  castle = false ∧ (promo ≠ 0 ↔ (if b.whiteTurn then tgt < 8 else 56 ≤ tgt)) ∧
  (src % 8 ≠ tgt % 8 → ep = true ∨ testU b.passive.full tgt = true) ∧
  (if epOpp = 0 then (if b.whiteTurn then src / 8 = tgt / 8 + 1 else tgt / 8 = src / 8 + 1)
   else ep = false ∧ promo = 0 ∧ testU b.passive.full tgt = false ∧
     (if b.whiteTurn then src = tgt + 16 ∧ epOpp = tgt + 8 else tgt = src + 16 ∧ epOpp = src + 8))

/-- what the generator guarantees about the arguments of a call of `make_move` -/
def CallOK (b : Board) (src tgt piece : Nat) (castle ep : Bool) (promo epOpp : Nat) : Prop :=
  src < 64 ∧ tgt < 64 ∧ 1 ≤ piece ∧ piece ≤ 6 ∧
  -- the piece that moves stands on the source, no piece of the mover on the target, the enemy king is not captured
  testU (b.active.get piece) src = true ∧ testU b.active.full tgt = false ∧ testU b.passive.kings tgt = false ∧
  (castle = true → CastleFacts b src tgt piece ep promo epOpp) ∧
  (ep = true → EpFacts b src tgt piece castle promo epOpp) ∧
  (promo ≠ 0 → piece = PAWN ∧ 2 ≤ promo ∧ promo ≤ 5) ∧
  (piece = PAWN → PawnFacts b src tgt castle ep promo epOpp) ∧
  (piece ≠ PAWN → ep = false ∧ promo = 0 ∧ epOpp = 0) ∧
  -- a king move that is not castling stays within one file of its source
  (piece = KING → castle = false → src % 8 ≤ tgt % 8 + 1 ∧ tgt % 8 ≤ src % 8 + 1)

/-- **everything the generator guarantees about a move `f` it emits in position `b`** -/
def GenFacts (b : Board) (f : MoveF) : Prop :=
  let white := b.whiteTurn
  let d := dHome white
  let cs := capSq white f.enPassant f.target
  -- bookkeeping fields
  b.turn ≤ 1 ∧ f.side = b.turn ∧ f.prevEp = b.ep ∧ f.prevHalfmove = b.halfmove ∧
  -- the piece that moves is the mover's piece on the source square
  f.pieceMoved = b.active.pieceAt f.source ∧
  -- the captured piece is the enemy piece on the capture square (0 iff there is none); it is never a king
  cs < 64 ∧ f.pieceAttacked = b.passive.pieceAt cs ∧ (f.pieceAttacked = 0 ↔ testU b.passive.full cs = false) ∧
  f.pieceAttacked ≠ KING ∧
  f.halfmoveReset = (f.pieceMoved == PAWN || f.pieceAttacked != NO_PIECE) ∧
  -- the lost-right flags: right held ∧ home square touched, exactly as `make_move` computes them
  f.oppLostQueen = (b.passive.qs && f.target == A8 + d) ∧
  f.oppLostKing = (b.passive.ks && f.target == H8 + d) ∧
  f.selfLostQueen = (b.active.qs && (f.source == A1 - d || f.source == E1 - d)) ∧
  f.selfLostKing = (b.active.ks && (f.source == H1 - d || f.source == E1 - d)) ∧
  -- the shape of the move
  CallOK b f.source f.target f.pieceMoved f.castle f.enPassant f.promotion f.nextEp

instance (b : Board) (s t p : Nat) (e : Bool) (pr eo : Nat) : Decidable (CastleFacts b s t p e pr eo) := by
  unfold CastleFacts; exact inferInstance
instance (b : Board) (s t p : Nat) (c : Bool) (pr eo : Nat) : Decidable (EpFacts b s t p c pr eo) := by
  unfold EpFacts; exact inferInstance
instance (b : Board) (s t : Nat) (c e : Bool) (pr eo : Nat) : Decidable (PawnFacts b s t c e pr eo) := by
  unfold PawnFacts; exact inferInstance
instance (b : Board) (s t p : Nat) (c e : Bool) (pr eo : Nat) : Decidable (CallOK b s t p c e pr eo) := by
  unfold CallOK; exact inferInstance
instance (b : Board) (f : MoveF) : Decidable (GenFacts b f) := by unfold GenFacts; exact inferInstance

/-! ## Bits and `pieceAt` -/

theorem testU_clearBit (x : UInt64) (s t : Nat) (hs : s < 64) :
    testU (clearBit x (bitU s)) t = (testU x t && !decide (s = t)) := by
  unfold clearBit testU
  rw [UInt64.toNat_and, Nat.testBit_and, UInt64.toNat_not]
  by_cases ht : t < 64
  · have : (2 ^ 64 - 1 - (bitU s).toNat).testBit t = !(bitU s).toNat.testBit t := by
      rw [show 2 ^ 64 - 1 - (bitU s).toNat = 2 ^ 64 - ((bitU s).toNat + 1) by omega]
      exact Nat.testBit_two_pow_sub_succ (bitU s).toNat_lt t |>.trans (by simp [ht])
    rw [this, Bits.toNat_bitU s hs, Nat.testBit_two_pow]
  · have h1 : x.toNat.testBit t = false := by
      apply Nat.testBit_lt_two_pow
      exact Nat.lt_of_lt_of_le x.toNat_lt (Nat.pow_le_pow_right (by decide) (by omega))
    simp [h1]

theorem get_le_full (s : Side) {p t : Nat} (h1 : 1 ≤ p) (h6 : p ≤ 6) (h : testU (s.get p) t = true) :
    testU s.full t = true := by
  have : p = 1 ∨ p = 2 ∨ p = 3 ∨ p = 4 ∨ p = 5 ∨ p = 6 := by omega
  rcases this with rfl | rfl | rfl | rfl | rfl | rfl <;>
    simp only [Side.get] at h <;> simp [Side.full, Bits.testU_or, h]

theorem get_of_full_false (s : Side) {p t : Nat} (h1 : 1 ≤ p) (h6 : p ≤ 6) (h : testU s.full t = false) :
    testU (s.get p) t = false := by
  cases hh : testU (s.get p) t
  · rfl
  · rw [get_le_full s h1 h6 hh] at h; exact absurd h (by decide)

theorem full_false_words {s : Side} {t : Nat} (h : testU s.full t = false) :
    testU s.pawns t = false ∧ testU s.knights t = false ∧ testU s.bishops t = false ∧ testU s.rooks t = false ∧
    testU s.queens t = false ∧ testU s.kings t = false :=
  ⟨get_of_full_false s (p := 1) (by decide) (by decide) h, get_of_full_false s (p := 2) (by decide) (by decide) h,
   get_of_full_false s (p := 3) (by decide) (by decide) h, get_of_full_false s (p := 4) (by decide) (by decide) h,
   get_of_full_false s (p := 5) (by decide) (by decide) h, get_of_full_false s (p := 6) (by decide) (by decide) h⟩

theorem occ_false {a p : UInt64} {t : Nat} (h : testU (a ||| p) t = false) : testU a t = false ∧ testU p t = false := by
  rw [Bits.testU_or] at h
  cases ha : testU a t <;> cases hp : testU p t <;> simp_all

/-- the piece code is the word that has the bit (disjoint words) -/
theorem pieceAt_of_get (s : Side) {p t : Nat} (ht : t < 64) (hd : (sideWords s).Pairwise (Excl t))
    (h1 : 1 ≤ p) (h6 : p ≤ 6) (h : testU (s.get p) t = true) : s.pieceAt t = p := by
  obtain ⟨e1, e2, e3, e4, e5, e6, _⟩ := pieceAt_spec s t ht hd
  have : p = 1 ∨ p = 2 ∨ p = 3 ∨ p = 4 ∨ p = 5 ∨ p = 6 := by omega
  rcases this with rfl | rfl | rfl | rfl | rfl | rfl <;> simp only [Side.get] at h
  · exact e1.mpr h
  · exact e2.mpr h
  · exact e3.mpr h
  · exact e4.mpr h
  · exact e5.mpr h
  · exact e6.mpr h

/-- conversely the word named by a non-zero piece code has the bit (no disjointness needed) -/
theorem get_of_pieceAt (s : Side) {t : Nat} (ht : t < 64) (h : s.pieceAt t ≠ 0) :
    testU (s.get (s.pieceAt t)) t = true :=
  (GenOK.testU_iff_has ht).2 (GenOK.pieceAt_has s ht h)

theorem pieceAt_le (s : Side) (t : Nat) : s.pieceAt t ≤ 6 := GenOK.pieceAtMask_le s (bitU t)

/-! ## What is used of well-formedness -/

def activeWords (b : Board) : List UInt64 := sideWords b.active
def passiveWords (b : Board) : List UInt64 := sideWords b.passive

/-- the passive king is not attacked: no attack lookup FROM a piece of the mover hits it -/
structure NoHit (b : Board) : Prop where
  rook : ∀ src tgt, src < 64 → tgt < 64 → testU (b.active.rooks ||| b.active.queens) src = true →
    testU (rookAttacks src (b.active.full ||| b.passive.full)) tgt = true → testU b.passive.kings tgt = false
  bishop : ∀ src tgt, src < 64 → tgt < 64 → testU (b.active.bishops ||| b.active.queens) src = true →
    testU (bishopAttacks src (b.active.full ||| b.passive.full)) tgt = true → testU b.passive.kings tgt = false
  knight : ∀ src tgt, src < 64 → tgt < 64 → testU b.active.knights src = true →
    testU (leaperAttacks knightTable src) tgt = true → testU b.passive.kings tgt = false
  king : ∀ src tgt, src < 64 → tgt < 64 → testU b.active.kings src = true →
    testU (leaperAttacks kingTable src) tgt = true → testU b.passive.kings tgt = false
  pawn : ∀ src tgt, src < 64 → tgt < 64 → testU b.active.pawns src = true →
    testU (leaperAttacks (if b.whiteTurn then whitePawnTable else blackPawnTable) src) tgt = true →
    testU b.passive.kings tgt = false

/-- everything the generator proofs use of `wf b` -/
structure Env (b : Board) : Prop where
  w : GenOK.WFacts b
  act : ∀ t, (sideWords b.active).Pairwise (Excl t)
  pas : ∀ t, (sideWords b.passive).Pairwise (Excl t)
  cross : ∀ t, testU b.active.full t = true → testU b.passive.full t = false
  epEmpty : b.ep ≠ 0 → testU (b.active.full ||| b.passive.full) b.ep = false
  noHit : NoHit b

/-! ## The passive king is not attacked (from `isValid b`) -/

theorem rook_sym {s t : Nat} {occ occ' : UInt64} (hs : s < 64) (ht : t < 64) (ho : ∀ q, testU occ q = testU occ' q)
    (h : testU (rookAttacks s occ) t = true) : testU (rookAttacks t occ') s = true := by
  rw [rookAttacks_iff s t occ hs ht] at h
  rw [rookAttacks_iff t s occ' ht hs]
  obtain ⟨hl, hfree⟩ := h
  refine ⟨by rw [Geometry.line_symm Geometry.rook_symOK hs ht]; exact hl, fun q hq => ?_⟩
  rw [← ho]
  apply hfree
  rw [Geometry.between_symm Geometry.rook_symOK ht hs hl]
  exact List.mem_reverse.mpr hq

theorem bishop_sym {s t : Nat} {occ occ' : UInt64} (hs : s < 64) (ht : t < 64) (ho : ∀ q, testU occ q = testU occ' q)
    (h : testU (bishopAttacks s occ) t = true) : testU (bishopAttacks t occ') s = true := by
  rw [bishopAttacks_iff s t occ hs ht] at h
  rw [bishopAttacks_iff t s occ' ht hs]
  obtain ⟨hl, hfree⟩ := h
  refine ⟨by rw [Geometry.line_symm Geometry.bishop_symOK hs ht]; exact hl, fun q hq => ?_⟩
  rw [← ho]
  apply hfree
  rw [Geometry.between_symm Geometry.bishop_symOK ht hs hl]
  exact List.mem_reverse.mpr hq

theorem single_bit' (x : UInt64) (h : popcount x = 1) :
    trailingZeros x < 64 ∧ ∀ t, testU x t = true → t = trailingZeros x := by
  obtain ⟨s, hs64, htz, hf⟩ := Check.single_bit x h
  obtain ⟨s', hs'⟩ := List.length_eq_one_iff.mp h
  have hmem : ∀ t, testU x t = true → t = s' := by
    intro t ht
    have : t ∈ bitsAsc x := (Bits.mem_bitsAsc x t).mpr ht
    rw [hs'] at this
    simpa using this
  have hs's : testU x s' = true := (Bits.mem_bitsAsc x s').mp (by rw [hs']; simp)
  have hxs : testU x s = true := List.find?_some hf
  have : s = s' := hmem s hxs
  subst this
  rw [htz]
  exact ⟨hs64, hmem⟩

theorem inCheck_passive {b : Board} (hturn : b.turn ≤ 1) :
    inCheck b (1 - b.turn) = squareInCheck (1 - b.turn) b.active (trailingZeros b.passive.kings)
      (b.passive.full ||| b.active.full) := by
  have : b.turn = 0 ∨ b.turn = 1 := by omega
  rcases this with h | h <;> simp [inCheck, Board.active, Board.passive, Board.whiteTurn, h]

theorem wf_parts {b : Board} (h : wf b = true) :
    isValid b = true ∧ (b.ep = 0 ∨ testU (b.white.full ||| b.black.full) b.ep = false) := by
  unfold wf at h
  simp only [Bool.and_eq_true, Bool.or_eq_true, Bool.not_eq_true', decide_eq_true_eq, beq_iff_eq] at h
  obtain ⟨⟨⟨⟨⟨⟨⟨⟨⟨⟨⟨⟨⟨-, -⟩, -⟩, -⟩, -⟩, c6⟩, -⟩, -⟩, -⟩, -⟩, c11⟩, -⟩, -⟩, -⟩ := h
  refine ⟨c6, ?_⟩
  rcases c11 with c11 | c11
  · exact Or.inl c11
  · right
    split at c11 <;> simp only [Bool.and_eq_true, beq_iff_eq, Bool.not_eq_true'] at c11 <;> exact c11.1.2

theorem noHit_of_wf {b : Board} (h : wf b = true) : NoHit b := by
  obtain ⟨hst, hturn⟩ := Check.struct_of_wf h
  have hv := (wf_parts h).1
  unfold isValid at hv
  rw [inCheck_passive hturn, squareInCheck_eq_or] at hv
  simp only [Bool.not_eq_true', Bool.or_eq_false_iff] at hv
  obtain ⟨⟨⟨⟨hR, hB⟩, hN⟩, hP⟩, hK⟩ := hv
  have hpk : popcount b.passive.kings = 1 := by
    unfold Board.passive; split
    · exact hst.blackKing
    · exact hst.whiteKing
  obtain ⟨hK64, hKu⟩ := single_bit' _ hpk
  have hocc : ∀ q, testU (b.active.full ||| b.passive.full) q = testU (b.passive.full ||| b.active.full) q := by
    intro q; simp only [Bits.testU_or, Bool.or_comm]
  have contra : ∀ {x y : UInt64} {s : Nat}, (x &&& y != 0) = false → s < 64 → testU x s = true → testU y s = true →
      False := by
    intro x y s h0 hs hx hy
    have : (x &&& y != 0) = true := (Bits.and_ne_zero_iff x y).mpr ⟨s, hs, hx, hy⟩
    rw [h0] at this; exact absurd this (by decide)
  refine ⟨?_, ?_, ?_, ?_, ?_⟩
  · intro src tgt hs ht hsrc hatt
    cases hk : testU b.passive.kings tgt
    · rfl
    · have := hKu tgt hk; subst this
      exact (contra hR hs (rook_sym hs ht hocc hatt) hsrc).elim
  · intro src tgt hs ht hsrc hatt
    cases hk : testU b.passive.kings tgt
    · rfl
    · have := hKu tgt hk; subst this
      exact (contra hB hs (bishop_sym hs ht hocc hatt) hsrc).elim
  · intro src tgt hs ht hsrc hatt
    cases hk : testU b.passive.kings tgt
    · rfl
    · have := hKu tgt hk; subst this
      rw [leaperAttacks_eq Geometry.knight_tableOK _ _ hs ht, Geometry.rel_symm Geometry.knight_relSymOK hs ht,
        ← leaperAttacks_eq Geometry.knight_tableOK _ _ ht hs] at hatt
      exact (contra hN hs hatt hsrc).elim
  · intro src tgt hs ht hsrc hatt
    cases hk : testU b.passive.kings tgt
    · rfl
    · have := hKu tgt hk; subst this
      rw [leaperAttacks_eq Geometry.king_tableOK _ _ hs ht, Geometry.rel_symm Geometry.king_relSymOK hs ht,
        ← leaperAttacks_eq Geometry.king_tableOK _ _ ht hs] at hatt
      exact (contra hK hs hatt hsrc).elim
  · intro src tgt hs ht hsrc hatt
    cases hk : testU b.passive.kings tgt
    · rfl
    · have := hKu tgt hk; subst this
      have ht' : b.turn = 0 ∨ b.turn = 1 := by omega
      rcases ht' with h0 | h1
      · simp only [Board.whiteTurn, h0, beq_self_eq_true, if_true] at hatt
        simp only [h0, Nat.sub_zero, Nat.reduceBEq, Bool.false_eq_true, if_false] at hP
        rw [leaperAttacks_eq Geometry.whitePawn_tableOK _ _ hs ht, Geometry.rel_symm Geometry.pawn_relSymOK hs ht,
          ← leaperAttacks_eq Geometry.blackPawn_tableOK _ _ ht hs] at hatt
        exact (contra hP hs hatt hsrc).elim
      · simp only [Board.whiteTurn, h1, Nat.reduceBEq, Bool.false_eq_true, if_false] at hatt
        simp only [h1, Nat.sub_self, beq_self_eq_true, if_true] at hP
        rw [leaperAttacks_eq Geometry.blackPawn_tableOK _ _ hs ht, ← Geometry.rel_symm Geometry.pawn_relSymOK ht hs,
          ← leaperAttacks_eq Geometry.whitePawn_tableOK _ _ ht hs] at hatt
        exact (contra hP hs hatt hsrc).elim

theorem env_of_wf {b : Board} (h : wf b = true) : Env b := by
  obtain ⟨hst, hturn⟩ := Check.struct_of_wf h
  have hd := hst.disjoint
  have hpw : ∀ t, (sideWords b.white).Pairwise (Excl t) ∧ (sideWords b.black).Pairwise (Excl t) ∧
      ∀ x ∈ sideWords b.white, ∀ y ∈ sideWords b.black, Excl t x y := by
    intro t
    have := hd.pairwise t
    rw [List.pairwise_append] at this
    exact this
  have hcross : ∀ t, ¬ (testU b.white.full t = true ∧ testU b.black.full t = true) := by
    intro t ⟨h1, h2⟩
    obtain ⟨x, hx, hxt⟩ := (full_iff _ _).mp h1
    obtain ⟨y, hy, hyt⟩ := (full_iff _ _).mp h2
    exact (hpw t).2.2 x hx y hy ⟨hxt, hyt⟩
  refine ⟨GenOK.wf_facts h, ?_, ?_, ?_, ?_, noHit_of_wf h⟩
  · intro t; unfold Board.active; split
    · exact (hpw t).1
    · exact (hpw t).2.1
  · intro t; unfold Board.passive; split
    · exact (hpw t).2.1
    · exact (hpw t).1
  · intro t ht
    unfold Board.active at ht; unfold Board.passive
    cases hw : b.whiteTurn <;> simp only [hw, Bool.false_eq_true, if_false, if_true] at ht ⊢
    · cases hh : testU b.white.full t
      · rfl
      · exact (hcross t ⟨hh, ht⟩).elim
    · cases hh : testU b.black.full t
      · rfl
      · exact (hcross t ⟨ht, hh⟩).elim
  · intro hne
    rcases (wf_parts h).2 with h0 | h0
    · exact absurd h0 hne
    · unfold Board.active Board.passive
      cases hw : b.whiteTurn <;> simp only [Bool.false_eq_true, if_false, if_true]
      · rw [Bits.testU_or, Bool.or_comm, ← Bits.testU_or]; exact h0
      · exact h0

/-! ## `make_move` -/

theorem callOK_epOpp_lt {b : Board} {src tgt piece promo epOpp : Nat} {castle ep : Bool}
    (hc : CallOK b src tgt piece castle ep promo epOpp) : epOpp < 64 := by
  obtain ⟨hs, ht, -, -, -, -, -, -, -, -, hpawn, hnp, -⟩ := hc
  by_cases hp : piece = PAWN
  · obtain ⟨-, -, -, h4⟩ := hpawn hp
    by_cases h0 : epOpp = 0
    · omega
    · rw [if_neg h0] at h4
      obtain ⟨-, -, -, h5⟩ := h4
      split at h5 <;> omega
  · have := (hnp hp).2.2; omega

theorem callOK_capSq_lt {b : Board} {src tgt piece promo epOpp : Nat} {castle ep : Bool}
    (hc : CallOK b src tgt piece castle ep promo epOpp) : capSq b.whiteTurn ep tgt < 64 := by
  obtain ⟨hs, ht, -, -, -, -, -, -, hep, -⟩ := hc
  unfold capSq
  cases he : ep
  · simpa using ht
  · obtain ⟨-, -, -, -, -, -, -, -, h9⟩ := hep he
    simp only [if_true]
    split at h9 <;> simp_all <;> omega

theorem mkMove_facts {b : Board} {nq castle ep : Bool} {src tgt piece promo epOpp : Nat} {m : Move}
    (he : Env b) (hc : CallOK b src tgt piece castle ep promo epOpp)
    (h : mkMove b nq src tgt piece castle ep promo epOpp = some m) : GenFacts b m.f := by
  have hb := he.w.basic
  have heo := callOK_epOpp_lt hc
  have hcs := callOK_capSq_lt hc
  have hcap : (if b.whiteTurn = true then tgt + (if ep = true then 8 else 0) else tgt - (if ep = true then 8 else 0))
      = capSq b.whiteTurn ep tgt := by
    unfold capSq; cases ep <;> cases b.whiteTurn <;> simp
  unfold mkMove at h
  simp only at h
  rw [hcap] at h
  generalize hcsq : capSq b.whiteTurn ep tgt = cs at h hcs
  by_cases hq : (b.passive.pieceAt cs == NO_PIECE && promo == NO_PIECE && nq) = true
  · rw [if_pos hq] at h; exact absurd h (by simp)
  · rw [if_neg hq] at h
    simp only [Option.some.injEq] at h
    subst h
    obtain ⟨hs, ht, hp1, hp6, hsrc, htgt, hking, hcastle, hep, hpromo, hpawn, hnp, hkstep⟩ := hc
    have hatt6 : b.passive.pieceAt cs ≤ 6 := pieceAt_le _ _
    have hpr : promo < 8 := by
      by_cases h0 : promo = 0
      · omega
      · have := hpromo h0; omega
    have hfit : FieldsFit
        { pieceMoved := piece, pieceAttacked := b.passive.pieceAt cs,
          selfLostKing := b.active.ks && (src == H1 - (if b.whiteTurn = true then 0 else 56) || src == E1 - (if b.whiteTurn = true then 0 else 56)),
          selfLostQueen := b.active.qs && (src == A1 - (if b.whiteTurn = true then 0 else 56) || src == E1 - (if b.whiteTurn = true then 0 else 56)),
          oppLostKing := !(b.passive.qs && tgt == A8 + (if b.whiteTurn = true then 0 else 56)) && b.passive.ks && tgt == H8 + (if b.whiteTurn = true then 0 else 56),
          oppLostQueen := b.passive.qs && tgt == A8 + (if b.whiteTurn = true then 0 else 56),
          castle := castle, enPassant := ep, source := src, target := tgt,
          halfmoveReset := piece == PAWN || b.passive.pieceAt cs != NO_PIECE,
          prevHalfmove := b.halfmove, prevEp := b.ep, nextEp := epOpp, promotion := promo, side := b.turn } := by
      have := hb.turn; have := hb.hm; have := hb.ep
      unfold FieldsFit; simp only; omega
    unfold Move.f
    simp only
    rw [decode_encode hfit]
    unfold GenFacts
    dsimp only
    rw [hcsq]
    have hlost : (!(b.passive.qs && tgt == A8 + (if b.whiteTurn = true then 0 else 56)) && b.passive.ks &&
        tgt == H8 + (if b.whiteTurn = true then 0 else 56))
        = (b.passive.ks && tgt == H8 + dHome b.whiteTurn) := by
      unfold dHome
      by_cases h1 : tgt = A8 + (if b.whiteTurn = true then 0 else 56)
      · have : (tgt == H8 + (if b.whiteTurn = true then 0 else 56)) = false := by
          simp only [A8, H8] at h1 ⊢; simp only [beq_eq_false_iff_ne, ne_eq]; omega
        simp [this]
      · have : (tgt == A8 + (if b.whiteTurn = true then 0 else 56)) = false := by simpa using h1
        simp [this]
    refine ⟨hb.turn, rfl, rfl, rfl, ?_, hcs, rfl, ?_, ?_, rfl, rfl, hlost, rfl, rfl,
      hs, ht, hp1, hp6, hsrc, htgt, hking, hcastle, hep, hpromo, hpawn, hnp, hkstep⟩
    · exact (pieceAt_of_get _ hs (he.act src) hp1 hp6 hsrc).symm
    · exact pieceAt_zero _ _ hcs
    · -- the captured piece is not a king
      intro hk
      have h6 := (pieceAt_spec b.passive cs hcs (he.pas cs)).2.2.2.2.2.1
      have hkk : testU b.passive.kings cs = true := h6.mp hk
      cases hee : ep
      · subst hcsq; simp only [capSq, hee, Bool.false_eq_true, if_false] at hkk
        rw [hking] at hkk; exact absurd hkk (by decide)
      · obtain ⟨-, -, -, -, -, -, -, -, h9⟩ := hep hee
        have hpw : testU b.passive.pawns cs = true := by
          subst hcsq; simp only [capSq, hee, if_true]
          split at h9 <;> simp_all
        have := pieceAt_of_get b.passive hcs (he.pas cs) (p := 1) (by decide) (by decide) hpw
        rw [this] at hk; exact absurd hk (by decide)

/-! ## Loops -/

def AllF (b : Board) (l : List Move) : Prop := ∀ m ∈ l, GenFacts b m.f

theorem allF_nil (b : Board) : AllF b [] := fun _ h => absurd h List.not_mem_nil

theorem pushOpt_all {b : Board} {acc : List Move} {o : Option Move} (hacc : AllF b acc)
    (h : ∀ m, o = some m → GenFacts b m.f) : AllF b (pushOpt acc o) := by
  cases o with
  | none => exact hacc
  | some x =>
    intro m hm
    simp only [pushOpt, List.mem_append, List.mem_singleton] at hm
    rcases hm with hm | rfl
    · exact hacc m hm
    · exact h _ rfl

theorem push_call {b : Board} {acc : List Move} {nq castle ep : Bool} {src tgt piece promo epOpp : Nat}
    (he : Env b) (hacc : AllF b acc) (hc : CallOK b src tgt piece castle ep promo epOpp) :
    AllF b (pushOpt acc (mkMove b nq src tgt piece castle ep promo epOpp)) :=
  pushOpt_all hacc (fun _ hm => mkMove_facts he hc hm)

theorem foldl_all {α : Type} {b : Board} (xs : List α) (step : List Move → α → List Move) (acc : List Move)
    (hstep : ∀ acc x, x ∈ xs → AllF b acc → AllF b (step acc x)) (hacc : AllF b acc) :
    AllF b (xs.foldl step acc) := by
  induction xs generalizing acc with
  | nil => exact hacc
  | cons x xs ih =>
    simp only [List.foldl_cons]
    exact ih _ (fun a y hy => hstep a y (List.mem_cons_of_mem _ hy)) (hstep _ _ (List.mem_cons_self ..) hacc)

theorem testU_not (x : UInt64) (t : Nat) (ht : t < 64) : testU (~~~x) t = !testU x t := by
  unfold testU
  rw [UInt64.toNat_not, show 2 ^ 64 - 1 - x.toNat = 2 ^ 64 - (x.toNat + 1) by omega]
  exact (Nat.testBit_two_pow_sub_succ x.toNat_lt t).trans (by simp [ht])

/-- a target taken from `att &&& ~~~activeOcc` -/
theorem mem_masked {att full : UInt64} {t : Nat} (h : t ∈ bitsAsc (att &&& ~~~full)) :
    t < 64 ∧ testU att t = true ∧ testU full t = false := by
  have h1 := (Bits.mem_bitsAsc _ _).mp h
  have ht := Bits.testU_lt h1
  rw [Bits.testU_and, testU_not _ _ ht] at h1
  cases ha : testU att t <;> cases hf : testU full t <;> simp_all

/-! ## Pieces other than pawns -/

theorem callOK_piece {b : Board} {src tgt piece : Nat} (hs : src < 64) (ht : tgt < 64) (hp2 : 2 ≤ piece) (hp6 : piece ≤ 6)
    (hS : testU (b.active.get piece) src = true) (hT : testU b.active.full tgt = false)
    (hK : testU b.passive.kings tgt = false)
    (hstep : piece = KING → src % 8 ≤ tgt % 8 + 1 ∧ tgt % 8 ≤ src % 8 + 1) :
    CallOK b src tgt piece false false NO_PIECE 0 :=
  ⟨hs, ht, by omega, hp6, hS, hT, hK, fun h => absurd h (by decide), fun h => absurd h (by decide),
   fun h => absurd rfl h, fun h => by simp only [PAWN] at h; omega, fun _ => ⟨rfl, rfl, rfl⟩, fun hk _ => hstep hk⟩

theorem genAttacks_all {b : Board} {nq : Bool} {src piece : Nat} {att : UInt64} {acc : List Move}
    (he : Env b) (hs : src < 64) (hp2 : 2 ≤ piece) (hp6 : piece ≤ 6)
    (hS : testU (b.active.get piece) src = true)
    (hK : ∀ tgt, tgt < 64 → testU att tgt = true → testU b.passive.kings tgt = false)
    (hstep : piece = KING → ∀ tgt, tgt < 64 → testU att tgt = true → src % 8 ≤ tgt % 8 + 1 ∧ tgt % 8 ≤ src % 8 + 1)
    (hacc : AllF b acc) : AllF b (genAttacks b nq src (att &&& ~~~b.active.full) piece acc) := by
  unfold genAttacks
  apply foldl_all _ _ _ _ hacc
  intro acc tgt htgt hacc
  obtain ⟨ht, ha, hf⟩ := mem_masked htgt
  exact push_call he hacc (callOK_piece hs ht hp2 hp6 hS hf (hK tgt ht ha) (fun hk => hstep hk tgt ht ha))

theorem testU_or_left {a c : UInt64} {t : Nat} (h : testU a t = true) : testU (a ||| c) t = true := by
  rw [Bits.testU_or, h]; rfl
theorem testU_or_right {a c : UInt64} {t : Nat} (h : testU c t = true) : testU (a ||| c) t = true := by
  rw [Bits.testU_or, h]; simp

/-- the four sliding calls: `word` is the queens, bishops or rooks word, which is part of the slider word -/
theorem slidingMoves_all {b : Board} {nq rook : Bool} {piece : Nat} {acc : List Move}
    (he : Env b) (hp2 : 2 ≤ piece) (hp5 : piece ≤ 5)
    (hsub : ∀ s, testU (b.active.get piece) s = true →
      testU (if rook then b.active.rooks ||| b.active.queens else b.active.bishops ||| b.active.queens) s = true)
    (hacc : AllF b acc) :
    AllF b (slidingMoves b nq (b.active.get piece) b.active.full (b.active.full ||| b.passive.full) rook piece acc) := by
  unfold slidingMoves
  apply foldl_all _ _ _ _ hacc
  intro acc src hsrc hacc
  have hS := (Bits.mem_bitsAsc _ _).mp hsrc
  have hs := Bits.testU_lt hS
  refine genAttacks_all he hs hp2 (by omega) hS ?_ (fun hk => by simp only [KING] at hk; omega) hacc
  intro tgt ht ha
  have hw := hsub src hS
  cases rook
  · exact he.noHit.bishop src tgt hs ht hw ha
  · exact he.noHit.rook src tgt hs ht hw ha

theorem king_step : ∀ a, a < 64 → ∀ t, t < 64 → Geometry.kingGeom a t = true → a % 8 ≤ t % 8 + 1 ∧ t % 8 ≤ a % 8 + 1 := by
  intro a _ t _ h
  simp only [Geometry.kingGeom, Spec.fileOf, Bool.and_eq_true] at h
  have := of_decide_eq_true h.2.1
  omega

theorem knights_all {b : Board} {nq : Bool} {acc : List Move} (he : Env b) (hacc : AllF b acc) :
    AllF b (singleMoves b nq (b.active.get KNIGHT) b.active.full knightTable KNIGHT acc) := by
  unfold singleMoves
  apply foldl_all _ _ _ _ hacc
  intro acc src hsrc hacc
  have hS := (Bits.mem_bitsAsc _ _).mp hsrc
  have hs := Bits.testU_lt hS
  exact genAttacks_all he hs (by decide) (by decide) hS (fun tgt ht ha => he.noHit.knight src tgt hs ht hS ha)
    (fun hk => absurd hk (by decide)) hacc

theorem kings_all {b : Board} {nq : Bool} {acc : List Move} (he : Env b) (hacc : AllF b acc) :
    AllF b (singleMoves b nq (b.active.get KING) b.active.full kingTable KING acc) := by
  unfold singleMoves
  apply foldl_all _ _ _ _ hacc
  intro acc src hsrc hacc
  have hS := (Bits.mem_bitsAsc _ _).mp hsrc
  have hs := Bits.testU_lt hS
  refine genAttacks_all he hs (by decide) (by decide) hS (fun tgt ht ha => he.noHit.king src tgt hs ht hS ha) ?_ hacc
  intro _ tgt ht ha
  rw [leaperAttacks_eq Geometry.king_tableOK _ _ hs ht] at ha
  exact king_step src hs tgt ht ha

/-! ## Pawns -/

theorem pawn_geom_white : ∀ a, a < 64 → ∀ t, t < 64 → Geometry.pawnGeom true a t = true →
    a % 8 ≠ t % 8 ∧ a / 8 = t / 8 + 1 := by
  intro a _ t _ h
  simp only [Geometry.pawnGeom, Spec.fileOf, Spec.rowOf, Bool.and_eq_true, beq_iff_eq, if_true] at h
  omega

theorem pawn_geom_black : ∀ a, a < 64 → ∀ t, t < 64 → Geometry.pawnGeom false a t = true →
    a % 8 ≠ t % 8 ∧ t / 8 = a / 8 + 1 := by
  intro a _ t _ h
  simp only [Geometry.pawnGeom, Spec.fileOf, Spec.rowOf, Bool.and_eq_true, beq_iff_eq, Bool.false_eq_true, if_false] at h
  omega

/-- pawn move that is neither e.p. nor a double step -/
theorem callOK_pawn {b : Board} {src tgt promo : Nat} (hs : src < 64) (ht : tgt < 64)
    (hS : testU b.active.pawns src = true) (hT : testU b.active.full tgt = false)
    (hK : testU b.passive.kings tgt = false)
    (hpr : promo ≠ 0 → 2 ≤ promo ∧ promo ≤ 5)
    (hlast : promo ≠ 0 ↔ (if b.whiteTurn then tgt < 8 else 56 ≤ tgt))
    (hfile : src % 8 ≠ tgt % 8 → testU b.passive.full tgt = true)
    (hrow : if b.whiteTurn then src / 8 = tgt / 8 + 1 else tgt / 8 = src / 8 + 1) :
    CallOK b src tgt PAWN false false promo 0 :=
  ⟨hs, ht, by decide, by decide, hS, hT, hK, fun h => absurd h (by decide), fun h => absurd h (by decide),
   fun h => ⟨rfl, hpr h⟩, fun _ => ⟨rfl, hlast, fun h => Or.inr (hfile h), by rw [if_pos rfl]; exact hrow⟩,
   fun h => absurd rfl h, fun h => absurd h (by decide)⟩

theorem promotions_all {b : Board} {src tgt : Nat} {acc : List Move} (he : Env b)
    (hc : ∀ p, 2 ≤ p → p ≤ 5 → CallOK b src tgt PAWN false false p 0) (hacc : AllF b acc) :
    AllF b (promotions b src tgt acc) := by
  unfold promotions
  apply foldl_all _ _ _ _ hacc
  intro acc p hp hacc
  have hp' : p = 5 ∨ p = 4 ∨ p = 3 ∨ p = 2 := by simpa [QUEEN, ROOK, BISHOP, KNIGHT] using hp
  exact push_call he hacc (hc p (by omega) (by omega))

theorem last_of_r18 : ∀ t, t < 64 →
    (bitU t &&& rank8.toUInt64 != 0 || bitU t &&& rank1.toUInt64 != 0) = true → t < 8 ∨ 56 ≤ t := by decide
theorem cond_of_r18 : ∀ t, t < 64 → testU rank18 t = false →
    (bitU t &&& rank8.toUInt64 != 0 || bitU t &&& rank1.toUInt64 != 0) = false := by decide

theorem pawn_src {b : Board} (he : Env b) {src : Nat} (hs : src < 64) (hS : testU b.active.pawns src = true) :
    8 ≤ src ∧ src < 56 := GenOK.pawn_mid he.w hs ((GenOK.testU_iff_has hs).1 hS)

theorem pawnAttacks_all {b : Board} {acc : List Move} (he : Env b) (hacc : AllF b acc) :
    AllF b (pawnAttacks b b.active.pawns b.active.full b.passive.full acc) := by
  have hb := he.w.basic
  unfold pawnAttacks
  apply foldl_all _ _ _ _ hacc
  intro acc src hsrc hacc
  have hS := (Bits.mem_bitsAsc _ _).mp hsrc
  have hs := Bits.testU_lt hS
  have hmidS := pawn_src he hs hS
  simp only
  apply foldl_all _ _ _ _ hacc
  intro acc tgt htgt hacc
  obtain ⟨ht, ha, hf⟩ := mem_masked htgt
  rw [Bits.testU_and] at ha
  simp only [Bool.and_eq_true] at ha
  obtain ⟨hatt, hcap⟩ := ha
  rw [Bits.testU_or, Bits.testU_and, Bits.testU_bitU _ _ hb.ep, testU_not _ _ ht] at hcap
  have hK : testU b.passive.kings tgt = false := he.noHit.pawn src tgt hs ht hS hatt
  -- geometry of the capture
  have hgeo : src % 8 ≠ tgt % 8 ∧ (if b.whiteTurn then src / 8 = tgt / 8 + 1 else tgt / 8 = src / 8 + 1) := by
    cases hw : b.whiteTurn
    · simp only [hw, Bool.false_eq_true, if_false] at hatt ⊢
      rw [leaperAttacks_eq Geometry.blackPawn_tableOK _ _ hs ht] at hatt
      exact pawn_geom_black src hs tgt ht hatt
    · simp only [hw, if_true] at hatt ⊢
      rw [leaperAttacks_eq Geometry.whitePawn_tableOK _ _ hs ht] at hatt
      exact pawn_geom_white src hs tgt ht hatt
  cases hc : (bitU tgt &&& rank8.toUInt64 != 0 || bitU tgt &&& rank1.toUInt64 != 0)
  · simp only [Bool.false_eq_true, if_false]
    have hmid := GenOK.mid_of_not_r18 tgt ht hc
    have hlast : (NO_PIECE ≠ 0) ↔ (if b.whiteTurn then tgt < 8 else 56 ≤ tgt) := by
      constructor
      · intro h; exact absurd rfl h
      · intro h; split at h <;> omega
    cases hee : (tgt == b.ep)
    · have hne : ¬ b.ep = tgt := by intro h; rw [h] at hee; simp at hee
      have hP : testU b.passive.full tgt = true := by
        cases hh : testU b.passive.full tgt
        · rw [hh] at hcap; simp [hne] at hcap
        · rfl
      exact push_call he hacc (callOK_pawn hs ht hS hf hK (fun h => absurd rfl h) hlast (fun _ => hP) hgeo.2)
    · have hte : tgt = b.ep := by simpa using hee
      have hep0 : b.ep ≠ 0 := by omega
      have hepw := he.w.epOK hep0
      have hempty := he.epEmpty hep0
      refine push_call he hacc ⟨hs, ht, by decide, by decide, hS, hf, hK, fun h => absurd h (by decide), fun _ => ?_,
        fun h => absurd rfl h, fun _ => ⟨rfl, hlast, fun _ => Or.inl rfl, by rw [if_pos rfl]; exact hgeo.2⟩,
        fun h => absurd rfl h, fun h => absurd h (by decide)⟩
      refine ⟨rfl, rfl, rfl, rfl, hte.symm, hep0, by rw [hte]; exact hempty, hgeo.1, ?_⟩
      by_cases ht0 : b.turn = 0
      · have hwt : b.whiteTurn = true := by simp [Board.whiteTurn, ht0]
        rw [if_pos ht0] at hepw
        simp only [hwt, if_true, Board.passive]
        rw [hte]; exact ⟨by omega, hepw.2⟩
      · have hwt : b.whiteTurn = false := by simp [Board.whiteTurn, ht0]
        rw [if_neg ht0] at hepw
        simp only [hwt, Bool.false_eq_true, if_false, Board.passive]
        rw [hte]; exact ⟨by omega, hepw.2⟩
  · simp only [if_true]
    have hl := last_of_r18 tgt ht hc
    have hP : testU b.passive.full tgt = true := by
      cases hh : testU b.passive.full tgt
      · rw [hh] at hcap
        simp only [Bool.false_or, Bool.and_eq_true, Bool.not_eq_true'] at hcap
        rw [cond_of_r18 tgt ht hcap.2] at hc; exact absurd hc (by decide)
      · rfl
    apply promotions_all he _ hacc
    intro p hp2 hp5
    refine callOK_pawn hs ht hS hf hK (fun _ => ⟨hp2, hp5⟩) ?_ (fun _ => hP) hgeo.2
    constructor
    · intro _
      have := hgeo.2
      split at this <;> simp_all <;> omega
    · intro _; omega

theorem occ_free {occ : UInt64} {t : Nat} (ht : t < 64) (h : (bitU t &&& occ == 0) = true) : testU occ t = false := by
  have h0 : bitU t &&& occ = 0 := by simpa using h
  have := (Bits.and_eq_zero_iff _ _).mp h0 t ht
  rw [Bits.testU_bitU t t ht] at this
  cases hh : testU occ t
  · rfl
  · exact (this ⟨by simp, hh⟩).elim

theorem not_r8 : ∀ t, t < 64 → (bitU t &&& rank8.toUInt64 == 0) = true → 8 ≤ t := by decide
theorem is_r8 : ∀ t, t < 64 → ¬ (bitU t &&& rank8.toUInt64 == 0) = true → t < 8 := by decide
theorem not_r1 : ∀ t, t < 64 → (bitU t &&& rank1.toUInt64 == 0) = true → t < 56 := by decide
theorem is_r1 : ∀ t, t < 64 → ¬ (bitU t &&& rank1.toUInt64 == 0) = true → 56 ≤ t := by decide

/-- single step onto an empty square (promotion or not) -/
theorem callOK_push {b : Board} {src tgt promo : Nat} (hs : src < 64) (ht : tgt < 64)
    (hS : testU b.active.pawns src = true) (hfree : testU (b.active.full ||| b.passive.full) tgt = false)
    (hpr : promo ≠ 0 → 2 ≤ promo ∧ promo ≤ 5)
    (hlast : promo ≠ 0 ↔ (if b.whiteTurn then tgt < 8 else 56 ≤ tgt))
    (hfile : src % 8 = tgt % 8)
    (hrow : if b.whiteTurn then src / 8 = tgt / 8 + 1 else tgt / 8 = src / 8 + 1) :
    CallOK b src tgt PAWN false false promo 0 :=
  callOK_pawn hs ht hS (occ_false hfree).1 (full_false_words (occ_false hfree).2).2.2.2.2.2 hpr hlast
    (fun h => absurd hfile h) hrow

/-- double step -/
theorem callOK_double {b : Board} {src tgt mid : Nat} (hs : src < 64) (ht : tgt < 64)
    (hS : testU b.active.pawns src = true) (hfree : testU (b.active.full ||| b.passive.full) tgt = false)
    (hmid0 : mid ≠ 0) (hfile : src % 8 = tgt % 8) (hnl : ¬ (if b.whiteTurn then tgt < 8 else 56 ≤ tgt))
    (hgeo : if b.whiteTurn then src = tgt + 16 ∧ mid = tgt + 8 else tgt = src + 16 ∧ mid = src + 8) :
    CallOK b src tgt PAWN false false NO_PIECE mid :=
  ⟨hs, ht, by decide, by decide, hS, (occ_false hfree).1, (full_false_words (occ_false hfree).2).2.2.2.2.2,
   fun h => absurd h (by decide), fun h => absurd h (by decide), fun h => absurd rfl h,
   fun _ => ⟨rfl, ⟨fun h => absurd rfl h, fun h => absurd h hnl⟩, fun h => absurd hfile h,
     by rw [if_neg hmid0]; exact ⟨rfl, rfl, (occ_false hfree).2, hgeo⟩⟩,
   fun h => absurd rfl h, fun h => absurd h (by decide)⟩

theorem pawnMoves_all {b : Board} {nq : Bool} {acc : List Move} (he : Env b) (hacc : AllF b acc) :
    AllF b (pawnMoves b nq b.active.pawns (b.active.full ||| b.passive.full) acc) := by
  unfold pawnMoves
  apply foldl_all _ _ _ _ hacc
  intro acc src hsrc hacc
  have hS := (Bits.mem_bitsAsc _ _).mp hsrc
  have hs := Bits.testU_lt hS
  have hmid := pawn_src he hs hS
  simp only
  cases hwt : b.whiteTurn
  · -- black: pawns move towards higher square numbers
    simp only [Bool.false_eq_true, if_false]
    rw [GenOK.shl8 src hmid.2, GenOK.tz_bitU (src + 8) (by omega)]
    split
    · next hfree =>
      have hf1 := occ_free (by omega) hfree
      split
      · next hnp =>
        have hn := not_r1 (src + 8) (by omega) hnp
        have h1 : AllF b (pushOpt acc (mkMove b nq src (src + 8) PAWN false false NO_PIECE 0)) :=
          push_call he hacc (callOK_push hs (by omega) hS hf1 (fun h => absurd rfl h)
            ⟨fun h => absurd rfl h, fun h => by rw [hwt] at h; simp at h; omega⟩ (by omega) (by rw [hwt]; simp <;> omega))
        split
        · next hd =>
          simp only [Bool.and_eq_true] at hd
          have h16 := GenOK.of_rank7 src hs hd.1
          have hd2 := hd.2
          rw [GenOK.shl8 (src + 8) (by omega)] at hd2 ⊢
          rw [GenOK.tz_bitU (src + 8 + 8) (by omega)]
          exact push_call he h1 (callOK_double hs (by omega) hS (occ_free (by omega) hd2) (by omega) (by omega)
            (by rw [hwt]; simp <;> omega) (by rw [hwt]; simp))
        · exact h1
      · next hnp =>
        have hn := is_r1 (src + 8) (by omega) hnp
        apply promotions_all he _ hacc
        intro p hp2 hp5
        exact callOK_push hs (by omega) hS hf1 (fun _ => ⟨hp2, hp5⟩)
          ⟨fun _ => by rw [hwt]; simpa using hn, fun _ => by omega⟩ (by omega) (by rw [hwt]; simp <;> omega)
    · exact hacc
  · -- white: pawns move towards lower square numbers
    simp only [if_true]
    rw [GenOK.shr8 src hs hmid.1, GenOK.tz_bitU (src - 8) (by omega)]
    split
    · next hfree =>
      have hf1 := occ_free (by omega) hfree
      split
      · next hnp =>
        have hn := not_r8 (src - 8) (by omega) hnp
        have h1 : AllF b (pushOpt acc (mkMove b nq src (src - 8) PAWN false false NO_PIECE 0)) :=
          push_call he hacc (callOK_push hs (by omega) hS hf1 (fun h => absurd rfl h)
            ⟨fun h => absurd rfl h, fun h => by rw [hwt] at h; simp at h; omega⟩ (by omega) (by rw [hwt]; simp <;> omega))
        split
        · next hd =>
          simp only [Bool.and_eq_true] at hd
          have h48 := GenOK.of_rank2 src hs hd.1
          have hd2 := hd.2
          rw [GenOK.shr8 (src - 8) (by omega) (by omega)] at hd2 ⊢
          rw [GenOK.tz_bitU (src - 8 - 8) (by omega)]
          exact push_call he h1 (callOK_double hs (by omega) hS (occ_free (by omega) hd2) (by omega) (by omega)
            (by rw [hwt]; simp <;> omega) (by rw [hwt]; simp <;> omega))
        · exact h1
      · next hnp =>
        have hn := is_r8 (src - 8) (by omega) hnp
        apply promotions_all he _ hacc
        intro p hp2 hp5
        exact callOK_push hs (by omega) hS hf1 (fun _ => ⟨hp2, hp5⟩)
          ⟨fun _ => by rw [hwt]; simpa using hn, fun _ => by omega⟩ (by omega) (by rw [hwt]; simp <;> omega)
    · exact hacc

/-! ## Castling -/

theorem mask_free {occ mask : UInt64} {t : Nat} (ht : t < 64) (h : (occ &&& mask == 0) = true)
    (hm : testU mask t = true) : testU occ t = false := by
  have h0 : occ &&& mask = 0 := by simpa using h
  have := (Bits.and_eq_zero_iff _ _).mp h0 t ht
  cases hh : testU occ t
  · rfl
  · exact (this ⟨hh, hm⟩).elim

theorem callOK_castle {b : Board} {src tgt : Nat} (hs : src < 64) (ht : tgt < 64)
    (hK : testU b.active.kings src = true) (hfree : testU (b.active.full ||| b.passive.full) tgt = false)
    (hc : CastleFacts b src tgt KING false NO_PIECE 0) : CallOK b src tgt KING true false NO_PIECE 0 :=
  ⟨hs, ht, by decide, by decide, hK, (occ_false hfree).1, (full_false_words (occ_false hfree).2).2.2.2.2.2,
   fun _ => hc, fun h => absurd h (by decide), fun h => absurd rfl h, fun h => absurd h (by decide),
   fun _ => ⟨rfl, rfl, rfl⟩, fun _ h => absurd h (by decide)⟩

theorem castleMoves_all {b : Board} {acc : List Move} (he : Env b) (hacc : AllF b acc) :
    AllF b (castleMoves b (b.active.full ||| b.passive.full) acc) := by
  have hw := he.w
  unfold castleMoves
  simp only
  cases hwt : b.whiteTurn
  · have hact : b.active = b.black := by simp [Board.active, hwt]
    simp only [Bool.false_eq_true, if_false]
    have h1 : AllF b (if (b.black.qs && (b.active.full ||| b.passive.full) &&& blackQueenSideCastleEmpty.toUInt64 == 0
        && !occupancyInCheck 1 b.white (b.active.full ||| b.passive.full) blackQueenSideCastleCheck.toUInt64) = true
        then pushOpt acc (mkMove b false E8 C8 KING true false NO_PIECE 0) else acc) := by
      split
      · next hc =>
        simp only [Bool.and_eq_true] at hc
        obtain ⟨⟨hq, hem⟩, -⟩ := hc
        have hk := hw.bqs hq
        have hfC := mask_free (t := C8) (by decide) hem (by decide)
        have hfD := mask_free (t := D8) (by decide) hem (by decide)
        refine push_call he hacc (callOK_castle (by decide) (by decide) (by rw [hact]; exact hk.1) hfC ?_)
        unfold CastleFacts dHome
        rw [hwt]
        exact ⟨rfl, rfl, rfl, rfl, by decide, hfC, Or.inl ⟨by decide, by rw [hact]; exact hq, by rw [hact]; exact hk.2, hfD⟩⟩
      · exact hacc
    split
    · next hc =>
      simp only [Bool.and_eq_true] at hc
      obtain ⟨⟨hq, hem⟩, -⟩ := hc
      have hk := hw.bks hq
      have hfG := mask_free (t := G8) (by decide) hem (by decide)
      have hfF := mask_free (t := F8) (by decide) hem (by decide)
      refine push_call he h1 (callOK_castle (by decide) (by decide) (by rw [hact]; exact hk.1) hfG ?_)
      unfold CastleFacts dHome
      rw [hwt]
      exact ⟨rfl, rfl, rfl, rfl, by decide, hfG, Or.inr ⟨by decide, by rw [hact]; exact hq, by rw [hact]; exact hk.2, hfF⟩⟩
    · exact h1
  · have hact : b.active = b.white := by simp [Board.active, hwt]
    simp only [if_true]
    have h1 : AllF b (if (b.white.qs && (b.active.full ||| b.passive.full) &&& whiteQueenSideCastleEmpty.toUInt64 == 0
        && !occupancyInCheck 0 b.black (b.active.full ||| b.passive.full) whiteQueenSideCastleCheck.toUInt64) = true
        then pushOpt acc (mkMove b false E1 C1 KING true false NO_PIECE 0) else acc) := by
      split
      · next hc =>
        simp only [Bool.and_eq_true] at hc
        obtain ⟨⟨hq, hem⟩, -⟩ := hc
        have hk := hw.wqs hq
        have hfC := mask_free (t := C1) (by decide) hem (by decide)
        have hfD := mask_free (t := D1) (by decide) hem (by decide)
        refine push_call he hacc (callOK_castle (by decide) (by decide) (by rw [hact]; exact hk.1) hfC ?_)
        unfold CastleFacts dHome
        rw [hwt]
        exact ⟨rfl, rfl, rfl, rfl, by decide, hfC, Or.inl ⟨by decide, by rw [hact]; exact hq, by rw [hact]; exact hk.2, hfD⟩⟩
      · exact hacc
    split
    · next hc =>
      simp only [Bool.and_eq_true] at hc
      obtain ⟨⟨hq, hem⟩, -⟩ := hc
      have hk := hw.wks hq
      have hfG := mask_free (t := G1) (by decide) hem (by decide)
      have hfF := mask_free (t := F1) (by decide) hem (by decide)
      refine push_call he h1 (callOK_castle (by decide) (by decide) (by rw [hact]; exact hk.1) hfG ?_)
      unfold CastleFacts dHome
      rw [hwt]
      exact ⟨rfl, rfl, rfl, rfl, by decide, hfG, Or.inr ⟨by decide, by rw [hact]; exact hq, by rw [hact]; exact hk.2, hfF⟩⟩
    · exact h1

/-! ## The whole generator -/

/-- **every move emitted by `generate_pseudo_legal_moves` on a well-formed board satisfies `GenFacts`** -/
theorem genPseudo_facts {b : Board} (h : wf b = true) : ∀ m ∈ genPseudo b, GenFacts b m.f := by
  have he := env_of_wf h
  unfold genPseudo
  simp only
  have a1 : AllF b _ := slidingMoves_all (nq := false) (rook := true) (piece := QUEEN) he (by decide) (by decide)
    (fun s hs => testU_or_right hs) (allF_nil b)
  have a2 : AllF b _ := slidingMoves_all (nq := false) (rook := false) (piece := QUEEN) he (by decide) (by decide)
    (fun s hs => testU_or_right hs) a1
  have a3 : AllF b _ := slidingMoves_all (nq := false) (rook := false) (piece := BISHOP) he (by decide) (by decide)
    (fun s hs => testU_or_left hs) a2
  have a4 : AllF b _ := slidingMoves_all (nq := false) (rook := true) (piece := ROOK) he (by decide) (by decide)
    (fun s hs => testU_or_left hs) a3
  have a5 : AllF b _ := knights_all (nq := false) he a4
  have a6 : AllF b _ := kings_all (nq := false) he a5
  have a7 : AllF b _ := pawnAttacks_all he a6
  have a8 : AllF b _ := pawnMoves_all (nq := false) he a7
  exact castleMoves_all he a8

/-- the same for the capture/promotion-only generator of the quiescence search -/
theorem genNonQuiescent_facts {b : Board} (h : wf b = true) : ∀ m ∈ genNonQuiescent b, GenFacts b m.f := by
  have he := env_of_wf h
  unfold genNonQuiescent
  simp only
  have a1 : AllF b _ := slidingMoves_all (nq := true) (rook := true) (piece := QUEEN) he (by decide) (by decide)
    (fun s hs => testU_or_right hs) (allF_nil b)
  have a2 : AllF b _ := slidingMoves_all (nq := true) (rook := false) (piece := QUEEN) he (by decide) (by decide)
    (fun s hs => testU_or_right hs) a1
  have a3 : AllF b _ := slidingMoves_all (nq := true) (rook := false) (piece := BISHOP) he (by decide) (by decide)
    (fun s hs => testU_or_left hs) a2
  have a4 : AllF b _ := slidingMoves_all (nq := true) (rook := true) (piece := ROOK) he (by decide) (by decide)
    (fun s hs => testU_or_left hs) a3
  have a5 : AllF b _ := knights_all (nq := true) he a4
  have a6 : AllF b _ := kings_all (nq := true) he a5
  have a7 : AllF b _ := pawnAttacks_all he a6
  exact pawnMoves_all (nq := true) he a7

/-! ## The bridge to the Zobrist step (C06) -/

theorem castleOK_of {m : Side} {f : MoveF} {t rs rt : Nat} (ht : f.target = t) (hr : castleRook t = some (rs, rt))
    (hs : f.source = if t == C1 || t == G1 then E1 else E8) (hk : testU m.kings f.source = true)
    (hkt : testU m.kings f.target = false) (hrs : testU m.rooks rs = true) (hrt : testU m.rooks rt = false) :
    ZobristStep.CastleOK m f := by
  unfold ZobristStep.CastleOK
  rw [ht] at hkt ⊢
  rw [hr]
  exact ⟨hs, hk, hkt, hrs, hrt⟩

theorem hashok_of_facts {b : Board} {f : MoveF} (h : GenFacts b f) : ZobristStep.HashMoveOK b f := by
  unfold GenFacts at h
  obtain ⟨hturn, hside, hpe, -, -, hcs, hpa, -, -, -, hoq, hok, hsq, hsk, hcall⟩ := h
  obtain ⟨hs, ht, hp1, hp6, hsrc, htgt, -, hcastle, hep, hpromo, -, -, -⟩ := hcall
  have hfw := full_false_words htgt
  refine ⟨hturn, hside, hpe, hs, ht, ?_, ?_, ?_, ?_, ?_⟩
  · intro hh; rw [hsk] at hh; simp only [Bool.and_eq_true] at hh; exact hh.1
  · intro hh; rw [hsq] at hh; simp only [Bool.and_eq_true] at hh; exact hh.1
  · intro hh; rw [hok] at hh; simp only [Bool.and_eq_true] at hh; exact hh.1
  · intro hh; rw [hoq] at hh; simp only [Bool.and_eq_true] at hh; exact hh.1
  by_cases hc : f.castle = true
  · rw [if_pos hc]
    obtain ⟨hpk, -, -, -, hsE, hfree, hside2⟩ := hcastle hc
    rw [hpk] at hsrc
    have hk : testU b.active.kings f.source = true := hsrc
    cases hw : b.whiteTurn <;> rw [hw] at hsE hside2
    · rcases hside2 with ⟨htE, -, hr, hfr⟩ | ⟨htE, -, hr, hfr⟩
      · exact castleOK_of (t := 2) htE (by decide) hsE hk hfw.2.2.2.2.2 hr (full_false_words (occ_false hfr).1).2.2.2.1
      · exact castleOK_of (t := 6) htE (by decide) hsE hk hfw.2.2.2.2.2 hr (full_false_words (occ_false hfr).1).2.2.2.1
    · rcases hside2 with ⟨htE, -, hr, hfr⟩ | ⟨htE, -, hr, hfr⟩
      · exact castleOK_of (t := 58) htE (by decide) hsE hk hfw.2.2.2.2.2 hr (full_false_words (occ_false hfr).1).2.2.2.1
      · exact castleOK_of (t := 62) htE (by decide) hsE hk hfw.2.2.2.2.2 hr (full_false_words (occ_false hfr).1).2.2.2.1
  rw [if_neg hc]
  by_cases he : f.enPassant = true
  · rw [if_pos he]
    obtain ⟨hpp, -, -, -, -, -, -, -, hv⟩ := hep he
    rw [hpp] at hsrc
    refine ⟨hsrc, hfw.1, ?_⟩
    by_cases h0 : b.turn = 0
    · have hwt : b.whiteTurn = true := by simp [Board.whiteTurn, h0]
      rw [if_pos h0]; rw [hwt] at hv; exact hv
    · have hwt : b.whiteTurn = false := by simp [Board.whiteTurn, h0]
      rw [if_neg h0]; rw [hwt] at hv; exact hv
  rw [if_neg he]
  have he' : f.enPassant = false := by simpa using he
  simp only [capSq, he', Bool.false_eq_true, if_false] at hpa
  refine ⟨?_, by rw [hpa]; exact pieceAt_le _ _, fun hne => ?_⟩
  · by_cases hp : f.promotion ≠ NO_PIECE
    · rw [if_pos hp]
      obtain ⟨hpp, h2, h5⟩ := hpromo hp
      rw [hpp] at hsrc
      exact ⟨h2, by simp only [KING]; omega, hsrc, get_of_full_false _ (by omega) (by omega) htgt⟩
    · rw [if_neg hp]
      exact ⟨hp1, hp6, hsrc, get_of_full_false _ hp1 hp6 htgt⟩
  · rw [hpa] at hne ⊢
    exact get_of_pieceAt _ ht hne

/-- **the hypothesis of the C06 incremental-hash theorems holds for every generated move** -/
theorem genPseudo_hashok {b : Board} (h : wf b = true) : ∀ m ∈ genPseudo b, ZobristStep.HashMoveOK b m.f :=
  fun m hm => hashok_of_facts (genPseudo_facts h m hm)

theorem genNonQuiescent_hashok {b : Board} (h : wf b = true) :
    ∀ m ∈ genNonQuiescent b, ZobristStep.HashMoveOK b m.f :=
  fun m hm => hashok_of_facts (genNonQuiescent_facts h m hm)

/-- corollary of `GenFacts`: the next e.p. square is set exactly for the pawn double step and is the square stepped over -/
theorem nextEp_iff {b : Board} {f : MoveF} (h : GenFacts b f) :
    (f.nextEp ≠ 0 ↔ f.pieceMoved = PAWN ∧ (f.source = f.target + 16 ∨ f.target = f.source + 16)) ∧
    (f.nextEp ≠ 0 → 2 * f.nextEp = f.source + f.target) := by
  unfold GenFacts at h
  obtain ⟨-, -, -, -, -, -, -, -, -, -, -, -, -, -, hcall⟩ := h
  obtain ⟨hs, ht, -, -, -, -, -, -, -, -, hpawn, hnp, -⟩ := hcall
  by_cases hp : f.pieceMoved = PAWN
  · obtain ⟨-, -, -, h4⟩ := hpawn hp
    by_cases h0 : f.nextEp = 0
    · rw [if_pos h0] at h4
      refine ⟨⟨fun h => absurd h0 h, fun ⟨_, hd⟩ => ?_⟩, fun h => absurd h0 h⟩
      split at h4 <;> omega
    · rw [if_neg h0] at h4
      obtain ⟨-, -, -, h5⟩ := h4
      refine ⟨⟨fun _ => ⟨hp, ?_⟩, fun _ => h0⟩, fun _ => ?_⟩
      · split at h5 <;> omega
      · split at h5 <;> omega
  · have h0 := (hnp hp).2.2
    exact ⟨⟨fun h => absurd h0 h, fun ⟨h1, _⟩ => absurd h1 hp⟩, fun h => absurd h0 h⟩

#print axioms genPseudo_facts
#print axioms genNonQuiescent_facts
#print axioms genPseudo_hashok

end Inkayaku.GenFacts
