import Inkayaku.Proofs.SearchPv
import Inkayaku.Proofs.AlphaBeta
import Inkayaku.Proofs.EvalFlip
/-!
# A mate value strictly inside the window comes with a PV that ends in checkmate (C08, `mate_pv`)

Values the search can produce are either *small* (static evaluations, draw values, |v| ≤ 176000) or *big* (`is_checkmate`
range, |v| > winScore − maxFullMoves) — `Val`.  Big values have exactly two sources:

* the static evaluation of a position without legal move whose mover is in check: `-(winScore - fullmove)`;
* the fail-hard quiescence search handing back one of its window bounds (`quiescence_val`: a big quiescence value IS
  `alpha0` or `beta0`), and window bounds inherited from ancestors.

`negamax` is fail-soft: the value of a node built by the move loop is minus the value of its `bestChild`.  Hence
(`negamax_mate`): if the value `v` returned for a node is big and is none of `alpha0`, `beta0`, `±winScore`, then the
returned PV is a legal line (literally generated moves — the table never answers with a big value, because big values are
not stored) ending in a checkmated position, and `v = ±(winScore − fullmove there)`.  At the root of an iteration the
window is `(-winScore, winScore)`, the table cannot answer (`TTRootFresh`), and a reported `mate N` with `N > 0` excludes
`±winScore`.  No no-collision hypothesis is needed.

Needed of the position: clock budget (`Inv`) and `fullmove + fuel < maxFullMoves = 2^20` (`FmOK`; beyond that the
engine's own `is_checkmate` no longer recognises its mate values).
-/
namespace Inkayaku.Search
open Inkayaku.Board Inkayaku.Eval Inkayaku.WF Inkayaku.BoardCongr

/-! ## value ranges -/

/-- static evaluations, draw values -/
def Small (v : Int) : Prop := -176000 ≤ v ∧ v ≤ 176000
/-- `is_checkmate(v)`: |v| > winScore − maxFullMoves -/
def Big (v : Int) : Prop := v > 15728640 ∨ v < -15728640
def Val (v : Int) : Prop := Small v ∨ Big v

theorem big_iff (v : Int) : isCheckmateValue v = true ↔ Big v := by
  rw [EvalFlip.isCheckmateValue_iff, EvalFlip.winScore_val, EvalFlip.maxFullMoves_val]
  unfold Big
  omega

theorem Small.neg {v : Int} (h : Small v) : Small (-v) := by unfold Small at *; omega
theorem Big.neg {v : Int} (h : Big v) : Big (-v) := by unfold Big at *; omega
theorem Big.of_neg {v : Int} (h : Big (-v)) : Big v := by unfold Big at *; omega
theorem Val.neg {v : Int} (h : Val v) : Val (-v) := h.elim (fun h => Or.inl h.neg) (fun h => Or.inr h.neg)
theorem Val.max {a b : Int} (ha : Val a) (hb : Val b) : Val (max a b) := by
  rcases Int.le_total a b with h | h
  · rw [Int.max_eq_right h]; exact hb
  · rw [Int.max_eq_left h]; exact ha
theorem Small.not_big {v : Int} (h : Small v) : ¬ Big v := by unfold Small Big at *; omega
theorem Val.small_of_not_big {v : Int} (h : Val v) (hb : ¬ Big v) : Small v := h.elim id (fun h => absurd h hb)
theorem small_zero : Small 0 := by unfold Small; omega
theorem val_win : Val Gen.winScore := by right; rw [EvalFlip.winScore_val]; unfold Big; omega
theorem val_loss : Val lossScore := by right; rw [SpecSearch.lossScore_val]; unfold Big; omega

theorem small_standPat (b : Board) (c : Nat) : Small (evalFor b c true) := SpecSearch.standPat_bound b c

theorem small_repValue (ply : Nat) : Small (repValue ply) := by
  unfold repValue
  have h1 : Gen.drawScore = 0 := by decide
  have h2 : Gen.contempt = 50 := by decide
  rw [h1, h2]
  unfold Small
  split <;> omega

/-! ## quiescence: a big value is one of the two window bounds -/

def QVal (fuel : Nat) : Prop :=
  ∀ (s : St) (a b : Int), (Val a → Val b → Val (quiescence fuel s a b).1.value) ∧
    (Big (quiescence fuel s a b).1.value → (quiescence fuel s a b).1.value = a ∨ (quiescence fuel s a b).1.value = b)

theorem VM.value_mk (v : Int) (m : Option Move) (c : Option VM) : (VM.mk v m c).value = v := rfl
theorem VM.value_leaf (v : Int) : (VM.leaf v).value = v := rfl

theorem qLoop_val {fuel : Nat} (hq : QVal fuel) :
    ∀ (moves : List Move) (s : St) (a b : Int) (bm : Option Move) (bc : Option VM),
      (Val a → Val b → Val (quiescenceLoop fuel s moves a b bm bc).1.value) ∧
      (Big (quiescenceLoop fuel s moves a b bm bc).1.value →
        (quiescenceLoop fuel s moves a b bm bc).1.value = a ∨ (quiescenceLoop fuel s moves a b bm bc).1.value = b) := by
  intro moves
  induction moves with
  | nil =>
    intro s a b bm bc
    rw [quiescenceLoop_nil]
    exact ⟨fun ha _ => ha, fun _ => Or.inl rfl⟩
  | cons m rest ih =>
    intro s a b bm bc
    rw [quiescenceLoop_cons]
    split
    · exact ih _ a b bm bc
    · have hq' := hq { s with board := make s.board m, quiescenceNodes := s.quiescenceNodes + 1 } (-b) (-a)
      generalize quiescence fuel { s with board := make s.board m, quiescenceNodes := s.quiescenceNodes + 1 } (-b) (-a) = r
        at hq' ⊢
      obtain ⟨hv, hbig⟩ := hq'
      simp only
      split
      · exact ⟨fun _ hb => hb, fun _ => Or.inr rfl⟩
      · split
        · rename_i hlt hgt
          obtain ⟨iv, ibig⟩ := ih { r.2 with board := unmake r.2.board m } (-r.1.value) b (some m) (some r.1)
          refine ⟨fun ha hb => iv (hv hb.neg ha.neg).neg hb, ?_⟩
          intro hB
          rcases ibig hB with h1 | h1
          · -- the improved alpha is a child value strictly inside the window: it cannot be big
            exfalso
            rw [h1] at hB
            rcases hbig hB.of_neg with h2 | h2 <;> omega
          · exact Or.inr h1
        · exact ih _ a b bm bc

theorem quiescence_val : ∀ fuel, QVal fuel := by
  intro fuel
  induction fuel with
  | zero =>
    intro s a b
    rw [quiescence_zero]
    exact ⟨fun ha _ => ha, fun _ => Or.inl rfl⟩
  | succ fuel ih =>
    intro s a b
    rw [quiescence_succ]
    split
    · exact ⟨fun _ hb => hb, fun _ => Or.inr rfl⟩
    · obtain ⟨lv, lbig⟩ := qLoop_val ih (sortMoves (genNonQuiescent s.board) none none none) s
        (max a (evalFor s.board s.board.turn true)) b none none
      have hsp := small_standPat s.board s.board.turn
      refine ⟨fun ha hb => lv (ha.max (Or.inl hsp)) hb, ?_⟩
      intro hB
      rcases lbig hB with h1 | h1
      · rcases Int.le_total a (evalFor s.board s.board.turn true) with h | h
        · rw [h1.trans (Int.max_eq_right h)] at hB
          exact absurd hB hsp.not_big
        · exact Or.inl (h1.trans (Int.max_eq_left h))
      · exact Or.inr h1

/-! ## checkmated positions, mating lines -/

/-- no pseudo-legal move leaves the mover's king safe, and the mover is in check -/
def Mated (b : Board) : Prop := (∀ m ∈ genPseudo b, isValid (make b m) = false) ∧ isCurrentInCheck b = true

theorem isCurrentInCheck_congr {b b' : Board} (h : vis b = vis b') : isCurrentInCheck b = isCurrentInCheck b' := by
  unfold isCurrentInCheck
  rw [turn_congr h, ← inCheck_vis b, h, inCheck_vis]

theorem fullmove_congr {b b' : Board} (h : vis b = vis b') : b.fullmove = b'.fullmove := by
  rw [← fullmove_vis b, h, fullmove_vis]

theorem Mated.congr {b b' : Board} (h : vis b = vis b') (hm : Mated b) : Mated b' := by
  refine ⟨?_, by rw [← isCurrentInCheck_congr h]; exact hm.2⟩
  intro m hmem
  rw [← isValid_congr (make_congr h m)]
  exact hm.1 m (by rw [genPseudo_congr h]; exact hmem)

theorem wf_turn_fm {b : Board} (h : wf b = true) : b.turn ≤ 1 ∧ 1 ≤ b.fullmove := by
  simp only [WF.wf, Bool.and_eq_true, decide_eq_true_eq] at h
  omega

theorem make_fullmove (b : Board) (m : Move) : (make b m).fullmove = b.fullmove + b.turn := by
  show (makeF b m.f).fullmove = _
  rw [makeF_eq]

theorem make_turn (b : Board) (m : Move) : (make b m).turn = 1 - b.turn := by
  show (makeF b m.f).turn = _
  rw [makeF_eq]

/-- the full-move number stays below `maxFullMoves` for `k` more plies -/
def FmOK (k : Nat) (b : Board) : Prop := b.fullmove + k < 1048576

theorem FmOK.congr {k : Nat} {b b' : Board} (h : vis b = vis b') (hf : FmOK k b) : FmOK k b' := by
  unfold FmOK at *; rw [← fullmove_congr h]; exact hf

theorem FmOK.mono {k k' : Nat} {b : Board} (hk : k' ≤ k) (hf : FmOK k b) : FmOK k' b := by
  unfold FmOK at *; omega

theorem FmOK.child {k : Nat} {b : Board} (hwf : wf b = true) (hf : FmOK (k + 1) b) (m : Move) : FmOK k (make b m) := by
  have := (wf_turn_fm hwf).1
  unfold FmOK at *
  rw [make_fullmove]
  omega

/-- `ms` is a legal line from `b` through well-formed boards that ends in a position whose mover is checkmated (full-move
number below `maxFullMoves`); `v` is the value of that for the mover of `b`: `-(winScore - fullmove of the final
position)`, negated once per ply -/
def MateLine : Board → List Move → Int → Prop
  | b, [], v => wf b = true ∧ FmOK 0 b ∧ Mated b ∧ v = -(Gen.winScore - (b.fullmove : Int))
  | b, m :: ms, v => wf b = true ∧ m ∈ genPseudo b ∧ isValid (make b m) = true ∧ MateLine (make b m) ms (-v)

theorem MateLine.congr {b b' : Board} (h : vis b = vis b') (l : List Move) (v : Int) (hl : MateLine b l v) :
    MateLine b' l v := by
  induction l generalizing b b' v with
  | nil =>
    exact ⟨by rw [← wf_congr h]; exact hl.1, hl.2.1.congr h, hl.2.2.1.congr h, by rw [← fullmove_congr h]; exact hl.2.2.2⟩
  | cons m ms ih =>
    obtain ⟨h0, h1, h2, h3⟩ := hl
    exact ⟨by rw [← wf_congr h]; exact h0, by rw [← genPseudo_congr h]; exact h1,
      by rw [← isValid_congr (make_congr h m)]; exact h2, ih (make_congr h m) _ h3⟩

theorem MateLine.legal {b : Board} {l : List Move} {v : Int} (h : MateLine b l v) : LegalLine b l := by
  induction l generalizing b v with
  | nil => trivial
  | cons m ms ih => exact ⟨h.2.1, h.2.2.1, ih h.2.2.2⟩

/-- the value of a position without legal move -/
theorem term_leaf {b : Board} (hwf : wf b = true) (hfm : FmOK 0 b) :
    Val (evalFor b b.turn false) ∧
    (Big (evalFor b b.turn false) →
      isCurrentInCheck b = true ∧ evalFor b b.turn false = -(Gen.winScore - (b.fullmove : Int))) := by
  obtain ⟨ht, h1⟩ := wf_turn_fm hwf
  rw [SpecSearch.term_value b ht, SpecSearch.lossScore_val, EvalFlip.winScore_val]
  unfold FmOK at hfm
  by_cases hc : isCurrentInCheck b = true
  · simp only [hc, if_true]
    refine ⟨Or.inr ?_, fun _ => ⟨trivial, by omega⟩⟩
    unfold Big; omega
  · simp only [hc, Bool.false_eq_true, if_false]
    exact ⟨Or.inl small_zero, fun hB => absurd hB small_zero.not_big⟩

/-! ## the table holds small values only -/

def TTSmall (tt : Std.HashMap UInt64 TtEntry) : Prop := ∀ h e, tt.get? h = some e → Small e.value ∧ Small e.mv.value

theorem TTSmall.empty : TTSmall {} := by
  intro h e he
  simp [Std.HashMap.get?_eq_getElem?] at he

theorem TTSmall.insert {tt : Std.HashMap UInt64 TtEntry} (htt : TTSmall tt) (h : UInt64) (e : TtEntry)
    (he : Small e.value ∧ Small e.mv.value) : TTSmall (tt.insert h e) := by
  intro h' e' hget
  simp only [Std.HashMap.get?_eq_getElem?, Std.HashMap.getElem?_insert] at hget
  split at hget
  · cases hget; exact he
  · exact htt h' e' (by simpa [Std.HashMap.get?_eq_getElem?] using hget)

/-- a probe that does not answer narrows the window by small values only -/
theorem probe_window {entry : Option TtEntry} {rem : Nat} {a b alpha beta : Int}
    (he : ∀ e, entry = some e → Small e.value) (h : probe entry rem a b = (none, alpha, beta)) :
    (alpha = a ∨ Small alpha) ∧ (beta = b ∨ Small beta) := by
  unfold probe at h
  cases entry with
  | none =>
    simp only [Prod.mk.injEq, true_and] at h
    obtain ⟨rfl, rfl⟩ := h
    exact ⟨Or.inl rfl, Or.inl rfl⟩
  | some e =>
    have hs := he e rfl
    simp only at h
    split at h
    · split at h
      · cases h
      · split at h
        · cases h
        · simp only [Prod.mk.injEq, true_and] at h
          obtain ⟨rfl, rfl⟩ := h
          refine ⟨?_, Or.inl rfl⟩
          rcases Int.le_total a e.value with h | h
          · rw [Int.max_eq_right h]; exact Or.inr hs
          · rw [Int.max_eq_left h]; exact Or.inl rfl
      · split at h
        · cases h
        · simp only [Prod.mk.injEq, true_and] at h
          obtain ⟨rfl, rfl⟩ := h
          refine ⟨Or.inl rfl, ?_⟩
          rcases Int.le_total b e.value with h | h
          · rw [Int.min_eq_left h]; exact Or.inl rfl
          · rw [Int.min_eq_right h]; exact Or.inr hs
    · simp only [Prod.mk.injEq, true_and] at h
      obtain ⟨rfl, rfl⟩ := h
      exact ⟨Or.inl rfl, Or.inl rfl⟩

/-! ## the move loop -/

/-- `v` is none of the window bounds and none of the two extreme scores -/
def Outside (v a b : Int) : Prop := v ≠ a ∧ v ≠ b ∧ v ≠ 16777216 ∧ v ≠ -16777216

/-- what a big value means for the record `r` returned for position `b` at ply `ply` (at ply 0 the `searchmoves`
filter can leave no move although the position has legal moves; then no move is returned) -/
def MateRes (b : Board) (ply : Nat) (r : VM) : Prop := (ply = 0 ∧ r.mv = none) ∨ MateLine b r.pv r.value

/-- invariant of the accumulator of the move loop of a node with position `b0`, window `(a0, b0w)`, narrowed lower
bound `alpha` -/
structure AccOK (b0 : Board) (a0 b0w alpha : Int) (acc : LoopAcc) : Prop where
  valBest : Val acc.bestValue
  valAlpha : Val acc.alpha
  alphaSrc : acc.alpha = alpha ∨ acc.alpha ≤ acc.bestValue
  ge : -16777216 ≤ acc.bestValue
  gt : acc.bestMove ≠ none → -16777216 < acc.bestValue
  mate : Big acc.bestValue → Outside acc.bestValue a0 b0w → MateLine b0 (accPv acc) acc.bestValue

theorem accOK_acc0 (b0 : Board) (a0 b0w alpha : Int) (hv : Val alpha) : AccOK b0 a0 b0w alpha (acc0 alpha) where
  valBest := val_loss
  valAlpha := hv
  alphaSrc := Or.inl rfl
  ge := by show -16777216 ≤ lossScore; rw [SpecSearch.lossScore_val]; omega
  gt := fun h => absurd rfl h
  mate := by
    intro _ ho
    exact absurd (show lossScore = -16777216 from SpecSearch.lossScore_val) ho.2.2.2

theorem accUpdate_legalSeen (acc : LoopAcc) (m : Move) (c : VM) : (accUpdate acc m c).legalSeen = true := by
  unfold accUpdate
  simp only
  split <;> rfl

theorem accUpdate_cases (acc : LoopAcc) (m : Move) (c : VM) :
    (-c.value > acc.bestValue ∧ accUpdate acc m c =
      { alpha := max acc.alpha (-c.value), bestValue := -c.value, bestMove := some m, bestChild := some c, legalSeen := true }) ∨
    (¬ -c.value > acc.bestValue ∧ accUpdate acc m c =
      { alpha := max acc.alpha acc.bestValue, bestValue := acc.bestValue, bestMove := acc.bestMove,
        bestChild := acc.bestChild, legalSeen := true }) := by
  unfold accUpdate
  simp only
  split
  · rename_i h; exact Or.inl ⟨h, rfl⟩
  · rename_i h; exact Or.inr ⟨h, rfl⟩

theorem accUpdate_ok {b0 : Board} {a0 b0w alpha : Int} {acc : LoopAcc} (h : AccOK b0 a0 b0w alpha acc) (m : Move) (c : VM)
    (hcv : Val c.value)
    (hmate : -c.value > acc.bestValue → Big (-c.value) → Outside (-c.value) a0 b0w → MateLine b0 (m :: c.pv) (-c.value)) :
    AccOK b0 a0 b0w alpha (accUpdate acc m c) := by
  rcases accUpdate_cases acc m c with ⟨hgt, he⟩ | ⟨hle, he⟩
  · rw [he]
    refine ⟨hcv.neg, h.valAlpha.max hcv.neg, ?_, ?_, ?_, ?_⟩
    · show max acc.alpha (-c.value) = alpha ∨ max acc.alpha (-c.value) ≤ -c.value
      rcases h.alphaSrc with h1 | h1
      · rcases Int.le_total acc.alpha (-c.value) with h2 | h2
        · right; rw [Int.max_eq_right h2]; exact Int.le_refl _
        · left; rw [Int.max_eq_left h2]; exact h1
      · right
        have : acc.alpha ≤ -c.value := by omega
        rw [Int.max_eq_right this]; exact Int.le_refl _
    · show -16777216 ≤ -c.value
      have := h.ge; omega
    · intro _
      show -16777216 < -c.value
      have := h.ge; omega
    · intro hB ho
      show MateLine b0 (VM.mk (-c.value) (some m) (some c)).pv (-c.value)
      rw [VM.pv_some_some]
      exact hmate hgt hB ho
  · rw [he]
    refine ⟨h.valBest, h.valAlpha.max h.valBest, ?_, h.ge, h.gt, h.mate⟩
    show max acc.alpha acc.bestValue = alpha ∨ max acc.alpha acc.bestValue ≤ acc.bestValue
    rcases h.alphaSrc with h1 | h1
    · rcases Int.le_total acc.alpha acc.bestValue with h2 | h2
      · right; rw [Int.max_eq_right h2]; exact Int.le_refl _
      · left; rw [Int.max_eq_left h2]; exact h1
    · right; rw [Int.max_eq_right h1]; exact Int.le_refl _

/-- the window of the child searched for a move that then raises `bestValue` to a big value outside the node's window -/
theorem child_outside {cv a0 b0w alpha beta accAlpha bv : Int} (hα : alpha = a0 ∨ Small alpha) (hβ : beta = b0w ∨ Small beta)
    (hsrc : accAlpha = alpha ∨ accAlpha ≤ bv) (hgt : -cv > bv) (hB : Big (-cv)) (ho : Outside (-cv) a0 b0w) :
    Outside cv (-beta) (-accAlpha) := by
  unfold Outside Small Big at *
  refine ⟨?_, ?_, ?_, ?_⟩ <;> omega

def NMate (fuel : Nat) : Prop :=
  ∀ (s : St) (ply maxPly : Nat) (a b : Int) (isPv : Bool) (h ph : UInt64), Inv fuel s.board → FmOK fuel s.board →
    TTSmall s.tt → Val a → Val b →
    Val (negamax fuel s ply maxPly a b isPv h ph).1.value ∧ TTSmall (negamax fuel s ply maxPly a b isPv h ph).2.tt ∧
    (Big (negamax fuel s ply maxPly a b isPv h ph).1.value → Outside (negamax fuel s ply maxPly a b isPv h ph).1.value a b →
      MateRes s.board ply (negamax fuel s ply maxPly a b isPv h ph).1) ∧
    ((∀ e, s.tt.get? h = some e → e.depth < maxPly - ply) → ply ≠ maxPly →
      (negamax fuel s ply maxPly a b isPv h ph).1.mv ≠ none → -16777216 < (negamax fuel s ply maxPly a b isPv h ph).1.value)

theorem nLoop_mate {fuel : Nat} (hn : NMate fuel) (b0 : Board) (hinv : Inv (fuel + 1) b0) (hfm : FmOK (fuel + 1) b0)
    (ply maxPly : Nat) (a0 b0w alpha beta : Int) (hα : alpha = a0 ∨ Small alpha) (hβ : beta = b0w ∨ Small beta)
    (hvβ : Val beta) :
    ∀ (moves : List Move), (∀ m ∈ moves, m ∈ genPseudo b0) →
    ∀ (s : St) (isPv : Bool) (pvMove : Option Move) (h ph : UInt64) (rem : Nat) (acc : LoopAcc),
      vis s.board = vis b0 → TTSmall s.tt → AccOK b0 a0 b0w alpha acc →
      AccOK b0 a0 b0w alpha (negamaxLoop fuel s moves ply maxPly beta isPv pvMove h ph rem acc).1 ∧
      TTSmall (negamaxLoop fuel s moves ply maxPly beta isPv pvMove h ph rem acc).2.2.tt ∧
      (acc.legalSeen = true → (negamaxLoop fuel s moves ply maxPly beta isPv pvMove h ph rem acc).1.legalSeen = true) ∧
      ((negamaxLoop fuel s moves ply maxPly beta isPv pvMove h ph rem acc).1.legalSeen = false →
        (negamaxLoop fuel s moves ply maxPly beta isPv pvMove h ph rem acc).2.1 = false →
        ∀ m ∈ moves, isValid (make b0 m) = false) := by
  have hwf := hinv.wf
  intro moves
  induction moves with
  | nil =>
    intro _ s isPv pvMove h ph rem acc _ htt hacc
    rw [negamaxLoop_nil]
    exact ⟨hacc, htt, fun h => h, fun _ _ m hm => by cases hm⟩
  | cons m rest ih =>
    intro hmem s isPv pvMove h ph rem acc hs htt hacc
    have hm : m ∈ genPseudo b0 := hmem m (List.mem_cons_self ..)
    have hg : Generated b0 m := Or.inl hm
    have hrest : ∀ m ∈ rest, m ∈ genPseudo b0 := fun x hx => hmem x (List.mem_cons_of_mem _ hx)
    have hmk : vis (make s.board m) = vis (make b0 m) := make_congr hs m
    rw [negamaxLoop_cons]
    split
    · rename_i hinvalid
      have hbad : isValid (make b0 m) = false := by
        rw [← isValid_congr hmk]; simpa using hinvalid
      obtain ⟨i1, i2, i3, i4⟩ := ih hrest { s with board := unmake (make s.board m) m } isPv pvMove h ph rem acc
        (back hwf hg hmk) htt hacc
      refine ⟨i1, i2, i3, ?_⟩
      intro h1 h2 x hx
      rcases List.mem_cons.mp hx with rfl | hx
      · exact hbad
      · exact i4 h1 h2 x hx
    · rename_i hv
      obtain ⟨hi1, hv'⟩ := child_inv boardLaws hinv hs hg (by simpa using hv)
      have hfm1 : FmOK fuel (make s.board m) := (hfm.child hwf m).congr hmk.symm
      have hchild := hn { s with board := make s.board m } (ply + 1) maxPly (-beta) (-acc.alpha)
        (childPvOf isPv pvMove m) (h ^^^ (Zobrist.xorOf m.f).1) (ph ^^^ (Zobrist.xorOf m.f).2) hi1 hfm1 htt hvβ.neg
        hacc.valAlpha.neg
      have hr := negamax_ok boardLaws fuel { s with board := make s.board m } (ply + 1) maxPly (-beta) (-acc.alpha)
        (childPvOf isPv pvMove m) (h ^^^ (Zobrist.xorOf m.f).1) (ph ^^^ (Zobrist.xorOf m.f).2) hi1
      generalize negamax fuel { s with board := make s.board m } (ply + 1) maxPly (-beta) (-acc.alpha)
        (childPvOf isPv pvMove m) (h ^^^ (Zobrist.xorOf m.f).1) (ph ^^^ (Zobrist.xorOf m.f).2) = r at hchild hr ⊢
      obtain ⟨hcv, htt', hcm, -⟩ := hchild
      have hb := back hwf hg (hr.trans hmk)
      have hacc' : AccOK b0 a0 b0w alpha (accUpdate acc m r.1) := by
        refine accUpdate_ok hacc m r.1 hcv ?_
        intro hgt hB ho
        have hout := child_outside hα hβ hacc.alphaSrc hgt hB ho
        rcases hcm hB.of_neg hout with ⟨h0, -⟩ | hml
        · omega
        · refine ⟨hwf, hm, hv', ?_⟩
          rw [Int.neg_neg]
          exact hml.congr hmk _ _
      have hls := accUpdate_legalSeen acc m r.1
      simp only
      split
      · exact ⟨hacc, htt', fun h => h, fun _ h2 => by cases h2⟩
      · split
        · exact ⟨hacc', htt', fun _ => hls, fun h1 => by rw [hls] at h1; cases h1⟩
        · obtain ⟨i1, i2, i3, -⟩ := ih hrest { r.2 with board := unmake r.2.board m } isPv pvMove h ph rem
            (accUpdate acc m r.1) hb htt' hacc'
          refine ⟨i1, i2, fun _ => i3 hls, fun h1 => ?_⟩
          rw [i3 hls] at h1
          cases h1

theorem evalFor_congr_vis {b b' : Board} (h : vis b = vis b') (c : Nat) (l : Bool) : evalFor b c l = evalFor b' c l := by
  unfold evalFor
  rw [evaluate_congr h]

theorem rootBuffer_pos (s : St) {ply : Nat} (h : ply ≠ 0) : rootBuffer s ply = genPseudo s.board := by
  unfold rootBuffer
  have : (ply == 0) = false := by simpa using h
  rw [this, Bool.false_and, if_neg Bool.false_ne_true]

theorem finish_mate (b0 : Board) (hwf : wf b0 = true) (hfm : FmOK 0 b0) (ply : Nat) (a0 b0w alpha beta : Int) (hash : UInt64)
    (rem : Nat) (r : LoopAcc × Bool × St) (hs : vis r.2.2.board = vis b0) (hacc : AccOK b0 a0 b0w alpha r.1)
    (htt : TTSmall r.2.2.tt)
    (hnone : r.1.legalSeen = false → r.2.1 = false → ply ≠ 0 → ∀ m ∈ genPseudo b0, isValid (make b0 m) = false) :
    Val (finish b0.turn a0 beta hash rem r).1.value ∧ TTSmall (finish b0.turn a0 beta hash rem r).2.tt ∧
    (Big (finish b0.turn a0 beta hash rem r).1.value → Outside (finish b0.turn a0 beta hash rem r).1.value a0 b0w →
      MateRes b0 ply (finish b0.turn a0 beta hash rem r).1) ∧
    ((finish b0.turn a0 beta hash rem r).1.mv ≠ none → -16777216 < (finish b0.turn a0 beta hash rem r).1.value) := by
  obtain ⟨acc, ab, s⟩ := r
  unfold finish
  simp only
  split
  · exact ⟨Or.inl small_zero, htt, fun hB => absurd hB small_zero.not_big, fun hne => absurd rfl hne⟩
  · rename_i hab
    split
    · rename_i hls
      have hls' : acc.legalSeen = false := by simpa using hls
      have hab' : ab = false := by simpa using hab
      rw [evalFor_congr_vis hs]
      obtain ⟨tv, tb⟩ := term_leaf hwf hfm
      refine ⟨tv, htt, ?_, fun hne => absurd rfl hne⟩
      intro hB _
      obtain ⟨hc, hval⟩ := tb hB
      by_cases hp : ply = 0
      · exact Or.inl ⟨hp, rfl⟩
      · right
        rw [VM.pv_leaf]
        exact ⟨hwf, hfm, ⟨hnone hls' hab' hp, hc⟩, hval⟩
    · split
      · rename_i hnb
        have hnb' : ¬ Big acc.bestValue := by
          rw [← big_iff]; simpa using hnb
        have hsm := hacc.valBest.small_of_not_big hnb'
        exact ⟨hacc.valBest, htt.insert _ _ ⟨hsm, hsm⟩, fun hB => absurd hB hnb', hacc.gt⟩
      · exact ⟨hacc.valBest, htt, fun hB ho => Or.inr (hacc.mate hB ho), hacc.gt⟩

theorem negamax_mate : ∀ fuel, NMate fuel := by
  intro fuel
  induction fuel with
  | zero =>
    intro s ply maxPly a b isPv h ph _ _ htt _ _
    rw [negamax_zero]
    exact ⟨Or.inl small_zero, htt, fun hB => absurd hB small_zero.not_big, fun _ _ hne => absurd rfl hne⟩
  | succ fuel ih =>
    intro s ply maxPly a b isPv h ph hinv hfm htt hva hvb
    have he : (enter s h).board = s.board := enter_board s h
    have hett : (enter s h).tt = s.tt := enter_tt s h
    have hwf := hinv.wf
    have hnomv : ∀ v : Int, (∀ e, s.tt.get? h = some e → e.depth < maxPly - ply) → ply ≠ maxPly →
        (VM.leaf v).mv ≠ none → -16777216 < (VM.leaf v).value := fun _ _ _ hne => absurd rfl hne
    rw [negamax_succ]
    split
    · exact ⟨Or.inl small_zero, by show TTSmall (pollStep s).tt; rw [pollStep_tt]; exact htt,
        fun hB => absurd hB small_zero.not_big, hnomv 0⟩
    · simp only
      split
      · exact ⟨Or.inl (small_repValue ply), by rw [hett]; exact htt, fun hB => absurd hB (small_repValue ply).not_big,
          hnomv _⟩
      · split
        · rename_i r x y heq
          obtain ⟨e, hget, rfl⟩ : ∃ e, (enter s h).tt.get? h = some e ∧ r = e.mv := probe_hit (by rw [heq])
          rw [hett] at hget
          have hsm := (htt h e hget).2
          refine ⟨Or.inl hsm, by rw [hett]; exact htt, fun hB => absurd hB hsm.not_big, ?_⟩
          intro hfresh _ _
          have := probe_fresh (entry := (enter s h).tt.get? h) (rem := maxPly - ply) a b (by rw [hett]; exact hfresh)
          rw [heq] at this
          cases this
        · rename_i alpha beta heq
          have hentry : ∀ e, (enter s h).tt.get? h = some e → Small e.value := by
            intro e hget; rw [hett] at hget; exact (htt h e hget).1
          obtain ⟨hα, hβ⟩ := probe_window hentry heq
          have hvα : Val alpha := hα.elim (fun h => h ▸ hva) Or.inl
          have hvβ : Val beta := hβ.elim (fun h => h ▸ hvb) Or.inl
          split
          · exact ⟨Or.inl small_zero, by rw [hett]; exact htt, fun hB => absurd hB small_zero.not_big, hnomv 0⟩
          · split
            · rename_i hpm
              have hhor : ∀ r : VM, (∀ e, s.tt.get? h = some e → e.depth < maxPly - ply) → ply ≠ maxPly →
                  r.mv ≠ none → -16777216 < r.value := fun _ _ hne => absurd (by simpa using hpm) hne
              unfold horizon
              simp only
              split
              · obtain ⟨qv, qb⟩ := quiescence_val fuel (enter s h) alpha beta
                refine ⟨qv hvα hvβ, by rw [quiescence_tt, hett]; exact htt, ?_, hhor _⟩
                intro hB ho
                exfalso
                unfold Outside Small Big at *
                rcases qb hB with h1 | h1 <;> omega
              · rename_i hq
                cases hl : isAnyMoveLegal (enter s h).board (rootBuffer (enter s h) ply) with
                | true =>
                  have hsm := small_standPat (enter s h).board s.board.turn
                  exact ⟨Or.inl hsm, by rw [hett]; exact htt, fun hB => absurd hB hsm.not_big, hhor _⟩
                | false =>
                  rw [he]
                  obtain ⟨tv, tb⟩ := term_leaf hwf (hfm.mono (Nat.zero_le _))
                  refine ⟨tv, by rw [hett]; exact htt, ?_, hhor _⟩
                  intro hB _
                  obtain ⟨hc, hval⟩ := tb hB
                  by_cases hp : ply = 0
                  · exact Or.inl ⟨hp, rfl⟩
                  · right
                    rw [VM.pv_leaf]
                    refine ⟨hwf, hfm.mono (Nat.zero_le _), ⟨?_, hc⟩, hval⟩
                    intro m hm
                    rw [rootBuffer_pos _ hp, he] at hl
                    unfold isAnyMoveLegal at hl
                    have := List.any_eq_false.mp hl m hm
                    simpa [isMoveLegal] using this
            · have hinv3 : Inv (fuel + 1) (enter s h).board := by rw [he]; exact hinv
              have hfm3 : FmOK (fuel + 1) (enter s h).board := by rw [he]; exact hfm
              obtain ⟨l1, l2, -, l4⟩ := nLoop_mate ih (enter s h).board hinv3 hfm3 ply maxPly a b alpha beta hα hβ hvβ
                (sortMoves (rootBuffer (enter s h) ply) (pvMoveOf (enter s h) isPv ply)
                  (ttMoveOf ((enter s h).tt.get? h)) (killerGet (enter s h).killers (maxPly - ply)))
                (fun m hm => mem_rootBuffer_genPseudo (mem_sortMoves.mp hm))
                (enter s h) isPv (pvMoveOf (enter s h) isPv ply) h ph (maxPly - ply) (acc0 alpha) rfl
                (by rw [hett]; exact htt) (accOK_acc0 _ a b alpha hvα)
              have hvis := nLoop_of_n boardLaws (negamax_ok boardLaws fuel) (enter s h).board hinv3
                (sortMoves (rootBuffer (enter s h) ply) (pvMoveOf (enter s h) isPv ply)
                  (ttMoveOf ((enter s h).tt.get? h)) (killerGet (enter s h).killers (maxPly - ply)))
                (fun m hm => Or.inl (mem_rootBuffer_genPseudo (mem_sortMoves.mp hm)))
                (enter s h) ply maxPly beta isPv (pvMoveOf (enter s h) isPv ply) h ph (maxPly - ply) (acc0 alpha) rfl
              have hfin := finish_mate (enter s h).board (by rw [he]; exact hwf)
                (by rw [he]; exact hfm.mono (Nat.zero_le _)) ply a b alpha beta h (maxPly - ply) _ hvis l1 l2
                (by
                  intro h1 h2 hp m hm
                  refine l4 h1 h2 m (mem_sortMoves.mpr ?_)
                  rw [rootBuffer_pos _ hp]; exact hm)
              rw [he] at hfin
              exact ⟨hfin.1, hfin.2.1, hfin.2.2.1, fun _ _ => hfin.2.2.2⟩

/-! ## from a mating line to the reported distance -/

theorem MateLine.shape {b : Board} {l : List Move} {v : Int} (h : MateLine b l v) :
    wf (l.foldl make b) = true ∧ Mated (l.foldl make b) ∧
    (l.foldl make b).fullmove = b.fullmove + (l.length + b.turn) / 2 ∧
    (l.foldl make b).fullmove < 1048576 ∧
    (l.length % 2 = 0 → v = -(16777216 - ((l.foldl make b).fullmove : Int))) ∧
    (l.length % 2 = 1 → v = 16777216 - ((l.foldl make b).fullmove : Int)) := by
  induction l generalizing b v with
  | nil =>
    obtain ⟨hwf, hfm, hM, hv⟩ := h
    have ht := (wf_turn_fm hwf).1
    rw [EvalFlip.winScore_val] at hv
    unfold FmOK at hfm
    refine ⟨hwf, hM, ?_, ?_, fun _ => hv, fun h => ?_⟩
    · show b.fullmove = b.fullmove + (0 + b.turn) / 2; omega
    · show b.fullmove < 1048576; omega
    · simp at h
  | cons m ms ih =>
    obtain ⟨hwf, -, -, hrest⟩ := h
    have ht := (wf_turn_fm hwf).1
    obtain ⟨i0, i1, i2, i3, i4, i5⟩ := ih hrest
    rw [make_fullmove, make_turn] at i2
    rw [List.foldl_cons, List.length_cons]
    refine ⟨i0, i1, by omega, i3, fun h => ?_, fun h => ?_⟩
    · have := i5 (by omega); omega
    · have := i4 (by omega); omega

/-- the reported line: `2N - 1` plies, legal, ending in a (well-formed) position whose mover is checkmated -/
def MatePv (b : Board) (l : List Move) (N : Int) : Prop :=
  (l.length : Int) = 2 * N - 1 ∧ LegalLine b l ∧ wf (l.foldl make b) = true ∧ Mated (l.foldl make b)

theorem foldl_make_congr {b b' : Board} (h : vis b = vis b') (l : List Move) : vis (l.foldl make b) = vis (l.foldl make b') := by
  induction l generalizing b b' with
  | nil => exact h
  | cons m ms ih => exact ih (make_congr h m)

theorem MatePv.congr {b b' : Board} (h : vis b = vis b') {l : List Move} {N : Int} (hm : MatePv b l N) : MatePv b' l N :=
  ⟨hm.1, hm.2.1.congr h l, by rw [← wf_congr (foldl_make_congr h l)]; exact hm.2.2.1,
    hm.2.2.2.congr (foldl_make_congr h l)⟩

theorem scoreFromValue_congr_vis {b b' : Board} (h : vis b = vis b') (v : Int) : scoreFromValue v b = scoreFromValue v b' := by
  unfold scoreFromValue
  rw [turn_congr h, fullmove_congr h]

theorem scoreFromValue_mid {v : Int} (b : Board) (h1 : ¬ v > 8388608) (h2 : ¬ v < -8388608) : scoreFromValue v b = .cp v := by
  unfold scoreFromValue
  rw [if_neg]
  rw [EvalFlip.winScore_val]
  omega

/-- **one iteration**: a root search that returns a move and whose value is reported as `mate N`, `N > 0`, returns a PV of
`2N - 1` plies that is a legal line ending in checkmate -/
theorem rootSearch_mate (s : St) (d : Nat) (hinv : Inv (fuelFor d) s.board) (hfm : FmOK (fuelFor d) s.board)
    (htt : TTSmall s.tt) (hfresh : TTRootFresh s (Zobrist.hash s.board) d) (hd : 0 < d) :
    TTSmall (rootSearch s d).2.tt ∧
    ((rootSearch s d).1.mv ≠ none → ∀ N : Int, N > 0 → scoreFromValue (rootSearch s d).1.value s.board = .mate N →
      MatePv s.board (rootSearch s d).1.pv N) := by
  obtain ⟨hval, htt', hmate, hgt⟩ := negamax_mate (fuelFor d) s 0 d lossScore Gen.winScore s.pv.isSome
    (Zobrist.hash s.board) (Zobrist.pawnHash s.board) hinv hfm htt val_loss val_win
  change Val (rootSearch s d).1.value at hval
  change TTSmall (rootSearch s d).2.tt at htt'
  change Big (rootSearch s d).1.value → Outside (rootSearch s d).1.value lossScore Gen.winScore →
    MateRes s.board 0 (rootSearch s d).1 at hmate
  change _ → _ → (rootSearch s d).1.mv ≠ none → -16777216 < (rootSearch s d).1.value at hgt
  generalize rootSearch s d = r at *
  refine ⟨htt', fun hmv N hN hsc => ?_⟩
  have hgt' := hgt (by intro e he; have := hfresh e he; omega) (by omega) hmv
  obtain ⟨ht, hf1⟩ := wf_turn_fm hinv.wf
  have hmateline : Big r.1.value → r.1.value ≠ 16777216 → MateLine s.board r.1.pv r.1.value := by
    intro hB hne
    have ho : Outside r.1.value lossScore Gen.winScore := by
      rw [SpecSearch.lossScore_val, EvalFlip.winScore_val]
      exact ⟨by omega, hne, hne, by omega⟩
    rcases hmate hB ho with ⟨-, h0⟩ | h0
    · exact absurd h0 hmv
    · exact h0
  by_cases h1 : r.1.value > 8388608
  · have hB : Big r.1.value := hval.elim (fun h => by unfold Small at h; omega) id
    rw [EvalFlip.scoreFromValue_pos _ _ (by rw [EvalFlip.winScore_val]; omega), EvalFlip.winScore_val] at hsc
    injection hsc with hN'
    have hne : r.1.value ≠ 16777216 := by
      intro h
      split at hN' <;> omega
    obtain ⟨hwe, hM, hfe, hlt, heven, hodd⟩ := (hmateline hB hne).shape
    refine ⟨?_, (hmateline hB hne).legal, hwe, hM⟩
    rcases Nat.mod_two_eq_zero_or_one r.1.pv.length with hp | hp
    · have := heven hp; omega
    · have := hodd hp
      rcases (by omega : s.board.turn = 0 ∨ s.board.turn = 1) with h0 | h0
      · rw [h0] at hN' hfe
        simp only [beq_self_eq_true, if_true] at hN'
        omega
      · rw [h0] at hN' hfe
        simp only [Nat.reduceBEq, Bool.false_eq_true, if_false] at hN'
        omega
  · by_cases h2 : r.1.value < -8388608
    · exfalso
      have hB : Big r.1.value := hval.elim (fun h => by unfold Small at h; omega) id
      rw [EvalFlip.scoreFromValue_neg _ _ (by rw [EvalFlip.winScore_val]; omega), EvalFlip.winScore_val] at hsc
      injection hsc with hN'
      obtain ⟨-, -, hfe, hlt, heven, hodd⟩ := (hmateline hB (by omega)).shape
      rcases Nat.mod_two_eq_zero_or_one r.1.pv.length with hp | hp
      · have := heven hp; omega
      · have := hodd hp; omega
    · rw [scoreFromValue_mid _ h1 h2] at hsc
      cases hsc

/-! ## iterative deepening and `go` -/

/-- an info that reports `mate N` with `N > 0` together with a PV reports a mating line of `2N - 1` plies -/
def MateOK (root : Board) : Out → Prop
  | .info _ _ _ (some (.mate N)) (some l) => N > 0 → MatePv root l N
  | _ => True

/-- the (score, PV) pair `best_move` keeps from the last completed iteration -/
def PairOK (root : Board) (sc : Option Score) (u : Option (List Move)) : Prop :=
  ∀ N l, sc = some (.mate N) → u = some l → N > 0 → MatePv root l N

theorem MateOK_poll (root : Board) {o : Out} (h : IsPollInfo o) : MateOK root o := by
  cases o with
  | info d t n sc pv =>
    cases sc with
    | none => trivial
    | some x => cases d <;> exact h.elim
  | bestMove _ _ => trivial

theorem MateOK_of_pair {root : Board} {sc : Option Score} {u : Option (List Move)} (h : PairOK root sc u)
    (d t : Option Nat) (n : Nat) : MateOK root (.info d t n sc u) := by
  cases sc with
  | none => trivial
  | some x =>
    cases x with
    | cp v => trivial
    | mate N =>
      cases u with
      | none => trivial
      | some l => exact h N l rfl rfl

theorem deepen_mate (root : Board) :
    ∀ (n : Nat) (s : St) (d mt : Nat) (best : Option VM) (u : Option (List Move)) (sc : Option Score),
    Inv (fuelFor d + n) root → FmOK (fuelFor d + n) root → vis s.board = vis root → 1 ≤ d → TTBound (d - 1) s →
    TTSmall s.tt → PairOK root sc u →
    ∃ news, (deepen n s d mt best u sc).2.out = news ++ s.out ∧ ∀ o ∈ news, MateOK root o := by
  intro n
  induction n with
  | zero => intro s d mt best u sc _ _ _ _ _ _ _; rw [deepen_zero]; exact ⟨[], rfl, by simp⟩
  | succ n ih =>
    intro s d mt best u sc hinv0 hfm0 hs hd hbound htt hpair
    have hinv : Inv (fuelFor d + (n + 1)) s.board := Inv_congr hs.symm hinv0
    have hwf : Inv (fuelFor d) s.board := Inv_mono (Nat.le_add_right _ _) hinv
    have hfm : FmOK (fuelFor d) s.board := (hfm0.mono (Nat.le_add_right _ _)).congr hs.symm
    have hfresh : TTRootFresh s (Zobrist.hash s.board) d := by
      intro e he
      have := hbound _ e he
      omega
    obtain ⟨htt', hm⟩ := rootSearch_mate s d hwf hfm htt hfresh (by omega)
    have hb : vis (rootSearch s d).2.board = vis s.board := rootSearch_board boardLaws s d hwf
    obtain ⟨polls, hp, hpoll⟩ := rootSearch_rel (pollOnly_stepRel d) s
    have hout : (iterState (rootSearch s d) d sc u).out = (iterInfo (rootSearch s d) d sc u :: polls) ++ s.out := by
      rw [iterState_out, hp]; rfl
    have hpair' : ¬ iterAborted (rootSearch s d) = true →
        PairOK root (some (scoreFromValue (rootSearch s d).1.value (rootSearch s d).2.board)) (some (rootSearch s d).1.pv) := by
      intro hna N l h1 h2 hN
      cases h2
      have hsc : scoreFromValue (rootSearch s d).1.value s.board = .mate N := by
        rw [← scoreFromValue_congr_vis hb]; exact Option.some.inj h1
      have hmv : (rootSearch s d).1.mv ≠ none := by
        intro h0
        apply hna
        unfold iterAborted
        rw [h0]
        simp
      exact (hm hmv N hN hsc).congr hs
    have hinfo : MateOK root (iterInfo (rootSearch s d) d sc u) := by
      unfold iterInfo
      split
      · exact MateOK_of_pair hpair _ _ _
      · rename_i hna
        exact MateOK_of_pair (hpair' hna) _ _ _
    have hone : ∀ o ∈ iterInfo (rootSearch s d) d sc u :: polls, MateOK root o := by
      intro o ho
      rcases List.mem_cons.mp ho with rfl | ho
      · exact hinfo
      · exact MateOK_poll root (hpoll o ho)
    rw [deepen_succ]
    simp only
    split
    · exact ⟨_, hout, hone⟩
    · rename_i hna
      split
      · exact ⟨_, hout, hone⟩
      · obtain ⟨p, o, he⟩ := iterState_eq (rootSearch s d) d sc u
        have hbound' : TTBound d (rootSearch s d).2 :=
          rootSearch_rel (ttRel_stepRel (Nat.le_refl d)) s (fun h e he => Nat.le_trans (hbound h e he) (Nat.sub_le _ _))
        obtain ⟨news, hn, hok⟩ := ih (iterState (rootSearch s d) d sc u) (d + 1) mt (some (rootSearch s d).1)
          (some (rootSearch s d).1.pv) (some (scoreFromValue (rootSearch s d).1.value (rootSearch s d).2.board))
          (Inv_mono (by unfold fuelFor; omega) hinv0) (hfm0.mono (by unfold fuelFor; omega))
          (by rw [he]; exact hb.trans hs) (by omega) (by rw [he]; exact hbound') (by rw [he]; exact htt') (hpair' hna)
        refine ⟨news ++ (iterInfo (rootSearch s d) d sc u :: polls), by rw [hn, hout, List.append_assoc], ?_⟩
        intro o ho
        rcases List.mem_append.mp ho with h | h
        · exact hok o h
        · exact hone o h

/-- **every info of a `go` that reports a positive mate distance with a PV reports a mating line of that length** -/
theorem goCmd_mate_ok (s : St) (g : GoParams) (maxIter : Nat) (hinv : Inv (goBudget maxIter) s.board)
    (hfm : FmOK (goBudget maxIter) s.board) (o : Out) (ho : o ∈ (goCmd s g maxIter).out) (hnew : o ∉ s.out) :
    MateOK s.board o := by
  obtain ⟨k, p, g', hprep⟩ := goPrep_eq s g
  have htt0 : TTSmall (goPrep s g).tt := by rw [hprep]; exact TTSmall.empty
  have hle := goIters_le g maxIter
  obtain ⟨news, hn, hok⟩ := deepen_mate s.board (goIters g maxIter) (goPrep s g) 1 (goMaxThinking (goPrep s g))
    none none none (Inv_mono (by unfold fuelFor goBudget; omega) hinv) (hfm.mono (by unfold fuelFor goBudget; omega))
    (by rw [goPrep_board]) (Nat.le_refl 1) (goPrep_ttBound s g) htt0 (by intro N l h; cases h)
  rw [goCmd_eq] at ho
  change o ∈ _ :: (goDeepen s g maxIter).2.out at ho
  rcases List.mem_cons.mp ho with rfl | ho
  · trivial
  · unfold goDeepen at ho
    rw [hn, goPrep_out] at ho
    rcases List.mem_append.mp ho with h | h
    · exact hok o h
    · exact absurd h hnew

end Inkayaku.Search
