import Inkayaku.Proofs.SearchRepHorizon
import Inkayaku.Proofs.SearchRepFrame
/-!
# C10 at the search level, step 6: the whole depth-1 root search after `position … moves …`

`childExact L bN m` = the exact value of the node below the root move `m`: the repetition value when `m` completes a threefold
in the game line `L`, the horizon value (capture resolution / static evaluation) of the position otherwise.

* `root_child`      – the node below ANY legal root move, entered from any state of the root's move loop (window `(a, b)`):
                      fail-soft contract w.r.t. `childExact`, history/table/flags of the loop state preserved;
* `root_loop`       – the root move loop: fail-soft alpha-beta over `childExact` = the maximum over the legal moves
                      (`mmFold`), the recorded best move attains it;
* `rootSearch_game` – iteration 1 of a `go`: value `repValue1 L bN` = `max_m −childExact L bN m`, a best move attaining it.
-/
namespace Inkayaku.SearchRep
open Inkayaku.Board Inkayaku.Eval Inkayaku.WF Inkayaku.BoardCongr Inkayaku.Minimax Inkayaku.SpecSearch Inkayaku.Search
open Inkayaku.SearchSim Inkayaku.History
open Inkayaku.C06 (HashKey)

theorem occurrences_congr (L : List Board) {p p' : Board} (h : vis p = vis p') : occurrences L p = occurrences L p' := by
  unfold occurrences
  rw [halfmove_congr h, hashKey_vis h]
  congr 2
  apply List.filter_congr
  intro i hi
  have hi' : i < L.length := List.mem_range.mp hi
  rw [List.getD_eq_getElem?_getD, List.getD_eq_getElem?_getD, List.getElem?_eq_getElem hi']
  rfl

theorem repValue_one_bounds' : lossScore < -(repValue 1) ∧ -(repValue 1) < Gen.winScore := by decide

/-- exact value of the node below the root move `m`, from the point of view of the side to move there -/
def childExact (L : List Board) (bN : Board) (m : Move) : Int :=
  if 3 ≤ occurrences L (make bN m) then repValue 1 else mm game 0 (make bN m, [])

/-- the depth-1 value of the last position `bN` of the game line `L`: the best of the negated child values -/
def repValue1 (L : List Board) (bN : Board) : Int := mmFold (childExact L bN) lossScore (genLegal bN)

/-- the game-level hypotheses, for every legal move of the last position -/
structure RootHyp (b0 : Board) (T : List Board) : Prop where
  line : IsLine (b0 :: T)
  inv : Inv (T.length + fuelFor 1) b0
  nowrap : ply2 b0 + (T.length + 1) < 65536
  nz : ∀ m ∈ genLegal (lastBoard b0 T), Zobrist.hash (make (lastBoard b0 T) m) ≠ 0
  coll : ∀ m ∈ genLegal (lastBoard b0 T), ∀ (i : Nat) (b : Board), (b0 :: T)[i]? = some b →
    T.length + 1 - (make (lastBoard b0 T) m).halfmove ≤ i →
    Zobrist.hash b = Zobrist.hash (make (lastBoard b0 T) m) → HashKey b = HashKey (make (lastBoard b0 T) m)
  mat : material (lastBoard b0 T) ≤ 64

theorem RootHyp.last {b0 : Board} {T : List Board} (H : RootHyp b0 T) : Inv (fuelFor 1) (lastBoard b0 T) ∧
    ply2 (lastBoard b0 T) = ply2 b0 + T.length := by
  obtain ⟨hi, hp⟩ := line_facts T b0 (T.length + fuelFor 1) H.line H.inv (by omega) T.length _ (getElem?_lastBoard T b0)
  have : T.length + fuelFor 1 - T.length = fuelFor 1 := by omega
  rw [this] at hi
  exact ⟨hi, hp⟩

/-- what the root's move loop keeps of its state -/
structure RS (b0 : Board) (T : List Board) (out0 : List Out) (pp : Nat) (s : St) : Prop where
  board : vis s.board = vis (lastBoard b0 T)
  hist : LineHist (plyClock b0) (b0 :: T) s.history
  tt : ∀ k, s.tt.get? k = none
  stop : s.stop = false
  out : s.out = out0
  pp : s.pollPeriod = pp

/-- the horizon node with any window -/
theorem child_horizon_ok (c : St) (hinv : Inv 199 c.board) (hq : QDepth quiescenceFuel c.board) (a b : Int)
    (hL : lossScore ≤ a) (hab : a < b) (hU : b ≤ -lossScore) (isPv : Bool) (h ph : UInt64)
    (hf : pollFlag c = false) (htt : ∀ k, c.tt.get? k = none) :
    Ok (mm game 0 (c.board, [])) (nodeBody 199 c 1 1 a b isPv h ph).1.value a b ∧
    ∃ b' qn, (nodeBody 199 c 1 1 a b isPv h ph).2 = { enter c h with board := b', quiescenceNodes := qn } := by
  have hb : (enter c h).board = c.board := enter_board c h
  rw [nodeBody_horizon 199 c 1 (by omega) _ _ isPv h ph hf htt]
  obtain ⟨hok, b', qn, hst⟩ := horizon_value 199 (enter c h) (by rw [hb]; exact hinv) (by omega) (by rw [hb]; exact hq)
    a b hL hab hU
  rw [hb] at hok hst
  exact ⟨hok, b', qn, hst⟩

section
variable {b0 : Board} {T : List Board} (H : RootHyp b0 T)
include H

/-- **the node below a legal root move**, entered from a state of the root's move loop between two polls -/
theorem root_child {out0 : List Out} {pp : Nat} (s : St) (hs : RS b0 T out0 pp s) (m : Move)
    (hm : m ∈ genPseudo (lastBoard b0 T)) (hl : isMoveLegal (lastBoard b0 T) m = true)
    (hnn : 0 < s.negamaxNodes) (hlt : s.negamaxNodes < s.pollPeriod)
    (a b : Int) (hL : lossScore ≤ a) (hab : a < b) (hU : b ≤ -lossScore) (isPv : Bool) (ph : UInt64) :
    let r := negamax 200 { s with board := make s.board m } 1 1 a b isPv
      (Zobrist.hash (lastBoard b0 T) ^^^ (Zobrist.xorOf m.f).1) ph
    Ok (childExact (b0 :: T) (lastBoard b0 T) m) r.1.value a b ∧
    RS b0 T out0 pp { r.2 with board := unmake r.2.board m } ∧ r.2.negamaxNodes = s.negamaxNodes + 1 := by
  intro r
  obtain ⟨hlast, hlp⟩ := H.last
  have hwf := hlast.wf
  have hlegal : m ∈ genLegal (lastBoard b0 T) := List.mem_filter.mpr ⟨hm, hl⟩
  have hmk : vis (make s.board m) = vis (make (lastBoard b0 T) m) := make_congr hs.board m
  have hcinv : Inv 200 (make (lastBoard b0 T) m) := boardLaws.make_inv 200 _ m hlast (Or.inl hm) hl
  -- the child state
  have hcb : ({ s with board := make s.board m } : St).board = make s.board m := rfl
  have hn : NodeHyp b0 T { s with board := make s.board m } := by
    apply nodeHyp_of_game (s := { s with board := make s.board m }) H.line (Inv_mono (by unfold fuelFor; omega) H.inv) H.nowrap hlegal hmk hs.hist
    · rw [hcb, hash_congr hmk]; exact H.nz m hlegal
    · intro i b' hb' hw he
      rw [hcb] at hw he ⊢
      rw [hashKey_vis hmk]
      rw [halfmove_congr hmk] at hw
      rw [hash_congr hmk] at he
      exact H.coll m hlegal i b' hb' hw he
  have hf : pollFlag ({ s with board := make s.board m } : St) = false := pollFlag_false_of_lt hnn hlt
  have hhash : Zobrist.hash (lastBoard b0 T) ^^^ (Zobrist.xorOf m.f).1 = Zobrist.hash (make s.board m) :=
    (hash_child hwf hs.board hm).symm
  have hocc : occurrences (b0 :: T) (make s.board m) = occurrences (b0 :: T) (make (lastBoard b0 T) m) :=
    occurrences_congr _ hmk
  obtain ⟨_, _, hpc⟩ := hn.node
  have hr : r = if 3 ≤ occurrences (b0 :: T) (make (lastBoard b0 T) m) then
        (VM.leaf (repValue 1), enter { s with board := make s.board m } (Zobrist.hash (make s.board m)))
      else nodeBody 199 { s with board := make s.board m } 1 1 a b isPv (Zobrist.hash (make s.board m)) ph := by
    show negamax (199 + 1) _ 1 1 a b isPv _ ph = _
    rw [hhash, ← hocc]
    exact negamax_repetition hn 199 1 1 (by omega) a b isPv ph (timedOut_of_noFlag hf)
  have hent := enter_of_noFlag hf (Zobrist.hash (make s.board m))
  -- both cases leave a state of the same shape
  have hshape : ∃ b' qn, vis b' = vis (make (lastBoard b0 T) m) ∧ r.2 =
      { s with board := b', quiescenceNodes := qn, negamaxNodes := s.negamaxNodes + 1,
               history := historySet s.history (plyClock (make s.board m)) (Zobrist.hash (make s.board m)).toNat } ∧
      Ok (childExact (b0 :: T) (lastBoard b0 T) m) r.1.value a b := by
    by_cases h3 : 3 ≤ occurrences (b0 :: T) (make (lastBoard b0 T) m)
    · rw [if_pos h3] at hr
      refine ⟨make s.board m, s.quiescenceNodes, hmk, by rw [hr]; exact hent, ?_⟩
      rw [hr]
      unfold childExact
      rw [if_pos h3]
      exact Ok.refl _ _ _
    · rw [if_neg h3] at hr
      have hq : QDepth quiescenceFuel (make s.board m) :=
        QDepth_congr quiescenceFuel hmk.symm (qdepth_of_material quiescenceFuel _
          (Inv_mono (by unfold quiescenceFuel; omega) hcinv)
          (Nat.le_trans (material_make_le hwf (Or.inl hm)) H.mat))
      obtain ⟨hok, b', qn, hst⟩ := child_horizon_ok { s with board := make s.board m }
        (Inv_congr hmk.symm (Inv_mono (by omega) hcinv)) hq a b hL hab hU isPv (Zobrist.hash (make s.board m)) ph hf hs.tt
      have hvis := negamax_ok boardLaws 200 { s with board := make s.board m } 1 1 a b isPv
        (Zobrist.hash (lastBoard b0 T) ^^^ (Zobrist.xorOf m.f).1) ph (Inv_congr hmk.symm hcinv)
      change vis r.2.board = _ at hvis
      rw [hr, hst] at hvis
      refine ⟨b', qn, hvis.trans hmk, by rw [hr, hst, hent], ?_⟩
      rw [hr]
      unfold childExact
      rw [if_neg h3, ← mm_congr 0 _ _ [] hmk]
      exact hok
  obtain ⟨b', qn, hvb, hst, hok⟩ := hshape
  refine ⟨hok, ?_, by rw [hst]⟩
  rw [hst]
  refine ⟨back hwf (Or.inl hm) hvb, ?_, hs.tt, hs.stop, hs.out, hs.pp⟩
  show LineHist _ _ (historySet s.history _ _)
  rw [hpc]
  exact hs.hist.set _ _ (by simp only [List.length_cons]; omega)

/-- the recorded best move is a legal move whose child has the exact value `-v` -/
def Chosen1 (L : List Board) (bN : Board) (bm : Option Move) (v : Int) : Prop :=
  ∃ m, bm = some m ∧ m ∈ genLegal bN ∧ - childExact L bN m = v

/-- **the root move loop of iteration 1** (window `(lossScore, winScore)`, any move order, any PV/killer hints) -/
theorem root_loop {out0 : List Out} {pp : Nat} (isPv : Bool) (pvMove : Option Move) (ph : UInt64) (rem : Nat) :
    ∀ (moves : List Move), (∀ m ∈ moves, m ∈ genPseudo (lastBoard b0 T)) → ∀ (s : St) (acc : LoopAcc) (M : Int),
      RS b0 T out0 pp s → 0 < s.negamaxNodes → s.negamaxNodes + moves.length ≤ s.pollPeriod →
      acc.alpha < Gen.winScore → acc.alpha = max lossScore acc.bestValue →
      (acc.bestValue ≤ lossScore → M ≤ acc.bestValue) → (lossScore < acc.bestValue → acc.bestValue = M) →
      (lossScore < acc.bestValue → Chosen1 (b0 :: T) (lastBoard b0 T) acc.bestMove acc.bestValue) →
      let R := negamaxLoop 200 s moves 0 1 Gen.winScore isPv pvMove (Zobrist.hash (lastBoard b0 T)) ph rem acc
      R.2.1 = false ∧
      Ok (mmFold (childExact (b0 :: T) (lastBoard b0 T)) M (moves.filter (isMoveLegal (lastBoard b0 T)))) R.1.bestValue
        lossScore Gen.winScore ∧
      R.1.legalSeen = (acc.legalSeen || !(moves.filter (isMoveLegal (lastBoard b0 T))).isEmpty) ∧
      (lossScore < R.1.bestValue → R.1.bestValue < Gen.winScore →
        Chosen1 (b0 :: T) (lastBoard b0 T) R.1.bestMove R.1.bestValue) ∧
      (∃ k, RS b0 T out0 pp { R.2.2 with killers := k }) := by
  have hw := winScore_val
  have hlv := lossScore_val
  obtain ⟨hlast, _⟩ := H.last
  have hwf := hlast.wf
  intro moves
  induction moves with
  | nil =>
    intro _ s acc M hs _ _ hαβ hα h1 h2 h3
    rw [negamaxLoop_nil]
    refine ⟨rfl, ?_, by simp, fun h _ => h3 h, s.killers, hs⟩
    simp only [List.filter_nil, mmFold_nil]
    exact ⟨h1, fun h => by omega, fun h _ => h2 h⟩
  | cons m rest ih =>
    intro hmem s acc M hs hnn hlen hαβ hα h1 h2 h3
    have hm : m ∈ genPseudo (lastBoard b0 T) := hmem m List.mem_cons_self
    have hrest : ∀ x ∈ rest, x ∈ genPseudo (lastBoard b0 T) := fun x hx => hmem x (List.mem_cons_of_mem _ hx)
    have hmk : vis (make s.board m) = vis (make (lastBoard b0 T) m) := make_congr hs.board m
    have hval : isValid (make s.board m) = isMoveLegal (lastBoard b0 T) m := isValid_congr hmk
    have hlen' : s.negamaxNodes + rest.length + 1 ≤ s.pollPeriod := by
      simpa [List.length_cons, Nat.add_assoc] using hlen
    rw [negamaxLoop_cons, hval]
    by_cases hl : isMoveLegal (lastBoard b0 T) m = true
    · rw [hl]
      simp only [Bool.not_true, Bool.false_eq_true, if_false]
      have hfilter : (m :: rest).filter (isMoveLegal (lastBoard b0 T)) = m :: rest.filter (isMoveLegal (lastBoard b0 T)) :=
        List.filter_cons_of_pos hl
      have hlegal : m ∈ genLegal (lastBoard b0 T) := List.mem_filter.mpr ⟨hm, hl⟩
      obtain ⟨⟨c1, c2, c3⟩, hrs, hnodes⟩ := root_child H s hs m hm hl hnn (by omega) (-Gen.winScore) (-acc.alpha)
        (by omega) (by omega) (by omega) (childPvOf isPv pvMove m) (ph ^^^ (Zobrist.xorOf m.f).2)
      generalize negamax 200 { s with board := make s.board m } (0 + 1) 1 (-Gen.winScore) (-acc.alpha)
        (childPvOf isPv pvMove m) (Zobrist.hash (lastBoard b0 T) ^^^ (Zobrist.xorOf m.f).1)
        (ph ^^^ (Zobrist.xorOf m.f).2) = r at c1 c2 c3 hrs hnodes ⊢
      have hst : r.2.stop = false := hrs.stop
      have hst' : ¬ r.2.stop = true := by rw [hst]; exact Bool.false_ne_true
      rw [if_neg hst']
      rw [hfilter]
      simp only [mmFold_cons, List.isEmpty_cons, Bool.not_false, Bool.or_true]
      generalize hrv : r.1.value = rv at c1 c2 c3
      generalize hecv : childExact (b0 :: T) (lastBoard b0 T) m = ec at c1 c2 c3
      have hpp3 : ({ r.2 with board := unmake r.2.board m } : St).pollPeriod = s.pollPeriod := by
        rw [hrs.pp, hs.pp]
      have hnn3 : ({ r.2 with board := unmake r.2.board m } : St).negamaxNodes = s.negamaxNodes + 1 := hnodes
      by_cases hv : -rv > acc.bestValue
      · rw [accUpdate_gt acc m r.1 (by rw [hrv]; exact hv)]
        simp only [hrv]
        by_cases hcut : max acc.alpha (-rv) ≥ Gen.winScore
        · rw [if_pos hcut]
          dsimp only
          have hmono := le_mmFold (childExact (b0 :: T) (lastBoard b0 T)) (max M (-ec))
            (rest.filter (isMoveLegal (lastBoard b0 T)))
          generalize mmFold (childExact (b0 :: T) (lastBoard b0 T)) (max M (-ec))
            (rest.filter (isMoveLegal (lastBoard b0 T))) = Mall at hmono
          refine ⟨rfl, ⟨fun h => by omega, fun h => by omega, fun h => by omega⟩, rfl, fun h h' => by omega, [], ?_⟩
          exact ⟨hrs.board, hrs.hist, hrs.tt, hrs.stop, hrs.out, hrs.pp⟩
        · rw [if_neg hcut]
          have := ih hrest { r.2 with board := unmake r.2.board m }
            { alpha := max acc.alpha (-rv), bestValue := -rv, bestMove := some m, bestChild := some r.1, legalSeen := true }
            (max M (-ec)) hrs (by rw [hnn3]; omega) (by rw [hnn3, hpp3]; omega)
            (by simp only; omega) (by simp only; omega) (by simp only; omega) (by simp only; omega)
            (fun h => ⟨m, rfl, hlegal, by rw [hecv]; simp only at h ⊢; omega⟩)
          obtain ⟨p1, p2, p3, p4, p5⟩ := this
          exact ⟨p1, p2, by rw [p3]; rfl, p4, p5⟩
      · rw [accUpdate_le acc m r.1 (by rw [hrv]; exact hv)]
        by_cases hcut : max acc.alpha acc.bestValue ≥ Gen.winScore
        · omega
        · simp only
          rw [if_neg hcut]
          have := ih hrest { r.2 with board := unmake r.2.board m }
            { acc with legalSeen := true, alpha := max acc.alpha acc.bestValue }
            (max M (-ec)) hrs (by rw [hnn3]; omega) (by rw [hnn3, hpp3]; omega)
            (by simp only; omega) (by simp only; omega) (by simp only; omega) (by simp only; omega) h3
          obtain ⟨p1, p2, p3, p4, p5⟩ := this
          exact ⟨p1, p2, by rw [p3]; rfl, p4, p5⟩
    · have hl' : isMoveLegal (lastBoard b0 T) m = false := by simpa using hl
      rw [hl']
      simp only [Bool.not_false, if_true]
      have hfilter : (m :: rest).filter (isMoveLegal (lastBoard b0 T)) = rest.filter (isMoveLegal (lastBoard b0 T)) :=
        List.filter_cons_of_neg (by simp [hl'])
      rw [hfilter]
      exact ih hrest { s with board := unmake (make s.board m) m } acc M
        ⟨back hwf (Or.inl hm) hmk, hs.hist, hs.tt, hs.stop, hs.out, hs.pp⟩ hnn
        (by show s.negamaxNodes + rest.length ≤ s.pollPeriod; omega) hαβ hα h1 h2 h3

end

/-! ## the root node -/

theorem neg_le_mmFold {P : Type} (e : P → Int) (init : Int) (cs : List P) (c : P) (hc : c ∈ cs) : - e c ≤ mmFold e init cs := by
  induction cs generalizing init with
  | nil => cases hc
  | cons x xs ih =>
    rw [mmFold_cons]
    rcases List.mem_cons.mp hc with rfl | h
    · have := le_mmFold e (max init (- e c)) xs
      omega
    · exact ih _ h

theorem finish_seen (c : Nat) (a b : Int) (h : UInt64) (rem : Nat) (acc : LoopAcc) (s : St) (hseen : acc.legalSeen = true) :
    (finish c a b h rem (acc, false, s)).1 = VM.mk acc.bestValue acc.bestMove acc.bestChild ∧
    ∃ tt, (finish c a b h rem (acc, false, s)).2 = { s with tt := tt } := by
  unfold finish
  simp only [Bool.false_eq_true, if_false, hseen, Bool.not_true]
  split
  · exact ⟨rfl, _, rfl⟩
  · exact ⟨rfl, _, rfl⟩

theorem rootBuffer_all {s : St} (hsm : s.go.searchMoves = []) : rootBuffer s 0 = genPseudo s.board := by
  unfold rootBuffer
  rw [hsm, if_neg (by simp)]

theorem sortMoves_perm (ms : List Move) (a b c : Option Move) : (sortMoves ms a b c).Perm ms := by
  unfold sortMoves
  exact List.mergeSort_perm _ _

section
variable {b0 : Board} {T : List Board} (H : RootHyp b0 T)
include H

/-- the negated exact child values lie strictly inside the window -/
theorem childExact_bounds {m : Move} (hm : m ∈ genLegal (lastBoard b0 T)) :
    lossScore < - childExact (b0 :: T) (lastBoard b0 T) m ∧ - childExact (b0 :: T) (lastBoard b0 T) m < Gen.winScore := by
  obtain ⟨hlast, hlp⟩ := H.last
  obtain ⟨hg, hv⟩ := List.mem_filter.mp hm
  have hcinv : Inv 200 (make (lastBoard b0 T) m) := boardLaws.make_inv 200 _ m hlast (Or.inl hg) hv
  have hw := winScore_val
  have hlv := lossScore_val
  unfold childExact
  split
  · have := repValue_one_bounds'
    omega
  · have hcfm : (make (lastBoard b0 T) m).fullmove < 1000000 := by
      have h1 := ((MakeWf.wf_iff _).mp hcinv.wf).fm1
      have h2 : ply2 (make (lastBoard b0 T) m) = ply2 b0 + T.length + 1 := by rw [ply2_make hlast.wf, hlp]
      have h3 : ply2 (make (lastBoard b0 T) m) =
        2 * ((make (lastBoard b0 T) m).fullmove - 1) + (make (lastBoard b0 T) m).turn := rfl
      have := H.nowrap
      omega
    obtain ⟨lo, hi⟩ := horizon_bounds hcinv.wf hcfm
    omega

/-- **iteration 1 of a `go` after `position … moves …`** (no `searchmoves`, the moves fit between two polls): the value is
`repValue1` = the best negated exact child value, a move attaining it is returned, nothing but board / counters / history /
killers / table changes -/
theorem rootSearch_game (p : St) (hpb : vis p.board = vis (lastBoard b0 T))
    (hh : LineHist (plyClock b0) (b0 :: T) p.history) (hnn : p.negamaxNodes = 0) (htt : ∀ k, p.tt.get? k = none)
    (hstop : p.stop = false) (hsm : p.go.searchMoves = []) (hlegal : genLegal (lastBoard b0 T) ≠ [])
    (hpoll : (genPseudo (lastBoard b0 T)).length < p.pollPeriod) :
    (rootSearch p 1).1.value = repValue1 (b0 :: T) (lastBoard b0 T) ∧
    (∃ m, (rootSearch p 1).1.mv = some m ∧ m ∈ genLegal (lastBoard b0 T) ∧
      - childExact (b0 :: T) (lastBoard b0 T) m = repValue1 (b0 :: T) (lastBoard b0 T)) ∧
    (rootSearch p 1).2.stop = false ∧ (rootSearch p 1).2.out = p.out := by
  have hw := winScore_val
  have hlv := lossScore_val
  obtain ⟨hlast, hlp⟩ := H.last
  have hf := pollFlag_false_of_zero hnn
  have he := enter_of_noFlag hf (Zobrist.hash p.board)
  have hb3 : (enter p (Zobrist.hash p.board)).board = p.board := enter_board p _
  have hrep : isRep (enter p (Zobrist.hash p.board)) 0 = false := isRep_zero _
  have hentry : (enter p (Zobrist.hash p.board)).tt.get? (Zobrist.hash p.board) = none := by rw [he]; exact htt _
  have hbuf : rootBuffer (enter p (Zobrist.hash p.board)) 0 = genPseudo (lastBoard b0 T) := by
    rw [rootBuffer_all (by rw [he]; exact hsm), hb3, genPseudo_congr hpb]
  have hne : (genPseudo (lastBoard b0 T)).isEmpty = false := by
    cases hg : genPseudo (lastBoard b0 T) with
    | nil => exact absurd (by unfold genLegal; rw [hg]; rfl) hlegal
    | cons _ _ => rfl
  have hrs : RS b0 T p.out p.pollPeriod (enter p (Zobrist.hash p.board)) := by
    refine ⟨by rw [hb3]; exact hpb, ?_, by rw [he]; exact htt, by rw [he]; exact hstop, by rw [he], by rw [he]⟩
    exact lineHist_enter_root H.line (Inv_mono (by omega) H.inv) (by have := H.nowrap; omega) hpb hh
  have hfuel : fuelFor 1 = 200 + 1 := rfl
  unfold rootSearch
  rw [hfuel, negamax_succ, timedOut_of_noFlag hf]
  simp only [Bool.false_eq_true, if_false, hrep, hentry, probe_none, hbuf, hne, Bool.and_false]
  have h02 : ((0 : Nat) == 1) = false := rfl
  rw [h02]
  simp only [Bool.false_eq_true, if_false]
  have hloop := root_loop H p.pv.isSome (pvMoveOf (enter p (Zobrist.hash p.board)) p.pv.isSome 0)
    (Zobrist.pawnHash p.board) (1 - 0)
    (sortMoves (genPseudo (lastBoard b0 T)) (pvMoveOf (enter p (Zobrist.hash p.board)) p.pv.isSome 0)
      (ttMoveOf none) (killerGet (enter p (Zobrist.hash p.board)).killers (1 - 0)))
    (fun m hm => mem_sortMoves.mp hm) (enter p (Zobrist.hash p.board)) (acc0 lossScore) lossScore hrs
    (by rw [he]; show 0 < p.negamaxNodes + 1; omega)
    (by rw [length_sortMoves, he]; show p.negamaxNodes + 1 + _ ≤ p.pollPeriod; omega)
    (by show lossScore < Gen.winScore; omega) (by show lossScore = max lossScore lossScore; omega)
    (fun _ => Int.le_refl _) (fun h => absurd h (by show ¬ lossScore < lossScore; omega))
    (fun h => absurd h (by show ¬ lossScore < lossScore; omega))
  dsimp only at hloop
  rw [← hash_congr hpb] at hloop
  obtain ⟨l1, l2, l3, l4, k, l5⟩ := hloop
  -- the fold over the sorted legal moves is the fold over the legal moves
  have hperm : mmFold (childExact (b0 :: T) (lastBoard b0 T)) lossScore
      ((sortMoves (genPseudo (lastBoard b0 T)) (pvMoveOf (enter p (Zobrist.hash p.board)) p.pv.isSome 0)
        (ttMoveOf none) (killerGet (enter p (Zobrist.hash p.board)).killers (1 - 0))).filter
          (isMoveLegal (lastBoard b0 T))) = repValue1 (b0 :: T) (lastBoard b0 T) :=
    mmFold_perm _ _ ((sortMoves_perm _ _ _ _).filter _)
  have hnonempty : ((sortMoves (genPseudo (lastBoard b0 T)) (pvMoveOf (enter p (Zobrist.hash p.board)) p.pv.isSome 0)
        (ttMoveOf none) (killerGet (enter p (Zobrist.hash p.board)).killers (1 - 0))).filter
          (isMoveLegal (lastBoard b0 T))).isEmpty = false := by
    have := ((sortMoves_perm (genPseudo (lastBoard b0 T)) (pvMoveOf (enter p (Zobrist.hash p.board)) p.pv.isSome 0)
      (ttMoveOf none) (killerGet (enter p (Zobrist.hash p.board)).killers (1 - 0))).filter (isMoveLegal (lastBoard b0 T))).length_eq
    cases hg : genLegal (lastBoard b0 T) with
    | nil => exact absurd hg hlegal
    | cons x xs =>
      unfold genLegal at hg
      rw [hg] at this
      cases hq : (sortMoves (genPseudo (lastBoard b0 T)) (pvMoveOf (enter p (Zobrist.hash p.board)) p.pv.isSome 0)
        (ttMoveOf none) (killerGet (enter p (Zobrist.hash p.board)).killers (1 - 0))).filter (isMoveLegal (lastBoard b0 T)) with
      | nil => rw [hq] at this; simp at this
      | cons _ _ => rfl
  rw [hperm] at l2
  rw [hnonempty] at l3
  -- the value is strictly inside the window
  have hbounds : lossScore < repValue1 (b0 :: T) (lastBoard b0 T) ∧ repValue1 (b0 :: T) (lastBoard b0 T) < Gen.winScore := by
    unfold repValue1
    cases hg : genLegal (lastBoard b0 T) with
    | nil => exact absurd hg hlegal
    | cons x xs =>
      constructor
      · have h1 := neg_le_mmFold (childExact (b0 :: T) (lastBoard b0 T)) lossScore (x :: xs) x List.mem_cons_self
        have h2 := (childExact_bounds H (m := x) (by rw [hg]; exact List.mem_cons_self)).1
        omega
      · have := mmFold_le (childExact (b0 :: T) (lastBoard b0 T)) lossScore (Gen.winScore - 1) (x :: xs) (by omega)
          (fun c hc => by have := (childExact_bounds H (m := c) (by rw [hg]; exact hc)).2; omega)
        omega
  generalize negamaxLoop 200 (enter p (Zobrist.hash p.board)) _ 0 1 Gen.winScore p.pv.isSome _ _ _ (1 - 0) (acc0 lossScore) = R
    at l1 l2 l3 l4 l5 ⊢
  obtain ⟨acc, ab, st⟩ := R
  simp only at l1 l2 l3 l4 l5
  subst l1
  obtain ⟨a1, a2, a3⟩ := l2
  have hval : acc.bestValue = repValue1 (b0 :: T) (lastBoard b0 T) := by
    by_cases x : acc.bestValue ≤ lossScore
    · have := a1 x; omega
    · by_cases y : Gen.winScore ≤ acc.bestValue
      · have := a2 y; omega
      · exact a3 (by omega) (by omega)
  obtain ⟨f1, tt, f2⟩ := finish_seen p.board.turn lossScore Gen.winScore (Zobrist.hash p.board) (1 - 0) acc st
    (by rw [l3]; rfl)
  rw [f1, f2]
  obtain ⟨m, hm1, hm2, hm3⟩ := l4 (by omega) (by omega)
  refine ⟨hval, ⟨m, hm1, hm2, by rw [hm3, hval]⟩, l5.stop, l5.out⟩

end

end Inkayaku.SearchRep
