import Inkayaku.Proofs.SearchRepDeepRoot
/-!
# C10 below the root, step 4: where the hypotheses `RHyp` come from

* `rhyp_le2`       – for `D ≤ 2` the line-dependent injectivity `RHashInj` is NOT an extra hypothesis: the nodes at plies 0 and 1
                     have one line each (`RNode.line_le1`), so it follows from `SearchSim.NoCollision` on the ≤ 2-ply neighbourhood
                     of the last game position (equal hash ⇒ equal `C06.HashKey`) and the chess facts of
                     `Proofs/SearchSimHash.lean` (`sameDraft_le2`).  `DeepHyp` = what remains explicit;
* `clines`, `nodesAt`, `rnode_mem` – the nodes of the search tree, enumerated;
* `rhypB`, `rhyp_of_check` – executable form of ALL hypotheses `RHyp b0 T D`, for every `D` (for `D ≥ 3` this includes the
                     genuine restriction `RHashInj`: no transposition between different lines inside the tree).
-/
namespace Inkayaku.SearchRepDeep
open Inkayaku.Board Inkayaku.Eval Inkayaku.WF Inkayaku.BoardCongr Inkayaku.Minimax Inkayaku.SpecSearch Inkayaku.Search
open Inkayaku.SearchSim Inkayaku.History Inkayaku.SearchRep
open Inkayaku.C06 (HashKey)
open Inkayaku.RepSpec (RPos Key key repGame isRepetition)
open Inkayaku.C10Search.Example (collB coll_of_collB)

/-! ## depth ≤ 2 -/

/-- no collision between a node below the root and the positions of its line inside the window of the repetition test -/
def LineColl (b0 : Board) (T : List Board) (D : Nat) : Prop :=
  ∀ (k : Nat) (Lb : List Board) (p : Board), 1 ≤ k → k ≤ D → RNode b0 T k Lb p → ∀ (i : Nat) (b : Board),
    Lb[i]? = some b → Lb.length - p.halfmove ≤ i → Zobrist.hash b = Zobrist.hash p → HashKey b = HashKey p

/-- the explicit hypotheses for `go depth D`, `D ≤ 2`, after the game `b0 :: T` -/
structure DeepHyp (b0 : Board) (T : List Board) (D : Nat) : Prop where
  line : IsLine (b0 :: T)
  inv : Inv (T.length + fuelFor D) b0
  nowrap : ply2 b0 + (T.length + D) < 65536
  /-- equal hashes in the `D`-ply neighbourhood of the last game position ⇒ equal placement, side, rights, e.p. file -/
  nc : NoCollision (lastBoard b0 T) D
  /-- no position below the root hashes to zero -/
  nz : HashNonzero (lastBoard b0 T) D
  coll : LineColl b0 T D
  mat : material (lastBoard b0 T) ≤ 64

/-- **for `D ≤ 2` no line-dependent hypothesis is needed** -/
theorem rhyp_le2 {b0 : Board} {T : List Board} {D : Nat} (hD : D ≤ 2) (h : DeepHyp b0 T D) : RHyp b0 T D := by
  obtain ⟨hlast, _⟩ := last_facts h.line h.inv
  have hinj : HashInj (lastBoard b0 T) D := hashInj_le2 (Inv_mono (by unfold fuelFor; omega) hlast) hD h.nc
  have hqb : QBound (lastBoard b0 T) D :=
    SearchSim.qbound_of_material (Inv_mono (by unfold fuelFor quiescenceFuel; omega) hlast) h.mat
  refine ⟨h.line, Inv_mono (by unfold fuelFor; omega) h.inv, h.nowrap, ?_, h.coll, ?_, ?_⟩
  · intro k Lb p hk1 hk hn
    exact h.nz k p hk1 hk hn.reach
  · intro k' k Lb' Lb p' p hk' hk hn' hn he
    obtain ⟨rfl, hv⟩ := hinj k' k p' p hk' hk hn'.reach hn.reach he
    exact ⟨rfl, hv, by rw [RNode.line_le1 (by omega) hn hn']⟩
  · intro k Lb p hk hn
    exact hqb k p hk hn.reach

/-! ## the nodes, enumerated -/

/-- all canonical search lines of length `k` below `q` -/
def clines : Board → Nat → List (List Board)
  | _, 0 => [[]]
  | q, k + 1 => (genLegal q).flatMap fun m => (clines (make q m) k).map (make q m :: ·)

theorem mem_clines : ∀ (k : Nat) (q : Board) (E : List Board), E.length = k → CLine q E → E ∈ clines q k
  | 0, _, E, hl, _ => by
    have : E = [] := List.length_eq_zero_iff.mp hl
    subst this
    exact List.mem_singleton.mpr rfl
  | k + 1, q, E, hl, hc => by
    cases E with
    | nil => simp at hl
    | cons c E' =>
      obtain ⟨⟨m, hm, rfl⟩, hc'⟩ := hc
      simp only [clines, List.mem_flatMap, List.mem_map]
      exact ⟨m, hm, E', mem_clines k _ E' (by simpa using hl) hc', rfl⟩

/-- the nodes at ply `k`: (boards before, board) -/
def nodesAt (b0 : Board) (T : List Board) (k : Nat) : List (List Board × Board) :=
  (clines (lastBoard b0 T) k).map fun E => ((b0 :: (T ++ E)).dropLast, lastBoard b0 (T ++ E))

theorem rnode_mem {b0 : Board} {T : List Board} {k : Nat} {Lb : List Board} {p : Board} (h : RNode b0 T k Lb p) :
    (Lb, p) ∈ nodesAt b0 T k := by
  obtain ⟨E, h1, _, hc, h3⟩ := h
  refine List.mem_map.mpr ⟨E, mem_clines k _ E h1 hc, ?_⟩
  have e : Lb ++ [p] = (b0 :: (T ++ E)).dropLast ++ [lastBoard b0 (T ++ E)] := by rw [snoc_lastBoard]; exact h3
  obtain ⟨e1, e2⟩ := List.append_inj' e rfl
  simp only [List.cons.injEq, and_true] at e2
  rw [e1, e2]

/-- every position reached by `k` legal moves from the last game position is the board of a node, up to the scratch words -/
theorem reach_rnode {b0 : Board} {T : List Board} (hl : IsLine (b0 :: T)) : ∀ {k : Nat} {p : Board},
    Reach (lastBoard b0 T) k p → ∃ Lb p', RNode b0 T k Lb p' ∧ vis p = vis p' := by
  intro k
  induction k with
  | zero => intro p h; exact ⟨_, _, RNode.root hl, h⟩
  | succ k ih =>
    intro p h
    obtain ⟨q, m, h1, h2, h3, h4⟩ := h
    obtain ⟨Lb, q', hn, hv⟩ := ih h1
    have hm : m ∈ genLegal q' := by
      rw [← genLegal_congr hv]; exact List.mem_filter.mpr ⟨h2, h3⟩
    exact ⟨_, _, hn.child hm, h4.trans (make_congr hv m)⟩

/-! ## executable hypotheses -/

/-- a node with its ply and its hash (computed once) -/
structure Tagged where
  k : Nat
  h : UInt64
  Lb : List Board
  p : Board

/-- all nodes of the plies `0 … D` -/
def tagged (b0 : Board) (T : List Board) (D : Nat) : List Tagged :=
  (List.range (D + 1)).flatMap fun k => (nodesAt b0 T k).map fun n => ⟨k, Zobrist.hash n.2, n.1, n.2⟩

theorem rnode_tagged {b0 : Board} {T : List Board} {D k : Nat} {Lb : List Board} {p : Board} (hk : k ≤ D)
    (h : RNode b0 T k Lb p) : (⟨k, Zobrist.hash p, Lb, p⟩ : Tagged) ∈ tagged b0 T D :=
  List.mem_flatMap.mpr ⟨k, List.mem_range.mpr (by omega), List.mem_map.mpr ⟨(Lb, p), rnode_mem h, rfl⟩⟩

def nzB (b0 : Board) (T : List Board) (D : Nat) : Bool :=
  (tagged b0 T D).all fun a => a.k == 0 || a.h != 0

def lineCollB (b0 : Board) (T : List Board) (D : Nat) : Bool :=
  (tagged b0 T D).all fun a => a.k == 0 || collB a.Lb a.p

/-- `RHashInj`, executable -/
def injB (b0 : Board) (T : List Board) (D : Nat) : Bool :=
  let ts := tagged b0 T D
  ts.all fun a => decide (D ≤ a.k) || ts.all fun b =>
    !(a.h == b.h) || (a.k == b.k && decide (vis a.p = vis b.p) && decide (a.Lb.map key = b.Lb.map key))

/-- `NoCollision` on the neighbourhood of the last game position, executable -/
def ncB (b0 : Board) (T : List Board) (D : Nat) : Bool :=
  let ts := tagged b0 T D
  ts.all fun a => decide (D ≤ a.k) || ts.all fun b => !(a.h == b.h) || decide (HashKey a.p = HashKey b.p)

theorem nz_of_check {b0 : Board} {T : List Board} {D : Nat} (h : nzB b0 T D = true) (k : Nat) (Lb : List Board) (p : Board)
    (hk1 : 1 ≤ k) (hk : k ≤ D) (hn : RNode b0 T k Lb p) : Zobrist.hash p ≠ 0 := by
  unfold nzB at h
  simp only [List.all_eq_true, Bool.or_eq_true, beq_iff_eq, bne_iff_ne] at h
  rcases h _ (rnode_tagged hk hn) with h0 | h1
  · simp only at h0; omega
  · exact h1

theorem lineColl_of_check {b0 : Board} {T : List Board} {D : Nat} (h : lineCollB b0 T D = true) : LineColl b0 T D := by
  intro k Lb p hk1 hk hn
  unfold lineCollB at h
  simp only [List.all_eq_true, Bool.or_eq_true, beq_iff_eq] at h
  rcases h _ (rnode_tagged hk hn) with h0 | h1
  · simp only at h0; omega
  · exact coll_of_collB h1

theorem inj_of_check {b0 : Board} {T : List Board} {D : Nat} (h : injB b0 T D = true) : RHashInj b0 T D := by
  intro k' k Lb' Lb p' p hk' hk hn' hn he
  unfold injB at h
  simp only [List.all_eq_true, Bool.or_eq_true, decide_eq_true_eq] at h
  rcases h _ (rnode_tagged (by omega) hn') with h0 | h1
  · simp only at h0; omega
  · have := h1 _ (rnode_tagged hk hn)
    simp only [he, beq_self_eq_true, Bool.not_true, Bool.false_eq_true, false_or, Bool.and_eq_true, beq_iff_eq,
      decide_eq_true_eq] at this
    exact ⟨this.1.1, this.1.2, this.2⟩

theorem nc_of_check {b0 : Board} {T : List Board} {D : Nat} (hl : IsLine (b0 :: T)) (h : ncB b0 T D = true) :
    NoCollision (lastBoard b0 T) D := by
  intro k' k p' p hk' hk hr' hr he
  obtain ⟨Lb', q', hn', hv'⟩ := reach_rnode hl hr'
  obtain ⟨Lb, q, hn, hv⟩ := reach_rnode hl hr
  rw [hash_congr hv', hash_congr hv] at he
  unfold ncB at h
  simp only [List.all_eq_true, Bool.or_eq_true, decide_eq_true_eq] at h
  rcases h _ (rnode_tagged (by omega) hn') with h0 | h1
  · simp only at h0; omega
  · have := h1 _ (rnode_tagged hk hn)
    simp only [he, beq_self_eq_true, Bool.not_true, Bool.false_eq_true, false_or] at this
    rw [hashKey_vis hv', hashKey_vis hv]
    exact this

theorem hashNonzero_of_nz {b0 : Board} {T : List Board} {D : Nat} (hl : IsLine (b0 :: T)) (h : nzB b0 T D = true) :
    HashNonzero (lastBoard b0 T) D := by
  intro k p hk1 hk hr
  obtain ⟨Lb, q, hn, hv⟩ := reach_rnode hl hr
  rw [hash_congr hv]
  exact nz_of_check h k Lb q hk1 hk hn

/-- all hypotheses of `rgoCmd_sim` except "a legal move exists", executable, for every depth -/
def rhypB (b0 : Board) (ucis : List String) (T : List Board) (D : Nat) : Bool :=
  decide (gameBoards b0 ucis = some (b0 :: T)) && wf b0 &&
  decide (b0.halfmove + (T.length + fuelFor D) ≤ 4095) && decide (b0.fullmove + (T.length + fuelFor D) < 2147483648) &&
  decide (ply2 b0 + (T.length + D) < 65536) && nzB b0 T D && lineCollB b0 T D && injB b0 T D &&
  decide (material (lastBoard b0 T) ≤ 64)

theorem rhyp_of_check {b0 : Board} {ucis : List String} {T : List Board} {D : Nat} (h : rhypB b0 ucis T D = true) :
    RHyp b0 T D ∧ gameBoards b0 ucis = some (b0 :: T) ∧ Inv (T.length + fuelFor D) b0 := by
  unfold rhypB at h
  simp only [Bool.and_eq_true, decide_eq_true_eq] at h
  obtain ⟨⟨⟨⟨⟨⟨⟨⟨h1, h2⟩, h3⟩, h4⟩, h5⟩, h6⟩, h7⟩, h8⟩, h9⟩ := h
  have hinv : Inv (T.length + fuelFor D) b0 := ⟨h2, h3, h4⟩
  obtain ⟨hlen, _⟩ := gameBoards_shape ucis b0 _ h1
  simp only [List.length_cons] at hlen
  obtain ⟨hl, _, _⟩ := gameBoards_isLine ucis b0 (T.length + fuelFor D) _ hinv (by omega) h1
  obtain ⟨hlast, _⟩ := last_facts hl hinv
  have hqb : QBound (lastBoard b0 T) D :=
    SearchSim.qbound_of_material (Inv_mono (by unfold fuelFor quiescenceFuel; omega) hlast) h9
  refine ⟨⟨hl, Inv_mono (by unfold fuelFor; omega) hinv, h5, nz_of_check h6, lineColl_of_check h7, inj_of_check h8, ?_⟩, h1, hinv⟩
  intro k Lb p hk hn
  exact hqb k p hk hn.reach

/-- the hypotheses `DeepHyp` (depth ≤ 2), executable -/
def deepHypB (b0 : Board) (ucis : List String) (T : List Board) (D : Nat) : Bool :=
  decide (gameBoards b0 ucis = some (b0 :: T)) && wf b0 &&
  decide (b0.halfmove + (T.length + fuelFor D) ≤ 4095) && decide (b0.fullmove + (T.length + fuelFor D) < 2147483648) &&
  decide (ply2 b0 + (T.length + D) < 65536) && ncB b0 T D && nzB b0 T D &&
  lineCollB b0 T D && decide (material (lastBoard b0 T) ≤ 64)

theorem deepHyp_of_check {b0 : Board} {ucis : List String} {T : List Board} {D : Nat} (h : deepHypB b0 ucis T D = true) :
    DeepHyp b0 T D ∧ gameBoards b0 ucis = some (b0 :: T) := by
  unfold deepHypB at h
  simp only [Bool.and_eq_true, decide_eq_true_eq] at h
  obtain ⟨⟨⟨⟨⟨⟨⟨⟨h1, h2⟩, h3⟩, h4⟩, h5⟩, h6⟩, h7⟩, h8⟩, h9⟩ := h
  have hinv : Inv (T.length + fuelFor D) b0 := ⟨h2, h3, h4⟩
  obtain ⟨hlen, _⟩ := gameBoards_shape ucis b0 _ h1
  simp only [List.length_cons] at hlen
  obtain ⟨hl, _, _⟩ := gameBoards_isLine ucis b0 (T.length + fuelFor D) _ hinv (by omega) h1
  exact ⟨⟨hl, hinv, h5, nc_of_check hl h6, hashNonzero_of_nz hl h7, lineColl_of_check h8, h9⟩, h1⟩

end Inkayaku.SearchRepDeep
