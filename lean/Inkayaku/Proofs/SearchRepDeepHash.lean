import Inkayaku.Proofs.SearchRepDeepRoot
import Inkayaku.Props.C08Transp
/-!
# C10 below the root, step 4: where the hypotheses `RHyp` come from

* `rhashInj_le3`, `rhyp_le3` – for `D ≤ 3` the line-dependent injectivity `RHashInj` is NOT an extra hypothesis: it follows from
                     `SearchSim.NoCollision` on the ≤ 3-ply neighbourhood of the last game position (equal hash ⇒ equal
                     `C06.HashKey`) and chess facts (`C08Transp.sameDraft_le3`, `transp13`).  The nodes at plies 0 and 1 have one
                     line each (`RNode.line_le1`); two lines to one ply-2 position differ in the key of their ply-1 position only,
                     which neither the node (distance 1) nor its children (a ply-1 position never recurs at ply 3) ever match.
                     `DeepHyp` = what remains explicit;
* `clines`, `nodesAt`, `rnode_mem` – the nodes of the search tree, enumerated;
* `rhypB`, `rhyp_of_check` – executable form of ALL hypotheses `RHyp b0 T D`, for every `D` (for `D ≥ 4` this includes the
                     genuine restriction `RHashInj`, in its window form `injB`: no transposition between lines that differ inside
                     the repetition window).
-/
namespace Inkayaku.SearchRepDeep
open Inkayaku.Board Inkayaku.Eval Inkayaku.WF Inkayaku.BoardCongr Inkayaku.Minimax Inkayaku.SpecSearch Inkayaku.Search
open Inkayaku.SearchSim Inkayaku.History Inkayaku.SearchRep
open Inkayaku.C06 (HashKey)
open Inkayaku.RepSpec (RPos Key key repGame isRepetition)
open Inkayaku.C10Search.Example (collB coll_of_collB)

/-! ## depth ≤ 2 -/

/-- no collision between a node below the root and the positions of its line inside the window of the repetition test -/
def LineColl (b0 : Board) (T : List Board) (D : Nat) : Prop :=
  ∀ (k : Nat) (Lb : List Board) (p : Board), 1 ≤ k → k ≤ D → RNode b0 T k Lb p → ∀ (i : Nat) (b : Board),
    Lb[i]? = some b → Lb.length - p.halfmove ≤ i → Zobrist.hash b = Zobrist.hash p → HashKey b = HashKey p

/-- the explicit hypotheses for `go depth D`, `D ≤ 3`, after the game `b0 :: T` -/
structure DeepHyp (b0 : Board) (T : List Board) (D : Nat) : Prop where
  line : IsLine (b0 :: T)
  inv : Inv (T.length + fuelFor D) b0
  nowrap : ply2 b0 + (T.length + D) < 65536
  /-- equal hashes in the `D`-ply neighbourhood of the last game position ⇒ equal placement, side, rights, e.p. file -/
  nc : NoCollision (lastBoard b0 T) D
  /-- no position below the root hashes to zero -/
  nz : HashNonzero (lastBoard b0 T) D
  coll : LineColl b0 T D
  mat : material (lastBoard b0 T) ≤ 64

/-- a node at ply 2: its line is the game followed by one board `c1 = make last m1`, and the node is `make c1 m2` -/
theorem RNode.two {b0 : Board} {T : List Board} {Lb : List Board} {p : Board} (h : RNode b0 T 2 Lb p) :
    ∃ m1 m2, m1 ∈ genLegal (lastBoard b0 T) ∧ m2 ∈ genLegal (make (lastBoard b0 T) m1) ∧
      Lb = b0 :: (T ++ [make (lastBoard b0 T) m1]) ∧ p = make (make (lastBoard b0 T) m1) m2 := by
  obtain ⟨E, h1, _, hc, h3⟩ := h
  match E, h1, hc with
  | [c1, c2], _, ⟨⟨m1, hm1, e1⟩, ⟨m2, hm2, e2⟩, _⟩ =>
    subst e1
    subst e2
    have e : Lb ++ [p] = (b0 :: (T ++ [make (lastBoard b0 T) m1])) ++ [make (make (lastBoard b0 T) m1) m2] := by
      rw [h3]; simp
    obtain ⟨e1, e2⟩ := List.append_inj' e rfl
    simp only [List.cons.injEq, and_true] at e2
    exact ⟨m1, m2, hm1, hm2, e1, e2⟩

/-- **for `D ≤ 3` the line-dependent injectivity is a theorem.**  Plies 0 and 1 have one line each.  Two lines to one position at
ply 2 differ in the key of their ply-1 position only; a ply-2 node never looks at it (distance 1), and its children (ply 3, the
horizon of iteration 3) would compare it with their own key – but a position at ply 1 never recurs at ply 3
(`C08Transp.transp13`). -/
theorem rhashInj_le3 {b0 : Board} {T : List Board} {D : Nat} (hD : D ≤ 3)
    (hlast : Inv D (lastBoard b0 T)) (hnc : NoCollision (lastBoard b0 T) D) : RHashInj b0 T D := by
  have hinj : HashInj (lastBoard b0 T) D := C08Transp.hashInj_of_noCollision_le3 hlast hD hnc
  intro k' k Lb' Lb p' p hk' hk hn' hn he
  obtain ⟨rfl, hv⟩ := hinj k' k p' p hk' hk hn'.reach hn.reach he
  refine ⟨rfl, hv, ?_⟩
  intro d hd
  by_cases hk1 : k' ≤ 1
  · rw [RNode.line_le1 hk1 hn hn']
    exact mm_rnode_congr d Lb k' hv
  · have hk2 : k' = 2 := by omega
    subst hk2
    have hD3 : D = 3 := by omega
    subst hD3
    obtain ⟨m1, m2, hm1, hm2, rfl, rfl⟩ := hn.two
    obtain ⟨a1, a2, ha1, ha2, rfl, rfl⟩ := hn'.two
    -- the same board on both sides
    rw [mm_rnode_congr d _ 2 hv]
    generalize hp : make (make (lastBoard b0 T) m1) m2 = p at hv
    have hr3 : ∀ m ∈ genLegal p, Reach (lastBoard b0 T) 3 (make p m) := by
      intro m hm
      rw [← hp] at hm ⊢
      exact C08Transp.reach_three.mpr ⟨m1, hm1, m2, hm2, m, hm, rfl⟩
    have h13 := C08Transp.transp13 (lastBoard b0 T) hlast
    have hne : ∀ (c : Move), c ∈ genLegal (lastBoard b0 T) → ∀ m ∈ genLegal p,
        key (make (lastBoard b0 T) c) ≠ key (make p m) := by
      intro c hc m hm hk
      exact h13 _ _ (reach_one.mpr ⟨c, hc, rfl⟩) (hr3 m hm) ((RepSpec.key_eq_iff _ _).mp hk)
    have e1 : ∀ c : Move, rnode (b0 :: (T ++ [make (lastBoard b0 T) c])) p 2 =
        ⟨p, [], 2, key (make (lastBoard b0 T) c) :: (b0 :: T).reverse.map key⟩ := by
      intro c
      unfold rnode
      simp
    rw [e1 a1, e1 m1]
    have hrep : isRepetition ⟨p, [], 2, key (make (lastBoard b0 T) a1) :: (b0 :: T).reverse.map key⟩ =
        isRepetition ⟨p, [], 2, key (make (lastBoard b0 T) m1) :: (b0 :: T).reverse.map key⟩ :=
      isRepetition_of_occ p [] 2 (occ_head p [] 2 _ _ _)
    have hd1 : d = 0 ∨ d = 1 := by omega
    rcases hd1 with rfl | rfl
    · exact mm_zero_line p [] 2 hrep
    · apply mm_succ_line 0 p [] 2 hrep
      intro m hm
      have hm' : m ∈ genLegal p := by rw [← moves_nil p]; exact hm
      exact mm_zero_line _ [] 3 (isRepetition_of_occ _ [] 3
        (occ_second _ [] 3 _ _ _ _ (hne a1 ha1 m hm') (hne m1 hm1 m hm')))

/-- **for `D ≤ 3` no line-dependent hypothesis is needed** -/
theorem rhyp_le3 {b0 : Board} {T : List Board} {D : Nat} (hD : D ≤ 3) (h : DeepHyp b0 T D) : RHyp b0 T D := by
  obtain ⟨hlast, _⟩ := last_facts h.line h.inv
  have hqb : QBound (lastBoard b0 T) D :=
    SearchSim.qbound_of_material (Inv_mono (by unfold fuelFor quiescenceFuel; omega) hlast) h.mat
  refine ⟨h.line, Inv_mono (by unfold fuelFor; omega) h.inv, h.nowrap, ?_, h.coll,
    rhashInj_le3 hD (Inv_mono (by unfold fuelFor; omega) hlast) h.nc, ?_⟩
  · intro k Lb p hk1 hk hn
    exact h.nz k p hk1 hk hn.reach
  · intro k Lb p hk hn
    exact hqb k p hk hn.reach

theorem rhyp_le2 {b0 : Board} {T : List Board} {D : Nat} (hD : D ≤ 2) (h : DeepHyp b0 T D) : RHyp b0 T D :=
  rhyp_le3 (by omega) h

/-! ## the nodes, enumerated -/

/-- all canonical search lines of length `k` below `q` -/
def clines : Board → Nat → List (List Board)
  | _, 0 => [[]]
  | q, k + 1 => (genLegal q).flatMap fun m => (clines (make q m) k).map (make q m :: ·)

theorem mem_clines : ∀ (k : Nat) (q : Board) (E : List Board), E.length = k → CLine q E → E ∈ clines q k
  | 0, _, E, hl, _ => by
    have : E = [] := List.length_eq_zero_iff.mp hl
    subst this
    exact List.mem_singleton.mpr rfl
  | k + 1, q, E, hl, hc => by
    cases E with
    | nil => simp at hl
    | cons c E' =>
      obtain ⟨⟨m, hm, rfl⟩, hc'⟩ := hc
      simp only [clines, List.mem_flatMap, List.mem_map]
      exact ⟨m, hm, E', mem_clines k _ E' (by simpa using hl) hc', rfl⟩

/-- the nodes at ply `k`: (boards before, board) -/
def nodesAt (b0 : Board) (T : List Board) (k : Nat) : List (List Board × Board) :=
  (clines (lastBoard b0 T) k).map fun E => ((b0 :: (T ++ E)).dropLast, lastBoard b0 (T ++ E))

theorem rnode_mem {b0 : Board} {T : List Board} {k : Nat} {Lb : List Board} {p : Board} (h : RNode b0 T k Lb p) :
    (Lb, p) ∈ nodesAt b0 T k := by
  obtain ⟨E, h1, _, hc, h3⟩ := h
  refine List.mem_map.mpr ⟨E, mem_clines k _ E h1 hc, ?_⟩
  have e : Lb ++ [p] = (b0 :: (T ++ E)).dropLast ++ [lastBoard b0 (T ++ E)] := by rw [snoc_lastBoard]; exact h3
  obtain ⟨e1, e2⟩ := List.append_inj' e rfl
  simp only [List.cons.injEq, and_true] at e2
  rw [e1, e2]

/-- every position reached by `k` legal moves from the last game position is the board of a node, up to the scratch words -/
theorem reach_rnode {b0 : Board} {T : List Board} (hl : IsLine (b0 :: T)) : ∀ {k : Nat} {p : Board},
    Reach (lastBoard b0 T) k p → ∃ Lb p', RNode b0 T k Lb p' ∧ vis p = vis p' := by
  intro k
  induction k with
  | zero => intro p h; exact ⟨_, _, RNode.root hl, h⟩
  | succ k ih =>
    intro p h
    obtain ⟨q, m, h1, h2, h3, h4⟩ := h
    obtain ⟨Lb, q', hn, hv⟩ := ih h1
    have hm : m ∈ genLegal q' := by
      rw [← genLegal_congr hv]; exact List.mem_filter.mpr ⟨h2, h3⟩
    exact ⟨_, _, hn.child hm, h4.trans (make_congr hv m)⟩

/-! ## executable hypotheses -/

/-- a node with its ply and its hash (computed once) -/
structure Tagged where
  k : Nat
  h : UInt64
  Lb : List Board
  p : Board

/-- all nodes of the plies `0 … D` -/
def tagged (b0 : Board) (T : List Board) (D : Nat) : List Tagged :=
  (List.range (D + 1)).flatMap fun k => (nodesAt b0 T k).map fun n => ⟨k, Zobrist.hash n.2, n.1, n.2⟩

theorem rnode_tagged {b0 : Board} {T : List Board} {D k : Nat} {Lb : List Board} {p : Board} (hk : k ≤ D)
    (h : RNode b0 T k Lb p) : (⟨k, Zobrist.hash p, Lb, p⟩ : Tagged) ∈ tagged b0 T D :=
  List.mem_flatMap.mpr ⟨k, List.mem_range.mpr (by omega), List.mem_map.mpr ⟨(Lb, p), rnode_mem h, rfl⟩⟩

def nzB (b0 : Board) (T : List Board) (D : Nat) : Bool :=
  (tagged b0 T D).all fun a => a.k == 0 || a.h != 0

def lineCollB (b0 : Board) (T : List Board) (D : Nat) : Bool :=
  (tagged b0 T D).all fun a => a.k == 0 || collB a.Lb a.p

/-- `RHashInj`, executable -/
def injB (b0 : Board) (T : List Board) (D : Nat) : Bool :=
  let ts := tagged b0 T D
  ts.all fun a => decide (D ≤ a.k) || ts.all fun b =>
    !(a.h == b.h) || (a.k == b.k && decide (vis a.p = vis b.p) &&
      decide ((a.Lb.reverse.map key).take a.p.halfmove = (b.Lb.reverse.map key).take b.p.halfmove))

/-- `NoCollision` on the neighbourhood of the last game position, executable -/
def ncB (b0 : Board) (T : List Board) (D : Nat) : Bool :=
  let ts := tagged b0 T D
  ts.all fun a => decide (D ≤ a.k) || ts.all fun b => !(a.h == b.h) || decide (HashKey a.p = HashKey b.p)

theorem nz_of_check {b0 : Board} {T : List Board} {D : Nat} (h : nzB b0 T D = true) (k : Nat) (Lb : List Board) (p : Board)
    (hk1 : 1 ≤ k) (hk : k ≤ D) (hn : RNode b0 T k Lb p) : Zobrist.hash p ≠ 0 := by
  unfold nzB at h
  simp only [List.all_eq_true, Bool.or_eq_true, beq_iff_eq, bne_iff_ne] at h
  rcases h _ (rnode_tagged hk hn) with h0 | h1
  · simp only at h0; omega
  · exact h1

theorem lineColl_of_check {b0 : Board} {T : List Board} {D : Nat} (h : lineCollB b0 T D = true) : LineColl b0 T D := by
  intro k Lb p hk1 hk hn
  unfold lineCollB at h
  simp only [List.all_eq_true, Bool.or_eq_true, beq_iff_eq] at h
  rcases h _ (rnode_tagged hk hn) with h0 | h1
  · simp only at h0; omega
  · exact coll_of_collB h1

theorem inj_of_check {b0 : Board} {T : List Board} {D : Nat} (h : injB b0 T D = true) : RHashInj b0 T D := by
  apply rhashInj_of_window
  intro k' k Lb' Lb p' p hk' hk hn' hn he
  unfold injB at h
  simp only [List.all_eq_true, Bool.or_eq_true, decide_eq_true_eq] at h
  rcases h _ (rnode_tagged (by omega) hn') with h0 | h1
  · simp only at h0; omega
  · have := h1 _ (rnode_tagged hk hn)
    simp only [he, beq_self_eq_true, Bool.not_true, Bool.false_eq_true, false_or, Bool.and_eq_true, beq_iff_eq,
      decide_eq_true_eq] at this
    exact ⟨this.1.1, this.1.2, this.2⟩

theorem nc_of_check {b0 : Board} {T : List Board} {D : Nat} (hl : IsLine (b0 :: T)) (h : ncB b0 T D = true) :
    NoCollision (lastBoard b0 T) D := by
  intro k' k p' p hk' hk hr' hr he
  obtain ⟨Lb', q', hn', hv'⟩ := reach_rnode hl hr'
  obtain ⟨Lb, q, hn, hv⟩ := reach_rnode hl hr
  rw [hash_congr hv', hash_congr hv] at he
  unfold ncB at h
  simp only [List.all_eq_true, Bool.or_eq_true, decide_eq_true_eq] at h
  rcases h _ (rnode_tagged (by omega) hn') with h0 | h1
  · simp only at h0; omega
  · have := h1 _ (rnode_tagged hk hn)
    simp only [he, beq_self_eq_true, Bool.not_true, Bool.false_eq_true, false_or] at this
    rw [hashKey_vis hv', hashKey_vis hv]
    exact this

theorem hashNonzero_of_nz {b0 : Board} {T : List Board} {D : Nat} (hl : IsLine (b0 :: T)) (h : nzB b0 T D = true) :
    HashNonzero (lastBoard b0 T) D := by
  intro k p hk1 hk hr
  obtain ⟨Lb, q, hn, hv⟩ := reach_rnode hl hr
  rw [hash_congr hv]
  exact nz_of_check h k Lb q hk1 hk hn

/-- all hypotheses of `rgoCmd_sim` except "a legal move exists", executable, for every depth -/
def rhypB (b0 : Board) (ucis : List String) (T : List Board) (D : Nat) : Bool :=
  decide (gameBoards b0 ucis = some (b0 :: T)) && wf b0 &&
  decide (b0.halfmove + (T.length + fuelFor D) ≤ 4095) && decide (b0.fullmove + (T.length + fuelFor D) < 2147483648) &&
  decide (ply2 b0 + (T.length + D) < 65536) && nzB b0 T D && lineCollB b0 T D && injB b0 T D &&
  decide (material (lastBoard b0 T) ≤ 64)

theorem rhyp_of_check {b0 : Board} {ucis : List String} {T : List Board} {D : Nat} (h : rhypB b0 ucis T D = true) :
    RHyp b0 T D ∧ gameBoards b0 ucis = some (b0 :: T) ∧ Inv (T.length + fuelFor D) b0 := by
  unfold rhypB at h
  simp only [Bool.and_eq_true, decide_eq_true_eq] at h
  obtain ⟨⟨⟨⟨⟨⟨⟨⟨h1, h2⟩, h3⟩, h4⟩, h5⟩, h6⟩, h7⟩, h8⟩, h9⟩ := h
  have hinv : Inv (T.length + fuelFor D) b0 := ⟨h2, h3, h4⟩
  obtain ⟨hlen, _⟩ := gameBoards_shape ucis b0 _ h1
  simp only [List.length_cons] at hlen
  obtain ⟨hl, _, _⟩ := gameBoards_isLine ucis b0 (T.length + fuelFor D) _ hinv (by omega) h1
  obtain ⟨hlast, _⟩ := last_facts hl hinv
  have hqb : QBound (lastBoard b0 T) D :=
    SearchSim.qbound_of_material (Inv_mono (by unfold fuelFor quiescenceFuel; omega) hlast) h9
  refine ⟨⟨hl, Inv_mono (by unfold fuelFor; omega) hinv, h5, nz_of_check h6, lineColl_of_check h7, inj_of_check h8, ?_⟩, h1, hinv⟩
  intro k Lb p hk hn
  exact hqb k p hk hn.reach

/-- the hypotheses `DeepHyp` (depth ≤ 2), executable -/
def deepHypB (b0 : Board) (ucis : List String) (T : List Board) (D : Nat) : Bool :=
  decide (gameBoards b0 ucis = some (b0 :: T)) && wf b0 &&
  decide (b0.halfmove + (T.length + fuelFor D) ≤ 4095) && decide (b0.fullmove + (T.length + fuelFor D) < 2147483648) &&
  decide (ply2 b0 + (T.length + D) < 65536) && ncB b0 T D && nzB b0 T D &&
  lineCollB b0 T D && decide (material (lastBoard b0 T) ≤ 64)

theorem deepHyp_of_check {b0 : Board} {ucis : List String} {T : List Board} {D : Nat} (h : deepHypB b0 ucis T D = true) :
    DeepHyp b0 T D ∧ gameBoards b0 ucis = some (b0 :: T) := by
  unfold deepHypB at h
  simp only [Bool.and_eq_true, decide_eq_true_eq] at h
  obtain ⟨⟨⟨⟨⟨⟨⟨⟨h1, h2⟩, h3⟩, h4⟩, h5⟩, h6⟩, h7⟩, h8⟩, h9⟩ := h
  have hinv : Inv (T.length + fuelFor D) b0 := ⟨h2, h3, h4⟩
  obtain ⟨hlen, _⟩ := gameBoards_shape ucis b0 _ h1
  simp only [List.length_cons] at hlen
  obtain ⟨hl, _, _⟩ := gameBoards_isLine ucis b0 (T.length + fuelFor D) _ hinv (by omega) h1
  exact ⟨⟨hl, hinv, h5, nc_of_check hl h6, hashNonzero_of_nz hl h7, lineColl_of_check h8, h9⟩, h1⟩

end Inkayaku.SearchRepDeep
