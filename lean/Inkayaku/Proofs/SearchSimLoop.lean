import Inkayaku.Proofs.SearchSimInv
/-!
# C08, simulation step 4a: the move loop of `search_negamax`

`nLoop_sim`: if the recursive calls one ply deeper satisfy the node contract `NSim` (fail-soft contract w.r.t. `mm game`,
board restored, state invariant `SOK` kept), the concrete move loop – state threading, `make`/`unmake` on one board, skipped
illegal moves, the stop test, the accumulator with `legalSeen`, killer update at a cut-off – satisfies the loop contract
`LoopPost`: not aborted, the fail-soft contract w.r.t. the fold of the children's minimax values over the LEGAL moves of
the list, `legalSeen` = "a legal move was met", inside the window the recorded best move is a legal move attaining the
value.  The arithmetic is that of `Minimax.abTLoop_ok`.

No interruption (`NoIntr s n`, `n` = the node counter the search returns): either `n` is below the poll period, so no flag
poll happens at all (`NoPoll`; the counter only grows, `frame_stepRel`), or the state is `Calm` (no message waiting, no move
time), so a poll only emits its periodic info line (`calm_stepRel`).
-/
namespace Inkayaku.SearchSim
open Inkayaku.Board Inkayaku.Eval Inkayaku.WF Inkayaku.BoardCongr Inkayaku.Minimax Inkayaku.SpecSearch Inkayaku.Search

/-- the explicit hypotheses of the simulation for the root `b0` and the iteration depth `D` -/
structure Hyp (b0 : Board) (D : Nat) : Prop where
  inj : HashInj b0 D
  nz : HashNonzero b0 D
  qb : QBound b0 D
  hD : D ≤ 3
  /-- the 16-bit ply clock does not wrap within the search -/
  nowrap : ply2 b0 + D < 65536
  rootInv : Inv D b0

/-- the recorded best move is a legal move of `bN` whose child has the exact minimax value `-v` at depth `n` -/
def ChosenC (bN : Board) (n : Nat) (bm : Option Move) (v : Int) : Prop :=
  ∃ m, bm = some m ∧ m ∈ genLegal bN ∧ - mm game n (make bN m, []) = v

/-- the contract of a node at ply `k` of an iteration of depth `D` -/
def NodePost (b0 : Board) (D : Nat) (s : St) (k : Nat) (α β : Int) (hash : UInt64) (r : VM × St) : Prop :=
  Ok (mm game (D - k) (s.board, [])) r.1.value α β ∧ vis r.2.board = vis s.board ∧ SOK b0 D r.2 ∧
  (TTRootFresh s hash (D - k) → k < D → genLegal s.board ≠ [] → α < r.1.value → r.1.value < β →
    ChosenC s.board (D - k - 1) r.1.mv r.1.value)

def NSim (b0 : Board) (D fuel : Nat) : Prop :=
  ∀ (s : St) (k : Nat) (α β : Int) (isPv : Bool) (hash ph : UInt64),
    k ≤ D → Reach b0 k s.board → Inv fuel s.board → 66 + (D - k) ≤ fuel → SOK b0 D s → hash = Zobrist.hash s.board →
    (k = 0 → genLegal s.board ≠ []) → lossScore ≤ α → α < β → β ≤ -lossScore →
    NoIntr s (negamax fuel s k D α β isPv hash ph).2.negamaxNodes →
    NodePost b0 D s k α β hash (negamax fuel s k D α β isPv hash ph)

/-- the contract of the move loop of a node with board `bN` at ply `k` -/
def LoopPost (b0 : Board) (D : Nat) (bN : Board) (k : Nat) (α₀ β M : Int) (legal0 : Bool) (moves : List Move)
    (R : LoopAcc × Bool × St) : Prop :=
  R.2.1 = false ∧
  Ok (mmFold (mm game (D - k - 1)) M ((moves.filter (isMoveLegal bN)).map fun m => ((make bN m, []) : Pos)))
    R.1.bestValue α₀ β ∧
  R.1.legalSeen = (legal0 || !(moves.filter (isMoveLegal bN)).isEmpty) ∧
  (α₀ < R.1.bestValue → R.1.bestValue < β → ChosenC bN (D - k - 1) R.1.bestMove R.1.bestValue) ∧
  vis R.2.2.board = vis bN ∧ SOK b0 D R.2.2

theorem accUpdate_gt (acc : LoopAcc) (m : Move) (c : VM) (h : -c.value > acc.bestValue) :
    accUpdate acc m c = { alpha := max acc.alpha (-c.value), bestValue := -c.value, bestMove := some m,
                          bestChild := some c, legalSeen := true } := by
  unfold accUpdate
  simp only [h, if_true]

theorem accUpdate_le (acc : LoopAcc) (m : Move) (c : VM) (h : ¬ -c.value > acc.bestValue) :
    accUpdate acc m c = { acc with legalSeen := true, alpha := max acc.alpha acc.bestValue } := by
  unfold accUpdate
  simp only [h, if_false]

theorem SOK.setKillers {b0 : Board} {D : Nat} {s : St} (h : SOK b0 D s) (k : List Move) : SOK b0 D { s with killers := k } :=
  ⟨h.tt, h.hist, h.stop, h.sm⟩

theorem nLoop_sim {b0 : Board} {D fuel : Nat} (hn : NSim b0 D fuel)
    (bN : Board) (k : Nat) (hk : k < D) (hreach : Reach b0 k bN) (hinv : Inv (fuel + 1) bN)
    (hfuel : 66 + (D - (k + 1)) ≤ fuel) (hash ph : UInt64) (hhash : hash = Zobrist.hash bN)
    (β α₀ : Int) (hβ : β ≤ -lossScore) (hL : lossScore ≤ α₀) (isPv : Bool) (pvMove : Option Move) (rem : Nat) :
    ∀ (moves : List Move), (∀ m ∈ moves, m ∈ genPseudo bN) → ∀ (s : St) (acc : LoopAcc) (M : Int),
      vis s.board = vis bN → SOK b0 D s → acc.alpha < β → acc.alpha = max α₀ acc.bestValue →
      (acc.bestValue ≤ α₀ → M ≤ acc.bestValue) → (α₀ < acc.bestValue → acc.bestValue = M) →
      (α₀ < acc.bestValue → ChosenC bN (D - k - 1) acc.bestMove acc.bestValue) →
      NoIntr s (negamaxLoop fuel s moves k D β isPv pvMove hash ph rem acc).2.2.negamaxNodes →
      LoopPost b0 D bN k α₀ β M acc.legalSeen moves (negamaxLoop fuel s moves k D β isPv pvMove hash ph rem acc) := by
  have hwf := hinv.wf
  intro moves
  induction moves with
  | nil =>
    intro _ s acc M hs hsok hαβ hα h1 h2 h3 _
    rw [negamaxLoop_nil]
    refine ⟨rfl, ?_, ?_, ?_, hs, hsok⟩
    · simp only [List.filter_nil, List.map_nil, mmFold_nil]
      exact ⟨h1, fun h => by omega, fun h _ => h2 h⟩
    · simp
    · exact fun h _ => h3 h
  | cons m rest ih =>
    intro hmem s acc M hs hsok hαβ hα h1 h2 h3 hN
    have hm : m ∈ genPseudo bN := hmem m List.mem_cons_self
    have hrest : ∀ x ∈ rest, x ∈ genPseudo bN := fun x hx => hmem x (List.mem_cons_of_mem _ hx)
    have hgen : Generated bN m := Or.inl hm
    have hmk : vis (make s.board m) = vis (make bN m) := make_congr hs m
    have hval : isValid (make s.board m) = isMoveLegal bN m := isValid_congr hmk
    rw [negamaxLoop_cons, hval] at hN ⊢
    by_cases hl : isMoveLegal bN m = true
    · -- a legal move
      rw [hl] at hN ⊢
      simp only [Bool.not_true, Bool.false_eq_true, if_false] at hN ⊢
      have hfilter : (m :: rest).filter (isMoveLegal bN) = m :: rest.filter (isMoveLegal bN) :=
        List.filter_cons_of_pos hl
      -- the child call
      have hkept := negamax_rel (kept_stepRel D) fuel { s with board := make s.board m } (k + 1) (-β) (-acc.alpha)
        (childPvOf isPv pvMove m) (hash ^^^ (Zobrist.xorOf m.f).1) (ph ^^^ (Zobrist.xorOf m.f).2)
      have hcalmrel := negamax_rel (calm_stepRel D) fuel { s with board := make s.board m } (k + 1) (-β) (-acc.alpha)
        (childPvOf isPv pvMove m) (hash ^^^ (Zobrist.xorOf m.f).1) (ph ^^^ (Zobrist.xorOf m.f).2)
      have hchild := hn { s with board := make s.board m } (k + 1) (-β) (-acc.alpha)
        (childPvOf isPv pvMove m) (hash ^^^ (Zobrist.xorOf m.f).1) (ph ^^^ (Zobrist.xorOf m.f).2)
        (by omega) (Reach.step hreach hs hm hl)
        (child_inv boardLaws hinv hs hgen (by rw [hval]; exact hl)).1 hfuel (hsok.setBoard _)
        (by rw [hhash]; exact (hash_child hwf hs hm).symm) (by omega) (by omega) (by omega) (by omega)
      generalize negamax fuel { s with board := make s.board m } (k + 1) D (-β) (-acc.alpha)
        (childPvOf isPv pvMove m) (hash ^^^ (Zobrist.xorOf m.f).1) (ph ^^^ (Zobrist.xorOf m.f).2) = r at hN hkept hcalmrel hchild ⊢
      have hpp : r.2.pollPeriod = s.pollPeriod := hkept.2.2.2.1
      have hcalm : Calm s → Calm r.2 := hcalmrel
      -- the child is not interrupted either
      have hrN : NoIntr { s with board := make s.board m } r.2.negamaxNodes := by
        rcases hN with hN | hN
        · left
          show r.2.negamaxNodes < s.pollPeriod
          by_cases hst : r.2.stop = true
          · rw [if_pos hst] at hN; exact hN
          · rw [if_neg hst] at hN
            by_cases hcut : (accUpdate acc m r.1).alpha ≥ β
            · rw [if_pos hcut] at hN; exact hN
            · rw [if_neg hcut] at hN
              have hfr := nLoop_rel (frame_stepRel D) (negamax_rel (frame_stepRel D) fuel) rest
                { r.2 with board := unmake r.2.board m } k β isPv pvMove hash ph rem (accUpdate acc m r.1)
              exact Nat.lt_of_le_of_lt hfr.nn hN
        · right; exact hN
      obtain ⟨⟨c1, c2, c3⟩, hvis, hsok', _⟩ := hchild hrN
      have hst : r.2.stop = false := hsok'.stop
      have hst' : ¬ r.2.stop = true := by rw [hst]; exact Bool.false_ne_true
      rw [if_neg hst'] at hN ⊢
      have hec : mm game (D - (k + 1)) (make s.board m, []) = mm game (D - k - 1) (make bN m, []) := by
        rw [show D - (k + 1) = D - k - 1 from by omega]
        exact mm_congr _ _ _ [] hmk
      rw [hec] at c1 c2 c3
      have hb3 : vis (unmake r.2.board m) = vis bN := back hwf hgen (hvis.trans hmk)
      have hsok3 : SOK b0 D { r.2 with board := unmake r.2.board m } := hsok'.setBoard _
      have hlegal : m ∈ genLegal bN := List.mem_filter.mpr ⟨hm, hl⟩
      unfold LoopPost
      rw [hfilter]
      simp only [List.map_cons, mmFold_cons, List.isEmpty_cons, Bool.not_false, Bool.or_true]
      generalize hrv : r.1.value = rv at c1 c2 c3
      generalize hecv : mm game (D - k - 1) (make bN m, []) = ec at c1 c2 c3
      by_cases hv : -rv > acc.bestValue
      · rw [accUpdate_gt acc m r.1 (by rw [hrv]; exact hv)] at hN ⊢
        simp only [hrv] at hN ⊢
        by_cases hcut : max acc.alpha (-rv) ≥ β
        · rw [if_pos hcut]
          clear hN
          dsimp only
          have hmono := le_mmFold (mm game (D - k - 1)) (max M (-ec))
            ((rest.filter (isMoveLegal bN)).map fun m => ((make bN m, []) : Pos))
          generalize mmFold (mm game (D - k - 1)) (max M (-ec))
            ((rest.filter (isMoveLegal bN)).map fun m => ((make bN m, []) : Pos)) = Mall at hmono
          refine ⟨rfl, ⟨fun h => by omega, fun h => by omega, fun h => by omega⟩, rfl, fun h h' => by omega, hb3,
            ⟨hsok'.tt, hsok'.hist, hsok'.stop, hsok'.sm⟩⟩
        · rw [if_neg hcut] at hN ⊢
          have := ih hrest { r.2 with board := unmake r.2.board m }
            { alpha := max acc.alpha (-rv), bestValue := -rv, bestMove := some m, bestChild := some r.1, legalSeen := true }
            (max M (-ec)) hb3 hsok3 (by simp only; omega) (by simp only; omega) (by simp only; omega)
            (by simp only; omega)
            (fun h => ⟨m, rfl, hlegal, by rw [hecv]; simp only at h ⊢; omega⟩)
            (by
              rcases hN with hN | hN
              · left; rw [show ({ r.2 with board := unmake r.2.board m } : St).pollPeriod = r.2.pollPeriod from rfl, hpp]; exact hN
              · right; exact hcalm hN)
          obtain ⟨p1, p2, p3, p4, p5, p6⟩ := this
          exact ⟨p1, p2, by rw [p3]; rfl, p4, p5, p6⟩
      · rw [accUpdate_le acc m r.1 (by rw [hrv]; exact hv)] at hN ⊢
        by_cases hcut : max acc.alpha acc.bestValue ≥ β
        · omega
        · simp only at hN ⊢
          rw [if_neg hcut] at hN ⊢
          have := ih hrest { r.2 with board := unmake r.2.board m }
            { acc with legalSeen := true, alpha := max acc.alpha acc.bestValue }
            (max M (-ec)) hb3 hsok3 (by simp only; omega) (by simp only; omega) (by simp only; omega)
            (by simp only; omega) h3
            (by
              rcases hN with hN | hN
              · left; rw [show ({ r.2 with board := unmake r.2.board m } : St).pollPeriod = r.2.pollPeriod from rfl, hpp]; exact hN
              · right; exact hcalm hN)
          obtain ⟨p1, p2, p3, p4, p5, p6⟩ := this
          exact ⟨p1, p2, by rw [p3]; rfl, p4, p5, p6⟩
    · -- an illegal move is skipped
      have hl' : isMoveLegal bN m = false := by simpa using hl
      rw [hl'] at hN ⊢
      simp only [Bool.not_false, if_true] at hN ⊢
      have hfilter : (m :: rest).filter (isMoveLegal bN) = rest.filter (isMoveLegal bN) :=
        List.filter_cons_of_neg (by simp [hl'])
      unfold LoopPost
      rw [hfilter]
      exact ih hrest _ acc M (back hwf hgen hmk) (hsok.setBoard _) hαβ hα h1 h2 h3 hN

end Inkayaku.SearchSim
