import Inkayaku.Proofs.SearchSimTranspCodes
/-!
# C08, `Transp22`, step 2: two lines of two moves to the same placement reset the half-move clock alike (code functions)

`same22`: lines `m1 m2` and `a1 a2` from the same root with the same code functions at the end.  Counting pieces: `m1` captures
iff `a1` does, `m2` captures iff `a2` does.
* `pawn2`: if the second moves do not capture, one is a pawn move iff the other is.  Otherwise the pawn that `m2` moves has left
  its square, on which it still stands after `a1 a2` unless `a1` captured it; then the capturing piece stands on that square
  (on which the pawn still stands after `m1`), or `a1` is en passant and `m1` puts a pawn on the same empty target: en passant
  too, capturing the same pawn.
* `pawn1`: if no move captures and the second moves are no pawn moves, `m1` is a pawn move iff `a1` is (the pawn left its square).
-/
namespace Inkayaku.SearchSim.Transp
open Inkayaku.Board Inkayaku.GenFacts

theorem reset_congr {p p' a a' : Nat} (ha : a = 0 ↔ a' = 0) (hp : a = 0 → a' = 0 → (p = 1 ↔ p' = 1)) :
    (p == 1 || a != 0) = (p' == 1 || a' != 0) := by
  rw [Bool.eq_iff_iff]
  simp only [Bool.or_eq_true, beq_iff_eq, bne_iff_ne, ne_eq]
  by_cases h : a = 0
  · have h' := ha.mp h
    rw [hp h h', h, h']
  · have h' : ¬ a' = 0 := fun e => h (ha.mpr e)
    simp [h, h']

section
variable {w : Bool} {W B W1 B1 B2 W2 Wa Ba Ba2 Wa2 : Nat → Nat} {ep0 : Nat} {m1 m2 a1 a2 : MoveF}

/-- the first moves are quiet, the second moves quiet and no pawn moves: a pawn move in one line is one in the other -/
theorem pawn1 (h1 : Mv w W B W1 B1 ep0 m1) (h2 : Mv (!w) B1 W1 B2 W2 m1.nextEp m2)
    (g1 : Mv w W B Wa Ba ep0 a1) (g2 : Mv (!w) Ba Wa Ba2 Wa2 a1.nextEp a2)
    (eW : ∀ q, q < 64 → W2 q = Wa2 q)
    (q2 : m2.pieceAttacked = 0) (r2 : a2.pieceAttacked = 0)
    (p1 : m1.pieceMoved = 1) : a1.pieceMoved = 1 := by
  false_or_by_contra
  rename_i hn
  have sm := h1.s_lt
  have e1 : W1 m1.source = 0 := h1.vacate
  have e2 : Wa m1.source = 1 := g1.keep_pawn hn sm (by rw [h1.src, p1])
  have e3 : W2 m1.source = W1 m1.source := h2.quietO q2 sm
  have e4 : Wa2 m1.source = Wa m1.source := g2.quietO r2 sm
  have := eW _ sm
  omega

/-- the second moves are quiet: a pawn move in one line is one in the other -/
theorem pawn2 (h1 : Mv w W B W1 B1 ep0 m1) (h2 : Mv (!w) B1 W1 B2 W2 m1.nextEp m2)
    (g1 : Mv w W B Wa Ba ep0 a1) (g2 : Mv (!w) Ba Wa Ba2 Wa2 a1.nextEp a2)
    (eW : ∀ q, q < 64 → W2 q = Wa2 q) (eB : ∀ q, q < 64 → B2 q = Ba2 q)
    (q2 : m2.pieceAttacked = 0) (r2 : a2.pieceAttacked = 0)
    (p2 : m2.pieceMoved = 1) : a2.pieceMoved = 1 := by
  false_or_by_contra
  rename_i hn
  have s2 := h2.s_lt
  have b1_s : B1 m2.source = 1 := by rw [h2.src, p2]
  have b2_s : B2 m2.source = 0 := h2.vacate
  have ba2_s : Ba2 m2.source = 0 := by rw [← eB _ s2]; exact b2_s
  have b_s : B m2.source = 1 := by rw [← h1.O_sub s2 (by omega)]; exact b1_s
  have w1a : ∀ q, q < 64 → W1 q = Wa q := by
    intro q hq
    rw [← h2.quietO q2 hq, ← g2.quietO r2 hq]; exact eW q hq
  -- `a1` captures the pawn
  have acap : a1.castle = false ∧ m2.source = capSq w a1.enPassant a1.target ∧ a1.pieceAttacked ≠ 0 := by
    rcases g1.O_cases s2 with e | ⟨e1, e2, -, -, e5⟩
    · have := g2.keep_pawn hn s2 (by rw [e, b_s])
      omega
    · exact ⟨e1, e2, e5⟩
  obtain ⟨aplain, hs2, acap⟩ := acap
  have ta := g1.t_lt
  have wa_ta : Wa a1.target = placed a1 := by rw [g1.plainM aplain _ ta, if_pos rfl]
  have pane := g1.placed_ne0
  have w1_s : W1 m2.source = 0 := h2.cross _ s2 (by omega)
  cases hae : a1.enPassant
  · rw [g1.capSq_noep hae] at hs2
    rw [w1a _ s2, hs2, wa_ta] at w1_s
    exact pane w1_s
  · -- `a1` is en passant
    obtain ⟨ap, -, apr, -, -, -, b_ta, -, -⟩ := g1.epF hae
    have pa1 : placed a1 = 1 := by unfold placed; rw [if_pos apr, ap]
    have w_ta : W a1.target = 0 := g1.tgt
    have w1_ta : W1 a1.target = 1 := by rw [w1a _ ta, wa_ta, pa1]
    -- `m1` captures as well
    have c2 := h1.cntO; have c4 := g1.cntO; have c5 := h2.cntM; have c6 := g2.cntM
    have c10 := cnt_congr 64 eB
    have mcap : m1.pieceAttacked ≠ 0 := by
      intro h0
      rw [if_pos h0] at c2; rw [if_neg acap] at c4; omega
    have mplain : m1.castle = false := by
      cases hc : m1.castle
      · rfl
      · obtain ⟨rs, rt, -, -, -, -, -, -, -, -, -, -, -, pt, -, hee, -, -, -, -⟩ := h1.castle hc
        have := h1.att
        rw [h1.capSq_noep hee, pt] at this
        exact absurd this mcap
    have htm : a1.target = m1.target := by
      false_or_by_contra
      rename_i hne
      rw [h1.plainM mplain _ ta, if_neg hne] at w1_ta
      split at w1_ta
      · cases w1_ta
      · omega
    have pm1 : placed m1 = 1 := by
      rw [h1.plainM mplain _ ta, if_pos htm] at w1_ta; exact w1_ta
    cases hme : m1.enPassant
    · have := h1.att
      rw [h1.capSq_noep hme, ← htm, b_ta] at this
      exact mcap this
    · -- both en passant: `m1` captured the pawn that `m2` moves
      have : capSq w m1.enPassant m1.target = m2.source := by
        rw [hs2, hme, hae, htm]
      have h3 := h1.plainO mplain _ s2
      rw [if_pos this.symm] at h3
      omega

/-- **two lines of two moves to the same placement**: the second moves reset the half-move clock alike, and if they do not,
the first moves do -/
theorem same22 (h1 : Mv w W B W1 B1 ep0 m1) (h2 : Mv (!w) B1 W1 B2 W2 m1.nextEp m2)
    (g1 : Mv w W B Wa Ba ep0 a1) (g2 : Mv (!w) Ba Wa Ba2 Wa2 a1.nextEp a2)
    (eW : ∀ q, q < 64 → W2 q = Wa2 q) (eB : ∀ q, q < 64 → B2 q = Ba2 q) :
    m2.halfmoveReset = a2.halfmoveReset ∧ (m2.halfmoveReset = false → m1.halfmoveReset = a1.halfmoveReset) := by
  have c1 := h1.cntM; have c2 := h1.cntO; have c3 := g1.cntM; have c4 := g1.cntO
  have c5 := h2.cntM; have c6 := h2.cntO; have c7 := g2.cntM; have c8 := g2.cntO
  have c9 := cnt_congr 64 eW; have c10 := cnt_congr 64 eB
  have eW' : ∀ q, q < 64 → Wa2 q = W2 q := fun q hq => (eW q hq).symm
  have eB' : ∀ q, q < 64 → Ba2 q = B2 q := fun q hq => (eB q hq).symm
  have cap2 : m2.pieceAttacked = 0 ↔ a2.pieceAttacked = 0 := by
    constructor
    · intro h; rw [if_pos h] at c6
      false_or_by_contra; rename_i hn; rw [if_neg hn] at c8; omega
    · intro h; rw [if_pos h] at c8
      false_or_by_contra; rename_i hn; rw [if_neg hn] at c6; omega
  have cap1 : m1.pieceAttacked = 0 ↔ a1.pieceAttacked = 0 := by
    constructor
    · intro h; rw [if_pos h] at c2
      false_or_by_contra; rename_i hn; rw [if_neg hn] at c4; omega
    · intro h; rw [if_pos h] at c4
      false_or_by_contra; rename_i hn; rw [if_neg hn] at c2; omega
  have r2 : m2.halfmoveReset = a2.halfmoveReset := by
    rw [h2.reset, g2.reset]
    exact reset_congr cap2 (fun hq hq' =>
      ⟨pawn2 h1 h2 g1 g2 eW eB hq hq', pawn2 g1 g2 h1 h2 eW' eB' hq' hq⟩)
  refine ⟨r2, ?_⟩
  intro hr
  have hr' : a2.halfmoveReset = false := by rw [← r2]; exact hr
  rw [h2.reset] at hr
  rw [g2.reset] at hr'
  simp only [Bool.or_eq_false_iff, beq_eq_false_iff_ne, bne_eq_false_iff_eq] at hr hr'
  rw [h1.reset, g1.reset]
  exact reset_congr cap1 (fun _ _ =>
    ⟨pawn1 h1 h2 g1 g2 eW hr.2 hr'.2, pawn1 g1 g2 h1 h2 eW' hr'.2 hr.2⟩)

end

#print axioms same22

end Inkayaku.SearchSim.Transp
