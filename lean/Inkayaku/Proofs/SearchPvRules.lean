import Inkayaku.Proofs.SearchPv
import Inkayaku.Proofs.SearchMate
import Inkayaku.Props.C01
import Inkayaku.Props.C02
import Inkayaku.Props.C05
/-!
# The reported PV, read as UCI text, is a legal line by the rules of chess — up to real hash collisions only

The Zobrist hash covers piece placement, side to move, castling rights and the en-passant file, NOT the two clocks.  Two
nodes of one search that are the same chess position with different clocks (transpositions across a pawn move or capture,
or a repeated position two plies deeper) therefore share a table entry, and the chain stored by one of them is returned at
the other.  The moves of such a chain carry the undo field `prevHalfmove` of the position they were generated in, so they
are not literally members of `genPseudo` of the position they are reported for — but their source, target and promotion
piece (all that is ever printed) are the same.  `HashInjVis` (`Proofs/SearchPv.lean`) rules these harmless hits out
together with the real collisions; this file removes that restriction:

* `RulesLine p ms`: `ms` is a sequence of legal moves of the rules (`Spec.legalMoves`, `Spec.apply`) from position `p`;
* `PRules b l`: the line `l`, abstracted move by move (`absMove`: source, target, promotion), is a `RulesLine` of `abs b`,
  and every move prints as the UCI text of its abstraction;
* `HashInjCore S`: on `S`, equal hash ⇒ same position up to the two clocks;
* `rules_laws : HashInjCore S → LineLaws S PRules`;
* `Mated.isCheckmate`: the model's "no generated move is valid and the mover is in check" is checkmate by the rules.
-/
namespace Inkayaku.Search
open Inkayaku.Board Inkayaku.WF Inkayaku.BoardCongr Inkayaku.Abs

/-- a sequence of legal moves by the rules of chess -/
def RulesLine : Spec.Pos → List Spec.SMove → Prop
  | _, [] => True
  | p, m :: ms => m ∈ Spec.legalMoves p ∧ RulesLine (Spec.apply p m) ms

/-- the position without its clocks -/
def clockless (p : Spec.Pos) : Spec.Pos := { p with half := 0, full := 0 }

/-- the move of the rules denoted by a model move: source, target, promotion piece -/
def smove (m : Move) : Spec.SMove := absMove m.f

/-- the line `l` denotes a legal line of the rules from the position of `b`, and prints as such -/
def PRules (b : Board) (l : List Move) : Prop :=
  RulesLine (abs b) (l.map smove) ∧ ∀ m ∈ l, m.uci = (smove m).uci

/-- **no-collision idealisation, clocks excepted**: on `S`, equal Zobrist hash ⇒ same placement, side to move, castling
rights and en-passant square -/
def HashInjCore (S : Board → Prop) : Prop :=
  ∀ b1 b2, S b1 → S b2 → Zobrist.hash b1 = Zobrist.hash b2 → clockless (abs b1) = clockless (abs b2)

/-! ## the rules do not look at the clocks -/

theorem pseudoMoves_clockless (p : Spec.Pos) : Spec.pseudoMoves (clockless p) = Spec.pseudoMoves p := rfl

theorem inCheck_clockless (p : Spec.Pos) (w : Bool) : Spec.inCheck (clockless p) w = Spec.inCheck p w := rfl

theorem apply_clockless (p : Spec.Pos) (m : Spec.SMove) :
    clockless (Spec.apply (clockless p) m) = clockless (Spec.apply p m) := by
  unfold Spec.apply
  have : (clockless p).at m.src = p.at m.src := rfl
  rw [this]
  cases p.at m.src <;> rfl

theorem legalMoves_clockless (p : Spec.Pos) : Spec.legalMoves (clockless p) = Spec.legalMoves p := by
  unfold Spec.legalMoves
  rw [pseudoMoves_clockless]
  congr 1
  funext m
  show (!Spec.inCheck (Spec.apply (clockless p) m) p.whiteToMove) = _
  rw [← inCheck_clockless (Spec.apply (clockless p) m), apply_clockless, inCheck_clockless]

theorem RulesLine.clockless_iff (p : Spec.Pos) (l : List Spec.SMove) : RulesLine (clockless p) l ↔ RulesLine p l := by
  induction l generalizing p with
  | nil => exact Iff.rfl
  | cons m ms ih =>
    show (m ∈ Spec.legalMoves (clockless p) ∧ RulesLine (Spec.apply (clockless p) m) ms) ↔
      (m ∈ Spec.legalMoves p ∧ RulesLine (Spec.apply p m) ms)
    rw [legalMoves_clockless, ← ih (Spec.apply (clockless p) m), apply_clockless, ih]

theorem RulesLine.of_clockless_eq {p q : Spec.Pos} (h : clockless p = clockless q) (l : List Spec.SMove)
    (hl : RulesLine p l) : RulesLine q l := by
  rw [← RulesLine.clockless_iff] at hl ⊢
  rw [← h]; exact hl

/-! ## the abstraction sees the visible position only -/

theorem abs_vis (b : Board) : abs (vis b) = abs b := rfl

theorem abs_congr {b b' : Board} (h : vis b = vis b') : abs b = abs b' := by
  rw [← abs_vis b, h, abs_vis]

/-- the literal no-collision hypothesis implies the one up to the clocks -/
theorem HashInjVis.core {S : Board → Prop} (h : HashInjVis S) : HashInjCore S :=
  fun b1 b2 h1 h2 hh => by rw [abs_congr (h b1 b2 h1 h2 hh)]

/-! ## the laws -/

theorem smove_legal {b : Board} (hwf : wf b = true) {m : Move} (hm : m ∈ genPseudo b) (hv : isValid (make b m) = true) :
    smove m ∈ Spec.legalMoves (abs b) := by
  have hl : m ∈ genLegal b := List.mem_filter.mpr ⟨hm, hv⟩
  exact (C01.genLegal_eq_spec hwf (fun _ hx => C02.make_eq_apply hwf hx) (smove m)).mp
    (List.mem_map.mpr ⟨m, hl, rfl⟩)

theorem rules_laws {S : Board → Prop} (hinj : HashInjCore S) : LineLaws S PRules where
  nil := fun _ => ⟨trivial, fun _ h => by cases h⟩
  cons := by
    intro b m ms hwf hm hv ⟨h1, h2⟩
    refine ⟨⟨smove_legal hwf hm hv, ?_⟩, ?_⟩
    · show RulesLine (Spec.apply (abs b) (smove m)) (ms.map smove)
      rw [← show abs (make b m) = Spec.apply (abs b) (smove m) from C02.make_eq_apply hwf hm]
      exact h1
    · intro x hx
      rcases List.mem_cons.mp hx with rfl | hx
      · obtain ⟨hs, ht, hp⟩ := GenSpec.gen_bounds hwf hm
        exact C01.uci_agree _ hs ht hp
      · exact h2 x hx
  congr := by
    intro b b' l h ⟨h1, h2⟩
    exact ⟨by rw [← abs_congr h]; exact h1, h2⟩
  transfer := by
    intro b b' l hb hb' hh ⟨h1, h2⟩
    exact ⟨RulesLine.of_clockless_eq (hinj b b' hb hb' hh) _ h1, h2⟩

/-- the literal statement is the stronger one (on well-formed boards) -/
theorem PRules_of_legalLine {b : Board} {l : List Move} (hl : LegalLine b l)
    (hwf : ∀ (pre : List Move) (suf : List Move), l = pre ++ suf → wf (pre.foldl make b) = true) : PRules b l := by
  induction l generalizing b with
  | nil => exact ⟨trivial, fun _ h => by cases h⟩
  | cons m ms ih =>
    obtain ⟨hm, hv, hrest⟩ := hl
    have hwf0 : wf b = true := hwf [] (m :: ms) rfl
    have := ih hrest (fun pre suf h => hwf (m :: pre) suf (by rw [h]; rfl))
    exact (rules_laws (S := fun _ => False) (fun _ _ h => h.elim)).cons b m ms hwf0 hm hv this

/-! ## checkmate -/

theorem genLegal_isEmpty_eq {b : Board} (h : wf b = true) :
    (genLegal b).isEmpty = (Spec.legalMoves (abs b)).isEmpty := by
  have key := fun sm => C01.genLegal_eq_spec h (fun _ hm => C02.make_eq_apply h hm) sm
  cases hg : genLegal b with
  | nil =>
    cases hs : Spec.legalMoves (abs b) with
    | nil => rfl
    | cons sm rest =>
      have := (key sm).mpr (by rw [hs]; exact List.mem_cons_self)
      rw [hg] at this
      simp at this
  | cons m rest =>
    cases hs : Spec.legalMoves (abs b) with
    | nil =>
      have := (key ((absMove ∘ Move.f) m)).mp (by rw [hg]; simp)
      rw [hs] at this
      simp at this
    | cons sm rest' => rfl

/-- a position whose mover is in check and has no valid generated move is checkmate by the rules -/
theorem Mated.isCheckmate {b : Board} (hwf : wf b = true) (h : Mated b) : Spec.isCheckmate (abs b) = true := by
  have hnil : genLegal b = [] := by
    unfold genLegal
    rw [List.filter_eq_nil_iff]
    intro m hm
    have := h.1 m hm
    simp [isMoveLegal, this]
  rw [← (C05.no_moves_iff b hwf (genLegal_isEmpty_eq hwf)).1, hnil, h.2]
  rfl

end Inkayaku.Search
