import Inkayaku.Proofs.SearchRepGame
import Inkayaku.Proofs.SearchSimRep
/-!
# C10 at the search level, step 2: the repetition history written by `set_position_from`

* `setPosition_go_eq`      – the loop of `Search.setPosition` walks through `gameBoards` and folds `ZobristHistory::set` over it;
* `history_of_setPosition` – after `position <b0> moves u1 … un` (all accepted) the board is `bn` and the history cell
                             `plyClock b0 + i` holds `hash bi` for `i ≤ n`; every other cell is `0`; the ply clocks of the
                             game positions increase by one per ply (no 16-bit wrap assumed: `ply2 b0 + n < 65536`);
* `setPosition_rejected`   – if a string is rejected the state is unchanged;
* `LineHist r L h`         – what a search node needs of a history array `h`: zeros below the root index `r`, the hashes of the
                             line `L` at `r, r+1, …` (cells above are arbitrary: stale entries of abandoned branches).
-/
namespace Inkayaku.SearchRep
open Inkayaku.Board Inkayaku.WF Inkayaku.BoardCongr Inkayaku.Search Inkayaku.SearchSim Inkayaku.History

/-- `ZobristHistory::set` for every position played after the root -/
def histFold (h : Array Nat) (T : List Board) : Array Nat :=
  T.foldl (fun h q => historySet h (plyClock q) (Zobrist.hash q).toNat) h

/-- the last position of the line `b :: T` -/
def lastBoard : Board → List Board → Board
  | b, [] => b
  | _, q :: T => lastBoard q T

/-- the content of history cell `j` when the line `L` starts at index `r` -/
def lineCell (r : Nat) (L : List Board) (j : Nat) : Nat :=
  if r ≤ j then (match L[j - r]? with | some q => (Zobrist.hash q).toNat | none => 0) else 0

theorem setPosition_go_nil (b : Board) (h : Array Nat) (made : List Move) :
    setPosition.go b h made [] = some (b, h, made.reverse) := by
  rw [setPosition.go.eq_def]

theorem setPosition_go_cons (b : Board) (h : Array Nat) (made : List Move) (u : String) (rest : List String) :
    setPosition.go b h made (u :: rest) =
      match San.findUci b u with
      | (.ok m, b') =>
        setPosition.go (make b' m) (historySet h (plyClock (make b' m)) (Zobrist.hash (make b' m)).toNat) (m :: made) rest
      | (.error _, _) => none := by
  rw [setPosition.go.eq_def]
  rfl

/-- the loop of `set_position_from` = `gameBoards` + fold of `set` -/
theorem setPosition_go_eq : ∀ (us : List String) (b : Board) (h : Array Nat) (made : List Move),
    (gameBoards b us = none → setPosition.go b h made us = none) ∧
    (∀ T, gameBoards b us = some (b :: T) → ∃ mv, setPosition.go b h made us = some (lastBoard b T, histFold h T, mv))
  | [], b, h, made => by
    refine ⟨fun hg => by simp [gameBoards] at hg, ?_⟩
    intro T hg
    simp only [gameBoards, Option.some.injEq, List.cons.injEq, true_and] at hg
    subst hg
    exact ⟨_, setPosition_go_nil b h made⟩
  | u :: us, b, h, made => by
    rw [setPosition_go_cons, gameBoards_cons]
    unfold playUci
    rcases San.findUci b u with ⟨r, bb⟩
    cases r with
    | error e =>
      refine ⟨fun _ => rfl, ?_⟩
      intro T hg
      cases hg
    | ok m =>
      simp only
      obtain ⟨ih1, ih2⟩ := setPosition_go_eq us (make bb m)
        (historySet h (plyClock (make bb m)) (Zobrist.hash (make bb m)).toNat) (m :: made)
      constructor
      · intro hg
        cases hg' : gameBoards (make bb m) us with
        | none => exact ih1 hg'
        | some L => rw [hg'] at hg; cases hg
      · intro T hg
        cases hg' : gameBoards (make bb m) us with
        | none => rw [hg'] at hg; cases hg
        | some L =>
          rw [hg'] at hg
          simp only [Option.map_some, Option.some.injEq, List.cons.injEq, true_and] at hg
          subst hg
          obtain ⟨_, T', rfl⟩ := gameBoards_shape us (make bb m) L hg'
          obtain ⟨mv, hmv⟩ := ih2 T' hg'
          exact ⟨mv, hmv⟩

/-- the cells of the folded history, when the ply clocks of `T` are `r, r+1, …` -/
theorem getD_histFold : ∀ (T : List Board) (h : Array Nat) (r : Nat),
    (∀ (i : Nat) (q : Board), T[i]? = some q → plyClock q = r + i) → ∀ j,
    (histFold h T).getD j 0 =
      if r ≤ j then (match T[j - r]? with | some q => (Zobrist.hash q).toNat | none => h.getD j 0) else h.getD j 0
  | [], h, r, _, j => by
    simp only [histFold, List.foldl_nil, List.getElem?_nil, ite_self]
  | q :: T, h, r, hpc, j => by
    have hq : plyClock q = r := by simpa using hpc 0 q rfl
    have ih := getD_histFold T (historySet h (plyClock q) (Zobrist.hash q).toNat) (r + 1)
      (fun i q' hi => by rw [hpc (i + 1) q' (by rw [List.getElem?_cons_succ]; exact hi)]; omega) j
    show (histFold (historySet h (plyClock q) (Zobrist.hash q).toNat) T).getD j 0 = _
    rw [ih, getD_historySet, hq]
    by_cases h1 : r + 1 ≤ j
    · have e : j - r = (j - (r + 1)) + 1 := by omega
      have hne : ¬ j = r := by omega
      simp only [if_pos h1, if_pos (show r ≤ j by omega), if_neg hne, e, List.getElem?_cons_succ]
    · by_cases h2 : j = r
      · subst h2
        simp only [if_neg h1, if_pos, Nat.le_refl, Nat.sub_self, List.getElem?_cons_zero]
      · simp only [if_neg h1, if_neg h2, if_neg (show ¬ r ≤ j by omega)]

theorem plyClock_of_ply2 {b : Board} (h : ply2 b < 65536) : plyClock b = ply2 b := by
  rw [plyClock_eq, Nat.mod_eq_of_lt h]

/-- the ply clocks along a game line that does not wrap the 16-bit counter -/
theorem line_plyClock {b0 : Board} {T : List Board} (hl : IsLine (b0 :: T)) (hinv : Inv T.length b0)
    (hnw : ply2 b0 + T.length < 65536) (i : Nat) (q : Board) (hq : (b0 :: T)[i]? = some q) :
    plyClock q = plyClock b0 + i := by
  have hi : i < (b0 :: T).length := lt_of_getElem? hq
  simp only [List.length_cons] at hi
  obtain ⟨_, hp⟩ := line_facts T b0 T.length hl hinv (Nat.le_refl _) i q hq
  rw [plyClock_of_ply2 (by omega), plyClock_of_ply2 (by omega), hp]

theorem getD_replicate (n j : Nat) : (Array.replicate n 0).getD j 0 = 0 := getD_replicate_zero n j

theorem setPosition_of_go_some (s : St) (b : Board) (ucis : List String) (b' : Board) (h : Array Nat) (made : List Move)
    (hgo : setPosition.go b (historySet (Array.replicate 5000 0) (plyClock b) (Zobrist.hash b).toNat) [] ucis =
      some (b', h, made)) :
    setPosition s b ucis = { s with board := b', history := h, playedMoves := made } := by
  unfold setPosition
  simp only [hgo]

theorem setPosition_of_go_none (s : St) (b : Board) (ucis : List String)
    (hgo : setPosition.go b (historySet (Array.replicate 5000 0) (plyClock b) (Zobrist.hash b).toNat) [] ucis = none) :
    setPosition s b ucis = s := by
  unfold setPosition
  simp only [hgo]

/-- if some string is rejected, the engine keeps its state -/
theorem setPosition_rejected (s : St) (b0 : Board) (ucis : List String) (hg : gameBoards b0 ucis = none) :
    setPosition s b0 ucis = s := by
  exact setPosition_of_go_none s b0 ucis ((setPosition_go_eq ucis b0 _ []).1 hg)

/-- **(b) the history after `position <b0> moves …`**: board = last position of the game; history cell `plyClock b0 + i`
= `hash bi`, all other cells `0`; ply clocks increase by one per ply -/
theorem history_of_setPosition (s : St) (b0 : Board) (ucis : List String) (T : List Board)
    (hg : gameBoards b0 ucis = some (b0 :: T)) (hinv : Inv T.length b0) (hnw : ply2 b0 + T.length < 65536) :
    (∃ mv, setPosition s b0 ucis =
      { s with board := lastBoard b0 T, history := (setPosition s b0 ucis).history, playedMoves := mv }) ∧
    (∀ j, (setPosition s b0 ucis).history.getD j 0 = lineCell (plyClock b0) (b0 :: T) j) ∧
    (∀ (i : Nat) (q : Board), (b0 :: T)[i]? = some q → plyClock q = plyClock b0 + i) ∧
    IsLine (b0 :: T) := by
  obtain ⟨hlen, _⟩ := gameBoards_shape ucis b0 _ hg
  simp only [List.length_cons] at hlen
  obtain ⟨hl, _, _⟩ := gameBoards_isLine ucis b0 T.length _ hinv (by omega) hg
  have hpc := line_plyClock hl hinv hnw
  obtain ⟨mv, hgo⟩ := (setPosition_go_eq ucis b0
    (historySet (Array.replicate 5000 0) (plyClock b0) (Zobrist.hash b0).toNat) []).2 T hg
  have hs := setPosition_of_go_some s b0 ucis _ _ _ hgo
  refine ⟨⟨mv, by rw [hs]⟩, ?_, hpc, hl⟩
  intro j
  rw [hs]
  show (histFold _ T).getD j 0 = _
  rw [getD_histFold T _ (plyClock b0 + 1)
    (fun i q hi => by rw [hpc (i + 1) q (by rw [List.getElem?_cons_succ]; exact hi)]; omega)]
  unfold lineCell
  rw [getD_historySet, getD_replicate]
  generalize plyClock b0 = r
  by_cases h1 : r + 1 ≤ j
  · have e : j - r = (j - (r + 1)) + 1 := by omega
    have hne : ¬ j = r := by omega
    simp only [if_pos h1, if_pos (show r ≤ j by omega), if_neg hne, e, List.getElem?_cons_succ]
  · by_cases h2 : j = r
    · subst h2
      simp only [if_neg h1, if_pos, Nat.le_refl, Nat.sub_self, List.getElem?_cons_zero]
    · simp only [if_neg h1, if_neg h2, if_neg (show ¬ r ≤ j by omega)]

/-! ## what a search node needs of the history -/

/-- zeros below the root index `r`, the hashes of the line `L` at `r, r + 1, …`; the cells from `r + |L|` on are arbitrary -/
def LineHist (r : Nat) (L : List Board) (h : Array Nat) : Prop :=
  (∀ j, j < r → h.getD j 0 = 0) ∧ (∀ (i : Nat) (b : Board), L[i]? = some b → h.getD (r + i) 0 = (Zobrist.hash b).toNat)

theorem lineHist_of_cells {r : Nat} {L : List Board} {h : Array Nat} (hc : ∀ j, h.getD j 0 = lineCell r L j) :
    LineHist r L h := by
  refine ⟨fun j hj => by rw [hc, lineCell, if_neg (by omega)], ?_⟩
  intro i b hb
  rw [hc, lineCell, if_pos (by omega), show r + i - r = i from by omega, hb]

/-- writing at or above the end of the line keeps `LineHist` -/
theorem LineHist.set {r : Nat} {L : List Board} {h : Array Nat} (hl : LineHist r L h) (i v : Nat) (hi : r + L.length ≤ i) :
    LineHist r L (historySet h i v) := by
  refine ⟨fun j hj => by rw [getD_historySet, if_neg (by omega)]; exact hl.1 j hj, ?_⟩
  intro k b hb
  have := lt_of_getElem? hb
  rw [getD_historySet, if_neg (by omega)]
  exact hl.2 k b hb

/-- re-writing the hash of the last position of the line (what the root node does) keeps `LineHist` -/
theorem LineHist.set_last {r : Nat} {L : List Board} {h : Array Nat} (hl : LineHist r L h) (i : Nat) (b : Board)
    (hb : L[i]? = some b) : LineHist r L (historySet h (r + i) (Zobrist.hash b).toNat) := by
  refine ⟨fun j hj => by rw [getD_historySet, if_neg (by omega)]; exact hl.1 j hj, ?_⟩
  intro k b' hb'
  rw [getD_historySet]
  by_cases hk : r + k = r + i
  · have : k = i := by omega
    subst this
    rw [if_pos rfl]
    rw [hb] at hb'; cases hb'; rfl
  · rw [if_neg hk]; exact hl.2 k b' hb'

/-- extending the line by the position whose hash has just been written -/
theorem LineHist.snoc {r : Nat} {L : List Board} {h : Array Nat} (hl : LineHist r L h) (c : Board) :
    LineHist r (L ++ [c]) (historySet h (r + L.length) (Zobrist.hash c).toNat) := by
  refine ⟨fun j hj => by rw [getD_historySet, if_neg (by omega)]; exact hl.1 j hj, ?_⟩
  intro k b hb
  rw [getD_historySet]
  by_cases hk : k < L.length
  · rw [List.getElem?_append_left hk] at hb
    rw [if_neg (by omega)]; exact hl.2 k b hb
  · have hlt := lt_of_getElem? hb
    simp only [List.length_append, List.length_cons, List.length_nil] at hlt
    have : k = L.length := by omega
    subst this
    rw [if_pos rfl]
    rw [List.getElem?_append_right (Nat.le_refl _)] at hb
    simp only [Nat.sub_self, List.getElem?_cons_zero, Option.some.injEq] at hb
    rw [hb]

end Inkayaku.SearchRep
