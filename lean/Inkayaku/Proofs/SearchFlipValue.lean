import Inkayaku.Proofs.SearchFlipMoves
import Inkayaku.Proofs.AlphaBeta
/-!
# C11 (search half), part 5: the minimax value of the specification search under the colour flip

`make` advances the full-move number after Black's move only, so it does not commute with `flipBoard`, and the RAW minimax
values of a position and of its flip agree only for centipawn values and "mated in N" values (`C11.mate_score_flip`).
The invariant of the induction is therefore stated through a normal form relative to the node:

  `nv b v = v + fullmove + turn` for `v > 2^23` (the mover mates: `2^24 + 1 − nv` = number of own moves until mate),
  `nv b v = v − fullmove`        for `v < −2^23` (the mover is mated: `2^24 + nv` = number of own moves until mated),
  `nv b v = v`                   otherwise (centipawns).

`nv b` is monotone, `score_from_value v b` is a function of `nv b v` (`scoreFromValue_of_nv`), and

  `V_flip`: for boards related by `FlipRel` (flip up to the full-move number), `nv c (V d c) = nv c' (V d c')`

for EVERY depth `d` (`V d b = mm game d (b, [])` is the minimax value of the specification game, quiescence included).
-/
namespace Inkayaku.SearchFlip
open Inkayaku.Board Inkayaku.Eval Inkayaku.Gen Inkayaku.Minimax Inkayaku.SpecSearch Inkayaku.Search

/-! ## folds of `max` over two lists with the same set of (normalised) values -/

section Fold
variable {P P' : Type}

theorem mmFold_rel_le (f : P → Int) (f' : P' → Int) (φ φ' : Int → Int)
    (hφ' : ∀ a b, a ≤ b → φ' a ≤ φ' b) (i i' : Int) (cs : List P) (cs' : List P')
    (hi : φ i = φ' i' ∨ ∃ c ∈ cs, i ≤ - f c)
    (h1 : ∀ c ∈ cs, ∃ c' ∈ cs', φ (- f c) = φ' (- f' c')) :
    φ (mmFold f i cs) ≤ φ' (mmFold f' i' cs') := by
  have hmem : ∀ c ∈ cs, φ (- f c) ≤ φ' (mmFold f' i' cs') := by
    intro c hc
    obtain ⟨c', hc', e⟩ := h1 c hc
    rw [e]
    exact hφ' _ _ (neg_le_mmFold f' i' cs' c' hc')
  rcases mmFold_attained f i cs with h | ⟨c, hc, h⟩
  · rcases hi with hi | ⟨c, hc, hle⟩
    · rw [h, hi]; exact hφ' _ _ (le_mmFold f' i' cs')
    · have h2 := neg_le_mmFold f i cs c hc
      have : mmFold f i cs = - f c := by omega
      rw [this]; exact hmem c hc
  · rw [h]; exact hmem c hc

/-- two folds whose members have the same normalised values (as SETS), with initial values that are related or are
dominated by a member, have the same normalised value -/
theorem mmFold_rel (f : P → Int) (f' : P' → Int) (φ φ' : Int → Int)
    (hφ : ∀ a b, a ≤ b → φ a ≤ φ b) (hφ' : ∀ a b, a ≤ b → φ' a ≤ φ' b) (i i' : Int) (cs : List P) (cs' : List P')
    (hi : φ i = φ' i' ∨ ((∃ c ∈ cs, i ≤ - f c) ∧ ∃ c' ∈ cs', i' ≤ - f' c'))
    (h1 : ∀ c ∈ cs, ∃ c' ∈ cs', φ (- f c) = φ' (- f' c'))
    (h2 : ∀ c' ∈ cs', ∃ c ∈ cs, φ (- f c) = φ' (- f' c')) :
    φ (mmFold f i cs) = φ' (mmFold f' i' cs') := by
  apply Int.le_antisymm
  · exact mmFold_rel_le f f' φ φ' hφ' i i' cs cs' (hi.elim Or.inl (fun h => Or.inr h.1)) h1
  · exact mmFold_rel_le f' f φ' φ hφ i' i cs' cs (hi.elim (fun h => Or.inl h.symm) (fun h => Or.inr h.2))
      (fun c' hc' => by obtain ⟨c, hc, e⟩ := h2 c' hc'; exact ⟨c, hc, e.symm⟩)

end Fold

/-! ## quiescence: plain equality (all values are centipawn values) -/

theorem Qexact_succ (f : Nat) (c : Board) :
    Qexact chess.qgame (f + 1) (c, []) =
      mmFold (Qexact chess.qgame f) (evalFor c c.turn true) ((legalCaptures c).map fun m => ((make c m, []) : Pos)) := rfl

theorem Q_flip : ∀ (f : Nat) (c c' : Board), FlipRel f c c' →
    Qexact chess.qgame f (c', []) = Qexact chess.qgame f (c, []) := by
  intro f
  induction f with
  | zero => intro c c' h; exact evalFor_flip_static h
  | succ f ih =>
    intro c c' h
    rw [Qexact_succ, Qexact_succ]
    have key : ∀ {c c' : Board}, FlipRel (f + 1) c c' →
        ∀ p ∈ (legalCaptures c).map fun m => ((make c m, []) : Pos),
          ∃ p' ∈ (legalCaptures c').map fun m => ((make c' m, []) : Pos),
            Qexact chess.qgame f p' = Qexact chess.qgame f p := by
      intro c c' h p hp
      obtain ⟨m, hm, rfl⟩ := List.mem_map.mp hp
      obtain ⟨m', hm', hr⟩ := capture_step h hm
      exact ⟨_, List.mem_map.mpr ⟨m', hm', rfl⟩, ih _ _ hr⟩
    exact mmFold_rel (Qexact chess.qgame f) (Qexact chess.qgame f) id id (fun _ _ h => h) (fun _ _ h => h) _ _ _ _
      (Or.inl (evalFor_flip_static h))
      (fun p hp => by
        obtain ⟨p', hp', e⟩ := key h.symm p hp
        exact ⟨p', hp', by show - _ = - _; rw [e]⟩)
      (fun p hp => by
        obtain ⟨p', hp', e⟩ := key h p hp
        exact ⟨p', hp', by show - _ = - _; rw [e]⟩)

/-- the exact horizon value (capture resolution when the node is noisy, else the static value) -/
theorem leaf_flip {c c' : Board} (h : FlipRel quiescenceFuel c c') :
    game.leafExact (c', []) = game.leafExact (c, []) := by
  show (if SpecSearch.noisy c' then Qexact chess.qgame quiescenceFuel (c', []) else evalFor c' c'.turn true) =
    (if SpecSearch.noisy c then Qexact chess.qgame quiescenceFuel (c, []) else evalFor c c.turn true)
  rw [noisy_flip h, Q_flip _ _ _ h, evalFor_flip_static h]

/-! ## the normal form of a value -/

def nvf (F t v : Int) : Int := if v > 8388608 then v + F + t else if v < -8388608 then v - F else v

/-- value relative to the node: mate values become independent of the full-move number -/
def nv (b : Board) (v : Int) : Int := nvf b.fullmove b.turn v

theorem nvf_mono (F t a b : Int) (hF : 0 ≤ F) (ht : 0 ≤ t) (h : a ≤ b) : nvf F t a ≤ nvf F t b := by
  unfold nvf
  split <;> split <;> (try split) <;> (try split) <;> omega

theorem nv_mono (b : Board) (x y : Int) (h : x ≤ y) : nv b x ≤ nv b y :=
  nvf_mono _ _ x y (by omega) (by omega) h

/-- from a child to its parent, on both sides of the flip -/
theorem nvf_neg (F F' t v v' : Int) (hF : 0 ≤ F) (hF' : 0 ≤ F') (ht : t = 0 ∨ t = 1)
    (h : nvf (F + t) (1 - t) v = nvf (F' + (1 - t)) t v') : nvf F t (-v) = nvf F' (1 - t) (-v') := by
  unfold nvf at h ⊢
  omega

/-- `score_from_value` reads the normal form only -/
theorem scoreFromValue_of_nv {b b' : Board} (ht : b.turn ≤ 1) (ht' : b'.turn ≤ 1) {v v' : Int}
    (h : nv b v = nv b' v') : scoreFromValue v' b' = scoreFromValue v b := by
  have hw := EvalFlip.winScore_val
  unfold nv nvf at h
  have t1 : b.turn = 0 ∨ b.turn = 1 := by omega
  have t2 : b'.turn = 0 ∨ b'.turn = 1 := by omega
  by_cases h1 : v > 8388608
  · have h1' : v' > 8388608 := by omega
    rw [EvalFlip.scoreFromValue_pos v b (by omega), EvalFlip.scoreFromValue_pos v' b' (by omega)]
    congr 1
    rcases t1 with e | e <;> rcases t2 with e' | e' <;> simp [e, e'] at h ⊢ <;> omega
  · by_cases h2 : v < -8388608
    · have h2' : v' < -8388608 := by omega
      rw [EvalFlip.scoreFromValue_neg v b (by omega), EvalFlip.scoreFromValue_neg v' b' (by omega)]
      congr 1
      omega
    · have e : v' = v := by omega
      rw [e, EvalFlip.score_cp v b (by omega), EvalFlip.score_cp v b' (by omega)]

/-! ## the induction -/

/-- every value lies between "mated on the spot" and "mates with the next move" (as `SpecSearch.V_bounds`) -/
def Bd (b : Board) (v : Int) : Prop :=
  lossScore + (b.fullmove : Int) ≤ v ∧ v ≤ winScore - ((b.fullmove : Int) + (b.turn : Int))

theorem V_zero_eq (b : Board) (h : genLegal b ≠ []) : V 0 b = game.leafExact (b, []) := by
  simp [V, mm, moves_nil, h]

theorem term_case {k : Nat} {c c' : Board} (h : FlipRel k c c') (hF : c.fullmove < 8388608) (hF' : c'.fullmove < 8388608) :
    Bd c (evalFor c c.turn false) ∧ Bd c' (evalFor c' c'.turn false) ∧
      nv c (evalFor c c.turn false) = nv c' (evalFor c' c'.turn false) := by
  have hw := SpecSearch.winScore_val
  have hl := SpecSearch.lossScore_val
  obtain ⟨ht', ht⟩ := flipRel_turn h
  rw [term_value', term_value', isCurrentInCheck_flipRel h]
  unfold Bd nv nvf
  split <;> omega

theorem leaf_case {c c' : Board} (h : FlipRel quiescenceFuel c c') (hF : c.fullmove < 8388608) (hF' : c'.fullmove < 8388608) :
    Bd c (game.leafExact (c, [])) ∧ Bd c' (game.leafExact (c', [])) ∧
      nv c (game.leafExact (c, [])) = nv c' (game.leafExact (c', [])) := by
  have hw := SpecSearch.winScore_val
  have hl := SpecSearch.lossScore_val
  obtain ⟨ht', ht⟩ := flipRel_turn h
  have hb := game_leaf_bound byMvvLva (c, [])
  rw [leaf_flip h]
  have hb' : -176000 ≤ game.leafExact (c, []) ∧ game.leafExact (c, []) ≤ 176000 := hb
  unfold Bd nv nvf
  omega

/-- **the minimax value of the specification game, in normal form, is invariant under the colour flip – every depth** -/
theorem V_flip : ∀ (d : Nat) (c c' : Board), FlipRel (d + quiescenceFuel) c c' →
    c.fullmove + d < 8388608 → c'.fullmove + d < 8388608 →
    Bd c (V d c) ∧ Bd c' (V d c') ∧ nv c (V d c) = nv c' (V d c') := by
  intro d
  induction d with
  | zero =>
    intro c c' h hF hF'
    have h1 : FlipRel (0 + (quiescenceFuel - 1) + 1) c c' := h
    by_cases ht : genLegal c = []
    · have ht' := (genLegal_nil_flip h1).mpr ht
      rw [V_term 0 c ht, V_term 0 c' ht']
      exact term_case h (by omega) (by omega)
    · have ht' : genLegal c' ≠ [] := fun e => ht ((genLegal_nil_flip h1).mp e)
      rw [V_zero_eq c ht, V_zero_eq c' ht']
      exact leaf_case (h.mono (by omega)) (by omega) (by omega)
  | succ d ih =>
    intro c c' h hF hF'
    have h1 : FlipRel (d + quiescenceFuel + 1) c c' := h.mono (by omega)
    by_cases ht : genLegal c = []
    · have ht' := (genLegal_nil_flip h1).mpr ht
      rw [V_term _ c ht, V_term _ c' ht']
      exact term_case h (by omega) (by omega)
    · have ht' : genLegal c' ≠ [] := fun e => ht ((genLegal_nil_flip h1).mp e)
      have hw := SpecSearch.winScore_val
      have hl := SpecSearch.lossScore_val
      -- every child has a partner, with related values
      have key : ∀ {c c' : Board}, FlipRel (d + quiescenceFuel + 1) c c' → c.fullmove + (d + 1) < 8388608 →
          c'.fullmove + (d + 1) < 8388608 →
          ∀ m ∈ genLegal c, ∃ m' ∈ genLegal c', Bd (make c m) (V d (make c m)) ∧ Bd (make c' m') (V d (make c' m')) ∧
            nv c (- V d (make c m)) = nv c' (- V d (make c' m')) := by
        intro c c' h hF hF' m hm
        obtain ⟨htc', htc⟩ := flipRel_turn h
        obtain ⟨m', hm', hr, -⟩ := legal_step h hm
        obtain ⟨b1, b2, e⟩ := ih (make c m) (make c' m') hr (by rw [make_fullmove]; omega) (by rw [make_fullmove]; omega)
        refine ⟨m', hm', b1, b2, ?_⟩
        unfold nv at e ⊢
        rw [make_fullmove, make_fullmove, make_turn, make_turn, htc'] at e
        rw [htc']
        have t1 : c.turn = 0 ∨ c.turn = 1 := by omega
        have := nvf_neg c.fullmove c'.fullmove c.turn (V d (make c m)) (V d (make c' m')) (by omega) (by omega)
          (by omega) (by
            rcases t1 with e0 | e0 <;> rw [e0] at e ⊢ <;> simpa using e)
        rcases t1 with e0 | e0 <;> rw [e0] at this ⊢ <;> simpa using this
      -- bounds of the fold from the bounds of the children
      have bound : ∀ {c c' : Board}, FlipRel (d + quiescenceFuel + 1) c c' → c.fullmove + (d + 1) < 8388608 →
          c'.fullmove + (d + 1) < 8388608 → genLegal c ≠ [] → Bd c (V (d + 1) c) := by
        intro c c' h hF hF' hne
        obtain ⟨htc', htc⟩ := flipRel_turn h
        rw [V_succ d c hne]
        constructor
        · obtain ⟨m, hm⟩ := List.exists_mem_of_ne_nil _ hne
          obtain ⟨m', -, b1, -, -⟩ := key h hF hF' m hm
          have hmem : ((make c m, []) : Pos) ∈ (genLegal c).map fun m => ((make c m, []) : Pos) :=
            List.mem_map.mpr ⟨m, hm, rfl⟩
          have h3 := neg_le_mmFold (fun p => V d p.1) lossScore _ _ hmem
          simp only at h3
          have h4 := b1.2
          rw [make_turn, make_fullmove] at h4
          omega
        · apply mmFold_le _ _ _ _ (by omega)
          intro p hp
          obtain ⟨m, hm, rfl⟩ := List.mem_map.mp hp
          obtain ⟨m', -, b1, -, -⟩ := key h hF hF' m hm
          have h4 := b1.1
          rw [make_fullmove] at h4
          simp only
          omega
      refine ⟨bound h1 hF hF' ht, bound h1.symm hF' hF ht', ?_⟩
      rw [V_succ d c ht, V_succ d c' ht']
      apply mmFold_rel (fun p : Pos => V d p.1) (fun p : Pos => V d p.1) (nv c) (nv c') (nv_mono c) (nv_mono c')
      · right
        constructor
        · obtain ⟨m, hm⟩ := List.exists_mem_of_ne_nil _ ht
          obtain ⟨m', -, b1, -, -⟩ := key h1 hF hF' m hm
          refine ⟨(make c m, []), List.mem_map.mpr ⟨m, hm, rfl⟩, ?_⟩
          have h4 := b1.2
          simp only
          omega
        · obtain ⟨m, hm⟩ := List.exists_mem_of_ne_nil _ ht'
          obtain ⟨m', -, b1, -, -⟩ := key h1.symm hF' hF m hm
          refine ⟨(make c' m, []), List.mem_map.mpr ⟨m, hm, rfl⟩, ?_⟩
          have h4 := b1.2
          simp only
          omega
      · intro p hp
        obtain ⟨m, hm, rfl⟩ := List.mem_map.mp hp
        obtain ⟨m', hm', -, -, e⟩ := key h1 hF hF' m hm
        exact ⟨(make c' m', []), List.mem_map.mpr ⟨m', hm', rfl⟩, e⟩
      · intro p hp
        obtain ⟨m, hm, rfl⟩ := List.mem_map.mp hp
        obtain ⟨m', hm', -, -, e⟩ := key h1.symm hF' hF m hm
        exact ⟨(make c m', []), List.mem_map.mpr ⟨m', hm', rfl⟩, e.symm⟩

end Inkayaku.SearchFlip
