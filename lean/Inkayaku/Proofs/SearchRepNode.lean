import Inkayaku.Proofs.SearchRepHist
/-!
# C10 at the search level, step 3: the repetition test of a `search_negamax` node

A node of the search is entered with board `c`, reached after the line `b0 :: T` (game positions, then the positions of the
current search line).  `NodeHyp b0 T s` collects what the theorem needs of the state `s` (board `c = s.board`):

* the boards form a line of legal moves, the root has clock budget `|T| + 1`, the ply counter does not wrap (`< 65536`);
* `LineHist`: the history holds zeros below the root index, the hashes of `b0 :: T` from there on (cells at and above the node's
  own index are arbitrary — stale entries of abandoned branches and earlier iterations);
* `hash c ≠ 0` (zero is the content of the never written cells) and no hash collision between `c` and the line positions inside
  the window.

Then (`isRep_enter_iff`) the repetition test that `search_negamax` performs after recording the node's hash is true EXACTLY when
`c` has then occurred at least three times (`occurrences (b0 :: T) c`), and (`negamax_repetition`) the node returns
`ValuedMove::leaf(draw_score ± contempt)` in that case and continues with the table probe otherwise.
-/
namespace Inkayaku.SearchRep
open Inkayaku.Board Inkayaku.WF Inkayaku.BoardCongr Inkayaku.Search Inkayaku.SearchSim Inkayaku.History Inkayaku.Eval
open Inkayaku.C06 (HashKey)

/-- the history after `enter`, whatever the flag poll does -/
theorem enter_history (s : St) (hash : UInt64) :
    (enter s hash).history = historySet s.history (plyClock s.board) hash.toNat := by
  unfold enter
  rcases pollStep_eq s with h | ⟨st, q, rn, h⟩ <;> rw [h]

/-- what the repetition theorem needs of the state in which a node is entered -/
structure NodeHyp (b0 : Board) (T : List Board) (s : St) : Prop where
  line : IsLine (b0 :: (T ++ [s.board]))
  inv : Inv (T.length + 1) b0
  nowrap : ply2 b0 + (T.length + 1) < 65536
  hist : LineHist (plyClock b0) (b0 :: T) s.history
  nz : Zobrist.hash s.board ≠ 0
  coll : ∀ (i : Nat) (b : Board), (b0 :: T)[i]? = some b → T.length + 1 - s.board.halfmove ≤ i →
    Zobrist.hash b = Zobrist.hash s.board → HashKey b = HashKey s.board

theorem getElem?_snoc_last (b0 : Board) (T : List Board) (c : Board) : (b0 :: (T ++ [c]))[T.length + 1]? = some c := by
  rw [← List.cons_append, List.getElem?_append_right (by simp)]
  simp

/-- clock budget and ply clock of the node's own position -/
theorem NodeHyp.node {b0 : Board} {T : List Board} {s : St} (H : NodeHyp b0 T s) :
    wf s.board = true ∧ s.board.halfmove ≤ 4095 ∧ plyClock s.board = plyClock b0 + (T.length + 1) := by
  have hTc : (T ++ [s.board]).length = T.length + 1 := by simp
  obtain ⟨hi, hp⟩ := line_facts (T ++ [s.board]) b0 (T.length + 1) H.line H.inv (by rw [hTc]; exact Nat.le_refl _)
    (T.length + 1) s.board (getElem?_snoc_last b0 T s.board)
  have hnw := H.nowrap
  refine ⟨hi.wf, by have := hi.2.1; omega, ?_⟩
  rw [plyClock_of_ply2 (by omega), plyClock_of_ply2 (by omega), hp]

/-- **the repetition test of a node ⇔ third occurrence** -/
theorem isRep_enter_iff {b0 : Board} {T : List Board} {s : St} (H : NodeHyp b0 T s) (ply : Nat) (hply : 0 < ply) :
    isRep (enter s (Zobrist.hash s.board)) ply = true ↔ 3 ≤ occurrences (b0 :: T) s.board := by
  obtain ⟨hwf, hhm, hpc⟩ := H.node
  unfold isRep
  rw [enter_board, enter_history, hpc, Nat.mod_eq_of_lt (by omega)]
  have hp : decide (ply > 0) = true := by simpa using hply
  rw [hp, Bool.true_and, decide_eq_true_eq]
  apply countRepetitions_ge3_iff b0 T s.board _ (plyClock b0) H.line H.inv
  · intro j hj
    show (historySet _ _ _).getD j 0 = 0
    rw [getD_historySet, if_neg (by omega)]
    exact H.hist.1 j hj
  · intro i b hb
    have := lt_of_getElem? hb
    simp only [List.length_cons] at this
    show (historySet _ _ _).getD _ 0 = _
    rw [getD_historySet, if_neg (by omega)]
    exact H.hist.2 i b hb
  · show (historySet _ _ _).getD _ 0 = _
    rw [getD_historySet, if_pos rfl]
  · exact H.nz
  · exact H.coll

/-! ## the node -/

/-- what `search_negamax` does after the repetition test (table probe, horizon, move loop) -/
def nodeBody (fuel : Nat) (s : St) (ply maxPly : Nat) (alpha0 beta0 : Int) (isPv : Bool) (hash ph : UInt64) : VM × St :=
  let s3 := enter s hash
  let entry := s3.tt.get? hash
  match probe entry (maxPly - ply) alpha0 beta0 with
  | (some r, _, _) => (r, s3)
  | (none, alpha, beta) =>
    let buffer := rootBuffer s3 ply
    if ply == 0 && buffer.isEmpty then (VM.leaf 0, s3)
    else if ply == maxPly then horizon fuel s.board.turn s3 buffer alpha beta
    else
      finish s.board.turn alpha0 beta hash (maxPly - ply)
        (negamaxLoop fuel s3
          (sortMoves buffer (pvMoveOf s3 isPv ply) (ttMoveOf entry) (killerGet s3.killers (maxPly - ply)))
          ply maxPly beta isPv (pvMoveOf s3 isPv ply) hash ph (maxPly - ply) (acc0 alpha))

theorem negamax_succ_rep (fuel : Nat) (s : St) (ply maxPly : Nat) (alpha0 beta0 : Int) (isPv : Bool) (hash ph : UInt64) :
    negamax (fuel + 1) s ply maxPly alpha0 beta0 isPv hash ph =
      if timedOut s then (VM.leaf 0, { pollStep s with stop := true })
      else if isRep (enter s hash) ply then (VM.leaf (repValue ply), enter s hash)
      else nodeBody fuel s ply maxPly alpha0 beta0 isPv hash ph := by
  rw [negamax_succ]
  rfl

/-- **(c) a node below the root**: not interrupted by a time-out at its flag poll, it returns the repetition value — a leaf
without a move, `draw_score ± contempt`, independent of the board — exactly when its position has then occurred at least three
times; otherwise it goes on with the table probe. -/
theorem negamax_repetition {b0 : Board} {T : List Board} {s : St} (H : NodeHyp b0 T s) (fuel ply maxPly : Nat) (hply : 0 < ply)
    (alpha0 beta0 : Int) (isPv : Bool) (ph : UInt64) (hto : timedOut s = false) :
    negamax (fuel + 1) s ply maxPly alpha0 beta0 isPv (Zobrist.hash s.board) ph =
      if 3 ≤ occurrences (b0 :: T) s.board then (VM.leaf (repValue ply), enter s (Zobrist.hash s.board))
      else nodeBody fuel s ply maxPly alpha0 beta0 isPv (Zobrist.hash s.board) ph := by
  rw [negamax_succ_rep, hto]
  simp only [Bool.false_eq_true, if_false]
  by_cases h3 : 3 ≤ occurrences (b0 :: T) s.board
  · rw [if_pos h3, if_pos ((isRep_enter_iff H ply hply).mpr h3)]
  · rw [if_neg h3, if_neg (fun h => h3 ((isRep_enter_iff H ply hply).mp h))]

/-- the repetition value ignores the position: it is the draw score plus or minus the contempt, by the parity of the ply -/
theorem repValue_eq (ply : Nat) :
    repValue ply = if ply % 2 = 0 then Gen.drawScore + Gen.contempt else Gen.drawScore - Gen.contempt := by
  unfold repValue
  by_cases h : ply % 2 = 0
  · simp only [h, beq_self_eq_true, if_true]; omega
  · have : (ply % 2 == 0) = false := by simpa using h
    simp only [this, h, if_false, Bool.false_eq_true]; omega

/-! ## a root move from the position after `set_position_from` -/

theorem getElem?_lastBoard : ∀ (T : List Board) (b0 : Board), (b0 :: T)[T.length]? = some (lastBoard b0 T)
  | [], _ => rfl
  | q :: T, _ => by
    rw [List.length_cons, List.getElem?_cons_succ]
    exact getElem?_lastBoard T q

theorem lastBoard_snoc : ∀ (T : List Board) (b0 c : Board), lastBoard b0 (T ++ [c]) = c
  | [], _, _ => rfl
  | q :: T, _, c => lastBoard_snoc T q c

/-- appending a legal successor of the last position keeps a line a line -/
theorem isLine_snoc : ∀ (T : List Board) (b0 c : Board), IsLine (b0 :: T) → Step (lastBoard b0 T) c → IsLine (b0 :: (T ++ [c]))
  | [], _, _, _, hs => ⟨hs, trivial⟩
  | q :: T, _, c, hl, hs => ⟨hl.1, isLine_snoc T q c hl.2 hs⟩

/-- the root node of a search re-writes the hash of the last game position at its own index: `LineHist` is kept -/
theorem lineHist_enter_root {b0 : Board} {T : List Board} {p : St} (hl : IsLine (b0 :: T)) (hinv : Inv T.length b0)
    (hnw : ply2 b0 + T.length < 65536) (hb : vis p.board = vis (lastBoard b0 T))
    (hh : LineHist (plyClock b0) (b0 :: T) p.history) :
    LineHist (plyClock b0) (b0 :: T) (enter p (Zobrist.hash p.board)).history := by
  rw [enter_history]
  have hg := getElem?_lastBoard T b0
  have hpc := line_plyClock hl hinv hnw T.length _ hg
  rw [plyClock_congr hb, hpc, hash_congr hb]
  exact hh.set_last T.length _ hg

/-- **the hypotheses of the node theorem for a root move `m` after `position <b0> moves …`**: `s` is any state whose board shows
the position after `m` and whose history still holds the game below the node's index -/
theorem nodeHyp_of_game {b0 : Board} {T : List Board} {s : St} {m : Move} (hl : IsLine (b0 :: T))
    (hinv : Inv (T.length + 1) b0) (hnw : ply2 b0 + (T.length + 1) < 65536)
    (hm : m ∈ genLegal (lastBoard b0 T)) (hb : vis s.board = vis (make (lastBoard b0 T) m))
    (hh : LineHist (plyClock b0) (b0 :: T) s.history)
    (hnz : Zobrist.hash s.board ≠ 0)
    (hcoll : ∀ (i : Nat) (b : Board), (b0 :: T)[i]? = some b → T.length + 1 - s.board.halfmove ≤ i →
      Zobrist.hash b = Zobrist.hash s.board → HashKey b = HashKey s.board) :
    NodeHyp b0 T s :=
  ⟨isLine_snoc T b0 s.board hl ⟨m, hm, hb⟩, hinv, hnw, hh, hnz, hcoll⟩

end Inkayaku.SearchRep
