import Inkayaku.Props.C15
import Inkayaku.Props.C12
/-!
# End-to-end, text half: the LINES a GUI sends

Helper file of `Props/EndToEnd.lean`.  It defines the stdin lines of the end-to-end theorems as plain texts and proves what the
UCI line parser (`Uci.parseLine`, property C15) makes of them:

* `fenText b`                   – the canonical FEN text of a board: `String.ofList (FenText.printA (absOf b))`, the text of the
                                  independent printer `Spec/FenText.lean`; for a representable board it is what the engine's own
                                  writer prints (`printFen_fenText`, C12);
* `positionLine b`              – `"position fen " ++ fenText b`;
* `positionMovesLine b ms`      – `"position fen " ++ fenText b ++ " moves m1 … mn"` (`" moves"` alone when `ms = []`);
* `goDepthLine d`               – `"go depth " ++ toString d`;
* `parseLine_positionLine`, `parseLine_positionMovesLine`, `parseLine_goDepthLine` – the commands they are parsed into;
* `fromFen_fenText`             – reading `fenText b` gives EXACTLY `WF.vis b` (the board with its two scratch words cleared).
-/
namespace Inkayaku.EndToEnd
open Inkayaku.Board Inkayaku.FenBoard Inkayaku.FenText Inkayaku.FenRoundtrip
open Inkayaku.Uci Inkayaku.UciGrammar

/-! ## 1. the texts -/

/-- canonical FEN of the position a board stands for (characters) -/
def fenChars (b : Board) : List Char := printA (absOf b)

/-- canonical FEN of the position a board stands for -/
def fenText (b : Board) : String := String.ofList (fenChars b)

/-- ` m1 m2 … mn` (every move preceded by one space) -/
def movesTail (ms : List UciMove) : List Char := C15.tailText (ms.map UciMove.render)

/-- `position fen <FEN of b>` -/
def positionLine (b : Board) : String := "position fen " ++ fenText b

/-- `position fen <FEN of b> moves m1 … mn` -/
def positionMovesLine (b : Board) (ms : List UciMove) : String :=
  "position fen " ++ fenText b ++ " moves" ++ String.ofList (movesTail ms)

/-- `go depth d` -/
def goDepthLine (d : Nat) : String := "go depth " ++ toString d

/-- for a representable board (in particular a legal position) `fenText` is what the engine's own writer prints -/
theorem printFen_fenText {b : Board} (h : Repr b) : printFen b = some (fenText b) := by
  obtain ⟨s, b', h1, h2, -, -⟩ := C12.print_parse_board h
  rw [h1, h2]; rfl

/-! ## 2. reading the FEN text back: exactly `vis b` -/

theorem eq_vis_of_scratch {b' b : Board} (hv : WF.vis b' = WF.vis b) (hw : b'.white.o0 = 0) (hb : b'.black.o0 = 0) :
    b' = WF.vis b := by
  rw [← hv]
  obtain ⟨⟨_, _, _, _, _, _, _, _, _⟩, ⟨_, _, _, _, _, _, _, _, _⟩, _, _, _, _⟩ := b'
  simp only [WF.vis, WF.visSide] at *
  subst hw; subst hb; rfl

/-- reading the canonical FEN text of a representable board gives the board itself with the two scratch words cleared -/
theorem fromFen_fenText {b : Board} (h : Repr b) : fromFenString (fenText b) = .ok (WF.vis b) := by
  obtain ⟨b', h1, h2⟩ := decode_printA (absOf_valid h)
  have hv := vis_eq h2 (absOf_holds h) (absOf_meta h) h.turn
  have : b' = WF.vis b := eq_vis_of_scratch hv h2.wScratch h2.bScratch
  rw [← this]; exact h1

theorem fenText_wf {b : Board} (h : Repr b) : (PosSource.fen (fenChars b)).Wf := by
  have h1 := fromFen_fenText h
  unfold fromFenString at h1
  show ∃ f, FenSyntax.parse (String.ofList (fenChars b)) = .ok f
  change (match FenSyntax.parse (String.ofList (fenChars b)) with
    | .ok f => (.ok (boardOfFields f) : Except FenSyntax.FenErr Board) | .error e => .error e) = _ at h1
  cases hp : FenSyntax.parse (String.ofList (fenChars b)) with
  | ok f => exact ⟨f, rfl⟩
  | error e => rw [hp] at h1; cases h1

theorem fenChars_ne_startpos (b : Board) : fenChars b ≠ "startpos".toList := by
  intro e
  have := space_mem_printA (absOf b)
  unfold fenChars at e
  rw [e] at this
  revert this; decide

theorem fenString_fenChars (b : Board) : (PosSource.fen (fenChars b)).fenString = fenChars b := by
  show (if fenChars b = "startpos".toList then _ else fenChars b) = _
  rw [if_neg (fenChars_ne_startpos b)]

/-! ## 3. tokens joined by single spaces -/

theorem padBody_nil_gaps : ∀ toks : List Tok, padBody toks [] = joinSp toks
  | [] => rfl
  | [_] => rfl
  | t :: t' :: ts => by
    have ih := padBody_nil_gaps (t' :: ts)
    simp only [padBody, joinSp, List.headD_nil, List.tail_nil, ih, spaces, Nat.zero_add, List.replicate_one,
      List.singleton_append]

theorem pad_plain (toks : List Tok) : pad [] [] [] toks = joinSp toks := by
  simp only [pad, List.nil_append, List.append_nil, padBody_nil_gaps]

theorem tailText_append (a b : List Tok) : C15.tailText (a ++ b) = C15.tailText a ++ C15.tailText b := by
  simp [C15.tailText, List.flatMap_append]

theorem tailText_cons (t : Tok) (ts : List Tok) : C15.tailText (t :: ts) = ' ' :: (t ++ C15.tailText ts) := by
  simp [C15.tailText]

/-- the words of a normal text, each preceded by a space, are a space and the text -/
theorem tailText_words {stop : Option Tok} {s : List Char} (h : TextOk stop s) : C15.tailText (words s) = ' ' :: s := by
  have hn := h.normal
  cases hw : words s with
  | nil => exact absurd hw h.nonempty
  | cons w ws =>
    rw [hw, C15.joinSp_cons] at hn
    rw [tailText_cons, hn]

/-! ## 4. `position fen <FEN> [moves …]` -/

/-- the tokens of a `position fen` line -/
def positionTokens (b : Board) (kw : Bool) (ms : List UciMove) : List Tok :=
  "position".toList :: ((PosSource.fen (fenChars b)).render ++ renderMoves kw ms)

theorem positionTokens_padOk {b : Board} (h : Repr b) (kw : Bool) {ms : List UciMove} (hms : ∀ m ∈ ms, MoveWf m) :
    PadOk [] [] (positionTokens b kw ms) := by
  have hff := C15.fen_fields (fenChars b) (fenText_wf h)
  have hmv := C15.solid_moves kw ms hms
  have kwd : ∀ t : Tok, C15.Solid t → t ≠ [] ∧ ' ' ∉ t := fun t h => ⟨h.1, h.nosp⟩
  have hall : ∀ t ∈ positionTokens b kw ms, t ≠ [] ∧ ' ' ∉ t := by
    intro t ht
    simp only [positionTokens, PosSource.render, List.mem_cons, List.mem_append] at ht
    rcases ht with rfl | (rfl | ht) | ht
    · exact kwd _ ⟨by decide, by decide⟩
    · exact kwd _ ⟨by decide, by decide⟩
    · exact C15.words_fine _ t ht
    · exact kwd t (hmv t ht)
  refine ⟨(by intro c hc; cases hc), (by intro c hc; cases hc), fun t ht => (hall t ht).1, fun t ht => (hall t ht).2, ?_, ?_⟩
  · intro t c h1 h2
    simp only [positionTokens, List.head?_cons, Option.some.injEq] at h1
    subst h1
    simp at h2; subst h2; decide
  · have hl : C15.LastCharOk (positionTokens b kw ms) := by
      unfold positionTokens
      by_cases hm : renderMoves kw ms = []
      · rw [hm, List.append_nil]
        exact C15.lastCharOk_cons (by simp [PosSource.render])
          (C15.lastCharOk_cons hff.1.nonempty hff.2)
      · exact C15.lastCharOk_cons (by simp [PosSource.render]) (C15.lastCharOk_append hm
          (C15.lastCharOk_of_last_solid (fun t ht => hmv t (List.mem_of_getLast? ht))))
    exact hl

theorem positionTokens_text {b : Board} (h : Repr b) (kw : Bool) (ms : List UciMove) :
    joinSp (positionTokens b kw ms) =
      "position fen ".toList ++ (fenChars b ++ C15.tailText (renderMoves kw ms)) := by
  have hff := C15.fen_fields (fenChars b) (fenText_wf h)
  unfold positionTokens
  rw [C15.joinSp_cons, PosSource.render, List.cons_append, tailText_cons, tailText_append, tailText_words hff.1]
  simp

theorem parseTokens_positionTokens {b : Board} (h : Repr b) (kw : Bool) {ms : List UciMove} (hms : ∀ m ∈ ms, MoveWf m) :
    parseTokens (positionTokens b kw ms) = .ok (.positionFrom (fenChars b) ms) := by
  have := C15.parse_render_position (.fen (fenChars b)) kw ms (fenText_wf h) hms
  rw [fenString_fenChars] at this
  exact this

/-- **the line `position fen <FEN of b>` is parsed into the command "position, FEN of b, no moves"** -/
theorem parseLine_positionLine {b : Board} (h : Repr b) :
    parseLine (positionLine b) = .ok (.positionFrom (fenChars b) []) := by
  have hms : ∀ m ∈ ([] : List UciMove), MoveWf m := by intro m hm; cases hm
  rw [C15.parseLine_pad (positionLine b) [] (positionTokens_padOk h false hms) ?_, parseTokens_positionTokens h false hms]
  rw [pad_plain, positionTokens_text h]
  simp [positionLine, fenText, String.toList_append, renderMoves, C15.tailText]

/-- **the line `position fen <FEN of b> moves m1 … mn`** -/
theorem parseLine_positionMovesLine {b : Board} (h : Repr b) {ms : List UciMove} (hms : ∀ m ∈ ms, MoveWf m) :
    parseLine (positionMovesLine b ms) = .ok (.positionFrom (fenChars b) ms) := by
  rw [C15.parseLine_pad (positionMovesLine b ms) [] (positionTokens_padOk h true hms) ?_,
    parseTokens_positionTokens h true hms]
  rw [pad_plain, positionTokens_text h]
  have hr : renderMoves true ms = "moves".toList :: ms.map UciMove.render := by
    unfold renderMoves; rw [if_neg (by simp)]
  rw [hr, tailText_cons]
  simp [positionMovesLine, fenText, String.toList_append, movesTail]

/-! ## 5. `go depth d` -/

theorem digitChar_eq : ∀ r, r < 10 → UciGrammar.digitChar r = Nat.digitChar r := by decide

theorem decimal_eq_toDigits (n : Nat) : UciGrammar.decimal n = Nat.toDigits 10 n := by
  induction n using Nat.strongRecOn with
  | _ n ih =>
    rw [UciGrammar.decimal]
    by_cases h : n < 10
    · rw [if_pos h, Nat.toDigits_of_lt_base h, digitChar_eq n h]
    · have h1 : n / 10 < n := by omega
      have h2 : 10 ≤ n := by omega
      rw [if_neg h, Nat.toDigits_of_base_le (by decide) h2, ih (n / 10) h1, digitChar_eq _ (Nat.mod_lt _ (by decide))]

theorem toString_toList (n : Nat) : (toString n).toList = UciGrammar.decimal n := by
  rw [decimal_eq_toDigits]
  simp [toString, Nat.repr]

theorem goOfItems_depth (d : Nat) : goOfItems [.depth d] = { depth := some d } := by
  simp [goOfItems, goFrom, Go.empty, GoItem.sm?, GoItem.ponder?, GoItem.wtime?, GoItem.btime?, GoItem.winc?,
    GoItem.binc?, GoItem.movestogo?, GoItem.depth?, GoItem.nodes?, GoItem.mate?, GoItem.movetime?, GoItem.infinite?]

/-- **the line `go depth d` is parsed into the command "go with depth limit d and nothing else"** (`d < 2^64`) -/
theorem parseLine_goDepthLine (d : Nat) (hd : d < 18446744073709551616) :
    parseLine (goDepthLine d) = .ok (.go { depth := some d }) := by
  have hok : GoItemsOk [.depth d] := ⟨by simp, by intro it hit; simp at hit; subst hit; exact hd⟩
  have hpad : PadOk [] [] ("go".toList :: renderGoItems [.depth d]) := by
    have hs : ∀ t ∈ "go".toList :: renderGoItems [.depth d], C15.Solid t := by
      intro t ht
      simp only [List.mem_cons] at ht
      rcases ht with rfl | ht
      · exact ⟨by decide, by decide⟩
      · exact C15.solid_goItems _ hok.wf t ht
    refine ⟨(by intro c hc; cases hc), (by intro c hc; cases hc), fun t ht => (hs t ht).1, fun t ht => (hs t ht).nosp, ?_, ?_⟩
    · intro t c h1 h2
      simp only [List.head?_cons, Option.some.injEq] at h1
      subst h1; simp at h2; subst h2; decide
    · exact C15.lastCharOk_of_last_solid (fun t ht => hs t (List.mem_of_getLast? ht))
  rw [C15.parseLine_pad (goDepthLine d) [] hpad ?_, C15.parse_render_go _ hok]
  · exact congrArg (fun g => Except.ok (UciCommand.go g)) (goOfItems_depth d)
  · rewrite [pad_plain]
    have e1 : "go depth ".toList = "go".toList ++ ' ' :: ("depth".toList ++ [' ']) := by decide
    have e2 : renderGoItems [.depth d] = ["depth".toList, UciGrammar.decimal d] := rfl
    rewrite [e2]
    unfold goDepthLine
    rewrite [String.toList_append, toString_toList, e1]
    simp only [joinSp, List.append_assoc, List.cons_append, List.nil_append]

#print axioms fromFen_fenText
#print axioms parseLine_positionLine
#print axioms parseLine_positionMovesLine
#print axioms parseLine_goDepthLine

/-! non-vacuity: the start position -/
example : Repr startBoard := ⟨by decide, by decide, by decide, by decide, by decide⟩
example : positionLine startBoard = "position fen rnbqkbnr/pppppppp/8/8/8/8/PPPPPPPP/RNBQKBNR w KQkq - 0 1" := by decide
#guard goDepthLine 3 == "go depth 3"
#guard positionMovesLine startBoard [⟨52, 36, none⟩, ⟨12, 28, none⟩] ==
  "position fen rnbqkbnr/pppppppp/8/8/8/8/PPPPPPPP/RNBQKBNR w KQkq - 0 1 moves e2e4 e7e5"

end Inkayaku.EndToEnd
