import Inkayaku.Proofs.SearchFlipRules
import Inkayaku.Proofs.EvalFlip
import Inkayaku.Proofs.MakeWf
/-!
# C11 (search half), part 3: `Generate.flipBoard` on bitboards = the flip relation `SFlip` on abstracted positions

* `abs_flipBoard`   – `SFlip (abs b) (abs (flipBoard b))` for every well-formed `b`;
* `flip_of_sflip`   – conversely, two boards with disjoint piece words whose abstractions are related by `SFlip` are
                      `flipBoard` of each other up to the scratch words and the full-move number.
-/
namespace Inkayaku.SearchFlip
open Inkayaku.Board Inkayaku.WF Inkayaku.Abs Inkayaku.Generate Inkayaku.Attack Inkayaku.Check Inkayaku.Bits

theorem mir_eq_mirror (s : Nat) : mir s = EvalFlip.mirror s := rfl

theorem testU_flipU_mir (x : UInt64) {s : Nat} (h : s < 64) : testU (flipU x) (mir s) = testU x s :=
  EvalFlip.testU_flipU_mirror x h

theorem pieceAt_flipSide (s : Side) {t : Nat} (ht : t < 64) : (flipSide s).pieceAt (mir t) = s.pieceAt t := by
  simp only [Side.pieceAt, Side.pieceAtMask, and_bitU_ne_zero _ _ (mir_lt ht), and_bitU_ne_zero _ _ ht, flipSide,
    testU_flipU_mir _ ht]

/-- the two sides of a board with disjoint piece words do not both hold a piece on `t` -/
theorem not_both {b : Board} (hd : Disjoint b) {t : Nat} (ht : t < 64) (hw : b.white.pieceAt t ≠ 0)
    (hk : b.black.pieceAt t ≠ 0) : False := by
  have h1 : testU b.white.full t = true := by
    cases h : testU b.white.full t
    · exact absurd ((pieceAt_zero _ t ht).mpr h) hw
    · rfl
  have h2 : testU b.black.full t = true := by
    cases h : testU b.black.full t
    · exact absurd ((pieceAt_zero _ t ht).mpr h) hk
    · rfl
  obtain ⟨x, hx, hxt⟩ := (full_iff _ _).mp h1
  obtain ⟨y, hy, hyt⟩ := (full_iff _ _).mp h2
  have hp := hd.pairwise t
  rw [List.pairwise_append] at hp
  exact hp.2.2 x hx y hy ⟨hxt, hyt⟩

theorem pieceOn_flipBoard {b : Board} (hd : Disjoint b) {s : Nat} (hs : s < 64) :
    pieceOn (flipBoard b) (mir s) = (pieceOn b s).map recolor := by
  unfold pieceOn
  simp only [flipBoard, pieceAt_flipSide _ hs]
  by_cases hw : b.white.pieceAt s = 0
  · by_cases hk : b.black.pieceAt s = 0
    · simp [hw, hk]
    · simp [hw, hk, recolor]
  · by_cases hk : b.black.pieceAt s = 0
    · simp [hw, hk, recolor]
    · exact absurd (not_both hd hs hw hk) id

theorem abs_size (b : Board) : (abs b).sq.size = 64 := by simp [abs]

/-- what `wf` says about the e.p. square -/
theorem wf_ep {b : Board} (h : wf b = true) : b.ep = 0 ∨ (b.ep / 8 = 2 ∨ b.ep / 8 = 5) := by
  have hp := ((MakeWf.wf_iff b).mp h).ep
  unfold MakeWf.epOK at hp
  simp only [Bool.or_eq_true, beq_iff_eq] at hp
  rcases hp with hp | hp
  · left; exact hp
  · right
    split at hp
    · simp only [Bool.and_eq_true, beq_iff_eq] at hp; left; exact hp.1.1.1
    · simp only [Bool.and_eq_true, beq_iff_eq] at hp; right; exact hp.1.1.1

theorem flipBoard_ep (b : Board) : (flipBoard b).ep = if b.ep == 0 then 0 else mir b.ep := by
  show (if b.ep == 0 then 0 else (7 - b.ep / 8) * 8 + b.ep % 8) = _
  split
  · rfl
  · unfold mir; omega

/-- **the abstraction of the flipped board is the flip of the abstraction** -/
theorem abs_flipBoard {b : Board} (h : wf b = true) : SFlip (abs b) (abs (flipBoard b)) := by
  have hs := (struct_of_wf h).1
  have ht := (struct_of_wf h).2
  have hep := wf_ep h
  refine ⟨abs_size _, abs_size _, ?_, ?_, rfl, rfl, rfl, rfl, ?_, ?_, rfl⟩
  · intro s hs'
    rw [abs_at, abs_at, if_pos (mir_lt hs'), if_pos hs']
    exact pieceOn_flipBoard hs.disjoint hs'
  · show ((1 - b.turn) == 0) = !(b.turn == 0)
    have : b.turn = 0 ∨ b.turn = 1 := by omega
    rcases this with e | e <;> rw [e] <;> rfl
  · show (if (flipBoard b).ep == 0 then none else some (flipBoard b).ep) = (if b.ep == 0 then none else some b.ep).map mir
    rw [flipBoard_ep]
    by_cases e : b.ep = 0
    · simp [e]
    · have e1 : (b.ep == 0) = false := by simpa using e
      have e2 : (mir b.ep == 0) = false := by
        have : mir b.ep ≠ 0 := by unfold mir; omega
        simpa using this
      simp [e1, e2]
  · intro e he
    have he' : (if b.ep == 0 then none else some b.ep) = some e := he
    split at he'
    · cases he'
    · simp only [Option.some.injEq] at he'
      omega

/-! ## back from the abstraction -/

theorem word_flip {x y : Board} (hx : Disjoint x) (hy : Disjoint y) (h : SFlip (abs x) (abs y)) (w : Bool) (k : Spec.Kind) :
    word y w k = flipU (word x (!w) k) := by
  apply EvalFlip.ext_testU
  intro j hj
  rw [EvalFlip.testU_flipU, decide_eq_true hj, Bool.true_and, ← mir_eq_mirror, Bool.eq_iff_iff,
    ← at_iff y hy j hj w k, ← at_iff x hx (mir j) (mir_lt hj) (!w) k, h.at' hj]
  cases (abs x).at (mir j) with
  | none => simp
  | some pc =>
    cases pc with
    | mk pw pk => simp only [Option.map_some, recolor, Option.some.injEq, Spec.Piece.mk.injEq]; cases pw <;> cases w <;> simp

theorem abs_turn_eq {x y : Board} (hx : x.turn ≤ 1) (hy : y.turn ≤ 1) (h : (abs y).whiteToMove = !(abs x).whiteToMove) :
    y.turn = 1 - x.turn := by
  have h' : (y.turn == 0) = !(x.turn == 0) := h
  have : x.turn = 0 ∨ x.turn = 1 := by omega
  have : y.turn = 0 ∨ y.turn = 1 := by omega
  rcases ‹x.turn = 0 ∨ x.turn = 1› with e | e <;> rcases ‹y.turn = 0 ∨ y.turn = 1› with e' | e' <;>
    rw [e, e'] at h' <;> simp at h' <;> omega

/-- **two boards whose abstractions are flips of each other are `flipBoard` of each other**, up to the scratch words and
the full-move number -/
theorem flip_of_sflip {x y : Board} (hx : Struct x) (hy : Struct y) (hxt : x.turn ≤ 1) (hyt : y.turn ≤ 1)
    (h : SFlip (abs x) (abs y)) : vis y = vis { flipBoard x with fullmove := y.fullmove } := by
  have hw : ∀ w k, word y w k = flipU (word x (!w) k) := word_flip hx.disjoint hy.disjoint h
  have hturn := abs_turn_eq hxt hyt h.turn
  have hep : y.ep = (flipBoard x).ep := by
    have he : (if y.ep == 0 then none else some y.ep) = (if x.ep == 0 then none else some x.ep).map mir := h.ep
    rw [flipBoard_ep]
    by_cases e : x.ep = 0
    · have e1 : (x.ep == 0) = true := by simpa using e
      rw [e1] at he ⊢
      simp only [if_true, Option.map_none] at he ⊢
      split at he
      · next h0 => simpa using h0
      · cases he
    · have e1 : (x.ep == 0) = false := by simpa using e
      rw [e1] at he ⊢
      simp only [Bool.false_eq_true, if_false, Option.map_some] at he ⊢
      split at he
      · cases he
      · simpa using he
  have hhalf : y.halfmove = x.halfmove := h.half
  have e1 := hw true .pawn
  have e2 := hw true .knight
  have e3 := hw true .bishop
  have e4 := hw true .rook
  have e5 := hw true .queen
  have e6 := hw true .king
  have f1 := hw false .pawn
  have f2 := hw false .knight
  have f3 := hw false .bishop
  have f4 := hw false .rook
  have f5 := hw false .queen
  have f6 := hw false .king
  simp only [word, sideOf, kindCode, Side.get, if_true, Bool.false_eq_true, if_false, Bool.not_true, Bool.not_false]
    at e1 e2 e3 e4 e5 e6 f1 f2 f3 f4 f5 f6
  have hwk : y.white.ks = x.black.ks := h.wk
  have hwq : y.white.qs = x.black.qs := h.wq
  have hbk : y.black.ks = x.white.ks := h.bk
  have hbq : y.black.qs = x.white.qs := h.bq
  cases y with
  | mk yw yb yt ye yf yh =>
    cases yw; cases yb
    simp only at e1 e2 e3 e4 e5 e6 f1 f2 f3 f4 f5 f6 hwk hwq hbk hbq hturn hep hhalf
    simp only [vis, visSide, flipBoard, flipSide, e1, e2, e3, e4, e5, e6, f1, f2, f3, f4, f5, f6, hwk, hwq, hbk, hbq, hturn,
      hhalf]
    rw [hep]
    rfl

end Inkayaku.SearchFlip
