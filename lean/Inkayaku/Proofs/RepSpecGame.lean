import Inkayaku.Model.RepSpec
import Inkayaku.Proofs.AlphaBeta
/-!
# The specification game with the repetition rule (`Model/RepSpec.lean`): alpha-beta = exact path-dependent minimax

* `rep_leafOk`, `rep_term_ge`, `rep_leaf_bound` – the horizon evaluator, terminal values and horizon values of `repChess` obey
  the hypotheses of `Minimax.root_exact'` (the horizon functions are those of `SpecSearch.chess` on the board component; the
  repetition value `drawScore ± contempt` is a generated constant inside the score range);
* `rep_search_eq_mm` – alpha-beta on `repChess`, any move order, any capture order = `mm repGame`;
* `qexact_board`, `leafExact_board` – the capture resolution / horizon value of a node of `repChess` is that of `chess` on its board;
* unfolding lemmas that state the rule: `isRepetition_root`, `mm_repetition`, `mm_zero_norep`, `mm_succ_norep`, `mm_root_succ`.
-/
namespace Inkayaku.RepSpec
open Inkayaku.Board Inkayaku.Eval Inkayaku.Minimax Inkayaku.SpecSearch

/-- the value of a repetition node: `drawScore + contempt` at even plies, `drawScore − contempt` at odd plies -/
def repetitionValue (ply : Nat) : Int := Gen.drawScore + (if ply % 2 == 0 then 1 else -1) * Gen.contempt

theorem repetitionValue_cases (ply : Nat) :
    repetitionValue ply = Gen.drawScore + Gen.contempt ∨ repetitionValue ply = Gen.drawScore - Gen.contempt := by
  unfold repetitionValue
  by_cases h : (ply % 2 == 0) = true
  · left; rw [if_pos h]; omega
  · right; rw [if_neg h]; omega

/-- the repetition value is a constant far inside the score range -/
theorem repetitionValue_bound (ply : Nat) : -176000 ≤ repetitionValue ply ∧ repetitionValue ply ≤ 176000 := by
  have h1 : -176000 ≤ Gen.drawScore + Gen.contempt ∧ Gen.drawScore + Gen.contempt ≤ 176000 := by decide
  have h2 : -176000 ≤ Gen.drawScore - Gen.contempt ∧ Gen.drawScore - Gen.contempt ≤ 176000 := by decide
  rcases repetitionValue_cases ply with h | h <;> rw [h] <;> omega

theorem isOrder_byMvvLvaR : IsOrder byMvvLvaR := fun _ l => List.mergeSort_perm l _

/-! ## field lemmas -/

theorem repGame_moves (qorder : RPos → List Move → List Move) (p : RPos) :
    (repChess.game qorder).moves p = if isRepetition p then [] else rootMoves p.board p.only := rfl

theorem repGame_child (qorder : RPos → List Move → List Move) (p : RPos) (m : Move) :
    (repChess.game qorder).child p m =
      { board := make p.board m, only := [], ply := p.ply + 1, before := key p.board :: p.before } := rfl

theorem repGame_term (qorder : RPos → List Move → List Move) (p : RPos) :
    (repChess.game qorder).term p =
      if isRepetition p then repetitionValue p.ply else Search.evalFor p.board p.board.turn false := rfl

theorem repGame_loss (qorder : RPos → List Move → List Move) : (repChess.game qorder).loss = lossScore := rfl

/-! ## Part 1: alpha-beta on `repChess` is the exact minimax -/

theorem rep_leafOk (qorder : RPos → List Move → List Move) (hq : IsOrder qorder) : LeafOk (repChess.game qorder) :=
  searchGame_leafOk repChess qorder hq

theorem rep_term_ge (qorder : RPos → List Move → List Move) (p : RPos) :
    (repChess.game qorder).loss ≤ (repChess.game qorder).term p := by
  rw [repGame_term, repGame_loss]
  split
  · have := (repetitionValue_bound p.ply).1
    have := lossScore_val
    omega
  · exact term_ge_loss p.board

theorem rep_leaf_bound (qorder : RPos → List Move → List Move) (p : RPos) :
    -176000 ≤ (repChess.game qorder).leafExact p ∧ (repChess.game qorder).leafExact p ≤ 176000 := by
  show -176000 ≤ (if repChess.noisy p then Qexact repChess.qgame repChess.fuel p else repChess.static p) ∧
    (if repChess.noisy p then Qexact repChess.qgame repChess.fuel p else repChess.static p) ≤ 176000
  split
  · exact Qexact_bound repChess.qgame 176000 (fun p => standPat_bound p.board p.board.turn) _ _
  · exact standPat_bound p.board p.board.turn

/-- **alpha-beta on the game with the repetition rule computes its exact (path-dependent) minimax value** – for any order of
the moves and any order of the captures, every depth, every node -/
theorem rep_search_eq_mm (order qorder : RPos → List Move → List Move) (ho : IsOrder order) (hq : IsOrder qorder)
    (d : Nat) (p : RPos) :
    (ab (repChess.game qorder) order d p lossScore (-lossScore)).1 = mm repGame d p := by
  have hl := lossScore_val
  rw [show repGame = repChess.game byMvvLvaR from rfl, searchGame_mm_qorder repChess byMvvLvaR qorder]
  exact root_exact' (repChess.game qorder) order ho (rep_leafOk qorder hq) (by show lossScore < 0; omega)
    (rep_term_ge qorder)
    (fun p => by have := (rep_leaf_bound qorder p).1; show lossScore ≤ _; omega)
    (fun p => by have := (rep_leaf_bound qorder p).2; show _ ≤ -lossScore; omega) d p

/-- the history part of `repSearch`: the final board and the keys of the earlier positions -/
theorem repSearch_of_history {depth : Nat} {b0 : Board} {ucis only : List String} {b : Board} {before : List Key}
    (h : playHistory b0 ucis [] = some (b, before)) :
    repSearch depth b0 ucis only =
      some (b, (ab repGame byMvvLvaR depth ⟨b, only, 0, before⟩ lossScore (-lossScore)).1,
               (ab repGame byMvvLvaR depth ⟨b, only, 0, before⟩ lossScore (-lossScore)).2) := by
  unfold repSearch
  rw [h]

theorem repSearch_none {depth : Nat} {b0 : Board} {ucis only : List String} (h : playHistory b0 ucis [] = none) :
    repSearch depth b0 ucis only = none := by
  unfold repSearch
  rw [h]

/-! ## the horizon of a node depends on its board only -/

theorem mmFold_map {P Q : Type} (e : P → Int) (f : Q → P) (init : Int) (l : List Q) :
    mmFold e init (l.map f) = mmFold (fun x => e (f x)) init l := by
  induction l generalizing init with
  | nil => rfl
  | cons x xs ih => simp only [List.map_cons, mmFold_cons]; exact ih _

/-- capture resolution of a node of `repChess` = capture resolution of `chess` on its board -/
theorem qexact_board (f : Nat) : ∀ (p : RPos) (only : List String),
    Qexact repChess.qgame f p = Qexact chess.qgame f (p.board, only) := by
  induction f with
  | zero => intro p only; rfl
  | succ f ih =>
    intro p only
    simp only [Qexact]
    show mmFold (Qexact repChess.qgame f) (Search.evalFor p.board p.board.turn true)
        ((legalCaptures p.board).map (repChess.child p)) =
      mmFold (Qexact chess.qgame f) (Search.evalFor p.board p.board.turn true)
        ((legalCaptures p.board).map (chess.child (p.board, only)))
    rw [mmFold_map, mmFold_map]
    apply mmFold_congr
    intro m _
    exact ih (repChess.child p m) []

/-- the exact horizon value of a node = the horizon value of `SpecSearch.game` on its board -/
theorem leafExact_board (qorder : RPos → List Move → List Move) (p : RPos) (only : List String) :
    (repChess.game qorder).leafExact p = game.leafExact (p.board, only) := by
  show (if noisy p.board then Qexact repChess.qgame quiescenceFuel p else Search.evalFor p.board p.board.turn true) =
    (if noisy p.board then Qexact chess.qgame quiescenceFuel (p.board, only) else Search.evalFor p.board p.board.turn true)
  rw [qexact_board quiescenceFuel p only]

/-! ## Part 2: the rule, unfolded -/

/-- **at the root (`ply = 0`) the rule is never applied** -/
theorem isRepetition_root (p : RPos) (h : p.ply = 0) : isRepetition p = false := by
  unfold isRepetition
  rw [h]
  rfl

theorem isRepetition_iff (p : RPos) : isRepetition p = true ↔ 0 < p.ply ∧ 3 ≤ occurrences p := by
  unfold isRepetition
  simp only [Bool.and_eq_true, decide_eq_true_eq, ge_iff_le, gt_iff_lt]

/-- **a node below the root whose position has occurred three times is worth `drawScore ± contempt`, at every depth** -/
theorem mm_repetition (d : Nat) (p : RPos) (h : isRepetition p = true) : mm repGame d p = repetitionValue p.ply := by
  have hm : (repGame.moves p).isEmpty = true := by
    show (if isRepetition p then [] else rootMoves p.board p.only).isEmpty = true
    rw [if_pos h]; rfl
  have ht : repGame.term p = repetitionValue p.ply := by
    show (if isRepetition p then repetitionValue p.ply else _) = _
    rw [if_pos h]
  cases d <;> simp only [mm, hm, if_true, ht]

/-- … spelled out by the parity of the ply -/
theorem mm_repetition_parity (d : Nat) (p : RPos) (h : isRepetition p = true) :
    mm repGame d p = if p.ply % 2 = 0 then Gen.drawScore + Gen.contempt else Gen.drawScore - Gen.contempt := by
  rw [mm_repetition d p h]
  unfold repetitionValue
  by_cases hp : p.ply % 2 = 0
  · simp only [hp, beq_self_eq_true, if_true]; omega
  · have : (p.ply % 2 == 0) = false := by simpa using hp
    simp only [this, hp, if_false, Bool.false_eq_true]; omega

/-- no repetition, no legal move: mate or stalemate value of the board -/
theorem mm_norep_terminal (d : Nat) (p : RPos) (h : isRepetition p = false) (hn : rootMoves p.board p.only = []) :
    mm repGame d p = Search.evalFor p.board p.board.turn false := by
  have hm : (repGame.moves p).isEmpty = true := by
    show (if isRepetition p then [] else rootMoves p.board p.only).isEmpty = true
    rw [h, hn]; rfl
  have ht : repGame.term p = Search.evalFor p.board p.board.turn false := by
    show (if isRepetition p then repetitionValue p.ply else _) = _
    rw [h]; rfl
  cases d <;> simp only [mm, hm, if_true, ht]

/-- no repetition, at the horizon: the horizon value of the board (capture resolution or static evaluation) -/
theorem mm_zero_norep (p : RPos) (h : isRepetition p = false) (hn : rootMoves p.board p.only ≠ []) :
    mm repGame 0 p = game.leafExact (p.board, p.only) := by
  have hm : (repGame.moves p).isEmpty = false := by
    show (if isRepetition p then [] else rootMoves p.board p.only).isEmpty = false
    rw [h]
    cases hr : rootMoves p.board p.only with
    | nil => exact absurd hr hn
    | cons _ _ => rfl
  simp only [mm, hm, Bool.false_eq_true, if_false]
  exact leafExact_board byMvvLvaR p p.only

/-- **no repetition, above the horizon: the usual maximum over the children**, each child one ply deeper, without `searchmoves`
restriction, and with the key of the node's own position prepended to the path -/
theorem mm_succ_norep (d : Nat) (p : RPos) (h : isRepetition p = false) (hn : rootMoves p.board p.only ≠ []) :
    mm repGame (d + 1) p =
      mmFold (mm repGame d) lossScore
        ((rootMoves p.board p.only).map fun m =>
          ({ board := make p.board m, only := [], ply := p.ply + 1, before := key p.board :: p.before } : RPos)) := by
  have hmv : repGame.moves p = rootMoves p.board p.only := by
    show (if isRepetition p then [] else rootMoves p.board p.only) = _
    rw [h]; rfl
  have hm : (repGame.moves p).isEmpty = false := by
    rw [hmv]
    cases hr : rootMoves p.board p.only with
    | nil => exact absurd hr hn
    | cons _ _ => rfl
  simp only [mm, hm, Bool.false_eq_true, if_false]
  unfold Game.children
  rw [hmv]
  rfl

/-- the root: whatever the history, the root position itself is never valued as a repetition -/
theorem mm_root_succ (d : Nat) (b : Board) (only : List String) (before : List Key) (hn : rootMoves b only ≠ []) :
    mm repGame (d + 1) ⟨b, only, 0, before⟩ =
      mmFold (mm repGame d) lossScore
        ((rootMoves b only).map fun m => ({ board := make b m, only := [], ply := 1, before := key b :: before } : RPos)) :=
  mm_succ_norep d ⟨b, only, 0, before⟩ (isRepetition_root _ rfl) hn

end Inkayaku.RepSpec
