import Inkayaku.Proofs.SearchSimQ
import Inkayaku.Proofs.SearchSimRep
import Inkayaku.Proofs.GenFacts
import Inkayaku.Proofs.SearchRoot
/-!
# C08, simulation step 3: positions reached by the search, the hash hypotheses, the table invariant

* `Reach b0 k p`      – `p` has the visible position of a board reached from `b0` by `k` legal moves;
  `Reach.inv` (clock budget), `Reach.ply2` (the ply clock advances by one per move), `Reach.step`;
* `HashInj b0 D`      – EXPLICIT HYPOTHESIS: a position stored by the search (ply `< D`) and a position probed by it
                        (ply `≤ D`) that have the same Zobrist hash are the same position at the same ply.  It is the
                        conjunction of "no hash collision in the `D`-ply neighbourhood of the root" with the chess facts
                        `sameDraft_le3` (see the TARGET in `Props/C08Sim.lean`);
* `HashNonzero b0 D`  – EXPLICIT HYPOTHESIS: no position below the root hashes to 0 (the value of the never written cells of
                        the repetition history);
* `QBound b0 D`       – capture sequences from the positions of the neighbourhood have length ≤ 64
                        (`Proofs/SearchSimFuel.lean` derives it from the material on the board);
* `TTOK b0 D tt`      – every table entry belongs to a position `p` at a ply `k < D` with `hash p` = its key, its depth is
                        at most `D − k`, and it tells the truth about `mm game depth p` (Exact / Lower / Upper);
  `ttok_insert`, `ttok_mono`, `ttok_empty`, `probe_ok` (what the concrete probe delivers under `TTOK` + `HashInj`).
-/
namespace Inkayaku.SearchSim
open Inkayaku.Board Inkayaku.Eval Inkayaku.WF Inkayaku.BoardCongr Inkayaku.Minimax Inkayaku.SpecSearch Inkayaku.Search

/-! ## reachable positions -/

/-- `p` is (up to the scratch words) reached from `b0` by `k` legal moves -/
def Reach (b0 : Board) : Nat → Board → Prop
  | 0, p => vis p = vis b0
  | k + 1, p => ∃ q m, Reach b0 k q ∧ m ∈ genPseudo q ∧ isMoveLegal q m = true ∧ vis p = vis (make q m)

theorem Reach.congr {b0 : Board} {k : Nat} {p p' : Board} (h : Reach b0 k p) (hv : vis p' = vis p) : Reach b0 k p' := by
  cases k with
  | zero => exact hv.trans h
  | succ k =>
    obtain ⟨q, m, h1, h2, h3, h4⟩ := h
    exact ⟨q, m, h1, h2, h3, hv.trans h4⟩

theorem Reach.root (b0 : Board) : Reach b0 0 b0 := rfl

/-- a legal move from a board with the visible position of a reached board -/
theorem Reach.step {b0 : Board} {k : Nat} {q b : Board} (h : Reach b0 k q) (hb : vis b = vis q) {m : Move}
    (hm : m ∈ genPseudo q) (hl : isMoveLegal q m = true) : Reach b0 (k + 1) (make b m) :=
  ⟨q, m, h, hm, hl, make_congr hb m⟩

/-- twice the full-move number plus the side to move: the ply clock before truncation to 16 bits -/
def ply2 (b : Board) : Nat := 2 * (b.fullmove - 1) + b.turn

theorem plyClock_eq (b : Board) : plyClock b = ply2 b % 65536 := rfl

theorem ply2_congr {b b' : Board} (h : vis b = vis b') : ply2 b = ply2 b' := by
  unfold ply2
  rw [turn_congr h, show b.fullmove = b'.fullmove from by rw [← fullmove_vis b, h, fullmove_vis]]

theorem ply2_make {b : Board} (hwf : wf b = true) (m : Move) : ply2 (make b m) = ply2 b + 1 := by
  have hP := (MakeWf.wf_iff b).mp hwf
  have h1 := hP.turn
  have h2 := hP.fm1
  unfold ply2
  rw [make_turn, make_fullmove]
  omega

/-- reached boards keep the clock budget, and their ply clock is the root's plus the number of moves -/
theorem Reach.inv {b0 : Board} {B : Nat} (hinv : Inv B b0) : ∀ {k : Nat} {p : Board}, k ≤ B → Reach b0 k p →
    Inv (B - k) p ∧ ply2 p = ply2 b0 + k := by
  intro k
  induction k with
  | zero =>
    intro p _ h
    exact ⟨Inv_congr (Eq.symm h) hinv, ply2_congr h⟩
  | succ k ih =>
    intro p hk h
    obtain ⟨q, m, h1, h2, h3, h4⟩ := h
    obtain ⟨hq, hpl⟩ := ih (by omega) h1
    have hq' : Inv (B - (k + 1) + 1) q := by
      have : B - (k + 1) + 1 = B - k := by omega
      rw [this]; exact hq
    have := boardLaws.make_inv (B - (k + 1)) q m hq' (Or.inl h2) h3
    refine ⟨Inv_congr h4.symm this, ?_⟩
    rw [ply2_congr h4, ply2_make hq.wf, hpl]
    omega

theorem Reach.wf {b0 : Board} {B : Nat} (hinv : Inv B b0) {k : Nat} {p : Board} (hk : k ≤ B) (h : Reach b0 k p) :
    wf p = true := (Reach.inv hinv hk h).1.wf

/-! ## the explicit hypotheses on the hash function -/

/-- **HashInj** (explicit hypothesis, not an axiom): within the `D`-ply neighbourhood of the root, a position at a ply at
which the search stores (`k' < D`) and a position at a ply at which it probes (`k ≤ D`) that have the same hash are the
same position at the same ply -/
def HashInj (b0 : Board) (D : Nat) : Prop :=
  ∀ (k' k : Nat) (p' p : Board), k' < D → k ≤ D → Reach b0 k' p' → Reach b0 k p → Zobrist.hash p' = Zobrist.hash p →
    k' = k ∧ vis p' = vis p

/-- **HashNonzero** (explicit hypothesis): no position strictly below the root hashes to zero -/
def HashNonzero (b0 : Board) (D : Nat) : Prop :=
  ∀ (k : Nat) (p : Board), 1 ≤ k → k ≤ D → Reach b0 k p → Zobrist.hash p ≠ 0

/-- capture sequences from every position of the neighbourhood are at most `quiescenceFuel = 64` long -/
def QBound (b0 : Board) (D : Nat) : Prop := ∀ (k : Nat) (p : Board), k ≤ D → Reach b0 k p → QDepth quiescenceFuel p

theorem HashInj.mono {b0 : Board} {D D' : Nat} (h : HashInj b0 D) (hle : D' ≤ D) : HashInj b0 D' :=
  fun k' k p' p h1 h2 => h k' k p' p (by omega) (by omega)

theorem HashNonzero.mono {b0 : Board} {D D' : Nat} (h : HashNonzero b0 D) (hle : D' ≤ D) : HashNonzero b0 D' :=
  fun k p h1 h2 => h k p h1 (by omega)

theorem QBound.mono {b0 : Board} {D D' : Nat} (h : QBound b0 D) (hle : D' ≤ D) : QBound b0 D' :=
  fun k p h1 => h k p (by omega)

/-! ## the incremental hash along the search -/

theorem hash_child {q b : Board} (hwf : wf q = true) (hb : vis b = vis q) {m : Move} (hm : m ∈ genPseudo q) :
    Zobrist.hash (make b m) = Zobrist.hash q ^^^ (Zobrist.xorOf m.f).1 := by
  rw [hash_congr (make_congr hb m)]
  exact ZobristStep.hash_incremental (GenFacts.genPseudo_hashok hwf m hm)

/-! ## the transposition table invariant -/

/-- the entry tells the truth about the minimax value of its own draft at `p`; the stored line carries the stored value -/
def EntryOK (p : Board) (e : TtEntry) : Prop :=
  e.mv.value = e.value ∧
  match e.nodeType with
  | .exact => e.value = mm game e.depth (p, [])
  | .lower => e.value ≤ mm game e.depth (p, [])
  | .upper => mm game e.depth (p, []) ≤ e.value

def TTOK (b0 : Board) (D : Nat) (tt : Std.HashMap UInt64 TtEntry) : Prop :=
  ∀ h e, tt.get? h = some e →
    ∃ k p, k < D ∧ Reach b0 k p ∧ Zobrist.hash p = h ∧ e.depth + k ≤ D ∧ EntryOK p e

theorem ttok_empty (b0 : Board) (D : Nat) : TTOK b0 D {} := by
  intro h e he
  simp at he

theorem ttok_mono {b0 : Board} {D D' : Nat} {tt : Std.HashMap UInt64 TtEntry} (h : TTOK b0 D tt) (hle : D ≤ D') :
    TTOK b0 D' tt := by
  intro x e he
  obtain ⟨k, p, h1, h2, h3, h4, h5⟩ := h x e he
  exact ⟨k, p, by omega, h2, h3, by omega, h5⟩

theorem ttok_insert {b0 : Board} {D : Nat} {tt : Std.HashMap UInt64 TtEntry} (h : TTOK b0 D tt) {k : Nat} {p : Board}
    (hk : k < D) (hr : Reach b0 k p) (e : TtEntry) (hd : e.depth + k ≤ D) (he : EntryOK p e) :
    TTOK b0 D (tt.insert (Zobrist.hash p) e) := by
  intro x e' hget
  simp only [Std.HashMap.get?_eq_getElem?, Std.HashMap.getElem?_insert] at hget
  split at hget
  · rename_i hx
    cases hget
    exact ⟨k, p, hk, hr, by simpa using hx, hd, he⟩
  · exact h x e' (by simpa [Std.HashMap.get?_eq_getElem?] using hget)

/-- every entry for the hash of a ply-`k` position is an entry of that position at that ply -/
theorem ttok_entry {b0 : Board} {D : Nat} {tt : Std.HashMap UInt64 TtEntry} (h : TTOK b0 D tt) (hinj : HashInj b0 D)
    {k : Nat} {p : Board} (hk : k ≤ D) (hr : Reach b0 k p) {e : TtEntry} (he : tt.get? (Zobrist.hash p) = some e) :
    k < D ∧ e.depth + k ≤ D ∧ EntryOK p e := by
  obtain ⟨k', p', h1, h2, h3, h4, h5⟩ := h _ e he
  obtain ⟨rfl, hv⟩ := hinj k' k p' p h1 hk h2 hr h3
  refine ⟨h1, h4, h5.1, ?_⟩
  have := h5.2
  rw [mm_congr e.depth p' p [] hv] at this
  exact this

/-- what the concrete probe delivers when every usable entry tells the truth about `m` -/
theorem probe_ok (m : Int) (entry : Option TtEntry) (rem : Nat) (α β : Int) (hαβ : α < β)
    (hv : ∀ e, entry = some e → e.depth ≥ rem → e.mv.value = e.value ∧
      match e.nodeType with | .exact => e.value = m | .lower => e.value ≤ m | .upper => m ≤ e.value) :
    match Search.probe entry rem α β with
    | (some r, _, _) => Ok m r.value α β
    | (none, α', β') => α ≤ α' ∧ β' ≤ β ∧ α' < β' ∧ (α < α' → α' ≤ m) ∧ (β' < β → m ≤ β') := by
  cases entry with
  | none => simp only [Search.probe]; omega
  | some x =>
    simp only [Search.probe]
    by_cases hd : x.depth ≥ rem
    · obtain ⟨hval, this⟩ := hv x rfl hd
      simp only [hd, if_true]
      cases hb : x.nodeType with
      | exact =>
        simp only [hb] at this ⊢
        rw [hval, this]; exact Ok.refl _ _ _
      | lower =>
        simp only [hb] at this ⊢
        by_cases hc : max α x.value ≥ β
        · simp only [hc, if_true]
          rw [hval]
          refine ⟨fun h => by omega, fun h => by omega, fun h1 h2 => by omega⟩
        · simp only [hc, if_false]; omega
      | upper =>
        simp only [hb] at this ⊢
        by_cases hc : α ≥ min β x.value
        · simp only [hc, if_true]
          rw [hval]
          refine ⟨fun h => by omega, fun h => by omega, fun h1 h2 => by omega⟩
        · simp only [hc, if_false]; omega
    · simp only [hd, if_false]; omega

/-! ## the part of the search state the simulation needs -/

/-- table invariant, fresh history below the root, not stopped, no `searchmoves` restriction -/
structure SOK (b0 : Board) (D : Nat) (s : St) : Prop where
  tt : TTOK b0 D s.tt
  hist : HistZero (plyClock b0) s
  stop : s.stop = false
  sm : s.go.searchMoves = []

theorem SOK.setBoard {b0 : Board} {D : Nat} {s : St} (h : SOK b0 D s) (b : Board) : SOK b0 D { s with board := b } :=
  ⟨h.tt, h.hist, h.stop, h.sm⟩

theorem SOK.mono {b0 : Board} {D D' : Nat} {s : St} (h : SOK b0 D s) (hle : D ≤ D') : SOK b0 D' s :=
  ⟨ttok_mono h.tt hle, h.hist, h.stop, h.sm⟩


/-! ## no interruption: either no flag poll happens, or a poll finds nothing -/

/-- no message is waiting and no move time is set: a flag poll only emits its periodic info line -/
def Calm (s : St) : Prop := s.pending = [] ∧ s.go.moveTime = none

/-- a search from `s` that returns the node counter `n` is not interrupted: the counter stays below the poll period
(`NoPoll`), or polls find nothing (`Calm`) -/
def NoIntr (s : St) (n : Nat) : Prop := n < s.pollPeriod ∨ Calm s

theorem Calm.setBoard {s : St} (h : Calm s) (b : Board) : Calm { s with board := b } := h

theorem checkMessages_of_calm {s : St} (h : s.pending = []) : checkMessages s = s := by
  rw [checkMessages_def, h]
  show ({ s with pending := [] } : St) = s
  rw [← h]

theorem pollStep_of_calm {s : St} (h : s.pending = []) :
    pollStep s = s ∨ pollStep s = s.emit (.info none (some (s.elapsedNs / 1000000)) s.totalNodes none none) := by
  unfold pollStep
  split
  · right; rw [checkMessages_of_calm h]
  · left; rfl

theorem calm_pollStep {s : St} (h : Calm s) : Calm (pollStep s) := by
  rcases pollStep_of_calm h.1 with e | e <;> rw [e] <;> exact h

theorem timedOut_of_calm {s : St} (h : Calm s) : timedOut s = false := by
  unfold timedOut
  rw [(calm_pollStep h).2, Bool.and_false]

theorem enterShape_of_calm {s : St} (h : Calm s) (hash : UInt64) : EnterShape s hash := by
  unfold EnterShape enter
  rcases pollStep_of_calm h.1 with e | e <;> rw [e]
  · exact ⟨s.out, rfl⟩
  · exact ⟨_, rfl⟩

/-- `Calm` is kept by every step of the search -/
theorem calm_stepRel (D : Nat) : StepRel D (fun s s' => Calm s → Calm s') where
  refl := fun _ h => h
  trans := fun h1 h2 h => h2 (h1 h)
  board := fun _ _ h => h
  poll := fun _ h => calm_pollStep h
  stop := fun _ h => h
  node := fun _ h => h
  hist := fun _ _ h => h
  qnode := fun _ h => h
  killers := fun _ _ h => h
  tt := fun _ _ _ _ h => h

theorem pollFlag_false_of_lt' {s : St} (h : s.negamaxNodes < s.pollPeriod) : pollFlag s = false := by
  by_cases h0 : s.negamaxNodes = 0
  · exact pollFlag_false_of_zero h0
  · exact pollFlag_false_of_lt (by omega) h

/-- the entry phase of a node of an uninterrupted search -/
theorem enter_of_noIntr {s : St} {n : Nat} (h : NoIntr s n) (hn : s.negamaxNodes ≤ n) (hash : UInt64) :
    timedOut s = false ∧ EnterShape s hash := by
  rcases h with h | h
  · have hf := pollFlag_false_of_lt' (Nat.lt_of_le_of_lt hn h)
    exact ⟨timedOut_of_noFlag hf, enterShape_of_noFlag hf hash⟩
  · exact ⟨timedOut_of_calm h, enterShape_of_calm h hash⟩

/-! ## small facts about the model -/


theorem rootBuffer_nil_sm {s : St} (h : s.go.searchMoves = []) (ply : Nat) : rootBuffer s ply = genPseudo s.board := by
  unfold rootBuffer
  rw [h]
  simp

theorem isAnyMoveLegal_genPseudo (b : Board) : isAnyMoveLegal b (genPseudo b) = !(genLegal b).isEmpty := by
  unfold isAnyMoveLegal genLegal
  rw [Bool.eq_iff_iff]
  simp [List.filter_eq_nil_iff]

theorem game_moves (b : Board) : game.moves (b, []) = genLegal b := moves_nil b

theorem mm_zero (p : Pos) : mm game 0 p = if (game.moves p).isEmpty then game.term p else game.leafExact p := rfl

theorem mm_succ (n : Nat) (p : Pos) :
    mm game (n + 1) p = if (game.moves p).isEmpty then game.term p else mmFold (mm game n) game.loss (game.children p) := rfl

end Inkayaku.SearchSim
