import Inkayaku.Proofs.SearchSimCheck
import Inkayaku.Proofs.SearchSimFuel
import Inkayaku.Props.C06
/-!
# C08, simulation step 3': `HashInj` = no hash collision + chess facts (`sameDraft`)

`C06.HashKey p` is everything the Zobrist hash reads: the twelve piece words, side to move, castling rights, e.p. file.

* `NoCollision b0 D` – the genuine hash hypothesis: equal hashes in the `D`-ply neighbourhood ⇒ equal `HashKey`;
* `SameDraft b0 D`   – the chess fact: equal `HashKey` between a stored ply `k' < D` and a probed ply `k ≤ D` ⇒ same ply
                        and same visible position (clocks and e.p. square included);
* `hashInj_of`       – `NoCollision` + `SameDraft` ⇒ `HashInj`.

Proved of `SameDraft`:
* `key_parity`       – equal keys ⇒ the plies have the same parity (the side to move alternates);
* `key_cross02`      – the root never recurs after two plies: the side that moved first has vacated a square (`mkMover` clears
                        the source bit of the moved piece's word) and the reply only removes pieces of that side (`mkOther`);
* `key_same1`        – two root moves that lead to the same `HashKey` lead to the same visible position (a pawn move changes
                        the mover's pawn word, a capture decreases the other side's material, so the half-move clocks agree);
* `key_vis`          – at equal ply, equal `HashKey` and equal half-move clock give equal visible positions (the e.p. square is
                        determined by its file in a well-formed position, the full-move number by the ply);
* `sameDraft_le2`    – `SameDraft b0 D` for `D ≤ 2`: for depth ≤ 2 `HashInj` is exactly `NoCollision`;
* `sameDraft_3`      – `SameDraft b0 3` from the two remaining chess facts `Transp13` (a position at ply 1 does not recur at
                        ply 3) and `Transp22` (two 2-ply lines to the same `HashKey` have the same half-move clock).
-/
namespace Inkayaku.SearchSim
open Inkayaku.Board Inkayaku.WF Inkayaku.BoardCongr Inkayaku.Minimax Inkayaku.SpecSearch Inkayaku.Search
open Inkayaku.MakeWf Inkayaku.GenStrong
open Inkayaku.C06 (HashKey)

/-! ## the decomposition -/

def NoCollision (b0 : Board) (D : Nat) : Prop :=
  ∀ (k' k : Nat) (p' p : Board), k' < D → k ≤ D → Reach b0 k' p' → Reach b0 k p → Zobrist.hash p' = Zobrist.hash p →
    HashKey p' = HashKey p

def SameDraft (b0 : Board) (D : Nat) : Prop :=
  ∀ (k' k : Nat) (p' p : Board), k' < D → k ≤ D → Reach b0 k' p' → Reach b0 k p → HashKey p' = HashKey p →
    k' = k ∧ vis p' = vis p

theorem hashInj_of {b0 : Board} {D : Nat} (h1 : NoCollision b0 D) (h2 : SameDraft b0 D) : HashInj b0 D :=
  fun k' k p' p hk' hk hr' hr he => h2 k' k p' p hk' hk hr' hr (h1 k' k p' p hk' hk hr' hr he)

/-- conversely `HashInj` implies `NoCollision` -/
theorem noCollision_of_hashInj {b0 : Board} {D : Nat} (h : HashInj b0 D) : NoCollision b0 D := by
  intro k' k p' p hk' hk hr' hr he
  have := (h k' k p' p hk' hk hr' hr he).2
  show HashKey (vis p') = HashKey (vis p)
  rw [this]

/-! ## what a key determines -/

theorem hashKey_vis {p q : Board} (h : vis p = vis q) : HashKey p = HashKey q := by
  show HashKey (vis p) = HashKey (vis q)
  rw [h]

theorem key_turn {p p' : Board} (h : HashKey p = HashKey p') : p.turn = p'.turn := by
  simp only [HashKey, C06.HashData.mk.injEq] at h
  exact h.2.2.2.2.2.2.2.2.2.2.2.2.1

theorem key_white {p p' : Board} (h : HashKey p = HashKey p') (q : Nat) : p.white.get q = p'.white.get q ∨ q = 0 ∨ 7 ≤ q := by
  simp only [HashKey, C06.HashData.mk.injEq] at h
  obtain ⟨h1, h2, h3, h4, h5, h6, -⟩ := h
  rcases q with _|_|_|_|_|_|_|q
  · right; left; rfl
  all_goals first
    | (left; assumption)
    | (right; right; omega)

theorem key_black {p p' : Board} (h : HashKey p = HashKey p') (q : Nat) : p.black.get q = p'.black.get q ∨ q = 0 ∨ 7 ≤ q := by
  simp only [HashKey, C06.HashData.mk.injEq] at h
  obtain ⟨-, -, -, -, -, -, h1, h2, h3, h4, h5, h6, -⟩ := h
  rcases q with _|_|_|_|_|_|_|q
  · right; left; rfl
  all_goals first
    | (left; assumption)
    | (right; right; omega)

/-- equal keys: the words of the side to move and of the other side agree -/
theorem key_sides {p p' : Board} (h : HashKey p = HashKey p') {q : Nat} (h1 : 1 ≤ q) (h6 : q ≤ 6) :
    p.active.get q = p'.active.get q ∧ p.passive.get q = p'.passive.get q := by
  have ht := key_turn h
  have hw : p.white.get q = p'.white.get q := by
    rcases key_white h q with e | e | e
    · exact e
    · omega
    · omega
  have hb : p.black.get q = p'.black.get q := by
    rcases key_black h q with e | e | e
    · exact e
    · omega
    · omega
  unfold Board.active Board.passive Board.whiteTurn
  rw [ht]
  split
  · exact ⟨hw, hb⟩
  · exact ⟨hb, hw⟩

/-- equal key, e.p. square, clocks ⇒ equal visible position -/
theorem vis_of_key {p p' : Board} (h : HashKey p = HashKey p') (hep : p.ep = p'.ep) (hfm : p.fullmove = p'.fullmove)
    (hhm : p.halfmove = p'.halfmove) : vis p = vis p' := by
  rw [C03.vis_eq_iff]
  simp only [HashKey, C06.HashData.mk.injEq] at h
  obtain ⟨h1, h2, h3, h4, h5, h6, h7, h8, h9, h10, h11, h12, h13, h14, h15, h16, h17, -, -⟩ := h
  exact ⟨h1, h2, h3, h4, h5, h6, h7, h8, h9, h10, h11, h12, h15, h14, h17, h16, h13, hep, hhm, hfm⟩

/-- in a well-formed position the e.p. square is determined by its file and the side to move -/
theorem ep_of_key {p p' : Board} (hwf : wf p = true) (hwf' : wf p' = true) (h : HashKey p = HashKey p') : p.ep = p'.ep := by
  have ht := key_turn h
  have e1 := ((wf_iff p).mp hwf).ep
  have e2 := ((wf_iff p').mp hwf').ep
  simp only [HashKey, C06.HashData.mk.injEq] at h
  obtain ⟨-, -, -, -, -, -, -, -, -, -, -, -, -, -, -, -, -, hf, hn⟩ := h
  unfold epOK at e1 e2
  rw [ht] at e1
  by_cases h0 : p.ep = 0
  · have : (p'.ep == 0) = true := by rw [← hn, h0]; rfl
    rw [h0]; exact (by simpa using this : p'.ep = 0).symm
  · have h0' : ¬ p'.ep = 0 := by
      intro e
      have : (p.ep == 0) = true := by rw [hn, e]; rfl
      exact h0 (by simpa using this)
    have n1 : (p.ep == 0) = false := by simpa using h0
    have n2 : (p'.ep == 0) = false := by simpa using h0'
    rw [n1, Bool.false_or] at e1
    rw [n2, Bool.false_or] at e2
    simp only at e1 e2
    split at e1
    · rename_i hc
      rw [if_pos hc] at e2
      simp only [Bool.and_eq_true, beq_iff_eq] at e1 e2
      have a1 := e1.1.1.1
      have a2 := e2.1.1.1
      omega
    · rename_i hc
      rw [if_neg hc] at e2
      simp only [Bool.and_eq_true, beq_iff_eq] at e1 e2
      have a1 := e1.1.1.1
      have a2 := e2.1.1.1
      omega

/-- **at equal ply**: equal key and half-move clock ⇒ equal visible position -/
theorem key_vis {b0 : Board} {D : Nat} (hinv : Inv D b0) {k : Nat} (hk : k ≤ D) {p p' : Board} (hr : Reach b0 k p)
    (hr' : Reach b0 k p') (h : HashKey p = HashKey p') (hhm : p.halfmove = p'.halfmove) : vis p = vis p' := by
  obtain ⟨i1, pl1⟩ := Reach.inv hinv hk hr
  obtain ⟨i2, pl2⟩ := Reach.inv hinv hk hr'
  have ht := key_turn h
  have f1 := ((wf_iff p).mp i1.wf).fm1
  have f2 := ((wf_iff p').mp i2.wf).fm1
  refine vis_of_key h (ep_of_key i1.wf i2.wf h) ?_ hhm
  unfold ply2 at pl1 pl2
  omega

/-- equal keys ⇒ plies of the same parity -/
theorem key_parity {b0 : Board} {D : Nat} (hinv : Inv D b0) {k k' : Nat} (hk : k ≤ D) (hk' : k' ≤ D) {p p' : Board}
    (hr : Reach b0 k p) (hr' : Reach b0 k' p') (h : HashKey p = HashKey p') : (k + k') % 2 = 0 := by
  obtain ⟨i1, pl1⟩ := Reach.inv hinv hk hr
  obtain ⟨i2, pl2⟩ := Reach.inv hinv hk' hr'
  have ht := key_turn h
  have t1 := ((wf_iff p).mp i1.wf).turn
  have t2 := ((wf_iff p').mp i2.wf).turn
  unfold ply2 at pl1 pl2
  omega

/-! ## one move, seen from the two sides -/

theorem make_sides {b : Board} (hwf : wf b = true) (m : Move) :
    (make b m).active = mkOther m.f b.whiteTurn b.passive ∧ (make b m).passive = mkMover m.f b.active := by
  have ht := ((wf_iff b).mp hwf).turn
  unfold make
  rw [BoardCongr.makeF_eq]
  rcases sides_of_turn b ht with ⟨h1, h2, -, -⟩ | ⟨h1, h2, -, -⟩
  · simp [Board.active, Board.passive, Board.whiteTurn, h2]
  · simp [Board.active, Board.passive, Board.whiteTurn, h2]

theorem remA_moved (f : MoveF) (hcastle : f.castle = true → f.pieceMoved = KING ∧ ∃ rs rt, castleRook f.target = some (rs, rt))
    (hep : f.enPassant = true → f.pieceMoved = PAWN) (hpr : f.promotion ≠ 0 → f.pieceMoved = PAWN) :
    remA f f.pieceMoved f.source = true := by
  unfold remA
  by_cases hc : f.castle = true
  · obtain ⟨hk, rs, rt, hcr⟩ := hcastle hc
    rw [if_pos hc, hcr, hk]
    simp
  · rw [if_neg hc]
    by_cases he : f.enPassant = true
    · rw [if_pos he, hep he]; simp
    · rw [if_neg he]
      by_cases hp : (f.promotion != NO_PIECE) = true
      · rw [if_pos hp, hpr (by simpa [NO_PIECE] using hp)]; simp
      · rw [if_neg hp]; simp

theorem remA_addA_pawn_false (f : MoveF) (hne : f.pieceMoved ≠ PAWN) (hep : f.enPassant = true → f.pieceMoved = PAWN)
    (hpr : f.promotion ≠ 0 → f.pieceMoved = PAWN) (t : Nat) : remA f 1 t = false ∧ addA f 1 t = false := by
  have h1 : (1 == f.pieceMoved) = false := by simpa [PAWN] using fun e : 1 = f.pieceMoved => hne e.symm
  unfold remA addA
  by_cases hc : f.castle = true
  · rw [if_pos hc, if_pos hc]
    constructor <;> split <;> simp [KING, ROOK]
  · rw [if_neg hc, if_neg hc]
    by_cases he : f.enPassant = true
    · exact absurd (hep he) hne
    · rw [if_neg he, if_neg he]
      by_cases hp : (f.promotion != NO_PIECE) = true
      · exact absurd (hpr (by simpa [NO_PIECE] using hp)) hne
      · rw [if_neg hp, if_neg hp, h1]
        exact ⟨rfl, rfl⟩

/-- the facts about one generated move used below -/
structure StepFacts (b : Board) (m : Move) : Prop where
  /-- the other side only loses pieces -/
  otherSub : ∀ q, 1 ≤ q → q ≤ 6 → ∀ t, t < 64 → testU ((make b m).active.get q) t = true → testU (b.passive.get q) t = true
  /-- the mover vacates the source square of the moved piece -/
  vacate : testU (b.active.get m.f.pieceMoved) m.f.source = true ∧ testU ((make b m).passive.get m.f.pieceMoved) m.f.source = false ∧
    1 ≤ m.f.pieceMoved ∧ m.f.pieceMoved ≤ 6 ∧ m.f.source < 64
  /-- a move of another piece leaves the mover's pawns alone -/
  pawnsKept : m.f.pieceMoved ≠ PAWN → (make b m).passive.pawns = b.active.pawns
  /-- without capture the other side is unchanged -/
  quietKept : m.f.pieceAttacked = 0 → ∀ q, 1 ≤ q → q ≤ 6 → (make b m).active.get q = b.passive.get q
  /-- a capture costs the other side material -/
  captureLt : m.f.pieceAttacked ≠ 0 → materialS (make b m).active < materialS b.passive
  reset : m.f.halfmoveReset = (m.f.pieceMoved == PAWN || m.f.pieceAttacked != NO_PIECE)

theorem stepFacts {b : Board} (hwf : wf b = true) {m : Move} (hm : m ∈ genPseudo b) : StepFacts b m := by
  obtain ⟨src, tgt, piece, castle, ep, promo, epOpp, hf, ha⟩ := genPseudo_strong hwf m hm
  have hgf : GenFacts.GenFacts b m.f := GenFacts.genPseudo_facts hwf m hm
  have hshape := moveShape_of_facts hgf
  obtain ⟨hact, hpas⟩ := make_sides hwf m
  have hU1 := upd_mover ha
  have hU2 := upd_other ha
  rw [← hf] at hU1 hU2
  have hpm : m.f.pieceMoved = piece := by rw [hf]; rfl
  have hsrc : m.f.source = src := by rw [hf]; rfl
  have hon : testU (b.active.get piece) src = true := (has_iff_testU ha.src_lt).mp ha.hasSrc
  have hfullsrc : testU b.active.full src = true := full_of_get ha.piece_ge ha.piece_le hon
  refine ⟨?_, ?_, ?_, ?_, ?_, ?_⟩
  · intro q h1 h6 t ht hb
    rw [hact] at hb
    exact (hU2.sub h1 h6 ht hb rfl).1
  · rw [hpm, hsrc, hpas]
    refine ⟨hon, ?_, ha.piece_ge, ha.piece_le, ha.src_lt⟩
    rw [hU1 piece ha.piece_ge ha.piece_le src ha.src_lt, hon]
    have hadd : addA m.f piece src = false := by
      cases hc : addA m.f piece src
      · rfl
      · rw [hf] at hc
        have := addA_empty ha hc
        rw [this] at hfullsrc
        cases hfullsrc
    have hep' : m.f.enPassant = true → m.f.pieceMoved = PAWN := fun he => (hshape.epPawn he).2.1
    have hpr' : m.f.promotion ≠ 0 → m.f.pieceMoved = PAWN := fun hp => (hshape.promo hp).1
    have hrem : remA m.f piece src = true := by
      have := remA_moved m.f (by
        intro hc
        have hc' : castle = true := by rw [hf] at hc; exact hc
        obtain ⟨hk, -, -, -, -, rs, rt, hcr, -⟩ := ha.castle_ hc'
        refine ⟨by rw [hpm]; exact hk, rs, rt, ?_⟩
        rw [hf]; exact hcr) hep' hpr'
      rw [hpm, hsrc] at this
      exact this
    rw [hadd, hrem]; rfl
  · intro hne
    rw [hpm] at hne
    rw [hpas]
    apply eq_of_testU
    intro t ht
    have := hU1 1 (by decide) (by decide) t ht
    simp only [Side.get] at this
    rw [this]
    have hne' : m.f.pieceMoved ≠ PAWN := by rw [hpm]; exact hne
    obtain ⟨hr, had⟩ := remA_addA_pawn_false m.f hne' (fun he => (hshape.epPawn he).2.1) (fun hp => (hshape.promo hp).1) t
    rw [hr, had]; simp
  · intro h0 q h1 h6
    rw [hact]
    apply eq_of_testU
    intro t ht
    rw [hU2 q h1 h6 t ht]
    have hr : remP m.f b.whiteTurn q t = false := by
      unfold remP
      by_cases hc : m.f.castle = true
      · rw [if_pos hc]
      · rw [if_neg hc]
        by_cases he : m.f.enPassant = true
        · exact absurd h0 (hshape.epPawn he).2.2.1
        · rw [if_neg he, h0]
          have : (q == 0) = false := by simpa using (by omega : q ≠ 0)
          rw [this]; rfl
    rw [hr]; simp [noAdd]
  · intro hne
    rw [hact]
    have := (materialS_mkOther_le hshape).2 hne
    omega
  · unfold GenFacts.GenFacts at hgf
    exact hgf.2.2.2.2.2.2.2.2.2.1

/-! ## lines of one and two moves -/

theorem reach_one {b0 p : Board} : Reach b0 1 p ↔ ∃ m ∈ genLegal b0, vis p = vis (make b0 m) := by
  rw [reach_iff]
  simp only [reachList, List.flatMap_cons, List.flatMap_nil, List.append_nil, List.mem_map]
  constructor
  · rintro ⟨q, ⟨m, hm, rfl⟩, hv⟩; exact ⟨m, hm, hv⟩
  · rintro ⟨m, hm, hv⟩; exact ⟨_, ⟨m, hm, rfl⟩, hv⟩

theorem reach_two {b0 p : Board} :
    Reach b0 2 p ↔ ∃ m1 ∈ genLegal b0, ∃ m2 ∈ genLegal (make b0 m1), vis p = vis (make (make b0 m1) m2) := by
  rw [reach_iff]
  simp only [reachList, List.flatMap_cons, List.flatMap_nil, List.append_nil, List.mem_flatMap, List.mem_map]
  constructor
  · rintro ⟨q, ⟨q1, ⟨m1, hm1, rfl⟩, m2, hm2, rfl⟩, hv⟩; exact ⟨m1, hm1, m2, hm2, hv⟩
  · rintro ⟨m1, hm1, m2, hm2, hv⟩; exact ⟨_, ⟨_, ⟨m1, hm1, rfl⟩, m2, hm2, rfl⟩, hv⟩

theorem materialS_congr {s s' : Side} (h : ∀ q, 1 ≤ q → q ≤ 6 → s.get q = s'.get q) : materialS s = materialS s' := by
  have h1 := h 1 (by decide) (by decide)
  have h2 := h 2 (by decide) (by decide)
  have h3 := h 3 (by decide) (by decide)
  have h4 := h 4 (by decide) (by decide)
  have h5 := h 5 (by decide) (by decide)
  simp only [Side.get] at h1 h2 h3 h4 h5
  unfold materialS
  rw [h1, h2, h3, h4, h5]

theorem make_halfmove (b : Board) (m : Move) :
    (make b m).halfmove = if m.f.halfmoveReset then 0 else b.halfmove + 1 := rfl

/-- **the root does not recur after two plies** -/
theorem key_cross02 {b0 : Board} (hinv : Inv 1 b0) {m1 m2 : Move} (h1 : m1 ∈ genLegal b0) (h2 : m2 ∈ genLegal (make b0 m1)) :
    HashKey (make (make b0 m1) m2) ≠ HashKey b0 := by
  obtain ⟨g1, l1⟩ := List.mem_filter.mp h1
  obtain ⟨g2, _⟩ := List.mem_filter.mp h2
  have hwf0 := hinv.wf
  have hwf1 : wf (make b0 m1) = true := (boardLaws.make_inv 0 b0 m1 hinv (Or.inl g1) l1).wf
  have s1 := stepFacts hwf0 g1
  have s2 := stepFacts hwf1 g2
  obtain ⟨v1, v2, v3, v4, v5⟩ := s1.vacate
  intro hkey
  have hw := (key_sides hkey v3 v4).1
  have : testU ((make (make b0 m1) m2).active.get m1.f.pieceMoved) m1.f.source = true := by rw [hw]; exact v1
  have := s2.otherSub _ v3 v4 _ v5 this
  rw [v2] at this
  cases this

/-- **two root moves with the same key reset the half-move clock alike** -/
theorem key_same1 {b0 : Board} (hwf : wf b0 = true) {m m' : Move} (h : m ∈ genLegal b0) (h' : m' ∈ genLegal b0)
    (hkey : HashKey (make b0 m) = HashKey (make b0 m')) : (make b0 m).halfmove = (make b0 m').halfmove := by
  have g := (List.mem_filter.mp h).1
  have g' := (List.mem_filter.mp h').1
  have s := stepFacts hwf g
  have s' := stepFacts hwf g'
  -- a pawn move in one line is a pawn move in the other
  have pawn : ∀ {a a' : Move}, StepFacts b0 a → StepFacts b0 a' → HashKey (make b0 a) = HashKey (make b0 a') →
      a.f.pieceMoved = PAWN → a'.f.pieceMoved = PAWN := by
    intro a a' sa sa' hk hp
    false_or_by_contra
    rename_i hne
    obtain ⟨v1, v2, _, _, _⟩ := sa.vacate
    rw [hp] at v1 v2
    have hw := (key_sides hk (q := 1) (by decide) (by decide)).2
    have e := sa'.pawnsKept hne
    have : (make b0 a).passive.get 1 = b0.active.get 1 := by rw [hw]; exact e
    rw [show PAWN = 1 from rfl] at v1 v2
    rw [this, v1] at v2
    cases v2
  -- a capture in one line is a capture in the other
  have capt : ∀ {a a' : Move}, StepFacts b0 a → StepFacts b0 a' → HashKey (make b0 a) = HashKey (make b0 a') →
      a.f.pieceAttacked ≠ 0 → a'.f.pieceAttacked ≠ 0 := by
    intro a a' sa sa' hk hc h0
    have l1 := sa.captureLt hc
    have e1 : materialS (make b0 a').active = materialS b0.passive := materialS_congr (sa'.quietKept h0)
    have e2 : materialS (make b0 a).active = materialS (make b0 a').active :=
      materialS_congr (fun q h1 h6 => (key_sides hk h1 h6).1)
    omega
  have hreset : m.f.halfmoveReset = m'.f.halfmoveReset := by
    rw [s.reset, s'.reset]
    have p1 : (m.f.pieceMoved == PAWN) = (m'.f.pieceMoved == PAWN) := by
      rw [Bool.eq_iff_iff, beq_iff_eq, beq_iff_eq]
      exact ⟨pawn s s' hkey, pawn s' s hkey.symm⟩
    have p2 : (m.f.pieceAttacked != NO_PIECE) = (m'.f.pieceAttacked != NO_PIECE) := by
      rw [Bool.eq_iff_iff, bne_iff_ne, bne_iff_ne]
      exact ⟨capt s s' hkey, capt s' s hkey.symm⟩
    rw [p1, p2]
  rw [make_halfmove, make_halfmove, hreset]

/-! ## `SameDraft` -/

/-- a position at ply 1 does not recur at ply 3 (chess fact, not proved here) -/
def Transp13 (b0 : Board) : Prop := ∀ p' p, Reach b0 1 p' → Reach b0 3 p → HashKey p' ≠ HashKey p

/-- two 2-ply lines to the same key have the same half-move clock (chess fact, not proved here) -/
def Transp22 (b0 : Board) : Prop := ∀ p' p, Reach b0 2 p' → Reach b0 2 p → HashKey p' = HashKey p → p'.halfmove = p.halfmove

theorem sameDraft_core {b0 : Board} {D : Nat} (hinv : Inv D b0) (hD : D ≤ 3)
    (h13 : 3 ≤ D → Transp13 b0) (h22 : 3 ≤ D → Transp22 b0) : SameDraft b0 D := by
  intro k' k p' p hk' hk hr' hr hkey
  have hpar := key_parity hinv (Nat.le_of_lt hk') hk hr' hr hkey
  have hwf0 := hinv.wf
  -- the cross-ply cases are impossible
  have cross : ∀ {x y : Board}, Reach b0 0 x → Reach b0 2 y → 2 ≤ D → HashKey x = HashKey y → False := by
    intro x y hx hy h2 hk
    obtain ⟨m1, hm1, m2, hm2, hv⟩ := reach_two.mp hy
    have e1 : HashKey x = HashKey b0 := hashKey_vis hx
    have e2 : HashKey y = HashKey (make (make b0 m1) m2) := hashKey_vis hv
    exact key_cross02 (Inv_mono (by omega) hinv) hm1 hm2 (by rw [← e2, ← hk, e1])
  have hcases : (k' = 0 ∧ k = 0) ∨ (k' = 0 ∧ k = 2) ∨ (k' = 1 ∧ k = 1) ∨ (k' = 1 ∧ k = 3) ∨ (k' = 2 ∧ k = 0) ∨
      (k' = 2 ∧ k = 2) := by omega
  rcases hcases with ⟨rfl, rfl⟩ | ⟨rfl, rfl⟩ | ⟨rfl, rfl⟩ | ⟨rfl, rfl⟩ | ⟨rfl, rfl⟩ | ⟨rfl, rfl⟩
  · exact ⟨rfl, hr'.trans hr.symm⟩
  · exact (cross hr' hr (by omega) hkey).elim
  · refine ⟨rfl, ?_⟩
    obtain ⟨m', hm', hv'⟩ := reach_one.mp hr'
    obtain ⟨m, hm, hv⟩ := reach_one.mp hr
    have hk2 : HashKey (make b0 m') = HashKey (make b0 m) := by
      rw [← hashKey_vis hv', ← hashKey_vis hv]; exact hkey
    have hh := key_same1 hwf0 hm' hm hk2
    exact key_vis hinv hk hr' hr hkey (by rw [halfmove_congr hv', halfmove_congr hv]; exact hh)
  · exact (h13 (by omega) p' p hr' hr hkey).elim
  · exact (cross hr hr' (by omega) hkey.symm).elim
  · exact ⟨rfl, key_vis hinv hk hr' hr hkey (h22 (by omega) p' p hr' hr hkey)⟩

/-- **for depth ≤ 2 the chess part of `HashInj` is proved**: only hash collisions are assumed away -/
theorem sameDraft_le2 {b0 : Board} {D : Nat} (hinv : Inv D b0) (hD : D ≤ 2) : SameDraft b0 D :=
  sameDraft_core hinv (by omega) (fun h => by omega) (fun h => by omega)

theorem hashInj_le2 {b0 : Board} {D : Nat} (hinv : Inv D b0) (hD : D ≤ 2) (h : NoCollision b0 D) : HashInj b0 D :=
  hashInj_of h (sameDraft_le2 hinv hD)

/-- depth 3: two chess facts remain -/
theorem sameDraft_3 {b0 : Board} (hinv : Inv 3 b0) (h13 : Transp13 b0) (h22 : Transp22 b0) : SameDraft b0 3 :=
  sameDraft_core hinv (Nat.le_refl _) (fun _ => h13) (fun _ => h22)

theorem hashInj_3 {b0 : Board} (hinv : Inv 3 b0) (h : NoCollision b0 3) (h13 : Transp13 b0) (h22 : Transp22 b0) :
    HashInj b0 3 :=
  hashInj_of h (sameDraft_3 hinv h13 h22)

end Inkayaku.SearchSim
