import Inkayaku.Spec.Rays
/-!
Membership in the attack set computed by the ray walk of `Spec.Rays` (item 2 of the C05 plan):
a square is in `scan occ r` iff it occurs on the ray and every ray square before it is empty.
No distinctness assumption on the ray is needed (the first occurrence decides).
-/
namespace Inkayaku.RayWalk
open Inkayaku.Rays

theorem testBit_bit (s t : Nat) : (bit s).testBit t = decide (s = t) := by
  simp [bit, Nat.one_shiftLeft, Nat.testBit_two_pow]

/-- the special case `[s]` of `scan` is an instance of the general equation -/
theorem scan_cons (occ s : Nat) (rest : List Nat) :
    scan occ (s :: rest) = bit s ||| (if occ.testBit s then 0 else scan occ rest) := by
  cases rest with
  | nil => simp [scan]
  | cons a t => rfl

theorem scan_testBit (occ : Nat) (r : List Nat) (t : Nat) :
    (scan occ r).testBit t = true ↔
      ∃ i, r[i]? = some t ∧ ∀ q ∈ r.take i, occ.testBit q = false := by
  induction r with
  | nil => simp [scan]
  | cons s rest ih =>
    rw [scan_cons, Nat.testBit_or, testBit_bit, Bool.or_eq_true, decide_eq_true_eq]
    constructor
    · rintro (h | h)
      · exact ⟨0, by simp [h], by simp⟩
      · by_cases hs : occ.testBit s = true
        · simp [hs] at h
        · simp only [hs, Bool.false_eq_true, if_false] at h
          obtain ⟨i, hi, hfree⟩ := ih.mp h
          refine ⟨i + 1, by simpa using hi, ?_⟩
          intro q hq
          simp only [List.take_succ_cons, List.mem_cons] at hq
          rcases hq with rfl | hq
          · simpa using hs
          · exact hfree q hq
    · rintro ⟨i, hi, hfree⟩
      cases i with
      | zero => left; simpa using hi
      | succ i =>
        right
        have hs : occ.testBit s = false := hfree s (by simp)
        simp only [hs, Bool.false_eq_true, if_false]
        apply ih.mpr
        refine ⟨i, by simpa using hi, ?_⟩
        intro q hq
        exact hfree q (by simp [hq])

theorem foldl_scan_testBit (occ : Nat) (rs : List (List Nat)) (acc t : Nat) :
    (rs.foldl (fun acc r => acc ||| scan occ r) acc).testBit t = true ↔
      acc.testBit t = true ∨ ∃ r ∈ rs, (scan occ r).testBit t = true := by
  induction rs generalizing acc with
  | nil => simp
  | cons r rs ih =>
    rw [List.foldl_cons, ih, Nat.testBit_or, Bool.or_eq_true]
    simp only [List.mem_cons, exists_eq_or_imp]
    exact or_assoc

theorem slideOn_testBit (occ : Nat) (rs : List (List Nat)) (t : Nat) :
    (slideOn occ rs).testBit t = true ↔ ∃ r ∈ rs, (scan occ r).testBit t = true := by
  simp [slideOn, foldl_scan_testBit]

/-- **Slider attack set as a set**: `t` is attacked from `sq` iff it lies on one of the rays and all ray squares
before it are empty -/
theorem slide_testBit (dirs : List Dir) (sq occ t : Nat) :
    (slide dirs sq occ).testBit t = true ↔
      ∃ d ∈ dirs, ∃ i, (ray sq d)[i]? = some t ∧ ∀ q ∈ (ray sq d).take i, occ.testBit q = false := by
  simp only [slide, slideOn_testBit, rays, List.mem_map, scan_testBit]
  constructor
  · rintro ⟨r, ⟨d, hd, rfl⟩, h⟩; exact ⟨d, hd, h⟩
  · rintro ⟨d, hd, h⟩; exact ⟨_, ⟨d, hd, rfl⟩, h⟩

end Inkayaku.RayWalk
