import Inkayaku.Proofs.MakeUnmake
import Inkayaku.Proofs.MoveBits
/-!
# The generator only emits moves that `make`/`unmake` can handle (helper for C03)

`genPseudo_ok : wf b → ∀ m ∈ genPseudo b, FieldsFit m.f ∧ MoveOK b m.f`.

Structure: `mkMove_ok` (what `make_move` needs of its arguments), one lemma per generator loop
(`genAttacks_ok`, `slidingMoves_ok`, `singleMoves_ok`, `promotions_ok`, `pawnAttacks_ok`, `pawnMoves_ok`,
`castleMoves_ok`), each in the form "if every move of `acc` is good, so is every move of the result".
No geometric fact about the attack tables is needed: sources come from the piece word, targets are masked with
`~~~activeOcc`.
-/
namespace Inkayaku.GenOK
open Inkayaku.Board Inkayaku.Gen Inkayaku.WF Inkayaku.MakeUnmake Inkayaku.MoveBits

/-! ## bits -/

theorem u64_eq_iff {a b : UInt64} : a = b ↔ ∀ i, i < 64 → a.toBitVec.getLsbD i = b.toBitVec.getLsbD i :=
  ⟨fun h _ _ => h ▸ rfl, u64_ext⟩

/-- `ubits [hyps] [words]`: closes a goal about UInt64 `&&& ||| ~~~` from the listed hypotheses, bit by bit -/
syntax "ubits" "[" ident,* "]" "[" term,* "]" : tactic
macro_rules
  | `(tactic| ubits [$hs,*] [$xs,*]) => `(tactic| (
      simp only [has, lacks, clearBit, u64_eq_iff, UInt64.toBitVec_and, UInt64.toBitVec_or, UInt64.toBitVec_not,
        BitVec.getLsbD_and, BitVec.getLsbD_or, BitVec.getLsbD_not, UInt64.toBitVec_zero, BitVec.getLsbD_zero,
        beq_iff_eq, bne_iff_ne, ne_eq] at $[$hs]* ⊢
      intro i hi
      $[specialize $hs i hi]*
      revert $hs*
      try simp only [hi, decide_true, Bool.true_and]
      $[all_goals cases ($xs).toBitVec.getLsbD i]*
      all_goals decide))

/-- the same without hypotheses -/
syntax "ubits0" "[" term,* "]" : tactic
macro_rules
  | `(tactic| ubits0 [$xs,*]) => `(tactic| (
      simp only [has, lacks, clearBit, u64_eq_iff, UInt64.toBitVec_and, UInt64.toBitVec_or, UInt64.toBitVec_not,
        BitVec.getLsbD_and, BitVec.getLsbD_or, BitVec.getLsbD_not, UInt64.toBitVec_zero, BitVec.getLsbD_zero,
        beq_iff_eq, bne_iff_ne, ne_eq]
      intro i hi
      try simp only [hi, decide_true, Bool.true_and]
      $[all_goals cases ($xs).toBitVec.getLsbD i]*
      all_goals decide))

theorem nat_and_two_pow (x s : Nat) : x &&& 2^s = (x.testBit s).toNat * 2^s := by
  apply Nat.eq_of_testBit_eq
  intro i
  rw [Nat.testBit_and, Nat.testBit_two_pow]
  by_cases h : s = i
  · subst h; cases hx : x.testBit s <;> simp
  · cases hx : x.testBit s <;> simp [h]

theorem bitU_toNat {s : Nat} (hs : s < 64) : (bitU s).toNat = 2^s := by
  have := toNat_shl 1 s 1 (by decide) (by omega) hs
  simpa [bitU] using this

theorem testU_iff_has {x : UInt64} {s : Nat} (hs : s < 64) : testU x s = true ↔ has x (bitU s) := by
  unfold has testU
  rw [← UInt64.toNat_inj, UInt64.toNat_and, bitU_toNat hs, nat_and_two_pow]
  have := Nat.two_pow_pos s
  cases x.toNat.testBit s <;> simp <;> omega

theorem testU_false_iff_lacks {x : UInt64} {s : Nat} (hs : s < 64) : testU x s = false ↔ lacks x (bitU s) := by
  unfold lacks testU
  rw [← UInt64.toNat_inj, UInt64.toNat_and, bitU_toNat hs, nat_and_two_pow]
  have := Nat.two_pow_pos s
  cases x.toNat.testBit s <;> simp <;> omega

theorem mem_bitsAsc {x : UInt64} {s : Nat} : s ∈ bitsAsc x ↔ s < 64 ∧ testU x s = true := by
  simp [bitsAsc]

/-- a single-bit mask is either contained or disjoint -/
theorem has_of_not_lacks {x : UInt64} {s : Nat} (hs : s < 64) (h : ¬ lacks x (bitU s)) : has x (bitU s) := by
  rw [← testU_iff_has hs]; rw [← testU_false_iff_lacks hs] at h
  cases hx : testU x s <;> simp_all

theorem not_lacks_of_has {x : UInt64} {s : Nat} (hs : s < 64) (h : has x (bitU s)) : ¬ lacks x (bitU s) := by
  rw [← testU_iff_has hs] at h; rw [← testU_false_iff_lacks hs]; simp [h]

/-! ## `pieceAt` -/

theorem pieceAtMask_le (s : Side) (m : UInt64) : s.pieceAtMask m ≤ 6 := by
  unfold Side.pieceAtMask PAWN KNIGHT BISHOP ROOK QUEEN KING NO_PIECE
  repeat' split
  all_goals omega

theorem pieceAt_has (s : Side) {sq : Nat} (hsq : sq < 64) (h : s.pieceAt sq ≠ NO_PIECE) :
    has (s.get (s.pieceAt sq)) (bitU sq) := by
  unfold Side.pieceAt Side.pieceAtMask at h ⊢
  have key : ∀ x : UInt64, (x &&& bitU sq != 0) = true → has x (bitU sq) := by
    intro x hx
    apply has_of_not_lacks hsq
    intro hl; unfold lacks at hl; simp [hl] at hx
  split
  · next h1 => exact key _ h1
  · split
    · next h1 => exact key _ h1
    · split
      · next h1 => exact key _ h1
      · split
        · next h1 => exact key _ h1
        · split
          · next h1 => exact key _ h1
          · split
            · next h1 => exact key _ h1
            · next h1 h2 h3 h4 h5 h6 => simp [h1, h2, h3, h4, h5, h6] at h

theorem pieceAt_pawn (s : Side) {sq : Nat} (hsq : sq < 64) (h : has s.pawns (bitU sq)) : s.pieceAt sq = PAWN := by
  unfold Side.pieceAt Side.pieceAtMask
  have : (s.pawns &&& bitU sq != 0) = true := by
    have := not_lacks_of_has hsq h
    unfold lacks at this
    simpa using this
  simp [this]

/-! ## `make_move` -/

/-- the property every generated move must have -/
def Good (b : Board) (m : Move) : Prop := FieldsFit m.f ∧ MoveOK b m.f

/-- the part of well-formedness that `make_move` itself relies on -/
structure Basic (b : Board) : Prop where
  turn : b.turn ≤ 1
  hm : b.halfmove < 4096
  ep : b.ep < 64

theorem mkMove_ok {b : Board} {nq castle ep : Bool} {src tgt piece promo epOpp : Nat} {m : Move}
    (hb : Basic b) (hs : src < 64) (ht : tgt < 64) (hpc : piece < 8) (hpr : promo < 8) (heo : epOpp < 64)
    (hA : ShapeOK b.active src tgt piece promo castle ep)
    (hE : ep = true → castle = false ∧
      (if b.whiteTurn then tgt + 8 < 64 else 8 ≤ tgt) ∧
      has b.passive.pawns (bitU (if b.whiteTurn then tgt + 8 else tgt - 8)) ∧
      epVictim b.whiteTurn (bitU tgt) = bitU (if b.whiteTurn then tgt + 8 else tgt - 8))
    (h : mkMove b nq src tgt piece castle ep promo epOpp = some m) : Good b m := by
  unfold mkMove at h
  simp only at h
  generalize hsq : (if b.whiteTurn = true then tgt + (if ep = true then 8 else 0)
    else tgt - (if ep = true then 8 else 0)) = asq at h
  by_cases hq : (b.passive.pieceAt asq == NO_PIECE && promo == NO_PIECE && nq) = true
  · rw [if_pos hq] at h; exact absurd h (by simp)
  · rw [if_neg hq] at h
    simp only [Option.some.injEq] at h
    subst h
    have hasq0 : ep = false → asq = tgt := by
      intro h; subst hsq; simp [h]
    have hasq1 : ep = true → asq = (if b.whiteTurn = true then tgt + 8 else tgt - 8) := by
      intro h; subst hsq; simp [h]
    have hasq : asq < 64 := by
      cases hep : ep
      · rw [hasq0 hep]; exact ht
      · rw [hasq1 hep]; have := (hE hep).2.1; split <;> simp_all <;> omega
    have hatt6 : b.passive.pieceAt asq ≤ 6 := pieceAtMask_le b.passive (bitU asq)
    have hatt : b.passive.pieceAt asq < 8 := by omega
    have hfit : FieldsFit
        { pieceMoved := piece, pieceAttacked := b.passive.pieceAt asq,
          selfLostKing := b.active.ks && (src == H1 - (if b.whiteTurn = true then 0 else 56) || src == E1 - (if b.whiteTurn = true then 0 else 56)),
          selfLostQueen := b.active.qs && (src == A1 - (if b.whiteTurn = true then 0 else 56) || src == E1 - (if b.whiteTurn = true then 0 else 56)),
          oppLostKing := !(b.passive.qs && tgt == A8 + (if b.whiteTurn = true then 0 else 56)) && b.passive.ks && tgt == H8 + (if b.whiteTurn = true then 0 else 56),
          oppLostQueen := b.passive.qs && tgt == A8 + (if b.whiteTurn = true then 0 else 56),
          castle := castle, enPassant := ep, source := src, target := tgt,
          halfmoveReset := piece == PAWN || b.passive.pieceAt asq != NO_PIECE,
          prevHalfmove := b.halfmove, prevEp := b.ep, nextEp := epOpp, promotion := promo, side := b.turn } := by
      have := hb.turn; have := hb.hm; have := hb.ep
      unfold FieldsFit; simp only; omega
    unfold Good Move.f
    simp only
    rw [decode_encode hfit]
    refine ⟨hfit, hb.turn, hs, ht, rfl, rfl, ⟨?_, ?_, hA⟩, ?_, ?_, ?_⟩
    · simp only [Bool.and_eq_true]; exact fun h => h.1
    · simp only [Bool.and_eq_true]; exact fun h => h.1
    · simp only [Bool.and_eq_true]; exact fun h => h.1.2
    · simp only [Bool.and_eq_true]; exact fun h => h.1
    · simp only
      cases hcs : castle
      · simp only [Bool.false_eq_true, if_false]
        cases hep : ep
        · simp only [Bool.false_eq_true, if_false]
          have := hasq0 hep
          subst this
          exact ⟨hatt6, fun hne => pieceAt_has _ hasq hne⟩
        · simp only [if_true]
          obtain ⟨-, h1, h2, h3⟩ := hE hep
          rw [h3, ← hasq1 hep] at *
          exact ⟨pieceAt_pawn _ hasq h2, h2⟩
      · simp only [if_true]

/-! ## loops -/

def AllGood (b : Board) (l : List Move) : Prop := ∀ m ∈ l, Good b m

theorem pushOpt_ok {b : Board} {acc : List Move} {o : Option Move} (hacc : AllGood b acc)
    (h : ∀ m, o = some m → Good b m) : AllGood b (pushOpt acc o) := by
  cases o with
  | none => exact hacc
  | some x =>
    intro m hm
    simp only [pushOpt, List.mem_append, List.mem_singleton] at hm
    rcases hm with hm | rfl
    · exact hacc m hm
    · exact h _ rfl

theorem foldl_ok {α : Type} {b : Board} (xs : List α) (step : List Move → α → List Move) (acc : List Move)
    (hstep : ∀ acc x, x ∈ xs → AllGood b acc → AllGood b (step acc x)) (hacc : AllGood b acc) :
    AllGood b (xs.foldl step acc) := by
  induction xs generalizing acc with
  | nil => exact hacc
  | cons x xs ih =>
    simp only [List.foldl_cons]
    exact ih _ (fun a y hy => hstep a y (List.mem_cons_of_mem _ hy)) (hstep _ _ (List.mem_cons_self ..) hacc)

theorem get_sub_full (s : Side) {p : Nat} (h1 : 1 ≤ p) (h6 : p ≤ 6) : has s.full (s.get p) := by
  obtain ⟨o0, a1, a2, a3, a4, a5, a6, qs, ks⟩ := s
  have : p = 1 ∨ p = 2 ∨ p = 3 ∨ p = 4 ∨ p = 5 ∨ p = 6 := by omega
  rcases this with rfl|rfl|rfl|rfl|rfl|rfl <;> simp only [Side.full, Side.get] <;> ubits0 [a1, a2, a3, a4, a5, a6]

/-- a target that is not in `activeOcc` holds no piece of the mover -/
theorem lacks_of_masked {s : Side} {p : Nat} (h1 : 1 ≤ p) (h6 : p ≤ 6) {att : UInt64} {T : UInt64}
    (hT : has (att &&& ~~~s.full) T) : lacks (s.get p) T := by
  have h := get_sub_full s h1 h6
  generalize s.get p = w at *
  generalize s.full = fl at *
  ubits [hT, h] [att, fl, w, T]

theorem genAttacks_ok {b : Board} {nq : Bool} {src piece : Nat} {att : UInt64} {acc : List Move}
    (hb : Basic b) (hs : src < 64) (hp1 : 1 ≤ piece) (hp6 : piece ≤ 6)
    (hS : has (b.active.get piece) (bitU src)) (hacc : AllGood b acc) :
    AllGood b (genAttacks b nq src (att &&& ~~~b.active.full) piece acc) := by
  unfold genAttacks
  apply foldl_ok _ _ _ _ hacc
  intro acc tgt htgt hacc
  rw [mem_bitsAsc] at htgt
  apply pushOpt_ok hacc
  intro m hm
  have hT := (testU_iff_has htgt.1).1 htgt.2
  have hl : lacks (b.active.get piece) (bitU tgt) := lacks_of_masked hp1 hp6 hT
  refine mkMove_ok hb hs htgt.1 (by omega) (by decide) (by decide) ?_ (by simp) hm
  simp only [ShapeOK, NO_PIECE, Bool.false_eq_true, if_false, bne_self_eq_false]
  exact ⟨hp1, hp6, hS, hl⟩

theorem slidingMoves_ok {b : Board} {nq rook : Bool} {piece : Nat} {fullOcc : UInt64} {acc : List Move}
    (hb : Basic b) (hp1 : 1 ≤ piece) (hp6 : piece ≤ 6) (hacc : AllGood b acc) :
    AllGood b (slidingMoves b nq (b.active.get piece) b.active.full fullOcc rook piece acc) := by
  unfold slidingMoves
  apply foldl_ok _ _ _ _ hacc
  intro acc src hsrc hacc
  rw [mem_bitsAsc] at hsrc
  exact genAttacks_ok hb hsrc.1 hp1 hp6 ((testU_iff_has hsrc.1).1 hsrc.2) hacc

theorem singleMoves_ok {b : Board} {nq : Bool} {piece : Nat} {tbl : List Nat} {acc : List Move}
    (hb : Basic b) (hp1 : 1 ≤ piece) (hp6 : piece ≤ 6) (hacc : AllGood b acc) :
    AllGood b (singleMoves b nq (b.active.get piece) b.active.full tbl piece acc) := by
  unfold singleMoves
  apply foldl_ok _ _ _ _ hacc
  intro acc src hsrc hacc
  rw [mem_bitsAsc] at hsrc
  exact genAttacks_ok hb hsrc.1 hp1 hp6 ((testU_iff_has hsrc.1).1 hsrc.2) hacc

/-! ## what the generator uses of well-formedness -/

structure WFacts (b : Board) : Prop where
  basic : Basic b
  pawnRanks : lacks (b.white.pawns ||| b.black.pawns) rank18U
  epOK : b.ep ≠ 0 →
    if b.turn = 0 then b.ep / 8 = 2 ∧ testU b.black.pawns (b.ep + 8) = true
    else b.ep / 8 = 5 ∧ testU b.white.pawns (b.ep - 8) = true
  wks : b.white.ks = true → testU b.white.kings E1 = true ∧ testU b.white.rooks H1 = true
  wqs : b.white.qs = true → testU b.white.kings E1 = true ∧ testU b.white.rooks A1 = true
  bks : b.black.ks = true → testU b.black.kings E8 = true ∧ testU b.black.rooks H8 = true
  bqs : b.black.qs = true → testU b.black.kings E8 = true ∧ testU b.black.rooks A8 = true

theorem wf_facts {b : Board} (h : wf b = true) : WFacts b := by
  unfold wf at h
  simp only [Bool.and_eq_true, Bool.or_eq_true, Bool.not_eq_true', decide_eq_true_eq, beq_iff_eq] at h
  obtain ⟨⟨⟨⟨⟨⟨⟨⟨⟨⟨⟨⟨⟨-, -⟩, -⟩, c4⟩, c5⟩, -⟩, c7⟩, c8⟩, c9⟩, c10⟩, c11⟩, -⟩, -⟩, c14⟩ := h
  refine ⟨⟨c5, by omega, ?_⟩, c4, ?_, ?_, ?_, ?_, ?_⟩
  · rcases c11 with c11 | c11
    · omega
    · split at c11 <;> simp only [Bool.and_eq_true, beq_iff_eq] at c11 <;> omega
  · intro hne
    rcases c11 with c11 | c11
    · exact absurd c11 hne
    · split at c11
      · next ht => rw [if_pos ht]; simp only [Bool.and_eq_true, beq_iff_eq] at c11; exact ⟨c11.1.1.1, c11.1.1.2⟩
      · next ht => rw [if_neg ht]; simp only [Bool.and_eq_true, beq_iff_eq] at c11; exact ⟨c11.1.1.1, c11.1.1.2⟩
  · intro hk; rcases c7 with c | c
    · rw [hk] at c; exact absurd c (by decide)
    · exact c
  · intro hk; rcases c8 with c | c
    · rw [hk] at c; exact absurd c (by decide)
    · exact c
  · intro hk; rcases c9 with c | c
    · rw [hk] at c; exact absurd c (by decide)
    · exact c
  · intro hk; rcases c10 with c | c
    · rw [hk] at c; exact absurd c (by decide)
    · exact c

/-! ## pawns -/

theorem promotions_ok {b : Board} {src tgt : Nat} {acc : List Move} (hb : Basic b) (hs : src < 64) (ht : tgt < 64)
    (hS : has b.active.pawns (bitU src)) (hT : ∀ p, 1 ≤ p → p ≤ 6 → lacks (b.active.get p) (bitU tgt))
    (hacc : AllGood b acc) : AllGood b (promotions b src tgt acc) := by
  unfold promotions
  apply foldl_ok _ _ _ _ hacc
  intro acc p hp hacc
  apply pushOpt_ok hacc
  intro m hm
  have hp' : p = 5 ∨ p = 4 ∨ p = 3 ∨ p = 2 := by simpa [QUEEN, ROOK, BISHOP, KNIGHT] using hp
  refine mkMove_ok hb hs ht (by decide) (by omega) (by decide) ?_ (by simp) hm
  have hne : (p != NO_PIECE) = true := by rcases hp' with rfl|rfl|rfl|rfl <;> decide
  simp only [ShapeOK, Bool.false_eq_true, if_false, hne, if_true]
  exact ⟨by omega, by omega, hS, hT p (by omega) (by omega)⟩

theorem shl8 : ∀ t, t < 56 → bitU t <<< 8 = bitU (t + 8) := by decide
theorem shr8 : ∀ t, t < 64 → 8 ≤ t → bitU t >>> 8 = bitU (t - 8) := by decide
theorem tz_bitU : ∀ t, t < 64 → trailingZeros (bitU t) = t := by decide
theorem mid_of_r18 : ∀ t, t < 64 → bitU t &&& rank18U = 0 → 8 ≤ t ∧ t < 56 := by decide
theorem of_rank2 : ∀ t, t < 64 → (bitU t &&& rank2.toUInt64 != 0) = true → 48 ≤ t := by decide
theorem of_rank7 : ∀ t, t < 64 → (bitU t &&& rank7.toUInt64 != 0) = true → t < 16 := by decide
theorem mid_of_not_r18 : ∀ t, t < 64 →
    (bitU t &&& rank8.toUInt64 != 0 || bitU t &&& rank1.toUInt64 != 0) = false → 8 ≤ t ∧ t < 56 := by decide

/-- a pawn of a well-formed board stands on ranks 2..7 -/
theorem pawn_mid {b : Board} (hw : WFacts b) {src : Nat} (hs : src < 64) (hS : has b.active.pawns (bitU src)) :
    8 ≤ src ∧ src < 56 := by
  apply mid_of_r18 src hs
  have h := hw.pawnRanks
  unfold Board.active at hS
  split at hS <;>
  ( generalize rank18U = r at *
    generalize bitU src = S at *
    generalize b.white.pawns = wp at *
    generalize b.black.pawns = bp at *
    ubits [hS, h] [wp, bp, S, r])

theorem pawnAttacks_ok {b : Board} {passiveOcc : UInt64} {acc : List Move} (hw : WFacts b)
    (hacc : AllGood b acc) : AllGood b (pawnAttacks b b.active.pawns b.active.full passiveOcc acc) := by
  have hb := hw.basic
  unfold pawnAttacks
  apply foldl_ok _ _ _ _ hacc
  intro acc src hsrc hacc
  rw [mem_bitsAsc] at hsrc
  have hS : has b.active.pawns (bitU src) := (testU_iff_has hsrc.1).1 hsrc.2
  simp only
  apply foldl_ok _ _ _ _ hacc
  intro acc tgt htgt hacc
  rw [mem_bitsAsc] at htgt
  have hT := (testU_iff_has htgt.1).1 htgt.2
  have hl : ∀ p, 1 ≤ p → p ≤ 6 → lacks (b.active.get p) (bitU tgt) := fun p h1 h6 => lacks_of_masked h1 h6 hT
  cases hc : (bitU tgt &&& rank8.toUInt64 != 0 || bitU tgt &&& rank1.toUInt64 != 0)
  · simp only [Bool.false_eq_true, if_false]
    have hmid := mid_of_not_r18 tgt htgt.1 hc
    apply pushOpt_ok hacc
    intro m hm
    cases he : (tgt == b.ep)
    · rw [he] at hm
      refine mkMove_ok hb hsrc.1 htgt.1 (by decide) (by decide) (by decide) ?_ (by simp) hm
      simp only [ShapeOK, NO_PIECE, Bool.false_eq_true, if_false, bne_self_eq_false]
      exact ⟨by decide, by decide, hS, hl PAWN (by decide) (by decide)⟩
    · rw [he] at hm
      have hte : tgt = b.ep := by simpa using he
      have hep := hw.epOK (by omega)
      refine mkMove_ok hb hsrc.1 htgt.1 (by decide) (by decide) (by decide) ?_ ?_ hm
      · simp only [ShapeOK, Bool.false_eq_true, if_false, if_true]
        exact ⟨hS, hl PAWN (by decide) (by decide)⟩
      · intro _
        refine ⟨rfl, ?_⟩
        by_cases ht0 : b.turn = 0
        · have hwt : b.whiteTurn = true := by simp [Board.whiteTurn, ht0]
          rw [if_pos ht0] at hep
          simp only [hwt, if_true, Board.passive, epVictim]
          refine ⟨by omega, ?_, shl8 tgt hmid.2⟩
          rw [hte]; exact (testU_iff_has (by omega)).1 hep.2
        · have hwt : b.whiteTurn = false := by simp [Board.whiteTurn, ht0]
          rw [if_neg ht0] at hep
          simp only [hwt, Bool.false_eq_true, if_false, Board.passive, epVictim]
          refine ⟨by omega, ?_, shr8 tgt htgt.1 hmid.1⟩
          rw [hte]; exact (testU_iff_has (by omega)).1 hep.2
  · simp only [if_true]
    exact promotions_ok hb hsrc.1 htgt.1 hS hl hacc

/-- a square that is empty holds no piece of the mover -/
theorem lacks_of_empty {s : Side} {other T : UInt64} (h : (T &&& (s.full ||| other) == 0) = true) :
    ∀ p, 1 ≤ p → p ≤ 6 → lacks (s.get p) T := by
  intro p h1 h6
  have hg := get_sub_full s h1 h6
  generalize s.get p = w at *
  generalize s.full = fl at *
  ubits [h, hg] [T, fl, other, w]

theorem pawnMoves_ok {b : Board} {nq : Bool} {acc : List Move} (hw : WFacts b) (hacc : AllGood b acc) :
    AllGood b (pawnMoves b nq b.active.pawns (b.active.full ||| b.passive.full) acc) := by
  have hb := hw.basic
  unfold pawnMoves
  apply foldl_ok _ _ _ _ hacc
  intro acc src hsrc hacc
  rw [mem_bitsAsc] at hsrc
  have hs := hsrc.1
  have hS : has b.active.pawns (bitU src) := (testU_iff_has hsrc.1).1 hsrc.2
  have hmid := pawn_mid hw hs hS
  have normal : ∀ tgt, lacks (b.active.get PAWN) (bitU tgt) → ShapeOK b.active src tgt PAWN NO_PIECE false false := by
    intro tgt hl
    simp only [ShapeOK, NO_PIECE, Bool.false_eq_true, if_false, bne_self_eq_false]
    exact ⟨by decide, by decide, hS, hl⟩
  simp only
  cases hwt : b.whiteTurn
  · -- black: pawns move towards higher square numbers
    simp only [Bool.false_eq_true, if_false]
    rw [shl8 src hmid.2, tz_bitU (src + 8) (by omega)]
    split
    · next hfree =>
      have hl := lacks_of_empty hfree
      split
      · have h1 : AllGood b (pushOpt acc (mkMove b nq src (src + 8) PAWN false false NO_PIECE 0)) :=
          pushOpt_ok hacc (fun m hm => mkMove_ok hb hs (by omega) (by decide) (by decide) (by decide)
            (normal _ (hl PAWN (by decide) (by decide))) (by simp) hm)
        split
        · next hd =>
          simp only [Bool.and_eq_true] at hd
          have h16 := of_rank7 src hs hd.1
          have hd2 := hd.2
          rw [shl8 (src + 8) (by omega)] at hd2 ⊢
          rw [tz_bitU (src + 8 + 8) (by omega)]
          exact pushOpt_ok h1 (fun m hm => mkMove_ok hb hs (by omega) (by decide) (by decide) (by omega)
            (normal _ (lacks_of_empty hd2 PAWN (by decide) (by decide))) (by simp) hm)
        · exact h1
      · exact promotions_ok hb hs (by omega) hS hl hacc
    · exact hacc
  · -- white: pawns move towards lower square numbers
    simp only [if_true]
    rw [shr8 src hs hmid.1, tz_bitU (src - 8) (by omega)]
    split
    · next hfree =>
      have hl := lacks_of_empty hfree
      split
      · have h1 : AllGood b (pushOpt acc (mkMove b nq src (src - 8) PAWN false false NO_PIECE 0)) :=
          pushOpt_ok hacc (fun m hm => mkMove_ok hb hs (by omega) (by decide) (by decide) (by decide)
            (normal _ (hl PAWN (by decide) (by decide))) (by simp) hm)
        split
        · next hd =>
          simp only [Bool.and_eq_true] at hd
          have h48 := of_rank2 src hs hd.1
          have hd2 := hd.2
          rw [shr8 (src - 8) (by omega) (by omega)] at hd2 ⊢
          rw [tz_bitU (src - 8 - 8) (by omega)]
          exact pushOpt_ok h1 (fun m hm => mkMove_ok hb hs (by omega) (by decide) (by decide) (by omega)
            (normal _ (lacks_of_empty hd2 PAWN (by decide) (by decide))) (by simp) hm)
        · exact h1
      · exact promotions_ok hb hs (by omega) hS hl hacc
    · exact hacc

/-! ## castling -/

theorem castle_push_ok {b : Board} {src tgt : Nat} {acc : List Move} (hb : Basic b) (hs : src < 64) (ht : tgt < 64)
    (hc : CastleOK b.active (bitU src) (bitU tgt) (castleRook tgt)) (hacc : AllGood b acc) :
    AllGood b (pushOpt acc (mkMove b false src tgt KING true false NO_PIECE 0)) := by
  apply pushOpt_ok hacc
  intro m hm
  refine mkMove_ok hb hs ht (by decide) (by decide) (by decide) ?_ (by simp) hm
  simp only [ShapeOK, if_true]
  exact hc

theorem lacks_of_castle_empty {s : Side} {other mask T : UInt64}
    (h : ((s.full ||| other) &&& mask == 0) = true) (hm : has mask T) :
    ∀ p, 1 ≤ p → p ≤ 6 → lacks (s.get p) T := by
  intro p h1 h6
  have hg := get_sub_full s h1 h6
  generalize s.get p = w at *
  generalize s.full = fl at *
  ubits [h, hm, hg] [T, fl, other, w, mask]

theorem castleMoves_ok {b : Board} {acc : List Move} (hw : WFacts b) (hacc : AllGood b acc) :
    AllGood b (castleMoves b (b.active.full ||| b.passive.full) acc) := by
  have hb := hw.basic
  unfold castleMoves
  simp only
  cases hwt : b.whiteTurn
  · have hact : b.active = b.black := by simp [Board.active, hwt]
    simp only [Bool.false_eq_true, if_false]
    have h1 : AllGood b (if (b.black.qs && (b.active.full ||| b.passive.full) &&& blackQueenSideCastleEmpty.toUInt64 == 0
        && !occupancyInCheck 1 b.white (b.active.full ||| b.passive.full) blackQueenSideCastleCheck.toUInt64) = true
        then pushOpt acc (mkMove b false E8 C8 KING true false NO_PIECE 0) else acc) := by
      split
      · next hc =>
        simp only [Bool.and_eq_true] at hc
        obtain ⟨⟨hq, he⟩, -⟩ := hc
        have hk := hw.bqs hq
        have hl := fun T => lacks_of_castle_empty (s := b.active) (T := T) he
        refine castle_push_ok hb (by decide) (by decide) ?_ hacc
        rw [hact] at hl ⊢
        exact ⟨(testU_iff_has (by decide)).1 hk.1, hl (bitU C8) (by decide) KING (by decide) (by decide),
          (testU_iff_has (by decide)).1 hk.2, hl (bitU D8) (by decide) ROOK (by decide) (by decide)⟩
      · exact hacc
    split
    · next hc =>
      simp only [Bool.and_eq_true] at hc
      obtain ⟨⟨hq, he⟩, -⟩ := hc
      have hk := hw.bks hq
      have hl := fun T => lacks_of_castle_empty (s := b.active) (T := T) he
      refine castle_push_ok hb (by decide) (by decide) ?_ h1
      rw [hact] at hl ⊢
      exact ⟨(testU_iff_has (by decide)).1 hk.1, hl (bitU G8) (by decide) KING (by decide) (by decide),
        (testU_iff_has (by decide)).1 hk.2, hl (bitU F8) (by decide) ROOK (by decide) (by decide)⟩
    · exact h1
  · have hact : b.active = b.white := by simp [Board.active, hwt]
    simp only [if_true]
    have h1 : AllGood b (if (b.white.qs && (b.active.full ||| b.passive.full) &&& whiteQueenSideCastleEmpty.toUInt64 == 0
        && !occupancyInCheck 0 b.black (b.active.full ||| b.passive.full) whiteQueenSideCastleCheck.toUInt64) = true
        then pushOpt acc (mkMove b false E1 C1 KING true false NO_PIECE 0) else acc) := by
      split
      · next hc =>
        simp only [Bool.and_eq_true] at hc
        obtain ⟨⟨hq, he⟩, -⟩ := hc
        have hk := hw.wqs hq
        have hl := fun T => lacks_of_castle_empty (s := b.active) (T := T) he
        refine castle_push_ok hb (by decide) (by decide) ?_ hacc
        rw [hact] at hl ⊢
        exact ⟨(testU_iff_has (by decide)).1 hk.1, hl (bitU C1) (by decide) KING (by decide) (by decide),
          (testU_iff_has (by decide)).1 hk.2, hl (bitU D1) (by decide) ROOK (by decide) (by decide)⟩
      · exact hacc
    split
    · next hc =>
      simp only [Bool.and_eq_true] at hc
      obtain ⟨⟨hq, he⟩, -⟩ := hc
      have hk := hw.wks hq
      have hl := fun T => lacks_of_castle_empty (s := b.active) (T := T) he
      refine castle_push_ok hb (by decide) (by decide) ?_ h1
      rw [hact] at hl ⊢
      exact ⟨(testU_iff_has (by decide)).1 hk.1, hl (bitU G1) (by decide) KING (by decide) (by decide),
        (testU_iff_has (by decide)).1 hk.2, hl (bitU F1) (by decide) ROOK (by decide) (by decide)⟩
    · exact h1

/-! ## the whole generator -/

theorem allGood_nil (b : Board) : AllGood b [] := fun _ h => absurd h List.not_mem_nil

/-- **the generator only emits moves whose fields fit the packed word and that `make`/`unmake` can handle** —
all piece kinds, captures, promotions, en passant, double steps and castling -/
theorem genPseudo_ok {b : Board} (h : wf b = true) : ∀ m ∈ genPseudo b, FieldsFit m.f ∧ MoveOK b m.f := by
  have hw := wf_facts h
  have hb := hw.basic
  unfold genPseudo
  simp only
  have a1 : AllGood b _ := slidingMoves_ok (nq := false) (rook := true) (piece := QUEEN)
    (fullOcc := b.active.full ||| b.passive.full) hb (by decide) (by decide) (allGood_nil b)
  have a2 : AllGood b _ := slidingMoves_ok (nq := false) (rook := false) (piece := QUEEN)
    (fullOcc := b.active.full ||| b.passive.full) hb (by decide) (by decide) a1
  have a3 : AllGood b _ := slidingMoves_ok (nq := false) (rook := false) (piece := BISHOP)
    (fullOcc := b.active.full ||| b.passive.full) hb (by decide) (by decide) a2
  have a4 : AllGood b _ := slidingMoves_ok (nq := false) (rook := true) (piece := ROOK)
    (fullOcc := b.active.full ||| b.passive.full) hb (by decide) (by decide) a3
  have a5 : AllGood b _ := singleMoves_ok (nq := false) (piece := KNIGHT) (tbl := knightTable)
    hb (by decide) (by decide) a4
  have a6 : AllGood b _ := singleMoves_ok (nq := false) (piece := KING) (tbl := kingTable)
    hb (by decide) (by decide) a5
  have a7 : AllGood b _ := pawnAttacks_ok (passiveOcc := b.passive.full) hw a6
  have a8 : AllGood b _ := pawnMoves_ok (nq := false) hw a7
  exact castleMoves_ok hw a8

/-- the same for the capture/promotion-only generator of the quiescence search -/
theorem genNonQuiescent_ok {b : Board} (h : wf b = true) :
    ∀ m ∈ genNonQuiescent b, FieldsFit m.f ∧ MoveOK b m.f := by
  have hw := wf_facts h
  have hb := hw.basic
  unfold genNonQuiescent
  simp only
  have a1 : AllGood b _ := slidingMoves_ok (nq := true) (rook := true) (piece := QUEEN)
    (fullOcc := b.active.full ||| b.passive.full) hb (by decide) (by decide) (allGood_nil b)
  have a2 : AllGood b _ := slidingMoves_ok (nq := true) (rook := false) (piece := QUEEN)
    (fullOcc := b.active.full ||| b.passive.full) hb (by decide) (by decide) a1
  have a3 : AllGood b _ := slidingMoves_ok (nq := true) (rook := false) (piece := BISHOP)
    (fullOcc := b.active.full ||| b.passive.full) hb (by decide) (by decide) a2
  have a4 : AllGood b _ := slidingMoves_ok (nq := true) (rook := true) (piece := ROOK)
    (fullOcc := b.active.full ||| b.passive.full) hb (by decide) (by decide) a3
  have a5 : AllGood b _ := singleMoves_ok (nq := true) (piece := KNIGHT) (tbl := knightTable)
    hb (by decide) (by decide) a4
  have a6 : AllGood b _ := singleMoves_ok (nq := true) (piece := KING) (tbl := kingTable)
    hb (by decide) (by decide) a5
  have a7 : AllGood b _ := pawnAttacks_ok (passiveOcc := b.passive.full) hw a6
  exact pawnMoves_ok (nq := true) hw a7

#print axioms genPseudo_ok
#print axioms genNonQuiescent_ok

end Inkayaku.GenOK
