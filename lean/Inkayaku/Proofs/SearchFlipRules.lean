import Inkayaku.Proofs.SearchFlipSpec
/-!
# C11 (search half), part 2: pseudo-legal moves and the successor commute with the colour flip (mailbox Spec)

`pawnMoves_flip`, `castleMoves_flip`, `pseudoMoves_flip`, `isCapture_flip`, `apply_flip`.
-/
namespace Inkayaku.SearchFlip
open Inkayaku.Spec Inkayaku.Geometry

/-! ## pawn moves, piece by piece -/

def wp (s : Nat) (lastRow : Int) (t : Nat) : List SMove :=
  if rowOf t == lastRow then promoKinds.map fun k => ⟨s, t, some k⟩ else [⟨s, t, none⟩]

def pushesL (p : Pos) (white : Bool) (s : Nat) : List SMove :=
  let dir : Int := if white then -1 else 1
  let startRow : Int := if white then 6 else 1
  let lastRow : Int := if white then 0 else 7
  let f := fileOf s
  let r := rowOf s
  if inside f (r + dir) && (p.at (mkSq f (r + dir))).isNone then
    wp s lastRow (mkSq f (r + dir)) ++
      (if r == startRow && (p.at (mkSq f (r + 2 * dir))).isNone then [⟨s, mkSq f (r + 2 * dir), none⟩] else [])
  else []

def capL (p : Pos) (white : Bool) (s : Nat) (df : Int) : List SMove :=
  let dir : Int := if white then -1 else 1
  let lastRow : Int := if white then 0 else 7
  let f := fileOf s
  let r := rowOf s
  if inside (f + df) (r + dir) then
    let t := mkSq (f + df) (r + dir)
    match p.at t with
    | some victim => if victim.white != white then wp s lastRow t else []
    | none => if p.ep == some t then [⟨s, t, none⟩] else []
  else []

theorem pawnMoves_eq (p : Pos) (white : Bool) (s : Nat) :
    pawnMoves p white s = pushesL p white s ++ (capL p white s (-1) ++ (capL p white s 1 ++ [])) := rfl


/-- the same with the direction, start row and last row as parameters -/
def pushesG (p : Pos) (s : Nat) (dir startRow lastRow : Int) : List SMove :=
  let f := fileOf s
  let r := rowOf s
  if inside f (r + dir) && (p.at (mkSq f (r + dir))).isNone then
    wp s lastRow (mkSq f (r + dir)) ++
      (if r == startRow && (p.at (mkSq f (r + 2 * dir))).isNone then [⟨s, mkSq f (r + 2 * dir), none⟩] else [])
  else []

def capG (p : Pos) (s : Nat) (white : Bool) (dir lastRow df : Int) : List SMove :=
  let f := fileOf s
  let r := rowOf s
  if inside (f + df) (r + dir) then
    let t := mkSq (f + df) (r + dir)
    match p.at t with
    | some victim => if victim.white != white then wp s lastRow t else []
    | none => if p.ep == some t then [⟨s, t, none⟩] else []
  else []

def pdir (white : Bool) : Int := if white then -1 else 1
def pstart (white : Bool) : Int := if white then 6 else 1
def plast (white : Bool) : Int := if white then 0 else 7

theorem pushesL_eq (p : Pos) (white : Bool) (s : Nat) :
    pushesL p white s = pushesG p s (pdir white) (pstart white) (plast white) := rfl
theorem capL_eq (p : Pos) (white : Bool) (s : Nat) (df : Int) :
    capL p white s df = capG p s white (pdir white) (plast white) df := rfl

theorem pdir_not (w : Bool) : pdir (!w) = - pdir w := by cases w <;> rfl
theorem pstart_not (w : Bool) : pstart (!w) = 7 - pstart w := by cases w <;> rfl
theorem plast_not (w : Bool) : plast (!w) = 7 - plast w := by cases w <;> rfl

theorem inside_mir (f x : Int) : inside f (7 - x) = inside f x := by
  rw [Bool.eq_iff_iff, inside_iff, inside_iff]; omega

theorem wp_flip (s : Nat) (lastRow : Int) {t : Nat} (ht : t < 64) :
    wp (mir s) (7 - lastRow) (mir t) = (wp s lastRow t).map flipSM := by
  unfold wp
  rw [rowOf_mir ht]
  have e : (7 - rowOf t == 7 - lastRow) = (rowOf t == lastRow) := by
    rw [Bool.eq_iff_iff, beq_iff_eq, beq_iff_eq]; omega
  rw [e]
  split
  · simp [promoKinds, flipSM]
  · simp [flipSM]

theorem pushesG_flip {p p' : Pos} (h : SFlip p p') {s : Nat} (hs : s < 64) (dir startRow lastRow : Int)
    (hstart : 0 ≤ startRow + 2 * dir ∧ startRow + 2 * dir < 8) :
    pushesG p' (mir s) (-dir) (7 - startRow) (7 - lastRow) = (pushesG p s dir startRow lastRow).map flipSM := by
  unfold pushesG
  simp only [fileOf_mir hs, rowOf_mir hs]
  have hf := fileOf_bounds s
  have hr := rowOf_bounds hs
  have e1 : 7 - rowOf s + -dir = 7 - (rowOf s + dir) := by omega
  have e2 : 7 - rowOf s + 2 * -dir = 7 - (rowOf s + 2 * dir) := by omega
  have e3 : (7 - rowOf s == 7 - startRow) = (rowOf s == startRow) := by
    rw [Bool.eq_iff_iff, beq_iff_eq, beq_iff_eq]; omega
  rw [e1, e2, e3, inside_mir]
  by_cases hin : inside (fileOf s) (rowOf s + dir) = true
  · have hin' := (inside_iff _ _).mp hin
    have hq := mkSq_lt hin'.1 hin'.2
    rw [mkSq_mir hin'.1 hin'.2, h.isNone hq]
    by_cases hc : (inside (fileOf s) (rowOf s + dir) && (p.at (mkSq (fileOf s) (rowOf s + dir))).isNone) = true
    · rw [if_pos hc, if_pos hc, List.map_append, wp_flip s lastRow hq]
      congr 1
      by_cases hst : rowOf s = startRow
      · have hb2 : 0 ≤ rowOf s + 2 * dir ∧ rowOf s + 2 * dir < 8 := by omega
        have hq2 := mkSq_lt hf hb2
        rw [mkSq_mir hf hb2, h.isNone hq2]
        split
        · simp [flipSM]
        · rfl
      · have hb : (rowOf s == startRow) = false := by simpa using hst
        rw [hb]
        simp
    · rw [if_neg hc, if_neg hc]; rfl
  · have hin2 : inside (fileOf s) (rowOf s + dir) = false := by simpa using hin
    rw [hin2]
    simp

theorem capG_flip {p p' : Pos} (h : SFlip p p') {s : Nat} (hs : s < 64) (w : Bool) (dir lastRow df : Int) :
    capG p' (mir s) (!w) (-dir) (7 - lastRow) df = (capG p s w dir lastRow df).map flipSM := by
  unfold capG
  simp only [fileOf_mir hs, rowOf_mir hs]
  have e1 : 7 - rowOf s + -dir = 7 - (rowOf s + dir) := by omega
  rw [e1, inside_mir]
  by_cases hin : inside (fileOf s + df) (rowOf s + dir) = true
  · have hin' := (inside_iff _ _).mp hin
    have hq := mkSq_lt hin'.1 hin'.2
    rw [if_pos hin, if_pos hin, mkSq_mir hin'.1 hin'.2]
    rw [h.at_ _ hq, h.ep_beq hq]
    cases hp : p.at (mkSq (fileOf s + df) (rowOf s + dir)) with
    | none =>
      simp only [Option.map_none]
      split
      · simp [flipSM]
      · rfl
    | some victim =>
      simp only [Option.map_some, recolor]
      have e : ((!victim.white) != !w) = (victim.white != w) := by cases victim.white <;> cases w <;> rfl
      rw [e]
      split
      · exact wp_flip s lastRow hq
      · rfl
  · rw [if_neg hin, if_neg hin]; rfl

theorem pawnMoves_flip {p p' : Pos} (h : SFlip p p') {s : Nat} (hs : s < 64) (w : Bool) :
    pawnMoves p' (!w) (mir s) = (pawnMoves p w s).map flipSM := by
  rw [pawnMoves_eq, pawnMoves_eq, pushesL_eq, pushesL_eq, capL_eq, capL_eq, capL_eq, capL_eq, pdir_not, pstart_not,
    plast_not, pushesG_flip h hs _ _ _ (by cases w <;> decide), capG_flip h hs, capG_flip h hs]
  simp only [List.map_append, List.map_nil]

/-! ## castling -/

def castleRight (p : Pos) (white kingSide : Bool) : Bool :=
  match white, kingSide with
  | true, true => p.wk | true, false => p.wq | false, true => p.bk | false, false => p.bq

def castleOpt (p : Pos) (white kingSide : Bool) : Option SMove :=
  let right := castleRight p white kingSide
  let (ks, kt, rs, _) := castleSquares white kingSide
  let crossing := (ks + kt) / 2
  if right && p.at ks == some ⟨white, .king⟩ && p.at rs == some ⟨white, .rook⟩ && clearBetween p ks rs
      && !attacked p (!white) ks && !attacked p (!white) crossing && !attacked p (!white) kt
  then some ⟨ks, kt, none⟩ else none

theorem castleMoves_eq (p : Pos) (white : Bool) : castleMoves p white = [true, false].filterMap (castleOpt p white) := rfl

theorem castleRight_flip {p p' : Pos} (h : SFlip p p') (w ks : Bool) : castleRight p' (!w) ks = castleRight p w ks := by
  cases w <;> cases ks <;> simp [castleRight, h.wk, h.wq, h.bk, h.bq]

theorem castleOpt_flip {p p' : Pos} (h : SFlip p p') (w ks : Bool) :
    castleOpt p' (!w) ks = (castleOpt p w ks).map flipSM := by
  have hat : ∀ s, s < 64 → ∀ k, (p'.at (mir s) == some ⟨!w, k⟩) = (p.at s == some ⟨w, k⟩) := by
    intro s hs k
    rw [h.at_ s hs, map_recolor_beq]
  have hatt : ∀ s, s < 64 → attacked p' (!(!w)) (mir s) = attacked p (!w) s := fun s hs => attacked_flip h (!w) hs
  have hcb : ∀ a b, a < 64 → b < 64 → rookLine a b = true → clearBetween p' (mir a) (mir b) = clearBetween p a b :=
    fun a b ha hb hl => clearBetween_flip h ha hb (by rw [hl]; rfl)
  unfold castleOpt
  rw [castleRight_flip h]
  cases w <;> cases ks
  · -- black queen side ↦ white queen side
    simp only [castleSquares, Bool.not_false, Bool.not_true]
    have := hat 4 (by decide) .king
    have := hat 0 (by decide) .rook
    have := hcb 4 0 (by decide) (by decide) (by decide)
    have := hatt 4 (by decide)
    have := hatt 3 (by decide)
    have := hatt 2 (by decide)
    simp only [show mir 4 = 60 from by decide, show mir 0 = 56 from by decide, show mir 3 = 59 from by decide,
      show mir 2 = 58 from by decide, Bool.not_false, Bool.not_true] at *
    simp only [show (60 + 58) / 2 = 59 from rfl, show (4 + 2) / 2 = 3 from rfl, *]
    split <;> rfl
  · simp only [castleSquares, Bool.not_false, Bool.not_true]
    have := hat 4 (by decide) .king
    have := hat 7 (by decide) .rook
    have := hcb 4 7 (by decide) (by decide) (by decide)
    have := hatt 4 (by decide)
    have := hatt 5 (by decide)
    have := hatt 6 (by decide)
    simp only [show mir 4 = 60 from by decide, show mir 7 = 63 from by decide, show mir 5 = 61 from by decide,
      show mir 6 = 62 from by decide, Bool.not_false, Bool.not_true] at *
    simp only [show (60 + 62) / 2 = 61 from rfl, show (4 + 6) / 2 = 5 from rfl, *]
    split <;> rfl
  · simp only [castleSquares, Bool.not_false, Bool.not_true]
    have := hat 60 (by decide) .king
    have := hat 56 (by decide) .rook
    have := hcb 60 56 (by decide) (by decide) (by decide)
    have := hatt 60 (by decide)
    have := hatt 59 (by decide)
    have := hatt 58 (by decide)
    simp only [show mir 60 = 4 from by decide, show mir 56 = 0 from by decide, show mir 59 = 3 from by decide,
      show mir 58 = 2 from by decide, Bool.not_false, Bool.not_true] at *
    simp only [show (60 + 58) / 2 = 59 from rfl, show (4 + 2) / 2 = 3 from rfl, *]
    split <;> rfl
  · simp only [castleSquares, Bool.not_false, Bool.not_true]
    have := hat 60 (by decide) .king
    have := hat 63 (by decide) .rook
    have := hcb 60 63 (by decide) (by decide) (by decide)
    have := hatt 60 (by decide)
    have := hatt 61 (by decide)
    have := hatt 62 (by decide)
    simp only [show mir 60 = 4 from by decide, show mir 63 = 7 from by decide, show mir 61 = 5 from by decide,
      show mir 62 = 6 from by decide, Bool.not_false, Bool.not_true] at *
    simp only [show (60 + 62) / 2 = 61 from rfl, show (4 + 6) / 2 = 5 from rfl, *]
    split <;> rfl

theorem castleMoves_flip {p p' : Pos} (h : SFlip p p') (w : Bool) :
    castleMoves p' (!w) = (castleMoves p w).map flipSM := by
  rw [castleMoves_eq, castleMoves_eq, List.map_filterMap]
  have e : ∀ ks, castleOpt p' (!w) ks = Option.map flipSM (castleOpt p w ks) := fun ks => castleOpt_flip h w ks
  simp only [List.filterMap_cons, List.filterMap_nil, e]

/-! ## all pseudo-legal moves -/

def targetOK (p : Pos) (white : Bool) (t : Nat) : Bool :=
  match p.at t with | some o => o.white != white | none => true

def pieceMoves (p : Pos) (white : Bool) (s : Nat) : List SMove :=
  match p.at s with
  | some pc =>
    if pc.white != white then []
    else if pc.kind == .pawn then pawnMoves p white s
    else (List.range 64).filterMap fun t =>
      if attacksGeom p pc.kind white s t && targetOK p white t then some ⟨s, t, none⟩ else none
  | none => []

theorem pseudoMoves_eq (p : Pos) :
    pseudoMoves p = (List.range 64).flatMap (pieceMoves p p.whiteToMove) ++ castleMoves p p.whiteToMove := rfl

theorem targetOK_flip {p p' : Pos} (h : SFlip p p') (w : Bool) {t : Nat} (ht : t < 64) :
    targetOK p' (!w) (mir t) = targetOK p w t := by
  unfold targetOK
  rw [h.at_ t ht]
  cases p.at t with
  | none => rfl
  | some o => simp only [Option.map_some, recolor]; cases o.white <;> cases w <;> rfl

theorem pieceMoves_flip {p p' : Pos} (h : SFlip p p') (w : Bool) {s : Nat} (hs : s < 64) {sm : SMove}
    (hm : sm ∈ pieceMoves p w s) : flipSM sm ∈ pieceMoves p' (!w) (mir s) := by
  unfold pieceMoves at hm ⊢
  rw [h.at_ s hs]
  cases hp : p.at s with
  | none => rw [hp] at hm; cases hm
  | some pc =>
    rw [hp] at hm
    simp only [Option.map_some, recolor]
    simp only at hm
    have e : ((!pc.white) != !w) = (pc.white != w) := by cases pc.white <;> cases w <;> rfl
    rw [e]
    by_cases hc : (pc.white != w) = true
    · rw [if_pos hc] at hm; cases hm
    · rw [if_neg hc] at hm ⊢
      by_cases hk : (pc.kind == Kind.pawn) = true
      · rw [if_pos hk] at hm ⊢
        rw [pawnMoves_flip h hs]
        exact List.mem_map_of_mem hm
      · rw [if_neg hk] at hm ⊢
        rw [List.mem_filterMap] at hm ⊢
        obtain ⟨t, ht, hsm⟩ := hm
        have ht' := List.mem_range.mp ht
        refine ⟨mir t, List.mem_range.mpr (mir_lt ht'), ?_⟩
        rw [attacksGeom_flip h pc.kind w hs ht', targetOK_flip h w ht']
        split at hsm
        · next hcond =>
          rw [if_pos hcond]
          simp only [Option.some.injEq] at hsm
          rw [← hsm]; rfl
        · cases hsm

/-- **the pseudo-legal moves of the flipped position contain the mirrored pseudo-legal moves** (and, `SFlip` being
symmetric, nothing else) -/
theorem pseudoMoves_flip {p p' : Pos} (h : SFlip p p') {sm : SMove} (hm : sm ∈ pseudoMoves p) :
    flipSM sm ∈ pseudoMoves p' := by
  rw [pseudoMoves_eq, List.mem_append] at hm ⊢
  rw [h.turn]
  rcases hm with hm | hm
  · left
    rw [List.mem_flatMap] at hm ⊢
    obtain ⟨s, hs, hm⟩ := hm
    have hs' := List.mem_range.mp hs
    exact ⟨mir s, List.mem_range.mpr (mir_lt hs'), pieceMoves_flip h _ hs' hm⟩
  · right
    rw [castleMoves_flip h]
    exact List.mem_map_of_mem hm

/-! ## captures, the successor -/

theorem isEnPassant_flip {p p' : Pos} (h : SFlip p p') (m : SMove) (hs : m.src < 64) (ht : m.tgt < 64) :
    isEnPassant p' (flipSM m) = isEnPassant p m := by
  unfold isEnPassant flipSM
  simp only
  rw [h.at_ _ hs]
  cases p.at m.src with
  | none => rfl
  | some pc =>
    simp only [Option.map_some, recolor]
    rw [h.ep_beq ht, fileOf_mir hs, fileOf_mir ht, h.isNone ht]

theorem isCastle_flip {p p' : Pos} (h : SFlip p p') (m : SMove) (hs : m.src < 64) (ht : m.tgt < 64) :
    isCastle p' (flipSM m) = isCastle p m := by
  unfold isCastle flipSM
  simp only
  rw [h.at_ _ hs]
  cases p.at m.src with
  | none => rfl
  | some pc =>
    simp only [Option.map_some, recolor]
    rw [fileOf_mir hs, fileOf_mir ht]

theorem isCapture_flip {p p' : Pos} (h : SFlip p p') (m : SMove) (hs : m.src < 64) (ht : m.tgt < 64) :
    isCapture p' (flipSM m) = isCapture p m := by
  unfold isCapture
  rw [isEnPassant_flip h m hs ht]
  show ((p'.at (mir m.tgt)).isSome || _) = _
  rw [h.isSome ht]

/-! ## the successor -/

theorem getD_setSq (a : Array (Option Piece)) (i j : Nat) (v : Option Piece) (hi : i < a.size) :
    (setSq a i v).getD j none = if i = j then v else a.getD j none := by
  unfold setSq
  rw [Array.getD_eq_getD_getElem?, Array.getD_eq_getD_getElem?, Array.getElem?_setIfInBounds]
  split
  · rfl
  · rfl

theorem size_setSq (a : Array (Option Piece)) (i : Nat) (v : Option Piece) : (setSq a i v).size = a.size := by
  unfold setSq; exact Array.size_setIfInBounds

def ARel (a a' : Array (Option Piece)) : Prop :=
  a.size = 64 ∧ a'.size = 64 ∧ ∀ s, s < 64 → a'.getD (mir s) none = (a.getD s none).map recolor

theorem ARel.set {a a' : Array (Option Piece)} (h : ARel a a') {i : Nat} (hi : i < 64) (v : Option Piece) :
    ARel (setSq a i v) (setSq a' (mir i) (v.map recolor)) := by
  obtain ⟨h1, h2, h3⟩ := h
  refine ⟨by rw [size_setSq, h1], by rw [size_setSq, h2], ?_⟩
  intro s hs
  rw [getD_setSq _ _ _ _ (by rw [h2]; exact mir_lt hi), getD_setSq _ _ _ _ (by rw [h1]; exact hi)]
  by_cases e : i = s
  · rw [if_pos e, if_pos (by rw [e])]
  · rw [if_neg e, if_neg (by rw [mir_inj hi hs]; exact e)]
    exact h3 s hs

theorem ARel.setNone {a a' : Array (Option Piece)} (h : ARel a a') {i : Nat} (hi : i < 64) :
    ARel (setSq a i none) (setSq a' (mir i) none) := h.set hi none

/-- the board of `Spec.apply` -/
def brd (a : Array (Option Piece)) (src tgt eps rs rt : Nat) (v1 v2 : Option Piece) (e c : Bool) : Array (Option Piece) :=
  let b2 := setSq (setSq a src none) tgt v1
  let b3 := if e then setSq b2 eps none else b2
  if c then setSq (setSq b3 rs none) rt v2 else b3

theorem brd_rel {a a' : Array (Option Piece)} (h : ARel a a') {src tgt eps rs rt : Nat} (h1 : src < 64) (h2 : tgt < 64)
    (h3 : eps < 64) (h4 : rs < 64) (h5 : rt < 64) (v1 v2 : Option Piece) (e c : Bool) :
    ARel (brd a src tgt eps rs rt v1 v2 e c)
      (brd a' (mir src) (mir tgt) (mir eps) (mir rs) (mir rt) (v1.map recolor) (v2.map recolor) e c) := by
  unfold brd
  have hb2 : ARel (setSq (setSq a src none) tgt v1) (setSq (setSq a' (mir src) none) (mir tgt) (v1.map recolor)) :=
    (h.set h1 none).set h2 v1
  cases e <;> cases c <;> simp only [Bool.false_eq_true, if_false, if_true]
  · exact hb2
  · exact ((hb2.setNone h4).set h5 v2)
  · exact hb2.setNone h3
  · exact (((hb2.setNone h3).setNone h4).set h5 v2)

def placed (pc : Piece) (promo : Option Kind) : Piece := match promo with | some k => ⟨pc.white, k⟩ | none => pc

theorem apply_some {p : Pos} {m : SMove} {pc : Piece} (h : p.at m.src = some pc) :
    apply p m =
      { sq := brd p.sq m.src m.tgt (mkSq (fileOf m.tgt) (rowOf m.src))
          (castleSquares pc.white (fileOf m.tgt == 6)).2.2.1 (castleSquares pc.white (fileOf m.tgt == 6)).2.2.2
          (some (placed pc m.promo)) (some ⟨pc.white, .rook⟩) (isEnPassant p m) (isCastle p m)
        whiteToMove := !p.whiteToMove
        wk := p.wk && !(m.src == 60 || m.tgt == 60) && !(m.src == 63 || m.tgt == 63)
        wq := p.wq && !(m.src == 60 || m.tgt == 60) && !(m.src == 56 || m.tgt == 56)
        bk := p.bk && !(m.src == 4 || m.tgt == 4) && !(m.src == 7 || m.tgt == 7)
        bq := p.bq && !(m.src == 4 || m.tgt == 4) && !(m.src == 0 || m.tgt == 0)
        ep := if pc.kind == .pawn && (rowOf m.tgt - rowOf m.src).natAbs == 2
              then some (mkSq (fileOf m.src) ((rowOf m.src + rowOf m.tgt) / 2)) else none
        half := if pc.kind == .pawn || isCapture p m then 0 else p.half + 1
        full := if p.whiteToMove then p.full else p.full + 1 } := by
  unfold apply
  rw [h]
  rfl


theorem mir_beq_const {x c : Nat} (hx : x < 64) (hc : c < 64) : (mir x == c) = (x == mir c) := by
  rw [Bool.eq_iff_iff, beq_iff_eq, beq_iff_eq]; unfold mir; omega

theorem castleSquares_flip (w ks : Bool) :
    (castleSquares (!w) ks).2.2.1 = mir (castleSquares w ks).2.2.1 ∧
    (castleSquares (!w) ks).2.2.2 = mir (castleSquares w ks).2.2.2 ∧
    (castleSquares w ks).2.2.1 < 64 ∧ (castleSquares w ks).2.2.2 < 64 := by
  cases w <;> cases ks <;> decide

theorem placed_recolor (pc : Piece) (promo : Option Kind) : placed (recolor pc) promo = recolor (placed pc promo) := by
  cases promo <;> rfl

/-- **the successor commutes with the flip** (the full-move number is not part of `SFlip`) -/
theorem apply_flip {p p' : Pos} (h : SFlip p p') (m : SMove) (hs : m.src < 64) (ht : m.tgt < 64) :
    SFlip (apply p m) (apply p' (flipSM m)) := by
  have hie := isEnPassant_flip h m hs ht
  have hic := isCastle_flip h m hs ht
  have hcap := isCapture_flip h m hs ht
  cases hp : p.at m.src with
  | none =>
    have hp' : p'.at (flipSM m).src = none := by
      show p'.at (mir m.src) = none
      rw [h.at_ _ hs, hp]; rfl
    have e1 : apply p m = p := by unfold apply; rw [hp]
    have e2 : apply p' (flipSM m) = p' := by unfold apply; rw [hp']
    rw [e1, e2]; exact h
  | some pc =>
    have hp' : p'.at (flipSM m).src = some (recolor pc) := by
      show p'.at (mir m.src) = _
      rw [h.at_ _ hs, hp]; rfl
    rw [apply_some hp, apply_some hp', hie, hic, hcap]
    have hfs := fileOf_bounds m.src
    have hft := fileOf_bounds m.tgt
    have hrs := rowOf_bounds hs
    have hrt := rowOf_bounds ht
    obtain ⟨c1, c2, c3, c4⟩ := castleSquares_flip pc.white (fileOf m.tgt == 6)
    have heps : mkSq (fileOf m.tgt) (rowOf m.src) < 64 := mkSq_lt hft hrs
    have hA : ARel p.sq p'.sq := ⟨h.size, h.size', h.at_⟩
    have hbrd := brd_rel hA hs ht heps c3 c4 (some (placed pc m.promo)) (some ⟨pc.white, .rook⟩)
      (isEnPassant p m) (isCastle p m)
    have eb : brd p'.sq (flipSM m).src (flipSM m).tgt (mkSq (fileOf (flipSM m).tgt) (rowOf (flipSM m).src))
        (castleSquares (recolor pc).white (fileOf (flipSM m).tgt == 6)).2.2.1
        (castleSquares (recolor pc).white (fileOf (flipSM m).tgt == 6)).2.2.2
        (some (placed (recolor pc) (flipSM m).promo)) (some ⟨(recolor pc).white, .rook⟩) (isEnPassant p m) (isCastle p m)
        = brd p'.sq (mir m.src) (mir m.tgt) (mir (mkSq (fileOf m.tgt) (rowOf m.src)))
            (mir (castleSquares pc.white (fileOf m.tgt == 6)).2.2.1) (mir (castleSquares pc.white (fileOf m.tgt == 6)).2.2.2)
            ((some (placed pc m.promo)).map recolor) ((some (⟨pc.white, .rook⟩ : Piece)).map recolor)
            (isEnPassant p m) (isCastle p m) := by
      show brd p'.sq (mir m.src) (mir m.tgt) (mkSq (fileOf (mir m.tgt)) (rowOf (mir m.src)))
        (castleSquares (!pc.white) (fileOf (mir m.tgt) == 6)).2.2.1
        (castleSquares (!pc.white) (fileOf (mir m.tgt) == 6)).2.2.2
        (some (placed (recolor pc) m.promo)) (some ⟨!pc.white, .rook⟩) (isEnPassant p m) (isCastle p m) = _
      rw [fileOf_mir ht, rowOf_mir hs, mkSq_mir hft hrs, c1, c2, placed_recolor]
      rfl
    rw [eb]
    have er : ((rowOf (mir m.tgt) - rowOf (mir m.src)).natAbs == 2) = ((rowOf m.tgt - rowOf m.src).natAbs == 2) := by
      rw [rowOf_mir hs, rowOf_mir ht, Bool.eq_iff_iff, beq_iff_eq, beq_iff_eq]; omega
    constructor
    · exact hbrd.1
    · exact hbrd.2.1
    · exact hbrd.2.2
    · show (!p'.whiteToMove) = !(!p.whiteToMove)
      rw [h.turn]
    · show (p'.wk && !(mir m.src == 60 || mir m.tgt == 60) && !(mir m.src == 63 || mir m.tgt == 63)) =
        (p.bk && !(m.src == 4 || m.tgt == 4) && !(m.src == 7 || m.tgt == 7))
      rw [h.wk, mir_beq_const hs (by decide), mir_beq_const ht (by decide), mir_beq_const hs (by decide),
        mir_beq_const ht (by decide)]
      rfl
    · show (p'.wq && !(mir m.src == 60 || mir m.tgt == 60) && !(mir m.src == 56 || mir m.tgt == 56)) =
        (p.bq && !(m.src == 4 || m.tgt == 4) && !(m.src == 0 || m.tgt == 0))
      rw [h.wq, mir_beq_const hs (by decide), mir_beq_const ht (by decide), mir_beq_const hs (by decide),
        mir_beq_const ht (by decide)]
      rfl
    · show (p'.bk && !(mir m.src == 4 || mir m.tgt == 4) && !(mir m.src == 7 || mir m.tgt == 7)) =
        (p.wk && !(m.src == 60 || m.tgt == 60) && !(m.src == 63 || m.tgt == 63))
      rw [h.bk, mir_beq_const hs (by decide), mir_beq_const ht (by decide), mir_beq_const hs (by decide),
        mir_beq_const ht (by decide)]
      rfl
    · show (p'.bq && !(mir m.src == 4 || mir m.tgt == 4) && !(mir m.src == 0 || mir m.tgt == 0)) =
        (p.wq && !(m.src == 60 || m.tgt == 60) && !(m.src == 56 || m.tgt == 56))
      rw [h.bq, mir_beq_const hs (by decide), mir_beq_const ht (by decide), mir_beq_const hs (by decide),
        mir_beq_const ht (by decide)]
      rfl
    · show (if (pc.kind == Kind.pawn && (rowOf (mir m.tgt) - rowOf (mir m.src)).natAbs == 2) = true
          then some (mkSq (fileOf (mir m.src)) ((rowOf (mir m.src) + rowOf (mir m.tgt)) / 2)) else none) =
        (if (pc.kind == Kind.pawn && (rowOf m.tgt - rowOf m.src).natAbs == 2) = true
          then some (mkSq (fileOf m.src) ((rowOf m.src + rowOf m.tgt) / 2)) else none).map mir
      rw [er]
      split
      · next hc =>
        simp only [Bool.and_eq_true, beq_iff_eq] at hc
        have h2 := hc.2
        have hb : 0 ≤ (rowOf m.src + rowOf m.tgt) / 2 ∧ (rowOf m.src + rowOf m.tgt) / 2 < 8 := by omega
        have e : (rowOf (mir m.src) + rowOf (mir m.tgt)) / 2 = 7 - (rowOf m.src + rowOf m.tgt) / 2 := by
          rw [rowOf_mir hs, rowOf_mir ht]; omega
        rw [e, fileOf_mir hs, mkSq_mir hfs hb]
        rfl
      · rfl
    · intro e he
      have he' : (if (pc.kind == Kind.pawn && (rowOf m.tgt - rowOf m.src).natAbs == 2) = true
          then some (mkSq (fileOf m.src) ((rowOf m.src + rowOf m.tgt) / 2)) else none) = some e := he
      split at he'
      · simp only [Option.some.injEq] at he'
        rw [← he']
        exact mkSq_lt hfs (by omega)
      · cases he'
    · show (if (pc.kind == Kind.pawn || isCapture p m) = true then 0 else p'.half + 1) =
        (if (pc.kind == Kind.pawn || isCapture p m) = true then 0 else p.half + 1)
      rw [h.half]

end Inkayaku.SearchFlip
