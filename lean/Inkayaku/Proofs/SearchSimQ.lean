import Inkayaku.Proofs.AlphaBeta
import Inkayaku.Proofs.SearchCongr
import Inkayaku.Proofs.SearchDepth1
import Inkayaku.Proofs.WfStepProof
/-!
# C08, simulation step 1: `Search.quiescence` computes the abstract fail-hard quiescence `Minimax.q`

* `qorder`            – the capture order of the engine as an `IsOrder` of the abstract game: the legal ones among
                        `sortMoves (genNonQuiescent b) none none none` (a stable merge sort of the generated list);
* `q_congr`, `Qexact_congr`, `mm_congr` – the abstract searches on the board instance see the visible position only;
* `QDepth k b`        – every sequence of legal captures / promotions from `b` has length ≤ `k`;
* `quiescence_sim`    – for a board with clock budget `fuel`, `QDepth k`, `k < fuel`, `k ≤ n`:
                        `Search.quiescence fuel s α β` returns the value `q chess.qgame qorder n (s.board, []) α β`, the
                        visible position is restored, and nothing but the board's scratch words and the quiescence node
                        counter changes in the state.
The concrete function returns `alpha` when it runs out of fuel while the abstract one stands pat: the two agree
because `QDepth k` with `k < fuel` means the fuel never runs out (`Proofs/SearchSimFuel.lean` derives `QDepth` from
the number of men and pawns on the board).
-/
namespace Inkayaku.SearchSim
open Inkayaku.Board Inkayaku.Eval Inkayaku.WF Inkayaku.BoardCongr Inkayaku.Minimax Inkayaku.SpecSearch Inkayaku.Search

/-! ## the engine's capture order as an abstract move order -/

/-- the legal captures / promotions of `b` in the order in which `search_quiescence` tries them -/
def engineCaptures (b : Board) : List Move :=
  (sortMoves (genNonQuiescent b) none none none).filter (isMoveLegal b)

theorem engineCaptures_perm (b : Board) : (engineCaptures b).Perm (legalCaptures b) :=
  (List.mergeSort_perm _ _).filter _

/-- the capture order of the engine (on the capture list of the position; the identity on any other list) -/
def qorder : Pos → List Move → List Move := fun p l =>
  if (engineCaptures p.1).Perm l then engineCaptures p.1 else l

theorem isOrder_qorder : IsOrder qorder := by
  intro p l
  unfold qorder
  split
  · assumption
  · exact List.Perm.refl l

theorem qorder_captures (p : Pos) : qorder p (chess.qgame.captures p) = engineCaptures p.1 := by
  show qorder p (legalCaptures p.1) = _
  unfold qorder
  rw [if_pos (engineCaptures_perm p.1)]

/-! ## the abstract searches see the visible position only -/

theorem evalFor_vis {b b' : Board} (h : vis b = vis b') (l : Bool) :
    evalFor b b.turn l = evalFor b' b'.turn l := by
  rw [turn_congr h]
  exact evalFor_congr h _ _

theorem legalCaptures_congr {b b' : Board} (h : vis b = vis b') : legalCaptures b = legalCaptures b' := by
  unfold legalCaptures
  rw [genNonQuiescent_congr h]
  apply List.filter_congr
  intro m _
  exact isMoveLegal_congr h m

theorem engineCaptures_congr {b b' : Board} (h : vis b = vis b') : engineCaptures b = engineCaptures b' := by
  unfold engineCaptures
  rw [genNonQuiescent_congr h]
  apply List.filter_congr
  intro m _
  exact isMoveLegal_congr h m

theorem genLegal_congr {b b' : Board} (h : vis b = vis b') : genLegal b = genLegal b' := by
  unfold genLegal
  rw [genPseudo_congr h]
  apply List.filter_congr
  intro m _
  exact isMoveLegal_congr h m

theorem noisy_congr {b b' : Board} (h : vis b = vis b') : noisy b = noisy b' := by
  unfold noisy
  rw [genPseudo_congr h]

theorem qorder_congr {p p' : Pos} (h : vis p.1 = vis p'.1) (l : List Move) : qorder p l = qorder p' l := by
  unfold qorder
  rw [engineCaptures_congr h]

theorem qLoop_congr (f : Pos → Int → Int → Int) (c c' : Move → Pos) (ms : List Move)
    (h : ∀ m ∈ ms, ∀ a b, f (c m) a b = f (c' m) a b) (α β : Int) :
    qLoop f c ms α β = qLoop f c' ms α β := by
  induction ms generalizing α with
  | nil => rfl
  | cons m ms ih =>
    have ih' := fun a => ih (fun x hx => h x (List.mem_cons_of_mem _ hx)) a
    simp only [qLoop]
    rw [h m List.mem_cons_self, ih', ih']

/-- `q` on the board instance depends on the visible position only (and not on the `searchmoves` component) -/
theorem q_congr (n : Nat) : ∀ (p p' : Pos), vis p.1 = vis p'.1 → ∀ α β,
    q chess.qgame qorder n p α β = q chess.qgame qorder n p' α β := by
  induction n with
  | zero =>
    intro p p' h α β
    simp only [q]
    show (if evalFor p.1 p.1.turn true ≥ β then β else max α (evalFor p.1 p.1.turn true)) =
      (if evalFor p'.1 p'.1.turn true ≥ β then β else max α (evalFor p'.1 p'.1.turn true))
    rw [evalFor_vis h]
  | succ n ih =>
    intro p p' h α β
    simp only [q]
    have hsp : chess.qgame.standPat p = chess.qgame.standPat p' := evalFor_vis h true
    have hcap : chess.qgame.captures p = chess.qgame.captures p' := legalCaptures_congr h
    rw [hsp, hcap, qorder_congr h]
    split
    · rfl
    · apply qLoop_congr
      intro m _ a b
      exact ih _ _ (make_congr h m) a b

theorem mmFold_map_congr {μ : Type} (e : Pos → Int) (init : Int) (ms : List μ) (c c' : μ → Pos)
    (h : ∀ m ∈ ms, e (c m) = e (c' m)) : mmFold e init (ms.map c) = mmFold e init (ms.map c') := by
  induction ms generalizing init with
  | nil => rfl
  | cons m ms ih =>
    simp only [List.map_cons, mmFold_cons]
    rw [h m List.mem_cons_self, ih _ (fun x hx => h x (List.mem_cons_of_mem _ hx))]

theorem Qexact_congr (n : Nat) : ∀ (p p' : Pos), vis p.1 = vis p'.1 →
    Qexact chess.qgame n p = Qexact chess.qgame n p' := by
  induction n with
  | zero => intro p p' h; exact evalFor_vis h true
  | succ n ih =>
    intro p p' h
    simp only [Qexact]
    have hsp : chess.qgame.standPat p = chess.qgame.standPat p' := evalFor_vis h true
    have hcap : chess.qgame.captures p = chess.qgame.captures p' := legalCaptures_congr h
    rw [hsp, hcap]
    apply mmFold_map_congr
    intro m _
    exact ih _ _ (make_congr h m)

/-- plain minimax on the board instance depends on the visible position and the `searchmoves` list only -/
theorem mm_congr (d : Nat) : ∀ (b b' : Board) (only : List String), vis b = vis b' →
    mm game d (b, only) = mm game d (b', only) := by
  induction d with
  | zero =>
    intro b b' only h
    simp only [mm]
    have hm : game.moves (b, only) = game.moves (b', only) := by
      show rootMoves b only = rootMoves b' only
      unfold rootMoves
      rw [genLegal_congr h]
    have ht : game.term (b, only) = game.term (b', only) := evalFor_vis h false
    have hl : game.leafExact (b, only) = game.leafExact (b', only) := by
      show (if noisy b then Qexact chess.qgame chess.fuel (b, only) else evalFor b b.turn true) =
        (if noisy b' then Qexact chess.qgame chess.fuel (b', only) else evalFor b' b'.turn true)
      rw [noisy_congr h, Qexact_congr _ (b, only) (b', only) h, evalFor_vis h]
    rw [hm, ht, hl]
  | succ d ih =>
    intro b b' only h
    simp only [mm]
    have hm : game.moves (b, only) = game.moves (b', only) := by
      show rootMoves b only = rootMoves b' only
      unfold rootMoves
      rw [genLegal_congr h]
    have ht : game.term (b, only) = game.term (b', only) := evalFor_vis h false
    rw [hm, ht]
    split
    · rfl
    · unfold Game.children
      rw [hm]
      apply mmFold_map_congr
      intro m _
      exact ih _ _ [] (make_congr h m)

/-! ## the length of capture sequences -/

/-- every sequence of legal captures / promotions from `b` has length ≤ `k` -/
def QDepth : Nat → Board → Prop
  | 0, b => legalCaptures b = []
  | k + 1, b => ∀ m ∈ legalCaptures b, QDepth k (make b m)

theorem QDepth_congr (k : Nat) : ∀ {b b' : Board}, vis b = vis b' → QDepth k b → QDepth k b' := by
  induction k with
  | zero => intro b b' h hq; show legalCaptures b' = []; rw [← legalCaptures_congr h]; exact hq
  | succ k ih =>
    intro b b' h hq m hm
    rw [← legalCaptures_congr h] at hm
    exact ih (make_congr h m) (hq m hm)

theorem QDepth_succ (k : Nat) : ∀ {b : Board}, QDepth k b → QDepth (k + 1) b := by
  induction k with
  | zero => intro b h m hm; rw [show legalCaptures b = [] from h] at hm; cases hm
  | succ k ih => intro b h m hm; exact ih (h m hm)

theorem QDepth_mono {k k' : Nat} (h : k ≤ k') {b : Board} (hq : QDepth k b) : QDepth k' b := by
  induction h with
  | refl => exact hq
  | step _ ih => exact QDepth_succ _ ih

/-- without captures the abstract quiescence stands pat, whatever its fuel -/
theorem q_no_captures (n : Nat) (p : Pos) (h : legalCaptures p.1 = []) (α β : Int) :
    q chess.qgame qorder n p α β =
      if evalFor p.1 p.1.turn true ≥ β then β else max α (evalFor p.1 p.1.turn true) := by
  cases n with
  | zero => rfl
  | succ n =>
    simp only [q]
    have hcap : chess.qgame.captures p = [] := h
    have : qorder p (chess.qgame.captures p) = [] := by
      have := isOrder_qorder p (chess.qgame.captures p)
      rw [hcap] at this ⊢
      exact List.Perm.eq_nil this
    rw [this]
    rfl

/-! ## the move loop -/

theorem VM_mk_value (v : Int) (m : Option Move) (c : Option VM) : (VM.mk v m c).value = v := rfl
theorem VM_leaf_value (v : Int) : (VM.leaf v).value = v := rfl

/-- the concrete capture loop over generated moves of `b0` is the abstract loop over the legal ones among them, when the
recursive calls on the children return the values `F` -/
theorem qLoop_sim {fuel : Nat} (F : Pos → Int → Int → Int) (b0 : Board) (hinv : Inv (fuel + 1) b0)
    (moves : List Move) (hgen : ∀ m ∈ moves, Generated b0 m)
    (hF : ∀ m ∈ moves, isMoveLegal b0 m = true → ∀ (s : St) (a b : Int), vis s.board = vis (make b0 m) →
      (quiescence fuel s a b).1.value = F (make b0 m, []) a b)
    (s : St) (hs : vis s.board = vis b0) (α β : Int) (bm : Option Move) (bc : Option VM) :
    (quiescenceLoop fuel s moves α β bm bc).1.value =
      qLoop F (fun m => ((make b0 m, []) : Pos)) (moves.filter (isMoveLegal b0)) α β := by
  have hwf := hinv.wf
  induction moves generalizing s α bm bc with
  | nil => rw [quiescenceLoop_nil]; rfl
  | cons m rest ih =>
    have hm : Generated b0 m := hgen m List.mem_cons_self
    have hrest : ∀ x ∈ rest, Generated b0 x := fun x hx => hgen x (List.mem_cons_of_mem _ hx)
    have hFrest : ∀ x ∈ rest, isMoveLegal b0 x = true → ∀ (s : St) (a b : Int), vis s.board = vis (make b0 x) →
        (quiescence fuel s a b).1.value = F (make b0 x, []) a b :=
      fun x hx => hF x (List.mem_cons_of_mem _ hx)
    have hmk : vis (make s.board m) = vis (make b0 m) := make_congr hs m
    have hval : isValid (make s.board m) = isMoveLegal b0 m := isValid_congr hmk
    rw [quiescenceLoop_cons, hval]
    by_cases hl : isMoveLegal b0 m = true
    · rw [hl, List.filter_cons_of_pos hl]
      simp only [Bool.not_true, Bool.false_eq_true, if_false, qLoop]
      have hi1 := (child_inv boardLaws hinv hs hm (by rw [hval]; exact hl)).1
      have hr := quiescence_ok boardLaws fuel
        { s with board := make s.board m, quiescenceNodes := s.quiescenceNodes + 1 } (-β) (-α) hi1
      have hb : vis (unmake (quiescence fuel
          { s with board := make s.board m, quiescenceNodes := s.quiescenceNodes + 1 } (-β) (-α)).2.board m) = vis b0 :=
        back hwf hm (hr.trans hmk)
      rw [hF m List.mem_cons_self hl _ (-β) (-α) hmk]
      split
      · rfl
      · split
        · exact ih hrest hFrest _ hb _ _ _
        · exact ih hrest hFrest _ hb _ _ _
    · have hl' : isMoveLegal b0 m = false := by simpa using hl
      rw [hl', List.filter_cons_of_neg (by simp [hl'])]
      simp only [Bool.not_false, if_true]
      exact ih hrest hFrest _ (back hwf hm hmk) _ _ _

/-! ## the simulation -/

/-- **`search_quiescence` = the abstract fail-hard quiescence** on the board instance, capture order `qorder` -/
theorem quiescence_value : ∀ (fuel k n : Nat) (s : St) (α β : Int), Inv fuel s.board → QDepth k s.board → k < fuel → k ≤ n →
    (quiescence fuel s α β).1.value = q chess.qgame qorder n (s.board, []) α β := by
  intro fuel
  induction fuel with
  | zero => intro k n s α β _ _ hk; omega
  | succ fuel ih =>
    intro k n s α β hinv hq hk hn
    rw [quiescence_succ]
    have hgen : ∀ m ∈ sortMoves (genNonQuiescent s.board) none none none, Generated s.board m :=
      fun m hm => Or.inr (mem_sortMoves.mp hm)
    cases k with
    | zero =>
      have hnil : legalCaptures s.board = [] := hq
      rw [q_no_captures n (s.board, []) hnil]
      show _ = if evalFor s.board s.board.turn true ≥ β then β else max α (evalFor s.board s.board.turn true)
      by_cases hsp : evalFor s.board s.board.turn true ≥ β
      · rw [if_pos hsp, if_pos hsp]; rfl
      · rw [if_neg hsp, if_neg hsp]
        rw [qLoop_sim (fun _ _ _ => 0) s.board hinv _ hgen ?_ s rfl]
        · have : (sortMoves (genNonQuiescent s.board) none none none).filter (isMoveLegal s.board) = [] := by
            have hp := engineCaptures_perm s.board
            rw [hnil] at hp
            exact List.Perm.eq_nil hp
          rw [this]
          rfl
        · intro m hm hl
          have : m ∈ legalCaptures s.board := List.mem_filter.mpr ⟨mem_sortMoves.mp hm, hl⟩
          rw [hnil] at this
          cases this
    | succ k =>
      cases n with
      | zero => omega
      | succ n =>
        simp only [q]
        show _ = if evalFor s.board s.board.turn true ≥ β then β
          else qLoop (q chess.qgame qorder n) (chess.qgame.child (s.board, []))
            (qorder (s.board, []) (chess.qgame.captures (s.board, []))) (max α (evalFor s.board s.board.turn true)) β
        rw [qorder_captures]
        by_cases hsp : evalFor s.board s.board.turn true ≥ β
        · rw [if_pos hsp, if_pos hsp]; rfl
        · rw [if_neg hsp, if_neg hsp]
          rw [qLoop_sim (q chess.qgame qorder n) s.board hinv _ hgen ?_ s rfl]
          · rfl
          · intro m hm hl s' a b hs'
            have hmem : m ∈ legalCaptures s.board := List.mem_filter.mpr ⟨mem_sortMoves.mp hm, hl⟩
            have hi : Inv fuel s'.board :=
              Inv_congr hs'.symm (boardLaws.make_inv fuel s.board m hinv (hgen m hm) hl)
            rw [ih k n s' a b hi (QDepth_congr k hs'.symm (hq m hmem)) (by omega) (by omega)]
            exact q_congr n (s'.board, []) (make s.board m, []) hs' a b

/-- **quiescence simulation**: value, board and frame.
`Inv fuel` is the clock budget of `Proofs/WfStep.lean` (well-formed, both clocks have room for `fuel` plies). -/
theorem quiescence_sim (fuel k n : Nat) (s : St) (α β : Int) (hinv : Inv fuel s.board) (hq : QDepth k s.board)
    (hk : k < fuel) (hn : k ≤ n) :
    (quiescence fuel s α β).1.value = q chess.qgame qorder n (s.board, []) α β ∧
    vis (quiescence fuel s α β).2.board = vis s.board ∧
    ∃ b' qn, (quiescence fuel s α β).2 = { s with board := b', quiescenceNodes := qn } :=
  ⟨quiescence_value fuel k n s α β hinv hq hk hn, quiescence_ok boardLaws fuel s α β hinv,
    quiescence_rel quiet_qStepRel fuel s α β⟩

/-- hence, inside a window, it is the exhaustive capture resolution clamped to the window -/
theorem quiescence_sim_clamp (fuel k n : Nat) (s : St) (α β : Int) (hinv : Inv fuel s.board) (hq : QDepth k s.board)
    (hk : k < fuel) (hn : k ≤ n) (hαβ : α < β) :
    (quiescence fuel s α β).1.value = clamp (Qexact chess.qgame n (s.board, [])) α β := by
  rw [quiescence_value fuel k n s α β hinv hq hk hn]
  exact Minimax.quiescence_clamp chess.qgame qorder isOrder_qorder n _ α β hαβ

end Inkayaku.SearchSim
