import Inkayaku.Spec.Minimax
import Inkayaku.Model.SpecSearch
/-!
# Alpha-beta = minimax (helper proofs for C08)

* `quiescence_clamp`  – the fail-hard quiescence is the clamp of the exhaustive capture resolution, for every order
                        of the capture moves;
* `ab_ok`             – fail-soft contract of the alpha-beta search for every move order;
* `root_exact`, `best_move_optimal`, `order_irrelevant`;
* `abT_ok`            – the same with a transposition table probed at equal draft and state dependent ordering.
-/
namespace Inkayaku.Minimax

variable {P μ : Type}

/-! ## folds of `max` -/

theorem le_mmFold (e : P → Int) (init : Int) (cs : List P) : init ≤ mmFold e init cs := by
  induction cs generalizing init with
  | nil => simp [mmFold]
  | cons c cs ih =>
    simp only [mmFold, List.foldl_cons]
    have := ih (max init (- e c))
    simp only [mmFold] at this
    omega

theorem mmFold_cons (e : P → Int) (init : Int) (c : P) (cs : List P) :
    mmFold e init (c :: cs) = mmFold e (max init (- e c)) cs := rfl

theorem mmFold_nil (e : P → Int) (init : Int) : mmFold e init [] = init := rfl

/-- a fold of `max` does not depend on the order of the list -/
theorem mmFold_perm (e : P → Int) (init : Int) {cs cs' : List P} (h : cs.Perm cs') :
    mmFold e init cs = mmFold e init cs' := by
  unfold mmFold
  apply List.Perm.foldl_eq' h
  intro x _ y _ z
  omega

theorem mmFold_max_init (e : P → Int) (a b : Int) (cs : List P) :
    mmFold e (max a b) cs = max a (mmFold e b cs) := by
  induction cs generalizing b with
  | nil => simp [mmFold]
  | cons c cs ih =>
    simp only [mmFold_cons]
    rw [← ih]
    congr 1
    omega

theorem mmFold_congr (e e' : P → Int) (init : Int) (cs : List P) (h : ∀ c ∈ cs, e c = e' c) :
    mmFold e init cs = mmFold e' init cs := by
  induction cs generalizing init with
  | nil => rfl
  | cons c cs ih =>
    simp only [mmFold_cons]
    rw [h c (List.mem_cons_self), ih _ (fun c hc => h c (List.mem_cons_of_mem _ hc))]

theorem mmFold_le (e : P → Int) (init B : Int) (cs : List P) (hi : init ≤ B) (h : ∀ c ∈ cs, - e c ≤ B) :
    mmFold e init cs ≤ B := by
  induction cs generalizing init with
  | nil => simpa [mmFold] using hi
  | cons c cs ih =>
    simp only [mmFold_cons]
    have := h c (List.mem_cons_self)
    exact ih _ (by omega) (fun c hc => h c (List.mem_cons_of_mem _ hc))

/-- the fold is attained: it is the initial value or the negated value of a member -/
theorem mmFold_attained (e : P → Int) (init : Int) (cs : List P) :
    mmFold e init cs = init ∨ ∃ c ∈ cs, mmFold e init cs = - e c := by
  induction cs generalizing init with
  | nil => left; rfl
  | cons c cs ih =>
    simp only [mmFold_cons]
    rcases ih (max init (- e c)) with h | ⟨c', hc', h⟩
    · by_cases hm : init ≤ - e c
      · right; exact ⟨c, List.mem_cons_self, by omega⟩
      · left; omega
    · right; exact ⟨c', List.mem_cons_of_mem _ hc', h⟩

theorem neg_le_mmFold (e : P → Int) (init : Int) (cs : List P) (c : P) (hc : c ∈ cs) :
    - e c ≤ mmFold e init cs := by
  induction cs generalizing init with
  | nil => cases hc
  | cons c' cs ih =>
    simp only [mmFold_cons]
    rcases List.mem_cons.mp hc with rfl | h
    · have := le_mmFold e (max init (- e c)) cs; omega
    · exact ih _ h

/-! ## `Ok` and `clamp` -/

theorem Ok.refl (m α β : Int) : Ok m m α β := ⟨fun _ => Int.le_refl _, fun _ => Int.le_refl _, fun _ _ => rfl⟩

theorem ok_clamp (x α β : Int) (h : α < β) : Ok x (clamp x α β) α β := by
  unfold Ok clamp
  refine ⟨?_, ?_, ?_⟩ <;> omega

/-! ## Quiescence -/

theorem qLoop_eq (f : P → Int → Int → Int) (e : P → Int) (child : μ → P)
    (hf : ∀ c a b, a < b → f c a b = clamp (e c) a b)
    (ms : List μ) (α β : Int) (h : α < β) :
    qLoop f child ms α β = min β (mmFold e α (ms.map child)) := by
  induction ms generalizing α with
  | nil => simp only [qLoop, List.map_nil, mmFold_nil]; omega
  | cons m ms ih =>
    simp only [qLoop, List.map_cons, mmFold_cons]
    rw [hf (child m) (-β) (-α) (by omega)]
    unfold clamp
    generalize e (child m) = ec
    by_cases h1 : - max (-β) (min ec (-α)) ≥ β
    · simp only [h1, if_true]
      have := le_mmFold e (max α (-ec)) (ms.map child)
      omega
    · simp only [h1, if_false]
      by_cases h2 : - max (-β) (min ec (-α)) > α
      · simp only [h2, if_true]
        rw [ih _ (by omega)]
        have : - max (-β) (min ec (-α)) = max α (-ec) := by omega
        rw [this]
      · simp only [h2, if_false]
        rw [ih _ h]
        have : max α (-ec) = α := by omega
        rw [this]

/-- `search_quiescence` = clamp of the exhaustive capture resolution, whatever the order of the captures -/
theorem quiescence_clamp (h : QGame P μ) (order : P → List μ → List μ) (ho : IsOrder order)
    (fuel : Nat) (p : P) (α β : Int) (hαβ : α < β) :
    q h order fuel p α β = clamp (Qexact h fuel p) α β := by
  induction fuel generalizing p α β with
  | zero =>
    simp only [q, Qexact, clamp]
    split <;> omega
  | succ f ih =>
    simp only [q, Qexact]
    have hmono := le_mmFold (Qexact h f) (h.standPat p) ((h.captures p).map (h.child p))
    by_cases hs : h.standPat p ≥ β
    · simp only [hs, if_true, clamp]; omega
    · simp only [hs, if_false]
      rw [qLoop_eq (q h order f) (Qexact h f) (h.child p) (fun c a b hab => ih c a b hab) _ _ _ (by omega)]
      rw [mmFold_perm _ _ ((ho p (h.captures p)).map (h.child p)), mmFold_max_init]
      unfold clamp
      omega

theorem quiescence_ok (h : QGame P μ) (order : P → List μ → List μ) (ho : IsOrder order)
    (fuel : Nat) (p : P) (α β : Int) (hαβ : α < β) :
    Ok (Qexact h fuel p) (q h order fuel p α β) α β := by
  rw [quiescence_clamp h order ho fuel p α β hαβ]
  exact ok_clamp _ _ _ hαβ

/-- the order of the captures is irrelevant -/
theorem quiescence_order_irrelevant (h : QGame P μ) (o₁ o₂ : P → List μ → List μ) (h₁ : IsOrder o₁) (h₂ : IsOrder o₂)
    (fuel : Nat) (p : P) (α β : Int) (hαβ : α < β) : q h o₁ fuel p α β = q h o₂ fuel p α β := by
  rw [quiescence_clamp h o₁ h₁ fuel p α β hαβ, quiescence_clamp h o₂ h₂ fuel p α β hαβ]

/-- with enough fuel the fuel is irrelevant: if every capture decreases a rank (the number of men plus the number of
pawns, say), `Qexact` is the unbounded capture resolution -/
theorem Qexact_fuel_stable (h : QGame P μ) (rank : P → Nat)
    (hr : ∀ p m, m ∈ h.captures p → rank (h.child p m) < rank p) :
    ∀ n p, rank p ≤ n → ∀ f, n ≤ f → Qexact h f p = Qexact h n p := by
  intro n
  induction n with
  | zero =>
    intro p hp f _
    have hnil : h.captures p = [] := by
      cases hc : h.captures p with
      | nil => rfl
      | cons m ms => have := hr p m (by rw [hc]; exact List.mem_cons_self); omega
    cases f with
    | zero => rfl
    | succ f => simp [Qexact, hnil, mmFold]
  | succ n ih =>
    intro p hp f hf
    cases f with
    | zero => omega
    | succ f =>
      simp only [Qexact]
      apply mmFold_congr
      intro c hc
      obtain ⟨m, hm, rfl⟩ := List.mem_map.mp hc
      have := hr p m hm
      exact ih _ (by omega) f (by omega)

/-- capture resolution stays within the range of the stand-pat values -/
theorem Qexact_bound (h : QGame P μ) (B : Int) (hB : ∀ p, -B ≤ h.standPat p ∧ h.standPat p ≤ B) :
    ∀ f p, -B ≤ Qexact h f p ∧ Qexact h f p ≤ B := by
  intro f
  induction f with
  | zero => intro p; exact hB p
  | succ f ih =>
    intro p
    simp only [Qexact]
    constructor
    · have := le_mmFold (Qexact h f) (h.standPat p) ((h.captures p).map (h.child p))
      have := (hB p).1
      omega
    · apply mmFold_le _ _ _ _ (hB p).2
      intro c _
      have := (ih c).1
      omega

/-! ## Alpha-beta -/

/-- the recorded best move `bm` is a move with property `S` whose exact child value is `best` -/
def Chosen (e : P → Int) (child : μ → P) (S : μ → Prop) (bm : Option μ) (best : Int) : Prop :=
  ∃ m, bm = some m ∧ S m ∧ - e (child m) = best

/-- the loop invariant of the move loop.  `α₀` is the window bottom at loop entry, `M` the maximum over the moves
already done, `S` any property of the moves of this node. -/
theorem abLoop_ok (L : Int) (f : P → Int → Int → Int) (e : P → Int) (child : μ → P) (S : μ → Prop)
    (hf : ∀ c a b, L ≤ a → a < b → b ≤ -L → Ok (e c) (f c a b) a b)
    (cs : List μ) (α₀ α β best M : Int) (bm : Option μ)
    (hS : ∀ m ∈ cs, S m)
    (hL : L ≤ α₀) (hβ : β ≤ -L) (hαβ : α < β) (hα : α = max α₀ best)
    (h1 : best ≤ α₀ → M ≤ best) (h2 : α₀ < best → best = M)
    (h3 : α₀ < best → Chosen e child S bm best) :
    Ok (mmFold e M (cs.map child)) (abLoop f child cs α β best bm).1 α₀ β ∧
    (α₀ < (abLoop f child cs α β best bm).1 → (abLoop f child cs α β best bm).1 < β →
      Chosen e child S (abLoop f child cs α β best bm).2 (abLoop f child cs α β best bm).1) := by
  induction cs generalizing α best M bm with
  | nil =>
    simp only [abLoop, List.map_nil, mmFold_nil]
    refine ⟨⟨h1, ?_, fun h _ => h2 h⟩, fun h _ => h3 h⟩
    intro h; omega
  | cons c cs ih =>
    simp only [abLoop, List.map_cons, mmFold_cons]
    obtain ⟨c1, c2, c3⟩ := hf (child c) (-β) (-α) (by omega) (by omega) (by omega)
    have hSc : S c := hS c List.mem_cons_self
    have hS' : ∀ m ∈ cs, S m := fun m hm => hS m (List.mem_cons_of_mem _ hm)
    have hch : ∀ v, - e (child c) = v → Chosen e child S (some c) v := fun v hv => ⟨c, rfl, hSc, hv⟩
    generalize f (child c) (-β) (-α) = r at *
    generalize e (child c) = ec at *
    by_cases hv : -r > best
    · simp only [hv, if_true]
      by_cases hcut : max α (-r) ≥ β
      · simp only [hcut, if_true]
        have hmono := le_mmFold e (max M (-ec)) (cs.map child)
        generalize mmFold e (max M (-ec)) (cs.map child) = Mall at *
        refine ⟨⟨?_, ?_, ?_⟩, ?_⟩ <;> intro h <;> omega
      · simp only [hcut, if_false]
        exact ih (max α (-r)) (-r) (max M (-ec)) (some c) hS' (by omega) (by omega) (by omega) (by omega)
          (fun h => hch _ (by omega))
    · simp only [hv, if_false]
      by_cases hcut : max α best ≥ β
      · omega
      · simp only [hcut, if_false]
        exact ih (max α best) best (max M (-ec)) bm hS' (by omega) (by omega) (by omega) (by omega) h3

variable (g : Game P μ) (order : P → List μ → List μ)

/-- the hypothesis on the horizon evaluator: fail-soft contract w.r.t. `leafExact` -/
def LeafOk (g : Game P μ) : Prop :=
  ∀ p a b, g.loss ≤ a → a < b → b ≤ -g.loss → Ok (g.leafExact p) (g.leaf p a b) a b

/-- **fail-soft contract of alpha-beta for every move order** -/
theorem ab_ok (ho : IsOrder order) (hleaf : LeafOk g) :
    ∀ d p α β, g.loss ≤ α → α < β → β ≤ -g.loss → Ok (mm g d p) (ab g order d p α β).1 α β := by
  intro d
  induction d with
  | zero =>
    intro p α β hL h hU
    simp only [mm, ab]
    split
    · exact Ok.refl _ _ _
    · exact hleaf p α β hL h hU
  | succ d ih =>
    intro p α β hL h hU
    simp only [mm, ab]
    split
    · exact Ok.refl _ _ _
    · have := (abLoop_ok g.loss (fun c a b => (ab g order d c a b).1) (mm g d) (g.child p) (fun _ => True) ih
        (order p (g.moves p)) α α β g.loss g.loss none (fun _ _ => trivial) hL hU h
        (by omega) (fun _ => Int.le_refl _) (fun _ => rfl) (fun h => by omega)).1
      rw [mmFold_perm _ _ ((ho p (g.moves p)).map (g.child p))] at this
      exact this

/-- inside the window the chosen move is a move of the node whose child value is the returned value -/
theorem ab_move (ho : IsOrder order) (hleaf : LeafOk g)
    (d : Nat) (p : P) (α β : Int) (hne : (g.moves p).isEmpty = false)
    (hL : g.loss ≤ α) (h : α < β) (hU : β ≤ -g.loss)
    (hlo : α < (ab g order (d + 1) p α β).1) (hhi : (ab g order (d + 1) p α β).1 < β) :
    ∃ m, (ab g order (d + 1) p α β).2 = some m ∧ m ∈ g.moves p ∧
      - mm g d (g.child p m) = (ab g order (d + 1) p α β).1 := by
  revert hlo hhi
  simp only [ab, hne, Bool.false_eq_true, if_false]
  intro hlo hhi
  exact (abLoop_ok g.loss (fun c a b => (ab g order d c a b).1) (mm g d) (g.child p)
      (fun m => m ∈ g.moves p) (ab_ok g order ho hleaf d)
      (order p (g.moves p)) α α β g.loss g.loss none (fun m hm => (ho p (g.moves p)).mem_iff.mp hm) hL hU h
      (by omega) (fun _ => Int.le_refl _) (fun _ => rfl) (fun h => by omega)).2 hlo hhi

/-- **full window at the root gives the exact value**, for every move order -/
theorem root_exact (ho : IsOrder order) (hleaf : LeafOk g) (d : Nat) (p : P) (hneg : g.loss < 0)
    (hlo : g.loss ≤ mm g d p) (hhi : mm g d p ≤ -g.loss) :
    (ab g order d p g.loss (-g.loss)).1 = mm g d p := by
  obtain ⟨a, b, c⟩ := ab_ok g order ho hleaf d p g.loss (-g.loss) (Int.le_refl _) (by omega) (Int.le_refl _)
  by_cases h1 : (ab g order d p g.loss (-g.loss)).1 ≤ g.loss
  · have := a h1; omega
  · by_cases h2 : -g.loss ≤ (ab g order d p g.loss (-g.loss)).1
    · have := b h2; omega
    · exact c (by omega) (by omega)

/-- pruning and move ordering never change the result -/
theorem order_irrelevant (o₁ o₂ : P → List μ → List μ) (h₁ : IsOrder o₁) (h₂ : IsOrder o₂) (hleaf : LeafOk g)
    (d : Nat) (p : P) (hneg : g.loss < 0) (hlo : g.loss ≤ mm g d p) (hhi : mm g d p ≤ -g.loss) :
    (ab g o₁ d p g.loss (-g.loss)).1 = (ab g o₂ d p g.loss (-g.loss)).1 := by
  rw [root_exact g o₁ h₁ hleaf d p hneg hlo hhi, root_exact g o₂ h₂ hleaf d p hneg hlo hhi]

/-- **the move announced at the root attains the minimax value** -/
theorem best_move_optimal (ho : IsOrder order) (hleaf : LeafOk g) (d : Nat) (p : P)
    (hne : (g.moves p).isEmpty = false)
    (hlo : g.loss < mm g (d + 1) p) (hhi : mm g (d + 1) p < -g.loss) :
    ∃ m, (ab g order (d + 1) p g.loss (-g.loss)).2 = some m ∧ m ∈ g.moves p ∧
      - mm g d (g.child p m) = mm g (d + 1) p := by
  have hv := root_exact g order ho hleaf (d + 1) p (by omega) (by omega) (by omega)
  obtain ⟨m, h1, h2, h3⟩ := ab_move g order ho hleaf d p g.loss (-g.loss) hne (Int.le_refl _) (by omega) (Int.le_refl _)
    (by omega) (by omega)
  exact ⟨m, h1, h2, by omega⟩

theorem best_move_mem_optimal (ho : IsOrder order) (hleaf : LeafOk g) (d : Nat) (p : P)
    (hne : (g.moves p).isEmpty = false)
    (hlo : g.loss < mm g (d + 1) p) (hhi : mm g (d + 1) p < -g.loss) :
    ∃ m, (ab g order (d + 1) p g.loss (-g.loss)).2 = some m ∧ m ∈ optimalMoves g (d + 1) p := by
  obtain ⟨m, h1, h2, h3⟩ := best_move_optimal g order ho hleaf d p hne hlo hhi
  refine ⟨m, h1, ?_⟩
  simp only [optimalMoves, List.mem_filter, beq_iff_eq]
  exact ⟨h2, h3⟩

/-- the minimax value is attained by some move (so `optimalMoves` is not empty) when it is above `loss` -/
theorem optimalMoves_ne_nil (d : Nat) (p : P) (hne : (g.moves p).isEmpty = false) (hlo : g.loss < mm g (d + 1) p) :
    optimalMoves g (d + 1) p ≠ [] := by
  have hmm : mm g (d + 1) p = mmFold (mm g d) g.loss (g.children p) := by simp [mm, hne]
  rcases mmFold_attained (mm g d) g.loss (g.children p) with h | ⟨c, hc, h⟩
  · omega
  · obtain ⟨m, hm, rfl⟩ := List.mem_map.mp hc
    intro hnil
    have : m ∈ optimalMoves g (d + 1) p := by
      simp only [optimalMoves, List.mem_filter, beq_iff_eq]
      exact ⟨hm, by omega⟩
    rw [hnil] at this
    cases this

/-! ### value bounds -/

theorem mm_ge_loss (hterm : ∀ p, g.loss ≤ g.term p) (hleafLo : ∀ p, g.loss ≤ g.leafExact p) :
    ∀ d p, g.loss ≤ mm g d p := by
  intro d p
  cases d with
  | zero => simp only [mm]; split; exact hterm p; exact hleafLo p
  | succ d => simp only [mm]; split; exact hterm p; exact le_mmFold _ _ _

/-- a position with a move is never worth more than `-loss` -/
theorem mm_le_of_moves (hterm : ∀ p, g.loss ≤ g.term p) (hleafLo : ∀ p, g.loss ≤ g.leafExact p)
    (hleafHi : ∀ p, g.leafExact p ≤ -g.loss) (hneg : g.loss ≤ 0)
    (d : Nat) (p : P) (hne : (g.moves p).isEmpty = false) : mm g d p ≤ -g.loss := by
  cases d with
  | zero => simp only [mm, hne]; exact hleafHi p
  | succ d =>
    simp only [mm, hne]
    apply mmFold_le _ _ _ _ (by omega)
    intro c _
    have := mm_ge_loss g hterm hleafLo d c
    omega

/-- `root_exact` without hypotheses on the root: it suffices that terminal and horizon values are not below `loss` and
horizon values not above `-loss` -/
theorem root_exact' (ho : IsOrder order) (hleaf : LeafOk g) (hneg : g.loss < 0)
    (hterm : ∀ p, g.loss ≤ g.term p) (hleafLo : ∀ p, g.loss ≤ g.leafExact p) (hleafHi : ∀ p, g.leafExact p ≤ -g.loss)
    (d : Nat) (p : P) : (ab g order d p g.loss (-g.loss)).1 = mm g d p := by
  by_cases hne : (g.moves p).isEmpty = true
  · cases d <;> simp [ab, mm, hne]
  · have hne' : (g.moves p).isEmpty = false := by simpa using hne
    exact root_exact g order ho hleaf d p hneg (mm_ge_loss g hterm hleafLo d p)
      (mm_le_of_moves g hterm hleafLo hleafHi (by omega) d p hne')

/-! ### the engine's horizon: quiescence or static value -/

theorem searchGame_leafOk (s : SearchGame P μ) (qorder : P → List μ → List μ) (hq : IsOrder qorder) :
    LeafOk (s.game qorder) := by
  intro p a b _ hab _
  simp only [SearchGame.game]
  split
  · exact quiescence_ok s.qgame qorder hq s.fuel p a b hab
  · exact Ok.refl _ _ _

/-- the game does not depend on the capture order as far as exact values are concerned -/
theorem searchGame_mm_qorder (s : SearchGame P μ) (q₁ q₂ : P → List μ → List μ) (d : Nat) (p : P) :
    mm (s.game q₁) d p = mm (s.game q₂) d p := by
  induction d generalizing p with
  | zero => rfl
  | succ d ih =>
    simp only [mm]
    show (if (s.moves p).isEmpty then s.term p else _) = (if (s.moves p).isEmpty then s.term p else _)
    split
    · rfl
    · exact mmFold_congr _ _ _ _ (fun c _ => ih c)

/-! ## Transposition table -/

/-- an entry tells the truth about the minimax value OF ITS OWN DRAFT -/
def EntryValid (g : Game P μ) (p : P) (e : Entry μ) : Prop :=
  match e.bound with
  | .exact => e.value = mm g e.depth p
  | .lower => e.value ≤ mm g e.depth p
  | .upper => mm g e.depth p ≤ e.value

def TTValid (g : Game P μ) (tt : P → Option (Entry μ)) : Prop := ∀ p e, tt p = some e → EntryValid g p e

/-- **the SameDraft restriction**: `draft p` is the remaining depth with which `p` is searched (it drops by one from a
node above the horizon to its children); no entry is deeper.
Then an entry accepted by the probe (`e.depth ≥ draft p`) has exactly the remaining draft.  For a table keyed by the
full position (clocks included) this holds for every depth, because the ply of a position is determined by its clocks;
for the engine's table, keyed by a hash that ignores the clocks, it needs `d ≤ 3` (C08 stops there). -/
def SameDraft (draft : P → Nat) (tt : P → Option (Entry μ)) : Prop := ∀ p e, tt p = some e → e.depth ≤ draft p

theorem ok_widen (m r α β α' β' : Int) (hα : α ≤ α') (hβ : β' ≤ β)
    (hlo : α < α' → α' ≤ m) (hhi : β' < β → m ≤ β') (h : Ok m r α' β') : Ok m r α β := by
  obtain ⟨a, b, c⟩ := h
  refine ⟨fun h => by omega, fun h => by omega, fun h1 h2 => ?_⟩
  by_cases x : r ≤ α'
  · have := a x; omega
  · by_cases y : β' ≤ r
    · have := b y; omega
    · exact c (by omega) (by omega)

/-- what the probe delivers for a valid entry of the same draft -/
theorem probe_spec (m : Int) (e : Option (Entry μ)) (d : Nat) (α β : Int) (hαβ : α < β)
    (hv : ∀ x, e = some x → x.depth ≥ d →
      match x.bound with | .exact => x.value = m | .lower => x.value ≤ m | .upper => m ≤ x.value) :
    match probe e d α β with
    | .inl r => Ok m r.1 α β
    | .inr (α', β') => α ≤ α' ∧ β' ≤ β ∧ α' < β' ∧ (α < α' → α' ≤ m) ∧ (β' < β → m ≤ β') := by
  cases e with
  | none => simp only [probe]; omega
  | some x =>
    simp only [probe]
    by_cases hd : x.depth ≥ d
    · have := hv x rfl hd
      simp only [hd, if_true]
      cases hb : x.bound with
      | exact =>
        simp only [hb] at this ⊢
        rw [this]; exact Ok.refl _ _ _
      | lower =>
        simp only [hb] at this ⊢
        by_cases hc : max α x.value ≥ β
        · simp only [hc, if_true]
          refine ⟨fun h => by omega, fun h => by omega, fun h1 h2 => by omega⟩
        · simp only [hc, if_false]; omega
      | upper =>
        simp only [hb] at this ⊢
        by_cases hc : α ≥ min β x.value
        · simp only [hc, if_true]
          refine ⟨fun h => by omega, fun h => by omega, fun h1 h2 => by omega⟩
        · simp only [hc, if_false]; omega
    · simp only [hd, if_false]; omega

section TT
variable {H : Type}

/-- state invariant threaded through the search -/
def Inv (g : Game P μ) (draft : P → Nat) (s : TState P μ H) : Prop := TTValid g s.tt ∧ SameDraft draft s.tt

theorem abTLoop_ok (g : Game P μ) (draft : P → Nat) (L : Int)
    (f : P → Int → Int → TState P μ H → (Int × Option μ) × TState P μ H) (e : P → Int) (child : μ → P)
    (cut : TState P μ H → μ → TState P μ H) (S : μ → Prop)
    (hcut : ∀ s m, (cut s m).tt = s.tt)
    (hf : ∀ m a b s, S m → L ≤ a → a < b → b ≤ -L → Inv g draft s →
      Ok (e (child m)) (f (child m) a b s).1.1 a b ∧ Inv g draft (f (child m) a b s).2)
    (cs : List μ) (α₀ α β best M : Int) (bm : Option μ) (s : TState P μ H)
    (hS : ∀ m ∈ cs, S m) (hs : Inv g draft s)
    (hL : L ≤ α₀) (hβ : β ≤ -L) (hαβ : α < β) (hα : α = max α₀ best)
    (h1 : best ≤ α₀ → M ≤ best) (h2 : α₀ < best → best = M) :
    Ok (mmFold e M (cs.map child)) (abTLoop f child cut cs α β best bm s).1.1 α₀ β ∧
      Inv g draft (abTLoop f child cut cs α β best bm s).2 := by
  induction cs generalizing α best M bm s with
  | nil =>
    simp only [abTLoop, List.map_nil, mmFold_nil]
    refine ⟨⟨h1, ?_, fun h _ => h2 h⟩, hs⟩
    intro h; omega
  | cons c cs ih =>
    simp only [abTLoop, List.map_cons, mmFold_cons]
    obtain ⟨⟨c1, c2, c3⟩, hs'⟩ := hf c (-β) (-α) s (hS c List.mem_cons_self) (by omega) (by omega) (by omega) hs
    have hS' : ∀ m ∈ cs, S m := fun m hm => hS m (List.mem_cons_of_mem _ hm)
    generalize f (child c) (-β) (-α) s = res at *
    obtain ⟨⟨r, rm⟩, s1⟩ := res
    simp only at c1 c2 c3 hs' ⊢
    generalize e (child c) = ec at *
    by_cases hv : -r > best
    · simp only [hv, if_true]
      by_cases hc : max α (-r) ≥ β
      · simp only [hc, if_true]
        have hmono := le_mmFold e (max M (-ec)) (cs.map child)
        generalize mmFold e (max M (-ec)) (cs.map child) = Mall at *
        refine ⟨⟨?_, ?_, ?_⟩, ?_⟩
        · intro h; omega
        · intro h; omega
        · intro h; omega
        · unfold Inv; rw [hcut]; exact hs'
      · simp only [hc, if_false]
        exact ih (max α (-r)) (-r) (max M (-ec)) (some c) s1 hS' hs' (by omega) (by omega) (by omega) (by omega)
    · simp only [hv, if_false]
      by_cases hc : max α best ≥ β
      · omega
      · simp only [hc, if_false]
        exact ih (max α best) best (max M (-ec)) bm s1 hS' hs' (by omega) (by omega) (by omega) (by omega)

theorem inv_store [DecidableEq P] (g : Game P μ) (draft : P → Nat) (s : TState P μ H) (p : P) (e : Entry μ)
    (hs : Inv g draft s) (hv : EntryValid g p e) (hd : e.depth ≤ draft p) : Inv g draft (s.store p e) := by
  constructor
  · intro x y hxy
    simp only [TState.store] at hxy
    split at hxy
    · cases hxy; subst x; exact hv
    · exact hs.1 x y hxy
  · intro x y hxy
    simp only [TState.store] at hxy
    split at hxy
    · cases hxy; subst x; exact hd
    · exact hs.2 x y hxy

/-- **alpha-beta with transposition table, killer/PV/TT-move ordering = minimax** (fail-soft contract), under the
SameDraft restriction; the table invariants are preserved by the stores -/
theorem abT_ok [DecidableEq P] (g : Game P μ) (hr : Heur P μ H) (ho : hr.IsOrder) (hleaf : LeafOk g)
    (draft : P → Nat) (hdraft : ∀ p m, m ∈ g.moves p → 0 < draft p → draft (g.child p m) + 1 = draft p) :
    ∀ d p α β s, draft p = d → g.loss ≤ α → α < β → β ≤ -g.loss → Inv g draft s →
      Ok (mm g d p) (abT g hr d p α β s).1.1 α β ∧ Inv g draft (abT g hr d p α β s).2 := by
  intro d
  induction d with
  | zero =>
    intro p α β s hdp hL h hU hs
    have hp := probe_spec (mm g 0 p) (s.tt p) 0 α β h (by
      intro x hx hxd
      have h1 := hs.1 p x hx
      have h2 := hs.2 p x hx
      have : x.depth = 0 := by omega
      unfold EntryValid at h1; rw [this] at h1; exact h1)
    unfold abT
    revert hp
    cases probe (s.tt p) 0 α β with
    | inl r => intro hp; exact ⟨hp, hs⟩
    | inr w =>
      obtain ⟨α', β'⟩ := w
      intro hp
      simp only at hp ⊢
      obtain ⟨w1, w2, w3, w4, w5⟩ := hp
      by_cases hne : (g.moves p).isEmpty = true
      · simp only [hne, if_true, mm]; exact ⟨Ok.refl _ _ _, hs⟩
      · have hne : (g.moves p).isEmpty = false := by simpa using hne
        simp only [hne, Bool.false_eq_true, if_false]
        refine ⟨?_, hs⟩
        apply ok_widen _ _ α β α' β' w1 w2 w4 w5
        simp only [mm, hne, Bool.false_eq_true, if_false] at w4 w5 ⊢
        exact hleaf p α' β' (by omega) w3 (by omega)
  | succ d ih =>
    intro p α β s hdp hL h hU hs
    have hp := probe_spec (mm g (d + 1) p) (s.tt p) (d + 1) α β h (by
      intro x hx hxd
      have h1 := hs.1 p x hx
      have h2 := hs.2 p x hx
      have : x.depth = d + 1 := by omega
      unfold EntryValid at h1; rw [this] at h1; exact h1)
    unfold abT
    revert hp
    cases probe (s.tt p) (d + 1) α β with
    | inl r => intro hp; exact ⟨hp, hs⟩
    | inr w =>
      obtain ⟨α', β'⟩ := w
      intro hp
      simp only at hp ⊢
      obtain ⟨w1, w2, w3, w4, w5⟩ := hp
      by_cases hne : (g.moves p).isEmpty = true
      · simp only [hne, if_true, mm]; exact ⟨Ok.refl _ _ _, hs⟩
      · have hne : (g.moves p).isEmpty = false := by simpa using hne
        simp only [hne, Bool.false_eq_true, if_false]
        have hloop := abTLoop_ok g draft g.loss (abT g hr d) (mm g d) (g.child p)
          (fun s m => { s with hints := hr.onCut s.hints (d + 1) p m }) (fun m => m ∈ g.moves p)
          (fun _ _ => rfl)
          (fun m a b s hm ha hab hb hs => ih (g.child p m) a b s (by have := hdraft p m hm (by omega); omega) ha hab hb hs)
          (hr.order s.hints (s.tt p) (d + 1) p (g.moves p)) α' α' β' g.loss g.loss none s
          (fun m hm => (ho _ _ _ _ _).mem_iff.mp hm) hs (by omega) (by omega) w3 (by omega)
          (fun _ => Int.le_refl _) (fun _ => rfl)
        rw [mmFold_perm _ _ ((ho s.hints (s.tt p) (d + 1) p (g.moves p)).map (g.child p))] at hloop
        have hmm : mm g (d + 1) p = mmFold (mm g d) g.loss (g.children p) := by simp [mm, hne]
        rw [← Game.children, ← hmm] at hloop
        generalize abTLoop (abT g hr d) (g.child p) _ _ α' β' g.loss none s = res at hloop
        obtain ⟨⟨r, rm⟩, s'⟩ := res
        obtain ⟨hok', hs'⟩ := hloop
        simp only at hok' hs' ⊢
        have hok := ok_widen _ _ α β α' β' w1 w2 w4 w5 hok'
        split
        · refine ⟨hok, ?_⟩
          apply inv_store g draft s' p _ hs' _ (by simp only; omega)
          unfold EntryValid
          simp only
          obtain ⟨a1, a2, a3⟩ := hok
          obtain ⟨b1, b2, b3⟩ := hok'
          by_cases x : r ≤ α
          · simp only [x, if_true]; exact a1 x
          · simp only [x, if_false]
            by_cases y : r ≥ β'
            · simp only [y, if_true]; exact b2 y
            · simp only [y, if_false]; exact a3 (by omega) (by omega)
        · exact ⟨hok, hs'⟩

/-- full window at the root, with transposition table and heuristics: the exact minimax value -/
theorem abT_root_exact [DecidableEq P] (g : Game P μ) (hr : Heur P μ H) (ho : hr.IsOrder) (hleaf : LeafOk g)
    (draft : P → Nat) (hdraft : ∀ p m, m ∈ g.moves p → 0 < draft p → draft (g.child p m) + 1 = draft p)
    (d : Nat) (p : P) (s : TState P μ H) (hd : draft p = d) (hs : Inv g draft s) (hneg : g.loss < 0)
    (hlo : g.loss ≤ mm g d p) (hhi : mm g d p ≤ -g.loss) :
    (abT g hr d p g.loss (-g.loss) s).1.1 = mm g d p ∧ Inv g draft (abT g hr d p g.loss (-g.loss) s).2 := by
  obtain ⟨⟨a, b, c⟩, hs'⟩ := abT_ok g hr ho hleaf draft hdraft d p g.loss (-g.loss) s hd (Int.le_refl _) (by omega)
    (Int.le_refl _) hs
  refine ⟨?_, hs'⟩
  by_cases h1 : (abT g hr d p g.loss (-g.loss) s).1.1 ≤ g.loss
  · have := a h1; omega
  · by_cases h2 : -g.loss ≤ (abT g hr d p g.loss (-g.loss) s).1.1
    · have := b h2; omega
    · exact c (by omega) (by omega)

/-- the empty table satisfies the invariants -/
theorem inv_empty (g : Game P μ) (draft : P → Nat) (h : H) : Inv g draft ({ tt := fun _ => none, hints := h } : TState P μ H) :=
  And.intro (fun _ _ hx => by cases hx) (fun _ _ hx => by cases hx)

/-- iterative deepening: the invariants survive a deeper iteration (all drafts grow) -/
theorem inv_deepen (g : Game P μ) (draft draft' : P → Nat) (hle : ∀ p, draft p ≤ draft' p) (s : TState P μ H)
    (hs : Inv g draft s) : Inv g draft' s :=
  And.intro hs.1 (fun p e hx => Nat.le_trans (hs.2 p e hx) (hle p))

end TT

end Inkayaku.Minimax

/-! ## The board instance: value ranges -/
namespace Inkayaku.SpecSearch
open Inkayaku.Board Inkayaku.Eval Inkayaku.Gen Inkayaku.Minimax

theorem winScore_val : winScore = 16777216 := by decide
theorem lossScore_val : lossScore = -16777216 := by decide
theorem drawScore_val : drawScore = 0 := by decide

theorem popcount_le (x : UInt64) : popcount x ≤ 64 := by
  unfold popcount bitsAsc
  have := List.length_filter_le (testU x) (List.range 64)
  simpa using this

theorem pieceValue_bound (s : Side) : 0 ≤ pieceValue s ∧ pieceValue s ≤ 137600 := by
  unfold pieceValue
  simp only [queenValue, rookValue, bishopValue, knightValue, pawnValue]
  have h1 := popcount_le s.queens
  have h2 := popcount_le s.rooks
  have h3 := popcount_le s.bishops
  have h4 := popcount_le s.knights
  have h5 := popcount_le s.pawns
  omega

/-- all piece-square entries of the current build are within ±50 -/
def tablesBounded (t : List (List (List Int))) : Bool :=
  t.all fun a => a.all fun u => u.all fun x => decide (-50 ≤ x) && decide (x ≤ 50)

theorem tables_bounded : tablesBounded whiteTables = true ∧ tablesBounded blackTables = true := by decide +kernel

theorem getD_mem_or {α : Type} (l : List α) (i : Nat) (d : α) : l.getD i d = d ∨ l.getD i d ∈ l := by
  rw [List.getD_eq_getElem?_getD]
  cases h : l[i]? with
  | none => left; rfl
  | some x => right; exact List.mem_of_getElem? h

theorem entry_bound (t : List (List (List Int))) (ht : tablesBounded t = true) (i j k : Nat) :
    -50 ≤ ((t.getD i []).getD j []).getD k 0 ∧ ((t.getD i []).getD j []).getD k 0 ≤ 50 := by
  unfold tablesBounded at ht
  simp only [List.all_eq_true, Bool.and_eq_true, decide_eq_true_eq] at ht
  rcases getD_mem_or ((t.getD i []).getD j []) k 0 with h | h
  · rw [h]; omega
  · rcases getD_mem_or (t.getD i []) j [] with h2 | h2
    · rw [h2] at h; cases h
    · rcases getD_mem_or t i [] with h3 | h3
      · rw [h3] at h2; cases h2
      · exact ht _ h3 _ h2 _ h

theorem foldl_add_bound (l : List Nat) (g : Nat → Int) (hg : ∀ s, -50 ≤ g s ∧ g s ≤ 50) (a : Int) :
    a - 50 * l.length ≤ l.foldl (fun acc s => acc + g s) a ∧ l.foldl (fun acc s => acc + g s) a ≤ a + 50 * l.length := by
  induction l generalizing a with
  | nil => simp
  | cons x xs ih =>
    simp only [List.foldl_cons, List.length_cons]
    have := ih (a + g x)
    have := hg x
    omega

theorem squareSum_bound (occ : UInt64) (tbl : List Int) (h : ∀ s, -50 ≤ tbl.getD s 0 ∧ tbl.getD s 0 ≤ 50) :
    -3200 ≤ squareSum occ tbl ∧ squareSum occ tbl ≤ 3200 := by
  unfold squareSum
  have := foldl_add_bound (bitsAsc occ) (fun s => tbl.getD s 0) h 0
  have hl : (bitsAsc occ).length ≤ 64 := popcount_le occ
  omega

theorem sideSquareSum_bound (s : Side) (t : List (List (List Int))) (ht : tablesBounded t = true) (stage : Nat) :
    -19200 ≤ sideSquareSum s (t.getD stage []) ∧ sideSquareSum s (t.getD stage []) ≤ 19200 := by
  unfold sideSquareSum
  have h0 := squareSum_bound s.pawns _ (entry_bound t ht stage 0)
  have h1 := squareSum_bound s.knights _ (entry_bound t ht stage 1)
  have h2 := squareSum_bound s.bishops _ (entry_bound t ht stage 2)
  have h3 := squareSum_bound s.rooks _ (entry_bound t ht stage 3)
  have h4 := squareSum_bound s.queens _ (entry_bound t ht stage 4)
  have h5 := squareSum_bound s.kings _ (entry_bound t ht stage 5)
  omega

/-- the static evaluation of the current build is far inside the score range -/
theorem evaluateOngoing_bound (b : Board) : -176000 ≤ evaluateOngoing b ∧ evaluateOngoing b ≤ 176000 := by
  unfold evaluateOngoing pieceSquareValue
  have hw := pieceValue_bound b.white
  have hb := pieceValue_bound b.black
  have h1 := sideSquareSum_bound b.white whiteTables tables_bounded.1 (gameStage b)
  have h2 := sideSquareSum_bound b.black blackTables tables_bounded.2 (gameStage b)
  simp only
  omega

theorem factor_cases (c : Nat) : Search.factor c = 1 ∨ Search.factor c = -1 := by
  unfold Search.factor; split <;> simp

theorem standPat_bound (b : Board) (c : Nat) :
    -176000 ≤ Search.evalFor b c true ∧ Search.evalFor b c true ≤ 176000 := by
  unfold Search.evalFor evaluate
  simp only [if_true]
  have h := evaluateOngoing_bound b
  have hd := drawScore_val
  rcases factor_cases c with hf | hf <;> rw [hf] <;> split <;> omega

/-- the value of a position without legal move, for its mover: `-(winScore - fullmove)` when in check, else 0 -/
theorem term_value (b : Board) (ht : b.turn ≤ 1) :
    Search.evalFor b b.turn false = if isCurrentInCheck b then lossScore + (b.fullmove : Int) else 0 := by
  unfold Search.evalFor Search.factor evaluate
  have hd := drawScore_val
  have hl : lossScore = -winScore := rfl
  have : b.turn = 0 ∨ b.turn = 1 := by omega
  rcases this with h | h <;> rw [h] <;> by_cases hc : isCurrentInCheck b = true <;> simp [hc, hd, hl] <;> omega

theorem term_ge_loss (b : Board) : lossScore ≤ Search.evalFor b b.turn false := by
  unfold Search.evalFor Search.factor evaluate
  have hd := drawScore_val
  have hl : lossScore = -winScore := rfl
  have hw := winScore_val
  by_cases h : (b.turn == 0) = true <;> by_cases hc : isCurrentInCheck b = true <;> simp [h, hc, hd, hl] <;> omega

theorem isOrder_natural : IsOrder natural := fun _ l => List.Perm.refl l
theorem isOrder_byMvvLva : IsOrder byMvvLva := fun _ l => List.mergeSort_perm l _
theorem isOrder_searchOrder : IsOrder searchOrder := isOrder_byMvvLva

theorem game_leafOk (qorder : Pos → List Move → List Move) (hq : IsOrder qorder) : LeafOk (chess.game qorder) :=
  searchGame_leafOk chess qorder hq

theorem game_loss (qorder : Pos → List Move → List Move) : (chess.game qorder).loss = lossScore := rfl

theorem game_term_ge (qorder : Pos → List Move → List Move) (p : Pos) :
    (chess.game qorder).loss ≤ (chess.game qorder).term p := term_ge_loss p.1

theorem game_leaf_bound (qorder : Pos → List Move → List Move) (p : Pos) :
    -176000 ≤ (chess.game qorder).leafExact p ∧ (chess.game qorder).leafExact p ≤ 176000 := by
  show -176000 ≤ (if chess.noisy p then Qexact chess.qgame chess.fuel p else chess.static p) ∧
    (if chess.noisy p then Qexact chess.qgame chess.fuel p else chess.static p) ≤ 176000
  split
  · exact Qexact_bound chess.qgame 176000 (fun p => standPat_bound p.1 p.1.turn) _ _
  · exact standPat_bound p.1 p.1.turn

/-! ## The board instance: forced mates -/

/-- minimax value of a position without `searchmoves` restriction -/
def V (d : Nat) (b : Board) : Int := mm game d (b, [])

theorem moves_nil (b : Board) : game.moves (b, []) = genLegal b := by
  simp [game, SearchGame.game, chess, rootMoves]

theorem make_turn (b : Board) (m : Move) : (make b m).turn = 1 - b.turn := rfl
theorem make_fullmove (b : Board) (m : Move) : (make b m).fullmove = b.fullmove + b.turn := rfl

theorem V_term (d : Nat) (b : Board) (h : genLegal b = []) : V d b = Search.evalFor b b.turn false := by
  cases d <;> simp [V, mm, moves_nil, h] <;> rfl

theorem V_zero (b : Board) (h : genLegal b ≠ []) : -176000 ≤ V 0 b ∧ V 0 b ≤ 176000 := by
  have : V 0 b = game.leafExact (b, []) := by simp [V, mm, moves_nil, h]
  rw [this]
  exact game_leaf_bound byMvvLva (b, [])

theorem V_succ (d : Nat) (b : Board) (h : genLegal b ≠ []) :
    V (d + 1) b = mmFold (fun p => V d p.1) lossScore ((genLegal b).map fun m => ((make b m, []) : Pos)) := by
  have : V (d + 1) b = mmFold (mm game d) lossScore (game.children (b, [])) := by
    simp [V, mm, moves_nil, h]; rfl
  rw [this]
  have hc : game.children (b, []) = (genLegal b).map fun m => ((make b m, []) : Pos) := by
    unfold Game.children; rw [moves_nil]; rfl
  rw [hc]
  apply mmFold_congr
  intro c hc
  obtain ⟨m, _, rfl⟩ := List.mem_map.mp hc
  rfl

/-- clocks in the range where mate scores and static values cannot be confused -/
def Small (b : Board) (d : Nat) : Prop := b.turn ≤ 1 ∧ b.fullmove + d < 1000000

theorem small_child {b : Board} {d : Nat} (h : Small b (d + 1)) (m : Move) : Small (make b m) d := by
  unfold Small at *
  rw [make_turn, make_fullmove]
  omega

theorem term_value' (b : Board) :
    Search.evalFor b b.turn false = if isCurrentInCheck b then lossScore + (b.fullmove : Int) else 0 := by
  unfold Search.evalFor Search.factor evaluate
  have hd := drawScore_val
  have hl : lossScore = -winScore := rfl
  by_cases h : (b.turn == 0) = true <;> by_cases hc : isCurrentInCheck b = true <;> simp [h, hc, hd, hl] <;> omega

/-- every value lies between "mated on the spot" and "mates with the next move" -/
theorem V_bounds : ∀ d b, Small b d →
    lossScore + (b.fullmove : Int) ≤ V d b ∧ V d b ≤ winScore - ((b.fullmove : Int) + (b.turn : Int)) := by
  have hw := winScore_val
  have hl := lossScore_val
  intro d
  induction d with
  | zero =>
    intro b hs
    obtain ⟨h1, h2⟩ := hs
    by_cases ht : genLegal b = []
    · rw [V_term 0 b ht, term_value']
      split <;> omega
    · have := V_zero b ht; omega
  | succ d ih =>
    intro b hs
    have hs' := hs
    obtain ⟨h1, h2⟩ := hs
    by_cases ht : genLegal b = []
    · rw [V_term _ b ht, term_value']
      split <;> omega
    · rw [V_succ d b ht]
      constructor
      · obtain ⟨m, hm⟩ := List.exists_mem_of_ne_nil _ ht
        have hmem : ((make b m, []) : Pos) ∈ (genLegal b).map fun m => ((make b m, []) : Pos) :=
          List.mem_map.mpr ⟨m, hm, rfl⟩
        have h3 := neg_le_mmFold (fun p => V d p.1) lossScore _ _ hmem
        have h4 := (ih (make b m) (small_child hs' m)).2
        simp only at h3
        rw [make_turn, make_fullmove] at h4
        omega
      · apply mmFold_le _ _ _ _ (by omega)
        intro c hc
        obtain ⟨m, _, rfl⟩ := List.mem_map.mp hc
        have h4 := (ih (make b m) (small_child hs' m)).1
        rw [make_fullmove] at h4
        simp only
        omega

theorem mateFull_grandchild (b : Board) (m m' : Move) (n : Nat) (ht : b.turn ≤ 1) :
    mateFull (make (make b m) m') n = mateFull b (n + 1) := by
  unfold mateFull
  rw [make_turn, make_turn, make_fullmove, make_fullmove, make_turn]
  omega

/-- completeness: a forced mate in `n` is seen by the depth `2n-1` minimax -/
theorem forcedMate_value : ∀ n b, Small b (2 * n) → ForcedMate n b → winScore - mateFull b n ≤ V (2 * n - 1) b := by
  have hw := winScore_val
  have hl := lossScore_val
  intro n
  induction n with
  | zero => intro b _ h; exact absurd h (by simp [ForcedMate])
  | succ k ih =>
    intro b hs hf
    obtain ⟨m, hm, hk⟩ := hf
    have hne : genLegal b ≠ [] := fun h => by rw [h] at hm; cases hm
    have hd : 2 * (k + 1) - 1 = 2 * k + 1 := by omega
    rw [hd, V_succ _ b hne]
    have hmem : ((make b m, []) : Pos) ∈ (genLegal b).map fun m => ((make b m, []) : Pos) :=
      List.mem_map.mpr ⟨m, hm, rfl⟩
    have h3 := neg_le_mmFold (fun p => V (2 * k) p.1) lossScore _ _ hmem
    simp only at h3
    obtain ⟨h1, h2⟩ := hs
    rcases hk with ⟨hnil, hchk⟩ | ⟨hne', hall⟩
    · rw [V_term _ _ hnil, term_value', hchk] at h3
      simp only [if_true] at h3
      rw [make_fullmove] at h3
      unfold mateFull
      omega
    · cases k with
      | zero =>
        obtain ⟨m', hm'⟩ := List.exists_mem_of_ne_nil _ hne'
        exact absurd (hall m' hm') (by simp [ForcedMate])
      | succ k' =>
        have e : V (2 * (k' + 1)) (make b m) = mmFold (fun p => V (2 * (k' + 1) - 1) p.1) lossScore
            ((genLegal (make b m)).map fun m' => ((make (make b m) m', []) : Pos)) := by
          have := V_succ (2 * (k' + 1) - 1) (make b m) hne'
          rwa [show 2 * (k' + 1) - 1 + 1 = 2 * (k' + 1) from by omega] at this
        rw [e] at h3
        have hub : mmFold (fun p => V (2 * (k' + 1) - 1) p.1) lossScore
            ((genLegal (make b m)).map fun m' => ((make (make b m) m', []) : Pos)) ≤ lossScore + mateFull b (k' + 1 + 1) := by
          apply mmFold_le
          · unfold mateFull; omega
          · intro c hc
            obtain ⟨m', hm', rfl⟩ := List.mem_map.mp hc
            have := ih (make (make b m) m') (by
              unfold Small; rw [make_turn, make_turn, make_fullmove, make_fullmove, make_turn]; omega) (hall m' hm')
            rw [mateFull_grandchild b m m' (k' + 1) h1] at this
            simp only
            omega
        omega

/-- a move after which the opponent's value is at most "mated by the mover's `K+1`-th move" keeps a forced mate in
`K+1`; `ih` = soundness for smaller depths -/
theorem keeps_aux (d : Nat) (b : Board) (K : Nat) (m : Move)
    (ih : ∀ d', d' < d → ∀ b K, Small b d' → mateFull b K ≤ 8388608 → winScore - mateFull b K ≤ V d' b → ForcedMate K b)
    (hs : Small b (d + 1)) (hK : mateFull b (K + 1) ≤ 8388608)
    (hv : V d (make b m) ≤ lossScore + mateFull b (K + 1)) : KeepsMate (ForcedMate K) b m := by
  have hw := winScore_val
  have hl := lossScore_val
  obtain ⟨h1, h2⟩ := hs
  have hK' := hK
  unfold mateFull at hv hK
  by_cases hct : genLegal (make b m) = []
  · left
    refine ⟨hct, ?_⟩
    rw [V_term _ _ hct, term_value', make_fullmove] at hv
    split at hv
    · assumption
    · omega
  · right
    refine ⟨hct, ?_⟩
    intro m' hm'
    cases d with
    | zero => have := V_zero _ hct; omega
    | succ d' =>
      rw [V_succ d' _ hct] at hv
      have hmem : ((make (make b m) m', []) : Pos) ∈
          (genLegal (make b m)).map fun m' => ((make (make b m) m', []) : Pos) :=
        List.mem_map.mpr ⟨m', hm', rfl⟩
      have h3 := neg_le_mmFold (fun p => V d' p.1) lossScore _ _ hmem
      simp only at h3
      apply ih d' (by omega) (make (make b m) m') K
        (by unfold Small; rw [make_turn, make_turn, make_fullmove, make_fullmove, make_turn]; omega)
        (by rw [mateFull_grandchild b m m' K h1]; exact hK')
      rw [mateFull_grandchild b m m' K h1]
      unfold mateFull
      omega

/-- soundness: a value in the mate range comes from a forced mate -/
theorem value_forcedMate : ∀ d b K, Small b d → mateFull b K ≤ 8388608 → winScore - mateFull b K ≤ V d b →
    ForcedMate K b := by
  have hw := winScore_val
  have hl := lossScore_val
  intro d
  induction d using Nat.strongRecOn with
  | ind d ih =>
    intro b K hs hK hv
    have hs' := hs
    obtain ⟨h1, h2⟩ := hs
    have hb := V_bounds d b hs'
    by_cases ht : genLegal b = []
    · rw [V_term _ b ht, term_value'] at hv
      unfold mateFull at hv hK
      split at hv <;> omega
    · cases d with
      | zero => have := V_zero b ht; unfold mateFull at hv hK; omega
      | succ d =>
        cases K with
        | zero => unfold mateFull at hv; omega
        | succ K' =>
          rw [V_succ d b ht] at hv
          rcases mmFold_attained (fun p => V d p.1) lossScore ((genLegal b).map fun m => ((make b m, []) : Pos))
            with h | ⟨c, hc, h⟩
          · unfold mateFull at hv hK; omega
          · obtain ⟨m, hm, rfl⟩ := List.mem_map.mp hc
            simp only at h
            refine ⟨m, hm, ?_⟩
            exact keeps_aux d b K' m (fun d' hd' => ih d' (by omega)) hs' hK (by omega)

theorem keeps_of_value (d : Nat) (b : Board) (K : Nat) (m : Move) (hs : Small b (d + 1))
    (hK : mateFull b (K + 1) ≤ 8388608)
    (hv : V d (make b m) ≤ lossScore + mateFull b (K + 1)) : KeepsMate (ForcedMate K) b m :=
  keeps_aux d b K m (fun d' _ => value_forcedMate d') hs hK hv

/-! ## The board instance: the root value is strictly inside the score range -/

theorem root_bounds (d : Nat) (b : Board) (only : List String) (hs : Small b (d + 1)) (hfm : 1 ≤ b.fullmove)
    (hne : (rootMoves b only).isEmpty = false) :
    lossScore < mm game (d + 1) (b, only) ∧ mm game (d + 1) (b, only) < winScore := by
  have hw := winScore_val
  have hl := lossScore_val
  have hmoves : game.moves (b, only) = rootMoves b only := rfl
  have hmm : mm game (d + 1) (b, only) = mmFold (mm game d) lossScore (game.children (b, only)) := by
    simp only [mm, hmoves, hne, Bool.false_eq_true, if_false]; rfl
  rw [hmm]
  obtain ⟨h1, h2⟩ := hs
  constructor
  · cases hr : rootMoves b only with
    | nil => rw [hr] at hne; simp at hne
    | cons m ms =>
      have hmem : ((make b m, []) : Pos) ∈ game.children (b, only) := by
        unfold Game.children; rw [hmoves, hr]; exact List.mem_cons_self
      have h3 := neg_le_mmFold (mm game d) lossScore _ _ hmem
      have h4 := (V_bounds d (make b m) (small_child ⟨h1, h2⟩ m)).2
      unfold V at h4
      rw [make_turn, make_fullmove] at h4
      omega
  · have : mmFold (mm game d) lossScore (game.children (b, only)) ≤ winScore - 1 := by
      apply mmFold_le _ _ _ _ (by omega)
      intro c hc
      obtain ⟨m, _, rfl⟩ := List.mem_map.mp hc
      have h4 := (V_bounds d (make b m) (small_child ⟨h1, h2⟩ m)).1
      unfold V at h4
      rw [make_fullmove] at h4
      show - mm game d (make b m, []) ≤ winScore - 1
      omega
    omega

end Inkayaku.SpecSearch
