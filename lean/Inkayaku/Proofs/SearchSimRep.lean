import Inkayaku.Props.C10
import Inkayaku.Proofs.SearchDepth1
/-!
# C08, simulation step 2: the repetition test is inert within three plies of a fresh history

`count_repetitions(start, hm) ≥ 3` needs two earlier plies `j1 < j2 ≤ start − 4` inside the half-move window that carry
the hash stored at `start` (`C10.countRepetitions_spec_exists`).  For a node at most three plies below a root with ply
clock `r` (`start ≤ r + 3`) both lie strictly BELOW the root index: the entries at the indices `r … start` – the current
line, and whatever earlier branches and iterations left there – are never counted (same parity leaves `start − 2`, which
`count_repetitions` skips, and `start` itself), and entries above `start` are never read.  Hence the test can only fire
on what the history holds below the root:

* `countRepetitions_inert`      – the counting fact, for any history function;
* `countRepetitions_inert_window` – in particular it never fires when the half-move window does not reach below the root;
* `HistZero r s`                – the cells below `r` are zero (a fresh `set_position` history: `setPosition_histZero`);
                                  preserved by `enter` at any board with `r ≤ plyClock`;
* `isRep_enter_false`           – with `HistZero`, a non-zero hash and `r ≤ plyClock ≤ r + 3` the repetition return of
                                  `search_negamax` is not taken.
-/
namespace Inkayaku.SearchSim
open Inkayaku.Board Inkayaku.History Inkayaku.Search

/-- **the counting fact**: if no cell below `r` that lies in the half-move window holds the hash stored at `start`, and
`start` is at most three plies above `r`, fewer than three repetitions are counted – whatever the cells `r … start`
(current line, stale entries of earlier branches) and the cells above `start` contain -/
theorem countRepetitions_inert (h : Nat → Nat) (start hm r : Nat) (hr : start ≤ r + 3)
    (hfresh : ∀ j, j < r → start - hm ≤ j → h j ≠ h start) : ¬ countRepetitions h start hm ≥ 3 := by
  intro h3
  obtain ⟨j1, j2, h12, h2, hw, _, _, e1, _⟩ := (C10.countRepetitions_spec_exists h start hm).mp h3
  exact hfresh j1 (by omega) hw e1

/-- a position cannot occur three times within four plies: when the window does not reach below the root, nothing is
counted at all -/
theorem countRepetitions_inert_window (h : Nat → Nat) (start hm r : Nat) (hr : start ≤ r + 3) (hw : r ≤ start - hm) :
    ¬ countRepetitions h start hm ≥ 3 :=
  countRepetitions_inert h start hm r hr (fun j hj hj' => by omega)

/-- at most two occurrences: the exact bound behind the previous statement -/
theorem countRepetitions_le_one_of_window (h : Nat → Nat) (start hm r : Nat) (hr : start ≤ r + 3) (hw : r ≤ start - hm) :
    countRepetitions h start hm ≤ 1 := by
  rw [countRepetitions_eq]
  have : repCount h start hm = 0 := by
    unfold repCount repIndices
    rw [← List.countP_eq_length_filter, List.countP_eq_zero]
    intro j hj
    have hj' : j < start - 3 := List.mem_range.mp hj
    have : ¬ start - hm ≤ j := by omega
    simp [this]
  split <;> omega

/-! ## the history array of the search state -/

theorem historySet_eq (h : Array Nat) (i v : Nat) : historySet h i v = ((⟨h⟩ : ZobristHistory).set i v).history := rfl

theorem getD_historySet (h : Array Nat) (i v j : Nat) :
    (historySet h i v).getD j 0 = if j = i then v else h.getD j 0 :=
  ZobristHistory.get_set ⟨h⟩ i v j

/-- the cells below `r` are zero -/
def HistZero (r : Nat) (s : St) : Prop := ∀ j, j < r → s.history.getD j 0 = 0

theorem histZero_historySet {r : Nat} {s : St} (h : HistZero r s) (i v : Nat) (hi : r ≤ i) :
    HistZero r { s with history := historySet s.history i v } := by
  intro j hj
  show (historySet s.history i v).getD j 0 = 0
  rw [getD_historySet, if_neg (by omega)]
  exact h j hj

/-- what `enter` does when the flag poll does not interfere: count the node, record the hash (and possibly emit a
periodic info line) -/
def EnterShape (s : St) (hash : UInt64) : Prop :=
  ∃ o, enter s hash = { s with negamaxNodes := s.negamaxNodes + 1,
                               history := historySet s.history (plyClock s.board) hash.toNat, out := o }

theorem enterShape_of_noFlag {s : St} (h : pollFlag s = false) (hash : UInt64) : EnterShape s hash :=
  ⟨s.out, by rw [enter_of_noFlag h]⟩

theorem enter_history_of_noFlag {s : St} (h : pollFlag s = false) (hash : UInt64) :
    (enter s hash).history = historySet s.history (plyClock s.board) hash.toNat := by
  rw [enter_of_noFlag h]

/-- **the repetition return is not taken**: fresh history below the root, non-zero hash, at most three plies below the
root -/
theorem isRep_enter_false' {r : Nat} {s : St} (hz : HistZero r s) (hash : UInt64) (hent : EnterShape s hash) (ply : Nat)
    (hlo : r ≤ plyClock s.board) (hhi : plyClock s.board ≤ r + 3) (hne : hash.toNat ≠ 0) :
    isRep (enter s hash) ply = false := by
  unfold isRep
  have hb : (enter s hash).board = s.board := enter_board s hash
  obtain ⟨o, he⟩ := hent
  have hh : (enter s hash).history = historySet s.history (plyClock s.board) hash.toNat := by rw [he]
  rw [hb, hh]
  have : ¬ countRepetitions (fun i => (historySet s.history (plyClock s.board) hash.toNat).getD i 0)
      (plyClock s.board) (s.board.halfmove % 65536) ≥ 3 := by
    apply countRepetitions_inert _ _ _ r hhi
    intro j hj _
    simp only [getD_historySet, if_true]
    rw [if_neg (by omega), hz j hj]
    exact fun e => hne e.symm
  rw [decide_eq_false this, Bool.and_false]

theorem isRep_enter_false {r : Nat} {s : St} (hz : HistZero r s) (hnf : pollFlag s = false) (hash : UInt64) (ply : Nat)
    (hlo : r ≤ plyClock s.board) (hhi : plyClock s.board ≤ r + 3) (hne : hash.toNat ≠ 0) :
    isRep (enter s hash) ply = false :=
  isRep_enter_false' hz hash (enterShape_of_noFlag hnf hash) ply hlo hhi hne

/-- the root node (`ply = 0`) is never tested -/
theorem isRep_zero (s : St) : isRep s 0 = false := by
  unfold isRep
  simp

/-! ## a fresh `position` command -/

theorem getD_replicate_zero (n j : Nat) : (Array.replicate n 0).getD j 0 = 0 := by
  rw [Array.getD_eq_getD_getElem?, Array.getElem?_replicate]
  split <;> rfl

/-- after `position <fen>` without moves the history holds the root hash at the root's ply clock and zeros elsewhere -/
theorem setPosition_nil (s : St) (b : Board) :
    setPosition s b [] =
      { s with board := b, history := historySet (Array.replicate 5000 0) (plyClock b) (Zobrist.hash b).toNat,
               playedMoves := [] } := by
  unfold setPosition
  generalize historySet (Array.replicate 5000 0) (plyClock b) (Zobrist.hash b).toNat = h0
  dsimp only
  rw [setPosition.go.eq_def]
  rfl

theorem histZero_replicate (r : Nat) (s : St) (b : Board) (pm : List Move) :
    HistZero r { s with board := b, history := Array.replicate 5000 0, playedMoves := pm } :=
  fun j _ => getD_replicate_zero 5000 j

theorem setPosition_histZero (s : St) (b : Board) : HistZero (plyClock b) (setPosition s b []) := by
  rw [setPosition_nil]
  exact histZero_historySet (histZero_replicate (plyClock b) s b []) (plyClock b) (Zobrist.hash b).toNat (Nat.le_refl _)

end Inkayaku.SearchSim
