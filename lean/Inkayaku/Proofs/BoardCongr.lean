import Inkayaku.Model.WF
import Inkayaku.Model.Eval
import Inkayaku.Model.Zobrist
/-!
# The board functions used by the search depend on the visible position only (hypothesis H3 of C09, PROVED here)

`WF.vis b` is `b` without the two scratch occupancy words (`occupancy[NO_PIECE]` of either side) that `make`/`unmake`
scribble on.  Every board function the search thread calls reads the scratch word only inside `Side.get … 0` in
`make`/`unmake`, where the value flows back into the scratch word.  Hence

* `genPseudo`, `genNonQuiescent`, `isValid`, `wf`, `evaluate`, `Zobrist.hash`, `Zobrist.pawnHash`, `plyClock`, `turn`,
  `halfmove` agree on boards with the same visible position (`*_congr`),
* `make` and `unmake` map boards with the same visible position to boards with the same visible position.

Self-contained (does not import the make/unmake proofs of C03).
-/
namespace Inkayaku.BoardCongr
open Inkayaku.Board Inkayaku.WF

set_option maxRecDepth 2000

/-! ## functions that never read the scratch word -/

theorem genPseudo_vis (b : Board) : genPseudo (vis b) = genPseudo b := by
  obtain ⟨⟨a0, a1, a2, a3, a4, a5, a6, a7, a8⟩, ⟨b0, b1, b2, b3, b4, b5, b6, b7, b8⟩, t, e, fm, hm⟩ := b
  rcases t with _ | t <;> rfl

theorem genNonQuiescent_vis (b : Board) : genNonQuiescent (vis b) = genNonQuiescent b := by
  obtain ⟨⟨a0, a1, a2, a3, a4, a5, a6, a7, a8⟩, ⟨b0, b1, b2, b3, b4, b5, b6, b7, b8⟩, t, e, fm, hm⟩ := b
  rcases t with _ | t <;> rfl

theorem inCheck_vis (b : Board) (c : Nat) : inCheck (vis b) c = inCheck b c := by
  obtain ⟨⟨a0, a1, a2, a3, a4, a5, a6, a7, a8⟩, ⟨b0, b1, b2, b3, b4, b5, b6, b7, b8⟩, t, e, fm, hm⟩ := b
  rcases c with _ | c <;> rfl

theorem isValid_vis (b : Board) : isValid (vis b) = isValid b := by
  unfold isValid; rw [inCheck_vis]; rfl

theorem wf_vis (b : Board) : wf (vis b) = wf b := by
  unfold wf
  rw [isValid_vis]
  obtain ⟨⟨a0, a1, a2, a3, a4, a5, a6, a7, a8⟩, ⟨b0, b1, b2, b3, b4, b5, b6, b7, b8⟩, t, e, fm, hm⟩ := b
  rfl

theorem evaluate_vis (b : Board) (l : Bool) : Eval.evaluate (vis b) l = Eval.evaluate b l := by
  unfold Eval.evaluate isCurrentInCheck
  rw [inCheck_vis]
  obtain ⟨⟨a0, a1, a2, a3, a4, a5, a6, a7, a8⟩, ⟨b0, b1, b2, b3, b4, b5, b6, b7, b8⟩, t, e, fm, hm⟩ := b
  rfl

theorem hash_vis (b : Board) : Zobrist.hash (vis b) = Zobrist.hash b := by
  obtain ⟨⟨a0, a1, a2, a3, a4, a5, a6, a7, a8⟩, ⟨b0, b1, b2, b3, b4, b5, b6, b7, b8⟩, t, e, fm, hm⟩ := b
  rfl

theorem pawnHash_vis (b : Board) : Zobrist.pawnHash (vis b) = Zobrist.pawnHash b := by
  obtain ⟨⟨a0, a1, a2, a3, a4, a5, a6, a7, a8⟩, ⟨b0, b1, b2, b3, b4, b5, b6, b7, b8⟩, t, e, fm, hm⟩ := b
  rfl

theorem turn_vis (b : Board) : (vis b).turn = b.turn := rfl
theorem halfmove_vis (b : Board) : (vis b).halfmove = b.halfmove := rfl
theorem fullmove_vis (b : Board) : (vis b).fullmove = b.fullmove := rfl
theorem ep_vis (b : Board) : (vis b).ep = b.ep := rfl
theorem plyClock_vis (b : Board) : plyClock (vis b) = plyClock b := rfl

/-! ## `make` / `unmake` side by side -/

theorem visSide_update_congr {s s' : Side} (h : visSide s = visSide s') (p : Nat) (F : UInt64 → UInt64) :
    visSide (s.set p (F (s.get p))) = visSide (s'.set p (F (s'.get p))) := by
  obtain ⟨a0, a1, a2, a3, a4, a5, a6, a7, a8⟩ := s
  obtain ⟨b0, b1, b2, b3, b4, b5, b6, b7, b8⟩ := s'
  simp only [visSide, Side.mk.injEq, true_and] at h
  obtain ⟨h1, h2, h3, h4, h5, h6, h7, h8⟩ := h
  subst h1 h2 h3 h4 h5 h6 h7 h8
  rcases p with _|_|_|_|_|_|_|p <;> rfl

def epVictim (white : Bool) (tgtM : UInt64) : UInt64 := if white then tgtM <<< 8 else tgtM >>> 8

def dropRights (s : Side) (k q : Bool) : Side :=
  { s with ks := if k then false else s.ks, qs := if q then false else s.qs }
def giveRights (s : Side) (k q : Bool) : Side :=
  { s with ks := if k then true else s.ks, qs := if q then true else s.qs }

/-- what `makeF` does to the side that moves -/
def mkMover (f : MoveF) (s : Side) : Side :=
  let s := dropRights s f.selfLostKing f.selfLostQueen
  let srcM := bitU f.source
  let tgtM := bitU f.target
  if f.castle then
    match castleRook f.target with
    | some (rs, rt) => { s with rooks := clearBit s.rooks (bitU rs) ||| bitU rt, kings := clearBit s.kings srcM ||| tgtM }
    | none => s
  else if f.enPassant then { s with pawns := clearBit s.pawns srcM ||| tgtM }
  else if f.promotion != NO_PIECE then
    let s := { s with pawns := clearBit s.pawns srcM }
    s.set f.promotion (s.get f.promotion ||| tgtM)
  else s.set f.pieceMoved (clearBit (s.get f.pieceMoved) srcM ||| tgtM)

/-- what `makeF` does to the other side (`white` = white is moving) -/
def mkOther (f : MoveF) (white : Bool) (s : Side) : Side :=
  let s := dropRights s f.oppLostKing f.oppLostQueen
  let tgtM := bitU f.target
  if f.castle then s
  else if f.enPassant then { s with pawns := clearBit s.pawns (epVictim white tgtM) }
  else s.set f.pieceAttacked (clearBit (s.get f.pieceAttacked) tgtM)

/-- what `unmakeF` does to the side that moved -/
def unMover (f : MoveF) (s : Side) : Side :=
  let s := giveRights s f.selfLostKing f.selfLostQueen
  let srcM := bitU f.source
  let tgtM := bitU f.target
  if f.castle then
    match castleRook f.target with
    | some (rs, rt) => { s with rooks := clearBit s.rooks (bitU rt) ||| bitU rs, kings := clearBit s.kings tgtM ||| srcM }
    | none => s
  else if f.enPassant then { s with pawns := clearBit s.pawns tgtM ||| srcM }
  else if f.promotion != NO_PIECE then
    let s := { s with pawns := s.pawns ||| srcM }
    s.set f.promotion (clearBit (s.get f.promotion) tgtM)
  else s.set f.pieceMoved (clearBit (s.get f.pieceMoved ||| srcM) tgtM)

/-- what `unmakeF` does to the other side (`white` = white made the move) -/
def unOther (f : MoveF) (white : Bool) (s : Side) : Side :=
  let s := giveRights s f.oppLostKing f.oppLostQueen
  let tgtM := bitU f.target
  if f.castle then s
  else if f.enPassant then s.set f.pieceAttacked (s.get f.pieceAttacked ||| epVictim white tgtM)
  else s.set f.pieceAttacked (s.get f.pieceAttacked ||| tgtM)

theorem makeF_eq (b : Board) (f : MoveF) : makeF b f =
    { white := if b.whiteTurn then mkMover f b.active else mkOther f b.whiteTurn b.passive
      black := if b.whiteTurn then mkOther f b.whiteTurn b.passive else mkMover f b.active
      turn := 1 - b.turn
      ep := f.nextEp
      fullmove := b.fullmove + b.turn
      halfmove := if f.halfmoveReset then 0 else b.halfmove + 1 } := by
  unfold makeF mkMover mkOther dropRights epVictim
  cases f.castle <;> cases f.enPassant <;> cases (f.promotion != NO_PIECE) <;> cases castleRook f.target <;> rfl

theorem unmakeF_eq (b : Board) (f : MoveF) : unmakeF b f =
    { white := if b.whiteTurn then unOther f (!b.whiteTurn) b.white else unMover f b.white
      black := if b.whiteTurn then unMover f b.black else unOther f (!b.whiteTurn) b.black
      turn := 1 - b.turn
      ep := f.prevEp
      fullmove := b.fullmove - (1 - b.turn)
      halfmove := f.prevHalfmove } := by
  unfold unmakeF unMover unOther giveRights epVictim
  cases b.whiteTurn <;> cases f.castle <;> cases f.enPassant <;> cases (f.promotion != NO_PIECE)
    <;> cases castleRook f.target <;> rfl

theorem side_split {s s' : Side} (h : visSide s = visSide s') :
    ∃ x, s' = { s with o0 := x } := by
  obtain ⟨a0, a1, a2, a3, a4, a5, a6, a7, a8⟩ := s
  obtain ⟨b0, b1, b2, b3, b4, b5, b6, b7, b8⟩ := s'
  simp only [visSide, Side.mk.injEq, true_and] at h
  obtain ⟨h1, h2, h3, h4, h5, h6, h7, h8⟩ := h
  subst h1 h2 h3 h4 h5 h6 h7 h8
  exact ⟨b0, rfl⟩

theorem mkMover_congr (f : MoveF) {s s' : Side} (h : visSide s = visSide s') :
    visSide (mkMover f s) = visSide (mkMover f s') := by
  obtain ⟨x, rfl⟩ := side_split h
  obtain ⟨a0, a1, a2, a3, a4, a5, a6, a7, a8⟩ := s
  unfold mkMover dropRights
  cases f.castle
  · cases f.enPassant
    · cases (f.promotion != NO_PIECE)
      · simp only [Bool.false_eq_true, if_false]
        exact visSide_update_congr (by rfl) _ (fun y => clearBit y (bitU f.source) ||| bitU f.target)
      · simp only [Bool.false_eq_true, if_false, if_true]
        exact visSide_update_congr (by rfl) _ (fun y => y ||| bitU f.target)
    · rfl
  · cases castleRook f.target <;> rfl

theorem mkOther_congr (f : MoveF) (white : Bool) {s s' : Side} (h : visSide s = visSide s') :
    visSide (mkOther f white s) = visSide (mkOther f white s') := by
  obtain ⟨x, rfl⟩ := side_split h
  obtain ⟨a0, a1, a2, a3, a4, a5, a6, a7, a8⟩ := s
  unfold mkOther dropRights
  cases f.castle
  · cases f.enPassant
    · simp only [Bool.false_eq_true, if_false]
      exact visSide_update_congr (by rfl) _ (fun y => clearBit y (bitU f.target))
    · rfl
  · rfl

theorem unMover_congr (f : MoveF) {s s' : Side} (h : visSide s = visSide s') :
    visSide (unMover f s) = visSide (unMover f s') := by
  obtain ⟨x, rfl⟩ := side_split h
  obtain ⟨a0, a1, a2, a3, a4, a5, a6, a7, a8⟩ := s
  unfold unMover giveRights
  cases f.castle
  · cases f.enPassant
    · cases (f.promotion != NO_PIECE)
      · simp only [Bool.false_eq_true, if_false]
        exact visSide_update_congr (by rfl) _ (fun y => clearBit (y ||| bitU f.source) (bitU f.target))
      · simp only [Bool.false_eq_true, if_false, if_true]
        exact visSide_update_congr (by rfl) _ (fun y => clearBit y (bitU f.target))
    · rfl
  · cases castleRook f.target <;> rfl

theorem unOther_congr (f : MoveF) (white : Bool) {s s' : Side} (h : visSide s = visSide s') :
    visSide (unOther f white s) = visSide (unOther f white s') := by
  obtain ⟨x, rfl⟩ := side_split h
  obtain ⟨a0, a1, a2, a3, a4, a5, a6, a7, a8⟩ := s
  unfold unOther giveRights
  cases f.castle
  · cases f.enPassant
    · simp only [Bool.false_eq_true, if_false]
      exact visSide_update_congr (by rfl) _ (fun y => y ||| bitU f.target)
    · simp only [Bool.false_eq_true, if_false, if_true]
      exact visSide_update_congr (by rfl) _ (fun y => y ||| epVictim white (bitU f.target))
  · rfl

theorem makeF_congr (f : MoveF) {b b' : Board} (h : vis b = vis b') : vis (makeF b f) = vis (makeF b' f) := by
  obtain ⟨w, k, t, e, fm, hm⟩ := b
  obtain ⟨w', k', t', e', fm', hm'⟩ := b'
  simp only [vis, Board.mk.injEq] at h
  obtain ⟨hw, hk, rfl, rfl, rfl, rfl⟩ := h
  rw [makeF_eq, makeF_eq]
  simp only [vis, Board.whiteTurn, Board.active, Board.passive, Board.mk.injEq, and_true]
  by_cases ht : (t == 0) = true
  · simp only [ht, if_true]
    exact ⟨mkMover_congr f hw, mkOther_congr f _ hk⟩
  · simp only [ht]
    exact ⟨mkOther_congr f _ hw, mkMover_congr f hk⟩

theorem unmakeF_congr (f : MoveF) {b b' : Board} (h : vis b = vis b') : vis (unmakeF b f) = vis (unmakeF b' f) := by
  obtain ⟨w, k, t, e, fm, hm⟩ := b
  obtain ⟨w', k', t', e', fm', hm'⟩ := b'
  simp only [vis, Board.mk.injEq] at h
  obtain ⟨hw, hk, rfl, rfl, rfl, rfl⟩ := h
  rw [unmakeF_eq, unmakeF_eq]
  simp only [vis, Board.whiteTurn, Board.mk.injEq, and_true]
  by_cases ht : (t == 0) = true
  · simp only [ht, if_true]
    exact ⟨unOther_congr f _ hw, unMover_congr f hk⟩
  · simp only [ht]
    exact ⟨unMover_congr f hw, unOther_congr f _ hk⟩

/-! ## the congruence statements (H3) -/

theorem vis_vis (b : Board) : vis (vis b) = vis b := rfl

theorem genPseudo_congr {b b' : Board} (h : vis b = vis b') : genPseudo b = genPseudo b' := by
  rw [← genPseudo_vis b, h, genPseudo_vis]
theorem genNonQuiescent_congr {b b' : Board} (h : vis b = vis b') : genNonQuiescent b = genNonQuiescent b' := by
  rw [← genNonQuiescent_vis b, h, genNonQuiescent_vis]
theorem isValid_congr {b b' : Board} (h : vis b = vis b') : isValid b = isValid b' := by
  rw [← isValid_vis b, h, isValid_vis]
theorem wf_congr {b b' : Board} (h : vis b = vis b') : wf b = wf b' := by
  rw [← wf_vis b, h, wf_vis]
theorem evaluate_congr {b b' : Board} (h : vis b = vis b') (l : Bool) : Eval.evaluate b l = Eval.evaluate b' l := by
  rw [← evaluate_vis b, h, evaluate_vis]
theorem hash_congr {b b' : Board} (h : vis b = vis b') : Zobrist.hash b = Zobrist.hash b' := by
  rw [← hash_vis b, h, hash_vis]
theorem pawnHash_congr {b b' : Board} (h : vis b = vis b') : Zobrist.pawnHash b = Zobrist.pawnHash b' := by
  rw [← pawnHash_vis b, h, pawnHash_vis]
theorem turn_congr {b b' : Board} (h : vis b = vis b') : b.turn = b'.turn := by
  rw [← turn_vis b, h, turn_vis]
theorem halfmove_congr {b b' : Board} (h : vis b = vis b') : b.halfmove = b'.halfmove := by
  rw [← halfmove_vis b, h, halfmove_vis]
theorem plyClock_congr {b b' : Board} (h : vis b = vis b') : plyClock b = plyClock b' := by
  rw [← plyClock_vis b, h, plyClock_vis]
theorem make_congr {b b' : Board} (h : vis b = vis b') (m : Move) : vis (make b m) = vis (make b' m) :=
  makeF_congr m.f h
theorem unmake_congr {b b' : Board} (h : vis b = vis b') (m : Move) : vis (unmake b m) = vis (unmake b' m) :=
  unmakeF_congr m.f h
theorem isMoveLegal_congr {b b' : Board} (h : vis b = vis b') (m : Move) : isMoveLegal b m = isMoveLegal b' m :=
  isValid_congr (make_congr h m)

end Inkayaku.BoardCongr
