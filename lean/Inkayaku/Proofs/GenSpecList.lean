import Inkayaku.Proofs.GenOK
import Inkayaku.Proofs.Attack
/-!
# C01, part 1: the fold-based generators as plain list expressions

Every generator loop of `Model/Board.lean` has the shape `xs.foldl (fun acc x => acc ++ g x) acc`; this file rewrites
each of them (for EVERY board, no hypothesis) into `acc ++ xs.flatMap g`:

* `mkL` = the zero-or-one moves `make_move` pushes, `attacksL`, `slidingL`, `singleL`, `promotionsL`, `pawnAttacksL`,
  `pawnMovesL`, `castleL` = the lists appended by the corresponding generator;
* `genPseudo_eq`, `genNonQuiescent_eq`: the two generators as concatenations of those lists (same order as the Rust).

It then proves what `make_move` stores (`mkF`, `mkL_false`, `mkL_true`): for arguments that fit their bit fields the
decoded move is the record `mkF …`, and the `nq` early return is exactly the filter "capture or promotion".
-/
namespace Inkayaku.GenSpec
open Inkayaku.Board Inkayaku.Gen Inkayaku.MoveBits Inkayaku.GenOK

/-! ## generic fold lemma -/

theorem pushOpt_eq (acc : List Move) (o : Option Move) : pushOpt acc o = acc ++ o.toList := by
  cases o <;> simp [pushOpt]

theorem foldl_append {α : Type} (xs : List α) (step : List Move → α → List Move) (g : α → List Move)
    (h : ∀ acc x, x ∈ xs → step acc x = acc ++ g x) (acc : List Move) :
    xs.foldl step acc = acc ++ xs.flatMap g := by
  induction xs generalizing acc with
  | nil => simp
  | cons x xs ih =>
    rw [List.foldl_cons, h acc x (List.mem_cons_self ..), ih (fun a y hy => h a y (List.mem_cons_of_mem _ hy)),
      List.flatMap_cons, List.append_assoc]

/-! ## list forms -/

/-- the zero or one moves pushed by one `make_move` call -/
def mkL (b : Board) (nq : Bool) (src tgt piece : Nat) (castle ep : Bool) (promo epOpp : Nat) : List Move :=
  (mkMove b nq src tgt piece castle ep promo epOpp).toList

def attacksL (b : Board) (nq : Bool) (src : Nat) (att : UInt64) (piece : Nat) : List Move :=
  (bitsAsc att).flatMap fun tgt => mkL b nq src tgt piece false false NO_PIECE 0

def slidingL (b : Board) (nq : Bool) (pieceOcc activeOcc fullOcc : UInt64) (rook : Bool) (piece : Nat) : List Move :=
  (bitsAsc pieceOcc).flatMap fun src =>
    attacksL b nq src ((if rook then rookAttacks src fullOcc else bishopAttacks src fullOcc) &&& ~~~activeOcc) piece

def singleL (b : Board) (nq : Bool) (pieceOcc activeOcc : UInt64) (tbl : List Nat) (piece : Nat) : List Move :=
  (bitsAsc pieceOcc).flatMap fun src => attacksL b nq src (leaperAttacks tbl src &&& ~~~activeOcc) piece

def promotionsL (b : Board) (src tgt : Nat) : List Move :=
  [QUEEN, ROOK, BISHOP, KNIGHT].flatMap fun p => mkL b false src tgt PAWN false false p 0

/-- the capture targets of the pawn on `src` -/
def pawnAttSet (b : Board) (activeOcc passiveOcc : UInt64) (src : Nat) : UInt64 :=
  leaperAttacks (if b.whiteTurn then whitePawnTable else blackPawnTable) src
    &&& (passiveOcc ||| (bitU b.ep &&& ~~~rank18)) &&& ~~~activeOcc

def pawnAttackL (b : Board) (src tgt : Nat) : List Move :=
  if bitU tgt &&& rank8.toUInt64 != 0 || bitU tgt &&& rank1.toUInt64 != 0 then promotionsL b src tgt
  else mkL b false src tgt PAWN false (tgt == b.ep) NO_PIECE 0

def pawnAttacksL (b : Board) (pawnOcc activeOcc passiveOcc : UInt64) : List Move :=
  (bitsAsc pawnOcc).flatMap fun src =>
    (bitsAsc (pawnAttSet b activeOcc passiveOcc src)).flatMap fun tgt => pawnAttackL b src tgt

/-- the pushes of the pawn on `src` -/
def pawnStepL (b : Board) (nq : Bool) (fullOcc : UInt64) (src : Nat) : List Move :=
  let srcMask := bitU src
  let white := b.whiteTurn
  let singleMask := if white then srcMask >>> 8 else srcMask <<< 8
  let promoteRank := if white then rank8.toUInt64 else rank1.toUInt64
  let singleSq := trailingZeros singleMask
  if singleMask &&& fullOcc == 0 then
    if singleMask &&& promoteRank == 0 then
      let doubleMask := if white then singleMask >>> 8 else singleMask <<< 8
      let doubleRank := if white then rank2.toUInt64 else rank7.toUInt64
      let doubleSq := trailingZeros doubleMask
      mkL b nq src singleSq PAWN false false NO_PIECE 0 ++
        (if srcMask &&& doubleRank != 0 && doubleMask &&& fullOcc == 0 then
          mkL b nq src doubleSq PAWN false false NO_PIECE singleSq
        else [])
    else promotionsL b src singleSq
  else []

def pawnMovesL (b : Board) (nq : Bool) (pawnOcc fullOcc : UInt64) : List Move :=
  (bitsAsc pawnOcc).flatMap (pawnStepL b nq fullOcc)

def castleCond (right : Bool) (fullOcc : UInt64) (emptyMask checkMask : Nat) (color : Nat) (passive : Side) : Bool :=
  right && fullOcc &&& emptyMask.toUInt64 == 0 && !occupancyInCheck color passive fullOcc checkMask.toUInt64

def castleL (b : Board) (fullOcc : UInt64) : List Move :=
  if b.whiteTurn then
    (if castleCond b.white.qs fullOcc whiteQueenSideCastleEmpty whiteQueenSideCastleCheck 0 b.black
      then mkL b false E1 C1 KING true false NO_PIECE 0 else []) ++
    (if castleCond b.white.ks fullOcc whiteKingSideCastleEmpty whiteKingSideCastleCheck 0 b.black
      then mkL b false E1 G1 KING true false NO_PIECE 0 else [])
  else
    (if castleCond b.black.qs fullOcc blackQueenSideCastleEmpty blackQueenSideCastleCheck 1 b.white
      then mkL b false E8 C8 KING true false NO_PIECE 0 else []) ++
    (if castleCond b.black.ks fullOcc blackKingSideCastleEmpty blackKingSideCastleCheck 1 b.white
      then mkL b false E8 G8 KING true false NO_PIECE 0 else [])

/-! ## the generators are `acc ++` their list form (every board) -/

theorem genAttacks_eq (b : Board) (nq : Bool) (src : Nat) (att : UInt64) (piece : Nat) (acc : List Move) :
    genAttacks b nq src att piece acc = acc ++ attacksL b nq src att piece := by
  unfold genAttacks attacksL
  exact foldl_append (bitsAsc att) _ (fun tgt => mkL b nq src tgt piece false false NO_PIECE 0)
    (fun acc x _ => pushOpt_eq _ _) acc

theorem slidingMoves_eq (b : Board) (nq : Bool) (pieceOcc activeOcc fullOcc : UInt64) (rook : Bool) (piece : Nat)
    (acc : List Move) :
    slidingMoves b nq pieceOcc activeOcc fullOcc rook piece acc =
      acc ++ slidingL b nq pieceOcc activeOcc fullOcc rook piece := by
  unfold slidingMoves slidingL
  exact foldl_append (bitsAsc pieceOcc) _ (fun src => attacksL b nq src
    ((if rook then rookAttacks src fullOcc else bishopAttacks src fullOcc) &&& ~~~activeOcc) piece)
    (fun acc x _ => genAttacks_eq b nq x _ piece acc) acc

theorem singleMoves_eq (b : Board) (nq : Bool) (pieceOcc activeOcc : UInt64) (tbl : List Nat) (piece : Nat)
    (acc : List Move) :
    singleMoves b nq pieceOcc activeOcc tbl piece acc = acc ++ singleL b nq pieceOcc activeOcc tbl piece := by
  unfold singleMoves singleL
  exact foldl_append (bitsAsc pieceOcc) _ (fun src => attacksL b nq src (leaperAttacks tbl src &&& ~~~activeOcc) piece)
    (fun acc x _ => genAttacks_eq b nq x _ piece acc) acc

theorem promotions_eq (b : Board) (src tgt : Nat) (acc : List Move) :
    promotions b src tgt acc = acc ++ promotionsL b src tgt := by
  unfold promotions promotionsL
  exact foldl_append [QUEEN, ROOK, BISHOP, KNIGHT] _ (fun p => mkL b false src tgt PAWN false false p 0)
    (fun acc x _ => pushOpt_eq _ _) acc

theorem pawnAttacks_eq (b : Board) (pawnOcc activeOcc passiveOcc : UInt64) (acc : List Move) :
    pawnAttacks b pawnOcc activeOcc passiveOcc acc = acc ++ pawnAttacksL b pawnOcc activeOcc passiveOcc := by
  unfold pawnAttacks pawnAttacksL
  refine foldl_append (bitsAsc pawnOcc) _ (fun src => (bitsAsc (pawnAttSet b activeOcc passiveOcc src)).flatMap
    fun tgt => pawnAttackL b src tgt) (fun acc src _ => ?_) acc
  refine foldl_append (bitsAsc (pawnAttSet b activeOcc passiveOcc src)) _ (fun tgt => pawnAttackL b src tgt)
    (fun acc tgt _ => ?_) acc
  unfold pawnAttackL
  split
  · exact promotions_eq ..
  · exact pushOpt_eq ..

theorem pawnMoves_eq (b : Board) (nq : Bool) (pawnOcc fullOcc : UInt64) (acc : List Move) :
    pawnMoves b nq pawnOcc fullOcc acc = acc ++ pawnMovesL b nq pawnOcc fullOcc := by
  unfold pawnMoves pawnMovesL
  refine foldl_append (bitsAsc pawnOcc) _ (pawnStepL b nq fullOcc) (fun acc src _ => ?_) acc
  unfold pawnStepL
  simp only [pushOpt_eq, promotions_eq]
  repeat' split
  all_goals simp [mkL]

theorem castleMoves_eq (b : Board) (fullOcc : UInt64) (acc : List Move) :
    castleMoves b fullOcc acc = acc ++ castleL b fullOcc := by
  unfold castleMoves castleL castleCond
  simp only [pushOpt_eq]
  cases b.whiteTurn
  · simp only [Bool.false_eq_true, if_false]
    split <;> split <;> simp [mkL]
  · simp only [if_true]
    split <;> split <;> simp [mkL]

/-- **`generate_pseudo_legal_moves` as a concatenation** (the order of the Rust loops) -/
theorem genPseudo_eq (b : Board) : genPseudo b =
    slidingL b false b.active.queens b.active.full (b.active.full ||| b.passive.full) true QUEEN
    ++ slidingL b false b.active.queens b.active.full (b.active.full ||| b.passive.full) false QUEEN
    ++ slidingL b false b.active.bishops b.active.full (b.active.full ||| b.passive.full) false BISHOP
    ++ slidingL b false b.active.rooks b.active.full (b.active.full ||| b.passive.full) true ROOK
    ++ singleL b false b.active.knights b.active.full knightTable KNIGHT
    ++ singleL b false b.active.kings b.active.full kingTable KING
    ++ pawnAttacksL b b.active.pawns b.active.full b.passive.full
    ++ pawnMovesL b false b.active.pawns (b.active.full ||| b.passive.full)
    ++ castleL b (b.active.full ||| b.passive.full) := by
  unfold genPseudo
  simp only [slidingMoves_eq, singleMoves_eq, pawnAttacks_eq, pawnMoves_eq, castleMoves_eq, List.nil_append]

theorem genNonQuiescent_eq (b : Board) : genNonQuiescent b =
    slidingL b true b.active.queens b.active.full (b.active.full ||| b.passive.full) true QUEEN
    ++ slidingL b true b.active.queens b.active.full (b.active.full ||| b.passive.full) false QUEEN
    ++ slidingL b true b.active.bishops b.active.full (b.active.full ||| b.passive.full) false BISHOP
    ++ slidingL b true b.active.rooks b.active.full (b.active.full ||| b.passive.full) true ROOK
    ++ singleL b true b.active.knights b.active.full knightTable KNIGHT
    ++ singleL b true b.active.kings b.active.full kingTable KING
    ++ pawnAttacksL b b.active.pawns b.active.full b.passive.full
    ++ pawnMovesL b true b.active.pawns (b.active.full ||| b.passive.full) := by
  unfold genNonQuiescent
  simp only [slidingMoves_eq, singleMoves_eq, pawnAttacks_eq, pawnMoves_eq, List.nil_append]

/-! ## what `make_move` stores -/

/-- the square whose occupant is recorded as captured -/
def attackSq (b : Board) (tgt : Nat) (ep : Bool) : Nat :=
  if b.whiteTurn then tgt + (if ep then 8 else 0) else tgt - (if ep then 8 else 0)

/-- the fields `make_move` computes -/
def mkF (b : Board) (src tgt piece : Nat) (castle ep : Bool) (promo epOpp : Nat) : MoveF :=
  let dCastle := if b.whiteTurn then 0 else 56
  let attacked := b.passive.pieceAt (attackSq b tgt ep)
  let oppLostQueen := b.passive.qs && tgt == A8 + dCastle
  { pieceMoved := piece, pieceAttacked := attacked,
    selfLostKing := b.active.ks && (src == H1 - dCastle || src == E1 - dCastle),
    selfLostQueen := b.active.qs && (src == A1 - dCastle || src == E1 - dCastle),
    oppLostKing := !oppLostQueen && b.passive.ks && tgt == H8 + dCastle,
    oppLostQueen := oppLostQueen,
    castle := castle, enPassant := ep, source := src, target := tgt,
    halfmoveReset := piece == PAWN || attacked != NO_PIECE,
    prevHalfmove := b.halfmove, prevEp := b.ep, nextEp := epOpp, promotion := promo, side := b.turn }

theorem mkMove_eq (b : Board) (nq : Bool) (src tgt piece : Nat) (castle ep : Bool) (promo epOpp : Nat) :
    mkMove b nq src tgt piece castle ep promo epOpp =
      if (b.passive.pieceAt (attackSq b tgt ep) == NO_PIECE && promo == NO_PIECE && nq) = true then none
      else some { bits := encode (mkF b src tgt piece castle ep promo epOpp),
                  mvvlva := mvvLva piece (b.passive.pieceAt (attackSq b tgt ep)) } := rfl

/-- arguments that fit the bit fields of the packed move -/
structure ArgsFit (b : Board) (src tgt piece promo epOpp : Nat) : Prop where
  basic : Basic b
  src : src < 64
  tgt : tgt < 64
  piece : piece < 8
  promo : promo < 8
  epOpp : epOpp < 64

theorem mkF_fit {b : Board} {src tgt piece promo epOpp : Nat} (castle ep : Bool)
    (h : ArgsFit b src tgt piece promo epOpp) : FieldsFit (mkF b src tgt piece castle ep promo epOpp) := by
  have h6 : b.passive.pieceAt (attackSq b tgt ep) ≤ 6 := pieceAtMask_le _ _
  have := h.basic.turn; have := h.basic.hm; have := h.basic.ep
  have := h.src; have := h.tgt; have := h.piece; have := h.promo; have := h.epOpp
  unfold FieldsFit mkF
  simp only
  omega

/-- the move pushed for fitting arguments decodes to `mkF` -/
def mkM (b : Board) (src tgt piece : Nat) (castle ep : Bool) (promo epOpp : Nat) : Move :=
  { bits := encode (mkF b src tgt piece castle ep promo epOpp),
    mvvlva := mvvLva piece (b.passive.pieceAt (attackSq b tgt ep)) }

theorem mkM_f {b : Board} {src tgt piece promo epOpp : Nat} (castle ep : Bool)
    (h : ArgsFit b src tgt piece promo epOpp) :
    (mkM b src tgt piece castle ep promo epOpp).f = mkF b src tgt piece castle ep promo epOpp := by
  unfold mkM Move.f
  exact decode_encode (mkF_fit castle ep h)

theorem mkL_false (b : Board) (src tgt piece : Nat) (castle ep : Bool) (promo epOpp : Nat) :
    mkL b false src tgt piece castle ep promo epOpp = [mkM b src tgt piece castle ep promo epOpp] := by
  unfold mkL
  rw [mkMove_eq]
  simp [mkM]

/-- the predicate of the capture/promotion-only generator -/
def isNoisy (m : Move) : Bool := m.isAttack || m.isPromotion

theorem isNoisy_mkM {b : Board} {src tgt piece promo epOpp : Nat} (castle ep : Bool)
    (h : ArgsFit b src tgt piece promo epOpp) :
    isNoisy (mkM b src tgt piece castle ep promo epOpp) =
      (b.passive.pieceAt (attackSq b tgt ep) != NO_PIECE || promo != NO_PIECE) := by
  unfold isNoisy Move.isAttack Move.isPromotion
  rw [mkM_f castle ep h]
  rfl

/-- **the `nq` early return of `make_move` is the filter "capture or promotion"** -/
theorem mkL_true {b : Board} {src tgt piece promo epOpp : Nat} (castle ep : Bool)
    (h : ArgsFit b src tgt piece promo epOpp) :
    mkL b true src tgt piece castle ep promo epOpp =
      (mkL b false src tgt piece castle ep promo epOpp).filter isNoisy := by
  rw [mkL_false, List.filter_cons, isNoisy_mkM castle ep h, List.filter_nil]
  unfold mkL
  rw [mkMove_eq]
  cases h1 : b.passive.pieceAt (attackSq b tgt ep) == NO_PIECE <;> cases h2 : promo == NO_PIECE <;>
    simp [bne, h1, h2, mkM]

end Inkayaku.GenSpec
