import Inkayaku.Proofs.SearchBracket
import Inkayaku.Proofs.SearchTrace
/-!
# The move returned by a root search is a legal move of the root position (C07)

* `nLoop_best`: the best move of a move loop is one of the looped moves whose `make` passed `isValid`;
* `root_move_from_buffer`: a root search (ply 0, depth ≥ 1) that is not answered from the transposition table returns
  `none` or a move of the (searchmoves-filtered) pseudo-legal buffer that is legal;
* `TTRootFresh` holds in every iteration of a `go` (`iters_legal` carries the invariant "all table entries are shallower
  than the iteration depth": the table is emptied by `go` and iteration `d` stores depths ≤ `d` only);
* `go_bestmove_legal`, `go_nolegal_null`.
-/
namespace Inkayaku.Search
open Inkayaku.Board Inkayaku.Eval Inkayaku.WF Inkayaku.BoardCongr

/-- `m` is a legal move of `b` allowed by the `searchmoves` list `sm` (empty list = no restriction) -/
def LegalRoot (b : Board) (sm : List String) (m : Move) : Prop :=
  m ∈ genPseudo b ∧ isValid (make b m) = true ∧ (sm ≠ [] → m.uci ∈ sm)

/-- no table entry for the root hash is deep enough to answer a depth-`d` root search -/
def TTRootFresh (s : St) (hash : UInt64) (d : Nat) : Prop := ∀ e, s.tt.get? hash = some e → e.depth < d

theorem accUpdate_bestMove (acc : LoopAcc) (m : Move) (child : VM) :
    (accUpdate acc m child).bestMove = some m ∨ (accUpdate acc m child).bestMove = acc.bestMove := by
  unfold accUpdate
  simp only
  split
  · left; rfl
  · right; rfl

theorem finish_mv {c : Nat} {a b : Int} {h : UInt64} {rem : Nat} {r : LoopAcc × Bool × St} {m : Move}
    (hm : (finish c a b h rem r).1.mv = some m) : r.1.bestMove = some m := by
  obtain ⟨acc, ab, s⟩ := r
  unfold finish at hm
  simp only at hm
  split at hm
  · exact absurd hm (by simp [VM.mv])
  · split at hm
    · exact absurd hm (by simp [VM.mv, VM.leaf])
    · split at hm <;> exact hm

theorem probe_fresh {entry : Option TtEntry} {rem : Nat} (a b : Int) (h : ∀ e, entry = some e → e.depth < rem) :
    (probe entry rem a b).1 = none := by
  unfold probe
  cases entry with
  | none => rfl
  | some e =>
    have := h e rfl
    simp only
    rw [if_neg (by omega)]

section
variable (L : BoardLaws)
include L

theorem nLoop_best {fuel : Nat} (b0 : Board) (hinv : Inv (fuel + 1) b0) (P : Move → Prop) :
    ∀ (moves : List Move), (∀ m ∈ moves, Generated b0 m) → (∀ m ∈ moves, isValid (make b0 m) = true → P m) →
    ∀ (s : St) (ply maxPly : Nat) (beta : Int) (isPv : Bool) (pvMove : Option Move) (h ph : UInt64) (rem : Nat)
      (acc : LoopAcc), vis s.board = vis b0 → (∀ m, acc.bestMove = some m → P m) →
      ∀ m, (negamaxLoop fuel s moves ply maxPly beta isPv pvMove h ph rem acc).1.bestMove = some m → P m := by
  have hwf := hinv.wf
  intro moves
  induction moves with
  | nil => intro _ _ s ply maxPly beta isPv pvMove h ph rem acc _ hacc; rw [negamaxLoop_nil]; exact hacc
  | cons m rest ih =>
    intro hmem hP s ply maxPly beta isPv pvMove h ph rem acc hs hacc
    have hm : Generated b0 m := hmem m (List.mem_cons_self ..)
    have hrest : ∀ m ∈ rest, Generated b0 m := fun x hx => hmem x (List.mem_cons_of_mem _ hx)
    have hPrest : ∀ m ∈ rest, isValid (make b0 m) = true → P m := fun x hx => hP x (List.mem_cons_of_mem _ hx)
    have hmk : vis (make s.board m) = vis (make b0 m) := make_congr hs m
    rw [negamaxLoop_cons]
    split
    · exact ih hrest hPrest _ ply maxPly beta isPv pvMove h ph rem acc (back hwf hm hmk) hacc
    · rename_i hv
      obtain ⟨hwf1, hv'⟩ := child_inv L hinv hs hm (by simpa using hv)
      have hr := negamax_ok L fuel { s with board := make s.board m } (ply + 1) maxPly (-beta) (-acc.alpha)
        (childPvOf isPv pvMove m) (h ^^^ (Zobrist.xorOf m.f).1) (ph ^^^ (Zobrist.xorOf m.f).2) hwf1
      have hb := back hwf hm (hr.trans hmk)
      have hacc' : ∀ x, (accUpdate acc m (negamax fuel { s with board := make s.board m } (ply + 1) maxPly (-beta) (-acc.alpha)
          (childPvOf isPv pvMove m) (h ^^^ (Zobrist.xorOf m.f).1) (ph ^^^ (Zobrist.xorOf m.f).2)).1).bestMove = some x → P x := by
        intro x hx
        rcases accUpdate_bestMove acc m (negamax fuel { s with board := make s.board m } (ply + 1) maxPly (-beta) (-acc.alpha)
          (childPvOf isPv pvMove m) (h ^^^ (Zobrist.xorOf m.f).1) (ph ^^^ (Zobrist.xorOf m.f).2)).1 with h1 | h1
        · rw [h1] at hx
          cases hx
          exact hP m (List.mem_cons_self ..) hv'
        · rw [h1] at hx
          exact hacc x hx
      simp only
      split
      · exact hacc
      · split
        · exact hacc'
        · exact ih hrest hPrest _ ply maxPly beta isPv pvMove h ph rem _ hb hacc'

/-- **a root search not answered from the table returns a legal move of the (filtered) buffer, or none** -/
theorem root_move_from_buffer (fuel : Nat) (s : St) (maxPly : Nat) (a b : Int) (isPv : Bool) (hash ph : UInt64)
    (hinv : Inv fuel s.board) (hpos : 0 < maxPly) (hfresh : TTRootFresh s hash maxPly) (m : Move)
    (hm : (negamax fuel s 0 maxPly a b isPv hash ph).1.mv = some m) :
    m ∈ rootBuffer s 0 ∧ isValid (make s.board m) = true := by
  cases fuel with
  | zero => rw [negamax_zero] at hm; exact absurd hm (by simp [VM.mv, VM.leaf])
  | succ fuel =>
    have he : (enter s hash).board = s.board := enter_board s hash
    obtain ⟨-, -, hgo, -, -⟩ := enter_rel (kept_stepRel 0) s hash
    have htt : (enter s hash).tt = s.tt := by
      unfold enter
      rcases pollStep_eq s with h | ⟨st, q, rn, h⟩ <;> rw [h]
    have hbuf : rootBuffer (enter s hash) 0 = rootBuffer s 0 := by
      unfold rootBuffer; rw [he, hgo]
    rw [negamax_succ] at hm
    split at hm
    · exact absurd hm (by simp [VM.mv, VM.leaf])
    · simp only at hm
      split at hm
      · exact absurd hm (by simp [VM.mv, VM.leaf])
      · split at hm
        · rename_i r x y heq
          have := probe_fresh (entry := (enter s hash).tt.get? hash) (rem := maxPly - 0) a b
            (by rw [htt]; intro e he'; have := hfresh e he'; omega)
          rw [heq] at this
          cases this
        · split at hm
          · exact absurd hm (by simp [VM.mv, VM.leaf])
          · split at hm
            · rename_i hz
              have : (0 == maxPly) = false := by
                rw [beq_eq_false_iff_ne]; omega
              rw [this] at hz
              cases hz
            · have hbm := finish_mv hm
              have hwf3 : Inv (fuel + 1) (enter s hash).board := by rw [he]; exact hinv
              have := nLoop_best L (enter s hash).board hwf3
                (fun x => x ∈ rootBuffer s 0 ∧ isValid (make s.board x) = true)
                _ (fun x hx => Or.inl (mem_rootBuffer_genPseudo (mem_sortMoves.mp hx)))
                (fun x hx hv => ⟨by rw [← hbuf]; exact mem_sortMoves.mp hx, by rw [← he]; exact hv⟩)
                (enter s hash) 0 maxPly _ isPv _ hash ph (maxPly - 0) (acc0 _) rfl
                (fun x hx => by simp [acc0] at hx) m hbm
              exact this

end

theorem mem_rootBuffer_zero {s : St} {m : Move} (h : m ∈ rootBuffer s 0) :
    m ∈ genPseudo s.board ∧ (s.go.searchMoves ≠ [] → m.uci ∈ s.go.searchMoves) := by
  refine ⟨mem_rootBuffer_genPseudo h, ?_⟩
  intro hne
  unfold rootBuffer at h
  have : (0 == 0 && !s.go.searchMoves.isEmpty) = true := by
    cases hs : s.go.searchMoves with
    | nil => exact absurd hs hne
    | cons x xs => rfl
  rw [if_pos this] at h
  have := (List.mem_filter.mp h).2
  simpa using this

/-! ## every iteration of a `go` -/

theorem iterState_eq (r : VM × St) (d : Nat) (sc : Option Score) (u : Option (List Move)) :
    ∃ p o, iterState r d sc u = { r.2 with pv := p, out := o } := by
  unfold iterState
  split <;> exact ⟨_, _, rfl⟩

theorem goTail_searchMoves (s : St) : (goTail s).go.searchMoves = s.go.searchMoves := by
  unfold goTail
  obtain ⟨p, h⟩ := continuePv_eq' s
  rw [h]
  simp only
  split <;> rfl

theorem goPrep_searchMoves (s : St) (g : GoParams) : (goPrep s g).go.searchMoves = g.searchMoves := by
  rw [goPrep_split, goTail_searchMoves]
  obtain ⟨k, h⟩ := goHead_eq s g
  rw [h]

section
variable (L : BoardLaws)
include L

/-- in every iteration the root result is `none` or a legal move of the position (allowed by `searchmoves`);
the transposition table cannot answer at the root because all its entries are shallower than the iteration depth -/
theorem iters_legal (b0 : Board) (sm : List String) :
    ∀ (n : Nat) (s : St) (d mt : Nat) (u : Option (List Move)) (sc : Option Score),
      Inv (fuelFor d + n) b0 → vis s.board = vis b0 → s.go.searchMoves = sm → 1 ≤ d → TTBound (d - 1) s →
      ∀ r ∈ iters n s d mt u sc, ∀ m, r.1.mv = some m → LegalRoot b0 sm m := by
  intro n
  induction n with
  | zero => intro s d mt u sc _ _ _ _ _ r hr; simp [iters] at hr
  | succ n ih =>
    intro s d mt u sc hinv0 hs hsm hd htt r hr m hm
    have hinv : Inv (fuelFor d + (n + 1)) s.board := Inv_congr hs.symm hinv0
    have hwf : Inv (fuelFor d) s.board := Inv_mono (Nat.le_add_right _ _) hinv
    simp only [iters, List.mem_cons] at hr
    rcases hr with rfl | hr
    · have hfresh : TTRootFresh s (Zobrist.hash s.board) d := by
        intro e he
        have := htt _ e he
        omega
      obtain ⟨h1, h2⟩ := root_move_from_buffer L _ s d _ _ _ _ _ hwf (by omega) hfresh m hm
      obtain ⟨h3, h4⟩ := mem_rootBuffer_zero h1
      refine ⟨by rw [← genPseudo_congr hs]; exact h3, ?_, by rw [← hsm]; exact h4⟩
      rw [← isValid_congr (make_congr hs m)]; exact h2
    · split at hr
      · simp at hr
      · obtain ⟨p, o, he⟩ := iterState_eq (rootSearch s d) d sc u
        have hb : vis (rootSearch s d).2.board = vis s.board := rootSearch_board L s d hwf
        obtain ⟨-, -, hgo, -, -⟩ := rootSearch_rel (kept_stepRel d) s
        have htt' : TTBound d (rootSearch s d).2 :=
          rootSearch_rel (ttRel_stepRel (Nat.le_refl d)) s (fun h e he => Nat.le_trans (htt h e he) (Nat.sub_le _ _))
        refine ih (iterState (rootSearch s d) d sc u) (d + 1) mt _ _ (Inv_mono (by unfold fuelFor; omega) hinv0) ?_ ?_ (by omega) ?_ r hr m hm
        · rw [he]; exact hb.trans hs
        · rw [he]; show (rootSearch s d).2.go.searchMoves = sm; rw [hgo]; exact hsm
        · rw [he]; exact htt'

/-- **the announced best move is a legal move of the position held (and one of `searchmoves` when given)** -/
theorem go_bestmove_legal (s : St) (g : GoParams) (maxIter : Nat) (hinv : Inv (goBudget maxIter) s.board) (m : Move)
    (hm : bestMoveOf (goDeepen s g maxIter).1 = some m) : LegalRoot s.board g.searchMoves m := by
  rw [goDeepen_best] at hm
  cases hl : (completed (goIterations s g maxIter)).getLast? with
  | none => rw [hl] at hm; simp [bestMoveOf] at hm
  | some r =>
    rw [hl] at hm
    have hr : r ∈ goIterations s g maxIter := by
      have := List.mem_of_getLast? hl
      unfold completed at this
      exact (List.mem_filter.mp this).1
    exact iters_legal L s.board g.searchMoves _ (goPrep s g) 1 _ none none
      (Inv_mono (by have := goIters_le g maxIter; unfold fuelFor goBudget; omega) hinv) (by rw [goPrep_board])
      (goPrep_searchMoves s g) (Nat.le_refl 1) (goPrep_ttBound s g) r hr m hm

/-- **no legal move: the answer is the null move** -/
theorem go_nolegal_null (s : St) (g : GoParams) (maxIter : Nat) (hinv : Inv (goBudget maxIter) s.board)
    (hno : ∀ m, ¬ LegalRoot s.board g.searchMoves m) :
    ∃ infos, (goCmd s g maxIter).out = .bestMove none none :: (infos ++ s.out) ∧ bestMoves infos = [] := by
  have hb : bestMoveOf (goDeepen s g maxIter).1 = none := by
    cases h : bestMoveOf (goDeepen s g maxIter).1 with
    | none => rfl
    | some m => exact absurd (go_bestmove_legal L s g maxIter hinv m h) (hno m)
  obtain ⟨news, h, hc, -⟩ := goCmd_out s g maxIter
  refine ⟨news, ?_, hc.bestMoves_nil⟩
  rw [h]
  unfold ponderOf
  rw [hb]

end

end Inkayaku.Search
