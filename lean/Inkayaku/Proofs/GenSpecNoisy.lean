import Inkayaku.Proofs.GenSpecKeys
/-!
# C01, part 3 (item 2): the capture/promotion-only generator is the filter of the full generator

`genNonQuiescent_eq_filter : WFacts b → genNonQuiescent b = (genPseudo b).filter isNoisy` as a LIST equality
(same moves, same order, same multiplicities), `isNoisy m = m.isAttack || m.isPromotion`.

Why a hypothesis is needed (the statement is false for arbitrary values of the model's `Nat` fields):
* the early return of `make_move` tests the ARGUMENTS (`attacked == NO_PIECE && promo == NO_PIECE`), the filter looks at
  the DECODED packed word; with `b.halfmove ≥ 2^24` the previous-half-move field spills into the promotion field and
  every quiet move decodes as a promotion;
* `pawnAttacks` is called without the `nq` flag: an en-passant capture is pushed unconditionally and is a capture only
  because the victim pawn really stands behind the e.p. square (conjunct (6) of `WF.wf`).
`GenOK.WFacts b` (implied by `WF.wf b`, see `GenOK.wf_facts`) excludes both.
Castling moves are never captures or promotions (the king's target square was tested empty), so leaving out
`castleMoves` in the capture generator loses nothing.
-/
namespace Inkayaku.GenSpec
open Inkayaku.Board Inkayaku.Gen Inkayaku.MoveBits Inkayaku.GenOK Inkayaku.Bits

theorem testU_not (x : UInt64) (t : Nat) : testU (~~~x) t = (decide (t < 64) && !testU x t) := by
  show (~~~x).toBitVec.getLsbD t = (decide (t < 64) && !x.toBitVec.getLsbD t)
  rw [UInt64.toBitVec_not, BitVec.getLsbD_not]

theorem filter_self_of_all {α : Type} {p : α → Bool} {l : List α} (h : ∀ a ∈ l, p a = true) : l.filter p = l :=
  List.filter_eq_self.mpr h

section
variable {b : Board} (hb : Basic b)
include hb

theorem filter_attacksL (src : Nat) (hs : src < 64) (att : UInt64) (piece : Nat) (hp : piece < 8) :
    attacksL b true src att piece = (attacksL b false src att piece).filter isNoisy := by
  unfold attacksL
  rw [List.filter_flatMap]
  apply flatMap_congr'
  intro t ht
  exact mkL_true false false (fit_quiet hb hs (testU_lt ((mem_bitsAsc _ _).mp ht)) hp)

theorem filter_slidingL (pieceOcc activeOcc fullOcc : UInt64) (rook : Bool) (piece : Nat) (hp : piece < 8) :
    slidingL b true pieceOcc activeOcc fullOcc rook piece =
      (slidingL b false pieceOcc activeOcc fullOcc rook piece).filter isNoisy := by
  unfold slidingL
  rw [List.filter_flatMap]
  apply flatMap_congr'
  intro s hs
  exact filter_attacksL hb s (testU_lt ((mem_bitsAsc _ _).mp hs)) _ piece hp

theorem filter_singleL (pieceOcc activeOcc : UInt64) (tbl : List Nat) (piece : Nat) (hp : piece < 8) :
    singleL b true pieceOcc activeOcc tbl piece = (singleL b false pieceOcc activeOcc tbl piece).filter isNoisy := by
  unfold singleL
  rw [List.filter_flatMap]
  apply flatMap_congr'
  intro s hs
  exact filter_attacksL hb s (testU_lt ((mem_bitsAsc _ _).mp hs)) _ piece hp

theorem promotionsL_noisy (src tgt : Nat) (hs : src < 64) (ht : tgt < 64) :
    ∀ m ∈ promotionsL b src tgt, isNoisy m = true := by
  have fit : ∀ p, p < 8 → ArgsFit b src tgt PAWN p 0 := fun p hp => ⟨hb, hs, ht, by decide, hp, by decide⟩
  intro m hm
  unfold promotionsL at hm
  simp only [List.flatMap_cons, List.flatMap_nil, List.append_nil, mkL_false,
    List.cons_append, List.nil_append, List.mem_cons, List.not_mem_nil, or_false] at hm
  rcases hm with rfl | rfl | rfl | rfl
  · rw [isNoisy_mkM false false (fit QUEEN (by decide))]; simp [QUEEN, NO_PIECE]
  · rw [isNoisy_mkM false false (fit ROOK (by decide))]; simp [ROOK, NO_PIECE]
  · rw [isNoisy_mkM false false (fit BISHOP (by decide))]; simp [BISHOP, NO_PIECE]
  · rw [isNoisy_mkM false false (fit KNIGHT (by decide))]; simp [KNIGHT, NO_PIECE]

theorem filter_pushes (full : UInt64) (s t1 t2 : Nat) (c : Bool) (hs : s < 64) (ht1 : t1 < 64)
    (ht2 : c = true → t2 < 64) :
    (if testU full t1 then []
     else if lastRank t1 then promotionsL b s t1
     else mkL b true s t1 PAWN false false NO_PIECE 0 ++
       (if c && !testU full t2 then mkL b true s t2 PAWN false false NO_PIECE t1 else [])) =
    (if testU full t1 then []
     else if lastRank t1 then promotionsL b s t1
     else mkL b false s t1 PAWN false false NO_PIECE 0 ++
       (if c && !testU full t2 then mkL b false s t2 PAWN false false NO_PIECE t1 else [])).filter isNoisy := by
  split
  · rfl
  · split
    · exact (filter_self_of_all (promotionsL_noisy hb s _ hs ht1)).symm
    · rw [List.filter_append, ← mkL_true false false (fit_quiet hb hs ht1 (by decide))]
      congr 1
      split
      · next hc =>
        simp only [Bool.and_eq_true] at hc
        exact mkL_true false false ⟨hb, hs, ht2 hc.1, by decide, by decide, ht1⟩
      · rfl

theorem filter_pawnStepL (full : UInt64) (s : Nat) (h8 : 8 ≤ s) (h56 : s < 56) :
    pawnStepL b true full s = (pawnStepL b false full s).filter isNoisy := by
  cases hw : b.whiteTurn
  · rw [pawnStepL_black hw true full s h8 h56, pawnStepL_black hw false full s h8 h56]
    exact filter_pushes hb full s (s + 8) (s + 16) _ (by omega) (by omega) (by simp; omega)
  · rw [pawnStepL_white hw true full s h8 h56, pawnStepL_white hw false full s h8 h56]
    exact filter_pushes hb full s (s - 8) (s - 16) _ (by omega) (by omega) (by simp; omega)

end

theorem filter_pawnMovesL {b : Board} (hw : WFacts b) (full : UInt64) :
    pawnMovesL b true b.active.pawns full = (pawnMovesL b false b.active.pawns full).filter isNoisy := by
  unfold pawnMovesL
  rw [List.filter_flatMap]
  apply flatMap_congr'
  intro s hs
  have := pawn_mid' hw hs
  exact filter_pawnStepL hw.basic full s this.1 this.2

/-- a square in the passive occupancy holds a passive piece -/
theorem pieceAt_ne_zero_of_full {s : Side} {t : Nat} (h : testU s.full t = true) : s.pieceAt t ≠ 0 := by
  intro h0
  rw [(Attack.pieceAt_zero s t (testU_lt h)).mp h0] at h
  cases h

/-- every pawn capture pushed by `pawnAttacks` is a capture or a promotion (needs the e.p. part of `wf`) -/
theorem pawnAttacksL_noisy {b : Board} (hw : WFacts b) :
    ∀ m ∈ pawnAttacksL b b.active.pawns b.active.full b.passive.full, isNoisy m = true := by
  have hb := hw.basic
  intro m hm
  unfold pawnAttacksL at hm
  rw [List.mem_flatMap] at hm
  obtain ⟨s, hs, hm⟩ := hm
  rw [List.mem_flatMap] at hm
  obtain ⟨t, ht, hm⟩ := hm
  have hs64 := testU_lt ((mem_bitsAsc _ _).mp hs)
  have htT := (mem_bitsAsc _ _).mp ht
  have ht64 := testU_lt htT
  unfold pawnAttackL at hm
  rw [lastRank_iff t ht64] at hm
  split at hm
  · exact promotionsL_noisy hb s t hs64 ht64 m hm
  · next hlr =>
    rw [mkL_false, List.mem_singleton] at hm
    subst hm
    rw [isNoisy_mkM false _ (fit_quiet hb hs64 ht64 (by decide))]
    have ht8 : 8 ≤ t ∧ t < 56 := by
      unfold lastRank at hlr
      simp only [Bool.or_eq_true, decide_eq_true_eq, not_or] at hlr
      omega
    have hne : b.passive.pieceAt (attackSq b t (t == b.ep)) ≠ 0 := by
      by_cases hep : t = b.ep
      · -- en passant: the victim pawn stands behind the target square
        have hepOK := hw.epOK (by omega)
        unfold attackSq
        simp only [hep, BEq.rfl, if_true]
        by_cases ht0 : b.turn = 0
        · have hwt : b.whiteTurn = true := by simp [Board.whiteTurn, ht0]
          rw [if_pos ht0] at hepOK
          simp only [hwt, if_true, Board.passive]
          rw [pieceAt_pawn b.black (by omega) ((testU_iff_has (by omega)).1 hepOK.2)]
          decide
        · have hwt : b.whiteTurn = false := by simp [Board.whiteTurn, ht0]
          rw [if_neg ht0] at hepOK
          simp only [hwt, Bool.false_eq_true, if_false, Board.passive]
          rw [pieceAt_pawn b.white (by omega) ((testU_iff_has (by omega)).1 hepOK.2)]
          decide
      · have hbeq : (t == b.ep) = false := by simpa using hep
        have hsq : attackSq b t (t == b.ep) = t := by
          unfold attackSq; rw [hbeq]; split <;> simp
        rw [hsq]
        apply pieceAt_ne_zero_of_full
        unfold pawnAttSet at htT
        rw [testU_and, testU_and, testU_or, testU_and, testU_bitU b.ep t hb.ep] at htT
        simp only [Bool.and_eq_true, Bool.or_eq_true, decide_eq_true_eq] at htT
        rcases htT.1.2 with h | h
        · exact h
        · exact absurd h.1.symm hep
    simp [bne, hne, NO_PIECE]

/-- castling moves are neither captures nor promotions -/
theorem castleL_quiet {b : Board} (hb : Basic b) :
    (castleL b (b.active.full ||| b.passive.full)).filter isNoisy = [] := by
  have fit : ∀ s t, s < 64 → t < 64 → ArgsFit b s t KING NO_PIECE 0 :=
    fun s t hs ht => ⟨hb, hs, ht, by decide, by decide, by decide⟩
  -- a target inside the "must be empty" mask holds no passive piece
  have empty : ∀ (right : Bool) (em cm c : Nat) (p : Side) (t : Nat), t < 64 → em.toUInt64.toNat.testBit t = true →
      castleCond right (b.active.full ||| b.passive.full) em cm c p = true → b.passive.pieceAt t = 0 := by
    intro right em cm c p t ht hbit hc
    unfold castleCond at hc
    simp only [Bool.and_eq_true, beq_iff_eq] at hc
    have h0 := (and_eq_zero_iff _ _).mp hc.1.2 t ht
    have : testU b.passive.full t = false := by
      cases h : testU b.passive.full t
      · rfl
      · exact absurd ⟨by rw [testU_or, h, Bool.or_true], hbit⟩ h0
    exact (Attack.pieceAt_zero _ t ht).mpr this
  have quiet : ∀ s t, s < 64 → t < 64 → b.passive.pieceAt t = 0 →
      [mkM b s t KING true false NO_PIECE 0].filter isNoisy = [] := by
    intro s t hs ht h0
    have hsq : attackSq b t false = t := by unfold attackSq; split <;> simp
    rw [List.filter_cons, isNoisy_mkM true false (fit s t hs ht), hsq, h0]
    simp [NO_PIECE]
  unfold castleL
  simp only [mkL_false]
  split
  · rw [List.filter_append]
    have e1 : ∀ (c : Bool) (l : List Move), (c = true → l.filter isNoisy = []) →
        (if c then l else []).filter isNoisy = [] := by
      intro c l h; cases c
      · rfl
      · exact h rfl
    rw [e1 _ _ (fun hc => quiet E1 C1 (by decide) (by decide) (empty _ _ _ _ _ C1 (by decide) (by decide) hc)),
      e1 _ _ (fun hc => quiet E1 G1 (by decide) (by decide) (empty _ _ _ _ _ G1 (by decide) (by decide) hc))]
    rfl
  · rw [List.filter_append]
    have e1 : ∀ (c : Bool) (l : List Move), (c = true → l.filter isNoisy = []) →
        (if c then l else []).filter isNoisy = [] := by
      intro c l h; cases c
      · rfl
      · exact h rfl
    rw [e1 _ _ (fun hc => quiet E8 C8 (by decide) (by decide) (empty _ _ _ _ _ C8 (by decide) (by decide) hc)),
      e1 _ _ (fun hc => quiet E8 G8 (by decide) (by decide) (empty _ _ _ _ _ G8 (by decide) (by decide) hc))]
    rfl

/-- **Item 2 of C01.**  `generate_pseudo_legal_non_quiescent_moves` yields exactly the capture-or-promotion moves of
`generate_pseudo_legal_moves`, in the same order and with the same multiplicities. -/
theorem genNonQuiescent_eq_filter' {b : Board} (hw : WFacts b) :
    genNonQuiescent b = (genPseudo b).filter isNoisy := by
  have hb := hw.basic
  rw [genNonQuiescent_eq, genPseudo_eq]
  simp only [List.filter_append, castleL_quiet hb, List.append_nil,
    filter_self_of_all (pawnAttacksL_noisy hw), ← filter_pawnMovesL hw,
    ← filter_slidingL hb _ _ _ _ _ (by decide : QUEEN < 8), ← filter_slidingL hb _ _ _ _ _ (by decide : BISHOP < 8),
    ← filter_slidingL hb _ _ _ _ _ (by decide : ROOK < 8), ← filter_singleL hb _ _ _ _ (by decide : KNIGHT < 8),
    ← filter_singleL hb _ _ _ _ (by decide : KING < 8)]

theorem genNonQuiescent_eq_filter {b : Board} (h : WF.wf b = true) :
    genNonQuiescent b = (genPseudo b).filter (fun m => m.isAttack || m.isPromotion) :=
  genNonQuiescent_eq_filter' (wf_facts h)

end Inkayaku.GenSpec
