import Inkayaku.Proofs.SearchRepGo
/-!
# C10 at the search level, step 5: a depth-1 child that is NOT a repetition returns the horizon value

When the repetition test does not fire, the node below the root move of a `go depth 1` is a horizon node: with an empty
transposition table it returns `horizon …` = capture resolution or static evaluation, which is the specification's
`mm game 0 (c, [])` (`horizon_value`, the content of `SearchSim.horizon_sim` without its `SOK` frame — the history and the
`searchmoves` list are irrelevant to a horizon node).  `specValueOnly_single` identifies the resulting root value with the
oracle's `specValueOnly 1 b [m.uci]`.
-/
namespace Inkayaku.SearchRep
open Inkayaku.Board Inkayaku.Eval Inkayaku.WF Inkayaku.BoardCongr Inkayaku.Minimax Inkayaku.SpecSearch Inkayaku.Search
open Inkayaku.SearchSim Inkayaku.History

/-- the horizon node: fail-soft contract w.r.t. the exact horizon value; only board and quiescence counter change -/
theorem horizon_value (fuel : Nat) (s3 : St) (hinv : Inv fuel s3.board) (hfuel : 65 ≤ fuel)
    (hq : QDepth quiescenceFuel s3.board) (α β : Int) (hL : lossScore ≤ α) (hαβ : α < β) (hU : β ≤ -lossScore) :
    Ok (mm game 0 (s3.board, [])) (horizon fuel s3.board.turn s3 (genPseudo s3.board) α β).1.value α β ∧
    ∃ b' qn, (horizon fuel s3.board.turn s3 (genPseudo s3.board) α β).2 = { s3 with board := b', quiescenceNodes := qn } := by
  unfold horizon
  rw [isAnyMoveLegal_genPseudo, mm_zero, game_moves]
  by_cases hne : (genLegal s3.board).isEmpty = true
  · rw [hne]
    simp only [Bool.not_true, Bool.false_and, Bool.false_eq_true, if_false]
    exact ⟨Ok.refl _ _ _, _, _, rfl⟩
  · have hne' : (genLegal s3.board).isEmpty = false := by simpa using hne
    rw [hne']
    simp only [Bool.not_false, Bool.true_and, Bool.false_eq_true, if_false]
    have hnoisy : ((genPseudo s3.board).any fun m => m.isAttack || m.isPromotion) = noisy s3.board := rfl
    rw [hnoisy]
    by_cases hqn : noisy s3.board = true
    · rw [if_pos hqn]
      obtain ⟨q1, _, b', qn, q3⟩ := quiescence_sim fuel quiescenceFuel quiescenceFuel s3 α β hinv
        hq (by unfold quiescenceFuel; omega) (Nat.le_refl _)
      refine ⟨?_, b', qn, q3⟩
      rw [q1]
      have hl := game_leafOk qorder isOrder_qorder (s3.board, []) α β hL hαβ hU
      have e1 : (chess.game qorder).leaf (s3.board, []) α β = q chess.qgame qorder quiescenceFuel (s3.board, []) α β := by
        show (if noisy s3.board then q chess.qgame qorder chess.fuel (s3.board, []) α β else _) = _
        rw [if_pos hqn]; rfl
      rw [e1] at hl
      exact hl
    · rw [if_neg hqn]
      refine ⟨?_, _, _, rfl⟩
      have e1 : game.leafExact (s3.board, []) = evalFor s3.board s3.board.turn true := by
        show (if noisy s3.board then _ else evalFor s3.board s3.board.turn true) = _
        rw [if_neg hqn]
      rw [e1]
      exact Ok.refl _ _ _

/-- a node at the horizon below the root, entered between two polls with an empty table: it is the horizon evaluation -/
theorem nodeBody_horizon (fuel : Nat) (s : St) (ply : Nat) (hply : 0 < ply) (a b : Int) (isPv : Bool) (h ph : UInt64)
    (hf : pollFlag s = false) (htt : ∀ k, s.tt.get? k = none) :
    nodeBody fuel s ply ply a b isPv h ph = horizon fuel s.board.turn (enter s h) (genPseudo s.board) a b := by
  have he := enter_of_noFlag hf h
  have hentry : (enter s h).tt.get? h = none := by rw [he]; exact htt _
  have hb : (enter s h).board = s.board := enter_board s h
  have h0 : (ply == 0) = false := by rw [beq_eq_false_iff_ne]; omega
  have hbuf : rootBuffer (enter s h) ply = genPseudo s.board := by
    unfold rootBuffer
    rw [h0, Bool.false_and, hb, if_neg (by simp)]
  unfold nodeBody
  simp only [hentry, probe_none, hbuf, h0, Bool.false_and, Bool.false_eq_true, if_false, beq_self_eq_true, if_true]

/-- the exact horizon value lies strictly inside the window -/
theorem horizon_bounds {c : Board} (hwf : wf c = true) (hfm : c.fullmove < 1000000) :
    lossScore < mm game 0 (c, []) ∧ mm game 0 (c, []) < Gen.winScore := by
  have hP := (MakeWf.wf_iff c).mp hwf
  have h1 := hP.turn
  have h2 := hP.fm1
  have hb := V_bounds 0 c ⟨h1, by omega⟩
  have hw := winScore_val
  have hl := lossScore_val
  unfold V at hb
  omega

/-- **the node below a root move that is not cut off as a repetition, in a `go depth 1`**: it returns exactly the horizon value
`mm game 0 (c, [])` of its position (capture resolution or static evaluation: the material value), and touches only board,
counters and history -/
theorem child_horizon (c : St) (hinv : Inv 199 c.board) (hfm : c.board.fullmove < 1000000)
    (hq : QDepth quiescenceFuel c.board) (isPv : Bool) (h ph : UInt64)
    (hf : pollFlag c = false) (htt : ∀ k, c.tt.get? k = none) :
    (nodeBody 199 c 1 1 (-Gen.winScore) (-lossScore) isPv h ph).1.value = mm game 0 (c.board, []) ∧
    ∃ b' qn, (nodeBody 199 c 1 1 (-Gen.winScore) (-lossScore) isPv h ph).2 =
      { enter c h with board := b', quiescenceNodes := qn } := by
  have hb : (enter c h).board = c.board := enter_board c h
  rw [nodeBody_horizon 199 c 1 (by omega) _ _ isPv h ph hf htt]
  have hw := winScore_val
  have hl := lossScore_val
  obtain ⟨hok, b', qn, hst⟩ := horizon_value 199 (enter c h) (by rw [hb]; exact hinv) (by omega) (by rw [hb]; exact hq)
    (-Gen.winScore) (-lossScore) (by omega) (by omega) (by omega)
  rw [hb] at hok hst
  refine ⟨?_, b', qn, hst⟩
  obtain ⟨lo, hi⟩ := horizon_bounds hinv.wf hfm
  obtain ⟨a1, a2, a3⟩ := hok
  generalize (horizon 199 c.board.turn (enter c h) (genPseudo c.board) (-Gen.winScore) (-lossScore)).1.value = v at a1 a2 a3
  by_cases x : v ≤ -Gen.winScore
  · have := a1 x; omega
  · by_cases y : -lossScore ≤ v
    · have := a2 y; omega
    · exact a3 (by omega) (by omega)

/-! ## the oracle value with a single root move -/

theorem rootMoves_single {b : Board} (hwf : wf b = true) {m : Move} (hm : m ∈ genLegal b) : rootMoves b [m.uci] = [m] := by
  unfold rootMoves
  have : ([m.uci] : List String).isEmpty = false := rfl
  rw [this]
  simp only [Bool.false_eq_true, if_false]
  have := filter_eq_singleton Move.uci (genLegal b) m (GenSpec.genLegal_nodup hwf) hm
  rw [← this]
  apply List.filter_congr
  intro x _
  simp only [List.contains_cons, List.contains_nil, Bool.or_false]

/-- the depth-1 specification value under `searchmoves m` is the negated horizon value of the position after `m` -/
theorem specValueOnly_single {b : Board} (hwf : wf b = true) {m : Move} (hm : m ∈ genLegal b)
    (hlo : lossScore < -(mm game 0 (make b m, []))) :
    specValueOnly 1 b [m.uci] = -(mm game 0 (make b m, [])) := by
  rw [C08.specValueOnly_eq_mm, mm_succ]
  have hmv : game.moves (b, [m.uci]) = [m] := rootMoves_single hwf hm
  have hch : game.children (b, [m.uci]) = [(make b m, [])] := by
    unfold Game.children
    rw [hmv]
    rfl
  rw [hmv, hch]
  show (if ([m] : List Move).isEmpty then _ else mmFold (mm game 0) lossScore [(make b m, [])]) = _
  simp only [List.isEmpty_cons, Bool.false_eq_true, if_false, mmFold, List.foldl_cons, List.foldl_nil]
  omega

end Inkayaku.SearchRep
