import Inkayaku.Proofs.SearchRepDeepNode
/-!
# C10 below the root, step 3: the root search, iterative deepening and `go` after `position … moves …`

The analogue of `Proofs/SearchSimRoot.lean` with a game history:

* `rrootSearch_sim` – iteration `D` after the game `b0 :: T` (table left by the iterations `< D`: `RSOK b0 T (D − 1)`): the value
                      returned is `mm repGame D (rootNode b0 T [])`, the move returned is a legal move whose specification node has
                      the value `−` that, board restored, the invariant holds for `D`;
* `rdeepen_sim`     – the iterations `d, d + 1, …, dmax` all complete and the last one is reported;
* `rgoCmd_sim`      – `go depth d` after `position <b0> moves …` reports `scoreFromValue (mm repGame d (rootNode b0 T []))` and
                      announces such a move, under `RHyp b0 T d` – for EVERY `d`.
-/
namespace Inkayaku.SearchRepDeep
open Inkayaku.Board Inkayaku.Eval Inkayaku.WF Inkayaku.BoardCongr Inkayaku.Minimax Inkayaku.SpecSearch Inkayaku.Search
open Inkayaku.SearchSim Inkayaku.History Inkayaku.SearchRep
open Inkayaku.C06 (HashKey)
open Inkayaku.RepSpec (RPos Key key repGame isRepetition)
open Inkayaku.C10Rep (rootNode childNode histKeys)

theorem rnode_root (b0 : Board) (T : List Board) : rnode (b0 :: T).dropLast (lastBoard b0 T) 0 = rootNode b0 T [] := rfl

theorem rnode_rootChild (b0 : Board) (T : List Board) (m : Move) :
    rnode ((b0 :: T).dropLast ++ [lastBoard b0 T]) (make (lastBoard b0 T) m) 1 = childNode b0 T m := by
  rw [snoc_lastBoard]
  rfl

/-- clock budget and ply counter of the last position of the game -/
theorem last_facts {b0 : Board} {T : List Board} {B : Nat} (hl : IsLine (b0 :: T)) (hinv : Inv (T.length + B) b0) :
    Inv B (lastBoard b0 T) ∧ ply2 (lastBoard b0 T) = ply2 b0 + T.length := by
  obtain ⟨hi, hp⟩ := line_facts T b0 (T.length + B) hl hinv (by omega) T.length _ (getElem?_lastBoard T b0)
  have : T.length + B - T.length = B := by omega
  rw [this] at hi
  exact ⟨hi, hp⟩

/-- **the root search of iteration `D`** -/
theorem rrootSearch_sim {b0 : Board} {T : List Board} {D : Nat} (hD1 : 1 ≤ D) (H : RHyp b0 T D) (s : St)
    (hb : vis s.board = vis (lastBoard b0 T)) (hinv : Inv (fuelFor D) (lastBoard b0 T))
    (hsok : RSOK b0 T (D - 1) (b0 :: T).dropLast s) (hlegal : genLegal (lastBoard b0 T) ≠ [])
    (hN : NoIntr s (rootSearch s D).2.negamaxNodes) :
    (rootSearch s D).1.value = mm repGame D (rootNode b0 T []) ∧
    (∃ m, (rootSearch s D).1.mv = some m ∧ m ∈ genLegal (lastBoard b0 T) ∧
      - mm repGame (D - 1) (childNode b0 T m) = mm repGame D (rootNode b0 T [])) ∧
    vis (rootSearch s D).2.board = vis (lastBoard b0 T) ∧ RSOK b0 T D (b0 :: T).dropLast (rootSearch s D).2 := by
  have hw := winScore_val
  have hl := lossScore_val
  have hlegal' : genLegal s.board ≠ [] := by rw [genLegal_congr hb]; exact hlegal
  have hpost := rnegamax_sim H (fuelFor D) s 0 (b0 :: T).dropLast (lastBoard b0 T) lossScore Gen.winScore s.pv.isSome
    (Zobrist.hash s.board) (Zobrist.pawnHash s.board) (Nat.zero_le _) (RNode.root H.line) hb (Inv_congr hb.symm hinv)
    (by unfold fuelFor; omega) (hsok.mono (by omega)) rfl (fun _ => hlegal') (Int.le_refl _) (by omega) (by omega) hN
  obtain ⟨hok, hvis, hsok', hch⟩ := hpost
  change Ok _ (rootSearch s D).1.value _ _ at hok
  change vis (rootSearch s D).2.board = _ at hvis
  change RSOK b0 T D _ (rootSearch s D).2 at hsok'
  change _ → _ → _ → _ < (rootSearch s D).1.value → (rootSearch s D).1.value < _ →
    RChosen _ _ 0 (D - 0 - 1) (rootSearch s D).1.mv (rootSearch s D).1.value at hch
  rw [Nat.sub_zero, rnode_root] at hok
  obtain ⟨d, rfl⟩ : ∃ d, D = d + 1 := ⟨D - 1, by omega⟩
  -- the value is strictly inside the window
  obtain ⟨_, hp2⟩ := last_facts (B := 0) H.line (Inv_mono (by omega) H.inv)
  have hP := (MakeWf.wf_iff (lastBoard b0 T)).mp hinv.wf
  have hnw := H.nowrap
  have hsmall : Small (lastBoard b0 T) (d + 1) := by
    refine ⟨hP.turn, ?_⟩
    have := hP.fm1
    unfold ply2 at hp2 hnw
    omega
  have hne : rootMoves (lastBoard b0 T) [] ≠ [] := by
    rw [show rootMoves (lastBoard b0 T) [] = genLegal (lastBoard b0 T) from moves_nil _]; exact hlegal
  obtain ⟨hlo, hhi⟩ := rep_root_bounds d (rootNode b0 T []) (RepSpec.isRepetition_root _ rfl) hsmall hP.fm1 hne
  obtain ⟨a1, a2, a3⟩ := hok
  have hval : (rootSearch s (d + 1)).1.value = mm repGame (d + 1) (rootNode b0 T []) := by
    by_cases x : (rootSearch s (d + 1)).1.value ≤ lossScore
    · have := a1 x; omega
    · by_cases y : Gen.winScore ≤ (rootSearch s (d + 1)).1.value
      · have := a2 y; omega
      · exact a3 (by omega) (by omega)
  refine ⟨hval, ?_, hvis.trans hb, hsok'⟩
  -- the move
  have hfresh : TTRootFresh s (Zobrist.hash s.board) (d + 1 - 0) := by
    intro e he
    obtain ⟨k, _, _, _, _, _, h4, _⟩ := hsok.tt _ e he
    omega
  obtain ⟨m, hm1, hm2, hm3⟩ := hch rfl hfresh (by omega) (by omega) (by omega)
  refine ⟨m, hm1, hm2, ?_⟩
  rw [← hval, ← hm3, rnode_rootChild]
  rfl

/-! ## iterative deepening -/

/-- the iterations `d … dmax` all complete; the result is the root result of iteration `dmax` -/
theorem rdeepen_sim {b0 : Board} {T : List Board} {dmax : Nat} (H : RHyp b0 T dmax) (hinv : Inv (fuelFor dmax) (lastBoard b0 T))
    (hlegal : genLegal (lastBoard b0 T) ≠ []) :
    ∀ (n d : Nat) (s : St) (mt : Nat) (best : Option VM) (u : Option (List Move)) (sc : Option Score),
      1 ≤ d → d + n = dmax → vis s.board = vis (lastBoard b0 T) → RSOK b0 T (d - 1) (b0 :: T).dropLast s →
      s.nsPerNode = none → NoIntr s (deepen (n + 1) s d mt best u sc).2.negamaxNodes →
      ∃ (r : VM × St) (u' : Option (List Move)) (sc' : Option Score),
        deepen (n + 1) s d mt best u sc = (some r.1, iterState r dmax sc' u') ∧ iterAborted r = false ∧
        r.1.value = mm repGame dmax (rootNode b0 T []) ∧
        (∃ m, r.1.mv = some m ∧ m ∈ genLegal (lastBoard b0 T) ∧
          - mm repGame (dmax - 1) (childNode b0 T m) = mm repGame dmax (rootNode b0 T [])) ∧
        vis r.2.board = vis (lastBoard b0 T) := by
  intro n
  induction n with
  | zero =>
    intro d s mt best u sc hd1 hdn hb hsok hns hN
    have hd : d = dmax := by omega
    subst hd
    rw [deepen_succ] at hN ⊢
    have hrN : NoIntr s (rootSearch s d).2.negamaxNodes := by
      rcases hN with hN | hN
      · left
        refine Nat.lt_of_le_of_lt ?_ hN
        simp only
        split
        · exact (iterState_frame _ _ _ _).nn
        · split
          · exact (iterState_frame _ _ _ _).nn
          · rw [deepen_zero]; exact (iterState_frame _ _ _ _).nn
      · right; exact hN
    obtain ⟨h1, ⟨m, h2, h3⟩, h4, h5⟩ := rrootSearch_sim hd1 H s hb hinv hsok hlegal hrN
    have hna : iterAborted (rootSearch s d) = false := by
      unfold iterAborted
      rw [h5.stop, h2]; rfl
    refine ⟨rootSearch s d, u, sc, ?_, hna, h1, ⟨m, h2, h3⟩, h4⟩
    simp only
    rw [hna]
    simp only [Bool.false_eq_true, if_false]
    split
    · rfl
    · rw [deepen_zero]
  | succ n ih =>
    intro d s mt best u sc hd1 hdn hb hsok hns hN
    have hH : RHyp b0 T d := H.mono (by omega)
    rw [deepen_succ] at hN ⊢
    have hkept := rootSearch_rel (kept_stepRel d) s
    have hcalm := rootSearch_rel (calm_stepRel d) s
    have hrN : NoIntr s (rootSearch s d).2.negamaxNodes := by
      rcases hN with hN | hN
      · left
        refine Nat.lt_of_le_of_lt ?_ hN
        simp only
        split
        · exact (iterState_frame _ _ _ _).nn
        · split
          · exact (iterState_frame _ _ _ _).nn
          · exact ((iterState_frame _ _ _ _).trans (deepen_frame _ _ _ _ _ _ _)).nn
      · right; exact hN
    obtain ⟨h1, ⟨m, h2, h3⟩, h4, h5⟩ := rrootSearch_sim hd1 hH s hb
      (Inv_mono (by unfold fuelFor; omega) hinv) hsok hlegal hrN
    have hna : iterAborted (rootSearch s d) = false := by
      unfold iterAborted
      rw [h5.stop, h2]; rfl
    have hel : (rootSearch s d).2.elapsedNs = 0 := elapsedNs_none (by rw [hkept.2.2.2.2, hns])
    simp only at hN ⊢
    rw [hna, hel] at hN ⊢
    simp only [Bool.false_eq_true, if_false, Nat.not_lt_zero] at hN ⊢
    have hpp : (iterState (rootSearch s d) d sc u).pollPeriod = s.pollPeriod := by
      rw [iterState_completed _ _ _ _ hna]; exact hkept.2.2.2.1
    apply ih (d + 1) _ mt _ _ _ (by omega) (by omega)
    · rw [iterState_board]; exact h4
    · rw [iterState_completed _ _ _ _ hna]
      exact ⟨h5.tt, h5.hist, h5.stop, h5.sm⟩
    · rw [iterState_completed _ _ _ _ hna]; show (rootSearch s d).2.nsPerNode = none; rw [hkept.2.2.2.2, hns]
    · rcases hN with hN | hN
      · left; rw [hpp]; exact hN
      · right
        rw [iterState_completed _ _ _ _ hna]
        exact hcalm hN

/-! ## `go` after `position … moves …` -/

/-- **`go depth d` after `position <b0> moves u1 … un` reports the exact path-dependent minimax value and announces a move
attaining it**, for every `d ≥ 1`, under `RHyp b0 T d`.  Further hypotheses: the clock budget `Inv (|T| + fuelFor d) b0`, a
legal move exists, the virtual clock stands still (`nsPerNode = none`; the go has no time control anyway), and no interruption:
the node counter of the whole go stays below the poll period, or no message is waiting. -/
theorem rgoCmd_sim {b0 : Board} {ucis : List String} {T : List Board} (s₀ : St) (d maxIter : Nat) (hd1 : 1 ≤ d)
    (hmi : d ≤ maxIter) (H : RHyp b0 T d) (hgame : gameBoards b0 ucis = some (b0 :: T))
    (hinv : Inv (T.length + fuelFor d) b0) (hlegal : genLegal (lastBoard b0 T) ≠ []) (hns : s₀.nsPerNode = none)
    (hN : (goCmd (setPosition s₀ b0 ucis) { depth := some d } maxIter).negamaxNodes < s₀.pollPeriod ∨ s₀.pending = []) :
    ∃ (pv : List Move) (nodes : Nat) (t : Option Nat) (m : Move) (older : List Out),
      (goCmd (setPosition s₀ b0 ucis) { depth := some d } maxIter).out =
        .bestMove (some m) (pv[1]?) ::
        .info (some d) t nodes (some (scoreFromValue (mm repGame d (rootNode b0 T [])) (lastBoard b0 T))) (some pv) :: older ∧
      m ∈ genLegal (lastBoard b0 T) ∧ - mm repGame (d - 1) (childNode b0 T m) = mm repGame d (rootNode b0 T []) ∧
      pv[0]? = some m := by
  obtain ⟨⟨mv, hsp⟩, hcells, _, _⟩ := SearchRep.history_of_setPosition s₀ b0 ucis T hgame (Inv_mono (by omega) hinv)
    (by have := H.nowrap; omega)
  have hSb : (setPosition s₀ b0 ucis).board = lastBoard b0 T := by rw [hsp]
  have hSpp : (setPosition s₀ b0 ucis).pollPeriod = s₀.pollPeriod := by rw [hsp]
  have hSpd : (setPosition s₀ b0 ucis).pending = s₀.pending := by rw [hsp]
  have hSns : (setPosition s₀ b0 ucis).nsPerNode = s₀.nsPerNode := by rw [hsp]
  have hSh : LineHist (plyClock b0) (b0 :: T) (setPosition s₀ b0 ucis).history := lineHist_of_cells hcells
  generalize setPosition s₀ b0 ucis = S at hN hSb hSpp hSpd hSns hSh ⊢
  rw [goCmd_eq] at hN ⊢
  change (goDeepen S { depth := some d } maxIter).2.negamaxNodes < _ ∨ _ at hN
  unfold goDeepen at hN ⊢
  rw [goIters_depth d maxIter hd1 hmi] at hN ⊢
  obtain ⟨f1, f2, f3, f4, f5⟩ := goPrep_fields S { depth := some d }
  have hsok : RSOK b0 T (1 - 1) (b0 :: T).dropLast (goPrep S { depth := some d }) := by
    refine ⟨by rw [f1]; exact rttok_empty _ _ _, ?_, f3, SearchSim.goPrep_searchMoves _ _⟩
    rw [f2]
    apply LineHist.prefix (L' := [lastBoard b0 T])
    rw [snoc_lastBoard]
    exact hSh
  obtain ⟨hlast, _⟩ := last_facts H.line hinv
  obtain ⟨n, rfl⟩ : ∃ n, d = n + 1 := ⟨d - 1, by omega⟩
  obtain ⟨r, u', sc', e1, e2, e3, ⟨m, e4, e5, e5'⟩, e6⟩ := rdeepen_sim H hlast hlegal n 1 (goPrep S { depth := some (n + 1) })
    (goMaxThinking (goPrep S { depth := some (n + 1) })) none none none (Nat.le_refl _) (by omega)
    (by rw [goPrep_board, hSb]) hsok (by rw [f5, hSns, hns]) (by
      rcases hN with hN | hN
      · left; rw [f4, hSpp]; exact hN
      · right; exact ⟨by rw [goPrep_pending, hSpd]; exact hN, goPrep_moveTime_depth _ _⟩)
  rw [e1]
  simp only
  rw [iterState_completed _ _ _ _ e2]
  obtain ⟨rest, hpv⟩ := VM.pv_of_mv e4
  refine ⟨r.1.pv, r.2.totalNodes, some (r.2.elapsedNs / 1000000), m, r.2.out, ?_, e5, e5', by rw [hpv]; rfl⟩
  show Out.bestMove (bestMoveOf (some r.1)) (ponderOf (some r.1) _) :: _ = _
  have hbm : bestMoveOf (some r.1) = some m := e4
  unfold ponderOf
  rw [hbm, e3, scoreFromValue_congr e6]
  rfl

end Inkayaku.SearchRepDeep
