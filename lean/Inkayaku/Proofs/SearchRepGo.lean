import Inkayaku.Proofs.SearchRepNode
import Inkayaku.Proofs.SearchSimRoot
import Inkayaku.Proofs.GenSpecLegal
/-!
# C10 at the search level, step 4: `go depth 1 searchmoves m`

* `rootSearch_single`  – the depth-1 root search restricted to one legal move `m` by `searchmoves`: the root node is not
                         repetition-tested, the buffer is `[m]`, the result is `VM.mk (−v) (some m) (some child)` where
                         `child` is what the node below `m` returns (value `v`), provided that node does not stop the search
                         and `−v` lies strictly inside the root window;
* `goCmd_depth1`       – a `go depth 1 …` whose only iteration completes reports that iteration;
* `go_single`          – both together: the output of `go depth 1 searchmoves m`.
-/
namespace Inkayaku.SearchRep
open Inkayaku.Board Inkayaku.WF Inkayaku.BoardCongr Inkayaku.Search Inkayaku.SearchSim Inkayaku.History Inkayaku.Eval

/-! ## the root buffer under `searchmoves [m.uci]` -/

theorem filter_eq_singleton {α β : Type} [DecidableEq β] (f : α → β) :
    ∀ (l : List α) (a : α), (l.map f).Nodup → a ∈ l → l.filter (fun x => f x == f a) = [a]
  | [], a, _, ha => by cases ha
  | x :: l, a, hnd, ha => by
    rw [List.map_cons, List.nodup_cons] at hnd
    rcases List.mem_cons.mp ha with rfl | hal
    · rw [List.filter_cons_of_pos (by simp)]
      congr 1
      rw [List.filter_eq_nil_iff]
      intro y hy hxy
      have : f y = f a := by simpa using hxy
      exact hnd.1 (this ▸ List.mem_map_of_mem hy)
    · have hne : ¬ f x = f a := fun e => hnd.1 (e ▸ List.mem_map_of_mem hal)
      rw [List.filter_cons_of_neg (by simpa using hne)]
      exact filter_eq_singleton f l a hnd.2 hal

theorem rootBuffer_single {s : St} {m : Move} (hwf : wf s.board = true) (hm : m ∈ genPseudo s.board)
    (hsm : s.go.searchMoves = [m.uci]) : rootBuffer s 0 = [m] := by
  unfold rootBuffer
  rw [hsm]
  have : (0 == 0 && !([m.uci] : List String).isEmpty) = true := rfl
  rw [if_pos this]
  have := filter_eq_singleton Move.uci (genPseudo s.board) m (GenSpec.genPseudo_nodup hwf) hm
  rw [← this]
  apply List.filter_congr
  intro x _
  simp only [List.contains_cons, List.contains_nil, Bool.or_false]

theorem sortMoves_single (m : Move) (a b c : Option Move) : sortMoves [m] a b c = [m] := by
  unfold sortMoves
  simp

/-! ## the root search with a single move -/

theorem probe_none (rem : Nat) (a b : Int) : probe none rem a b = (none, a, b) := rfl

/-- the one-move loop -/
theorem negamaxLoop_single (fuel : Nat) (s : St) (m : Move) (ply maxPly : Nat) (beta : Int) (isPv : Bool)
    (pvMove : Option Move) (hash ph : UInt64) (rem : Nat) (acc : LoopAcc) (child : VM × St)
    (hv : isValid (make s.board m) = true)
    (hchild : negamax fuel { s with board := make s.board m } (ply + 1) maxPly (-beta) (-acc.alpha)
      (childPvOf isPv pvMove m) (hash ^^^ (Zobrist.xorOf m.f).1) (ph ^^^ (Zobrist.xorOf m.f).2) = child)
    (hstop : child.2.stop = false) (hlt : (accUpdate acc m child.1).alpha < beta) :
    negamaxLoop fuel s [m] ply maxPly beta isPv pvMove hash ph rem acc =
      (accUpdate acc m child.1, false, { child.2 with board := unmake child.2.board m }) := by
  rw [negamaxLoop_cons, hv, hchild]
  simp only [Bool.not_true, Bool.false_eq_true, if_false, hstop]
  rw [if_neg (by omega), negamaxLoop_nil]

theorem accUpdate_acc0 (a : Int) (m : Move) (child : VM) (h : lossScore < -child.value) :
    accUpdate (acc0 a) m child =
      { alpha := max a (-child.value), bestValue := -child.value, bestMove := some m, bestChild := some child,
        legalSeen := true } := by
  unfold accUpdate acc0
  simp only [gt_iff_lt, h, if_true]

theorem finish_found (c : Nat) (a b : Int) (h : UInt64) (rem : Nat) (v : Int) (al : Int) (m : Move) (child : VM) (s : St) :
    (finish c a b h rem
      ({ alpha := al, bestValue := v, bestMove := some m, bestChild := some child, legalSeen := true }, false, s)).1 =
      VM.mk v (some m) (some child) ∧
    ∃ tt, (finish c a b h rem
      ({ alpha := al, bestValue := v, bestMove := some m, bestChild := some child, legalSeen := true }, false, s)).2 =
      { s with tt := tt } := by
  unfold finish
  simp only [Bool.false_eq_true, if_false, Bool.not_true]
  split
  · exact ⟨rfl, _, rfl⟩
  · exact ⟨rfl, _, rfl⟩

/-- **the depth-1 root search restricted to the legal move `m`.**  `p` = the state `go` prepares (zero node counter, empty
table, `searchmoves [m.uci]`); `child` = the result of the node below `m`. -/
theorem rootSearch_single (p : St) (m : Move) (child : VM × St) (hwf : wf p.board = true) (hm : m ∈ genLegal p.board)
    (hnn : p.negamaxNodes = 0) (htt : ∀ k, p.tt.get? k = none) (hsm : p.go.searchMoves = [m.uci])
    (hchild : ∀ isPv, negamax 200 { enter p (Zobrist.hash p.board) with board := make p.board m } 1 1
      (-Gen.winScore) (-lossScore) isPv (Zobrist.hash p.board ^^^ (Zobrist.xorOf m.f).1)
      (Zobrist.pawnHash p.board ^^^ (Zobrist.xorOf m.f).2) = child)
    (hstop : child.2.stop = false) (hlo : lossScore < -child.1.value) (hhi : -child.1.value < Gen.winScore) :
    (rootSearch p 1).1 = VM.mk (-child.1.value) (some m) (some child.1) ∧
    ∃ tt, (rootSearch p 1).2 = { child.2 with board := unmake child.2.board m, tt := tt } := by
  obtain ⟨hg, hl⟩ := List.mem_filter.mp hm
  have hf := pollFlag_false_of_zero hnn
  have he := enter_of_noFlag hf (Zobrist.hash p.board)
  have hb3 : (enter p (Zobrist.hash p.board)).board = p.board := enter_board p _
  have hrep : isRep (enter p (Zobrist.hash p.board)) 0 = false := isRep_zero _
  have hentry : (enter p (Zobrist.hash p.board)).tt.get? (Zobrist.hash p.board) = none := by rw [he]; exact htt _
  have hbuf : rootBuffer (enter p (Zobrist.hash p.board)) 0 = [m] :=
    rootBuffer_single (by rw [hb3]; exact hwf) (by rw [hb3]; exact hg) (by rw [he]; exact hsm)
  have hfuel : fuelFor 1 = 200 + 1 := rfl
  have hlw : lossScore < Gen.winScore := by decide
  unfold rootSearch
  rw [hfuel, negamax_succ, timedOut_of_noFlag hf]
  simp only [Bool.false_eq_true, if_false, hrep, hentry, probe_none, hbuf, sortMoves_single]
  have h01 : ((0 : Nat) == 0 && ([m] : List Move).isEmpty) = false := rfl
  have h02 : ((0 : Nat) == 1) = false := rfl
  rw [h01, h02]
  simp only [Bool.false_eq_true, if_false]
  rw [negamaxLoop_single 200 (enter p (Zobrist.hash p.board)) m 0 1 Gen.winScore _ _ _ _ _ (acc0 lossScore) child
    (by rw [hb3]; exact hl) (by rw [hb3]; exact hchild _) hstop
    (by rw [accUpdate_acc0 _ _ _ hlo]; show max lossScore (-child.1.value) < Gen.winScore; omega)]
  rw [accUpdate_acc0 _ _ _ hlo]
  obtain ⟨h1, tt, h2⟩ := finish_found p.board.turn lossScore Gen.winScore (Zobrist.hash p.board) (1 - 0) (-child.1.value)
    (max lossScore (-child.1.value)) m child.1 { child.2 with board := unmake child.2.board m }
  exact ⟨h1, tt, h2⟩

/-! ## `go depth 1 …` with a completed iteration -/

theorem goIters_depth1 (sm : List String) (maxIter : Nat) (h : 1 ≤ maxIter) :
    goIters { depth := some 1, searchMoves := sm } maxIter = 1 := by
  unfold goIters
  simp only
  omega

/-- a `go` of one iteration that completes: the output is the `bestmove` line and the info of depth 1 -/
theorem goCmd_depth1 (S : St) (g : GoParams) (maxIter : Nat) (hit : goIters g maxIter = 1)
    (hna : iterAborted (rootSearch (goPrep S g) 1) = false) :
    let r := rootSearch (goPrep S g) 1
    (goCmd S g maxIter).out =
      .bestMove r.1.mv (r.1.pv[1]?) ::
      .info (some 1) (some (r.2.elapsedNs / 1000000)) r.2.totalNodes (some (scoreFromValue r.1.value r.2.board)) (some r.1.pv) ::
      r.2.out := by
  intro r
  have hmv : r.1.mv.isSome = true := by
    unfold iterAborted at hna
    simp only [Bool.or_eq_false_iff] at hna
    cases h : r.1.mv with
    | none => rw [show (rootSearch (goPrep S g) 1).1.mv = none from h] at hna; simp at hna
    | some _ => rfl
  have hd : goDeepen S g maxIter = (some r.1, iterState r 1 none none) := by
    unfold goDeepen
    rw [hit, deepen_succ]
    simp only [hna, Bool.false_eq_true, if_false]
    split
    · rfl
    · rw [deepen_zero]
  rw [goCmd_eq, hd]
  simp only
  rw [iterState_completed _ _ _ _ hna]
  obtain ⟨mv, hmv'⟩ := Option.isSome_iff_exists.mp hmv
  show Out.bestMove (bestMoveOf (some r.1)) (ponderOf (some r.1) _) :: _ = _
  unfold ponderOf bestMoveOf
  simp only [hmv']
  rfl

/-- **`go depth 1 searchmoves m`** from any state `S` (board well-formed with the clock budget of a depth-1 search, `m` legal;
`child` = what the node below `m` returns, not stopped, value strictly inside the window): the reported score is the negated
value of the node below `m`, the best move is `m`, the PV is `m` followed by the PV of that node, the ponder move is the first
move of that PV -/
theorem go_single (S : St) (m : Move) (maxIter : Nat) (child : VM × St) (hmi : 1 ≤ maxIter)
    (hinv : Inv (fuelFor 1) S.board) (hm : m ∈ genLegal S.board)
    (hchild : ∀ isPv, negamax 200
      { enter (goPrep S { depth := some 1, searchMoves := [m.uci] }) (Zobrist.hash S.board) with board := make S.board m } 1 1
      (-Gen.winScore) (-lossScore) isPv (Zobrist.hash S.board ^^^ (Zobrist.xorOf m.f).1)
      (Zobrist.pawnHash S.board ^^^ (Zobrist.xorOf m.f).2) = child)
    (hstop : child.2.stop = false) (hlo : lossScore < -child.1.value) (hhi : -child.1.value < Gen.winScore) :
    ∃ t nodes,
      (goCmd S { depth := some 1, searchMoves := [m.uci] } maxIter).out =
        .bestMove (some m) (child.1.pv[0]?) ::
        .info (some 1) t nodes (some (scoreFromValue (-child.1.value) S.board)) (some (m :: child.1.pv)) :: child.2.out := by
  have hb : (goPrep S { depth := some 1, searchMoves := [m.uci] }).board = S.board := goPrep_board S _
  obtain ⟨k, pv, g', hp⟩ := goPrep_eq S { depth := some 1, searchMoves := [m.uci] }
  obtain ⟨h1, tt, h2⟩ := rootSearch_single (goPrep S { depth := some 1, searchMoves := [m.uci] }) m child
    (by rw [hb]; exact hinv.wf) (by rw [hb]; exact hm) (by rw [hp])
    (by intro k'; rw [hp]; simp [Std.HashMap.get?_eq_getElem?]) (SearchSim.goPrep_searchMoves S _)
    (by rw [hb]; exact hchild) hstop hlo hhi
  have hna : iterAborted (rootSearch (goPrep S { depth := some 1, searchMoves := [m.uci] }) 1) = false := by
    unfold iterAborted
    rw [h1, h2]
    show (child.2.stop || (some m).isNone) = false
    rw [hstop]; rfl
  have hout := goCmd_depth1 S { depth := some 1, searchMoves := [m.uci] } maxIter (goIters_depth1 _ _ hmi) hna
  simp only at hout
  have hvis : vis (rootSearch (goPrep S { depth := some 1, searchMoves := [m.uci] }) 1).2.board = vis S.board := by
    rw [rootSearch_board boardLaws _ 1 (by rw [hb]; exact hinv), hb]
  rw [hout, scoreFromValue_congr hvis, h1]
  have hpv : (VM.mk (-child.1.value) (some m) (some child.1)).pv = m :: child.1.pv := by
    rw [VM.pv]
  rw [hpv, h2]
  exact ⟨_, _, rfl⟩

end Inkayaku.SearchRep
