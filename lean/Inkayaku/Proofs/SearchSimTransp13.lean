import Inkayaku.Proofs.SearchSimTranspCodes
/-!
# C08, `Transp13`, step 2: a position after one move is not the position after three moves (code functions)

`no13`: `m` and `a` are moves of the root (code functions `W` mover, `B` other side), `x` a reply to `a`, `c` a move after
`a x`.  The code functions after `m` differ from those after `a x c`.

Proof.  Counting pieces: `x` does not capture, `m` captures as often as `a` and `c` together.  The reply `x` vacates a square
that the replying side still occupies after `m` unless `m` captures exactly there: so `m` captures on the source of `x`
(and `x` is not castling: two squares vacated), and exactly one of `a`, `c` captures.
* `a` captures, `c` does not: the piece `x` puts down must be the piece `a` removed, on the same square, which is empty after
  `a`: `a` is en passant and `x` a pawn push onto the victim's square — from the square the capturing pawn stands on, or over it.
* `c` captures (the piece `x` moved), `a` does not.  `a` castling: king or rook stay on a square that was empty at the root,
  `m` would have to capture there.  Otherwise compare the root mover's squares: `m` changed two, `a` and `c` four; in every way
  to match them `m` is en passant and a pawn would have to move sideways or backwards, or through an occupied square.
-/
namespace Inkayaku.SearchSim.Transp
open Inkayaku.Board Inkayaku.GenFacts

theorem capSq_ep_true (w : Bool) (t : Nat) : capSq w true t = if w then t + 8 else t - 8 := by
  unfold capSq; simp

set_option maxHeartbeats 400000 in
theorem no13 {w : Bool} {W B W1 B1 Wa Ba Bx Wx Wc Bc : Nat → Nat} {ep0 : Nat} {fm fa fx fc : MoveF}
    (hm : Mv w W B W1 B1 ep0 fm) (ha : Mv w W B Wa Ba ep0 fa) (hx : Mv (!w) Ba Wa Bx Wx fa.nextEp fx)
    (hc : Mv w Wx Bx Wc Bc fx.nextEp fc)
    (eW : ∀ q, q < 64 → W1 q = Wc q) (eB : ∀ q, q < 64 → B1 q = Bc q) : False := by
  -- counting
  have c1 := hm.cntM; have c2 := hm.cntO; have c3 := ha.cntM; have c4 := ha.cntO
  have c5 := hx.cntM; have c6 := hx.cntO; have c7 := hc.cntM; have c8 := hc.cntO
  have c9 := cnt_congr 64 eW; have c10 := cnt_congr 64 eB
  have xq : fx.pieceAttacked = 0 := by
    by_cases h : fx.pieceAttacked = 0
    · exact h
    · rw [if_neg h] at c6; omega
  -- a square the replying side vacates is the square `m` captures on
  have key : ∀ q, q < 64 → Ba q ≠ 0 → Bx q = 0 →
      q = capSq w fm.enPassant fm.target ∧ fm.castle = false ∧ fm.pieceAttacked ≠ 0 := by
    intro q hq h4 h1
    have h2 : Bc q = 0 := by
      by_cases h : Bc q = 0
      · exact h
      · rw [hc.O_sub hq h]; exact h1
    have h3 : B1 q = 0 := by rw [eB _ hq]; exact h2
    have h5 : B q = Ba q := (ha.O_sub hq h4).symm
    rcases hm.O_cases hq with e | ⟨e1, e2, -, -, e5⟩
    · rw [h3, h5] at e; exact absurd e.symm h4
    · exact ⟨e2, e1, e5⟩
  have sx := hx.s_lt
  have tx := hx.t_lt
  obtain ⟨hsx, mplain, mcap⟩ := key _ sx hx.src_ne0 hx.vacate
  -- `x` is not castling
  have xplain : fx.castle = false := by
    cases hcx : fx.castle
    · rfl
    · obtain ⟨rs, rt, hrs, -, d1, d2, d3, d4, d5, d6, ars, -, -, -, -, -, -, -, hM, -⟩ := hx.castle hcx
      have : Bx rs = 0 := by
        rw [hM rs hrs, if_neg (fun e => d4 e.symm), if_neg (fun e => d2 e.symm), if_neg d6, if_pos rfl]
      have := (key rs hrs (by omega) this).1
      rw [← hsx] at this
      exact absurd this.symm d2
  have xnoep : fx.enPassant = false := hx.quiet_noep xq
  have xcs : capSq (!w) fx.enPassant fx.target = fx.target := hx.capSq_noep xnoep
  have wa_tx : Wa fx.target = 0 := hx.quiet_tgt xq
  have ba_tx : Ba fx.target = 0 := hx.tgt
  have wx_eq : ∀ q, q < 64 → Wx q = Wa q := fun q hq => hx.quietO xq hq
  have bx_tx : Bx fx.target = placed fx := by rw [hx.plainM xplain _ tx, if_pos rfl]
  have pxne := hx.placed_ne0
  have capsum : (if fm.pieceAttacked = 0 then 0 else 1) = (if fa.pieceAttacked = 0 then 0 else 1) +
      (if fc.pieceAttacked = 0 then 0 else 1) := by omega
  rw [if_neg mcap] at capsum
  have b_sx : B fx.source ≠ 0 := by
    rw [← (ha.O_sub sx hx.src_ne0)]; exact hx.src_ne0
  by_cases hA : Bc fx.target = 0
  · -- case B: `c` captures the piece `x` moved
    have ccap : fc.castle = false ∧ fx.target = capSq w fc.enPassant fc.target ∧ fc.pieceAttacked ≠ 0 := by
      rcases hc.O_cases tx with e | ⟨e1, e2, -, -, e5⟩
      · rw [hA, bx_tx] at e; exact absurd e.symm pxne
      · exact ⟨e1, e2, e5⟩
    obtain ⟨cplain, htx, ccap⟩ := ccap
    have aq : fa.pieceAttacked = 0 := by
      by_cases h : fa.pieceAttacked = 0
      · exact h
      · rw [if_neg h, if_neg ccap] at capsum; omega
    have anoep := ha.quiet_noep aq
    have b_ta : B fa.target = 0 := ha.quiet_tgt aq
    have w_ta : W fa.target = 0 := ha.tgt
    have w_tm : W fm.target = 0 := hm.tgt
    have ba_eq : ∀ q, q < 64 → Ba q = B q := fun q hq => ha.quietO aq hq
    have tm := hm.t_lt
    have ta := ha.t_lt
    have tc := hc.t_lt
    have sc := hc.s_lt
    have w1 : ∀ q, q < 64 → W1 q = if q = fm.target then placed fm else if q = fm.source then 0 else W q :=
      hm.plainM mplain
    have wc : ∀ q, q < 64 → Wc q = if q = fc.target then placed fc else if q = fc.source then 0 else Wa q := by
      intro q hq
      rw [hc.plainM cplain q hq, wx_eq q hq]
    have wa_tc : Wa fc.target = 0 := by rw [← wx_eq _ tc]; exact hc.tgt
    have wa_sc : Wa fc.source ≠ 0 := by rw [← wx_eq _ sc]; exact hc.src_ne0
    -- a piece of the root mover on a square that was empty at the root: `m` is en passant and the piece a pawn
    have newsq : ∀ q, q < 64 → W q = 0 → B q = 0 → Wc q ≠ 0 →
        q = fm.target ∧ fm.enPassant = true ∧ Wc q = 1 := by
      intro q hq hw hb hne
      have h1 : W1 q ≠ 0 := by rw [eW q hq]; exact hne
      rw [w1 q hq] at h1
      have hqt : q = fm.target := by
        false_or_by_contra
        rename_i hn
        rw [if_neg hn] at h1
        split at h1
        · exact h1 rfl
        · exact h1 hw
      have hep : fm.enPassant = true := by
        cases he : fm.enPassant
        · have h2 := hm.att
          rw [hm.capSq_noep he, ← hqt, hb] at h2
          exact absurd h2 mcap
        · rfl
      refine ⟨hqt, hep, ?_⟩
      rw [← eW q hq, w1 q hq, if_pos hqt]
      obtain ⟨g1, -, g3, -⟩ := hm.epF hep
      unfold placed
      rw [if_pos g3, g1]
    cases hac : fa.castle
    · -- `a` is a quiet ordinary move
      have wa : ∀ q, q < 64 → Wa q = if q = fa.target then placed fa else if q = fa.source then 0 else W q :=
        ha.plainM hac
      have sa := ha.s_lt
      have sm := hm.s_lt
      have wa_ta : Wa fa.target = placed fa := by rw [wa _ ta, if_pos rfl]
      have pane := ha.placed_ne0
      have tc_ne_ta : fc.target ≠ fa.target := by
        intro e; rw [e, wa_ta] at wa_tc; exact pane wa_tc
      cases hce : fc.enPassant
      · -- `c` captures on its target, the target of `x`
        have htx' : fx.target = fc.target := by rw [htx, hc.capSq_noep hce]
        have wc_tx : Wc fx.target ≠ 0 := by
          rw [wc _ tx, if_pos htx']; exact hc.placed_ne0
        have w1_tx : W1 fx.target ≠ 0 := by rw [eW _ tx]; exact wc_tx
        by_cases h1a : fx.target = fm.target
        · -- `m` is en passant and `x` a pawn move backwards
          have hep : fm.enPassant = true := by
            cases he : fm.enPassant
            · rw [hm.capSq_noep he] at hsx
              exact absurd (hsx.trans h1a.symm) hx.src_ne_tgt
            · rfl
          have b1 : B fx.source = 1 := by
            have := hm.ep_att hep
            rw [hm.att, ← hsx] at this
            exact this
          have xp : fx.pieceMoved = 1 := by rw [← hx.src, ba_eq _ sx, b1]
          have geo := hx.pawn_quiet xp xq
          rw [hep, capSq_ep_true] at hsx
          obtain ⟨-, -, -, -, -, -, -, -, g9⟩ := hm.epF hep
          cases w
          · simp only [Bool.false_eq_true, if_false, Bool.not_false, if_true] at hsx geo g9
            omega
          · simp only [if_true, Bool.not_true, Bool.false_eq_true, if_false] at hsx geo g9
            omega
        · -- the target of `x` is the source of `a`
          have hsa : fx.target = fa.source := by
            false_or_by_contra
            rename_i hn
            have h2 := wa _ tx
            rw [if_neg (fun e => tc_ne_ta (htx'.symm.trans e)), if_neg hn, wa_tx] at h2
            rw [w1 _ tx, if_neg h1a] at w1_tx
            split at w1_tx
            · exact w1_tx rfl
            · exact w1_tx h2.symm
          have sm_ne_sa : fm.source ≠ fa.source := by
            intro e
            rw [w1 _ tx, if_neg h1a, if_pos (hsa.trans e.symm)] at w1_tx
            exact w1_tx rfl
          by_cases hsc : fc.source = fa.target
          · -- `c` undoes `a`: the source of `m` is still occupied
            have h2 : Wc fm.source = W fm.source := by
              rw [wc _ sm, if_neg (fun e => sm_ne_sa (e.trans (htx'.symm.trans hsa))),
                if_neg (fun e => hm.src_ne0 (by rw [e, hsc]; exact w_ta)),
                wa _ sm, if_neg (fun e => hm.src_ne0 (by rw [e]; exact w_ta)), if_neg sm_ne_sa]
            have h3 : W1 fm.source = 0 := hm.vacate
            rw [eW _ sm, h2] at h3
            exact hm.src_ne0 h3
          · -- the piece `a` moved is still on its target, an empty square of the root
            have h2 : Wc fa.target ≠ 0 := by
              rw [wc _ ta, if_neg (fun e => tc_ne_ta e.symm), if_neg (fun e => hsc e.symm), wa_ta]; exact pane
            obtain ⟨e1, hep, e3⟩ := newsq _ ta w_ta b_ta h2
            have pa1 : placed fa = 1 := by
              rw [wc _ ta, if_neg (fun e => tc_ne_ta e.symm), if_neg (fun e => hsc e.symm), wa_ta] at e3; exact e3
            have ap : fa.pieceMoved = 1 := by
              unfold placed at pa1
              split at pa1
              · exact pa1
              · rename_i hp; have := (ha.promo hp).2.1; omega
            have geo := ha.pawn_quiet ap aq
            rw [hep, capSq_ep_true] at hsx
            have hcr := hm.cross _ sa ha.src_ne0
            cases w
            · simp only [Bool.false_eq_true, if_false] at hsx geo
              rcases geo with g | ⟨g1, g2, g3, g4⟩
              · have : fa.source = fx.source := by omega
                rw [this] at hcr; exact b_sx hcr
              · have : fa.source + 8 = fx.source := by omega
                rw [this] at g4; exact b_sx g4
            · simp only [if_true] at hsx geo
              rcases geo with g | ⟨g1, g2, g3, g4⟩
              · have : fa.source = fx.source := by omega
                rw [this] at hcr; exact b_sx hcr
              · have : fa.target + 8 = fx.source := by omega
                rw [this] at g4; exact b_sx g4
      · -- `c` is en passant: `x` was a double step
        obtain ⟨cp, -, -, -, e5, e6, -, -, -⟩ := hc.epF hce
        have xne : fx.nextEp ≠ 0 := e6
        have xp : fx.pieceMoved = 1 := by
          false_or_by_contra
          rename_i hn
          exact xne (hx.nonpawn hn).2.2
        have geo := hx.pawn_quiet xp xq
        have pc1 : placed fc = 1 := by
          obtain ⟨g1, -, g3, -⟩ := hc.epF hce
          unfold placed; rw [if_pos g3, g1]
        have wc_tc : Wc fc.target = 1 := by rw [wc _ tc, if_pos rfl, pc1]
        have tc_ne_tm : fc.target ≠ fm.target := by
          intro e
          rw [hce, capSq_ep_true] at htx
          have h9 := (hx.pawn xp).2.2.2
          rw [if_neg xne] at h9
          obtain ⟨-, -, -, -, -, -, g⟩ := h9
          cases hme : fm.enPassant
          · rw [hm.capSq_noep hme] at hsx
            cases w
            · simp only [Bool.false_eq_true, if_false, Bool.not_false, if_true] at htx g; omega
            · simp only [if_true, Bool.not_true, Bool.false_eq_true, if_false] at htx g; omega
          · rw [hme, capSq_ep_true] at hsx
            cases w
            · simp only [Bool.false_eq_true, if_false, Bool.not_false, if_true] at htx g hsx; omega
            · simp only [if_true, Bool.not_true, Bool.false_eq_true, if_false] at htx g hsx; omega
        have w_tc : W fc.target = 1 := by
          have h2 := eW _ tc
          rw [wc_tc, w1 _ tc, if_neg tc_ne_tm] at h2
          split at h2
          · cases h2
          · exact h2
        have hsa : fc.target = fa.source := by
          false_or_by_contra
          rename_i hn
          have h2 := wa _ tc
          rw [if_neg tc_ne_ta, if_neg hn, wa_tc, w_tc] at h2
          cases h2
        have ap : fa.pieceMoved = 1 := by rw [← ha.src, ← hsa, w_tc]
        have geoa := ha.pawn_quiet ap aq
        have h9 := (hx.pawn xp).2.2.2
        rw [if_neg xne] at h9
        obtain ⟨-, -, -, -, -, -, g⟩ := h9
        cases w
        · simp only [Bool.false_eq_true, if_false, Bool.not_false, if_true] at geoa g
          rcases geoa with g1 | ⟨g1, g2, g3, g4⟩
          · have : fa.target = fx.source := by omega
            rw [this] at b_ta; exact b_sx b_ta
          · have : fa.source + 8 = fx.source := by omega
            rw [this] at g4; exact b_sx g4
        · simp only [if_true, Bool.not_true, Bool.false_eq_true, if_false] at geoa g
          rcases geoa with g1 | ⟨g1, g2, g3, g4⟩
          · have : fa.target = fx.source := by omega
            rw [this] at b_ta; exact b_sx b_ta
          · have : fa.target + 8 = fx.source := by omega
            rw [this] at g4; exact b_sx g4
    · -- `a` castles
      obtain ⟨rs, rt, hrs, hrt, d1, d2, d3, d4, d5, d6, ars, art, prt, pt, -, -, -, -, hM, -⟩ := ha.castle hac
      have wa_ta : Wa fa.target = 6 := by rw [hM _ ta, if_pos rfl]
      have wa_rt : Wa rt = 4 := by rw [hM _ hrt, if_neg (fun e => d5 e.symm), if_neg (fun e => d3 e.symm), if_pos rfl]
      by_cases hsc : fc.source = fa.target
      · have h2 : Wc rt = 4 := by
          rw [wc _ hrt, if_neg (fun e => by rw [← e, wa_rt] at wa_tc; cases wa_tc),
            if_neg (fun e => d5 (hsc.symm.trans e.symm)), wa_rt]
        obtain ⟨-, -, e3⟩ := newsq rt hrt art prt (by omega)
        omega
      · have h2 : Wc fa.target = 6 := by
          rw [wc _ ta, if_neg (fun e => by rw [← e, wa_ta] at wa_tc; cases wa_tc),
            if_neg (fun e => hsc e.symm), wa_ta]
        obtain ⟨-, -, e3⟩ := newsq _ ta w_ta b_ta (by omega)
        omega
  · -- case A: the piece `x` moved survives: `a` captured the same piece on the same square
    have b1_tx : B1 fx.target = placed fx := by
      rw [eB _ tx, hc.O_sub tx hA]; exact bx_tx
    have b_tx : B fx.target = placed fx := by
      rw [← hm.O_sub tx (by omega)]; exact b1_tx
    have acap : fa.castle = false ∧ fx.target = capSq w fa.enPassant fa.target ∧ fa.pieceAttacked ≠ 0 := by
      rcases ha.O_cases tx with e | ⟨e1, e2, -, -, e5⟩
      · rw [ba_tx, b_tx] at e; exact absurd e.symm pxne
      · exact ⟨e1, e2, e5⟩
    obtain ⟨aplain, htx, acap⟩ := acap
    have ta := ha.t_lt
    have wa_ta : Wa fa.target = placed fa := by rw [ha.plainM aplain _ ta, if_pos rfl]
    have pane := ha.placed_ne0
    have hep : fa.enPassant = true := by
      cases he : fa.enPassant
      · rw [ha.capSq_noep he] at htx
        rw [htx, wa_ta] at wa_tx
        exact absurd wa_tx pane
      · rfl
    have px1 : placed fx = 1 := by
      have := ha.ep_att hep
      rw [ha.att, ← htx, b_tx] at this
      exact this
    have xp : fx.pieceMoved = 1 := by
      unfold placed at px1
      split at px1
      · exact px1
      · rename_i hp; have := (hx.promo hp).2.1; omega
    have geo := hx.pawn_quiet xp xq
    rw [hep, capSq_ep_true] at htx
    have hcr := hx.cross _ sx hx.src_ne0
    cases w
    · simp only [Bool.false_eq_true, if_false, Bool.not_false, if_true] at htx geo
      obtain ⟨-, -, -, -, -, -, -, -, g9⟩ := ha.epF hep
      simp only [Bool.false_eq_true, if_false] at g9
      rcases geo with g | ⟨g1, g2, g3, g4⟩
      · have : fx.source = fa.target := by omega
        rw [this, wa_ta] at hcr; exact pane hcr
      · have : fx.target + 8 = fa.target := by omega
        rw [this, wa_ta] at g4; exact pane g4
    · simp only [if_true, Bool.not_true, Bool.false_eq_true, if_false] at htx geo
      rcases geo with g | ⟨g1, g2, g3, g4⟩
      · have : fx.source = fa.target := by omega
        rw [this, wa_ta] at hcr; exact pane hcr
      · have : fx.source + 8 = fa.target := by omega
        rw [this, wa_ta] at g4; exact pane g4

#print axioms no13

end Inkayaku.SearchSim.Transp
