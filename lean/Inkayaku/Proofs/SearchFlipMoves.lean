import Inkayaku.Proofs.SearchFlipWf
import Inkayaku.Props.Closure
import Inkayaku.Proofs.WfStepProof
import Inkayaku.Model.SpecSearch
/-!
# C11 (search half), part 4: legal moves, captures and the successor of the BOARD MODEL commute with the colour flip

`FlipRel k c c'` – both boards are well-formed with clock budget `k` and their abstractions are related by `SFlip`
(i.e. `c'` is `flipBoard c` up to the scratch words and the full-move number, `flipRel_vis`).

* `flipRel_root`  – `FlipRel k b (flipBoard b)` for every `b` with `Inv k b` (uses `wf_flipBoard`);
* `pseudo_step`   – every pseudo-legal move of `c` has a mirrored pseudo-legal move of `c'`, the successors are flips of each
                    other, the capture/promotion marks agree and so does `isValid` of the successors;
* `legal_step`, `capture_step` – the same for `genLegal` and for `SpecSearch.legalCaptures`, with `FlipRel k` of the successors;
* `noisy_flip`, `evalFor_flip_static`, `isCurrentInCheck_flipRel`, `genLegal_nil_flip`.

Route: `Closure`/C01 (`genPseudo` = the rules' pseudo-legal moves), C02 (`make` = the rules' successor), the Spec-level
equivariance of `Proofs/SearchFlipRules.lean`, and back through `flip_of_sflip`.
-/
namespace Inkayaku.SearchFlip
open Inkayaku.Board Inkayaku.WF Inkayaku.Abs Inkayaku.Generate Inkayaku.Check Inkayaku.Eval Inkayaku.Search
  Inkayaku.SpecSearch

def FlipRel (k : Nat) (c c' : Board) : Prop := Inv k c ∧ Inv k c' ∧ SFlip (abs c) (abs c')

theorem FlipRel.symm {k : Nat} {c c' : Board} (h : FlipRel k c c') : FlipRel k c' c := ⟨h.2.1, h.1, h.2.2.symm⟩

theorem FlipRel.mono {k k' : Nat} {c c' : Board} (hk : k' ≤ k) (h : FlipRel k c c') : FlipRel k' c c' :=
  ⟨Inv_mono hk h.1, Inv_mono hk h.2.1, h.2.2⟩

theorem inv_flipBoard {k : Nat} {b : Board} (h : Inv k b) : Inv k (flipBoard b) := ⟨wf_flipBoard h.1, h.2.1, h.2.2⟩

theorem flipRel_root {k : Nat} {b : Board} (h : Inv k b) : FlipRel k b (flipBoard b) :=
  ⟨h, inv_flipBoard h, abs_flipBoard h.1⟩

/-- up to the scratch words and the full-move number `c'` IS the flipped board -/
theorem flipRel_vis {k : Nat} {c c' : Board} (h : FlipRel k c c') :
    vis c' = vis { flipBoard c with fullmove := c'.fullmove } :=
  flip_of_sflip (struct_of_wf h.1.1).1 (struct_of_wf h.2.1.1).1 (struct_of_wf h.1.1).2 (struct_of_wf h.2.1.1).2 h.2.2

theorem flipRel_turn {k : Nat} {c c' : Board} (h : FlipRel k c c') : c'.turn = 1 - c.turn ∧ c.turn ≤ 1 :=
  ⟨abs_turn_eq (struct_of_wf h.1.1).2 (struct_of_wf h.2.1.1).2 h.2.2.turn, (struct_of_wf h.1.1).2⟩

/-! ## values that do not look at the full-move number -/

theorem factor_flip {t : Nat} (ht : t ≤ 1) : Search.factor (1 - t) = - Search.factor t := by
  have : t = 0 ∨ t = 1 := by omega
  rcases this with e | e <;> rw [e] <;> rfl

theorem evaluate_true_fullmove (b : Board) (n : Nat) : evaluate { b with fullmove := n } true = evaluate b true := by
  unfold evaluate evaluateOngoing pieceSquareValue gameStage
  rfl

/-- the static value from the mover's point of view is the same in the flipped position -/
theorem evalFor_flip_static {k : Nat} {c c' : Board} (h : FlipRel k c c') :
    evalFor c' c'.turn true = evalFor c c.turn true := by
  obtain ⟨ht, ht1⟩ := flipRel_turn h
  unfold evalFor
  rw [BoardCongr.evaluate_congr (flipRel_vis h), evaluate_true_fullmove, EvalFlip.evaluate_flip_ongoing, ht, factor_flip ht1]
  exact Int.neg_mul_neg _ _

theorem isCurrentInCheck_fullmove (b : Board) (n : Nat) : isCurrentInCheck { b with fullmove := n } = isCurrentInCheck b := rfl

theorem inCheck_congr {b b' : Board} (h : vis b = vis b') (c : Nat) : inCheck b c = inCheck b' c := by
  rw [← BoardCongr.inCheck_vis b, h, BoardCongr.inCheck_vis]

theorem isCurrentInCheck_flipRel {k : Nat} {c c' : Board} (h : FlipRel k c c') :
    isCurrentInCheck c' = isCurrentInCheck c := by
  have hv := flipRel_vis h
  have e : isCurrentInCheck c' = isCurrentInCheck { flipBoard c with fullmove := c'.fullmove } := by
    unfold isCurrentInCheck
    rw [inCheck_congr hv, BoardCongr.turn_congr hv]
  rw [e, isCurrentInCheck_fullmove]
  exact EvalFlip.isCurrentInCheck_flip c (EvalFlip.wf_turn_king c h.1.1).1 (EvalFlip.wf_turn_king c h.1.1).2

theorem isValid_fullmove (b : Board) (n : Nat) : isValid { b with fullmove := n } = isValid b := rfl

/-- `is_valid` of two boards related by the flip (structural hypotheses only: used for successors before they are known
to be well-formed) -/
theorem isValid_of_sflip {x y : Board} (hx : Struct x) (hy : Struct y) (hxt : x.turn ≤ 1) (hyt : y.turn ≤ 1)
    (h : SFlip (abs x) (abs y)) : isValid y = isValid x := by
  have hv := flip_of_sflip hx hy hxt hyt h
  rw [BoardCongr.isValid_congr hv, isValid_fullmove]
  apply EvalFlip.isValid_flip x hxt
  unfold Board.passive Board.whiteTurn
  have : x.turn = 0 ∨ x.turn = 1 := by omega
  rcases this with e | e <;> rw [e]
  · exact hx.blackKing
  · exact hx.whiteKing

/-! ## moves -/

/-- the capture-or-promotion mark of a move (`Move::is_attack() || is_promotion()`) -/
def noisyM (m : Move) : Bool := m.isAttack || m.isPromotion

theorem isAttack_eq {c : Board} (hwf : wf c = true) {m : Move} (hm : m ∈ genPseudo c) :
    m.isAttack = Spec.isCapture (abs c) (absMove m.f) :=
  (Successor.isCapture_eq (GenFacts.env_of_wf hwf) (GenFacts.genPseudo_facts hwf m hm)).symm

theorem isPromotion_eq (m : Move) : m.isPromotion = (absMove m.f).promo.isSome := by
  unfold Move.isPromotion absMove NO_PIECE
  by_cases h : m.f.promotion = 0
  · simp [h]
  · have : (m.f.promotion == 0) = false := by simpa using h
    simp [h, this]

/-- **pseudo-legal moves**: a mirrored move exists; successors are flips of each other; marks and validity agree -/
theorem pseudo_step {k : Nat} {c c' : Board} (h : FlipRel k c c') {m : Move} (hm : m ∈ genPseudo c) :
    ∃ m' ∈ genPseudo c', absMove m'.f = flipSM (absMove m.f) ∧ SFlip (abs (make c m)) (abs (make c' m')) ∧
      noisyM m' = noisyM m ∧ isValid (make c' m') = isValid (make c m) := by
  have hwf := h.1.1
  have hwf' := h.2.1.1
  have hsm : absMove m.f ∈ Spec.pseudoMoves (abs c) :=
    (C01.genPseudo_iff hwf _).mp (List.mem_map.mpr ⟨m, hm, rfl⟩)
  have hsm' := pseudoMoves_flip h.2.2 hsm
  obtain ⟨m', hm', e⟩ := List.mem_map.mp ((C01.genPseudo_iff hwf' _).mpr hsm')
  have e' : absMove m'.f = flipSM (absMove m.f) := e
  obtain ⟨hs, ht, -⟩ := GenSpec.gen_bounds hwf hm
  have hsf : SFlip (abs (make c m)) (abs (make c' m')) := by
    rw [C02.make_eq_apply hwf hm, C02.make_eq_apply hwf' hm', e']
    exact apply_flip h.2.2 _ hs ht
  refine ⟨m', hm', e', hsf, ?_, ?_⟩
  · unfold noisyM
    rw [isAttack_eq hwf hm, isAttack_eq hwf' hm', isPromotion_eq, isPromotion_eq, e', isCapture_flip h.2.2 _ hs ht]
    rfl
  · have ht1 := (struct_of_wf hwf).2
    have ht1' := (struct_of_wf hwf').2
    exact isValid_of_sflip (GenSpec.struct_make hwf hm) (GenSpec.struct_make hwf' hm')
      (by show 1 - c.turn ≤ 1; omega) (by show 1 - c'.turn ≤ 1; omega) hsf

/-- **legal moves** -/
theorem legal_step {k : Nat} {c c' : Board} (h : FlipRel (k + 1) c c') {m : Move} (hm : m ∈ genLegal c) :
    ∃ m' ∈ genLegal c', FlipRel k (make c m) (make c' m') ∧ noisyM m' = noisyM m ∧
      absMove m'.f = flipSM (absMove m.f) := by
  obtain ⟨hp, hv⟩ := List.mem_filter.mp hm
  obtain ⟨m', hm', he, hsf, hn, hval⟩ := pseudo_step h hp
  have hv' : isMoveLegal c' m' = true := by
    unfold isMoveLegal at hv ⊢
    rw [hval]; exact hv
  refine ⟨m', List.mem_filter.mpr ⟨hm', hv'⟩, ⟨?_, ?_, hsf⟩, hn, he⟩
  · exact make_inv k c m h.1 (Or.inl hp) hv
  · exact make_inv k c' m' h.2.1 (Or.inl hm') hv'

theorem mem_legalCaptures {c : Board} (hwf : wf c = true) (m : Move) :
    m ∈ legalCaptures c ↔ m ∈ genLegal c ∧ noisyM m = true := by
  unfold legalCaptures genLegal
  rw [C01.genNonQuiescent_eq_filter hwf]
  simp only [List.mem_filter, noisyM]
  constructor
  · rintro ⟨⟨a, b⟩, c⟩; exact ⟨⟨a, c⟩, b⟩
  · rintro ⟨⟨a, c⟩, b⟩; exact ⟨⟨a, b⟩, c⟩

/-- **legal captures and promotions** (the moves of the quiescence search) -/
theorem capture_step {k : Nat} {c c' : Board} (h : FlipRel (k + 1) c c') {m : Move} (hm : m ∈ legalCaptures c) :
    ∃ m' ∈ legalCaptures c', FlipRel k (make c m) (make c' m') := by
  obtain ⟨hl, hn⟩ := (mem_legalCaptures h.1.1 m).mp hm
  obtain ⟨m', hm', hr, hn', -⟩ := legal_step h hl
  exact ⟨m', (mem_legalCaptures h.2.1.1 m').mpr ⟨hm', by rw [hn', hn]⟩, hr⟩

/-- the horizon test (`some pseudo-legal move is a capture or a promotion`) -/
theorem noisy_flip {k : Nat} {c c' : Board} (h : FlipRel k c c') : SpecSearch.noisy c' = SpecSearch.noisy c := by
  have key : ∀ {k : Nat} {c c' : Board}, FlipRel k c c' → SpecSearch.noisy c = true → SpecSearch.noisy c' = true := by
    intro k c c' h hn
    unfold SpecSearch.noisy at hn ⊢
    rw [List.any_eq_true] at hn ⊢
    obtain ⟨m, hm, hmn⟩ := hn
    obtain ⟨m', hm', -, -, hn', -⟩ := pseudo_step h hm
    exact ⟨m', hm', by unfold noisyM at hn'; rw [hn']; exact hmn⟩
  rw [Bool.eq_iff_iff]
  exact ⟨key h.symm, key h⟩

theorem genLegal_nil_flip {k : Nat} {c c' : Board} (h : FlipRel (k + 1) c c') : genLegal c' = [] ↔ genLegal c = [] := by
  have key : ∀ {c c' : Board}, FlipRel (k + 1) c c' → genLegal c' = [] → genLegal c = [] := by
    intro c c' h h0
    cases hg : genLegal c with
    | nil => rfl
    | cons m ms =>
      obtain ⟨m', hm', -⟩ := legal_step h (by rw [hg]; exact List.mem_cons_self)
      rw [h0] at hm'; cases hm'
  exact ⟨key h, key h.symm⟩

end Inkayaku.SearchFlip
