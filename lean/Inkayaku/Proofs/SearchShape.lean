import Inkayaku.Model.Search
/-!
# The search functions, cut into named phases

`negamax (fuel+1)` is rewritten (by `rfl`) as a pipeline of small non-recursive functions
(`pollStep`, `timedOut`, `enter`, `isRep`, `probe`, `rootBuffer`, `horizon`, `finish`) around the recursive calls;
`negamaxLoop`, `quiescence`, `quiescenceLoop` get one equation per constructor.  All later proofs use these equations
instead of unfolding the model.
-/
namespace Inkayaku.Search
open Inkayaku.Board Inkayaku.Eval

/-- `should_check_flags` -/
def pollFlag (s : St) : Bool := s.negamaxNodes % s.pollPeriod == 0 && s.negamaxNodes > 0

/-- the flag poll: drain the channel, emit the periodic info -/
def pollStep (s : St) : St :=
  if pollFlag s then
    let s := checkMessages s
    s.emit (.info none (some (s.elapsedNs / 1000000)) s.totalNodes none none)
  else s

/-- move time exceeded at a poll -/
def timedOut (s : St) : Bool :=
  pollFlag s && (match (pollStep s).go.moveTime with | some mt => (pollStep s).elapsedNs > mt | none => false)

/-- poll, count the node, record the hash in the repetition history -/
def enter (s : St) (hash : UInt64) : St :=
  let s := pollStep s
  let s := { s with negamaxNodes := s.negamaxNodes + 1 }
  { s with history := historySet s.history (plyClock s.board) hash.toNat }

def isRep (s : St) (ply : Nat) : Bool :=
  ply > 0 && History.countRepetitions (fun i => s.history.getD i 0) (plyClock s.board) (s.board.halfmove % 65536) ≥ 3

def repValue (ply : Nat) : Int := Gen.drawScore + (if ply % 2 == 0 then 1 else -1) * Gen.contempt

/-- the transposition table probe: (answer, alpha, beta) -/
def probe (entry : Option TtEntry) (remaining : Nat) (alpha0 beta0 : Int) : Option VM × Int × Int :=
  match entry with
  | some e =>
    if e.depth ≥ remaining then
      match e.nodeType with
      | .exact => (some e.mv, alpha0, beta0)
      | .lower =>
        let a := max alpha0 e.value
        if a ≥ beta0 then (some e.mv, a, beta0) else (none, a, beta0)
      | .upper =>
        let b := min beta0 e.value
        if alpha0 ≥ b then (some e.mv, alpha0, b) else (none, alpha0, b)
    else (none, alpha0, beta0)
  | none => (none, alpha0, beta0)

/-- the move buffer of a node (`searchmoves` filter at the root) -/
def rootBuffer (s : St) (ply : Nat) : List Move :=
  if ply == 0 && !s.go.searchMoves.isEmpty then (genPseudo s.board).filter (fun m => s.go.searchMoves.contains m.uci)
  else genPseudo s.board

def ttMoveOf (entry : Option TtEntry) : Option Move := match entry with | some e => e.mv.mv | none => none

def pvMoveOf (s : St) (isPv : Bool) (ply : Nat) : Option Move :=
  if isPv then (match s.pv with | some l => l[ply]? | none => none) else none

def acc0 (alpha : Int) : LoopAcc :=
  { alpha := alpha, bestValue := lossScore, bestMove := none, bestChild := none, legalSeen := false }

/-- what `search_negamax` does after its move loop -/
def finish (color : Nat) (alpha0 beta : Int) (hash : UInt64) (remaining : Nat) (r : LoopAcc × Bool × St) : VM × St :=
  let (acc, aborted, s) := r
  if aborted then (.mk 0 none none, s)
  else if !acc.legalSeen then (VM.leaf (evalFor s.board color false), s)
  else
    let result := VM.mk acc.bestValue acc.bestMove acc.bestChild
    if !isCheckmateValue acc.bestValue then
      let nodeType := if acc.bestValue ≤ alpha0 then NodeType.upper else if acc.bestValue ≥ beta then .lower else .exact
      (result, { s with tt := s.tt.insert hash { mv := result, depth := remaining, value := acc.bestValue, nodeType } })
    else (result, s)

/-- the horizon node: quiescence search or static evaluation -/
def horizon (fuel : Nat) (color : Nat) (s : St) (buffer : List Move) (alpha beta : Int) : VM × St :=
  let legalRemaining := isAnyMoveLegal s.board buffer
  if legalRemaining && buffer.any (fun m => m.isAttack || m.isPromotion) then quiescence fuel s alpha beta
  else (VM.leaf (evalFor s.board color legalRemaining), s)

def childPvOf (isPv : Bool) (pvMove : Option Move) (m : Move) : Bool :=
  isPv && (match pvMove with | some p => p.bits == m.bits | none => false)

/-- the accumulator update after a completed child -/
def accUpdate (acc : LoopAcc) (m : Move) (child : VM) : LoopAcc :=
  let childValue := -child.value
  let acc := if childValue > acc.bestValue then
      { acc with bestValue := childValue, bestMove := some m, bestChild := some child, legalSeen := true }
    else { acc with legalSeen := true }
  { acc with alpha := max acc.alpha acc.bestValue }

theorem negamax_zero (s : St) (ply maxPly : Nat) (a b : Int) (isPv : Bool) (h ph : UInt64) :
    negamax 0 s ply maxPly a b isPv h ph = (VM.leaf 0, s) := by
  rw [negamax]

theorem negamax_succ (fuel : Nat) (s : St) (ply maxPly : Nat) (alpha0 beta0 : Int) (isPv : Bool) (hash ph : UInt64) :
    negamax (fuel + 1) s ply maxPly alpha0 beta0 isPv hash ph =
      if timedOut s then (VM.leaf 0, { pollStep s with stop := true })
      else
        let s3 := enter s hash
        if isRep s3 ply then (VM.leaf (repValue ply), s3)
        else
          let entry := s3.tt.get? hash
          match probe entry (maxPly - ply) alpha0 beta0 with
          | (some r, _, _) => (r, s3)
          | (none, alpha, beta) =>
            let buffer := rootBuffer s3 ply
            if ply == 0 && buffer.isEmpty then (VM.leaf 0, s3)
            else if ply == maxPly then horizon fuel s.board.turn s3 buffer alpha beta
            else
              finish s.board.turn alpha0 beta hash (maxPly - ply)
                (negamaxLoop fuel s3
                  (sortMoves buffer (pvMoveOf s3 isPv ply) (ttMoveOf entry) (killerGet s3.killers (maxPly - ply)))
                  ply maxPly beta isPv (pvMoveOf s3 isPv ply) hash ph (maxPly - ply) (acc0 alpha)) := by
  rw [negamax]
  rfl

theorem negamaxLoop_nil (fuel : Nat) (s : St) (ply maxPly : Nat) (beta : Int) (isPv : Bool) (pvMove : Option Move)
    (hash ph : UInt64) (remaining : Nat) (acc : LoopAcc) :
    negamaxLoop fuel s [] ply maxPly beta isPv pvMove hash ph remaining acc = (acc, false, s) := by
  rw [negamaxLoop]

theorem negamaxLoop_cons (fuel : Nat) (s : St) (m : Move) (rest : List Move) (ply maxPly : Nat) (beta : Int) (isPv : Bool)
    (pvMove : Option Move) (hash ph : UInt64) (remaining : Nat) (acc : LoopAcc) :
    negamaxLoop fuel s (m :: rest) ply maxPly beta isPv pvMove hash ph remaining acc =
      if !isValid (make s.board m) then
        negamaxLoop fuel { s with board := unmake (make s.board m) m } rest ply maxPly beta isPv pvMove hash ph remaining acc
      else
        let r := negamax fuel { s with board := make s.board m } (ply + 1) maxPly (-beta) (-acc.alpha)
          (childPvOf isPv pvMove m) (hash ^^^ (Zobrist.xorOf m.f).1) (ph ^^^ (Zobrist.xorOf m.f).2)
        if r.2.stop then (acc, true, { r.2 with board := unmake r.2.board m })
        else
          let acc' := accUpdate acc m r.1
          let s3 := { r.2 with board := unmake r.2.board m }
          if acc'.alpha ≥ beta then (acc', false, { s3 with killers := killerPut s3.killers remaining m })
          else negamaxLoop fuel s3 rest ply maxPly beta isPv pvMove hash ph remaining acc' := by
  conv => lhs; rw [negamaxLoop.eq_def]
  rfl

theorem quiescence_zero (s : St) (a b : Int) : quiescence 0 s a b = (VM.leaf a, s) := by
  rw [quiescence]

theorem quiescence_succ (fuel : Nat) (s : St) (alpha0 beta0 : Int) :
    quiescence (fuel + 1) s alpha0 beta0 =
      if evalFor s.board s.board.turn true ≥ beta0 then (VM.leaf beta0, s)
      else quiescenceLoop fuel s (sortMoves (genNonQuiescent s.board) none none none)
        (max alpha0 (evalFor s.board s.board.turn true)) beta0 none none := by
  rw [quiescence]

theorem quiescenceLoop_nil (fuel : Nat) (s : St) (alpha beta0 : Int) (bm : Option Move) (bc : Option VM) :
    quiescenceLoop fuel s [] alpha beta0 bm bc = (.mk alpha bm bc, s) := by
  rw [quiescenceLoop]

theorem quiescenceLoop_cons (fuel : Nat) (s : St) (m : Move) (rest : List Move) (alpha beta0 : Int) (bm : Option Move)
    (bc : Option VM) :
    quiescenceLoop fuel s (m :: rest) alpha beta0 bm bc =
      if !isValid (make s.board m) then
        quiescenceLoop fuel { s with board := unmake (make s.board m) m } rest alpha beta0 bm bc
      else
        let r := quiescence fuel { s with board := make s.board m, quiescenceNodes := s.quiescenceNodes + 1 } (-beta0) (-alpha)
        let s3 := { r.2 with board := unmake r.2.board m }
        if -r.1.value ≥ beta0 then (.mk beta0 (some m) (some r.1), s3)
        else if -r.1.value > alpha then quiescenceLoop fuel s3 rest (-r.1.value) beta0 (some m) (some r.1)
        else quiescenceLoop fuel s3 rest alpha beta0 bm bc := by
  conv => lhs; rw [quiescenceLoop]

/-! ## membership in the sorted / filtered buffers -/

theorem mem_sortMoves {m : Move} {ms : List Move} {a b c : Option Move} : m ∈ sortMoves ms a b c ↔ m ∈ ms := by
  unfold sortMoves
  exact List.mem_mergeSort

theorem mem_rootBuffer_genPseudo {m : Move} {s : St} {ply : Nat} (h : m ∈ rootBuffer s ply) : m ∈ genPseudo s.board := by
  unfold rootBuffer at h
  split at h
  · exact (List.mem_filter.mp h).1
  · exact h

/-! ## iterative deepening and `go` -/

/-- the root search of iteration `d` -/
def rootSearch (s : St) (d : Nat) : VM × St :=
  negamax (fuelFor d) s 0 d lossScore Gen.winScore s.pv.isSome (Zobrist.hash s.board) (Zobrist.pawnHash s.board)

/-- `aborted` of `best_move`: the iteration was interrupted (or found no move) -/
def iterAborted (r : VM × St) : Bool := r.2.stop || r.1.mv.isNone

/-- the state after iteration `d` has been reported -/
def iterState (r : VM × St) (d : Nat) (score : Option Score) (uciPv : Option (List Move)) : St :=
  if iterAborted r then
    r.2.emit (.info (some (d - 1)) (some (r.2.elapsedNs / 1000000)) r.2.totalNodes score uciPv)
  else
    ({ r.2 with pv := some r.1.pv } : St).emit
      (.info (some d) (some (r.2.elapsedNs / 1000000)) r.2.totalNodes (some (scoreFromValue r.1.value r.2.board)) (some r.1.pv))

theorem deepen_zero (s : St) (d mt : Nat) (best : Option VM) (u : Option (List Move)) (sc : Option Score) :
    deepen 0 s d mt best u sc = (best, s) := by
  rw [deepen]

theorem deepen_succ (n : Nat) (s : St) (d mt : Nat) (best : Option VM) (u : Option (List Move)) (sc : Option Score) :
    deepen (n + 1) s d mt best u sc =
      let r := rootSearch s d
      if iterAborted r then (best, iterState r d sc u)
      else if r.2.elapsedNs > mt / 3 then (some r.1, iterState r d sc u)
      else deepen n (iterState r d sc u) (d + 1) mt (some r.1) (some r.1.pv) (some (scoreFromValue r.1.value r.2.board)) := by
  rw [deepen]
  by_cases h1 : ((rootSearch s d).2.stop || (rootSearch s d).1.mv.isNone) = true
  · simp only [rootSearch] at h1
    simp only [rootSearch, iterState, iterAborted, h1, Bool.not_true, Bool.false_eq_true, if_false, Bool.true_or, if_true]
  · have h1' : ((rootSearch s d).2.stop || (rootSearch s d).1.mv.isNone) = false := Bool.eq_false_iff.mpr h1
    simp only [rootSearch] at h1'
    simp only [rootSearch, iterState, iterAborted, h1', Bool.not_false, if_true, Bool.false_or, Bool.false_eq_true, if_false,
      decide_eq_true_eq]
    split <;> rfl

/-- `reset_for_go` and the preamble of `best_move`: the state in which iteration 1 starts -/
def goPrep (s : St) (g : GoParams) : St :=
  let s := if s.resetNext then { s with tt := {}, killers := [] } else s
  let s := { s with negamaxNodes := 0, quiescenceNodes := 0, stop := false, quit := false, resetNext := false, go := g }
  let s := { s with tt := {}, killers := s.killers.drop 2 }
  let s := continuePv s
  match s.go.moveTime with
  | none => { s with go := { s.go with moveTime := (maxThinkingNs s).map (· * 2) } }
  | some _ => s

def goIters (g : GoParams) (maxIter : Nat) : Nat :=
  min (match g.depth with | some d => max d 1 | none => 999999) maxIter

def goMaxThinking (s : St) : Nat := match s.go.moveTime with | some t => t | none => 2 ^ 80

def bestMoveOf (best : Option VM) : Option Move := match best with | some vm => vm.mv | none => none

def ponderOf (best : Option VM) (s : St) : Option Move :=
  match bestMoveOf best with
  | some _ => (match s.pv with | some l => l[1]? | none => none)
  | none => none

/-- the result of the iterative deepening of one `go` -/
def goDeepen (s : St) (g : GoParams) (maxIter : Nat) : Option VM × St :=
  deepen (goIters g maxIter) (goPrep s g) 1 (goMaxThinking (goPrep s g)) none none none

theorem goCmd_eq (s : St) (g : GoParams) (maxIter : Nat) :
    goCmd s g maxIter =
      (goDeepen s g maxIter).2.emit
        (.bestMove (bestMoveOf (goDeepen s g maxIter).1) (ponderOf (goDeepen s g maxIter).1 (goDeepen s g maxIter).2)) := by
  rfl

end Inkayaku.Search
