import Inkayaku.Proofs.GenSpecList
import Inkayaku.Model.Abs
/-!
# C01, part 2: the generated moves as (piece, castle flag, source–target–promotion) keys

On boards satisfying `GenOK.WFacts` (a consequence of `WF.wf`) every `make_move` call of the generators gets
arguments that fit the packed word, so the decoded fields are known (`GenSpecList.mkM_f`).  This file

* maps the list forms of part 1 to explicit lists of `Key`s written with square arithmetic only
  (`slidingK`, `singleK`, `pawnAttacksK`, `pawnMovesK`, `castleK`, `genK`; `map_key_genPseudo`);
* proves `genNonQuiescent_eq_filter` (item 2 of C01) as a LIST equality.
-/
namespace Inkayaku.GenSpec
open Inkayaku.Board Inkayaku.Gen Inkayaku.MoveBits Inkayaku.GenOK Inkayaku.Abs

theorem flatMap_congr' {α β : Type} {l : List α} {f g : α → List β} (h : ∀ x ∈ l, f x = g x) :
    l.flatMap f = l.flatMap g := by
  induction l with
  | nil => rfl
  | cons a t ih =>
    rw [List.flatMap_cons, List.flatMap_cons, h a (List.mem_cons_self ..),
      ih (fun x hx => h x (List.mem_cons_of_mem _ hx))]

/-- what the theorems of C01 look at in a generated move -/
structure Key where
  piece : Nat
  castle : Bool
  mv : Spec.SMove
deriving DecidableEq, Repr

def key (m : Move) : Key := ⟨m.f.pieceMoved, m.f.castle, absMove m.f⟩

def promoOf (promo : Nat) : Option Spec.Kind := if promo == 0 then none else some (kindOf promo)

theorem key_mkM {b : Board} {src tgt piece promo epOpp : Nat} (castle ep : Bool)
    (h : ArgsFit b src tgt piece promo epOpp) :
    key (mkM b src tgt piece castle ep promo epOpp) = ⟨piece, castle, ⟨src, tgt, promoOf promo⟩⟩ := by
  unfold key
  rw [mkM_f castle ep h]
  rfl

theorem map_key_mkL {b : Board} {src tgt piece promo epOpp : Nat} (castle ep : Bool)
    (h : ArgsFit b src tgt piece promo epOpp) :
    (mkL b false src tgt piece castle ep promo epOpp).map key = [⟨piece, castle, ⟨src, tgt, promoOf promo⟩⟩] := by
  rw [mkL_false, List.map_cons, List.map_nil, key_mkM castle ep h]

/-! ## key lists -/

def quiet (piece s t : Nat) : Key := ⟨piece, false, ⟨s, t, none⟩⟩

def stepK (piece s : Nat) (att : UInt64) : List Key := (bitsAsc att).map (quiet piece s)

def slidingK (pieceOcc activeOcc fullOcc : UInt64) (rook : Bool) (piece : Nat) : List Key :=
  (bitsAsc pieceOcc).flatMap fun s =>
    stepK piece s ((if rook then rookAttacks s fullOcc else bishopAttacks s fullOcc) &&& ~~~activeOcc)

def singleK (pieceOcc activeOcc : UInt64) (tbl : List Nat) (piece : Nat) : List Key :=
  (bitsAsc pieceOcc).flatMap fun s => stepK piece s (leaperAttacks tbl s &&& ~~~activeOcc)

def promoK (s t : Nat) : List Key :=
  [⟨PAWN, false, ⟨s, t, some .queen⟩⟩, ⟨PAWN, false, ⟨s, t, some .rook⟩⟩,
   ⟨PAWN, false, ⟨s, t, some .bishop⟩⟩, ⟨PAWN, false, ⟨s, t, some .knight⟩⟩]

/-- a target on rank 8 (squares 0..7) or rank 1 (squares 56..63) -/
def lastRank (t : Nat) : Bool := decide (t < 8) || decide (56 ≤ t)

def pawnAttackK (s t : Nat) : List Key := if lastRank t then promoK s t else [quiet PAWN s t]

def pawnAttacksK (b : Board) (pawnOcc activeOcc passiveOcc : UInt64) : List Key :=
  (bitsAsc pawnOcc).flatMap fun s => (bitsAsc (pawnAttSet b activeOcc passiveOcc s)).flatMap (pawnAttackK s)

/-- pushes of the pawn on `s` (`8 ≤ s < 56`) -/
def pawnStepK (white : Bool) (fullOcc : UInt64) (s : Nat) : List Key :=
  let t1 := if white then s - 8 else s + 8
  let t2 := if white then s - 16 else s + 16
  if testU fullOcc t1 then []
  else if lastRank t1 then promoK s t1
  else quiet PAWN s t1 ::
    (if (if white then decide (48 ≤ s) else decide (s < 16)) && !testU fullOcc t2 then [quiet PAWN s t2] else [])

def pawnMovesK (white : Bool) (pawnOcc fullOcc : UInt64) : List Key :=
  (bitsAsc pawnOcc).flatMap (pawnStepK white fullOcc)

def castleKey (s t : Nat) : Key := ⟨KING, true, ⟨s, t, none⟩⟩

def castleK (b : Board) (fullOcc : UInt64) : List Key :=
  if b.whiteTurn then
    (if castleCond b.white.qs fullOcc whiteQueenSideCastleEmpty whiteQueenSideCastleCheck 0 b.black
      then [castleKey E1 C1] else []) ++
    (if castleCond b.white.ks fullOcc whiteKingSideCastleEmpty whiteKingSideCastleCheck 0 b.black
      then [castleKey E1 G1] else [])
  else
    (if castleCond b.black.qs fullOcc blackQueenSideCastleEmpty blackQueenSideCastleCheck 1 b.white
      then [castleKey E8 C8] else []) ++
    (if castleCond b.black.ks fullOcc blackKingSideCastleEmpty blackKingSideCastleCheck 1 b.white
      then [castleKey E8 G8] else [])

def genK (b : Board) : List Key :=
  slidingK b.active.queens b.active.full (b.active.full ||| b.passive.full) true QUEEN
  ++ slidingK b.active.queens b.active.full (b.active.full ||| b.passive.full) false QUEEN
  ++ slidingK b.active.bishops b.active.full (b.active.full ||| b.passive.full) false BISHOP
  ++ slidingK b.active.rooks b.active.full (b.active.full ||| b.passive.full) true ROOK
  ++ singleK b.active.knights b.active.full knightTable KNIGHT
  ++ singleK b.active.kings b.active.full kingTable KING
  ++ pawnAttacksK b b.active.pawns b.active.full b.passive.full
  ++ pawnMovesK b.whiteTurn b.active.pawns (b.active.full ||| b.passive.full)
  ++ castleK b (b.active.full ||| b.passive.full)

/-! ## the generated lists map to the key lists -/

section
variable {b : Board} (hb : Basic b)
include hb

theorem fit_quiet {src tgt piece : Nat} (hs : src < 64) (ht : tgt < 64) (hp : piece < 8) :
    ArgsFit b src tgt piece NO_PIECE 0 := ⟨hb, hs, ht, hp, by decide, by decide⟩

theorem map_key_attacksL (src : Nat) (hs : src < 64) (att : UInt64) (piece : Nat) (hp : piece < 8) :
    (attacksL b false src att piece).map key = stepK piece src att := by
  unfold attacksL stepK
  rw [List.map_flatMap, ← List.flatMap_singleton' (l := List.map _ _), List.flatMap_map]
  apply flatMap_congr'
  intro t ht
  rw [map_key_mkL false false (fit_quiet hb hs (Bits.testU_lt ((Bits.mem_bitsAsc _ _).mp ht)) hp)]
  rfl

theorem map_key_slidingL (pieceOcc activeOcc fullOcc : UInt64) (rook : Bool) (piece : Nat) (hp : piece < 8) :
    (slidingL b false pieceOcc activeOcc fullOcc rook piece).map key =
      slidingK pieceOcc activeOcc fullOcc rook piece := by
  unfold slidingL slidingK
  rw [List.map_flatMap]
  apply flatMap_congr'
  intro s hs
  exact map_key_attacksL hb s (Bits.testU_lt ((Bits.mem_bitsAsc _ _).mp hs)) _ piece hp

theorem map_key_singleL (pieceOcc activeOcc : UInt64) (tbl : List Nat) (piece : Nat) (hp : piece < 8) :
    (singleL b false pieceOcc activeOcc tbl piece).map key = singleK pieceOcc activeOcc tbl piece := by
  unfold singleL singleK
  rw [List.map_flatMap]
  apply flatMap_congr'
  intro s hs
  exact map_key_attacksL hb s (Bits.testU_lt ((Bits.mem_bitsAsc _ _).mp hs)) _ piece hp

theorem map_key_promotionsL (src tgt : Nat) (hs : src < 64) (ht : tgt < 64) :
    (promotionsL b src tgt).map key = promoK src tgt := by
  have fit : ∀ p, p < 8 → ArgsFit b src tgt PAWN p 0 := fun p hp => ⟨hb, hs, ht, by decide, hp, by decide⟩
  unfold promotionsL promoK
  simp only [List.flatMap_cons, List.flatMap_nil, List.append_nil, List.map_append,
    map_key_mkL false false (fit QUEEN (by decide)), map_key_mkL false false (fit ROOK (by decide)),
    map_key_mkL false false (fit BISHOP (by decide)), map_key_mkL false false (fit KNIGHT (by decide))]
  rfl

end

theorem lastRank_iff : ∀ t, t < 64 →
    (bitU t &&& rank8.toUInt64 != 0 || bitU t &&& rank1.toUInt64 != 0) = lastRank t := by decide

theorem map_key_pawnAttackL {b : Board} (hb : Basic b) (src tgt : Nat) (hs : src < 64) (ht : tgt < 64) :
    (pawnAttackL b src tgt).map key = pawnAttackK src tgt := by
  unfold pawnAttackL pawnAttackK
  rw [lastRank_iff tgt ht]
  split
  · exact map_key_promotionsL hb src tgt hs ht
  · rw [map_key_mkL false _ (fit_quiet hb hs ht (by decide))]
    rfl

theorem map_key_pawnAttacksL {b : Board} (hb : Basic b) (pawnOcc activeOcc passiveOcc : UInt64) :
    (pawnAttacksL b pawnOcc activeOcc passiveOcc).map key = pawnAttacksK b pawnOcc activeOcc passiveOcc := by
  unfold pawnAttacksL pawnAttacksK
  rw [List.map_flatMap]
  apply flatMap_congr'
  intro s hs
  rw [List.map_flatMap]
  apply flatMap_congr'
  intro t ht
  exact map_key_pawnAttackL hb s t (Bits.testU_lt ((Bits.mem_bitsAsc _ _).mp hs))
    (Bits.testU_lt ((Bits.mem_bitsAsc _ _).mp ht))

/-! ### pawn pushes: masks to square arithmetic -/

theorem and_comm_eq_zero (x : UInt64) (t : Nat) (ht : t < 64) : (bitU t &&& x == 0) = !testU x t := by
  rw [UInt64.and_comm, ← Bits.and_bitU_ne_zero x t ht]
  cases h : (x &&& bitU t == 0) <;> simp [bne, h]

theorem r8_iff : ∀ t, t < 64 → (bitU t &&& rank8.toUInt64 == 0) = !decide (t < 8) := by decide
theorem r1_iff : ∀ t, t < 64 → (bitU t &&& rank1.toUInt64 == 0) = !decide (56 ≤ t) := by decide
theorem r2_iff : ∀ t, t < 56 → (bitU t &&& rank2.toUInt64 != 0) = decide (48 ≤ t) := by decide
theorem r7_iff : ∀ t, t < 64 → 8 ≤ t → (bitU t &&& rank7.toUInt64 != 0) = decide (t < 16) := by decide

/-- the list of pushes of one pawn (mask arithmetic) in square arithmetic; needs the pawn off ranks 1 and 8 -/
theorem pawnStepL_white {b : Board} (hw : b.whiteTurn = true) (nq : Bool) (full : UInt64) (s : Nat)
    (h8 : 8 ≤ s) (h56 : s < 56) :
    pawnStepL b nq full s =
      if testU full (s - 8) then []
      else if lastRank (s - 8) then promotionsL b s (s - 8)
      else mkL b nq s (s - 8) PAWN false false NO_PIECE 0 ++
        (if decide (48 ≤ s) && !testU full (s - 16) then mkL b nq s (s - 16) PAWN false false NO_PIECE (s - 8)
         else []) := by
  unfold pawnStepL
  simp only [hw, if_true]
  rw [shr8 s (by omega) h8, tz_bitU (s - 8) (by omega), and_comm_eq_zero full (s - 8) (by omega),
    r8_iff (s - 8) (by omega), r2_iff s h56]
  have hl : lastRank (s - 8) = decide (s - 8 < 8) := by
    unfold lastRank
    have : decide (56 ≤ s - 8) = false := by simp; omega
    rw [this, Bool.or_false]
  rw [hl]
  cases h1 : testU full (s - 8)
  · cases h2 : decide (s - 8 < 8)
    · simp only [Bool.not_false, if_true, Bool.false_eq_true, if_false]
      cases h3 : decide (48 ≤ s)
      · simp
      · have h48 : 48 ≤ s := by simpa using h3
        rw [shr8 (s - 8) (by omega) (by omega), tz_bitU (s - 8 - 8) (by omega),
          and_comm_eq_zero full (s - 8 - 8) (by omega)]
        have : s - 8 - 8 = s - 16 := by omega
        rw [this]
    · simp
  · simp

theorem pawnStepL_black {b : Board} (hw : b.whiteTurn = false) (nq : Bool) (full : UInt64) (s : Nat)
    (h8 : 8 ≤ s) (h56 : s < 56) :
    pawnStepL b nq full s =
      if testU full (s + 8) then []
      else if lastRank (s + 8) then promotionsL b s (s + 8)
      else mkL b nq s (s + 8) PAWN false false NO_PIECE 0 ++
        (if decide (s < 16) && !testU full (s + 16) then mkL b nq s (s + 16) PAWN false false NO_PIECE (s + 8)
         else []) := by
  unfold pawnStepL
  simp only [hw, Bool.false_eq_true, if_false]
  rw [shl8 s h56, tz_bitU (s + 8) (by omega), and_comm_eq_zero full (s + 8) (by omega),
    r1_iff (s + 8) (by omega), r7_iff s (by omega) h8]
  have hl : lastRank (s + 8) = decide (56 ≤ s + 8) := by
    unfold lastRank
    have : decide (s + 8 < 8) = false := by simp
    rw [this, Bool.false_or]
  rw [hl]
  cases h1 : testU full (s + 8)
  · cases h2 : decide (56 ≤ s + 8)
    · simp only [Bool.not_false, if_true, Bool.false_eq_true, if_false]
      cases h3 : decide (s < 16)
      · simp
      · have h16 : s < 16 := by simpa using h3
        rw [shl8 (s + 8) (by omega), tz_bitU (s + 8 + 8) (by omega),
          and_comm_eq_zero full (s + 8 + 8) (by omega)]
    · simp
  · simp

/-- both colours at once -/
theorem pawnStepL_eq (b : Board) (nq : Bool) (full : UInt64) (s : Nat) (h8 : 8 ≤ s) (h56 : s < 56) :
    pawnStepL b nq full s =
      (let t1 := if b.whiteTurn then s - 8 else s + 8
       let t2 := if b.whiteTurn then s - 16 else s + 16
       if testU full t1 then []
       else if lastRank t1 then promotionsL b s t1
       else mkL b nq s t1 PAWN false false NO_PIECE 0 ++
         (if (if b.whiteTurn then decide (48 ≤ s) else decide (s < 16)) && !testU full t2
          then mkL b nq s t2 PAWN false false NO_PIECE t1 else [])) := by
  cases hw : b.whiteTurn
  · rw [pawnStepL_black hw nq full s h8 h56]; simp
  · rw [pawnStepL_white hw nq full s h8 h56]; simp

theorem pawn_mid' {b : Board} (hw : WFacts b) {s : Nat} (hs : s ∈ bitsAsc b.active.pawns) : 8 ≤ s ∧ s < 56 := by
  have h := (Bits.mem_bitsAsc _ _).mp hs
  exact pawn_mid hw (Bits.testU_lt h) ((testU_iff_has (Bits.testU_lt h)).1 h)

theorem map_key_pawnStepL {b : Board} (hb : Basic b) (full : UInt64) (s : Nat) (h8 : 8 ≤ s) (h56 : s < 56) :
    (pawnStepL b false full s).map key = pawnStepK b.whiteTurn full s := by
  unfold pawnStepK
  cases hw : b.whiteTurn
  · rw [pawnStepL_black hw false full s h8 h56]
    simp only [Bool.false_eq_true, if_false]
    split
    · rfl
    · split
      · exact map_key_promotionsL hb s (s + 8) (by omega) (by omega)
      · rw [List.map_append, map_key_mkL false false (fit_quiet hb (by omega) (by omega) (by decide))]
        split
        · next hc =>
          have h16 : s < 16 := by simp only [Bool.and_eq_true, decide_eq_true_eq] at hc; exact hc.1
          rw [map_key_mkL false false ⟨hb, by omega, by omega, by decide, by decide, by omega⟩]
          rfl
        · rfl
  · rw [pawnStepL_white hw false full s h8 h56]
    simp only [if_true]
    split
    · rfl
    · split
      · exact map_key_promotionsL hb s (s - 8) (by omega) (by omega)
      · rw [List.map_append, map_key_mkL false false (fit_quiet hb (by omega) (by omega) (by decide))]
        split
        · rw [map_key_mkL false false ⟨hb, by omega, by omega, by decide, by decide, by omega⟩]
          rfl
        · rfl

theorem map_key_pawnMovesL {b : Board} (hw : WFacts b) (full : UInt64) :
    (pawnMovesL b false b.active.pawns full).map key = pawnMovesK b.whiteTurn b.active.pawns full := by
  unfold pawnMovesL pawnMovesK
  rw [List.map_flatMap]
  apply flatMap_congr'
  intro s hs
  have := pawn_mid' hw hs
  exact map_key_pawnStepL hw.basic full s this.1 this.2

theorem map_key_castleL {b : Board} (hb : Basic b) (full : UInt64) : (castleL b full).map key = castleK b full := by
  have fit : ∀ s t, s < 64 → t < 64 → ArgsFit b s t KING NO_PIECE 0 :=
    fun s t hs ht => ⟨hb, hs, ht, by decide, by decide, by decide⟩
  have h1 := map_key_mkL true false (fit E1 C1 (by decide) (by decide))
  have h2 := map_key_mkL true false (fit E1 G1 (by decide) (by decide))
  have h3 := map_key_mkL true false (fit E8 C8 (by decide) (by decide))
  have h4 := map_key_mkL true false (fit E8 G8 (by decide) (by decide))
  unfold castleL castleK
  split
  · rw [List.map_append]
    congr 1
    · split
      · exact h1
      · rfl
    · split
      · exact h2
      · rfl
  · rw [List.map_append]
    congr 1
    · split
      · exact h3
      · rfl
    · split
      · exact h4
      · rfl

/-- **the generated pseudo-legal moves, as keys, in generation order** -/
theorem map_key_genPseudo {b : Board} (hw : WFacts b) : (genPseudo b).map key = genK b := by
  have hb := hw.basic
  rw [genPseudo_eq]
  unfold genK
  simp only [List.map_append, map_key_slidingL hb _ _ _ _ _ (by decide : QUEEN < 8),
    map_key_slidingL hb _ _ _ _ _ (by decide : BISHOP < 8), map_key_slidingL hb _ _ _ _ _ (by decide : ROOK < 8),
    map_key_singleL hb _ _ _ _ (by decide : KNIGHT < 8), map_key_singleL hb _ _ _ _ (by decide : KING < 8),
    map_key_pawnAttacksL hb, map_key_pawnMovesL hw, map_key_castleL hb]

end Inkayaku.GenSpec
