import Inkayaku.Proofs.SearchRepDeepInv
/-!
# C10 below the root, step 2: a node and its move loop, simulated by the path-dependent minimax `mm repGame`

The analogue of `Proofs/SearchSim{Loop,Node}.lean` with a game history:

* `rLoop_sim`  – if the calls one ply deeper satisfy the node contract `RNSim`, the move loop of a node `(k, Lb, p)` satisfies
                 `RLoopPost`: fail-soft contract w.r.t. the fold of the children's values `mm repGame (D−k−1) (rnode (Lb ++ [p]) (make p m) (k+1))`
                 over the legal moves, the recorded best move attains the value inside the window, the state invariant `RSOK` for the
                 line `Lb ++ [p]` is kept;
* `rnegamax_sim` – under `RHyp b0 T D` (any `D`!), every node `(k, Lb, p)`, `k ≤ D`, of iteration `D`, entered with a state whose
                 history holds the line `Lb` and whose table satisfies `RTTOK`: the repetition return is taken exactly when the
                 specification node is a repetition node (`rep_iff`); otherwise table probe (sound by `rttok_entry` + `RHashInj`),
                 horizon (`horizon_value`) or move loop + store (`rttok_insert`).  Result: fail-soft contract w.r.t.
                 `mm repGame (D − k) (rnode Lb p k)`, board restored, `RSOK` for `Lb` kept.
-/
namespace Inkayaku.SearchRepDeep
open Inkayaku.Board Inkayaku.Eval Inkayaku.WF Inkayaku.BoardCongr Inkayaku.Minimax Inkayaku.SpecSearch Inkayaku.Search
open Inkayaku.SearchSim Inkayaku.History Inkayaku.SearchRep
open Inkayaku.C06 (HashKey)
open Inkayaku.RepSpec (RPos Key key repGame isRepetition)

/-- the recorded best move is a legal move of `p` whose node has the exact value `-v` at depth `n` -/
def RChosen (Lb : List Board) (p : Board) (k n : Nat) (bm : Option Move) (v : Int) : Prop :=
  ∃ m, bm = some m ∧ m ∈ genLegal p ∧ - mm repGame n (rnode (Lb ++ [p]) (make p m) (k + 1)) = v

/-- the contract of a node `(k, Lb, p)` of an iteration of depth `D` -/
def RNodePost (b0 : Board) (T : List Board) (D : Nat) (s : St) (k : Nat) (Lb : List Board) (p : Board) (α β : Int)
    (hash : UInt64) (r : VM × St) : Prop :=
  Ok (mm repGame (D - k) (rnode Lb p k)) r.1.value α β ∧ vis r.2.board = vis s.board ∧ RSOK b0 T D Lb r.2 ∧
  (k = 0 → TTRootFresh s hash (D - k) → k < D → α < r.1.value → r.1.value < β →
    RChosen Lb p k (D - k - 1) r.1.mv r.1.value)

def RNSim (b0 : Board) (T : List Board) (D fuel : Nat) : Prop :=
  ∀ (s : St) (k : Nat) (Lb : List Board) (p : Board) (α β : Int) (isPv : Bool) (hash ph : UInt64),
    k ≤ D → RNode b0 T k Lb p → vis s.board = vis p → Inv fuel s.board → 66 + (D - k) ≤ fuel → RSOK b0 T D Lb s →
    hash = Zobrist.hash s.board → (k = 0 → genLegal s.board ≠ []) → lossScore ≤ α → α < β → β ≤ -lossScore →
    NoIntr s (negamax fuel s k D α β isPv hash ph).2.negamaxNodes →
    RNodePost b0 T D s k Lb p α β hash (negamax fuel s k D α β isPv hash ph)

/-- the contract of the move loop of the node `(k, Lb, p)` -/
def RLoopPost (b0 : Board) (T : List Board) (D : Nat) (Lb : List Board) (p : Board) (k : Nat) (α₀ β M : Int) (legal0 : Bool)
    (moves : List Move) (R : LoopAcc × Bool × St) : Prop :=
  R.2.1 = false ∧
  Ok (mmFold (mm repGame (D - k - 1)) M
    ((moves.filter (isMoveLegal p)).map fun m => rnode (Lb ++ [p]) (make p m) (k + 1))) R.1.bestValue α₀ β ∧
  R.1.legalSeen = (legal0 || !(moves.filter (isMoveLegal p)).isEmpty) ∧
  (α₀ < R.1.bestValue → R.1.bestValue < β → RChosen Lb p k (D - k - 1) R.1.bestMove R.1.bestValue) ∧
  vis R.2.2.board = vis p ∧ RSOK b0 T D (Lb ++ [p]) R.2.2

theorem rLoop_sim {b0 : Board} {T : List Board} {D fuel : Nat} (hn : RNSim b0 T D fuel)
    (p : Board) (k : Nat) (Lb : List Board) (hk : k < D) (hnode : RNode b0 T k Lb p) (hinv : Inv (fuel + 1) p)
    (hfuel : 66 + (D - (k + 1)) ≤ fuel) (hash ph : UInt64) (hhash : hash = Zobrist.hash p)
    (β α₀ : Int) (hβ : β ≤ -lossScore) (hL : lossScore ≤ α₀) (isPv : Bool) (pvMove : Option Move) (rem : Nat) :
    ∀ (moves : List Move), (∀ m ∈ moves, m ∈ genPseudo p) → ∀ (s : St) (acc : LoopAcc) (M : Int),
      vis s.board = vis p → RSOK b0 T D (Lb ++ [p]) s → acc.alpha < β → acc.alpha = max α₀ acc.bestValue →
      (acc.bestValue ≤ α₀ → M ≤ acc.bestValue) → (α₀ < acc.bestValue → acc.bestValue = M) →
      (α₀ < acc.bestValue → RChosen Lb p k (D - k - 1) acc.bestMove acc.bestValue) →
      NoIntr s (negamaxLoop fuel s moves k D β isPv pvMove hash ph rem acc).2.2.negamaxNodes →
      RLoopPost b0 T D Lb p k α₀ β M acc.legalSeen moves (negamaxLoop fuel s moves k D β isPv pvMove hash ph rem acc) := by
  have hwf := hinv.wf
  intro moves
  induction moves with
  | nil =>
    intro _ s acc M hs hsok hαβ hα h1 h2 h3 _
    rw [negamaxLoop_nil]
    refine ⟨rfl, ?_, ?_, ?_, hs, hsok⟩
    · simp only [List.filter_nil, List.map_nil, mmFold_nil]
      exact ⟨h1, fun h => by omega, fun h _ => h2 h⟩
    · simp
    · exact fun h _ => h3 h
  | cons m rest ih =>
    intro hmem s acc M hs hsok hαβ hα h1 h2 h3 hN
    have hm : m ∈ genPseudo p := hmem m List.mem_cons_self
    have hrest : ∀ x ∈ rest, x ∈ genPseudo p := fun x hx => hmem x (List.mem_cons_of_mem _ hx)
    have hgen : Generated p m := Or.inl hm
    have hmk : vis (make s.board m) = vis (make p m) := make_congr hs m
    have hval : isValid (make s.board m) = isMoveLegal p m := isValid_congr hmk
    rw [negamaxLoop_cons, hval] at hN ⊢
    by_cases hl : isMoveLegal p m = true
    · -- a legal move
      rw [hl] at hN ⊢
      simp only [Bool.not_true, Bool.false_eq_true, if_false] at hN ⊢
      have hfilter : (m :: rest).filter (isMoveLegal p) = m :: rest.filter (isMoveLegal p) :=
        List.filter_cons_of_pos hl
      have hlegal : m ∈ genLegal p := List.mem_filter.mpr ⟨hm, hl⟩
      -- the child call
      have hkept := negamax_rel (kept_stepRel D) fuel { s with board := make s.board m } (k + 1) (-β) (-acc.alpha)
        (childPvOf isPv pvMove m) (hash ^^^ (Zobrist.xorOf m.f).1) (ph ^^^ (Zobrist.xorOf m.f).2)
      have hcalmrel := negamax_rel (calm_stepRel D) fuel { s with board := make s.board m } (k + 1) (-β) (-acc.alpha)
        (childPvOf isPv pvMove m) (hash ^^^ (Zobrist.xorOf m.f).1) (ph ^^^ (Zobrist.xorOf m.f).2)
      have hchild := hn { s with board := make s.board m } (k + 1) (Lb ++ [p]) (make p m) (-β) (-acc.alpha)
        (childPvOf isPv pvMove m) (hash ^^^ (Zobrist.xorOf m.f).1) (ph ^^^ (Zobrist.xorOf m.f).2)
        (by omega) (hnode.child hlegal) hmk
        (child_inv boardLaws hinv hs hgen (by rw [hval]; exact hl)).1 hfuel (hsok.setBoard _)
        (by rw [hhash]; exact (hash_child hwf hs hm).symm) (by omega) (by omega) (by omega) (by omega)
      generalize negamax fuel { s with board := make s.board m } (k + 1) D (-β) (-acc.alpha)
        (childPvOf isPv pvMove m) (hash ^^^ (Zobrist.xorOf m.f).1) (ph ^^^ (Zobrist.xorOf m.f).2) = r at hN hkept hcalmrel hchild ⊢
      have hpp : r.2.pollPeriod = s.pollPeriod := hkept.2.2.2.1
      have hcalm : Calm s → Calm r.2 := hcalmrel
      -- the child is not interrupted either
      have hrN : NoIntr { s with board := make s.board m } r.2.negamaxNodes := by
        rcases hN with hN | hN
        · left
          show r.2.negamaxNodes < s.pollPeriod
          by_cases hst : r.2.stop = true
          · rw [if_pos hst] at hN; exact hN
          · rw [if_neg hst] at hN
            by_cases hcut : (accUpdate acc m r.1).alpha ≥ β
            · rw [if_pos hcut] at hN; exact hN
            · rw [if_neg hcut] at hN
              have hfr := nLoop_rel (frame_stepRel D) (negamax_rel (frame_stepRel D) fuel) rest
                { r.2 with board := unmake r.2.board m } k β isPv pvMove hash ph rem (accUpdate acc m r.1)
              exact Nat.lt_of_le_of_lt hfr.nn hN
        · right; exact hN
      obtain ⟨⟨c1, c2, c3⟩, hvis, hsok', _⟩ := hchild hrN
      have hst : r.2.stop = false := hsok'.stop
      have hst' : ¬ r.2.stop = true := by rw [hst]; exact Bool.false_ne_true
      rw [if_neg hst'] at hN ⊢
      rw [show D - (k + 1) = D - k - 1 from by omega] at c1 c2 c3
      have hb3 : vis (unmake r.2.board m) = vis p := back hwf hgen (hvis.trans hmk)
      have hsok3 : RSOK b0 T D (Lb ++ [p]) { r.2 with board := unmake r.2.board m } := hsok'.setBoard _
      unfold RLoopPost
      rw [hfilter]
      simp only [List.map_cons, mmFold_cons, List.isEmpty_cons, Bool.not_false, Bool.or_true]
      generalize hrv : r.1.value = rv at c1 c2 c3
      generalize hecv : mm repGame (D - k - 1) (rnode (Lb ++ [p]) (make p m) (k + 1)) = ec at c1 c2 c3
      by_cases hv : -rv > acc.bestValue
      · rw [accUpdate_gt acc m r.1 (by rw [hrv]; exact hv)] at hN ⊢
        simp only [hrv] at hN ⊢
        by_cases hcut : max acc.alpha (-rv) ≥ β
        · rw [if_pos hcut]
          clear hN
          dsimp only
          have hmono := le_mmFold (mm repGame (D - k - 1)) (max M (-ec))
            ((rest.filter (isMoveLegal p)).map fun m => rnode (Lb ++ [p]) (make p m) (k + 1))
          generalize mmFold (mm repGame (D - k - 1)) (max M (-ec))
            ((rest.filter (isMoveLegal p)).map fun m => rnode (Lb ++ [p]) (make p m) (k + 1)) = Mall at hmono
          refine ⟨rfl, ⟨fun h => by omega, fun h => by omega, fun h => by omega⟩, rfl, fun h h' => by omega, hb3,
            ⟨hsok'.tt, hsok'.hist, hsok'.stop, hsok'.sm⟩⟩
        · rw [if_neg hcut] at hN ⊢
          have := ih hrest { r.2 with board := unmake r.2.board m }
            { alpha := max acc.alpha (-rv), bestValue := -rv, bestMove := some m, bestChild := some r.1, legalSeen := true }
            (max M (-ec)) hb3 hsok3 (by simp only; omega) (by simp only; omega) (by simp only; omega)
            (by simp only; omega)
            (fun h => ⟨m, rfl, hlegal, by rw [hecv]; simp only at h ⊢; omega⟩)
            (by
              rcases hN with hN | hN
              · left; rw [show ({ r.2 with board := unmake r.2.board m } : St).pollPeriod = r.2.pollPeriod from rfl, hpp]; exact hN
              · right; exact hcalm hN)
          obtain ⟨p1, p2, p3, p4, p5, p6⟩ := this
          exact ⟨p1, p2, by rw [p3]; rfl, p4, p5, p6⟩
      · rw [accUpdate_le acc m r.1 (by rw [hrv]; exact hv)] at hN ⊢
        by_cases hcut : max acc.alpha acc.bestValue ≥ β
        · omega
        · simp only at hN ⊢
          rw [if_neg hcut] at hN ⊢
          have := ih hrest { r.2 with board := unmake r.2.board m }
            { acc with legalSeen := true, alpha := max acc.alpha acc.bestValue }
            (max M (-ec)) hb3 hsok3 (by simp only; omega) (by simp only; omega) (by simp only; omega)
            (by simp only; omega) h3
            (by
              rcases hN with hN | hN
              · left; rw [show ({ r.2 with board := unmake r.2.board m } : St).pollPeriod = r.2.pollPeriod from rfl, hpp]; exact hN
              · right; exact hcalm hN)
          obtain ⟨p1, p2, p3, p4, p5, p6⟩ := this
          exact ⟨p1, p2, by rw [p3]; rfl, p4, p5, p6⟩
    · -- an illegal move is skipped
      have hl' : isMoveLegal p m = false := by simpa using hl
      rw [hl'] at hN ⊢
      simp only [Bool.not_false, if_true] at hN ⊢
      have hfilter : (m :: rest).filter (isMoveLegal p) = rest.filter (isMoveLegal p) :=
        List.filter_cons_of_neg (by simp [hl'])
      unfold RLoopPost
      rw [hfilter]
      exact ih hrest _ acc M (back hwf hgen hmk) (hsok.setBoard _) hαβ hα h1 h2 h3 hN

/-! ## the node -/

theorem rsok_enter {b0 : Board} {T : List Board} {D : Nat} {Lb : List Board} {s : St} (h : RSOK b0 T D Lb s) (hash : UInt64)
    (hent : EnterShape s hash) (hpc : plyClock s.board = plyClock b0 + Lb.length) : RSOK b0 T D Lb (enter s hash) := by
  obtain ⟨o, he⟩ := hent
  rw [he]
  refine ⟨h.tt, ?_, h.stop, h.sm⟩
  show LineHist _ _ (historySet s.history (plyClock s.board) hash.toNat)
  exact h.hist.set _ _ (by omega)

theorem rsok_enter_snoc {b0 : Board} {T : List Board} {D : Nat} {Lb : List Board} {s : St} (h : RSOK b0 T D Lb s) (p : Board)
    (hent : EnterShape s (Zobrist.hash p)) (hpc : plyClock s.board = plyClock b0 + Lb.length) :
    RSOK b0 T D (Lb ++ [p]) (enter s (Zobrist.hash p)) := by
  obtain ⟨o, he⟩ := hent
  rw [he]
  refine ⟨h.tt, ?_, h.stop, h.sm⟩
  show LineHist _ _ (historySet s.history (plyClock s.board) (Zobrist.hash p).toNat)
  rw [hpc]
  exact h.hist.snoc p

theorem rnegamax_sim {b0 : Board} {T : List Board} {D : Nat} (H : RHyp b0 T D) : ∀ fuel, RNSim b0 T D fuel := by
  intro fuel
  induction fuel with
  | zero => intro s k Lb p α β isPv hash ph _ _ _ _ hf; omega
  | succ fuel ih =>
    intro s k Lb p α β isPv hash ph hk hnode hb hinv hfuel hsok hhash hroot hL hαβ hU hN
    have hframe := negamax_rel (frame_stepRel D) (fuel + 1) s k α β isPv hash ph
    obtain ⟨hto, hent⟩ := enter_of_noIntr hN hframe.nn hash
    have hpc : plyClock s.board = plyClock b0 + Lb.length := plyClock_node H hk hnode hb
    have hhp : hash = Zobrist.hash p := by rw [hhash, hash_congr hb]
    have hb3 : (enter s hash).board = s.board := enter_board s hash
    have htt3 : (enter s hash).tt = s.tt := by obtain ⟨o, he⟩ := hent; rw [he]
    have hpp3 : (enter s hash).pollPeriod = s.pollPeriod := by obtain ⟨o, he⟩ := hent; rw [he]
    have hcalm3 : Calm s → Calm (enter s hash) := by obtain ⟨o, he⟩ := hent; rw [he]; exact fun h => h
    have hsok3 : RSOK b0 T D Lb (enter s hash) := rsok_enter hsok hash hent hpc
    have hvisR := negamax_ok boardLaws (fuel + 1) s k D α β isPv hash ph hinv
    -- the repetition test is the rule of the specification
    have hrepEq : isRep (enter s hash) k = isRepetition (rnode Lb p k) := by
      by_cases h0 : k = 0
      · subst h0
        rw [isRep_zero, RepSpec.isRepetition_root _ rfl]
      · rw [hhash]
        exact rep_iff H (by omega) hk hnode hb hsok.hist
    unfold RNodePost
    suffices hmain : Ok (mm repGame (D - k) (rnode Lb p k)) (negamax (fuel + 1) s k D α β isPv hash ph).1.value α β ∧
        RSOK b0 T D Lb (negamax (fuel + 1) s k D α β isPv hash ph).2 ∧
        (k = 0 → TTRootFresh s hash (D - k) → k < D → α < (negamax (fuel + 1) s k D α β isPv hash ph).1.value →
          (negamax (fuel + 1) s k D α β isPv hash ph).1.value < β →
          RChosen Lb p k (D - k - 1) (negamax (fuel + 1) s k D α β isPv hash ph).1.mv
            (negamax (fuel + 1) s k D α β isPv hash ph).1.value) from ⟨hmain.1, hvisR, hmain.2⟩
    clear hvisR
    cases hrsp : isRepetition (rnode Lb p k) with
    | true =>
      -- the repetition return
      have hk0 : k ≠ 0 := by
        intro h0
        subst h0
        rw [RepSpec.isRepetition_root _ rfl] at hrsp
        cases hrsp
      rw [hrsp] at hrepEq
      rw [negamax_succ, hto]
      simp only [Bool.false_eq_true, if_false, hrepEq, if_true]
      refine ⟨?_, hsok3, fun h0 => absurd h0 hk0⟩
      rw [RepSpec.mm_repetition _ _ hrsp]
      exact Ok.refl _ _ _
    | false =>
    rw [hrsp] at hrepEq
    rw [negamax_succ_noPoll fuel s k D α β isPv hash ph hto hrepEq] at hN ⊢
    -- the probe
    have hpo := probe_ok (mm repGame (D - k) (rnode Lb p k)) ((enter s hash).tt.get? hash) (D - k) α β hαβ (by
      intro e he hd
      rw [htt3, hhp] at he
      obtain ⟨_, h2, h3, h4⟩ := rttok_entry hsok.tt H.inj hk hnode he
      have : e.depth = D - k := by omega
      rw [this] at h4
      exact ⟨h3, h4⟩)
    generalize hs3 : enter s hash = s3 at hN hpo hb3 htt3 hpp3 hcalm3 hsok3 ⊢
    generalize hp : Search.probe (s3.tt.get? hash) (D - k) α β = pr at hN hpo ⊢
    obtain ⟨o, α', β'⟩ := pr
    cases o with
    | some r =>
      simp only at hpo ⊢
      refine ⟨hpo, hsok3, ?_⟩
      intro _ hfresh
      have := probe_fresh' α β hfresh
      rw [← htt3, hp] at this
      cases this
    | none =>
      simp only at hpo hN ⊢
      obtain ⟨w1, w2, w3, w4, w5⟩ := hpo
      have hbuf : rootBuffer s3 k = genPseudo s.board := by rw [rootBuffer_nil_sm hsok3.sm, hb3]
      unfold SearchSim.nodeBody at hN ⊢
      rw [hbuf] at hN ⊢
      have hnotEmpty : (k == 0 && (genPseudo s.board).isEmpty) = false := by
        by_cases h0 : k = 0
        · have hl := hroot h0
          have : (genPseudo s.board).isEmpty = false := by
            cases hg : genPseudo s.board with
            | nil => exfalso; apply hl; unfold genLegal; rw [hg]; rfl
            | cons _ _ => rfl
          rw [this, Bool.and_false]
        · have : (k == 0) = false := by simpa using h0
          rw [this, Bool.false_and]
      rw [hnotEmpty] at hN ⊢
      simp only [Bool.false_eq_true, if_false] at hN ⊢
      by_cases hkD : k = D
      · -- horizon
        have hbeq : (k == D) = true := by simpa using hkD
        rw [hbeq] at hN ⊢
        simp only [if_true] at hN ⊢
        subst hkD
        have hq : QDepth quiescenceFuel s3.board := by
          rw [hb3]; exact QDepth_congr _ hb.symm (H.qb k Lb p (Nat.le_refl _) hnode)
        obtain ⟨x1, b', qn, x2⟩ := horizon_value fuel s3 (by rw [hb3]; exact Inv_mono (Nat.le_succ _) hinv) (by omega) hq
          α' β' (by omega) w3 (by omega)
        rw [hb3] at x1 x2
        rw [Nat.sub_self] at w4 w5 ⊢
        have hval : mm repGame 0 (rnode Lb p k) = mm game 0 (s.board, []) := by
          rw [C10Rep.mm_zero_norep_eq _ hrsp]
          exact (mm_congr 0 _ _ [] hb).symm
        rw [hval]
        refine ⟨ok_widen _ _ α β α' β' w1 w2 (by rw [← hval]; exact w4) (by rw [← hval]; exact w5) x1, ?_,
          fun _ _ h => absurd h (Nat.lt_irrefl _)⟩
        rw [x2]
        exact ⟨hsok3.tt, hsok3.hist, hsok3.stop, hsok3.sm⟩
      · -- the move loop
        have hbeq : (k == D) = false := by simpa using hkD
        rw [hbeq] at hN ⊢
        simp only [Bool.false_eq_true, if_false] at hN ⊢
        have hkD' : k < D := by omega
        rw [finish_nodes] at hN
        have hgp : genPseudo s.board = genPseudo p := genPseudo_congr hb
        have hmem : ∀ m ∈ sortMoves (genPseudo s.board) (pvMoveOf s3 isPv k) (ttMoveOf (s3.tt.get? hash))
            (killerGet s3.killers (D - k)), m ∈ genPseudo p := fun m hm => by rw [← hgp]; exact mem_sortMoves.mp hm
        have hsokL : RSOK b0 T D (Lb ++ [p]) s3 := by
          rw [← hs3, hhp]
          exact rsok_enter_snoc hsok p (by rw [← hhp]; exact hent) hpc
        have hloop := rLoop_sim ih p k Lb hkD' hnode (Inv_congr hb hinv) (by omega) hash ph hhp β' α' (by omega) (by omega)
          isPv (pvMoveOf s3 isPv k) (D - k) _ hmem s3 (acc0 α') lossScore (by rw [hb3]; exact hb) hsokL
          (by unfold acc0; exact w3) (by unfold acc0; simp only; omega) (fun _ => Int.le_refl _)
          (by unfold acc0; simp only; intro; omega) (by unfold acc0; simp only; intro; omega)
          (by
            rcases hN with hN | hN
            · left; rw [hpp3]; exact hN
            · right; exact hcalm3 hN)
        unfold RLoopPost at hloop
        have hperm : ((sortMoves (genPseudo s.board) (pvMoveOf s3 isPv k) (ttMoveOf (s3.tt.get? hash))
            (killerGet s3.killers (D - k))).filter (isMoveLegal p)).Perm (genLegal p) := by
          rw [hgp]
          exact (List.mergeSort_perm _ _).filter _
        generalize negamaxLoop fuel s3 (sortMoves (genPseudo s.board) (pvMoveOf s3 isPv k) (ttMoveOf (s3.tt.get? hash))
          (killerGet s3.killers (D - k))) k D β' isPv (pvMoveOf s3 isPv k) hash ph (D - k) (acc0 α') = R at hloop ⊢
        generalize (sortMoves (genPseudo s.board) (pvMoveOf s3 isPv k) (ttMoveOf (s3.tt.get? hash))
          (killerGet s3.killers (D - k))).filter (isMoveLegal p) = legal at hloop hperm
        obtain ⟨acc, ab, sR⟩ := R
        obtain ⟨p1, p2, p3, p4, p5, p6⟩ := hloop
        simp only at p1 p2 p3 p4 p5 p6
        subst p1
        have hDk : D - k = (D - k - 1) + 1 := by omega
        have hrm : rootMoves p [] = genLegal p := moves_nil p
        have hmm : mm repGame (D - k) (rnode Lb p k) =
            if (genLegal p).isEmpty then evalFor p p.turn false
            else mmFold (mm repGame (D - k - 1)) lossScore
              ((genLegal p).map fun m => rnode (Lb ++ [p]) (make p m) (k + 1)) := by
          by_cases hne : genLegal p = []
          · rw [hne]
            simp only [List.isEmpty_nil, if_true]
            exact RepSpec.mm_norep_terminal _ _ hrsp (by show rootMoves p [] = []; rw [hrm, hne])
          · have hne' : (genLegal p).isEmpty = false := by
              cases hg : genLegal p with
              | nil => exact absurd hg hne
              | cons _ _ => rfl
            rw [hne', hDk, RepSpec.mm_succ_norep _ _ hrsp (by show rootMoves p [] ≠ []; rw [hrm]; exact hne)]
            simp only [Nat.add_sub_cancel, Bool.false_eq_true, if_false]
            show mmFold _ _ ((rootMoves p []).map _) = _
            rw [hrm]
            congr 1
            apply List.map_congr_left
            intro m _
            exact rnode_child Lb p k m
        have hempty : legal.isEmpty = (genLegal p).isEmpty := by
          rw [Bool.eq_iff_iff, List.isEmpty_iff, List.isEmpty_iff]
          exact ⟨fun h => by rw [h] at hperm; exact hperm.symm.eq_nil, fun h => by rw [h] at hperm; exact hperm.eq_nil⟩
        have hsokR : RSOK b0 T D Lb sR := ⟨p6.tt, LineHist.prefix p6.hist, p6.stop, p6.sm⟩
        unfold finish
        simp only [Bool.false_eq_true, if_false]
        rw [hempty] at p3
        by_cases hne : (genLegal p).isEmpty = true
        · -- no legal move: mate or stalemate
          have hls : acc.legalSeen = false := by rw [p3, hne]; rfl
          rw [hls]
          simp only [Bool.not_false, if_true]
          refine ⟨?_, hsokR, ?_⟩
          · rw [hmm, if_pos hne]
            show Ok _ (evalFor sR.board s.board.turn false) α β
            rw [evalFor_congr p5, turn_congr hb]
            exact Ok.refl _ _ _
          · intro h0 _ _
            exact absurd (by rw [genLegal_congr hb]; exact List.isEmpty_iff.mp hne) (hroot h0)
        · have hne' : (genLegal p).isEmpty = false := by simpa using hne
          have hls : acc.legalSeen = true := by rw [p3, hne']; rfl
          rw [hls]
          simp only [Bool.not_true, Bool.false_eq_true, if_false]
          rw [mmFold_perm _ _ (hperm.map fun m => rnode (Lb ++ [p]) (make p m) (k + 1))] at p2
          have hok' : Ok (mm repGame (D - k) (rnode Lb p k)) acc.bestValue α' β' := by
            rw [hmm, hne']; exact p2
          have hok := ok_widen _ _ α β α' β' w1 w2 w4 w5 hok'
          have hchosen : k = 0 → TTRootFresh s hash (D - k) → k < D → α < acc.bestValue →
              acc.bestValue < β → RChosen Lb p k (D - k - 1) acc.bestMove acc.bestValue := by
            intro _ hfresh _ h1 h2
            have := probe_fresh' α β hfresh
            rw [← htt3, hp] at this
            simp only [Prod.mk.injEq, true_and] at this
            obtain ⟨rfl, rfl⟩ := this
            exact p4 h1 h2
          by_cases hmate : isCheckmateValue acc.bestValue = true
          · rw [hmate]
            simp only [Bool.not_true, Bool.false_eq_true, if_false]
            exact ⟨hok, hsokR, hchosen⟩
          · have hmate' : isCheckmateValue acc.bestValue = false := by simpa using hmate
            rw [hmate']
            simp only [Bool.not_false, if_true]
            refine ⟨hok, ⟨?_, hsokR.hist, hsokR.stop, hsokR.sm⟩, hchosen⟩
            rw [hhp]
            apply rttok_insert p6.tt hkD' hnode _ (by show D - k + k ≤ D; omega)
            refine ⟨rfl, ?_⟩
            obtain ⟨a1, a2, a3⟩ := hok
            obtain ⟨b1, b2, b3⟩ := hok'
            show match (if acc.bestValue ≤ α then NodeType.upper else if acc.bestValue ≥ β' then NodeType.lower
              else NodeType.exact) with
              | .exact => acc.bestValue = mm repGame (D - k) (rnode Lb p k)
              | .lower => acc.bestValue ≤ mm repGame (D - k) (rnode Lb p k)
              | .upper => mm repGame (D - k) (rnode Lb p k) ≤ acc.bestValue
            by_cases x : acc.bestValue ≤ α
            · rw [if_pos x]; exact a1 x
            · rw [if_neg x]
              by_cases y : acc.bestValue ≥ β'
              · rw [if_pos y]; exact b2 y
              · rw [if_neg y]; exact a3 (by omega) (by omega)

end Inkayaku.SearchRepDeep
