import Inkayaku.Proofs.SearchSimInv
import Inkayaku.Proofs.GenSpecNoisy
/-!
# C08, simulation step 5: fuel adequacy of the capture search

`material b` = number of men other than the kings + number of pawns (a pawn counts twice).

* `material_capture_lt` – every move of the capture/promotion generator strictly decreases it (a capture removes a man, a
                          promotion turns a pawn into a piece, an en-passant capture removes a pawn);
* `material_make_le`    – no generated move increases it;
* `qdepth_of_material`  – hence `QDepth k b` for every `k ≥ material b` (with clock budget `k`): capture sequences are at
                          most `material b` long;
* `qbound_of_material`  – if the root has `material b0 ≤ 64` (every position of a game has ≤ 30 + 16 = 46) the hypothesis
                          `QBound b0 D` of the simulation holds: `quiescenceFuel = 64` of the specification and
                          `fuelFor d − d = 200` of the engine both exceed the longest capture sequence.
-/
namespace Inkayaku.SearchSim
open Inkayaku.Board Inkayaku.WF Inkayaku.BoardCongr Inkayaku.Minimax Inkayaku.SpecSearch Inkayaku.Search
open Inkayaku.GenFacts

/-! ## population count under single-bit changes -/

theorem popcount_eq_countP (x : UInt64) : popcount x = (List.range 64).countP (testU x) := by
  unfold popcount bitsAsc
  rw [List.countP_eq_length_filter]

/-- two predicates that agree off `t`, counted over `range n` -/
theorem countP_range_swap (f g : Nat → Bool) (t : Nat) (h : ∀ i, i ≠ t → f i = g i) : ∀ n,
    (List.range n).countP f + (decide (t < n) && g t).toNat =
      (List.range n).countP g + (decide (t < n) && f t).toNat := by
  intro n
  induction n with
  | zero => simp
  | succ n ih =>
    rw [List.range_succ, List.countP_append, List.countP_append]
    simp only [List.countP_cons, List.countP_nil, Nat.zero_add]
    by_cases hn : n = t
    · subst hn
      have e1 : decide (n < n) = false := by simp
      have e2 : decide (n < n + 1) = true := by simp
      rw [e1] at ih
      rw [e2]
      simp only [Bool.false_and, Bool.toNat_false, Nat.add_zero, Bool.true_and] at ih ⊢
      cases hf : f n <;> cases hg : g n <;> simp <;> omega
    · rw [h n hn]
      have e : decide (t < n + 1) = decide (t < n) := by
        apply decide_eq_decide.mpr
        constructor <;> intro h' <;> omega
      rw [e]
      omega

theorem popcount_swap (x y : UInt64) (t : Nat) (ht : t < 64) (h : ∀ i, i ≠ t → testU x i = testU y i) :
    popcount x + (testU y t).toNat = popcount y + (testU x t).toNat := by
  have := countP_range_swap (testU x) (testU y) t h 64
  rw [popcount_eq_countP, popcount_eq_countP]
  simpa [ht] using this

theorem testU_clearBit_bitU (x : UInt64) (s i : Nat) (hs : s < 64) :
    testU (clearBit x (bitU s)) i = (testU x i && !decide (s = i)) :=
  GenFacts.testU_clearBit x s i hs

theorem popcount_clear_le (x : UInt64) (t : Nat) (ht : t < 64) : popcount (clearBit x (bitU t)) ≤ popcount x := by
  have := popcount_swap x (clearBit x (bitU t)) t ht (by
    intro i hi
    rw [testU_clearBit_bitU x t i ht]
    have : decide (t = i) = false := by simpa using fun e => hi e.symm
    rw [this]; simp)
  have hc : testU (clearBit x (bitU t)) t = false := by
    rw [testU_clearBit_bitU x t t ht]; simp
  rw [hc] at this
  simp only [Bool.toNat_false, Nat.add_zero] at this
  have := Bool.toNat_le (testU x t)
  omega

theorem popcount_clear_lt (x : UInt64) (t : Nat) (ht : t < 64) (h : testU x t = true) :
    popcount (clearBit x (bitU t)) + 1 = popcount x := by
  have := popcount_swap x (clearBit x (bitU t)) t ht (by
    intro i hi
    rw [testU_clearBit_bitU x t i ht]
    have : decide (t = i) = false := by simpa using fun e => hi e.symm
    rw [this]; simp)
  have hc : testU (clearBit x (bitU t)) t = false := by
    rw [testU_clearBit_bitU x t t ht]; simp
  rw [hc, h] at this
  simp only [Bool.toNat_false, Bool.toNat_true, Nat.add_zero] at this
  omega

theorem popcount_set_le (x : UInt64) (t : Nat) (ht : t < 64) : popcount (x ||| bitU t) ≤ popcount x + 1 := by
  have := popcount_swap x (x ||| bitU t) t ht (by
    intro i hi
    rw [Bits.testU_or, Bits.testU_bitU t i ht]
    have : decide (t = i) = false := by simpa using fun e => hi e.symm
    rw [this]; simp)
  have hc : testU (x ||| bitU t) t = true := by
    rw [Bits.testU_or, Bits.testU_bitU t t ht]; simp
  rw [hc] at this
  simp only [Bool.toNat_true] at this
  have := Bool.toNat_le (testU x t)
  omega

/-- moving a bit: the source is set, so the count does not grow -/
theorem popcount_move_le (x : UInt64) (a t : Nat) (ha : a < 64) (ht : t < 64) (h : testU x a = true) :
    popcount (clearBit x (bitU a) ||| bitU t) ≤ popcount x := by
  have h1 := popcount_set_le (clearBit x (bitU a)) t ht
  have h2 := popcount_clear_lt x a ha h
  omega

/-! ## material -/

/-- men other than the king, pawns counted twice -/
def materialS (s : Side) : Nat :=
  2 * popcount s.pawns + popcount s.knights + popcount s.bishops + popcount s.rooks + popcount s.queens

def material (b : Board) : Nat := materialS b.white + materialS b.black

theorem material_eq (b : Board) : material b = materialS b.active + materialS b.passive := by
  unfold material Board.active Board.passive
  cases b.whiteTurn
  · simp only [Bool.false_eq_true, if_false]; omega
  · simp only [if_true]

theorem material_congr {b b' : Board} (h : vis b = vis b') : material b = material b' := by
  have e : ∀ c : Board, material c = material (vis c) := fun c => rfl
  rw [e b, e b', h]

theorem materialS_dropRights (s : Side) (k q : Bool) : materialS (dropRights s k q) = materialS s := rfl

theorem materialS_set_le (s : Side) (p : Nat) (v : UInt64) (h : popcount v ≤ popcount (s.get p)) :
    materialS (s.set p v) ≤ materialS s := by
  unfold materialS
  rcases p with _|_|_|_|_|_|_|p <;> simp only [Side.set, Side.get] at h ⊢ <;> omega

theorem materialS_set_lt (s : Side) (p : Nat) (v : UInt64) (hp1 : 1 ≤ p) (hp5 : p ≤ 5)
    (h : popcount v < popcount (s.get p)) : materialS (s.set p v) < materialS s := by
  unfold materialS
  rcases p with _|_|_|_|_|_|p <;> simp only [Side.set, Side.get] at h ⊢ <;> omega

theorem materialS_set_promo (s : Side) (p : Nat) (v : UInt64) (hp2 : 2 ≤ p) (hp5 : p ≤ 5)
    (h : popcount v ≤ popcount (s.get p) + 1) : materialS (s.set p v) ≤ materialS s + 1 := by
  unfold materialS
  rcases p with _|_|_|_|_|_|p <;> simp only [Side.set, Side.get] at h ⊢ <;> omega

/-! ## the mover -/

/-- the side without its pawn on `src` -/
def noPawn (s : Side) (src : Nat) : Side := { s with pawns := clearBit s.pawns (bitU src) }


theorem castleRook_cases {t rs rt : Nat} (h : castleRook t = some (rs, rt)) :
    (t = C1 ∧ rs = A1 ∧ rt = D1) ∨ (t = G1 ∧ rs = H1 ∧ rt = F1) ∨ (t = C8 ∧ rs = A8 ∧ rt = D8) ∨
    (t = G8 ∧ rs = H8 ∧ rt = F8) := by
  unfold castleRook at h
  split at h
  · rename_i ht; simp only [Option.some.injEq, Prod.mk.injEq] at h; left; exact ⟨by simpa using ht, h.1.symm, h.2.symm⟩
  · split at h
    · rename_i ht; simp only [Option.some.injEq, Prod.mk.injEq] at h
      right; left; exact ⟨by simpa using ht, h.1.symm, h.2.symm⟩
    · split at h
      · rename_i ht; simp only [Option.some.injEq, Prod.mk.injEq] at h
        right; right; left; exact ⟨by simpa using ht, h.1.symm, h.2.symm⟩
      · split at h
        · rename_i ht; simp only [Option.some.injEq, Prod.mk.injEq] at h
          right; right; right; exact ⟨by simpa using ht, h.1.symm, h.2.symm⟩
        · cases h

/-- what the move loop needs to know about a generated move (extracted from `GenFacts`) -/
structure MoveShape (b : Board) (f : MoveF) : Prop where
  src : f.source < 64
  tgt : f.target < 64
  p1 : 1 ≤ f.pieceMoved
  p6 : f.pieceMoved ≤ 6
  onSrc : testU (b.active.get f.pieceMoved) f.source = true
  castleRook : f.castle = true → ∀ rs rt, Board.castleRook f.target = some (rs, rt) → testU b.active.rooks rs = true ∧ rs < 64 ∧ rt < 64
  epPawn : f.enPassant = true → f.castle = false ∧ f.pieceMoved = PAWN ∧ f.pieceAttacked ≠ 0 ∧
    (if b.whiteTurn then f.target + 8 < 64 ∧ testU b.passive.pawns (f.target + 8) = true
     else 8 ≤ f.target ∧ testU b.passive.pawns (f.target - 8) = true)
  promo : f.promotion ≠ 0 → f.pieceMoved = PAWN ∧ 2 ≤ f.promotion ∧ f.promotion ≤ 5
  att5 : f.pieceAttacked ≤ 5
  attOn : f.enPassant = false → f.pieceAttacked ≠ 0 → testU (b.passive.get f.pieceAttacked) f.target = true
  castleQuiet : f.castle = true → f.pieceAttacked = 0 ∧ f.promotion = 0

theorem moveShape_of_facts {b : Board} {f : MoveF} (h : GenFacts b f) : MoveShape b f := by
  unfold GenFacts at h
  obtain ⟨-, -, -, -, -, hcs, hatt, hatt0, hattK, -, -, -, -, -, hcall⟩ := h
  obtain ⟨hs, ht, hp1, hp6, hon, -, -, hcastle, hep, hpromo, -, -, -⟩ := hcall
  have hatt6 : f.pieceAttacked ≤ 6 := by rw [hatt]; exact pieceAt_le _ _
  have hatt5 : f.pieceAttacked ≤ 5 := by
    have : f.pieceAttacked ≠ 6 := hattK
    omega
  refine ⟨hs, ht, hp1, hp6, hon, ?_, ?_, hpromo, hatt5, ?_, ?_⟩
  · intro hc rs rt hr
    have hcf := hcastle hc
    unfold CastleFacts at hcf
    obtain ⟨-, -, -, -, -, -, hside⟩ := hcf
    unfold dHome at hside
    rcases castleRook_cases hr with ⟨e1, e2, e3⟩ | ⟨e1, e2, e3⟩ | ⟨e1, e2, e3⟩ | ⟨e1, e2, e3⟩ <;>
      subst e2 e3 <;> rw [e1] at hside <;> cases hw : b.whiteTurn <;> rw [hw] at hside <;>
      simp only [Bool.false_eq_true, if_false, if_true] at hside <;>
      rcases hside with ⟨x1, -, x3, -⟩ | ⟨x1, -, x3, -⟩ <;>
      first
        | exact absurd x1 (by decide)
        | exact ⟨x3, by decide, by decide⟩
  · intro he
    have hef := hep he
    unfold EpFacts at hef
    obtain ⟨e1, e2, -, -, -, -, -, -, e9⟩ := hef
    refine ⟨e2, e1, ?_, e9⟩
    intro h0
    have := hatt0.mp h0
    unfold capSq at this
    rw [he] at this
    simp only [if_true] at this
    cases hw : b.whiteTurn <;> rw [hw] at this e9 <;> simp only [Bool.false_eq_true, if_false, if_true] at this e9
    · have := get_le_full b.passive (p := 1) (by decide) (by decide) e9.2
      simp_all
    · have := get_le_full b.passive (p := 1) (by decide) (by decide) e9.2
      simp_all
  · intro he hne
    unfold capSq at hatt hcs
    rw [he] at hatt hcs
    simp only [Bool.false_eq_true, if_false] at hatt hcs
    rw [hatt] at hne ⊢
    exact get_of_pieceAt _ hcs hne
  · intro hc
    have hcf := hcastle hc
    unfold CastleFacts at hcf
    obtain ⟨-, he, hpr, -, -, hocc, -⟩ := hcf
    refine ⟨?_, hpr⟩
    apply hatt0.mpr
    unfold capSq
    rw [he]
    simp only [Bool.false_eq_true, if_false]
    rw [Bits.testU_or] at hocc
    simp only [Bool.or_eq_false_iff] at hocc
    exact hocc.2

theorem materialS_mkMover_le {b : Board} {f : MoveF} (h : MoveShape b f) :
    materialS (mkMover f b.active) ≤ materialS b.active ∧
    (f.castle = false → f.enPassant = false → f.promotion ≠ 0 → materialS (mkMover f b.active) + 1 ≤ materialS b.active) := by
  unfold mkMover
  simp only
  by_cases hc : f.castle = true
  · rw [if_pos hc]
    refine ⟨?_, fun h' => by rw [hc] at h'; cases h'⟩
    cases hr : Board.castleRook f.target with
    | none => simp only; exact Nat.le_refl _
    | some pr =>
      obtain ⟨rs, rt⟩ := pr
      obtain ⟨h1, h2, h3⟩ := h.castleRook hc rs rt hr
      have := popcount_move_le b.active.rooks rs rt h2 h3 h1
      simp only
      unfold materialS dropRights
      simp only
      omega
  · rw [if_neg hc]
    by_cases he : f.enPassant = true
    · rw [if_pos he]
      refine ⟨?_, fun _ h' => by rw [he] at h'; cases h'⟩
      obtain ⟨_, hp, _, _⟩ := h.epPawn he
      have hon := h.onSrc
      rw [hp] at hon
      have := popcount_move_le b.active.pawns f.source f.target h.src h.tgt hon
      unfold materialS dropRights
      simp only
      omega
    · rw [if_neg he]
      by_cases hpr : f.promotion != NO_PIECE
      · rw [if_pos hpr]
        have hpr' : f.promotion ≠ 0 := by simpa [NO_PIECE] using hpr
        obtain ⟨hp, h2, h5⟩ := h.promo hpr'
        have hon := h.onSrc
        rw [hp] at hon
        have hclr := popcount_clear_lt b.active.pawns f.source h.src hon
        have h1 := materialS_set_promo (noPawn (dropRights b.active f.selfLostKing f.selfLostQueen) f.source)
            f.promotion ((noPawn (dropRights b.active f.selfLostKing f.selfLostQueen) f.source).get f.promotion ||| bitU f.target)
            h2 h5 (popcount_set_le _ f.target h.tgt)
        have h2' : materialS (noPawn (dropRights b.active f.selfLostKing f.selfLostQueen) f.source) + 2 =
            materialS b.active := by
          unfold materialS dropRights noPawn
          simp only
          omega
        have key : materialS ((noPawn (dropRights b.active f.selfLostKing f.selfLostQueen) f.source).set f.promotion
            ((noPawn (dropRights b.active f.selfLostKing f.selfLostQueen) f.source).get f.promotion ||| bitU f.target)) + 1 ≤
            materialS b.active := by omega
        exact ⟨Nat.le_trans (Nat.le_succ _) key, fun _ _ _ => key⟩
      · rw [if_neg hpr]
        have hpr' : f.promotion = 0 := by simpa [NO_PIECE] using hpr
        refine ⟨?_, fun _ _ h' => absurd hpr' h'⟩
        have := materialS_set_le (dropRights b.active f.selfLostKing f.selfLostQueen) f.pieceMoved
          (clearBit ((dropRights b.active f.selfLostKing f.selfLostQueen).get f.pieceMoved) (bitU f.source) ||| bitU f.target)
          (popcount_move_le _ f.source f.target h.src h.tgt (by
            have : (dropRights b.active f.selfLostKing f.selfLostQueen).get f.pieceMoved = b.active.get f.pieceMoved := by
              have := h.p6
              rcases hpm : f.pieceMoved with _|_|_|_|_|_|_|p <;> first | rfl | omega
            rw [this]; exact h.onSrc))
        rw [materialS_dropRights] at this
        exact this

/-! ## the other side -/

theorem get_dropRights' (s : Side) (k q : Bool) (p : Nat) : (dropRights s k q).get p = s.get p := by
  rcases p with _|_|_|_|_|_|_|p <;> rfl

theorem materialS_mkOther_le {b : Board} {f : MoveF} (h : MoveShape b f) :
    materialS (mkOther f b.whiteTurn b.passive) ≤ materialS b.passive ∧
    (f.pieceAttacked ≠ 0 → materialS (mkOther f b.whiteTurn b.passive) + 1 ≤ materialS b.passive) := by
  unfold mkOther
  simp only
  by_cases hc : f.castle = true
  · rw [if_pos hc]
    exact ⟨Nat.le_refl _, fun h' => absurd (h.castleQuiet hc).1 h'⟩
  · rw [if_neg hc]
    by_cases he : f.enPassant = true
    · rw [if_pos he]
      obtain ⟨_, _, _, hv⟩ := h.epPawn he
      have htgt := h.tgt
      have key : materialS ({ dropRights b.passive f.oppLostKing f.oppLostQueen with
          pawns := clearBit (dropRights b.passive f.oppLostKing f.oppLostQueen).pawns (epVictim b.whiteTurn (bitU f.target)) } : Side)
          + 2 = materialS b.passive := by
        unfold epVictim
        cases hw : b.whiteTurn <;> rw [hw] at hv <;> simp only [Bool.false_eq_true, if_false, if_true] at hv ⊢
        · rw [ZobristStep.bitU_shr8 f.target h.tgt hv.1]
          have := popcount_clear_lt b.passive.pawns (f.target - 8) (by omega) hv.2
          unfold materialS dropRights
          simp only
          omega
        · rw [ZobristStep.bitU_shl8 f.target (by omega)]
          have := popcount_clear_lt b.passive.pawns (f.target + 8) hv.1 hv.2
          unfold materialS dropRights
          simp only
          omega
      have k1 : materialS ({ dropRights b.passive f.oppLostKing f.oppLostQueen with
          pawns := clearBit (dropRights b.passive f.oppLostKing f.oppLostQueen).pawns (epVictim b.whiteTurn (bitU f.target)) } : Side)
          + 1 ≤ materialS b.passive := by omega
      exact ⟨Nat.le_trans (Nat.le_succ _) k1, fun _ => k1⟩
    · rw [if_neg he]
      have he' : f.enPassant = false := by simpa using he
      constructor
      · have := materialS_set_le (dropRights b.passive f.oppLostKing f.oppLostQueen) f.pieceAttacked
          (clearBit ((dropRights b.passive f.oppLostKing f.oppLostQueen).get f.pieceAttacked) (bitU f.target))
          (popcount_clear_le _ _ h.tgt)
        rw [materialS_dropRights] at this
        exact this
      · intro hne
        have hon := h.attOn he' hne
        have := materialS_set_lt (dropRights b.passive f.oppLostKing f.oppLostQueen) f.pieceAttacked
          (clearBit ((dropRights b.passive f.oppLostKing f.oppLostQueen).get f.pieceAttacked) (bitU f.target))
          (by omega) h.att5 (by
            rw [get_dropRights']
            have := popcount_clear_lt (b.passive.get f.pieceAttacked) f.target h.tgt hon
            omega)
        rw [materialS_dropRights] at this
        omega

/-! ## `make` -/

theorem material_makeF (b : Board) (f : MoveF) :
    material (makeF b f) = materialS (mkMover f b.active) + materialS (mkOther f b.whiteTurn b.passive) := by
  rw [BoardCongr.makeF_eq]
  unfold material
  cases b.whiteTurn
  · simp only [Bool.false_eq_true, if_false]; omega
  · simp only [if_true]

/-- no generated move increases the material -/
theorem material_make_le {b : Board} (hwf : wf b = true) {m : Move} (hm : Generated b m) :
    material (make b m) ≤ material b := by
  have hf : GenFacts b m.f := by
    rcases hm with hm | hm
    · exact genPseudo_facts hwf m hm
    · exact genNonQuiescent_facts hwf m hm
  have hs := moveShape_of_facts hf
  unfold make
  rw [material_makeF, material_eq b]
  have := (materialS_mkMover_le hs).1
  have := (materialS_mkOther_le hs).1
  omega

/-- every move of the capture / promotion generator strictly decreases the material -/
theorem material_capture_lt {b : Board} (hwf : wf b = true) {m : Move} (hm : m ∈ genNonQuiescent b) :
    material (make b m) < material b := by
  have hf : GenFacts b m.f := genNonQuiescent_facts hwf m hm
  have hs := moveShape_of_facts hf
  have hnoisy : GenSpec.isNoisy m = true := by
    rw [GenSpec.genNonQuiescent_eq_filter hwf] at hm
    exact (List.mem_filter.mp hm).2
  unfold make
  rw [material_makeF, material_eq b]
  have h1 := materialS_mkMover_le hs
  have h2 := materialS_mkOther_le hs
  by_cases ha : m.f.pieceAttacked = 0
  · -- a quiet promotion
    have hp : m.f.promotion ≠ 0 := by
      unfold GenSpec.isNoisy Move.isAttack Move.isPromotion at hnoisy
      simp only [NO_PIECE, Bool.or_eq_true, bne_iff_ne, ne_eq] at hnoisy
      rcases hnoisy with h | h
      · exact absurd ha h
      · exact h
    have hc : m.f.castle = false := by
      cases hcc : m.f.castle
      · rfl
      · exact absurd (hs.castleQuiet hcc).2 hp
    have he : m.f.enPassant = false := by
      cases hee : m.f.enPassant
      · rfl
      · exact absurd ha (hs.epPawn hee).2.2.1
    have := h1.2 hc he hp
    have := h2.1
    omega
  · have := h2.2 ha
    have := h1.1
    omega

/-! ## capture sequences are bounded by the material -/

theorem qdepth_of_material : ∀ (k : Nat) (b : Board), Inv k b → material b ≤ k → QDepth k b := by
  intro k
  induction k with
  | zero =>
    intro b hinv hmat
    show legalCaptures b = []
    cases hl : legalCaptures b with
    | nil => rfl
    | cons m ms =>
      have hm : m ∈ legalCaptures b := by rw [hl]; exact List.mem_cons_self
      have := material_capture_lt hinv.wf (List.mem_filter.mp hm).1
      omega
  | succ k ih =>
    intro b hinv hmat m hm
    obtain ⟨hm1, hm2⟩ := List.mem_filter.mp hm
    have := material_capture_lt hinv.wf hm1
    exact ih (make b m) (boardLaws.make_inv k b m hinv (Or.inr hm1) hm2) (by omega)

theorem Reach.material_le {b0 : Board} {B : Nat} (hinv : Inv B b0) : ∀ {k : Nat} {p : Board}, k ≤ B → Reach b0 k p →
    material p ≤ material b0 := by
  intro k
  induction k with
  | zero => intro p _ h; rw [material_congr h]; exact Nat.le_refl _
  | succ k ih =>
    intro p hk h
    obtain ⟨q, m, h1, h2, h3, h4⟩ := h
    have hq := ih (by omega) h1
    have hwf := Reach.wf hinv (by omega : k ≤ B) h1
    rw [material_congr h4]
    exact Nat.le_trans (material_make_le hwf (Or.inl h2)) hq

/-- **fuel adequacy**: with at most 64 units of material at the root (a real position has at most 46) and clock budget for
`D + 64` plies, no capture sequence anywhere in the `D`-ply neighbourhood is longer than `quiescenceFuel = 64` -/
theorem qbound_of_material {b0 : Board} {D : Nat} (hinv : Inv (D + quiescenceFuel) b0)
    (hmat : material b0 ≤ quiescenceFuel) : QBound b0 D := by
  intro k p hk hr
  obtain ⟨hi, _⟩ := Reach.inv hinv (by omega : k ≤ D + quiescenceFuel) hr
  exact qdepth_of_material _ p (Inv_mono (by omega) hi)
    (Nat.le_trans (Reach.material_le hinv (by omega : k ≤ D + quiescenceFuel) hr) hmat)

end Inkayaku.SearchSim
