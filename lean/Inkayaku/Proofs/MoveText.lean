import Inkayaku.Model.San
import Inkayaku.Model.WF
import Inkayaku.Proofs.BoardCongr
import Inkayaku.Props.C03
/-!
# The move-text functions of the board (`find_uci`, `make_uci`, `make_all_uci`, `uci_to_pgn`): helper lemmas for C13

Everything is stated on the models of `Inkayaku.Model.San`, which return the board they leave behind.
Position equality is `WF.vis` (the board without the two scratch occupancy words).

* `findUci_none`, `findUci_some` — the two shapes of `findUci`.
* `findUci_pure` — `find_uci` leaves the position as it was for EVERY string (accepted, unknown, not valid).
* `findUci_ok_iff_first`, `findUci_ok_iff_legal` (under `UciNodup`), `findUci_notExist_iff`, `findUci_notValid_iff` —
  what is accepted / which error.
* `findUci_congr`, `findUci_idempotent` — the result depends on the visible position only; repeated calls.
* `makeUci_ok`, `makeUci_err` — `make_uci`.
* `makeAllUciAux_spec`, `makeAllUci_all_or_nothing` — `make_all_uci` with an arbitrary rollback list; lists of any
  length, rejection at any index.  Hypothesis `WfStep` (a legal move keeps a well-formed board well-formed while the
  clocks stay in range) is NOT proved here.
* `makeAllUciAux_fst_congr`, `makeAllUci_after_rejection` — repeated calls of `make_all_uci` on the same board.
* `uci_length`, `uci_length_generated` — the text has a fifth character exactly when the promotion field holds a piece.
* `uciToSan_eq_findUci` (board and error kind coincide with `findUci`), `uciToSan_pure`, `uciToSan_err_iff`.
* `sanToMove_mem_genLegal` — `pgn_to_bb` only ever returns a legal move of the position.
-/
namespace Inkayaku.MoveText
open Inkayaku.Board Inkayaku.WF Inkayaku.San Inkayaku.Util Inkayaku.BoardCongr

/-! ## `find_uci` -/

/-- "`m` is the first pseudo-legal move (in generator order) whose UCI text is `t`" -/
def FirstWithText (b : Board) (t : String) (m : Move) : Prop :=
  ∃ pre post, genPseudo b = pre ++ m :: post ∧ m.uci = t ∧ ∀ x ∈ pre, x.uci ≠ t

/-- the UCI texts of the pseudo-legal moves are pairwise different (part of property C01; a hypothesis here) -/
def UciNodup (b : Board) : Prop := ((genPseudo b).map Move.uci).Nodup

theorem find?_eq_some_iff_first (b : Board) (t : String) (m : Move) :
    (genPseudo b).find? (fun x => x.uci == t) = some m ↔ FirstWithText b t m := by
  rw [List.find?_eq_some_iff_append]
  unfold FirstWithText
  constructor
  · rintro ⟨hm, pre, post, hl, hpre⟩
    refine ⟨pre, post, hl, by simpa using hm, ?_⟩
    intro x hx; simpa using hpre x hx
  · rintro ⟨pre, post, hl, hm, hpre⟩
    refine ⟨by simpa using hm, pre, post, hl, ?_⟩
    intro x hx; simpa using hpre x hx

theorem find?_eq_none_iff_no (b : Board) (t : String) :
    (genPseudo b).find? (fun x => x.uci == t) = none ↔ ∀ m ∈ genPseudo b, m.uci ≠ t := by
  rw [List.find?_eq_none]
  constructor
  · intro h m hm; simpa using h m hm
  · intro h m hm; simpa using h m hm

theorem FirstWithText.mem {b : Board} {t : String} {m : Move} (h : FirstWithText b t m) : m ∈ genPseudo b := by
  obtain ⟨pre, post, hl, -, -⟩ := h
  rw [hl]; simp

theorem FirstWithText.text {b : Board} {t : String} {m : Move} (h : FirstWithText b t m) : m.uci = t := by
  obtain ⟨_, _, -, ht, -⟩ := h
  exact ht

theorem FirstWithText.unique {b : Board} {t : String} {m m' : Move}
    (h : FirstWithText b t m) (h' : FirstWithText b t m') : m = m' := by
  rw [← find?_eq_some_iff_first] at h h'
  rw [h] at h'; exact Option.some.inj h'

theorem first_exists_of_mem {b : Board} {t : String} {m : Move} (hm : m ∈ genPseudo b) (ht : m.uci = t) :
    ∃ m', FirstWithText b t m' := by
  cases hf : (genPseudo b).find? (fun x => x.uci == t) with
  | none => exact absurd ht ((find?_eq_none_iff_no b t).1 hf m hm)
  | some m' => exact ⟨m', (find?_eq_some_iff_first b t m').1 hf⟩

theorem eq_of_map_nodup {α β : Type} (f : α → β) :
    ∀ (l : List α), (l.map f).Nodup → ∀ a ∈ l, ∀ a' ∈ l, f a = f a' → a = a'
  | [], _, a, ha, _, _, _ => by cases ha
  | x :: l, h, a, ha, a', ha', he => by
    rw [List.map_cons, List.nodup_cons] at h
    rcases List.mem_cons.1 ha with rfl | ha1
    · rcases List.mem_cons.1 ha' with rfl | ha1'
      · rfl
      · exact absurd (he ▸ List.mem_map_of_mem ha1') h.1
    · rcases List.mem_cons.1 ha' with rfl | ha1'
      · exact absurd (he ▸ List.mem_map_of_mem ha1) h.1
      · exact eq_of_map_nodup f l h.2 a ha1 a' ha1' he

/-- with pairwise different texts, "first with this text" is "the one with this text" -/
theorem first_iff_of_nodup {b : Board} (hnd : UciNodup b) (t : String) (m : Move) :
    FirstWithText b t m ↔ m ∈ genPseudo b ∧ m.uci = t := by
  constructor
  · intro h; exact ⟨h.mem, h.text⟩
  · rintro ⟨hm, ht⟩
    obtain ⟨m', h'⟩ := first_exists_of_mem hm ht
    have : m' = m := eq_of_map_nodup Move.uci _ hnd m' h'.mem m hm (h'.text.trans ht.symm)
    exact this ▸ h'

theorem findUci_none {b : Board} {s : String}
    (h : (genPseudo b).find? (fun m => m.uci == rustTrim s) = none) :
    findUci b s = (.error .notExist, b) := by
  unfold findUci; simp only [h]

theorem findUci_some {b : Board} {s : String} {m : Move}
    (h : (genPseudo b).find? (fun m => m.uci == rustTrim s) = some m) :
    findUci b s =
      (if isValid (make b m) = true then .ok m else .error .notValid, unmake (make b m) m) := by
  unfold findUci; simp only [h]
  cases isValid (make b m) <;> rfl

/-- the board `find_uci` leaves behind, in all cases -/
theorem findUci_snd (b : Board) (s : String) :
    (findUci b s).2 = match (genPseudo b).find? (fun m => m.uci == rustTrim s) with
      | none => b
      | some m => unmake (make b m) m := by
  cases h : (genPseudo b).find? (fun m => m.uci == rustTrim s) with
  | none => rw [findUci_none h]
  | some m => rw [findUci_some h]

/-- 1. `find_uci` leaves the position exactly as it was, whatever the string and whatever the outcome -/
theorem findUci_pure {b : Board} (hwf : wf b = true) (s : String) : vis (findUci b s).2 = vis b := by
  cases h : (genPseudo b).find? (fun m => m.uci == rustTrim s) with
  | none => rw [findUci_none h]
  | some m =>
    rw [findUci_some h]
    exact (C03.unmake_make_generated b hwf m (List.mem_of_find?_eq_some h)).1

/-- 2. accepted exactly for the first pseudo-legal move with that text, provided it does not leave the own king
attacked (no well-formedness needed) -/
theorem findUci_ok_iff_first (b : Board) (s : String) (m : Move) :
    (findUci b s).1 = .ok m ↔ FirstWithText b (rustTrim s) m ∧ isValid (make b m) = true := by
  cases h : (genPseudo b).find? (fun m => m.uci == rustTrim s) with
  | none =>
    rw [findUci_none h]
    constructor
    · intro h'; cases h'
    · rintro ⟨h', -⟩
      rw [← find?_eq_some_iff_first, h] at h'; cases h'
  | some m' =>
    rw [findUci_some h]
    have hf := (find?_eq_some_iff_first b _ m').1 h
    constructor
    · intro h'
      by_cases hv : isValid (make b m') = true
      · rw [if_pos hv] at h'
        cases h'
        exact ⟨hf, hv⟩
      · rw [if_neg hv] at h'; cases h'
    · rintro ⟨h', hv⟩
      cases hf.unique h'
      rw [if_pos hv]

theorem findUci_notExist_iff (b : Board) (s : String) :
    (findUci b s).1 = .error .notExist ↔ ∀ m ∈ genPseudo b, m.uci ≠ rustTrim s := by
  rw [← find?_eq_none_iff_no]
  cases h : (genPseudo b).find? (fun m => m.uci == rustTrim s) with
  | none => rw [findUci_none h]; simp
  | some m' =>
    rw [findUci_some h]
    by_cases hv : isValid (make b m') = true
    · rw [if_pos hv]; simp
    · rw [if_neg hv]; simp

theorem findUci_notValid_iff (b : Board) (s : String) :
    (findUci b s).1 = .error .notValid ↔
      ∃ m, FirstWithText b (rustTrim s) m ∧ isValid (make b m) = false := by
  cases h : (genPseudo b).find? (fun m => m.uci == rustTrim s) with
  | none =>
    rw [findUci_none h]
    constructor
    · intro h'; cases h'
    · rintro ⟨m, h', -⟩
      rw [← find?_eq_some_iff_first, h] at h'; cases h'
  | some m' =>
    rw [findUci_some h]
    have hf := (find?_eq_some_iff_first b _ m').1 h
    constructor
    · intro h'
      by_cases hv : isValid (make b m') = true
      · rw [if_pos hv] at h'; cases h'
      · exact ⟨m', hf, by simpa using hv⟩
    · rintro ⟨m, h', hv⟩
      cases hf.unique h'
      rw [if_neg (by simp [hv])]

/-- every outcome of `find_uci` is one of the three -/
theorem findUci_cases (b : Board) (s : String) :
    (∃ m, (findUci b s).1 = .ok m) ∨ (findUci b s).1 = .error .notExist ∨ (findUci b s).1 = .error .notValid := by
  rcases h : (findUci b s).1 with e | m
  · cases e <;> simp
  · exact Or.inl ⟨m, rfl⟩

/-- an accepted move is a legal move with that text -/
theorem findUci_ok_legal {b : Board} {s : String} {m : Move} (h : (findUci b s).1 = .ok m) :
    m ∈ genLegal b ∧ m.uci = rustTrim s := by
  obtain ⟨hf, hv⟩ := (findUci_ok_iff_first b s m).1 h
  exact ⟨List.mem_filter.2 ⟨hf.mem, hv⟩, hf.text⟩

/-- under `UciNodup`: accepted iff the text denotes a legal move, and the move returned is that move -/
theorem findUci_ok_iff_legal {b : Board} (hnd : UciNodup b) (s : String) (m : Move) :
    (findUci b s).1 = .ok m ↔ m ∈ genLegal b ∧ m.uci = rustTrim s := by
  rw [findUci_ok_iff_first, first_iff_of_nodup hnd]
  unfold genLegal isMoveLegal
  rw [List.mem_filter]
  constructor
  · rintro ⟨⟨a, b⟩, c⟩; exact ⟨⟨a, c⟩, b⟩
  · rintro ⟨⟨a, c⟩, b⟩; exact ⟨⟨a, b⟩, c⟩

/-! ## the result depends on the visible position only -/

theorem findUci_congr {b b' : Board} (h : vis b = vis b') (s : String) :
    (findUci b s).1 = (findUci b' s).1 ∧ vis (findUci b s).2 = vis (findUci b' s).2 := by
  have hg := genPseudo_congr h
  cases hf : (genPseudo b).find? (fun m => m.uci == rustTrim s) with
  | none =>
    rw [findUci_none hf, findUci_none (hg ▸ hf)]
    exact ⟨rfl, h⟩
  | some m =>
    rw [findUci_some hf, findUci_some (hg ▸ hf)]
    have hm := make_congr h m
    refine ⟨?_, unmake_congr hm m⟩
    show (if isValid (make b m) = true then _ else _) = (if isValid (make b' m) = true then _ else _)
    rw [isValid_congr hm]

/-- 6. repeated calls on the same board: an earlier `find_uci` (with any string, any outcome) does not change
what a later one answers -/
theorem findUci_idempotent {b : Board} (hwf : wf b = true) (s s' : String) :
    (findUci (findUci b s).2 s').1 = (findUci b s').1 ∧
    vis (findUci (findUci b s).2 s').2 = vis b := by
  have h := findUci_congr (findUci_pure hwf s) s'
  exact ⟨h.1, h.2.trans (findUci_pure hwf s')⟩

/-! ## `make_uci` -/

theorem makeUci_eq (b : Board) (s : String) :
    makeUci b s = match (findUci b s).1 with
      | .ok m => (.ok (), make (findUci b s).2 m)
      | .error e => (.error e, (findUci b s).2) := by
  unfold makeUci
  rcases findUci b s with ⟨r, b'⟩
  cases r <;> rfl

/-- 3. `make_uci`: success means the string was accepted by `find_uci` and the board holds the successor -/
theorem makeUci_ok {b : Board} (hwf : wf b = true) {s : String} {b' : Board}
    (h : makeUci b s = (.ok (), b')) :
    ∃ m, (findUci b s).1 = .ok m ∧ vis b' = vis (make b m) := by
  rw [makeUci_eq] at h
  rcases hr : (findUci b s).1 with e | m
  · rw [hr] at h; cases h
  · rw [hr] at h
    refine ⟨m, rfl, ?_⟩
    cases h
    exact make_congr (findUci_pure hwf s) m

/-- 3. `make_uci`: an error is the error of `find_uci` and the position is unchanged -/
theorem makeUci_err {b : Board} (hwf : wf b = true) {s : String} {e : UciErr} {b' : Board}
    (h : makeUci b s = (.error e, b')) :
    (findUci b s).1 = .error e ∧ vis b' = vis b := by
  rw [makeUci_eq] at h
  rcases hr : (findUci b s).1 with e' | m
  · rw [hr] at h
    cases h
    exact ⟨rfl, findUci_pure hwf s⟩
  · rw [hr] at h; cases h

theorem makeUci_fst (b : Board) (s : String) :
    (makeUci b s).1 = match (findUci b s).1 with | .ok _ => .ok () | .error e => .error e := by
  rw [makeUci_eq]; cases (findUci b s).1 <;> rfl

/-! ## `make_all_uci` -/

/-- well-formed with room for `k` more plies on both clocks -/
def Inv (k : Nat) (b : Board) : Prop :=
  wf b = true ∧ b.halfmove + k ≤ 4095 ∧ b.fullmove + k < 2147483648

/-- HYPOTHESIS (not proved here): a legal move keeps a well-formed board well-formed while the clocks stay in range -/
def WfStep : Prop :=
  ∀ (k : Nat) (b : Board) (m : Move), Inv (k + 1) b → m ∈ genPseudo b → isValid (make b m) = true → Inv k (make b m)

theorem Inv.congr {k : Nat} {b b' : Board} (h : vis b = vis b') (hi : Inv k b) : Inv k b' := by
  obtain ⟨h1, h2, h3⟩ := hi
  refine ⟨(wf_congr h).symm.trans h1, ?_, ?_⟩
  · rw [← halfmove_congr h]; exact h2
  · have : b.fullmove = b'.fullmove := by rw [← fullmove_vis b, h, fullmove_vis]
    rw [← this]; exact h3

theorem Inv.wf {k : Nat} {b : Board} (hi : Inv k b) : wf b = true := hi.1

theorem Inv.mono {k j : Nat} {b : Board} (hi : Inv k b) (hj : j ≤ k) : Inv j b :=
  ⟨hi.1, by have := hi.2.1; omega, by have := hi.2.2; omega⟩

/-- the strings `ss` are accepted one after the other from `b`, denoting the moves `ms` -/
inductive Accepts : Board → List String → List Move → Prop
  | nil (b : Board) : Accepts b [] []
  | cons {b : Board} {s : String} {m : Move} {ss : List String} {ms : List Move} :
      (findUci b s).1 = .ok m → Accepts (make b m) ss ms → Accepts b (s :: ss) (m :: ms)

theorem Accepts.length {b : Board} {ss : List String} {ms : List Move} (h : Accepts b ss ms) :
    ms.length = ss.length := by
  induction h with
  | nil => rfl
  | cons _ _ ih => simp [ih]

theorem makeLine_congr {b b' : Board} (h : vis b = vis b') (ms : List Move) :
    vis (C03.makeLine b ms) = vis (C03.makeLine b' ms) := by
  induction ms generalizing b b' with
  | nil => exact h
  | cons m ms ih => exact ih (make_congr h m)

theorem Accepts.congr {b b' : Board} {ss : List String} {ms : List Move} (h : vis b = vis b')
    (ha : Accepts b ss ms) : Accepts b' ss ms := by
  induction ha generalizing b' with
  | nil => exact .nil _
  | cons hf _ ih => exact .cons ((findUci_congr h _).1.symm.trans hf) (ih (make_congr h _))

/-- the accepted moves are determined by the strings -/
theorem Accepts.unique {b : Board} {ss : List String} {ms ms' : List Move}
    (h : Accepts b ss ms) (h' : Accepts b ss ms') : ms = ms' := by
  induction h generalizing ms' with
  | nil => cases h'; rfl
  | cons hf _ ih =>
    cases h' with
    | cons hf' ht' =>
      have := hf.symm.trans hf'
      cases this
      rw [ih ht']

/-- the strings before index `pre.length` are accepted (moves `ms`), the next one is rejected with `e` -/
def RejectedAt (b : Board) (ss : List String) (e : UciErr) : Prop :=
  ∃ pre s post ms, ss = pre ++ s :: post ∧ Accepts b pre ms ∧ (findUci (C03.makeLine b ms) s).1 = .error e

theorem RejectedAt.cons {b : Board} {s : String} {m : Move} {ss : List String} {e : UciErr}
    (hf : (findUci b s).1 = .ok m) (h : RejectedAt (make b m) ss e) : RejectedAt b (s :: ss) e := by
  obtain ⟨pre, s', post, ms, rfl, ha, he⟩ := h
  exact ⟨s :: pre, s', post, m :: ms, rfl, .cons hf ha, he⟩

theorem RejectedAt.congr {b b' : Board} {ss : List String} {e : UciErr} (h : vis b = vis b')
    (hr : RejectedAt b ss e) : RejectedAt b' ss e := by
  obtain ⟨pre, s', post, ms, rfl, ha, he⟩ := hr
  exact ⟨pre, s', post, ms, rfl, ha.congr h, (findUci_congr (makeLine_congr h ms) s').1.symm.trans he⟩

/-- an accepted list is not also rejected -/
theorem Accepts.not_rejected {b : Board} {ss : List String} {ms : List Move} {e : UciErr}
    (ha : Accepts b ss ms) : ¬ RejectedAt b ss e := by
  induction ha with
  | nil =>
    rintro ⟨pre, s, post, ms, h, -, -⟩
    cases pre <;> cases h
  | @cons b s m ss ms hf _ ih =>
    rintro ⟨pre, s', post, ms', h, ha', he⟩
    cases pre with
    | nil =>
      cases h
      cases ha'
      rw [show C03.makeLine b [] = b from rfl, hf] at he
      cases he
    | cons p pre =>
      cases h
      cases ha' with
      | cons hf' ht' =>
        cases hf.symm.trans hf'
        exact ih ⟨pre, s', post, _, rfl, ht', he⟩

/-- what the rollback list must do: unmaking `made` (most recent first) from any board showing the position of `b`
gives the position of `b0` -/
def Undoes (made : List Move) (b b0 : Board) : Prop :=
  ∀ c, vis c = vis b → vis (made.foldl (fun acc m => unmake acc m) c) = vis b0

theorem Undoes.nil (b : Board) : Undoes [] b b := fun _ h => h

theorem Undoes.push {made : List Move} {b b0 : Board} {m : Move} (hu : Undoes made b b0)
    (hwf : wf b = true) (hm : m ∈ genPseudo b) {b1 : Board} (h1 : vis b1 = vis b) :
    Undoes (m :: made) (make b1 m) b0 := by
  intro c hc
  rw [List.foldl_cons]
  apply hu
  calc vis (unmake c m) = vis (unmake (make b1 m) m) := unmake_congr hc m
    _ = vis (unmake (make b m) m) := unmake_congr (make_congr h1 m) m
    _ = vis b := (C03.unmake_make_generated b hwf m hm).1

theorem makeAllUciAux_nil (b : Board) (made : List Move) : makeAllUciAux b [] made = (.ok (), b) := rfl

theorem makeAllUciAux_cons (b : Board) (s : String) (rest : List String) (made : List Move) :
    makeAllUciAux b (s :: rest) made = match (findUci b s).1 with
      | .ok m => makeAllUciAux (make (findUci b s).2 m) rest (m :: made)
      | .error e => (.error e, made.foldl (fun acc m => unmake acc m) (findUci b s).2) := by
  rw [makeAllUciAux]
  rcases findUci b s with ⟨r, b'⟩
  cases r <;> rfl

/-- the loop of `make_all_uci` started in the middle: `made` is the rollback list, `b0` the position before the call -/
theorem makeAllUciAux_spec (hstep : WfStep) :
    ∀ (ss : List String) (b : Board) (made : List Move) (b0 : Board),
      Inv ss.length b → Undoes made b b0 →
      match (makeAllUciAux b ss made).1 with
      | .error e => vis (makeAllUciAux b ss made).2 = vis b0 ∧ RejectedAt b ss e
      | .ok _ => ∃ ms, Accepts b ss ms ∧ vis (makeAllUciAux b ss made).2 = vis (C03.makeLine b ms)
  | [], b, made, b0, _, _ => by
    rw [makeAllUciAux_nil]
    exact ⟨[], .nil b, rfl⟩
  | s :: rest, b, made, b0, hinv, hu => by
    have hpure := findUci_pure hinv.wf s
    rw [makeAllUciAux_cons]
    rcases hr : (findUci b s).1 with e | m
    · exact ⟨hu _ hpure, [], s, rest, [], rfl, .nil b, hr⟩
    · obtain ⟨hfirst, hv⟩ := (findUci_ok_iff_first b s m).1 hr
      have hinv' : Inv rest.length (make b m) := hstep _ b m hinv hfirst.mem hv
      have hvis : vis (make (findUci b s).2 m) = vis (make b m) := make_congr hpure m
      have ih := makeAllUciAux_spec hstep rest (make (findUci b s).2 m) (m :: made) b0
        (hinv'.congr hvis.symm) (hu.push hinv.wf hfirst.mem hpure)
      show match (makeAllUciAux (make (findUci b s).2 m) rest (m :: made)).1 with
        | .error e => vis (makeAllUciAux (make (findUci b s).2 m) rest (m :: made)).2 = vis b0
            ∧ RejectedAt b (s :: rest) e
        | .ok _ => ∃ ms, Accepts b (s :: rest) ms
            ∧ vis (makeAllUciAux (make (findUci b s).2 m) rest (m :: made)).2 = vis (C03.makeLine b ms)
      rcases hres : (makeAllUciAux (make (findUci b s).2 m) rest (m :: made)).1 with e | u
      · rw [hres] at ih
        exact ⟨ih.1, .cons hr (ih.2.congr hvis)⟩
      · rw [hres] at ih
        obtain ⟨ms, ha, hb⟩ := ih
        exact ⟨m :: ms, .cons hr (ha.congr hvis), hb.trans (makeLine_congr hvis ms)⟩

/-- 4. `make_all_uci` is all-or-nothing -/
theorem makeAllUci_all_or_nothing (hstep : WfStep) (b : Board) (ss : List String) (hwf : wf b = true)
    (hclk : b.halfmove + ss.length ≤ 4095 ∧ b.fullmove + ss.length < 2147483648) :
    match (makeAllUci b ss).1 with
    | .error e => vis (makeAllUci b ss).2 = vis b ∧ RejectedAt b ss e
    | .ok _ => ∃ ms, Accepts b ss ms ∧ vis (makeAllUci b ss).2 = vis (C03.makeLine b ms) :=
  makeAllUciAux_spec hstep ss b [] b ⟨hwf, hclk⟩ (Undoes.nil b)

/-! ## repeated calls of `make_all_uci` -/

/-- whether (and with which error) a list is rejected depends on the visible position only, not on the rollback list -/
theorem makeAllUciAux_fst_congr :
    ∀ (ss : List String) (b b' : Board) (made made' : List Move), vis b = vis b' →
      (makeAllUciAux b ss made).1 = (makeAllUciAux b' ss made').1
  | [], _, _, _, _, _ => rfl
  | s :: rest, b, b', made, made', h => by
    rw [makeAllUciAux_cons, makeAllUciAux_cons]
    obtain ⟨h1, h2⟩ := findUci_congr h s
    rw [← h1]
    rcases (findUci b s).1 with e | m
    · rfl
    · exact makeAllUciAux_fst_congr rest _ _ _ _ (make_congr h2 m)

/-- after a rejected list the board behaves, for a further list, exactly as the board before the first call -/
theorem makeAllUci_after_rejection (hstep : WfStep) (b : Board) (ss ss' : List String) (hwf : wf b = true)
    (hclk : b.halfmove + ss.length ≤ 4095 ∧ b.fullmove + ss.length < 2147483648)
    (hclk' : b.halfmove + ss'.length ≤ 4095 ∧ b.fullmove + ss'.length < 2147483648)
    (e : UciErr) (hrej : (makeAllUci b ss).1 = .error e) :
    (makeAllUci (makeAllUci b ss).2 ss').1 = (makeAllUci b ss').1 ∧
    match (makeAllUci b ss').1 with
    | .error _ => vis (makeAllUci (makeAllUci b ss).2 ss').2 = vis b
    | .ok _ => ∃ ms, Accepts b ss' ms ∧ vis (makeAllUci (makeAllUci b ss).2 ss').2 = vis (C03.makeLine b ms) := by
  have h1 := makeAllUci_all_or_nothing hstep b ss hwf hclk
  rw [hrej] at h1
  have hv : vis (makeAllUci b ss).2 = vis b := h1.1
  have hfst : (makeAllUci (makeAllUci b ss).2 ss').1 = (makeAllUci b ss').1 :=
    makeAllUciAux_fst_congr ss' _ _ [] [] hv
  refine ⟨hfst, ?_⟩
  have hinv : Inv ss'.length (makeAllUci b ss).2 := Inv.congr hv.symm ⟨hwf, hclk'⟩
  have h2 := makeAllUci_all_or_nothing hstep (makeAllUci b ss).2 ss' hinv.1 hinv.2
  rw [hfst] at h2
  rcases hr : (makeAllUci b ss').1 with e' | u
  · rw [hr] at h2; exact h2.1.trans hv
  · rw [hr] at h2
    obtain ⟨ms, ha, hb⟩ := h2
    exact ⟨ms, ha.congr hv, hb.trans (makeLine_congr hv ms)⟩

/-! ## the shape of the UCI text: four square characters, plus one letter exactly when the promotion field holds a piece -/

theorem pieceString_length : ∀ (p : Nat), (pieceString p).length = if 1 ≤ p ∧ p ≤ 6 then 1 else 0
  | 0 | 1 | 2 | 3 | 4 | 5 | 6 => by decide
  | n + 7 => by rw [if_neg (by omega)]; rfl

theorem uci_length (f : MoveF) (hs : f.source < 64) (ht : f.target < 64) :
    f.uci.length = 4 + (if 1 ≤ f.promotion ∧ f.promotion ≤ 6 then 1 else 0) := by
  unfold MoveF.uci squareString
  rw [if_pos hs, if_pos ht, String.length_append, String.length_append, pieceString_length]
  simp

/-- the text of a generated move has a fifth character exactly when the move carries a promotion piece -/
theorem uci_length_generated {b : Board} (hwf : wf b = true) {m : Move} (hm : m ∈ genPseudo b) :
    m.uci.length = 4 + (if 1 ≤ m.f.promotion ∧ m.f.promotion ≤ 6 then 1 else 0) := by
  have h := (GenOK.genPseudo_ok hwf m hm).1
  exact uci_length m.f h.2.2.1 h.2.2.2.1

/-! ## `uci_to_pgn` -/

/-- `uci_to_pgn` leaves exactly the board `find_uci` leaves, and fails exactly when and how `find_uci` fails -/
theorem uciToSan_eq_findUci (b : Board) (s : String) :
    (uciToSan b s).2 = (findUci b s).2 ∧
    (∀ e, (uciToSan b s).1 = .error e ↔ (findUci b s).1 = .error e) ∧
    ((∃ t, (uciToSan b s).1 = .ok t) ↔ ∃ m, (findUci b s).1 = .ok m) := by
  cases h : (genPseudo b).find? (fun m => m.uci == rustTrim s) with
  | none =>
    rw [findUci_none h]
    unfold uciToSan; simp only [h]
    simp
  | some m =>
    rw [findUci_some h]
    unfold uciToSan; simp only [h]
    by_cases hv : isValid (make b m) = true
    · simp only [hv, Bool.not_true, Bool.false_eq_true, if_false, if_true]
      split <;> simp
    · have hv' : isValid (make b m) = false := by simpa using hv
      simp only [hv', Bool.not_false, if_true, Bool.false_eq_true, if_false]
      simp

/-- 5. `uci_to_pgn` leaves the position as it was for every string -/
theorem uciToSan_pure {b : Board} (hwf : wf b = true) (s : String) : vis (uciToSan b s).2 = vis b := by
  rw [(uciToSan_eq_findUci b s).1]; exact findUci_pure hwf s

/-- 5. `uci_to_pgn` reports an error exactly when `find_uci` does, and the same one -/
theorem uciToSan_err_iff (b : Board) (s : String) (e : UciErr) :
    (uciToSan b s).1 = .error e ↔ (findUci b s).1 = .error e := (uciToSan_eq_findUci b s).2.1 e

theorem uciToSan_ok_iff (b : Board) (s : String) :
    (∃ t, (uciToSan b s).1 = .ok t) ↔ ∃ m, (findUci b s).1 = .ok m := (uciToSan_eq_findUci b s).2.2

/-! ## `pgn_to_bb` -/

/-- `pgn_to_bb` only ever returns a legal move of the position (the model is a pure function: every probe in the Rust
is `is_move_legal` = make, test, unmake on a generated move, which restores the position by C03) -/
theorem sanToMove_mem_genLegal {b : Board} {san : String} {m : Move} (h : sanToMove b san = some m) :
    m ∈ genLegal b := by
  unfold sanToMove at h
  split at h
  · cases h
  · rename_i caps _
    simp only at h
    split at h
    · rename_i m' hc
      cases h
      have hm : m ∈ List.filter (isMoveLegal b) _ := hc ▸ List.mem_singleton_self m
      have hm := (List.mem_filter.1 hm).1
      split at hm
      · exact (List.mem_filter.1 hm).1
      · split at hm <;> exact (List.mem_filter.1 hm).1
    · cases h

end Inkayaku.MoveText
