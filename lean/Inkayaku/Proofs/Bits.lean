import Inkayaku.Model.Board
/-!
Bit-level bridge between the `UInt64` words of the board model and sets of squares (`testU x t` = "square `t` is in
the set `x`").  Used by the attack/check proofs (C05) and meant to be reusable for move generation (C01).
-/
namespace Inkayaku.Bits
open Inkayaku.Board

theorem testU_and (a b : UInt64) (t : Nat) : testU (a &&& b) t = (testU a t && testU b t) := by
  simp [testU, UInt64.toNat_and, Nat.testBit_and]

theorem testU_or (a b : UInt64) (t : Nat) : testU (a ||| b) t = (testU a t || testU b t) := by
  simp [testU, UInt64.toNat_or, Nat.testBit_or]

theorem testU_zero (t : Nat) : testU 0 t = false := by
  simp [testU]

/-- no stray bits: a `u64` has no bit 64 or higher -/
theorem testU_lt {x : UInt64} {t : Nat} (h : testU x t = true) : t < 64 := by
  apply Decidable.byContradiction
  intro hn
  have h1 : x.toNat < 2 ^ t :=
    Nat.lt_of_lt_of_le x.toNat_lt (Nat.pow_le_pow_right (by decide) (by omega))
  have := Nat.testBit_lt_two_pow h1
  simp [testU, this] at h

/-- a table entry / lookup result converted to `u64` keeps its bits below 64 (whatever its size) -/
theorem testU_ofNat (n t : Nat) (ht : t < 64) : testU n.toUInt64 t = n.testBit t := by
  unfold testU
  rw [Nat.toUInt64_eq, UInt64.toNat_ofNat', Nat.testBit_mod_two_pow]
  simp [ht]

theorem ne_zero_iff (x : UInt64) : (x != 0) = true ↔ ∃ t, t < 64 ∧ testU x t = true := by
  constructor
  · intro h
    have hx : x.toNat ≠ 0 := by
      intro h0
      have : x = 0 := UInt64.toNat_inj.mp (by simpa using h0)
      simp [this] at h
    obtain ⟨i, hi⟩ := Nat.exists_testBit_of_ne_zero hx
    exact ⟨i, testU_lt hi, hi⟩
  · rintro ⟨t, _, ht⟩
    simp only [bne_iff_ne, ne_eq]
    intro h0
    simp [h0, testU_zero] at ht

/-- the test `a & b != 0` of the Rust = the two sets meet -/
theorem and_ne_zero_iff (x y : UInt64) :
    (x &&& y != 0) = true ↔ ∃ t, t < 64 ∧ testU x t = true ∧ testU y t = true := by
  rw [ne_zero_iff]
  simp only [testU_and, Bool.and_eq_true]

theorem and_eq_zero_iff (x y : UInt64) :
    x &&& y = 0 ↔ ∀ t, t < 64 → ¬ (testU x t = true ∧ testU y t = true) := by
  have h := and_ne_zero_iff x y
  constructor
  · intro h0 t ht hxy
    have : (x &&& y != 0) = true := h.mpr ⟨t, ht, hxy⟩
    simp [h0] at this
  · intro hall
    apply Decidable.byContradiction
    intro hne
    have : (x &&& y != 0) = true := by simpa using hne
    obtain ⟨t, ht, hxy⟩ := h.mp this
    exact hall t ht hxy

theorem toNat_bitU (s : Nat) (hs : s < 64) : (bitU s).toNat = 2 ^ s := by
  unfold bitU
  rw [UInt64.toNat_shiftLeft, Nat.toUInt64_eq, UInt64.toNat_ofNat']
  have h64 : s % 2 ^ 64 % 64 = s := by omega
  rw [h64, UInt64.toNat_one, Nat.one_shiftLeft]
  exact Nat.mod_eq_of_lt (Nat.pow_lt_pow_right (by decide) hs)

theorem testU_bitU (s t : Nat) (hs : s < 64) : testU (bitU s) t = decide (s = t) := by
  unfold testU
  rw [toNat_bitU s hs, Nat.testBit_two_pow]

/-- `word & (1 << s) != 0` = "square `s` is in the word" -/
theorem and_bitU_ne_zero (x : UInt64) (s : Nat) (hs : s < 64) : (x &&& bitU s != 0) = testU x s := by
  rw [Bool.eq_iff_iff, and_ne_zero_iff]
  constructor
  · rintro ⟨t, _, hx, hb⟩
    rw [testU_bitU s t hs] at hb
    have : s = t := by simpa using hb
    subst this; exact hx
  · intro hx
    exact ⟨s, hs, hx, by simp [testU_bitU s s hs]⟩

theorem mem_bitsAsc (x : UInt64) (t : Nat) : t ∈ bitsAsc x ↔ testU x t = true := by
  simp only [bitsAsc, List.mem_filter, List.mem_range, and_iff_right_iff_imp]
  exact testU_lt

end Inkayaku.Bits
