import Inkayaku.Model.Board
/-!
# Packed move word: every getter returns what its setter stored (helper for C03)

`encode` ORs seventeen shifted fields into one `u64`; `decode` masks and shifts them out again.  The masks and
shifts are the numerals of the CURRENT build (`Gen.BoardConsts`).  They are not copied here: each use unfolds the
`Gen` definition, so the proofs are re-checked against regenerated constants and fail when two fields overlap,
a mask does not match its shift, or a field is narrower than `FieldsFit` says.

Route: `UInt64 → Nat`; `(encode f).toNat = Σ fieldᵢ * 2^shiftᵢ` (`encode_toNat`), a getter is
`bits / 2^shift % 2^width` (`field_eq`), and `omega` extracts the field from the sum.
-/
namespace Inkayaku.MoveBits
open Inkayaku.Board Inkayaku.Gen

/-- every value fits the bit field it is stored in -/
def FieldsFit (f : MoveF) : Prop :=
  f.pieceMoved < 8 ∧ f.pieceAttacked < 8 ∧ f.source < 64 ∧ f.target < 64 ∧ f.prevHalfmove < 4096 ∧
  f.prevEp < 64 ∧ f.nextEp < 64 ∧ f.promotion < 8 ∧ f.side < 2

instance (f : MoveF) : Decidable (FieldsFit f) := by unfold FieldsFit; exact inferInstance

theorem toNat_shl (v s w : Nat) (hv : v < 2^w) (hs : s + w ≤ 64) (hs' : s < 64) :
    (v.toUInt64 <<< s.toUInt64).toNat = v * 2^s := by
  have h2 : v * 2^s < 2^64 := by
    calc v * 2^s < 2^w * 2^s := Nat.mul_lt_mul_of_pos_right hv (Nat.two_pow_pos s)
      _ = 2^(w+s) := (Nat.pow_add 2 w s).symm
      _ ≤ 2^64 := Nat.pow_le_pow_right (by decide) (by omega)
  have hv' : v < 2^64 := Nat.lt_of_le_of_lt (Nat.le_mul_of_pos_right v (Nat.two_pow_pos s)) h2
  have hs2 : s % 2^64 % 64 = s := by omega
  rw [UInt64.toNat_shiftLeft, Nat.toUInt64_eq, Nat.toUInt64_eq, UInt64.toNat_ofNat', UInt64.toNat_ofNat',
    hs2, Nat.mod_eq_of_lt hv', Nat.shiftLeft_eq, Nat.mod_eq_of_lt h2]

theorem toNat_flag (b : Bool) (m : Nat) (hm : m < 2^64) : (flagBits b m).toNat = b.toNat * m := by
  cases b <;> simp [flagBits, Nat.mod_eq_of_lt hm]

/-- a getter `(bits & mask) >> shift` with `mask = (2^w - 1) << shift` is `bits / 2^shift % 2^w` -/
theorem field_eq (bits : UInt64) (mask s w : Nat) (hm : mask = (2^w - 1) <<< s) (hs : s + w ≤ 64) (hs' : s < 64) :
    field bits mask s = bits.toNat / 2^s % 2^w := by
  have hmask : mask < 2^64 := by
    subst hm
    rw [Nat.shiftLeft_eq]
    calc (2^w - 1) * 2^s < 2^w * 2^s :=
          Nat.mul_lt_mul_of_pos_right (by have := Nat.two_pow_pos w; omega) (Nat.two_pow_pos s)
      _ = 2^(w+s) := (Nat.pow_add 2 w s).symm
      _ ≤ 2^64 := Nat.pow_le_pow_right (by decide) (by omega)
  have hs2 : s % 2^64 % 64 = s := by omega
  unfold field
  rw [UInt64.toNat_shiftRight, UInt64.toNat_and, Nat.toUInt64_eq, Nat.toUInt64_eq, UInt64.toNat_ofNat',
    UInt64.toNat_ofNat', hs2, Nat.mod_eq_of_lt hmask, hm]
  apply Nat.eq_of_testBit_eq
  intro i
  simp only [Nat.testBit_shiftRight, Nat.testBit_and, Nat.testBit_shiftLeft, Nat.testBit_two_pow_sub_one,
    Nat.testBit_mod_two_pow, Nat.testBit_div_two_pow]
  have : s + i - s = i := by omega
  have h2 : s + i ≥ s := by omega
  simp [this, h2, Nat.add_comm, Bool.and_comm]

theorem or_shl_eq_add {a s : Nat} (v : Nat) (h : a < 2^s) : a ||| v * 2^s = a + v * 2^s := by
  rw [Nat.or_comm, ← Nat.shiftLeft_eq, ← Nat.shiftLeft_add_eq_or_of_lt h, Nat.add_comm]

/-- the packed word as a sum of shifted fields (ascending shift order) -/
def packNat (f : MoveF) : Nat :=
  f.pieceMoved * 2^pieceMovedShift + f.pieceAttacked * 2^pieceAttackedShift
  + f.selfLostKing.toNat * 2^selfLostKingShift + f.selfLostQueen.toNat * 2^selfLostQueenShift
  + f.oppLostKing.toNat * 2^oppLostKingShift + f.oppLostQueen.toNat * 2^oppLostQueenShift
  + f.castle.toNat * 2^castleMoveShift + f.enPassant.toNat * 2^enPassantAttackShift
  + f.source * 2^sourceSquareShift + f.target * 2^targetSquareShift
  + f.halfmoveReset.toNat * 2^halfmoveResetShift + f.prevHalfmove * 2^previousHalfmoveShift
  + f.prevEp * 2^previousEnPassantShift + f.nextEp * 2^nextEnPassantShift
  + f.promotion * 2^promotionPieceShift + f.side * 2^sideToMoveShift

theorem bool_toNat_lt (b : Bool) : b.toNat < 2 := by cases b <;> decide

theorem encode_toNat {f : MoveF} (h : FieldsFit f) : (encode f).toNat = packNat f := by
  obtain ⟨h1, h2, h3, h4, h5, h6, h7, h8, h9⟩ := h
  unfold encode
  simp only [UInt64.toNat_or]
  rw [toNat_shl f.nextEp nextEnPassantShift 6 h7 (by decide) (by decide),
    toNat_shl f.pieceMoved pieceMovedShift 3 h1 (by decide) (by decide),
    toNat_shl f.pieceAttacked pieceAttackedShift 3 h2 (by decide) (by decide),
    toNat_shl f.source sourceSquareShift 6 h3 (by decide) (by decide),
    toNat_shl f.target targetSquareShift 6 h4 (by decide) (by decide),
    toNat_shl f.prevHalfmove previousHalfmoveShift 12 h5 (by decide) (by decide),
    toNat_shl f.prevEp previousEnPassantShift 6 h6 (by decide) (by decide),
    toNat_shl f.promotion promotionPieceShift 3 h8 (by decide) (by decide),
    toNat_shl f.side sideToMoveShift 1 h9 (by decide) (by decide),
    toNat_flag _ enPassantAttackTrueMask (by decide), toNat_flag _ castleMoveTrueMask (by decide),
    toNat_flag _ halfmoveResetMask (by decide), toNat_flag _ oppLostQueenMask (by decide),
    toNat_flag _ oppLostKingMask (by decide), toNat_flag _ selfLostQueenMask (by decide),
    toNat_flag _ selfLostKingMask (by decide)]
  -- the flag masks are the single bits at the flag shifts
  rw [show enPassantAttackTrueMask = 2^enPassantAttackShift by decide,
    show castleMoveTrueMask = 2^castleMoveShift by decide,
    show halfmoveResetMask = 2^halfmoveResetShift by decide,
    show oppLostQueenMask = 2^oppLostQueenShift by decide,
    show oppLostKingMask = 2^oppLostKingShift by decide,
    show selfLostQueenMask = 2^selfLostQueenShift by decide,
    show selfLostKingMask = 2^selfLostKingShift by decide]
  have b1 := bool_toNat_lt f.selfLostKing
  have b2 := bool_toNat_lt f.selfLostQueen
  have b3 := bool_toNat_lt f.oppLostKing
  have b4 := bool_toNat_lt f.oppLostQueen
  have b5 := bool_toNat_lt f.castle
  have b6 := bool_toNat_lt f.enPassant
  have b7 := bool_toNat_lt f.halfmoveReset
  unfold packNat
  generalize f.selfLostKing.toNat = k1 at *
  generalize f.selfLostQueen.toNat = k2 at *
  generalize f.oppLostKing.toNat = k3 at *
  generalize f.oppLostQueen.toNat = k4 at *
  generalize f.castle.toNat = k5 at *
  generalize f.enPassant.toNat = k6 at *
  generalize f.halfmoveReset.toNat = k7 at *
  -- reorder the ORs by ascending shift
  have reorder : ∀ a0 a1 a2 a3 a4 a5 a6 a7 a8 a9 a10 a11 a12 a13 a14 a15 : Nat,
      (UInt64.toNat 0 ||| a7 ||| a13 ||| a0 ||| a1 ||| a8 ||| a9 ||| a6 ||| a11 ||| a12 ||| a14 ||| a15 ||| a10
        ||| a5 ||| a4 ||| a3 ||| a2) =
      (a0 ||| a1 ||| a2 ||| a3 ||| a4 ||| a5 ||| a6 ||| a7 ||| a8 ||| a9 ||| a10 ||| a11 ||| a12 ||| a13
        ||| a14 ||| a15) := by
    intros
    simp only [UInt64.toNat_zero, Nat.zero_or]
    ac_rfl
  rw [reorder]
  unfold pieceMovedShift pieceAttackedShift selfLostKingShift selfLostQueenShift oppLostKingShift
    oppLostQueenShift castleMoveShift enPassantAttackShift sourceSquareShift targetSquareShift
    halfmoveResetShift previousHalfmoveShift previousEnPassantShift nextEnPassantShift promotionPieceShift
    sideToMoveShift
  simp (disch := omega) only [or_shl_eq_add]

theorem bool_of_toNat (b : Bool) (n : Nat) (h : n = b.toNat) : (n != 0) = b := by
  subst h; cases b <;> rfl

/-- **every getter returns what its setter stored when the value fits its field** -/
theorem decode_encode {f : MoveF} (h : FieldsFit f) : decode (encode f) = f := by
  have hN := encode_toNat h
  obtain ⟨h1, h2, h3, h4, h5, h6, h7, h8, h9⟩ := h
  have b1 := bool_toNat_lt f.selfLostKing
  have b2 := bool_toNat_lt f.selfLostQueen
  have b3 := bool_toNat_lt f.oppLostKing
  have b4 := bool_toNat_lt f.oppLostQueen
  have b5 := bool_toNat_lt f.castle
  have b6 := bool_toNat_lt f.enPassant
  have b7 := bool_toNat_lt f.halfmoveReset
  unfold packNat pieceMovedShift pieceAttackedShift selfLostKingShift selfLostQueenShift oppLostKingShift
    oppLostQueenShift castleMoveShift enPassantAttackShift sourceSquareShift targetSquareShift
    halfmoveResetShift previousHalfmoveShift previousEnPassantShift nextEnPassantShift promotionPieceShift
    sideToMoveShift at hN
  have e1 : field (encode f) pieceMovedMask pieceMovedShift = f.pieceMoved := by
    rw [field_eq _ _ _ 3 (by decide) (by decide) (by decide), hN]; unfold pieceMovedShift; omega
  have e2 : field (encode f) pieceAttackedMask pieceAttackedShift = f.pieceAttacked := by
    rw [field_eq _ _ _ 3 (by decide) (by decide) (by decide), hN]; unfold pieceAttackedShift; omega
  have e3 : field (encode f) selfLostKingMask selfLostKingShift = f.selfLostKing.toNat := by
    rw [field_eq _ _ _ 1 (by decide) (by decide) (by decide), hN]; unfold selfLostKingShift; omega
  have e4 : field (encode f) selfLostQueenMask selfLostQueenShift = f.selfLostQueen.toNat := by
    rw [field_eq _ _ _ 1 (by decide) (by decide) (by decide), hN]; unfold selfLostQueenShift; omega
  have e5 : field (encode f) oppLostKingMask oppLostKingShift = f.oppLostKing.toNat := by
    rw [field_eq _ _ _ 1 (by decide) (by decide) (by decide), hN]; unfold oppLostKingShift; omega
  have e6 : field (encode f) oppLostQueenMask oppLostQueenShift = f.oppLostQueen.toNat := by
    rw [field_eq _ _ _ 1 (by decide) (by decide) (by decide), hN]; unfold oppLostQueenShift; omega
  have e7 : field (encode f) castleMoveMask castleMoveShift = f.castle.toNat := by
    rw [field_eq _ _ _ 1 (by decide) (by decide) (by decide), hN]; unfold castleMoveShift; omega
  have e8 : field (encode f) enPassantAttackMask enPassantAttackShift = f.enPassant.toNat := by
    rw [field_eq _ _ _ 1 (by decide) (by decide) (by decide), hN]; unfold enPassantAttackShift; omega
  have e9 : field (encode f) sourceSquareMask sourceSquareShift = f.source := by
    rw [field_eq _ _ _ 6 (by decide) (by decide) (by decide), hN]; unfold sourceSquareShift; omega
  have e10 : field (encode f) targetSquareMask targetSquareShift = f.target := by
    rw [field_eq _ _ _ 6 (by decide) (by decide) (by decide), hN]; unfold targetSquareShift; omega
  have e11 : field (encode f) halfmoveResetMask halfmoveResetShift = f.halfmoveReset.toNat := by
    rw [field_eq _ _ _ 1 (by decide) (by decide) (by decide), hN]; unfold halfmoveResetShift; omega
  have e12 : field (encode f) previousHalfmoveMask previousHalfmoveShift = f.prevHalfmove := by
    rw [field_eq _ _ _ 12 (by decide) (by decide) (by decide), hN]; unfold previousHalfmoveShift; omega
  have e13 : field (encode f) previousEnPassantMask previousEnPassantShift = f.prevEp := by
    rw [field_eq _ _ _ 6 (by decide) (by decide) (by decide), hN]; unfold previousEnPassantShift; omega
  have e14 : field (encode f) nextEnPassantMask nextEnPassantShift = f.nextEp := by
    rw [field_eq _ _ _ 6 (by decide) (by decide) (by decide), hN]; unfold nextEnPassantShift; omega
  have e15 : field (encode f) promotionPieceMask promotionPieceShift = f.promotion := by
    rw [field_eq _ _ _ 3 (by decide) (by decide) (by decide), hN]; unfold promotionPieceShift; omega
  have e16 : field (encode f) sideToMoveMask sideToMoveShift = f.side := by
    rw [field_eq _ _ _ 1 (by decide) (by decide) (by decide), hN]; unfold sideToMoveShift; omega
  unfold decode
  rw [e1, e2, bool_of_toNat _ _ e3, bool_of_toNat _ _ e4, bool_of_toNat _ _ e5, bool_of_toNat _ _ e6,
    bool_of_toNat _ _ e7, bool_of_toNat _ _ e8, e9, e10, bool_of_toNat _ _ e11, e12, e13, e14, e15, e16]

/-- packing is injective on moves whose values fit their fields -/
theorem encode_injective_on_fit {f g : MoveF} (hf : FieldsFit f) (hg : FieldsFit g)
    (h : encode f = encode g) : f = g := by
  rw [← decode_encode hf, ← decode_encode hg, h]


#print axioms decode_encode
#print axioms encode_injective_on_fit

end Inkayaku.MoveBits
