import Inkayaku.Proofs.GenStrong
import Inkayaku.Proofs.BoardCongr
import Inkayaku.Proofs.Check
/-!
# WF step: a generated move that passes `isValid` leads to a well-formed board (H2')

`WfP b` is `WF.wf b = true` as a record of its fourteen conjuncts.
-/
namespace Inkayaku.MakeWf
open Inkayaku.Board Inkayaku.Gen Inkayaku.WF Inkayaku.GenStrong
open Inkayaku.GenOK (u64_eq_iff testU_iff_has testU_false_iff_lacks)
open Inkayaku.MakeUnmake (has lacks)

/-- the e.p. conjunct of `wf` -/
def epOK (b : Board) : Bool :=
  b.ep == 0 ||
    (let full := b.white.full ||| b.black.full
     if b.turn == 0 then
       b.ep / 8 == 2 && testU b.black.pawns (b.ep + 8) && !testU full b.ep && !testU full (b.ep - 8)
     else
       b.ep / 8 == 5 && testU b.white.pawns (b.ep - 8) && !testU full b.ep && !testU full (b.ep + 8))

/-- the conjuncts of `WF.wf` -/
structure WfP (b : Board) : Prop where
  disj : disjointAll [b.white.pawns, b.white.knights, b.white.bishops, b.white.rooks, b.white.queens, b.white.kings,
    b.black.pawns, b.black.knights, b.black.bishops, b.black.rooks, b.black.queens, b.black.kings] = true
  wk : popcount b.white.kings = 1
  bk : popcount b.black.kings = 1
  pawns : (b.white.pawns ||| b.black.pawns) &&& rank18U = 0
  turn : b.turn ≤ 1
  valid : isValid b = true
  wks : (!b.white.ks || (testU b.white.kings E1 && testU b.white.rooks H1)) = true
  wqs : (!b.white.qs || (testU b.white.kings E1 && testU b.white.rooks A1)) = true
  bks : (!b.black.ks || (testU b.black.kings E8 && testU b.black.rooks H8)) = true
  bqs : (!b.black.qs || (testU b.black.kings E8 && testU b.black.rooks A8)) = true
  ep : epOK b = true
  fm1 : 1 ≤ b.fullmove
  fm2 : b.fullmove < 2147483648
  hm : b.halfmove ≤ 4095

theorem wf_iff (b : Board) : wf b = true ↔ WfP b := by
  unfold wf
  simp only [Bool.and_eq_true, decide_eq_true_eq, beq_iff_eq]
  constructor
  · rintro ⟨⟨⟨⟨⟨⟨⟨⟨⟨⟨⟨⟨⟨c1, c2⟩, c3⟩, c4⟩, c5⟩, c6⟩, c7⟩, c8⟩, c9⟩, c10⟩, c11⟩, c12⟩, c13⟩, c14⟩
    refine ⟨c1, c2, c3, c4, c5, c6, c7, c8, c9, c10, ?_, c12, c13, c14⟩
    unfold epOK; simp only [beq_iff_eq]; exact c11
  · rintro ⟨c1, c2, c3, c4, c5, c6, c7, c8, c9, c10, c11, c12, c13, c14⟩
    unfold epOK at c11; simp only [beq_iff_eq] at c11
    exact ⟨⟨⟨⟨⟨⟨⟨⟨⟨⟨⟨⟨⟨c1, c2⟩, c3⟩, c4⟩, c5⟩, c6⟩, c7⟩, c8⟩, c9⟩, c10⟩, c11⟩, c12⟩, c13⟩, c14⟩

/-! ## bits -/

theorem testU_eq_getLsbD (x : UInt64) (t : Nat) : testU x t = x.toBitVec.getLsbD t := rfl

theorem testU_not (x : UInt64) (t : Nat) (ht : t < 64) : testU (~~~x) t = !testU x t := by
  simp only [testU_eq_getLsbD, UInt64.toBitVec_not, BitVec.getLsbD_not, ht, decide_true, Bool.true_and]

theorem testU_clearBit (x m : UInt64) (t : Nat) (ht : t < 64) : testU (clearBit x m) t = (testU x t && !testU m t) := by
  unfold clearBit
  rw [Bits.testU_and, testU_not _ _ ht]

theorem eq_of_testU {x y : UInt64} (h : ∀ t, t < 64 → testU x t = testU y t) : x = y :=
  u64_eq_iff.mpr (fun i hi => h i hi)

theorem has_iff_testU {x : UInt64} {s : Nat} (hs : s < 64) : has x (bitU s) ↔ testU x s = true :=
  (testU_iff_has hs).symm

theorem lacks_iff_testU {x : UInt64} {s : Nat} (hs : s < 64) : lacks x (bitU s) ↔ testU x s = false :=
  (testU_false_iff_lacks hs).symm

/-! ## `Side.get` / `Side.set` -/

theorem get_set (s : Side) (p : Nat) (v : UInt64) {q : Nat} (h1 : 1 ≤ q) (h6 : q ≤ 6) :
    (s.set p v).get q = if q = p then v else s.get q := by
  have hq : q = 1 ∨ q = 2 ∨ q = 3 ∨ q = 4 ∨ q = 5 ∨ q = 6 := by omega
  rcases p with _|_|_|_|_|_|_|p <;> rcases hq with rfl|rfl|rfl|rfl|rfl|rfl <;> simp [Side.set, Side.get]

theorem testU_full (s : Side) (t : Nat) :
    testU s.full t = (testU (s.get 1) t || testU (s.get 2) t || testU (s.get 3) t || testU (s.get 4) t ||
      testU (s.get 5) t || testU (s.get 6) t) := by
  simp only [Side.full, Side.get, Bits.testU_or]
  cases testU s.pawns t <;> cases testU s.knights t <;> cases testU s.bishops t <;> cases testU s.rooks t <;>
    cases testU s.queens t <;> cases testU s.kings t <;> rfl

theorem get_false_of_full {s : Side} {t : Nat} (h : testU s.full t = false) {q : Nat} (h1 : 1 ≤ q) (h6 : q ≤ 6) :
    testU (s.get q) t = false := by
  rw [testU_full] at h
  have hq : q = 1 ∨ q = 2 ∨ q = 3 ∨ q = 4 ∨ q = 5 ∨ q = 6 := by omega
  rcases hq with rfl|rfl|rfl|rfl|rfl|rfl <;> simp_all

theorem full_of_get {s : Side} {t q : Nat} (h1 : 1 ≤ q) (h6 : q ≤ 6) (h : testU (s.get q) t = true) :
    testU s.full t = true := by
  cases hf : testU s.full t
  · rw [get_false_of_full hf h1 h6] at h; cases h
  · rfl

/-! ## pairwise disjoint piece words, and updates of a side described square by square -/

/-- the six piece words of a side are pairwise disjoint -/
def SD (s : Side) : Prop :=
  ∀ q q', 1 ≤ q → q ≤ 6 → 1 ≤ q' → q' ≤ 6 → q ≠ q' → ∀ t, t < 64 → ¬ (testU (s.get q) t = true ∧ testU (s.get q') t = true)

/-- no square holds pieces of both sides -/
def Cross (a p : Side) : Prop :=
  ∀ q q', 1 ≤ q → q ≤ 6 → 1 ≤ q' → q' ≤ 6 → ∀ t, t < 64 → ¬ (testU (a.get q) t = true ∧ testU (p.get q') t = true)

/-- `s'` is `s` with the (piece, square) pairs of `R` removed and those of `Ad` added -/
def Upd (s s' : Side) (R Ad : Nat → Nat → Bool) : Prop :=
  ∀ q, 1 ≤ q → q ≤ 6 → ∀ t, t < 64 → testU (s'.get q) t = ((testU (s.get q) t && !R q t) || Ad q t)

/-- nothing is added -/
def noAdd : Nat → Nat → Bool := fun _ _ => false

theorem Upd.sd {s s' : Side} {R Ad : Nat → Nat → Bool} (hu : Upd s s' R Ad) (hs : SD s)
    (hadd : ∀ q t, Ad q t = true → ∀ q', 1 ≤ q' → q' ≤ 6 → q' ≠ q →
      (testU (s.get q') t = false ∨ R q' t = true) ∧ Ad q' t = false) : SD s' := by
  intro q q' h1 h6 h1' h6' hne t ht ⟨hb, hb'⟩
  rw [hu q h1 h6 t ht] at hb
  rw [hu q' h1' h6' t ht] at hb'
  cases ha : Ad q t
  · cases ha' : Ad q' t
    · rw [ha, Bool.or_false, Bool.and_eq_true] at hb
      rw [ha', Bool.or_false, Bool.and_eq_true] at hb'
      exact hs q q' h1 h6 h1' h6' hne t ht ⟨hb.1, hb'.1⟩
    · obtain ⟨h2, h3⟩ := hadd q' t ha' q h1 h6 hne
      rw [h3, Bool.or_false, Bool.and_eq_true] at hb
      rcases h2 with h2 | h2
      · rw [h2] at hb; exact absurd hb.1 (by decide)
      · rw [h2] at hb; exact absurd hb.2 (by decide)
  · obtain ⟨h2, h3⟩ := hadd q t ha q' h1' h6' (Ne.symm hne)
    rw [h3, Bool.or_false, Bool.and_eq_true] at hb'
    rcases h2 with h2 | h2
    · rw [h2] at hb'; exact absurd hb'.1 (by decide)
    · rw [h2] at hb'; exact absurd hb'.2 (by decide)

theorem Upd.cross {a a' p p' : Side} {R Ad R' : Nat → Nat → Bool} (hu : Upd a a' R Ad) (hu' : Upd p p' R' noAdd)
    (hc : Cross a p)
    (hadd : ∀ q t, Ad q t = true → ∀ q', 1 ≤ q' → q' ≤ 6 → testU (p.get q') t = false ∨ R' q' t = true) :
    Cross a' p' := by
  intro q q' h1 h6 h1' h6' t ht ⟨hb, hb'⟩
  rw [hu q h1 h6 t ht] at hb
  rw [hu' q' h1' h6' t ht] at hb'
  simp only [noAdd, Bool.or_false, Bool.and_eq_true] at hb'
  cases ha : Ad q t
  · rw [ha, Bool.or_false, Bool.and_eq_true] at hb
    exact hc q q' h1 h6 h1' h6' t ht ⟨hb.1, hb'.1⟩
  · rcases hadd q t ha q' h1' h6' with h2 | h2
    · rw [h2] at hb'; exact absurd hb'.1 (by decide)
    · rw [h2] at hb'; exact absurd hb'.2 (by decide)

/-- a word of the updated side has no bit the old side did not have, except the added ones -/
theorem Upd.sub {s s' : Side} {R Ad : Nat → Nat → Bool} (hu : Upd s s' R Ad) {q t : Nat} (h1 : 1 ≤ q) (h6 : q ≤ 6)
    (ht : t < 64) (hb : testU (s'.get q) t = true) (ha : Ad q t = false) : testU (s.get q) t = true ∧ R q t = false := by
  rw [hu q h1 h6 t ht, ha, Bool.or_false, Bool.and_eq_true] at hb
  exact ⟨hb.1, by simpa using hb.2⟩

/-- a bit that is not removed stays -/
theorem Upd.keep {s s' : Side} {R Ad : Nat → Nat → Bool} (hu : Upd s s' R Ad) {q t : Nat} (h1 : 1 ≤ q) (h6 : q ≤ 6)
    (ht : t < 64) (hb : testU (s.get q) t = true) (hr : R q t = false) : testU (s'.get q) t = true := by
  rw [hu q h1 h6 t ht, hb, hr]; rfl

/-! ## link with `disjointAll` -/

open Inkayaku.Attack (Excl sideWords)

theorem go_complete (acc : UInt64) (xs : List UInt64)
    (h : ∀ t, (∀ x ∈ xs, Excl t acc x) ∧ xs.Pairwise (Excl t)) : disjointAll.go acc xs = true := by
  induction xs generalizing acc with
  | nil => rfl
  | cons x rest ih =>
    simp only [disjointAll.go, Bool.and_eq_true, beq_iff_eq]
    refine ⟨?_, ?_⟩
    · rw [Bits.and_eq_zero_iff]
      intro t _ hb
      exact (h t).1 x (List.mem_cons_self ..) hb
    · apply ih
      intro t
      obtain ⟨h1, h2⟩ := h t
      rw [List.pairwise_cons] at h2
      refine ⟨?_, h2.2⟩
      intro y hy hb
      rw [Bits.testU_or, Bool.or_eq_true] at hb
      rcases hb.1 with hb1 | hb1
      · exact h1 y (List.mem_cons_of_mem _ hy) ⟨hb1, hb.2⟩
      · exact h2.1 y hy ⟨hb1, hb.2⟩

theorem mem_sideWords {s : Side} {x : UInt64} (h : x ∈ sideWords s) : ∃ q, 1 ≤ q ∧ q ≤ 6 ∧ x = s.get q := by
  simp only [sideWords, List.mem_cons, List.not_mem_nil, or_false] at h
  rcases h with rfl|rfl|rfl|rfl|rfl|rfl
  · exact ⟨1, by decide, by decide, rfl⟩
  · exact ⟨2, by decide, by decide, rfl⟩
  · exact ⟨3, by decide, by decide, rfl⟩
  · exact ⟨4, by decide, by decide, rfl⟩
  · exact ⟨5, by decide, by decide, rfl⟩
  · exact ⟨6, by decide, by decide, rfl⟩

theorem get_mem_sideWords (s : Side) {q : Nat} (h1 : 1 ≤ q) (h6 : q ≤ 6) : s.get q ∈ sideWords s := by
  have hq : q = 1 ∨ q = 2 ∨ q = 3 ∨ q = 4 ∨ q = 5 ∨ q = 6 := by omega
  rcases hq with rfl|rfl|rfl|rfl|rfl|rfl <;> simp [sideWords, Side.get]

theorem excl_of_ge {t : Nat} (ht : ¬ t < 64) (x y : UInt64) : Excl t x y := by
  intro hb; exact ht (Bits.testU_lt hb.1)

theorem sw_length (s : Side) : (sideWords s).length = 6 := rfl

theorem sw_get (s : Side) (i : Nat) (hi : i < (sideWords s).length) : (sideWords s)[i] = s.get (i + 1) := by
  have hi' : i < 6 := hi
  have : i = 0 ∨ i = 1 ∨ i = 2 ∨ i = 3 ∨ i = 4 ∨ i = 5 := by omega
  rcases this with rfl|rfl|rfl|rfl|rfl|rfl <;> rfl

theorem pairwise_of_sd {s : Side} (h : SD s) (t : Nat) : (sideWords s).Pairwise (Excl t) := by
  rw [List.pairwise_iff_getElem]
  intro i j hi hj hij
  rw [sw_get, sw_get]
  have hj' : j < 6 := hj
  by_cases ht : t < 64
  · exact h (i + 1) (j + 1) (by omega) (by omega) (by omega) (by omega) (by omega) t ht
  · exact excl_of_ge ht _ _

theorem sd_of_pairwise {s : Side} (h : ∀ t, (sideWords s).Pairwise (Excl t)) : SD s := by
  intro q q' h1 h6 h1' h6' hne t _ hb
  have hp := List.pairwise_iff_getElem.mp (h t)
  rcases Nat.lt_or_gt_of_ne hne with hlt | hlt
  · have := hp (q - 1) (q' - 1) (by rw [sw_length]; omega) (by rw [sw_length]; omega) (by omega)
    rw [sw_get, sw_get, show q - 1 + 1 = q by omega, show q' - 1 + 1 = q' by omega] at this
    exact this hb
  · have := hp (q' - 1) (q - 1) (by rw [sw_length]; omega) (by rw [sw_length]; omega) (by omega)
    rw [sw_get, sw_get, show q - 1 + 1 = q by omega, show q' - 1 + 1 = q' by omega] at this
    exact this ⟨hb.2, hb.1⟩

/-- the first conjunct of `wf`, side by side -/
theorem disj_iff (w k : Side) :
    disjointAll [w.pawns, w.knights, w.bishops, w.rooks, w.queens, w.kings,
      k.pawns, k.knights, k.bishops, k.rooks, k.queens, k.kings] = true ↔ SD w ∧ SD k ∧ Cross w k := by
  have hl : [w.pawns, w.knights, w.bishops, w.rooks, w.queens, w.kings,
      k.pawns, k.knights, k.bishops, k.rooks, k.queens, k.kings] = sideWords w ++ sideWords k := rfl
  rw [hl]
  constructor
  · intro h
    have hp := fun t => (Attack.go_spec 0 _ h t).2
    refine ⟨sd_of_pairwise (fun t => (List.pairwise_append.mp (hp t)).1),
      sd_of_pairwise (fun t => (List.pairwise_append.mp (hp t)).2.1), ?_⟩
    intro q q' h1 h6 h1' h6' t _
    exact (List.pairwise_append.mp (hp t)).2.2 _ (get_mem_sideWords w h1 h6) _ (get_mem_sideWords k h1' h6')
  · rintro ⟨hw, hk, hc⟩
    apply go_complete
    intro t
    refine ⟨fun x _ hb => ?_, ?_⟩
    · rw [Bits.testU_zero] at hb; exact absurd hb.1 (by decide)
    · rw [List.pairwise_append]
      refine ⟨pairwise_of_sd hw t, pairwise_of_sd hk t, ?_⟩
      intro a ha b hb
      obtain ⟨q, h1, h6, rfl⟩ := mem_sideWords ha
      obtain ⟨q', h1', h6', rfl⟩ := mem_sideWords hb
      by_cases ht : t < 64
      · exact hc q q' h1 h6 h1' h6' t ht
      · exact excl_of_ge ht _ _

theorem Cross.symm {a p : Side} (h : Cross a p) : Cross p a :=
  fun q q' h1 h6 h1' h6' t ht hb => h q' q h1' h6' h1 h6 t ht ⟨hb.2, hb.1⟩

/-! ## what `make` does to the two sides, as updates -/

open Inkayaku.BoardCongr (mkMover mkOther dropRights epVictim)

theorem get_rights (s : Side) (a b : Bool) (q : Nat) : (dropRights s a b).get q = s.get q := by
  unfold dropRights
  rcases q with _|_|_|_|_|_|_|q <;> rfl

theorem dec_comm (a b : Nat) : decide (a = b) = (b == a) := by
  by_cases h : a = b
  · subst h; simp
  · have h' : ¬ b = a := fun e => h e.symm
    simp [h, h']

theorem testU_move (x : UInt64) {S T t : Nat} (hS : S < 64) (hT : T < 64) (ht : t < 64) :
    testU (clearBit x (bitU S) ||| bitU T) t = ((testU x t && !(t == S)) || (t == T)) := by
  rw [Bits.testU_or, testU_clearBit _ _ _ ht, Bits.testU_bitU _ _ hS, Bits.testU_bitU _ _ hT, dec_comm, dec_comm]

theorem testU_add (x : UInt64) {T t : Nat} (hT : T < 64) :
    testU (x ||| bitU T) t = (testU x t || (t == T)) := by
  rw [Bits.testU_or, Bits.testU_bitU _ _ hT, dec_comm]

theorem testU_remove (x : UInt64) {S t : Nat} (hS : S < 64) (ht : t < 64) :
    testU (clearBit x (bitU S)) t = (testU x t && !(t == S)) := by
  rw [testU_clearBit _ _ _ ht, Bits.testU_bitU _ _ hS, dec_comm]

/-- (piece, square) pairs the mover loses -/
def remA (f : MoveF) : Nat → Nat → Bool := fun q t =>
  if f.castle then
    (match castleRook f.target with
     | some (rs, _) => (q == KING && t == f.source) || (q == ROOK && t == rs)
     | none => false)
  else if f.enPassant then q == PAWN && t == f.source
  else if f.promotion != NO_PIECE then q == PAWN && t == f.source
  else q == f.pieceMoved && t == f.source

/-- (piece, square) pairs the mover gains -/
def addA (f : MoveF) : Nat → Nat → Bool := fun q t =>
  if f.castle then
    (match castleRook f.target with
     | some (_, rt) => (q == KING && t == f.target) || (q == ROOK && t == rt)
     | none => false)
  else if f.enPassant then q == PAWN && t == f.target
  else if f.promotion != NO_PIECE then q == f.promotion && t == f.target
  else q == f.pieceMoved && t == f.target

theorem mkMover_upd (f : MoveF) (s : Side) (hs : f.source < 64) (ht : f.target < 64)
    (hp : f.castle = false → f.enPassant = false → (f.promotion != NO_PIECE) = true → 2 ≤ f.promotion ∧ f.promotion ≤ 5)
    (hc : f.castle = true → ∃ rs rt, castleRook f.target = some (rs, rt) ∧ rs < 64 ∧ rt < 64) :
    Upd s (mkMover f s) (remA f) (addA f) := by
  intro q h1 h6 t ht'
  unfold mkMover remA addA
  simp only
  cases hca : f.castle
  · cases hep : f.enPassant
    · cases hpr : (f.promotion != NO_PIECE)
      · simp only [Bool.false_eq_true, if_false]
        rw [get_set _ _ _ h1 h6]
        by_cases hq : q = f.pieceMoved
        · rw [if_pos hq, get_rights, testU_move _ hs ht ht', hq]; simp
        · rw [if_neg hq, get_rights]
          have e : (q == f.pieceMoved) = false := by simpa using hq
          simp [e]
      · obtain ⟨hp2, hp5⟩ := hp hca hep hpr
        simp only [Bool.false_eq_true, if_false, if_true]
        rw [get_set _ _ _ h1 h6]
        by_cases hq : q = f.promotion
        · rw [if_pos hq]
          have hne : f.promotion ≠ PAWN := by unfold PAWN; omega
          have hg : ({ dropRights s f.selfLostKing f.selfLostQueen with
              pawns := clearBit (dropRights s f.selfLostKing f.selfLostQueen).pawns (bitU f.source) } : Side).get f.promotion
              = s.get f.promotion := by
            have : f.promotion = 2 ∨ f.promotion = 3 ∨ f.promotion = 4 ∨ f.promotion = 5 := by omega
            rcases this with h | h | h | h <;> rw [h] <;> rfl
          rw [hg, testU_add _ ht, hq]
          have : (f.promotion == PAWN) = false := by simpa using hne
          simp [this]
        · rw [if_neg hq]
          by_cases hq1 : q = PAWN
          · subst hq1
            show testU (clearBit (dropRights s f.selfLostKing f.selfLostQueen).pawns (bitU f.source)) t = _
            rw [testU_remove _ hs ht']
            have : (PAWN == f.promotion) = false := by simpa using hq
            simp [this]; rfl
          · have hg : ({ dropRights s f.selfLostKing f.selfLostQueen with
                pawns := clearBit (dropRights s f.selfLostKing f.selfLostQueen).pawns (bitU f.source) } : Side).get q
                = s.get q := by
              have : q = 2 ∨ q = 3 ∨ q = 4 ∨ q = 5 ∨ q = 6 := by unfold PAWN at hq1; omega
              rcases this with rfl | rfl | rfl | rfl | rfl <;> rfl
            rw [hg]
            have e1 : (q == PAWN) = false := by simpa using hq1
            have e2 : (q == f.promotion) = false := by simpa using hq
            simp [e1, e2]
    · simp only [Bool.false_eq_true, if_false, if_true]
      by_cases hq1 : q = PAWN
      · subst hq1
        show testU (clearBit (dropRights s f.selfLostKing f.selfLostQueen).pawns (bitU f.source) ||| bitU f.target) t = _
        rw [testU_move _ hs ht ht']
        simp; rfl
      · have hg : ({ dropRights s f.selfLostKing f.selfLostQueen with
            pawns := clearBit (dropRights s f.selfLostKing f.selfLostQueen).pawns (bitU f.source) ||| bitU f.target } : Side).get q
            = s.get q := by
          have : q = 2 ∨ q = 3 ∨ q = 4 ∨ q = 5 ∨ q = 6 := by unfold PAWN at hq1; omega
          rcases this with rfl | rfl | rfl | rfl | rfl <;> rfl
        rw [hg]
        have e1 : (q == PAWN) = false := by simpa using hq1
        simp [e1]
  · obtain ⟨rs, rt, hcr, hrs, hrt⟩ := hc hca
    simp only [if_true, hcr]
    have hq : q = 1 ∨ q = 2 ∨ q = 3 ∨ q = 4 ∨ q = 5 ∨ q = 6 := by omega
    rcases hq with rfl|rfl|rfl|rfl|rfl|rfl
    · simp [Side.get, dropRights, KING, ROOK]
    · simp [Side.get, dropRights, KING, ROOK]
    · simp [Side.get, dropRights, KING, ROOK]
    · show testU (clearBit (dropRights s f.selfLostKing f.selfLostQueen).rooks (bitU rs) ||| bitU rt) t = _
      rw [testU_move _ hrs hrt ht']
      simp [KING, ROOK]; rfl
    · simp [Side.get, dropRights, KING, ROOK]
    · show testU (clearBit (dropRights s f.selfLostKing f.selfLostQueen).kings (bitU f.source) ||| bitU f.target) t = _
      rw [testU_move _ hs ht ht']
      simp [KING, ROOK]; rfl

/-- (piece, square) pairs the other side loses -/
def remP (f : MoveF) (white : Bool) : Nat → Nat → Bool := fun q t =>
  if f.castle then false
  else if f.enPassant then q == PAWN && t == (if white then f.target + 8 else f.target - 8)
  else q == f.pieceAttacked && t == f.target

theorem mkOther_upd (f : MoveF) (white : Bool) (s : Side) (ht : f.target < 64)
    (hep : f.castle = false → f.enPassant = true → if white then f.target + 8 < 64 else 8 ≤ f.target) :
    Upd s (mkOther f white s) (remP f white) noAdd := by
  intro q h1 h6 t ht'
  unfold mkOther remP noAdd
  simp only [Bool.or_false]
  cases hca : f.castle
  · cases hepf : f.enPassant
    · simp only [Bool.false_eq_true, if_false]
      rw [get_set _ _ _ h1 h6]
      by_cases hq : q = f.pieceAttacked
      · rw [if_pos hq, get_rights, testU_remove _ ht ht', hq]; simp
      · rw [if_neg hq, get_rights]
        have e : (q == f.pieceAttacked) = false := by simpa using hq
        simp [e]
    · have hv := hep hca hepf
      simp only [Bool.false_eq_true, if_false, if_true]
      have hvic : epVictim white (bitU f.target) = bitU (if white then f.target + 8 else f.target - 8) ∧
          (if white then f.target + 8 else f.target - 8) < 64 := by
        unfold epVictim
        cases white
        · simp only [Bool.false_eq_true, if_false] at hv ⊢
          exact ⟨GenOK.shr8 _ ht hv, by omega⟩
        · simp only [if_true] at hv ⊢
          exact ⟨GenOK.shl8 _ (by omega), hv⟩
      by_cases hq1 : q = PAWN
      · subst hq1
        show testU (clearBit (dropRights s f.oppLostKing f.oppLostQueen).pawns (epVictim white (bitU f.target))) t = _
        rw [hvic.1, testU_remove _ hvic.2 ht']
        simp; rfl
      · have hg : ({ dropRights s f.oppLostKing f.oppLostQueen with
            pawns := clearBit (dropRights s f.oppLostKing f.oppLostQueen).pawns (epVictim white (bitU f.target)) } : Side).get q
            = s.get q := by
          have : q = 2 ∨ q = 3 ∨ q = 4 ∨ q = 5 ∨ q = 6 := by unfold PAWN at hq1; omega
          rcases this with rfl | rfl | rfl | rfl | rfl <;> rfl
        rw [hg]
        have e1 : (q == PAWN) = false := by simpa using hq1
        simp [e1]
  · simp only [if_true, Bool.not_false, Bool.and_true]
    exact congrArg (fun x => testU x t) (get_rights s _ _ q)

/-! ## the position before the move, seen from the mover -/

theorem sides_of_turn (b : Board) (ht : b.turn ≤ 1) :
    (b.whiteTurn = true ∧ b.turn = 0 ∧ b.active = b.white ∧ b.passive = b.black) ∨
    (b.whiteTurn = false ∧ b.turn = 1 ∧ b.active = b.black ∧ b.passive = b.white) := by
  have : b.turn = 0 ∨ b.turn = 1 := by omega
  rcases this with h | h
  · left; simp [Board.whiteTurn, Board.active, Board.passive, h]
  · right; simp [Board.whiteTurn, Board.active, Board.passive, h]

theorem sd_sides {b : Board} (hwf : WfP b) : SD b.active ∧ SD b.passive ∧ Cross b.active b.passive := by
  obtain ⟨hw, hk, hc⟩ := (disj_iff b.white b.black).mp hwf.disj
  rcases sides_of_turn b hwf.turn with ⟨-, -, ha, hp⟩ | ⟨-, -, ha, hp⟩
  · rw [ha, hp]; exact ⟨hw, hk, hc⟩
  · rw [ha, hp]; exact ⟨hk, hw, hc.symm⟩

theorem testU_fullOcc (b : Board) (t : Nat) :
    testU (fullOcc b) t = (testU b.active.full t || testU b.passive.full t) := by
  unfold fullOcc; rw [Bits.testU_or]

theorem fullOcc_comm (b : Board) (t : Nat) : testU (b.white.full ||| b.black.full) t = testU (fullOcc b) t := by
  rw [testU_fullOcc, Bits.testU_or]
  unfold Board.active Board.passive
  cases b.whiteTurn
  · simp [Bool.or_comm]
  · simp

/-- the e.p. conjunct of a well-formed board with an e.p. square -/
theorem ep_facts {b : Board} (hwf : WfP b) (hne : b.ep ≠ 0) :
    testU (fullOcc b) b.ep = false ∧
    (if b.turn = 0 then b.ep / 8 = 2 ∧ testU b.black.pawns (b.ep + 8) = true ∧ testU (fullOcc b) (b.ep - 8) = false
     else b.ep / 8 = 5 ∧ testU b.white.pawns (b.ep - 8) = true ∧ testU (fullOcc b) (b.ep + 8) = false) := by
  have h := hwf.ep
  unfold epOK at h
  simp only [Bool.or_eq_true, beq_iff_eq] at h
  rcases h with h | h
  · exact absurd h hne
  · simp only [fullOcc_comm] at h
    split at h
    · rename_i ht
      simp only [Bool.and_eq_true, beq_iff_eq, Bool.not_eq_true'] at h
      rw [if_pos ht]
      exact ⟨h.1.2, h.1.1.1, h.1.1.2, h.2⟩
    · rename_i ht
      simp only [Bool.and_eq_true, beq_iff_eq, Bool.not_eq_true'] at h
      rw [if_neg ht]
      exact ⟨h.1.2, h.1.1.1, h.1.1.2, h.2⟩

/-- the piece code found on a square is the word that has the bit -/
theorem pieceAt_of_bit {s : Side} (hs : SD s) {t q : Nat} (ht : t < 64) (h1 : 1 ≤ q) (h6 : q ≤ 6)
    (hb : testU (s.get q) t = true) : s.pieceAt t = q := by
  obtain ⟨e1, e2, e3, e4, e5, e6, -⟩ := Attack.pieceAt_spec s t ht (pairwise_of_sd hs t)
  have hq : q = 1 ∨ q = 2 ∨ q = 3 ∨ q = 4 ∨ q = 5 ∨ q = 6 := by omega
  rcases hq with rfl|rfl|rfl|rfl|rfl|rfl
  · exact e1.mpr hb
  · exact e2.mpr hb
  · exact e3.mpr hb
  · exact e4.mpr hb
  · exact e5.mpr hb
  · exact e6.mpr hb

/-! ## fields of the packed move -/

section
variable (b : Board) (src tgt piece : Nat) (castle ep : Bool) (promo epOpp : Nat)

@[simp] theorem mkF_castle : (mkF b src tgt piece castle ep promo epOpp).castle = castle := rfl
@[simp] theorem mkF_ep : (mkF b src tgt piece castle ep promo epOpp).enPassant = ep := rfl
@[simp] theorem mkF_promo : (mkF b src tgt piece castle ep promo epOpp).promotion = promo := rfl
@[simp] theorem mkF_piece : (mkF b src tgt piece castle ep promo epOpp).pieceMoved = piece := rfl
@[simp] theorem mkF_source : (mkF b src tgt piece castle ep promo epOpp).source = src := rfl
@[simp] theorem mkF_target : (mkF b src tgt piece castle ep promo epOpp).target = tgt := rfl
@[simp] theorem mkF_nextEp : (mkF b src tgt piece castle ep promo epOpp).nextEp = epOpp := rfl

theorem mkF_attacked (hep : ep = false) :
    (mkF b src tgt piece castle ep promo epOpp).pieceAttacked = b.passive.pieceAt tgt := by
  subst hep
  unfold mkF
  simp only [Bool.false_eq_true, if_false, Nat.add_zero, Nat.sub_zero, ite_self]

end

/-! ## (1) the piece words stay pairwise disjoint -/

theorem castleRook_spec {t rs rt : Nat} (h : castleRook t = some (rs, rt)) :
    rt ≠ t ∧ rs ≠ t ∧ rs ≠ rt ∧ rs < 64 ∧ rt < 64 ∧ t < 64 := by
  unfold castleRook at h
  split at h
  · cases h; rename_i h1; simp only [beq_iff_eq] at h1; subst h1; decide
  · split at h
    · cases h; rename_i h1; simp only [beq_iff_eq] at h1; subst h1; decide
    · split at h
      · cases h; rename_i h1; simp only [beq_iff_eq] at h1; subst h1; decide
      · split at h
        · cases h; rename_i h1; simp only [beq_iff_eq] at h1; subst h1; decide
        · cases h

/-- where a piece can be added -/
theorem addA_spec {f : MoveF} {q t : Nat} (h : addA f q t = true) :
    (f.castle = false ∧ t = f.target) ∨
    (f.castle = true ∧ ∃ rs rt, castleRook f.target = some (rs, rt) ∧
      ((q = KING ∧ t = f.target) ∨ (q = ROOK ∧ t = rt))) := by
  unfold addA at h
  cases hca : f.castle
  · left
    refine ⟨rfl, ?_⟩
    simp only [hca, Bool.false_eq_true, if_false] at h
    split at h
    · simp only [Bool.and_eq_true, beq_iff_eq] at h; exact h.2
    · split at h <;> (simp only [Bool.and_eq_true, beq_iff_eq] at h; exact h.2)
  · right
    refine ⟨rfl, ?_⟩
    simp only [hca, if_true] at h
    split at h
    · rename_i rs rt hcr
      refine ⟨rs, rt, hcr, ?_⟩
      simp only [Bool.or_eq_true, Bool.and_eq_true, beq_iff_eq] at h
      exact h
    · cases h

theorem addA_inj {f : MoveF} {q q' t : Nat} (h : addA f q t = true) (h' : addA f q' t = true) : q = q' := by
  cases hca : f.castle
  · unfold addA at h h'
    simp only [hca, Bool.false_eq_true, if_false] at h h'
    cases hep : f.enPassant <;> cases hpr : (f.promotion != NO_PIECE) <;>
      simp only [hep, hpr, Bool.false_eq_true, if_false, if_true, Bool.and_eq_true, beq_iff_eq] at h h' <;>
      rw [h.1, h'.1]
  · rcases addA_spec h with ⟨hc, -⟩ | ⟨-, rs, rt, hcr, h1⟩
    · rw [hca] at hc; cases hc
    · rcases addA_spec h' with ⟨hc, -⟩ | ⟨-, rs', rt', hcr', h2⟩
      · rw [hca] at hc; cases hc
      · rw [hcr] at hcr'; cases hcr'
        have hne := (castleRook_spec hcr).1
        rcases h1 with ⟨a, b1⟩ | ⟨a, b1⟩ <;> rcases h2 with ⟨c, d⟩ | ⟨c, d⟩
        · rw [a, c]
        · exact absurd (d.symm.trans b1) hne
        · exact absurd (b1.symm.trans d) hne
        · rw [a, c]

section
variable {b : Board} {src tgt piece : Nat} {castle ep : Bool} {promo epOpp : Nat}

/-- an added piece lands on a square that held no piece of the mover -/
theorem addA_empty (ha : ArgsOK b src tgt piece castle ep promo epOpp) {q t : Nat}
    (h : addA (mkF b src tgt piece castle ep promo epOpp) q t = true) : testU b.active.full t = false := by
  have hT : testU b.active.full tgt = false := (lacks_iff_testU ha.tgt_lt).mp ha.lacksTgt
  rcases addA_spec h with ⟨-, h2⟩ | ⟨hc, rs, rt, hcr, h2⟩
  · rw [h2]; exact hT
  · simp only [mkF_castle, mkF_target] at hc hcr
    obtain ⟨-, -, -, -, -, rs', rt', hcr', -, hrt', -, hl1, -⟩ := ha.castle_ hc
    rw [hcr] at hcr'; cases hcr'
    rcases h2 with ⟨-, h3⟩ | ⟨-, h3⟩
    · rw [h3]; exact hT
    · rw [h3]
      have := (lacks_iff_testU hrt').mp hl1
      rw [testU_fullOcc, Bool.or_eq_false_iff] at this
      exact this.1

theorem upd_mover (ha : ArgsOK b src tgt piece castle ep promo epOpp) :
    Upd b.active (mkMover (mkF b src tgt piece castle ep promo epOpp) b.active)
      (remA (mkF b src tgt piece castle ep promo epOpp)) (addA (mkF b src tgt piece castle ep promo epOpp)) := by
  apply mkMover_upd _ _ ha.src_lt ha.tgt_lt
  · intro _ _ hp
    simp only [mkF_promo] at hp ⊢
    obtain ⟨-, h2, h5, -⟩ := ha.promo_ (by simpa [NO_PIECE] using hp)
    exact ⟨h2, h5⟩
  · intro hc
    simp only [mkF_castle, mkF_target] at hc ⊢
    obtain ⟨-, -, -, -, -, rs, rt, hcr, hrs, hrt, -⟩ := ha.castle_ hc
    exact ⟨rs, rt, hcr, hrs, hrt⟩

theorem upd_other (ha : ArgsOK b src tgt piece castle ep promo epOpp) :
    Upd b.passive (mkOther (mkF b src tgt piece castle ep promo epOpp) b.whiteTurn b.passive)
      (remP (mkF b src tgt piece castle ep promo epOpp) b.whiteTurn) noAdd := by
  apply mkOther_upd _ _ _ ha.tgt_lt
  intro _ he
  simp only [mkF_ep, mkF_target] at he ⊢
  obtain ⟨-, -, -, -, -, h8, h56⟩ := ha.ep_ he
  split <;> omega

/-- **(1)** the twelve piece words of the new board are pairwise disjoint -/
theorem step_disj (hwf : WfP b) (ha : ArgsOK b src tgt piece castle ep promo epOpp) :
    SD (mkMover (mkF b src tgt piece castle ep promo epOpp) b.active) ∧
    SD (mkOther (mkF b src tgt piece castle ep promo epOpp) b.whiteTurn b.passive) ∧
    Cross (mkMover (mkF b src tgt piece castle ep promo epOpp) b.active)
      (mkOther (mkF b src tgt piece castle ep promo epOpp) b.whiteTurn b.passive) := by
  obtain ⟨hsa, hsp, hcr⟩ := sd_sides hwf
  have hua := upd_mover ha
  have hup := upd_other ha
  refine ⟨hua.sd hsa ?_, hup.sd hsp ?_, hua.cross hup hcr ?_⟩
  · intro q t hadd q' h1 h6 hne
    refine ⟨Or.inl (get_false_of_full (addA_empty ha hadd) h1 h6), ?_⟩
    cases h : addA (mkF b src tgt piece castle ep promo epOpp) q' t
    · rfl
    · exact absurd (addA_inj h hadd) hne
  · intro q t hadd; cases hadd
  · intro q t hadd q' h1 h6
    -- a passive piece on a square where the mover adds a piece is the captured one
    cases hb : testU (b.passive.get q') t
    · exact Or.inl rfl
    · right
      have ht64 : t < 64 := Bits.testU_lt hb
      rcases addA_spec hadd with ⟨hc, h2⟩ | ⟨hc, rs, rt, hcrk, h2⟩
      · simp only [mkF_castle, mkF_target] at hc h2
        subst h2
        cases hep : ep
        · -- ordinary capture: the attacked piece code is the one on the target
          unfold remP
          simp only [mkF_castle, mkF_ep, hc, Bool.false_eq_true, if_false, mkF_target,
            Bool.and_eq_true, beq_iff_eq, and_true]
          rw [mkF_attacked b src t piece false false promo epOpp rfl]
          exact (pieceAt_of_bit hsp ht64 h1 h6 hb).symm
        · -- en passant: the target square is empty
          obtain ⟨-, -, -, -, hte, h8, -⟩ := ha.ep_ hep
          have hne : b.ep ≠ 0 := by omega
          have := (ep_facts hwf hne).1
          rw [← hte, testU_fullOcc, Bool.or_eq_false_iff] at this
          rw [get_false_of_full this.2 h1 h6] at hb; cases hb
      · simp only [mkF_castle, mkF_target] at hc hcrk h2
        obtain ⟨-, -, -, -, -, rs', rt', hcr', -, hrt', -, hl1, hl2⟩ := ha.castle_ hc
        rw [hcrk] at hcr'; cases hcr'
        have he : testU (fullOcc b) t = false := by
          rcases h2 with ⟨-, h3⟩ | ⟨-, h3⟩
          · rw [h3]; exact (lacks_iff_testU ha.tgt_lt).mp hl2
          · rw [h3]; exact (lacks_iff_testU hrt').mp hl1
        rw [testU_fullOcc, Bool.or_eq_false_iff] at he
        rw [get_false_of_full he.2 h1 h6] at hb; cases hb

end

/-! ## no generated move captures the king (the side not to move is not in check) -/

open Inkayaku.Geometry in
theorem rook_sym {s t : Nat} {occ : UInt64} (hs : s < 64) (ht : t < 64)
    (h : testU (rookAttacks s occ) t = true) : testU (rookAttacks t occ) s = true := by
  obtain ⟨hl, hc⟩ := (Attack.rookAttacks_iff s t occ hs ht).mp h
  refine (Attack.rookAttacks_iff t s occ ht hs).mpr ⟨by rw [line_symm rook_symOK hs ht]; exact hl, ?_⟩
  intro q hq
  apply hc
  rw [between_symm rook_symOK ht hs hl]
  exact List.mem_reverse.mpr hq

open Inkayaku.Geometry in
theorem bishop_sym {s t : Nat} {occ : UInt64} (hs : s < 64) (ht : t < 64)
    (h : testU (bishopAttacks s occ) t = true) : testU (bishopAttacks t occ) s = true := by
  obtain ⟨hl, hc⟩ := (Attack.bishopAttacks_iff s t occ hs ht).mp h
  refine (Attack.bishopAttacks_iff t s occ ht hs).mpr ⟨by rw [line_symm bishop_symOK hs ht]; exact hl, ?_⟩
  intro q hq
  apply hc
  rw [between_symm bishop_symOK ht hs hl]
  exact List.mem_reverse.mpr hq

open Inkayaku.Geometry in
theorem knight_sym {s t : Nat} (hs : s < 64) (ht : t < 64)
    (h : testU (leaperAttacks knightTable s) t = true) : testU (leaperAttacks knightTable t) s = true := by
  rw [Attack.leaperAttacks_eq knight_tableOK s t hs ht] at h
  rw [Attack.leaperAttacks_eq knight_tableOK t s ht hs, ← rel_symm knight_relSymOK hs ht]; exact h

open Inkayaku.Geometry in
theorem king_sym {s t : Nat} (hs : s < 64) (ht : t < 64)
    (h : testU (leaperAttacks kingTable s) t = true) : testU (leaperAttacks kingTable t) s = true := by
  rw [Attack.leaperAttacks_eq king_tableOK s t hs ht] at h
  rw [Attack.leaperAttacks_eq king_tableOK t s ht hs, ← rel_symm king_relSymOK hs ht]; exact h

open Inkayaku.Geometry in
theorem pawn_sym_w {s t : Nat} (hs : s < 64) (ht : t < 64)
    (h : testU (leaperAttacks whitePawnTable s) t = true) : testU (leaperAttacks blackPawnTable t) s = true := by
  rw [Attack.leaperAttacks_eq whitePawn_tableOK s t hs ht] at h
  rw [Attack.leaperAttacks_eq blackPawn_tableOK t s ht hs, ← rel_symm pawn_relSymOK hs ht]; exact h

open Inkayaku.Geometry in
theorem pawn_sym_b {s t : Nat} (hs : s < 64) (ht : t < 64)
    (h : testU (leaperAttacks blackPawnTable s) t = true) : testU (leaperAttacks whitePawnTable t) s = true := by
  rw [Attack.leaperAttacks_eq blackPawn_tableOK s t hs ht] at h
  rw [Attack.leaperAttacks_eq whitePawn_tableOK t s ht hs, rel_symm pawn_relSymOK ht hs]; exact h

theorem tz_of_single {x : UInt64} (hp : popcount x = 1) {t : Nat} (ht : testU x t = true) : trailingZeros x = t := by
  obtain ⟨s, hs⟩ := List.length_eq_one_iff.mp hp
  have hmem : t ∈ bitsAsc x := (Bits.mem_bitsAsc x t).mpr ht
  rw [hs, List.mem_singleton] at hmem
  have hf : (List.range 64).find? (testU x) = some s := by
    rw [← List.head?_filter]
    show (bitsAsc x).head? = some s
    rw [hs]; rfl
  unfold trailingZeros
  rw [hf, hmem]; rfl

/-- if a piece of the side to move attacks the square of the other side's king, the position is not valid -/
theorem attacked_not_valid {b : Board} (hwf : WfP b) {piece src tgt : Nat} (hs : src < 64) (ht : tgt < 64)
    (hS : testU (b.active.get piece) src = true) (hK : testU b.passive.kings tgt = true)
    (hat : Attacks b piece src tgt) : isValid b = false := by
  unfold isValid
  rw [Check.inCheck_unfold]
  have hocc : ∀ x y : UInt64, x ||| y = y ||| x := fun x y => UInt64.or_comm x y
  rcases sides_of_turn b hwf.turn with ⟨hw, htn, ha, hp⟩ | ⟨hw, htn, ha, hp⟩
  · -- white to move: the black king is attacked by white
    rw [ha] at hS; rw [hp] at hK
    have htz := tz_of_single hwf.bk hK
    simp only [htn, Attack.sideOf, show ((1 - 0 : Nat) != 0) = true from rfl, show ((1 - 0 : Nat) == 0) = false from rfl,
      if_true, Bool.false_eq_true, if_false, htz]
    have hfo : fullOcc b = b.black.full ||| b.white.full := by unfold fullOcc; rw [ha, hp, hocc]
    unfold Attacks at hat
    rw [hfo, hw] at hat
    simp only [if_true] at hat
    rw [Attack.squareInCheck_eq_or]
    simp only [show ((1 - 0 : Nat) == 0) = false from rfl, Bool.false_eq_true, if_false, Bool.not_eq_false',
      Bool.or_eq_true, Bits.and_ne_zero_iff, Bits.testU_or]
    rcases hat with ⟨hk, h⟩ | ⟨hk, h⟩ | ⟨hk, h⟩ | ⟨hk, h⟩ | ⟨hk, h⟩
    · refine Or.inl (Or.inl (Or.inl (Or.inl ⟨src, hs, rook_sym hs ht h, ?_⟩)))
      rcases hk with rfl | rfl
      · exact Or.inl hS
      · exact Or.inr hS
    · refine Or.inl (Or.inl (Or.inl (Or.inr ⟨src, hs, bishop_sym hs ht h, ?_⟩)))
      rcases hk with rfl | rfl
      · exact Or.inl hS
      · exact Or.inr hS
    · subst hk; exact Or.inl (Or.inl (Or.inr ⟨src, hs, knight_sym hs ht h, hS⟩))
    · subst hk; exact Or.inr ⟨src, hs, king_sym hs ht h, hS⟩
    · subst hk; exact Or.inl (Or.inr ⟨src, hs, pawn_sym_w hs ht h, hS⟩)
  · -- black to move: the white king is attacked by black
    rw [ha] at hS; rw [hp] at hK
    have htz := tz_of_single hwf.wk hK
    simp only [htn, Attack.sideOf, show ((1 - 1 : Nat) != 0) = false from rfl, show ((1 - 1 : Nat) == 0) = true from rfl,
      if_true, Bool.false_eq_true, if_false, htz]
    have hfo : fullOcc b = b.white.full ||| b.black.full := by unfold fullOcc; rw [ha, hp, hocc]
    unfold Attacks at hat
    rw [hfo, hw] at hat
    simp only [Bool.false_eq_true, if_false] at hat
    rw [Attack.squareInCheck_eq_or]
    simp only [show ((1 - 1 : Nat) == 0) = true from rfl, if_true, Bool.not_eq_false',
      Bool.or_eq_true, Bits.and_ne_zero_iff, Bits.testU_or]
    rcases hat with ⟨hk, h⟩ | ⟨hk, h⟩ | ⟨hk, h⟩ | ⟨hk, h⟩ | ⟨hk, h⟩
    · refine Or.inl (Or.inl (Or.inl (Or.inl ⟨src, hs, rook_sym hs ht h, ?_⟩)))
      rcases hk with rfl | rfl
      · exact Or.inl hS
      · exact Or.inr hS
    · refine Or.inl (Or.inl (Or.inl (Or.inr ⟨src, hs, bishop_sym hs ht h, ?_⟩)))
      rcases hk with rfl | rfl
      · exact Or.inl hS
      · exact Or.inr hS
    · subst hk; exact Or.inl (Or.inl (Or.inr ⟨src, hs, knight_sym hs ht h, hS⟩))
    · subst hk; exact Or.inr ⟨src, hs, king_sym hs ht h, hS⟩
    · subst hk; exact Or.inl (Or.inr ⟨src, hs, pawn_sym_b hs ht h, hS⟩)

section
variable {b : Board} {src tgt piece : Nat} {castle ep : Bool} {promo epOpp : Nat}

/-- the captured piece of an en-passant capture is the pawn behind the target -/
theorem ep_victim (hwf : WfP b) (ha : ArgsOK b src tgt piece castle ep promo epOpp) (hep : ep = true) :
    (if b.whiteTurn then tgt + 8 else tgt - 8) < 64 ∧
    testU b.passive.pawns (if b.whiteTurn then tgt + 8 else tgt - 8) = true := by
  obtain ⟨-, -, -, -, hte, h8, h56⟩ := ha.ep_ hep
  have hne : b.ep ≠ 0 := by omega
  have hf := (ep_facts hwf hne).2
  rcases sides_of_turn b hwf.turn with ⟨hw, htn, -, hp⟩ | ⟨hw, htn, -, hp⟩
  · rw [if_pos htn] at hf
    rw [hw, hp, hte]; simp only [if_true]
    exact ⟨by omega, hf.2.1⟩
  · rw [if_neg (by omega)] at hf
    rw [hw, hp, hte]; simp only [Bool.false_eq_true, if_false]
    exact ⟨by omega, hf.2.1⟩

/-- **no generated move of a well-formed board captures the king** -/
theorem attacked_ne_king (hwf : WfP b) (ha : ArgsOK b src tgt piece castle ep promo epOpp) :
    (mkF b src tgt piece castle ep promo epOpp).pieceAttacked ≠ KING := by
  obtain ⟨-, hsp, -⟩ := sd_sides hwf
  cases hep : ep
  · rw [mkF_attacked b src tgt piece castle false promo epOpp rfl]
    intro hk
    have hK : testU b.passive.kings tgt = true :=
      (Attack.pieceAt_spec b.passive tgt ha.tgt_lt (pairwise_of_sd hsp tgt)).2.2.2.2.2.1.mp hk
    have hfull : testU b.passive.full tgt = true := full_of_get (q := 6) (by decide) (by decide) hK
    have hnl : ¬ lacks b.passive.full (bitU tgt) := by
      rw [lacks_iff_testU ha.tgt_lt, hfull]; decide
    cases hca : castle
    · have hat := ha.attacks hca hep hnl
      have := attacked_not_valid hwf ha.src_lt ha.tgt_lt ((has_iff_testU ha.src_lt).mp ha.hasSrc) hK hat
      rw [hwf.valid] at this; cases this
    · obtain ⟨-, -, -, -, -, rs, rt, -, -, -, -, -, hl2⟩ := ha.castle_ hca
      have := (lacks_iff_testU ha.tgt_lt).mp hl2
      rw [testU_fullOcc, Bool.or_eq_false_iff] at this
      rw [this.2] at hfull; cases hfull
  · obtain ⟨hlt, hv⟩ := ep_victim hwf ha hep
    have : (mkF b src tgt piece castle true promo epOpp).pieceAttacked =
        b.passive.pieceAt (if b.whiteTurn then tgt + 8 else tgt - 8) := by
      unfold mkF; simp only [if_true]
    rw [this, GenOK.pieceAt_pawn _ hlt ((has_iff_testU hlt).mpr hv)]
    decide

end

/-! ## (2) exactly one king per side -/

theorem filter_eq_length : ∀ s, s < 64 → ((List.range 64).filter (fun t => t == s)).length = 1 := by decide

theorem popcount_one_iff (x : UInt64) :
    popcount x = 1 ↔ ∃ s, s < 64 ∧ ∀ t, t < 64 → testU x t = (t == s) := by
  constructor
  · intro hp
    obtain ⟨s, hs⟩ := List.length_eq_one_iff.mp hp
    have hmem : ∀ t, testU x t = true ↔ t = s := by
      intro t
      rw [← Bits.mem_bitsAsc, hs, List.mem_singleton]
    refine ⟨s, Bits.testU_lt ((hmem s).mpr rfl), fun t _ => ?_⟩
    by_cases h : t = s
    · rw [(hmem t).mpr h]; simp [h]
    · have : testU x t = false := by
        cases hx : testU x t
        · rfl
        · exact absurd ((hmem t).mp hx) h
      rw [this]; simp [h]
  · rintro ⟨s, hs, h⟩
    show (bitsAsc x).length = 1
    unfold bitsAsc
    rw [List.filter_congr (q := fun t => t == s) (fun t ht => h t (List.mem_range.mp ht))]
    exact filter_eq_length s hs

section
variable {b : Board} {src tgt piece : Nat} {castle ep : Bool} {promo epOpp : Nat}

/-- how the king word of the mover changes -/
theorem king_upd (ha : ArgsOK b src tgt piece castle ep promo epOpp) :
    (testU b.active.kings src = true ∧
      ∀ t, remA (mkF b src tgt piece castle ep promo epOpp) 6 t = (t == src) ∧
           addA (mkF b src tgt piece castle ep promo epOpp) 6 t = (t == tgt)) ∨
    (∀ t, remA (mkF b src tgt piece castle ep promo epOpp) 6 t = false ∧
          addA (mkF b src tgt piece castle ep promo epOpp) 6 t = false) := by
  have hS := (has_iff_testU ha.src_lt).mp ha.hasSrc
  unfold remA addA
  simp only [mkF_castle, mkF_ep, mkF_promo, mkF_piece, mkF_source, mkF_target]
  cases hca : castle
  · cases hep : ep
    · by_cases hpr : (promo != NO_PIECE) = true
      · right; intro t
        have hp5 := (ha.promo_ (by simpa [NO_PIECE] using hpr)).2.2.1
        have : ((6 : Nat) == promo) = false := by rw [beq_eq_false_iff_ne]; omega
        simp [hpr, this, PAWN]
      · simp only [Bool.false_eq_true, if_false, hpr]
        by_cases hk : piece = KING
        · left; subst hk; exact ⟨hS, fun t => by simp [KING]⟩
        · right; intro t
          have : ((6 : Nat) == piece) = false := by
            rw [beq_eq_false_iff_ne]; exact fun e => hk e.symm
          simp [this]
    · right; intro t; simp [PAWN]
  · obtain ⟨hpk, -, -, -, -, rs, rt, hcr, -⟩ := ha.castle_ hca
    left
    rw [hpk] at hS
    exact ⟨hS, fun t => by simp [hcr, KING, ROOK]⟩

/-- **(2)** both sides still have exactly one king -/
theorem step_kings (hwf : WfP b) (ha : ArgsOK b src tgt piece castle ep promo epOpp)
    (hka : popcount b.active.kings = 1) (hkp : popcount b.passive.kings = 1) :
    popcount (mkMover (mkF b src tgt piece castle ep promo epOpp) b.active).kings = 1 ∧
    popcount (mkOther (mkF b src tgt piece castle ep promo epOpp) b.whiteTurn b.passive).kings = 1 := by
  have hua := upd_mover ha
  have hup := upd_other ha
  constructor
  · rcases king_upd ha with ⟨hsrcK, hk⟩ | hk
    · -- the king moves from src to tgt
      obtain ⟨s0, hs0, hbits⟩ := (popcount_one_iff _).mp hka
      have hs0src : src = s0 := by
        have := hbits src ha.src_lt
        rw [hsrcK] at this
        simpa using this.symm
      apply (popcount_one_iff _).mpr
      refine ⟨tgt, ha.tgt_lt, fun t ht => ?_⟩
      have := hua 6 (by decide) (by decide) t ht
      rw [(hk t).1, (hk t).2] at this
      show testU ((mkMover (mkF b src tgt piece castle ep promo epOpp) b.active).get 6) t = _
      rw [this]
      show ((testU b.active.kings t && !(t == src)) || (t == tgt)) = (t == tgt)
      rw [hbits t ht, hs0src]
      cases (t == s0) <;> cases (t == tgt) <;> rfl
    · have : (mkMover (mkF b src tgt piece castle ep promo epOpp) b.active).kings = b.active.kings := by
        apply eq_of_testU
        intro t ht
        have := hua 6 (by decide) (by decide) t ht
        rw [(hk t).1, (hk t).2] at this
        simp only [Bool.not_false, Bool.and_true, Bool.or_false] at this
        exact this
      rw [this]; exact hka
  · have hne := attacked_ne_king hwf ha
    have : (mkOther (mkF b src tgt piece castle ep promo epOpp) b.whiteTurn b.passive).kings = b.passive.kings := by
      apply eq_of_testU
      intro t ht
      have h := hup 6 (by decide) (by decide) t ht
      have hr : remP (mkF b src tgt piece castle ep promo epOpp) b.whiteTurn 6 t = false := by
        unfold remP
        simp only [mkF_castle, mkF_ep, mkF_target]
        cases castle
        · cases ep
          · simp only [Bool.false_eq_true, if_false]
            have : ((6 : Nat) == (mkF b src tgt piece false false promo epOpp).pieceAttacked) = false := by
              rw [beq_eq_false_iff_ne]; exact fun e => hne e.symm
            simp [this]
          · simp [PAWN]
        · simp
      rw [hr] at h
      simp only [noAdd, Bool.not_false, Bool.and_true, Bool.or_false] at h
      exact h
    rw [this]; exact hkp

end

/-! ## (3) no pawn on the first or last rank -/

theorem rank18_mid : ∀ t, t < 64 → 8 ≤ t → t < 56 → testU rank18U t = false := by decide

/-- no pawn of the side stands on rank 1 or 8 -/
def PawnOK (s : Side) : Prop := ∀ t, t < 64 → testU rank18U t = true → testU s.pawns t = false

theorem pawnOK_iff (w k : Side) : (w.pawns ||| k.pawns) &&& rank18U = 0 ↔ PawnOK w ∧ PawnOK k := by
  rw [Bits.and_eq_zero_iff]
  constructor
  · intro h
    constructor
    · intro t ht hr
      cases hb : testU w.pawns t
      · rfl
      · exact absurd ⟨by rw [Bits.testU_or, hb]; rfl, hr⟩ (h t ht)
    · intro t ht hr
      cases hb : testU k.pawns t
      · rfl
      · exact absurd ⟨by rw [Bits.testU_or, hb, Bool.or_true], hr⟩ (h t ht)
  · rintro ⟨hw, hk⟩ t ht ⟨h1, h2⟩
    rw [Bits.testU_or, hw t ht h2, hk t ht h2] at h1
    cases h1

section
variable {b : Board} {src tgt piece : Nat} {castle ep : Bool} {promo epOpp : Nat}

/-- a pawn is only ever added on ranks 2..7 -/
theorem addA_pawn (ha : ArgsOK b src tgt piece castle ep promo epOpp) {t : Nat}
    (h : addA (mkF b src tgt piece castle ep promo epOpp) 1 t = true) : 8 ≤ t ∧ t < 56 := by
  unfold addA at h
  simp only [mkF_castle, mkF_ep, mkF_promo, mkF_piece, mkF_target] at h
  cases hca : castle
  · cases hep : ep
    · by_cases hpr : (promo != NO_PIECE) = true
      · have hp2 := (ha.promo_ (by simpa [NO_PIECE] using hpr)).2.1
        simp only [hca, hep, hpr, Bool.false_eq_true, if_false, if_true, Bool.and_eq_true, beq_iff_eq] at h
        omega
      · simp only [hca, hep, hpr, Bool.false_eq_true, if_false, Bool.and_eq_true, beq_iff_eq] at h
        have hpz : promo = 0 := by simpa [NO_PIECE] using hpr
        rw [h.2]
        exact ha.pawnMid h.1.symm hpz
    · simp only [hca, hep, Bool.false_eq_true, if_false, if_true, Bool.and_eq_true, beq_iff_eq] at h
      obtain ⟨-, -, -, -, -, h8, h56⟩ := ha.ep_ hep
      rw [h.2]; exact ⟨h8, h56⟩
  · obtain ⟨-, -, -, -, -, rs, rt, hcr, -⟩ := ha.castle_ hca
    simp [hca, hcr, KING, ROOK] at h

/-- **(3)** no pawn on rank 1 or 8 after the move -/
theorem step_pawns (ha : ArgsOK b src tgt piece castle ep promo epOpp) (hpa : PawnOK b.active) (hpp : PawnOK b.passive) :
    PawnOK (mkMover (mkF b src tgt piece castle ep promo epOpp) b.active) ∧
    PawnOK (mkOther (mkF b src tgt piece castle ep promo epOpp) b.whiteTurn b.passive) := by
  have hua := upd_mover ha
  have hup := upd_other ha
  constructor
  · intro t ht hr
    cases hb : testU (mkMover (mkF b src tgt piece castle ep promo epOpp) b.active).pawns t
    · rfl
    · exfalso
      cases hadd : addA (mkF b src tgt piece castle ep promo epOpp) 1 t
      · have := (hua.sub (q := 1) (by decide) (by decide) ht hb hadd).1
        rw [show b.active.get 1 = b.active.pawns from rfl, hpa t ht hr] at this; cases this
      · obtain ⟨h8, h56⟩ := addA_pawn ha hadd
        rw [rank18_mid t ht h8 h56] at hr; cases hr
  · intro t ht hr
    cases hb : testU (mkOther (mkF b src tgt piece castle ep promo epOpp) b.whiteTurn b.passive).pawns t
    · rfl
    · exfalso
      have := (hup.sub (q := 1) (by decide) (by decide) ht hb rfl).1
      rw [show b.passive.get 1 = b.passive.pawns from rfl, hpp t ht hr] at this; cases this

end

/-! ## (5) a castling right implies king and rook on their home squares -/

/-- castling rights of a side with home squares `e` (king), `rk` (king-side rook), `rq` (queen-side rook) -/
def RightsOK (s : Side) (e rk rq : Nat) : Prop :=
  (s.ks = true → testU s.kings e = true ∧ testU s.rooks rk = true) ∧
  (s.qs = true → testU s.kings e = true ∧ testU s.rooks rq = true)

theorem rights_iff (s : Side) (e rk rq : Nat) :
    ((!s.ks || (testU s.kings e && testU s.rooks rk)) = true ∧ (!s.qs || (testU s.kings e && testU s.rooks rq)) = true) ↔
      RightsOK s e rk rq := by
  unfold RightsOK
  cases s.ks <;> cases s.qs <;> simp

theorem ks_set (s : Side) (p : Nat) (v : UInt64) : (s.set p v).ks = s.ks := by
  rcases p with _|_|_|_|_|_|_|p <;> rfl
theorem qs_set (s : Side) (p : Nat) (v : UInt64) : (s.set p v).qs = s.qs := by
  rcases p with _|_|_|_|_|_|_|p <;> rfl

theorem mkMover_ks (f : MoveF) (s : Side) : (mkMover f s).ks = (if f.selfLostKing then false else s.ks) := by
  unfold mkMover dropRights
  cases f.castle <;> cases f.enPassant <;> cases (f.promotion != NO_PIECE) <;> cases castleRook f.target <;>
    simp only [Bool.false_eq_true, if_false, if_true, ks_set]

theorem mkMover_qs (f : MoveF) (s : Side) : (mkMover f s).qs = (if f.selfLostQueen then false else s.qs) := by
  unfold mkMover dropRights
  cases f.castle <;> cases f.enPassant <;> cases (f.promotion != NO_PIECE) <;> cases castleRook f.target <;>
    simp only [Bool.false_eq_true, if_false, if_true, qs_set]

theorem mkOther_ks (f : MoveF) (w : Bool) (s : Side) : (mkOther f w s).ks = (if f.oppLostKing then false else s.ks) := by
  unfold mkOther dropRights
  cases f.castle <;> cases f.enPassant <;> simp only [Bool.false_eq_true, if_false, if_true, ks_set]

theorem mkOther_qs (f : MoveF) (w : Bool) (s : Side) : (mkOther f w s).qs = (if f.oppLostQueen then false else s.qs) := by
  unfold mkOther dropRights
  cases f.castle <;> cases f.enPassant <;> simp only [Bool.false_eq_true, if_false, if_true, qs_set]

/-- outside castling only the source square of the mover loses a piece -/
theorem remA_source {f : MoveF} {q t : Nat} (h : remA f q t = true) (hc : f.castle = false) : t = f.source := by
  unfold remA at h
  simp only [hc, Bool.false_eq_true, if_false] at h
  split at h
  · simp only [Bool.and_eq_true, beq_iff_eq] at h; exact h.2
  · split at h <;> (simp only [Bool.and_eq_true, beq_iff_eq] at h; exact h.2)

/-- the other side loses a pawn (en passant) or the piece on the target -/
theorem remP_target {f : MoveF} {w : Bool} {q t : Nat} (h : remP f w q t = true) : q = PAWN ∨ t = f.target := by
  unfold remP at h
  split at h
  · cases h
  · split at h
    · simp only [Bool.and_eq_true, beq_iff_eq] at h; exact Or.inl h.1
    · simp only [Bool.and_eq_true, beq_iff_eq] at h; exact Or.inr h.2

section
variable {b : Board} {src tgt piece : Nat} {castle ep : Bool} {promo epOpp : Nat}

theorem remP_king (hwf : WfP b) (ha : ArgsOK b src tgt piece castle ep promo epOpp) (t : Nat) :
    remP (mkF b src tgt piece castle ep promo epOpp) b.whiteTurn 6 t = false := by
  have hne := attacked_ne_king hwf ha
  unfold remP
  simp only [mkF_castle, mkF_ep, mkF_target]
  cases castle
  · cases ep
    · simp only [Bool.false_eq_true, if_false]
      have : ((6 : Nat) == (mkF b src tgt piece false false promo epOpp).pieceAttacked) = false := by
        rw [beq_eq_false_iff_ne]; exact fun e => hne e.symm
      simp [this]
    · simp [PAWN]
  · simp

/-- **(5, mover)** the mover's remaining castling rights still have king and rook at home -/
theorem step_rights_mover (ha : ArgsOK b src tgt piece castle ep promo epOpp)
    (hr : RightsOK b.active (E1 - dCastle b) (H1 - dCastle b) (A1 - dCastle b)) :
    RightsOK (mkMover (mkF b src tgt piece castle ep promo epOpp) b.active)
      (E1 - dCastle b) (H1 - dCastle b) (A1 - dCastle b) := by
  have hua := upd_mover ha
  have hd : dCastle b = 0 ∨ dCastle b = 56 := by unfold dCastle; split <;> simp
  -- a king or rook that is not on the source square stays
  have keepK : src ≠ E1 - dCastle b → testU b.active.kings (E1 - dCastle b) = true →
      testU (mkMover (mkF b src tgt piece castle ep promo epOpp) b.active).kings (E1 - dCastle b) = true := by
    intro hne hb
    refine hua.keep (q := 6) (by decide) (by decide) (by unfold E1; omega) hb ?_
    rcases king_upd ha with ⟨-, hk⟩ | hk
    · rw [(hk _).1, beq_eq_false_iff_ne]; exact fun e => hne e.symm
    · exact (hk _).1
  have keepR : ∀ r, r < 64 → src ≠ E1 - dCastle b → src ≠ r → testU b.active.rooks r = true →
      testU (mkMover (mkF b src tgt piece castle ep promo epOpp) b.active).rooks r = true := by
    intro r hr64 hneE hne hb
    refine hua.keep (q := 4) (by decide) (by decide) hr64 hb ?_
    cases hrem : remA (mkF b src tgt piece castle ep promo epOpp) 4 r
    · rfl
    · exfalso
      cases hca : castle
      · have := remA_source hrem (by simp [hca])
        simp only [mkF_source] at this
        exact hne this.symm
      · exact hneE (ha.castle_ hca).2.2.2.2.1
  constructor
  · intro h
    rw [mkMover_ks] at h
    have hsl : (mkF b src tgt piece castle ep promo epOpp).selfLostKing =
        (b.active.ks && (src == H1 - dCastle b || src == E1 - dCastle b)) := rfl
    rw [hsl] at h
    cases hks : b.active.ks
    · simp [hks] at h
    · simp only [hks, Bool.true_and] at h
      have hne : (src == H1 - dCastle b || src == E1 - dCastle b) = false := by
        cases hx : (src == H1 - dCastle b || src == E1 - dCastle b)
        · rfl
        · simp [hx] at h
      simp only [Bool.or_eq_false_iff, beq_eq_false_iff_ne] at hne
      obtain ⟨hk, hrk⟩ := hr.1 hks
      exact ⟨keepK hne.2 hk, keepR _ (by unfold H1; omega) hne.2 hne.1 hrk⟩
  · intro h
    rw [mkMover_qs] at h
    have hsl : (mkF b src tgt piece castle ep promo epOpp).selfLostQueen =
        (b.active.qs && (src == A1 - dCastle b || src == E1 - dCastle b)) := rfl
    rw [hsl] at h
    cases hqs : b.active.qs
    · simp [hqs] at h
    · simp only [hqs, Bool.true_and] at h
      have hne : (src == A1 - dCastle b || src == E1 - dCastle b) = false := by
        cases hx : (src == A1 - dCastle b || src == E1 - dCastle b)
        · rfl
        · simp [hx] at h
      simp only [Bool.or_eq_false_iff, beq_eq_false_iff_ne] at hne
      obtain ⟨hk, hrk⟩ := hr.2 hqs
      exact ⟨keepK hne.2 hk, keepR _ (by unfold A1; omega) hne.2 hne.1 hrk⟩

/-- **(5, other side)** the other side's remaining castling rights still have king and rook at home -/
theorem step_rights_other (hwf : WfP b) (ha : ArgsOK b src tgt piece castle ep promo epOpp)
    (hr : RightsOK b.passive (E8 + dCastle b) (H8 + dCastle b) (A8 + dCastle b)) :
    RightsOK (mkOther (mkF b src tgt piece castle ep promo epOpp) b.whiteTurn b.passive)
      (E8 + dCastle b) (H8 + dCastle b) (A8 + dCastle b) := by
  have hup := upd_other ha
  have hd : dCastle b = 0 ∨ dCastle b = 56 := by unfold dCastle; split <;> simp
  have keepK : testU b.passive.kings (E8 + dCastle b) = true →
      testU (mkOther (mkF b src tgt piece castle ep promo epOpp) b.whiteTurn b.passive).kings (E8 + dCastle b) = true := by
    intro hb
    exact hup.keep (q := 6) (by decide) (by decide) (by unfold E8; omega) hb (remP_king hwf ha _)
  have keepR : ∀ r, r < 64 → tgt ≠ r → testU b.passive.rooks r = true →
      testU (mkOther (mkF b src tgt piece castle ep promo epOpp) b.whiteTurn b.passive).rooks r = true := by
    intro r hr64 hne hb
    refine hup.keep (q := 4) (by decide) (by decide) hr64 hb ?_
    cases hrem : remP (mkF b src tgt piece castle ep promo epOpp) b.whiteTurn 4 r
    · rfl
    · exfalso
      rcases remP_target hrem with h | h
      · exact absurd h (by decide)
      · simp only [mkF_target] at h; exact hne h.symm
  have hq : (mkF b src tgt piece castle ep promo epOpp).oppLostQueen = (b.passive.qs && tgt == A8 + dCastle b) := rfl
  have hk : (mkF b src tgt piece castle ep promo epOpp).oppLostKing =
      (!(b.passive.qs && tgt == A8 + dCastle b) && b.passive.ks && tgt == H8 + dCastle b) := rfl
  constructor
  · intro h
    rw [mkOther_ks, hk] at h
    cases hks : b.passive.ks
    · simp [hks] at h
    · have hne : tgt ≠ H8 + dCastle b := by
        intro e
        simp [hks, e] at h
        exact absurd h.2 (by decide)
      obtain ⟨hkk, hrk⟩ := hr.1 hks
      exact ⟨keepK hkk, keepR _ (by unfold H8; omega) hne hrk⟩
  · intro h
    rw [mkOther_qs, hq] at h
    cases hqs : b.passive.qs
    · simp [hqs] at h
    · have hne : tgt ≠ A8 + dCastle b := by
        intro e
        simp [hqs, e] at h
      obtain ⟨hkk, hrk⟩ := hr.2 hqs
      exact ⟨keepK hkk, keepR _ (by unfold A8; omega) hne hrk⟩

end

/-! ## (6) the e.p. square of the new board -/

theorem epOK_of (c : Board)
    (h : c.ep = 0 ∨
      (c.turn = 0 ∧ c.ep / 8 = 2 ∧ testU c.black.pawns (c.ep + 8) = true ∧
        testU (c.white.full ||| c.black.full) c.ep = false ∧ testU (c.white.full ||| c.black.full) (c.ep - 8) = false) ∨
      (c.turn ≠ 0 ∧ c.ep / 8 = 5 ∧ testU c.white.pawns (c.ep - 8) = true ∧
        testU (c.white.full ||| c.black.full) c.ep = false ∧ testU (c.white.full ||| c.black.full) (c.ep + 8) = false)) :
    epOK c = true := by
  unfold epOK
  rcases h with h | ⟨h1, h2, h3, h4, h5⟩ | ⟨h1, h2, h3, h4, h5⟩
  · simp [h]
  · simp [h1, h2, h3, h4, h5]
  · have : (c.turn == 0) = false := by simpa using h1
    simp [this, h2, h3, h4, h5]

theorem full_false_of_get {s : Side} {t : Nat} (h : ∀ q, 1 ≤ q → q ≤ 6 → testU (s.get q) t = false) :
    testU s.full t = false := by
  rw [testU_full, h 1 (by decide) (by decide), h 2 (by decide) (by decide), h 3 (by decide) (by decide),
    h 4 (by decide) (by decide), h 5 (by decide) (by decide), h 6 (by decide) (by decide)]
  rfl

section
variable {b : Board} {src tgt piece : Nat} {castle ep : Bool} {promo epOpp : Nat}

/-- after a double push: the pawn stands on the target, the skipped square and the origin are empty -/
theorem step_ep (hwf : WfP b) (ha : ArgsOK b src tgt piece castle ep promo epOpp) (hne : epOpp ≠ 0) :
    testU (mkMover (mkF b src tgt piece castle ep promo epOpp) b.active).pawns tgt = true ∧
    testU (mkMover (mkF b src tgt piece castle ep promo epOpp) b.active).full epOpp = false ∧
    testU (mkOther (mkF b src tgt piece castle ep promo epOpp) b.whiteTurn b.passive).full epOpp = false ∧
    testU (mkMover (mkF b src tgt piece castle ep promo epOpp) b.active).full src = false ∧
    testU (mkOther (mkF b src tgt piece castle ep promo epOpp) b.whiteTurn b.passive).full src = false ∧
    (if b.whiteTurn then 48 ≤ src ∧ src < 56 ∧ tgt + 16 = src ∧ epOpp + 8 = src
     else 8 ≤ src ∧ src < 16 ∧ tgt = src + 16 ∧ epOpp = src + 8) := by
  obtain ⟨hpc, hca, hep, hpr, hl1, hl2, hgeo⟩ := ha.dbl hne
  subst hpc hca hep hpr
  obtain ⟨hsa, hsp, hcr⟩ := sd_sides hwf
  have hua := upd_mover ha
  have hup := upd_other ha
  have hadd : ∀ q t, addA (mkF b src tgt PAWN false false 0 epOpp) q t = (q == PAWN && t == tgt) := by
    intro q t; unfold addA; simp [NO_PIECE]
  have hrem : ∀ q t, remA (mkF b src tgt PAWN false false 0 epOpp) q t = (q == PAWN && t == src) := by
    intro q t; unfold remA; simp [NO_PIECE]
  have hne1 : epOpp ≠ tgt ∧ src ≠ tgt := by
    split at hgeo <;> omega
  have hS : testU (b.active.get 1) src = true := (has_iff_testU ha.src_lt).mp ha.hasSrc
  have hE : testU (fullOcc b) epOpp = false := (lacks_iff_testU ha.epOpp_lt).mp hl1
  rw [testU_fullOcc, Bool.or_eq_false_iff] at hE
  refine ⟨?_, ?_, ?_, ?_, ?_, hgeo⟩
  · have := hua 1 (by decide) (by decide) tgt ha.tgt_lt
    rw [hadd] at this
    show testU ((mkMover (mkF b src tgt PAWN false false 0 epOpp) b.active).get 1) tgt = true
    rw [this]; simp [PAWN]
  · apply full_false_of_get
    intro q h1 h6
    rw [hua q h1 h6 epOpp ha.epOpp_lt, hadd, get_false_of_full hE.1 h1 h6]
    have : (epOpp == tgt) = false := by rw [beq_eq_false_iff_ne]; exact hne1.1
    simp [this]
  · apply full_false_of_get
    intro q h1 h6
    cases hb : testU ((mkOther (mkF b src tgt PAWN false false 0 epOpp) b.whiteTurn b.passive).get q) epOpp
    · rfl
    · have := (hup.sub h1 h6 ha.epOpp_lt hb rfl).1
      rw [get_false_of_full hE.2 h1 h6] at this; cases this
  · apply full_false_of_get
    intro q h1 h6
    rw [hua q h1 h6 src ha.src_lt, hadd, hrem]
    have e1 : (src == tgt) = false := by rw [beq_eq_false_iff_ne]; exact hne1.2
    by_cases hq : q = 1
    · subst hq; simp [PAWN, e1]
    · have : testU (b.active.get q) src = false := by
        cases hb : testU (b.active.get q) src
        · rfl
        · exact absurd ⟨hb, hS⟩ (hsa q 1 h1 h6 (by decide) (by decide) hq src ha.src_lt)
      simp [this, e1]
  · apply full_false_of_get
    intro q h1 h6
    cases hb : testU ((mkOther (mkF b src tgt PAWN false false 0 epOpp) b.whiteTurn b.passive).get q) src
    · rfl
    · have := (hup.sub h1 h6 ha.src_lt hb rfl).1
      exact absurd ⟨hS, this⟩ (hcr 1 q (by decide) (by decide) h1 h6 src ha.src_lt)

end

/-! ## assembly: the new board is well-formed -/

theorem rights_of_wf_w {b : Board} (hwf : WfP b) : RightsOK b.white E1 H1 A1 :=
  (rights_iff b.white E1 H1 A1).mp ⟨hwf.wks, hwf.wqs⟩
theorem rights_of_wf_b {b : Board} (hwf : WfP b) : RightsOK b.black E8 H8 A8 :=
  (rights_iff b.black E8 H8 A8).mp ⟨hwf.bks, hwf.bqs⟩

/-- **WF step (unbudgeted part + clocks from the budget)** for a move described by `ArgsOK` -/
theorem make_wfP {b : Board} (hwf : WfP b) {src tgt piece : Nat} {castle ep : Bool} {promo epOpp : Nat}
    (ha : ArgsOK b src tgt piece castle ep promo epOpp)
    (hv : isValid (makeF b (mkF b src tgt piece castle ep promo epOpp)) = true)
    (hhm : b.halfmove + 1 ≤ 4095) (hfm : b.fullmove + 1 < 2147483648) :
    WfP (makeF b (mkF b src tgt piece castle ep promo epOpp)) := by
  have hdisj := step_disj hwf ha
  have hpw := (pawnOK_iff b.white b.black).mp hwf.pawns
  have hfm1 := hwf.fm1
  have htn1 := hwf.turn
  rw [BoardCongr.makeF_eq] at hv ⊢
  rcases sides_of_turn b hwf.turn with ⟨hw, htn, hact, hpas⟩ | ⟨hw, htn, hact, hpas⟩
  · -- white moves
    have hd : dCastle b = 0 := by simp [dCastle, hw]
    have hk := step_kings hwf ha (by rw [hact]; exact hwf.wk) (by rw [hpas]; exact hwf.bk)
    have hp := step_pawns ha (by rw [hact]; exact hpw.1) (by rw [hpas]; exact hpw.2)
    have hra := step_rights_mover ha (by rw [hact, hd]; exact rights_of_wf_w hwf)
    have hrp := step_rights_other hwf ha (by rw [hpas, hd]; exact rights_of_wf_b hwf)
    rw [hd] at hra hrp
    simp only [hw, if_true] at hv ⊢
    rw [hw] at hdisj hk hp hrp
    obtain ⟨hra1, hra2⟩ := (rights_iff _ E1 H1 A1).mpr hra
    obtain ⟨hrp1, hrp2⟩ := (rights_iff _ E8 H8 A8).mpr hrp
    refine {
      disj := (disj_iff _ _).mpr hdisj
      wk := hk.1, bk := hk.2
      pawns := (pawnOK_iff _ _).mpr hp
      turn := by show 1 - b.turn ≤ 1; omega
      valid := hv
      wks := hra1, wqs := hra2, bks := hrp1, bqs := hrp2
      ep := ?_
      fm1 := by show 1 ≤ b.fullmove + b.turn; omega
      fm2 := by show b.fullmove + b.turn < 2147483648; omega
      hm := by
        show (if (mkF b src tgt piece castle ep promo epOpp).halfmoveReset = true then 0 else b.halfmove + 1) ≤ 4095
        split <;> omega }
    apply epOK_of
    show epOpp = 0 ∨ _
    by_cases hne : epOpp = 0
    · exact Or.inl hne
    · right; right
      obtain ⟨e1, e2, e3, e4, e5, e6⟩ := step_ep hwf ha hne
      rw [hw] at e3 e5 e6
      simp only [if_true] at e6
      refine ⟨by show 1 - b.turn ≠ 0; omega, by show epOpp / 8 = 5; omega, ?_, ?_, ?_⟩
      · show testU (mkMover (mkF b src tgt piece castle ep promo epOpp) b.active).pawns (epOpp - 8) = true
        rw [show epOpp - 8 = tgt by omega]; exact e1
      · show testU (_ ||| _) epOpp = false
        rw [Bits.testU_or, e2, e3]; rfl
      · show testU (_ ||| _) (epOpp + 8) = false
        rw [show epOpp + 8 = src by omega, Bits.testU_or, e4, e5]; rfl
  · -- black moves
    have hd : dCastle b = 56 := by simp [dCastle, hw]
    have hk := step_kings hwf ha (by rw [hact]; exact hwf.bk) (by rw [hpas]; exact hwf.wk)
    have hp := step_pawns ha (by rw [hact]; exact hpw.2) (by rw [hpas]; exact hpw.1)
    have hra := step_rights_mover ha (by rw [hact, hd]; exact rights_of_wf_b hwf)
    have hrp := step_rights_other hwf ha (by rw [hpas, hd]; exact rights_of_wf_w hwf)
    rw [hd] at hra hrp
    simp only [hw, Bool.false_eq_true, if_false] at hv ⊢
    rw [hw] at hdisj hk hp hrp
    obtain ⟨hra1, hra2⟩ := (rights_iff _ E8 H8 A8).mpr hra
    obtain ⟨hrp1, hrp2⟩ := (rights_iff _ E1 H1 A1).mpr hrp
    refine {
      disj := (disj_iff _ _).mpr ⟨hdisj.2.1, hdisj.1, hdisj.2.2.symm⟩
      wk := hk.2, bk := hk.1
      pawns := (pawnOK_iff _ _).mpr ⟨hp.2, hp.1⟩
      turn := by show 1 - b.turn ≤ 1; omega
      valid := hv
      wks := hrp1, wqs := hrp2, bks := hra1, bqs := hra2
      ep := ?_
      fm1 := by show 1 ≤ b.fullmove + b.turn; omega
      fm2 := by show b.fullmove + b.turn < 2147483648; omega
      hm := by
        show (if (mkF b src tgt piece castle ep promo epOpp).halfmoveReset = true then 0 else b.halfmove + 1) ≤ 4095
        split <;> omega }
    apply epOK_of
    show epOpp = 0 ∨ _
    by_cases hne : epOpp = 0
    · exact Or.inl hne
    · right; left
      obtain ⟨e1, e2, e3, e4, e5, e6⟩ := step_ep hwf ha hne
      rw [hw] at e3 e5 e6
      simp only [Bool.false_eq_true, if_false] at e6
      refine ⟨by show 1 - b.turn = 0; omega, by show epOpp / 8 = 2; omega, ?_, ?_, ?_⟩
      · show testU (mkMover (mkF b src tgt piece castle ep promo epOpp) b.active).pawns (epOpp + 8) = true
        rw [show epOpp + 8 = tgt by omega]; exact e1
      · show testU (_ ||| _) epOpp = false
        rw [Bits.testU_or, e2, e3]; rfl
      · show testU (_ ||| _) (epOpp - 8) = false
        rw [show epOpp - 8 = src by omega, Bits.testU_or, e4, e5]; rfl

end Inkayaku.MakeWf
