import Inkayaku.Proofs.SearchSimHash
import Inkayaku.Proofs.Successor
/-!
# C08, `Transp13` / `Transp22`, step 1: a generated move as an update of two piece-code functions

A side at a square is ONE piece code (`Side.pieceAt`, 0 = none, 1..6 = pawn..king).  `act b q` / `pas b q` are the codes of the
side to move / the other side at `q`.  `Mv w A P M O ep f` says: `f` is a move of a position with code functions `A` (mover) and
`P` (other side), e.p. square `ep`, mover white iff `w`; afterwards the mover has `M` and the other side `O`.  It carries
everything the transposition arguments use: the pointwise description of `M` and `O` (ordinary move / capture / promotion,
en passant, castling), the pawn geometry, the shape of the special moves.

* `mv_of_gen`    – every pseudo-legal move of a well-formed board is such an `Mv` (from `Successor.codes_*`, `GenFacts`, `ArgsOK`);
* `codes_of_key` – boards with the same `HashKey` have the same code functions;
* `cnt`          – number of occupied squares; `Mv.cntM` (the mover keeps its number of pieces), `Mv.cntO` (the other side loses
                   exactly one piece iff the move captures).
-/
namespace Inkayaku.SearchSim.Transp
open Inkayaku.Board Inkayaku.WF Inkayaku.MakeUnmake Inkayaku.Attack Inkayaku.GenFacts Inkayaku.Successor
open Inkayaku.C06 (HashKey)

/-- piece code of the side to move at `q` -/
def act (b : Board) (q : Nat) : Nat := b.active.pieceAt q
/-- piece code of the side not to move at `q` -/
def pas (b : Board) (q : Nat) : Nat := b.passive.pieceAt q

/-- the piece code that lands on the target square -/
def placed (f : MoveF) : Nat := if f.promotion = 0 then f.pieceMoved else f.promotion

/-- the move captures -/
def capt (f : MoveF) : Prop := f.pieceAttacked ≠ 0

instance (f : MoveF) : Decidable (capt f) := by unfold capt; exact inferInstance

structure Mv (w : Bool) (A P M O : Nat → Nat) (ep : Nat) (f : MoveF) : Prop where
  rngA : ∀ q, A q ≤ 6
  rngP : ∀ q, P q ≤ 6
  cross : ∀ q, q < 64 → A q ≠ 0 → P q = 0
  s_lt : f.source < 64
  t_lt : f.target < 64
  src : A f.source = f.pieceMoved
  pm_ge : 1 ≤ f.pieceMoved
  pm_le : f.pieceMoved ≤ 6
  tgt : A f.target = 0
  cs_lt : capSq w f.enPassant f.target < 64
  att : f.pieceAttacked = P (capSq w f.enPassant f.target)
  reset : f.halfmoveReset = (f.pieceMoved == 1 || f.pieceAttacked != 0)
  plainM : f.castle = false → ∀ q, q < 64 →
    M q = if q = f.target then placed f else if q = f.source then 0 else A q
  plainO : f.castle = false → ∀ q, q < 64 → O q = if q = capSq w f.enPassant f.target then 0 else P q
  castle : f.castle = true → ∃ rs rt, rs < 64 ∧ rt < 64 ∧ f.source ≠ f.target ∧ f.source ≠ rs ∧ f.source ≠ rt ∧
    f.target ≠ rs ∧ f.target ≠ rt ∧ rs ≠ rt ∧ A rs = 4 ∧ A rt = 0 ∧ P rt = 0 ∧ P f.target = 0 ∧ f.pieceMoved = 6 ∧
    f.enPassant = false ∧ f.promotion = 0 ∧ f.nextEp = 0 ∧
    (∀ q, q < 64 → M q = if q = f.target then 6 else if q = f.source then 0 else if q = rt then 4 else if q = rs then 0
      else A q) ∧
    (∀ q, q < 64 → O q = P q)
  epF : f.enPassant = true → f.pieceMoved = 1 ∧ f.castle = false ∧ f.promotion = 0 ∧ f.nextEp = 0 ∧ ep = f.target ∧ ep ≠ 0 ∧
    P f.target = 0 ∧ f.source % 8 ≠ f.target % 8 ∧
    (if w then f.target + 8 < 64 ∧ P (f.target + 8) = 1 else 8 ≤ f.target ∧ P (f.target - 8) = 1)
  promo : f.promotion ≠ 0 → f.pieceMoved = 1 ∧ 2 ≤ f.promotion ∧ f.promotion ≤ 5
  pawn : f.pieceMoved = 1 → f.castle = false ∧
    (f.promotion ≠ 0 ↔ (if w then f.target < 8 else 56 ≤ f.target)) ∧
    (f.source % 8 ≠ f.target % 8 → f.enPassant = true ∨ P f.target ≠ 0) ∧
    (if f.nextEp = 0 then (if w then f.source / 8 = f.target / 8 + 1 else f.target / 8 = f.source / 8 + 1)
     else f.enPassant = false ∧ f.promotion = 0 ∧ P f.target = 0 ∧ A f.nextEp = 0 ∧ P f.nextEp = 0 ∧ f.nextEp < 64 ∧
       (if w then f.source = f.target + 16 ∧ f.nextEp = f.target + 8 else f.target = f.source + 16 ∧ f.nextEp = f.source + 8))
  nonpawn : f.pieceMoved ≠ 1 → f.enPassant = false ∧ f.promotion = 0 ∧ f.nextEp = 0

/-! ## the sides after `make` -/

theorem make_sides' {b : Board} (hturn : b.turn ≤ 1) (m : Move) :
    (make b m).active = mkOther m.f b.whiteTurn b.passive ∧ (make b m).passive = mkMover m.f b.active ∧
    (make b m).whiteTurn = !b.whiteTurn ∧ (make b m).ep = m.f.nextEp := by
  unfold make
  rw [MakeUnmake.makeF_eq]
  have : b.turn = 0 ∨ b.turn = 1 := by omega
  rcases this with h | h <;> simp [Board.active, Board.passive, Board.whiteTurn, h]

theorem pieceAt_congr {s s' : Side} (h : ∀ q, 1 ≤ q → q ≤ 6 → s.get q = s'.get q) (t : Nat) (ht : t < 64) :
    s.pieceAt t = s'.pieceAt t := by
  have h1 := h 1 (by decide) (by decide)
  have h2 := h 2 (by decide) (by decide)
  have h3 := h 3 (by decide) (by decide)
  have h4 := h 4 (by decide) (by decide)
  have h5 := h 5 (by decide) (by decide)
  have h6 := h 6 (by decide) (by decide)
  simp only [Side.get] at h1 h2 h3 h4 h5 h6
  rw [pieceAt_bits s t ht, pieceAt_bits s' t ht, h1, h2, h3, h4, h5, h6]

/-- equal keys: equal code functions -/
theorem codes_of_key {p p' : Board} (h : HashKey p = HashKey p') :
    (∀ q, q < 64 → act p q = act p' q) ∧ (∀ q, q < 64 → pas p q = pas p' q) :=
  ⟨fun q hq => pieceAt_congr (fun _ h1 h6 => (key_sides h h1 h6).1) q hq,
   fun q hq => pieceAt_congr (fun _ h1 h6 => (key_sides h h1 h6).2) q hq⟩

/-! ## a generated move is an `Mv` -/

theorem mv_of_gen {b : Board} (hwf : wf b = true) {m : Move} (hm : m ∈ genPseudo b) :
    Mv b.whiteTurn (act b) (pas b) (pas (make b m)) (act (make b m)) b.ep m.f := by
  have he : Env b := env_of_wf hwf
  have hf : GenFacts b m.f := genPseudo_facts hwf m hm
  obtain ⟨src, tgt, piece, castle, ep, promo, epOpp, hmk, ha⟩ := GenStrong.genPseudo_strong hwf m hm
  have hturn : b.turn ≤ 1 := hf.1
  obtain ⟨hact, hpas, -, -⟩ := make_sides' hturn m
  have hf' := hf
  obtain ⟨-, -, -, -, hpm, hcs, hpa, -, -, hreset, -, -, -, -, hcall⟩ := hf'
  obtain ⟨hs, ht, hp1, hp6, hsrc, htgt, -, hcastle, hep, hpromo, hpawn, hnp, -⟩ := hcall
  have hcrossA : ∀ q, q < 64 → act b q ≠ 0 → pas b q = 0 := by
    intro q hq h0
    have : testU b.active.full q = true := by
      cases hh : testU b.active.full q
      · exact absurd ((pieceAt_zero _ _ hq).mpr hh) h0
      · rfl
    exact passive_empty_of_active he hq this
  have pasZero : ∀ q, q < 64 → testU b.passive.full q = false → pas b q = 0 :=
    fun q hq h => (pieceAt_zero _ _ hq).mpr h
  have actZero : ∀ q, q < 64 → testU b.active.full q = false → act b q = 0 :=
    fun q hq h => (pieceAt_zero _ _ hq).mpr h
  have occZero : ∀ q, q < 64 → testU (b.active.full ||| b.passive.full) q = false → act b q = 0 ∧ pas b q = 0 :=
    fun q hq h => ⟨actZero q hq (occ_false h).1, pasZero q hq (occ_false h).2⟩
  refine {
    rngA := fun q => pieceAt_le _ _, rngP := fun q => pieceAt_le _ _, cross := hcrossA, s_lt := hs, t_lt := ht,
    src := hpm.symm, pm_ge := hp1, pm_le := hp6, tgt := actZero _ ht htgt, cs_lt := hcs, att := hpa, reset := hreset,
    plainM := ?_, plainO := ?_, castle := ?_, epF := ?_, promo := hpromo, pawn := ?_, nonpawn := hnp }
  · intro hc q hq
    show (make b m).passive.pieceAt q = _
    rw [hpas]
    cases hee : m.f.enPassant
    · rw [(codes_plain he hf hc hee hq).1]; rfl
    · obtain ⟨hpp, -, hpr, -⟩ := hep hee
      rw [(codes_ep he hf hee hq).1]
      unfold placed
      rw [if_pos hpr, hpp]; rfl
  · intro hc q hq
    show (make b m).active.pieceAt q = _
    rw [hact]
    cases hee : m.f.enPassant
    · rw [(codes_plain he hf hc hee hq).2]; rfl
    · rw [(codes_ep he hf hee hq).2]; rfl
  · intro hc
    obtain ⟨rs, rt, hcr, -, hrs, hrt, d1, d2, d3, d4, d5, d6, hrook, hfr, hft, hpk⟩ := castle_squares hf hc
    obtain ⟨-, hee, hpr, hne, -⟩ := hcastle hc
    refine ⟨rs, rt, hrs, hrt, d1, d2, d3, d4, d5, d6, ?_, (occZero rt hrt hfr).1, (occZero rt hrt hfr).2,
      (occZero _ ht hft).2, hpk, hee, hpr, hne, ?_, ?_⟩
    · exact pieceAt_of_get _ hrs (he.act _) (by decide) (by decide) hrook
    · intro q hq
      show (make b m).passive.pieceAt q = _
      rw [hpas]
      exact (codes_castle he hf hc hcr hrs hrt ⟨d2, d3, d4, d5⟩ hrook hfr hpk hq).1
    · intro q hq
      show (make b m).active.pieceAt q = _
      rw [hact]
      exact (codes_castle he hf hc hcr hrs hrt ⟨d2, d3, d4, d5⟩ hrook hfr hpk hq).2
  · intro hee
    obtain ⟨h1, h2, h3, h4, h5, h6, h7, h8, h9⟩ := hep hee
    refine ⟨h1, h2, h3, h4, h5, h6, (occZero _ ht h7).2, h8, ?_⟩
    cases hw : b.whiteTurn <;> rw [hw] at h9
    · simp only [Bool.false_eq_true, if_false] at h9 ⊢
      exact ⟨h9.1, pieceAt_of_get _ (by omega) (he.pas _) (by decide) (by decide) h9.2⟩
    · simp only [if_true] at h9 ⊢
      exact ⟨h9.1, pieceAt_of_get _ h9.1 (he.pas _) (by decide) (by decide) h9.2⟩
  · intro hp
    obtain ⟨h1, h2, h3, h4⟩ := hpawn hp
    refine ⟨h1, h2, ?_, ?_⟩
    · intro hne
      rcases h3 hne with h | h
      · exact Or.inl h
      · right
        intro h0
        have := (pieceAt_zero b.passive _ ht).mp h0
        rw [this] at h; cases h
    · by_cases h0 : m.f.nextEp = 0
      · rw [if_pos h0] at h4 ⊢; exact h4
      · rw [if_neg h0] at h4 ⊢
        obtain ⟨g1, g2, g3, g4⟩ := h4
        have hne : epOpp ≠ 0 := by
          have : m.f.nextEp = epOpp := by rw [hmk]; rfl
          rw [← this]; exact h0
        obtain ⟨-, -, -, -, hl, -, -⟩ := ha.dbl hne
        have heo : m.f.nextEp = epOpp := by rw [hmk]; rfl
        have hlt : m.f.nextEp < 64 := by rw [heo]; exact ha.epOpp_lt
        have hfree : testU (b.active.full ||| b.passive.full) m.f.nextEp = false := by
          rw [heo]; exact (MakeWf.lacks_iff_testU ha.epOpp_lt).mp hl
        exact ⟨g1, g2, pasZero _ ht g3, (occZero _ hlt hfree).1, (occZero _ hlt hfree).2, hlt, g4⟩

/-! ## counting occupied squares -/

/-- number of `q < n` with `g q ≠ 0` -/
def cnt (g : Nat → Nat) : Nat → Nat
  | 0 => 0
  | n + 1 => cnt g n + (if g n = 0 then 0 else 1)

def upd (g : Nat → Nat) (v c : Nat) : Nat → Nat := fun q => if q = v then c else g q

theorem cnt_congr {g g' : Nat → Nat} : ∀ n, (∀ q, q < n → g q = g' q) → cnt g n = cnt g' n := by
  intro n
  induction n with
  | zero => intro _; rfl
  | succ n ih =>
    intro h
    simp only [cnt]
    rw [ih (fun q hq => h q (by omega)), h n (by omega)]

theorem cnt_upd_ge (g : Nat → Nat) (v c : Nat) : ∀ n, n ≤ v → cnt (upd g v c) n = cnt g n := by
  intro n hn
  apply cnt_congr
  intro q hq
  unfold upd
  rw [if_neg (by omega)]

theorem cnt_upd (g : Nat → Nat) (v c : Nat) : ∀ n, v < n →
    cnt (upd g v c) n + (if g v = 0 then 0 else 1) = cnt g n + (if c = 0 then 0 else 1) := by
  intro n
  induction n with
  | zero => intro h; omega
  | succ n ih =>
    intro h
    simp only [cnt]
    by_cases hv : v = n
    · subst hv
      rw [cnt_upd_ge g v c v (Nat.le_refl _)]
      have : upd g v c v = c := by unfold upd; rw [if_pos rfl]
      rw [this]
      omega
    · have := ih (by omega)
      have e : upd g v c n = g n := by unfold upd; rw [if_neg (fun e => hv e.symm)]
      rw [e]
      omega

theorem Mv.cntM {w : Bool} {A P M O : Nat → Nat} {ep : Nat} {f : MoveF} (h : Mv w A P M O ep f) :
    cnt M 64 = cnt A 64 := by
  have hsne : A f.source ≠ 0 := by rw [h.src]; have := h.pm_ge; omega
  cases hc : f.castle
  · have e : cnt M 64 = cnt (upd (upd A f.source 0) f.target (placed f)) 64 := by
      apply cnt_congr
      intro q hq
      rw [h.plainM hc q hq]; rfl
    rw [e]
    have h1 := cnt_upd A f.source 0 64 h.s_lt
    have h2 := cnt_upd (upd A f.source 0) f.target (placed f) 64 h.t_lt
    have hne : f.target ≠ f.source := by
      intro e; have := h.tgt; rw [e] at this; exact hsne this
    have e2 : upd A f.source 0 f.target = 0 := by
      unfold upd; rw [if_neg hne]; exact h.tgt
    have hpl : placed f ≠ 0 := by
      unfold placed
      split
      · have := h.pm_ge; omega
      · assumption
    rw [e2] at h2
    rw [if_neg hsne] at h1
    rw [if_neg hpl] at h2
    simp only [if_true] at h1 h2
    omega
  · obtain ⟨rs, rt, hrs, hrt, d1, d2, d3, d4, d5, d6, ars, art, -, -, -, -, -, -, hM, -⟩ := h.castle hc
    have e : cnt M 64 = cnt (upd (upd (upd (upd A rs 0) rt 4) f.source 0) f.target 6) 64 := by
      apply cnt_congr
      intro q hq
      rw [hM q hq]; rfl
    rw [e]
    have h1 := cnt_upd A rs 0 64 hrs
    have h2 := cnt_upd (upd A rs 0) rt 4 64 hrt
    have h3 := cnt_upd (upd (upd A rs 0) rt 4) f.source 0 64 h.s_lt
    have h4 := cnt_upd (upd (upd (upd A rs 0) rt 4) f.source 0) f.target 6 64 h.t_lt
    have e1 : A rs ≠ 0 := by omega
    have e2 : upd A rs 0 rt = 0 := by unfold upd; rw [if_neg (fun e => d6 e.symm)]; exact art
    have e3 : upd (upd A rs 0) rt 4 f.source ≠ 0 := by
      unfold upd; rw [if_neg d3, if_neg d2]; exact hsne
    have e4 : upd (upd (upd A rs 0) rt 4) f.source 0 f.target = 0 := by
      unfold upd; rw [if_neg (fun e => d1 e.symm), if_neg d5, if_neg d4]; exact h.tgt
    rw [if_neg e1] at h1
    rw [e2] at h2
    rw [if_neg e3] at h3
    rw [e4] at h4
    simp only [if_true] at h1 h2 h3 h4
    simp only [show (4 : Nat) ≠ 0 by decide, show (6 : Nat) ≠ 0 by decide, if_false] at h2 h4
    omega

theorem Mv.cntO {w : Bool} {A P M O : Nat → Nat} {ep : Nat} {f : MoveF} (h : Mv w A P M O ep f) :
    cnt O 64 + (if f.pieceAttacked = 0 then 0 else 1) = cnt P 64 := by
  cases hc : f.castle
  · have e : cnt O 64 = cnt (upd P (capSq w f.enPassant f.target) 0) 64 := by
      apply cnt_congr
      intro q hq
      rw [h.plainO hc q hq]; rfl
    rw [e, h.att]
    have := cnt_upd P (capSq w f.enPassant f.target) 0 64 h.cs_lt
    simp only [if_true] at this
    exact this
  · obtain ⟨rs, rt, -, -, -, -, -, -, -, -, -, -, -, pt, -, hee, -, -, -, hO⟩ := h.castle hc
    have e : cnt O 64 = cnt P 64 := cnt_congr 64 hO
    have : f.pieceAttacked = 0 := by
      rw [h.att, hee]
      unfold capSq
      simp only [Bool.false_eq_true, if_false]
      exact pt
    rw [e, if_pos this]; rfl

/-! ## consequences of `Mv` -/

section

variable {w : Bool} {A P M O : Nat → Nat} {ep : Nat} {f : MoveF}

theorem Mv.src_ne0 (h : Mv w A P M O ep f) : A f.source ≠ 0 := by
  rw [h.src]; have := h.pm_ge; omega

theorem Mv.src_ne_tgt (h : Mv w A P M O ep f) : f.source ≠ f.target := by
  intro e; have := h.tgt; rw [← e] at this; exact h.src_ne0 this

theorem Mv.placed_ne0 (h : Mv w A P M O ep f) : placed f ≠ 0 := by
  unfold placed; split
  · have := h.pm_ge; omega
  · assumption

theorem Mv.vacate (h : Mv w A P M O ep f) : M f.source = 0 := by
  cases hc : f.castle
  · rw [h.plainM hc _ h.s_lt, if_neg h.src_ne_tgt, if_pos rfl]
  · obtain ⟨rs, rt, -, -, d1, -, -, -, -, -, -, -, -, -, -, -, -, -, hM, -⟩ := h.castle hc
    rw [hM _ h.s_lt, if_neg d1, if_pos rfl]

theorem Mv.O_cases (h : Mv w A P M O ep f) {q : Nat} (hq : q < 64) :
    O q = P q ∨ (f.castle = false ∧ q = capSq w f.enPassant f.target ∧ O q = 0 ∧ P q = f.pieceAttacked ∧ f.pieceAttacked ≠ 0) := by
  cases hc : f.castle
  · by_cases e : q = capSq w f.enPassant f.target
    · by_cases h0 : P q = 0
      · left; rw [h.plainO hc q hq, if_pos e, h0]
      · right; refine ⟨rfl, e, ?_, ?_, ?_⟩
        · rw [h.plainO hc q hq, if_pos e]
        · rw [h.att, ← e]
        · rw [h.att, ← e]; exact h0
    · left; rw [h.plainO hc q hq, if_neg e]
  · obtain ⟨rs, rt, -, -, -, -, -, -, -, -, -, -, -, -, -, -, -, -, -, hO⟩ := h.castle hc
    left; exact hO q hq

theorem Mv.O_sub (h : Mv w A P M O ep f) {q : Nat} (hq : q < 64) (h0 : O q ≠ 0) : O q = P q := by
  rcases h.O_cases hq with e | ⟨-, -, e, -⟩
  · exact e
  · exact absurd e h0

theorem Mv.quietO (h : Mv w A P M O ep f) (h0 : f.pieceAttacked = 0) {q : Nat} (hq : q < 64) : O q = P q := by
  rcases h.O_cases hq with e | ⟨-, -, -, -, e⟩
  · exact e
  · exact absurd h0 e

theorem Mv.ep_att (h : Mv w A P M O ep f) (he : f.enPassant = true) : f.pieceAttacked = 1 := by
  obtain ⟨-, -, -, -, -, -, -, -, h9⟩ := h.epF he
  rw [h.att, he]
  unfold capSq
  cases w
  · simp only [Bool.false_eq_true, if_false, if_true] at h9 ⊢; exact h9.2
  · simp only [if_true] at h9 ⊢; exact h9.2

theorem Mv.capSq_noep (_h : Mv w A P M O ep f) (he : f.enPassant = false) : capSq w f.enPassant f.target = f.target := by
  rw [he]; unfold capSq; simp

theorem Mv.quiet_noep (h : Mv w A P M O ep f) (h0 : f.pieceAttacked = 0) : f.enPassant = false := by
  cases he : f.enPassant
  · rfl
  · have := h.ep_att he; omega

theorem Mv.quiet_tgt (h : Mv w A P M O ep f) (h0 : f.pieceAttacked = 0) : P f.target = 0 := by
  have := h.att
  rw [h.capSq_noep (h.quiet_noep h0), h0] at this
  exact this.symm

/-- a pawn move without capture: one or two steps straight ahead -/
theorem Mv.pawn_quiet (h : Mv w A P M O ep f) (hp : f.pieceMoved = 1) (h0 : f.pieceAttacked = 0) :
    if w then (f.source = f.target + 8 ∨ (f.source = f.target + 16 ∧ f.nextEp = f.target + 8 ∧ A (f.target + 8) = 0 ∧ P (f.target + 8) = 0))
    else (f.target = f.source + 8 ∨ (f.target = f.source + 16 ∧ f.nextEp = f.source + 8 ∧ A (f.source + 8) = 0 ∧ P (f.source + 8) = 0)) := by
  obtain ⟨-, -, h3, h4⟩ := h.pawn hp
  have hfile : f.source % 8 = f.target % 8 := by
    false_or_by_contra
    rename_i hne
    rcases h3 hne with e | e
    · have := h.quiet_noep h0; rw [this] at e; cases e
    · exact e (h.quiet_tgt h0)
  have hs := h.s_lt
  have ht := h.t_lt
  by_cases hn : f.nextEp = 0
  · rw [if_pos hn] at h4
    cases w
    · simp only [Bool.false_eq_true, if_false] at h4 ⊢; left; omega
    · simp only [if_true] at h4 ⊢; left; omega
  · rw [if_neg hn] at h4
    obtain ⟨-, -, -, g1, g2, -, g3⟩ := h4
    cases w
    · simp only [Bool.false_eq_true, if_false] at g3 ⊢; right
      rw [← g3.2]; exact ⟨g3.1, rfl, g1, g2⟩
    · simp only [if_true] at g3 ⊢; right
      rw [← g3.2]; exact ⟨g3.1, rfl, g1, g2⟩


/-- where the mover's codes change -/
theorem Mv.M_cases (h : Mv w A P M O ep f) {q : Nat} (hq : q < 64) :
    M q = A q ∨ q = f.source ∨ A q = 0 ∨ (f.castle = true ∧ A q = 4) := by
  cases hc : f.castle
  · rw [h.plainM hc q hq]
    by_cases e1 : q = f.target
    · right; right; left; rw [e1]; exact h.tgt
    · rw [if_neg e1]
      by_cases e2 : q = f.source
      · right; left; exact e2
      · left; rw [if_neg e2]
  · obtain ⟨rs, rt, -, -, -, -, -, -, -, -, ars, art, -, -, -, -, -, -, hM, -⟩ := h.castle hc
    rw [hM q hq]
    by_cases e1 : q = f.target
    · right; right; left; rw [e1]; exact h.tgt
    · rw [if_neg e1]
      by_cases e2 : q = f.source
      · right; left; exact e2
      · rw [if_neg e2]
        by_cases e3 : q = rt
        · right; right; left; rw [e3]; exact art
        · rw [if_neg e3]
          by_cases e4 : q = rs
          · right; right; right; rw [e4]; exact ⟨rfl, ars⟩
          · left; rw [if_neg e4]

/-- a pawn of the mover stays where it is when another piece moves -/
theorem Mv.keep_pawn (h : Mv w A P M O ep f) (hnp : f.pieceMoved ≠ 1) {q : Nat} (hq : q < 64) (h1 : A q = 1) : M q = 1 := by
  rcases h.M_cases hq with e | e | e | ⟨-, e⟩
  · rw [e, h1]
  · rw [e, h.src] at h1; exact absurd h1 hnp
  · omega
  · omega


end

#print axioms mv_of_gen

end Inkayaku.SearchSim.Transp
