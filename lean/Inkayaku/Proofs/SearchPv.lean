import Inkayaku.Proofs.SearchRoot
import Inkayaku.Proofs.WfStepProof
import Inkayaku.Proofs.GenSpecNoisy
import Inkayaku.Proofs.GenFacts
/-!
# Every principal variation the search returns is a legal line (C16, `pv_legal_line`)

The induction is done once, for an abstract "line predicate" `P : Board → List Move → Prop` and an abstract set `S` of
positions (`LineLaws S P`): the empty line is fine everywhere, a line is extended at the front by a generated move whose
successor passes `isValid`, `P` only looks at the visible position, and — the only place where hash collisions matter —
`P` can be transferred between two positions of `S` that have the same Zobrist hash (`transfer`).

* `TTLegal S P tt`: every table entry's stored chain is a `P`-line of every position of `S` whose hash is the entry's key;
* `quiescence_pv`, `negamax_pv`: for a board with clock budget (`Inv fuel s.board`), a hash argument that is the hash of
  `s.board`, a node that lies `ply ≤ maxPly ≤ N` legal plies below `root` and a table satisfying `TTLegal`, the returned
  `VM` has a PV that is a `P`-line of `s.board`, and the returned table satisfies `TTLegal` again (stores insert the
  node's own result under the node's own hash; the hash threaded down by XOR is the hash of the child by C06);
* `deepen_pv`, `goCmd_pv_ok`: every info of a `go` that carries a PV carries a `P`-line of the searched position
  (the table is emptied by `go`; iterations share the table).

The pawn hash argument plays no role (the model threads it, nothing reads it).

Instances: `LegalLine` (literally generated moves; transfer needs "equal hash ⇒ equal visible position") in this file,
the rules-of-chess reading (`Proofs/SearchPvRules.lean`; transfer needs "equal hash ⇒ same position up to the clocks").
-/
namespace Inkayaku.Search
open Inkayaku.Board Inkayaku.Eval Inkayaku.WF Inkayaku.BoardCongr

/-! ## legal lines, reachable positions -/

/-- `ms` can be played from `b`: every move is generated in the position reached and leaves the mover's king safe -/
def LegalLine : Board → List Move → Prop
  | _, [] => True
  | b, m :: ms => m ∈ genPseudo b ∧ isValid (make b m) = true ∧ LegalLine (make b m) ms

theorem LegalLine.congr {b b' : Board} (h : vis b = vis b') (l : List Move) (hl : LegalLine b l) : LegalLine b' l := by
  induction l generalizing b b' with
  | nil => trivial
  | cons m ms ih =>
    obtain ⟨h1, h2, h3⟩ := hl
    refine ⟨by rw [← genPseudo_congr h]; exact h1, by rw [← isValid_congr (make_congr h m)]; exact h2, ?_⟩
    exact ih (make_congr h m) h3

/-- `b` shows the position reached from `root` by exactly `n` legal moves (through well-formed boards) -/
def Reach (root : Board) : Nat → Board → Prop
  | 0, b => vis b = vis root
  | n + 1, b => ∃ b0 m, Reach root n b0 ∧ wf b0 = true ∧ m ∈ genPseudo b0 ∧ isValid (make b0 m) = true ∧
      vis b = vis (make b0 m)

/-- reached by at most `N` legal moves: the positions a search of depth ≤ `N` can visit as `negamax` nodes -/
def ReachLe (root : Board) (N : Nat) (b : Board) : Prop := ∃ n, n ≤ N ∧ Reach root n b

theorem Reach.congr {root b b' : Board} {n : Nat} (h : vis b = vis b') (hr : Reach root n b) : Reach root n b' := by
  cases n with
  | zero => exact h.symm.trans hr
  | succ n =>
    obtain ⟨b0, m, h1, h2, h3, h4, h5⟩ := hr
    exact ⟨b0, m, h1, h2, h3, h4, h.symm.trans h5⟩

theorem Reach.root (root : Board) : Reach root 0 root := rfl

/-! ## the abstract line predicate -/

/-- what the induction needs of a line predicate `P` on the set `S` of positions that can be `negamax` nodes -/
structure LineLaws (S : Board → Prop) (P : Board → List Move → Prop) : Prop where
  nil : ∀ b, P b []
  cons : ∀ b m ms, wf b = true → m ∈ genPseudo b → isValid (make b m) = true → P (make b m) ms → P b (m :: ms)
  congr : ∀ b b' l, vis b = vis b' → P b l → P b' l
  /-- the no-collision idealisation enters here, and only here -/
  transfer : ∀ b b' l, S b → S b' → Zobrist.hash b = Zobrist.hash b' → P b l → P b' l

/-- every stored chain is a `P`-line of every position of `S` with that hash -/
def TTLegal (S : Board → Prop) (P : Board → List Move → Prop) (tt : Std.HashMap UInt64 TtEntry) : Prop :=
  ∀ h e, tt.get? h = some e → ∀ b', S b' → Zobrist.hash b' = h → P b' e.mv.pv

theorem TTLegal.empty (S : Board → Prop) (P : Board → List Move → Prop) : TTLegal S P {} := by
  intro h e he
  simp [Std.HashMap.get?_eq_getElem?] at he

theorem TTLegal.insert {S : Board → Prop} {P : Board → List Move → Prop} {tt : Std.HashMap UInt64 TtEntry}
    (htt : TTLegal S P tt) (h : UInt64) (e : TtEntry) (he : ∀ b', S b' → Zobrist.hash b' = h → P b' e.mv.pv) :
    TTLegal S P (tt.insert h e) := by
  intro h' e' hget b' hb' hh'
  simp only [Std.HashMap.get?_eq_getElem?, Std.HashMap.getElem?_insert] at hget
  split at hget
  · rename_i heq
    cases hget
    have : h = h' := by simpa using heq
    exact he b' hb' (hh'.trans this.symm)
  · exact htt h' e' (by simpa [Std.HashMap.get?_eq_getElem?] using hget) b' hb' hh'

/-! ## PV of the value records -/

theorem VM.pv_leaf (v : Int) : (VM.leaf v).pv = [] := by
  unfold VM.leaf; rw [VM.pv.eq_def]

theorem VM.pv_none_none (v : Int) : (VM.mk v none none).pv = [] := by
  rw [VM.pv.eq_def]

theorem VM.pv_some_some (v : Int) (m : Move) (c : VM) : (VM.mk v (some m) (some c)).pv = m :: c.pv := by
  rw [VM.pv.eq_def]

/-- the PV of a record does not depend on its value -/
theorem VM.pv_value (v v' : Int) (m : Option Move) (c : Option VM) : (VM.mk v m c).pv = (VM.mk v' m c).pv := by
  rw [VM.pv.eq_def, VM.pv.eq_def]

/-- the PV the accumulator of a move loop stands for -/
def accPv (acc : LoopAcc) : List Move := (VM.mk acc.bestValue acc.bestMove acc.bestChild).pv

theorem accPv_acc0 (a : Int) : accPv (acc0 a) = [] := by
  unfold accPv acc0; exact VM.pv_none_none _

theorem accPv_update (acc : LoopAcc) (m : Move) (c : VM) :
    accPv (accUpdate acc m c) = m :: c.pv ∨ accPv (accUpdate acc m c) = accPv acc := by
  unfold accUpdate accPv
  simp only
  split
  · left; exact VM.pv_some_some _ _ _
  · right; rfl

/-- a table hit returns the stored chain of the entry found -/
theorem probe_hit {entry : Option TtEntry} {rem : Nat} {a b : Int} {r : VM} (h : (probe entry rem a b).1 = some r) :
    ∃ e, entry = some e ∧ r = e.mv := by
  unfold probe at h
  cases entry with
  | none => cases h
  | some e =>
    refine ⟨e, rfl, ?_⟩
    simp only at h
    repeat' split at h
    all_goals first | (cases h; rfl) | cases h

/-! ## the table is not touched by quiescence, polls, entering a node -/

theorem sameTT_qstep : QStepRel (fun s s' : St => s'.tt = s.tt) where
  refl := fun _ => rfl
  trans := fun h1 h2 => h2.trans h1
  board := fun _ _ => rfl
  qnode := fun _ => rfl

theorem quiescence_tt (fuel : Nat) (s : St) (a b : Int) : (quiescence fuel s a b).2.tt = s.tt :=
  quiescence_rel sameTT_qstep fuel s a b

theorem pollStep_tt (s : St) : (pollStep s).tt = s.tt := by
  rcases pollStep_eq s with h | ⟨st, q, rn, h⟩ <;> rw [h]

theorem enter_tt (s : St) (h : UInt64) : (enter s h).tt = s.tt := by
  unfold enter
  exact pollStep_tt s

/-- the moves of the capture generator are pseudo-legal moves -/
theorem genNonQuiescent_sub {b : Board} (hwf : wf b = true) {m : Move} (hm : m ∈ genNonQuiescent b) : m ∈ genPseudo b := by
  rw [GenSpec.genNonQuiescent_eq_filter hwf] at hm
  exact (List.mem_filter.mp hm).1

section
variable {S : Board → Prop} {P : Board → List Move → Prop} (LL : LineLaws S P)
include LL

/-! ## quiescence -/

def QPv (P : Board → List Move → Prop) (fuel : Nat) : Prop :=
  ∀ (s : St) (a b : Int), Inv fuel s.board → P s.board (quiescence fuel s a b).1.pv

theorem qLoop_pv {fuel : Nat} (hq : QPv P fuel) (b0 : Board) (hinv : Inv (fuel + 1) b0) :
    ∀ (moves : List Move), (∀ m ∈ moves, m ∈ genPseudo b0) →
    ∀ (s : St) (a b : Int) (bm : Option Move) (bc : Option VM), vis s.board = vis b0 → P b0 (VM.mk a bm bc).pv →
      P b0 (quiescenceLoop fuel s moves a b bm bc).1.pv := by
  have hwf := hinv.wf
  intro moves
  induction moves with
  | nil => intro _ s a b bm bc _ hp; rw [quiescenceLoop_nil]; exact hp
  | cons m rest ih =>
    intro hmem s a b bm bc hs hp
    have hm : m ∈ genPseudo b0 := hmem m (List.mem_cons_self ..)
    have hg : Generated b0 m := Or.inl hm
    have hrest : ∀ m ∈ rest, m ∈ genPseudo b0 := fun x hx => hmem x (List.mem_cons_of_mem _ hx)
    have hmk : vis (make s.board m) = vis (make b0 m) := make_congr hs m
    rw [quiescenceLoop_cons]
    split
    · exact ih hrest _ a b bm bc (back hwf hg hmk) hp
    · rename_i hv
      obtain ⟨hi1, hv'⟩ := child_inv boardLaws hinv hs hg (by simpa using hv)
      have hr := quiescence_ok boardLaws fuel
        { s with board := make s.board m, quiescenceNodes := s.quiescenceNodes + 1 } (-b) (-a) hi1
      have hb := back hwf hg (hr.trans hmk)
      have hc := hq { s with board := make s.board m, quiescenceNodes := s.quiescenceNodes + 1 } (-b) (-a) hi1
      have hline : P b0 (m :: (quiescence fuel
          { s with board := make s.board m, quiescenceNodes := s.quiescenceNodes + 1 } (-b) (-a)).1.pv) :=
        LL.cons b0 m _ hwf hm hv' (LL.congr _ _ _ hmk hc)
      simp only
      split
      · rw [VM.pv_some_some]; exact hline
      · split
        · exact ih hrest _ _ b _ _ hb (by rw [VM.pv_some_some]; exact hline)
        · exact ih hrest _ a b bm bc hb hp

theorem quiescence_pv : ∀ fuel, QPv P fuel := by
  intro fuel
  induction fuel with
  | zero => intro s a b _; rw [quiescence_zero, VM.pv_leaf]; exact LL.nil _
  | succ fuel ih =>
    intro s a b hinv
    rw [quiescence_succ]
    split
    · rw [VM.pv_leaf]; exact LL.nil _
    · refine qLoop_pv LL ih s.board hinv _ ?_ s _ b none none rfl (by rw [VM.pv_none_none]; exact LL.nil _)
      intro m hm
      exact genNonQuiescent_sub hinv.wf (mem_sortMoves.mp hm)

/-! ## negamax -/

variable (root : Board) (N : Nat) (hS : ∀ b n, n ≤ N → Reach root n b → S b)
include hS

def NPv (S : Board → Prop) (P : Board → List Move → Prop) (root : Board) (N : Nat) (fuel : Nat) : Prop :=
  ∀ (s : St) (ply maxPly : Nat) (a b : Int) (isPv : Bool) (h ph : UInt64), Inv fuel s.board →
    h = Zobrist.hash s.board → Reach root ply s.board → ply ≤ maxPly → maxPly ≤ N → TTLegal S P s.tt →
    P s.board (negamax fuel s ply maxPly a b isPv h ph).1.pv ∧ TTLegal S P (negamax fuel s ply maxPly a b isPv h ph).2.tt

omit hS in
theorem nLoop_pv {fuel : Nat} (hn : NPv S P root N fuel) (b0 : Board) (hinv : Inv (fuel + 1) b0) (ply maxPly : Nat)
    (hreach : Reach root ply b0) (hply : ply < maxPly) (hmax : maxPly ≤ N) :
    ∀ (moves : List Move), (∀ m ∈ moves, m ∈ genPseudo b0) →
    ∀ (s : St) (beta : Int) (isPv : Bool) (pvMove : Option Move) (ph : UInt64) (rem : Nat) (acc : LoopAcc),
      vis s.board = vis b0 → TTLegal S P s.tt → P b0 (accPv acc) →
      P b0 (accPv (negamaxLoop fuel s moves ply maxPly beta isPv pvMove (Zobrist.hash b0) ph rem acc).1) ∧
      TTLegal S P (negamaxLoop fuel s moves ply maxPly beta isPv pvMove (Zobrist.hash b0) ph rem acc).2.2.tt := by
  have hwf := hinv.wf
  intro moves
  induction moves with
  | nil => intro _ s beta isPv pvMove ph rem acc _ htt hp; rw [negamaxLoop_nil]; exact ⟨hp, htt⟩
  | cons m rest ih =>
    intro hmem s beta isPv pvMove ph rem acc hs htt hp
    have hm : m ∈ genPseudo b0 := hmem m (List.mem_cons_self ..)
    have hg : Generated b0 m := Or.inl hm
    have hrest : ∀ m ∈ rest, m ∈ genPseudo b0 := fun x hx => hmem x (List.mem_cons_of_mem _ hx)
    have hmk : vis (make s.board m) = vis (make b0 m) := make_congr hs m
    rw [negamaxLoop_cons]
    split
    · exact ih hrest _ beta isPv pvMove ph rem acc (back hwf hg hmk) htt hp
    · rename_i hv
      obtain ⟨hi1, hv'⟩ := child_inv boardLaws hinv hs hg (by simpa using hv)
      have hhash : Zobrist.hash b0 ^^^ (Zobrist.xorOf m.f).1 = Zobrist.hash (make s.board m) := by
        rw [hash_congr hmk]
        exact (ZobristStep.hash_incremental (GenFacts.genPseudo_hashok hwf m hm)).symm
      have hreach' : Reach root (ply + 1) (make s.board m) := ⟨b0, m, hreach, hwf, hm, hv', hmk⟩
      obtain ⟨hc, htt'⟩ := hn { s with board := make s.board m } (ply + 1) maxPly (-beta) (-acc.alpha)
        (childPvOf isPv pvMove m) (Zobrist.hash b0 ^^^ (Zobrist.xorOf m.f).1) (ph ^^^ (Zobrist.xorOf m.f).2) hi1 hhash hreach'
        hply hmax htt
      have hr := negamax_ok boardLaws fuel { s with board := make s.board m } (ply + 1) maxPly (-beta) (-acc.alpha)
        (childPvOf isPv pvMove m) (Zobrist.hash b0 ^^^ (Zobrist.xorOf m.f).1) (ph ^^^ (Zobrist.xorOf m.f).2) hi1
      have hb := back hwf hg (hr.trans hmk)
      have hline : P b0 (m :: (negamax fuel { s with board := make s.board m } (ply + 1) maxPly (-beta) (-acc.alpha)
          (childPvOf isPv pvMove m) (Zobrist.hash b0 ^^^ (Zobrist.xorOf m.f).1) (ph ^^^ (Zobrist.xorOf m.f).2)).1.pv) :=
        LL.cons b0 m _ hwf hm hv' (LL.congr _ _ _ hmk hc)
      have hacc' : P b0 (accPv (accUpdate acc m (negamax fuel { s with board := make s.board m } (ply + 1) maxPly (-beta)
          (-acc.alpha) (childPvOf isPv pvMove m) (Zobrist.hash b0 ^^^ (Zobrist.xorOf m.f).1)
          (ph ^^^ (Zobrist.xorOf m.f).2)).1)) := by
        rcases accPv_update acc m (negamax fuel { s with board := make s.board m } (ply + 1) maxPly (-beta)
          (-acc.alpha) (childPvOf isPv pvMove m) (Zobrist.hash b0 ^^^ (Zobrist.xorOf m.f).1)
          (ph ^^^ (Zobrist.xorOf m.f).2)).1 with h1 | h1
        · rw [h1]; exact hline
        · rw [h1]; exact hp
      simp only
      split
      · exact ⟨hp, htt'⟩
      · split
        · exact ⟨hacc', htt'⟩
        · exact ih hrest _ beta isPv pvMove ph rem _ hb htt' hacc'

omit hS in
theorem finish_pv (c : Nat) (a b : Int) (rem : Nat) (b0 : Board) (hb0 : S b0) (r : LoopAcc × Bool × St)
    (hp : P b0 (accPv r.1)) (htt : TTLegal S P r.2.2.tt) :
    P b0 (finish c a b (Zobrist.hash b0) rem r).1.pv ∧ TTLegal S P (finish c a b (Zobrist.hash b0) rem r).2.tt := by
  obtain ⟨acc, ab, s⟩ := r
  unfold finish
  simp only
  split
  · exact ⟨by rw [VM.pv_none_none]; exact LL.nil _, htt⟩
  · split
    · exact ⟨by rw [VM.pv_leaf]; exact LL.nil _, htt⟩
    · split
      · refine ⟨hp, htt.insert _ _ ?_⟩
        intro b' hb' hh
        exact LL.transfer b0 b' _ hb0 hb' hh.symm hp
      · exact ⟨hp, htt⟩

theorem negamax_pv : ∀ fuel, NPv S P root N fuel := by
  intro fuel
  induction fuel with
  | zero =>
    intro s ply maxPly a b isPv h ph _ _ _ _ _ htt
    rw [negamax_zero]
    exact ⟨by rw [VM.pv_leaf]; exact LL.nil _, htt⟩
  | succ fuel ih =>
    intro s ply maxPly a b isPv h ph hinv hh hreach hply hmax htt
    have he : (enter s h).board = s.board := enter_board s h
    have hett : (enter s h).tt = s.tt := enter_tt s h
    have hinv3 : Inv (fuel + 1) (enter s h).board := by rw [he]; exact hinv
    have hnil : P s.board [] := LL.nil _
    have hSb : S s.board := hS s.board ply (Nat.le_trans hply hmax) hreach
    rw [negamax_succ]
    split
    · exact ⟨by rw [VM.pv_leaf]; exact hnil, by show TTLegal S P (pollStep s).tt; rw [pollStep_tt]; exact htt⟩
    · simp only
      split
      · exact ⟨by rw [VM.pv_leaf]; exact hnil, by rw [hett]; exact htt⟩
      · split
        · rename_i r x y heq
          refine ⟨?_, by rw [hett]; exact htt⟩
          -- a table hit: the stored chain of an entry found under the hash of this very position
          have hsome : ∃ e, (enter s h).tt.get? h = some e ∧ r = e.mv :=
            probe_hit (by rw [heq])
          obtain ⟨e, hget, rfl⟩ := hsome
          rw [hett] at hget
          exact htt h e hget s.board hSb hh.symm
        · split
          · exact ⟨by rw [VM.pv_leaf]; exact hnil, by rw [hett]; exact htt⟩
          · split
            · unfold horizon
              simp only
              split
              · refine ⟨?_, by rw [quiescence_tt, hett]; exact htt⟩
                rw [← he]
                exact quiescence_pv LL fuel (enter s h) _ _ (Inv_mono (Nat.le_succ fuel) hinv3)
              · exact ⟨by rw [VM.pv_leaf]; exact hnil, by rw [hett]; exact htt⟩
            · rename_i alpha beta _ _ hne
              have hlt : ply < maxPly := by
                have : ply ≠ maxPly := by simpa using hne
                omega
              have hreach3 : Reach root ply (enter s h).board := by rw [he]; exact hreach
              have hloop := nLoop_pv LL root N ih (enter s h).board hinv3 ply maxPly hreach3 hlt hmax
                (sortMoves (rootBuffer (enter s h) ply) (pvMoveOf (enter s h) isPv ply)
                  (ttMoveOf ((enter s h).tt.get? h)) (killerGet (enter s h).killers (maxPly - ply)))
                (fun m hm => mem_rootBuffer_genPseudo (mem_sortMoves.mp hm))
                (enter s h) beta isPv (pvMoveOf (enter s h) isPv ply) ph (maxPly - ply) (acc0 alpha) rfl
                (by rw [hett]; exact htt) (by rw [accPv_acc0]; exact LL.nil _)
              have hhe : h = Zobrist.hash (enter s h).board := by rw [he]; exact hh
              rw [← hhe] at hloop
              have hSb3 : S (enter s h).board := by rw [he]; exact hSb
              have hfin := finish_pv LL s.board.turn a beta (maxPly - ply) (enter s h).board hSb3 _ hloop.1 hloop.2
              rw [← hhe, he] at hfin
              exact hfin

/-! ## iterative deepening and `go` -/

theorem rootSearch_pv (s : St) (d : Nat) (hinv : Inv (fuelFor d) s.board) (hroot : vis s.board = vis root) (hd : d ≤ N)
    (htt : TTLegal S P s.tt) : P root (rootSearch s d).1.pv ∧ TTLegal S P (rootSearch s d).2.tt := by
  obtain ⟨h1, h2⟩ := negamax_pv LL root N hS (fuelFor d) s 0 d lossScore Gen.winScore s.pv.isSome (Zobrist.hash s.board)
    (Zobrist.pawnHash s.board) hinv rfl hroot (Nat.zero_le _) hd htt
  exact ⟨LL.congr _ _ _ hroot h1, h2⟩

/-- an output item that carries a PV carries a `P`-line of `root` -/
def PvOK (P : Board → List Move → Prop) (root : Board) : Out → Prop
  | .info _ _ _ _ (some l) => P root l
  | _ => True

omit LL hS in
theorem PvOK_poll {o : Out} (h : IsPollInfo o) : PvOK P root o := by
  cases o with
  | info d t n sc pv =>
    cases pv with
    | none => trivial
    | some l =>
      cases d <;> cases sc <;> exact h.elim
  | bestMove _ _ => trivial

theorem deepen_pv : ∀ (n : Nat) (s : St) (d mt : Nat) (best : Option VM) (u : Option (List Move)) (sc : Option Score),
    Inv (fuelFor d + n) root → vis s.board = vis root → d + n ≤ N + 1 → TTLegal S P s.tt → (∀ l, u = some l → P root l) →
    ∃ news, (deepen n s d mt best u sc).2.out = news ++ s.out ∧ ∀ o ∈ news, PvOK P root o := by
  intro n
  induction n with
  | zero => intro s d mt best u sc _ _ _ _ _; rw [deepen_zero]; exact ⟨[], rfl, by simp⟩
  | succ n ih =>
    intro s d mt best u sc hinv0 hs hdn htt hu
    have hinv : Inv (fuelFor d + (n + 1)) s.board := Inv_congr hs.symm hinv0
    have hwf : Inv (fuelFor d) s.board := Inv_mono (Nat.le_add_right _ _) hinv
    obtain ⟨hpv, htt'⟩ := rootSearch_pv LL root N hS s d hwf hs (by omega) htt
    obtain ⟨polls, hp, hpoll⟩ := rootSearch_rel (pollOnly_stepRel d) s
    have hout : (iterState (rootSearch s d) d sc u).out = (iterInfo (rootSearch s d) d sc u :: polls) ++ s.out := by
      rw [iterState_out, hp]; rfl
    have hinfo : PvOK P root (iterInfo (rootSearch s d) d sc u) := by
      unfold iterInfo
      split
      · cases u with
        | none => trivial
        | some l => exact hu l rfl
      · exact hpv
    have hone : ∀ o ∈ iterInfo (rootSearch s d) d sc u :: polls, PvOK P root o := by
      intro o ho
      rcases List.mem_cons.mp ho with rfl | ho
      · exact hinfo
      · exact PvOK_poll root (hpoll o ho)
    rw [deepen_succ]
    simp only
    split
    · exact ⟨_, hout, hone⟩
    · split
      · exact ⟨_, hout, hone⟩
      · obtain ⟨p, o, he⟩ := iterState_eq (rootSearch s d) d sc u
        have hb : vis (rootSearch s d).2.board = vis s.board := rootSearch_board boardLaws s d hwf
        obtain ⟨news, hn, hok⟩ := ih (iterState (rootSearch s d) d sc u) (d + 1) mt (some (rootSearch s d).1)
          (some (rootSearch s d).1.pv) (some (scoreFromValue (rootSearch s d).1.value (rootSearch s d).2.board))
          (Inv_mono (by unfold fuelFor; omega) hinv0) (by rw [he]; exact hb.trans hs) (by omega) (by rw [he]; exact htt')
          (by intro l hl; cases hl; exact hpv)
        refine ⟨news ++ (iterInfo (rootSearch s d) d sc u :: polls), by rw [hn, hout, List.append_assoc], ?_⟩
        intro o ho
        rcases List.mem_append.mp ho with h | h
        · exact hok o h
        · exact hone o h

end

/-- **every info of a `go` that carries a PV carries a `P`-line of the searched position** (`S` must contain the positions
at most `maxIter` legal moves below it) -/
theorem goCmd_pv_ok {S : Board → Prop} {P : Board → List Move → Prop} (s : St) (LL : LineLaws S P) (g : GoParams)
    (maxIter : Nat) (hS : ∀ b n, n ≤ maxIter → Reach s.board n b → S b) (hinv : Inv (goBudget maxIter) s.board)
    (o : Out) (ho : o ∈ (goCmd s g maxIter).out) (hnew : o ∉ s.out) : PvOK P s.board o := by
  obtain ⟨k, p, g', hprep⟩ := goPrep_eq s g
  have htt0 : TTLegal S P (goPrep s g).tt := by rw [hprep]; exact TTLegal.empty S P
  have hle := goIters_le g maxIter
  obtain ⟨news, hn, hok⟩ := deepen_pv LL s.board maxIter hS (goIters g maxIter) (goPrep s g) 1 (goMaxThinking (goPrep s g))
    none none none (Inv_mono (by unfold fuelFor goBudget; omega) hinv) (by rw [goPrep_board]) (by omega) htt0
    (by intro l hl; cases hl)
  rw [goCmd_eq] at ho
  change o ∈ _ :: (goDeepen s g maxIter).2.out at ho
  rcases List.mem_cons.mp ho with rfl | ho
  · trivial
  · unfold goDeepen at ho
    rw [hn, goPrep_out] at ho
    rcases List.mem_append.mp ho with h | h
    · exact hok o h
    · exact absurd h hnew

/-! ## instance: literally generated moves -/

/-- **no-collision idealisation** on a set of positions: equal Zobrist hash ⇒ equal visible position.  NOTE: the hash
does not cover the two clocks, so this also forbids transpositions that differ in a clock only (they are frequent);
`Proofs/SearchPvRules.lean` has the variant "equal up to the clocks". -/
def HashInjVis (S : Board → Prop) : Prop :=
  ∀ b1 b2, S b1 → S b2 → Zobrist.hash b1 = Zobrist.hash b2 → vis b1 = vis b2

theorem legalLine_laws {S : Board → Prop} (hinj : HashInjVis S) : LineLaws S LegalLine where
  nil := fun _ => trivial
  cons := fun _ _ _ _ hm hv hl => ⟨hm, hv, hl⟩
  congr := fun _ _ l h hl => LegalLine.congr h l hl
  transfer := fun b b' l hb hb' hh hl => LegalLine.congr (hinj b b' hb hb' hh) l hl

end Inkayaku.Search
