import Inkayaku.Proofs.GenFacts
/-!
# `make` computes the successor position of the rules (helper for C02)

`make_eq_apply : wf b → m ∈ genPseudo b → Abs.abs (make b m) = Spec.apply (Abs.abs b) (Abs.absMove m.f)`.

The two `Spec.Pos` structures are compared field by field, from `GenFacts b m.f` (what the generator guarantees about
the move) and `Env b` (what is used of well-formedness):

* `sq`: pointwise for every square index `q < 64`.  `make` is decomposed into "remove piece `p` from a square" (`rem`)
  and "put piece `p` on a square" (`add`) on the words of one side; a side at a fixed square is described by ONE piece
  code (`OneHot`: the word of code `c` has the bit, no other word has it), `rem`/`add` transform the code in the obvious
  way; the code pair (mover, other) at `q` determines the abstract piece (`cell`).
* side to move, the four castling rights (dropped by square in the code, by `touches` in the Spec), the e.p. target
  (`nextEp`, `NO_SQUARE = 0`, versus `some middle square`/`none`), the clocks.
-/
namespace Inkayaku.Successor
open Inkayaku.Board Inkayaku.WF Inkayaku.MakeUnmake Inkayaku.Attack Inkayaku.GenFacts Inkayaku.Abs

/-! ## One side at one square -/

/-- at square `q` the side `s` holds exactly the piece with code `c` (`c = 0`: none) -/
def OneHot (s : Side) (q c : Nat) : Prop := ∀ p, 1 ≤ p → p ≤ 6 → testU (s.get p) q = decide (p = c)

theorem pieceAt_bits (s : Side) (q : Nat) (hq : q < 64) : s.pieceAt q =
    if testU s.pawns q then 1 else if testU s.knights q then 2 else if testU s.bishops q then 3
    else if testU s.rooks q then 4 else if testU s.queens q then 5 else if testU s.kings q then 6 else 0 := by
  simp only [Side.pieceAt, Side.pieceAtMask, Bits.and_bitU_ne_zero _ q hq, PAWN, KNIGHT, BISHOP, ROOK, QUEEN, KING,
    NO_PIECE]

theorem onehot_of_excl {s : Side} {q : Nat} (hq : q < 64) (hd : (sideWords s).Pairwise (Excl q)) :
    OneHot s q (s.pieceAt q) := by
  intro p h1 h6
  cases h : testU (s.get p) q
  · symm; rw [decide_eq_false_iff_not]
    intro hp
    have h0 : s.pieceAt q ≠ 0 := by omega
    have := get_of_pieceAt s hq h0
    rw [← hp, h] at this; exact absurd this (by decide)
  · symm; rw [decide_eq_true_eq]
    exact (pieceAt_of_get s hq hd h1 h6 h).symm

theorem pieceAt_of_onehot {s : Side} {q c : Nat} (hq : q < 64) (hc : c ≤ 6) (h : OneHot s q c) : s.pieceAt q = c := by
  rw [pieceAt_bits s q hq]
  have e1 := h 1 (by decide) (by decide)
  have e2 := h 2 (by decide) (by decide)
  have e3 := h 3 (by decide) (by decide)
  have e4 := h 4 (by decide) (by decide)
  have e5 := h 5 (by decide) (by decide)
  have e6 := h 6 (by decide) (by decide)
  simp only [Side.get] at e1 e2 e3 e4 e5 e6
  rw [e1, e2, e3, e4, e5, e6]
  have : c = 0 ∨ c = 1 ∨ c = 2 ∨ c = 3 ∨ c = 4 ∨ c = 5 ∨ c = 6 := by omega
  rcases this with rfl | rfl | rfl | rfl | rfl | rfl | rfl <;> decide

theorem get_set_ne (s : Side) {p p' : Nat} (h : p ≠ p') (v : UInt64) : (s.set p v).get p' = s.get p' := by
  rcases p with _|_|_|_|_|_|_|p <;> rcases p' with _|_|_|_|_|_|_|p' <;> first | rfl | exact absurd rfl h

/-- remove the piece of code `p` from square `src` -/
def rem (s : Side) (p src : Nat) : Side := s.set p (clearBit (s.get p) (bitU src))
/-- put a piece of code `p` on square `tgt` -/
def add (s : Side) (p tgt : Nat) : Side := s.set p (s.get p ||| bitU tgt)

theorem onehot_rem {s : Side} {q c p src : Nat} (hs : src < 64) (hp1 : 1 ≤ p) (hp6 : p ≤ 6) (h : OneHot s q c)
    (hsrc : q = src → c = p) : OneHot (rem s p src) q (if q = src then 0 else c) := by
  intro p' h1 h6
  unfold rem
  by_cases hpp : p' = p
  · subst hpp
    rw [get_set_self _ h6, testU_clearBit _ _ _ hs, h p' h1 h6]
    by_cases hq : q = src
    · subst hq; simp; omega
    · have : ¬ src = q := fun e => hq e.symm
      simp [hq, this]
  · rw [get_set_ne _ (fun e => hpp e.symm), h p' h1 h6]
    by_cases hq : q = src
    · rw [hsrc hq]; simp [hq, hpp]; omega
    · simp [hq]

theorem onehot_add {s : Side} {q c p tgt : Nat} (ht : tgt < 64) (_hp1 : 1 ≤ p) (hp6 : p ≤ 6) (h : OneHot s q c)
    (htgt : q = tgt → c = 0) : OneHot (add s p tgt) q (if q = tgt then p else c) := by
  intro p' h1 h6
  unfold add
  by_cases hpp : p' = p
  · subst hpp
    rw [get_set_self _ h6, Bits.testU_or, Bits.testU_bitU _ _ ht, h p' h1 h6]
    by_cases hq : q = tgt
    · subst hq; simp
    · have : ¬ tgt = q := fun e => hq e.symm
      simp [hq, this]
  · rw [get_set_ne _ (fun e => hpp e.symm), h p' h1 h6]
    by_cases hq : q = tgt
    · rw [htgt hq]; simp [hq, hpp]; omega
    · simp [hq]

/-- writing the scratch word changes nothing -/
theorem onehot_set0 {s : Side} {q c : Nat} (v : UInt64) (h : OneHot s q c) : OneHot (s.set 0 v) q c := by
  intro p h1 h6
  rw [get_set_ne _ (by omega)]
  exact h p h1 h6

/-- dropping castling rights changes no piece word -/
theorem onehot_drop {s : Side} {q c : Nat} (k r : Bool) (h : OneHot s q c) : OneHot (dropRights s k r) q c := by
  intro p h1 h6
  have : (dropRights s k r).get p = s.get p := by unfold Side.get dropRights; split <;> rfl
  rw [this]; exact h p h1 h6

theorem add_rem (s : Side) (p src tgt : Nat) (hp : p ≤ 6) :
    add (rem s p src) p tgt = s.set p (clearBit (s.get p) (bitU src) ||| bitU tgt) := by
  unfold add rem; rw [get_set_self _ hp, set_set]

/-- take `p` from `src`, put `p'` on `tgt` (`p' = p`: an ordinary move; `p = PAWN`, `p'` a piece: a promotion) -/
theorem onehot_move {s : Side} {q c p p' src tgt : Nat} (hs : src < 64) (ht : tgt < 64) (hp1 : 1 ≤ p) (hp6 : p ≤ 6)
    (hp1' : 1 ≤ p') (hp6' : p' ≤ 6) (h : OneHot s q c) (hsrc : q = src → c = p) (htgt : q = tgt → c = 0) :
    OneHot (add (rem s p src) p' tgt) q (if q = tgt then p' else if q = src then 0 else c) := by
  apply onehot_add ht hp1' hp6' (onehot_rem hs hp1 hp6 h hsrc)
  intro hq
  split
  · rfl
  · exact htgt hq

/-! ## What `make` does to each side, as `rem`/`add` -/

theorem mkMover_normal {f : MoveF} (s : Side) (hc : f.castle = false) (he : f.enPassant = false)
    (hp : f.promotion = 0) (h6 : f.pieceMoved ≤ 6) :
    mkMover f s = add (rem (dropRights s f.selfLostKing f.selfLostQueen) f.pieceMoved f.source) f.pieceMoved f.target := by
  rw [add_rem _ _ _ _ h6]
  simp [mkMover, hc, he, hp, NO_PIECE]

theorem mkMover_promo {f : MoveF} (s : Side) (hc : f.castle = false) (he : f.enPassant = false)
    (hp : f.promotion ≠ 0) :
    mkMover f s = add (rem (dropRights s f.selfLostKing f.selfLostQueen) 1 f.source) f.promotion f.target := by
  have : (f.promotion != NO_PIECE) = true := by simpa [NO_PIECE] using hp
  simp only [mkMover, hc, he, this, Bool.false_eq_true, if_false, if_true]
  rfl

theorem mkMover_ep {f : MoveF} (s : Side) (hc : f.castle = false) (he : f.enPassant = true) :
    mkMover f s = add (rem (dropRights s f.selfLostKing f.selfLostQueen) 1 f.source) 1 f.target := by
  rw [add_rem _ _ _ _ (by decide)]
  simp only [mkMover, hc, he, Bool.false_eq_true, if_false, if_true]
  rfl

theorem mkMover_castle {f : MoveF} (s : Side) {rs rt : Nat} (hc : f.castle = true)
    (hr : castleRook f.target = some (rs, rt)) :
    mkMover f s = add (rem (add (rem (dropRights s f.selfLostKing f.selfLostQueen) 4 rs) 4 rt) 6 f.source) 6 f.target := by
  rw [add_rem _ _ _ _ (by decide), add_rem _ _ _ _ (by decide)]
  simp only [mkMover, hc, hr, if_true]
  rfl

theorem mkOther_normal {f : MoveF} (white : Bool) (s : Side) (hc : f.castle = false) (he : f.enPassant = false) :
    mkOther f white s = rem (dropRights s f.oppLostKing f.oppLostQueen) f.pieceAttacked f.target := by
  simp only [mkOther, hc, he, Bool.false_eq_true, if_false]
  rfl

theorem mkOther_ep {f : MoveF} (white : Bool) (s : Side) {v : Nat} (hc : f.castle = false) (he : f.enPassant = true)
    (hv : epVictim white (bitU f.target) = bitU v) :
    mkOther f white s = rem (dropRights s f.oppLostKing f.oppLostQueen) 1 v := by
  simp only [mkOther, hc, he, hv, Bool.false_eq_true, if_false, if_true]
  rfl

theorem mkOther_castle {f : MoveF} (white : Bool) (s : Side) (hc : f.castle = true) :
    mkOther f white s = dropRights s f.oppLostKing f.oppLostQueen := by
  simp only [mkOther, hc, if_true]

/-! ## The abstract piece on a square from the two piece codes -/

def cell (white : Bool) (m o : Nat) : Option Spec.Piece :=
  if white then (if m != 0 then some ⟨true, kindOf m⟩ else if o != 0 then some ⟨false, kindOf o⟩ else none)
  else (if o != 0 then some ⟨true, kindOf o⟩ else if m != 0 then some ⟨false, kindOf m⟩ else none)

theorem pieceOn_cell (b : Board) (q : Nat) :
    pieceOn b q = cell b.whiteTurn (b.active.pieceAt q) (b.passive.pieceAt q) := by
  unfold pieceOn cell Board.active Board.passive
  cases b.whiteTurn <;> simp

theorem pieceOn_make (b : Board) (f : MoveF) (q : Nat) :
    pieceOn (makeF b f) q =
      cell b.whiteTurn ((mkMover f b.active).pieceAt q) ((mkOther f b.whiteTurn b.passive).pieceAt q) := by
  rw [MakeUnmake.makeF_eq]
  unfold pieceOn cell
  cases b.whiteTurn <;> simp

theorem cell_mover (white : Bool) {m : Nat} (hm : m ≠ 0) : cell white m 0 = some ⟨white, kindOf m⟩ := by
  unfold cell; cases white <;> simp [hm]

theorem cell_none (white : Bool) : cell white 0 0 = none := by
  unfold cell; cases white <;> simp

/-! ## The Spec's successor with the moving piece known -/

def applySq (p : Spec.Pos) (m : Spec.SMove) (pc : Spec.Piece) : Array (Option Spec.Piece) :=
  let board := Spec.setSq p.sq m.src none
  let placed : Spec.Piece := match m.promo with | some k => ⟨pc.white, k⟩ | none => pc
  let board := Spec.setSq board m.tgt (some placed)
  let board :=
    if Spec.isEnPassant p m then Spec.setSq board (Spec.mkSq (Spec.fileOf m.tgt) (Spec.rowOf m.src)) none else board
  if Spec.isCastle p m then
    let (_, _, rs, rt) := Spec.castleSquares pc.white (Spec.fileOf m.tgt == 6)
    Spec.setSq (Spec.setSq board rs none) rt (some ⟨pc.white, .rook⟩)
  else board

theorem apply_eq {p : Spec.Pos} {m : Spec.SMove} {pc : Spec.Piece} (h : p.at m.src = some pc) :
    Spec.apply p m =
      { sq := applySq p m pc
        whiteToMove := !p.whiteToMove
        wk := p.wk && !(m.src == 60 || m.tgt == 60) && !(m.src == 63 || m.tgt == 63)
        wq := p.wq && !(m.src == 60 || m.tgt == 60) && !(m.src == 56 || m.tgt == 56)
        bk := p.bk && !(m.src == 4 || m.tgt == 4) && !(m.src == 7 || m.tgt == 7)
        bq := p.bq && !(m.src == 4 || m.tgt == 4) && !(m.src == 0 || m.tgt == 0)
        ep := if (pc.kind == .pawn && (Spec.rowOf m.tgt - Spec.rowOf m.src).natAbs == 2) = true
              then some (Spec.mkSq (Spec.fileOf m.src) ((Spec.rowOf m.src + Spec.rowOf m.tgt) / 2)) else none
        half := if (pc.kind == .pawn || Spec.isCapture p m) = true then 0 else p.half + 1
        full := if p.whiteToMove = true then p.full else p.full + 1 } := by
  unfold Spec.apply applySq
  rw [h]
  rfl

/-! ## The position before the move, seen through `abs` -/

theorem occ_active (b : Board) (q : Nat) :
    testU (b.white.full ||| b.black.full) q = testU (b.active.full ||| b.passive.full) q := by
  unfold Board.active Board.passive
  cases b.whiteTurn <;> simp [Bits.testU_or, Bool.or_comm]

theorem at_isSome' (b : Board) (q : Nat) :
    ((abs b).at q).isSome = testU (b.active.full ||| b.passive.full) q := by
  rw [at_isSome, occ_active]

theorem at_cell (b : Board) {q : Nat} (hq : q < 64) :
    (abs b).at q = cell b.whiteTurn (b.active.pieceAt q) (b.passive.pieceAt q) := by
  rw [abs_at, if_pos hq, pieceOn_cell]

theorem passive_empty_of_active {b : Board} (he : Env b) {q : Nat} (hq : q < 64) (h : testU b.active.full q = true) :
    b.passive.pieceAt q = 0 := (pieceAt_zero _ _ hq).mpr (he.cross q h)

theorem active_empty_of_passive {b : Board} (he : Env b) {q : Nat} (hq : q < 64) (h : testU b.passive.full q = true) :
    b.active.pieceAt q = 0 := by
  apply (pieceAt_zero _ _ hq).mpr
  cases hh : testU b.active.full q
  · rfl
  · rw [he.cross q hh] at h; exact absurd h (by decide)

theorem kindOf_pawn {p : Nat} (h1 : 1 ≤ p) (h6 : p ≤ 6) : (kindOf p == Spec.Kind.pawn) = (p == PAWN) := by
  have : p = 1 ∨ p = 2 ∨ p = 3 ∨ p = 4 ∨ p = 5 ∨ p = 6 := by omega
  rcases this with rfl | rfl | rfl | rfl | rfl | rfl <;> decide

theorem kindOf_king {p : Nat} (h1 : 1 ≤ p) (h6 : p ≤ 6) : (kindOf p == Spec.Kind.king) = (p == KING) := by
  have : p = 1 ∨ p = 2 ∨ p = 3 ∨ p = 4 ∨ p = 5 ∨ p = 6 := by omega
  rcases this with rfl | rfl | rfl | rfl | rfl | rfl <;> decide

section
variable {b : Board} {f : MoveF}

/-- the piece the Spec finds on the source square -/
theorem at_src (he : Env b) (hf : GenFacts b f) :
    (abs b).at (absMove f).src = some ⟨b.whiteTurn, kindOf f.pieceMoved⟩ := by
  obtain ⟨-, -, -, -, hpm, -, -, -, -, -, -, -, -, -, hcall⟩ := hf
  obtain ⟨hs, -, hp1, hp6, hsrc, -⟩ := hcall
  show (abs b).at f.source = _
  rw [at_cell b hs, ← hpm, passive_empty_of_active he hs (get_le_full _ hp1 hp6 hsrc)]
  exact cell_mover _ (by omega)

theorem isEnPassant_eq (he : Env b) (hf : GenFacts b f) : Spec.isEnPassant (abs b) (absMove f) = f.enPassant := by
  have hat := at_src he hf
  obtain ⟨-, -, -, -, -, -, -, -, -, -, -, -, -, -, hcall⟩ := hf
  obtain ⟨hs, ht, hp1, hp6, hsrc, htgt, -, -, hep, -, hpawn, hnp, -⟩ := hcall
  unfold Spec.isEnPassant
  rw [hat]
  simp only [kindOf_pawn hp1 hp6]
  show (f.pieceMoved == PAWN && (abs b).ep == some f.target && Spec.fileOf f.source != Spec.fileOf f.target
    && ((abs b).at f.target).isNone) = f.enPassant
  have hnone : ((abs b).at f.target).isNone = !testU (b.active.full ||| b.passive.full) f.target := by
    rw [← at_isSome']; cases (abs b).at f.target <;> rfl
  rw [hnone]
  cases hee : f.enPassant
  · -- not e.p.: a pawn move that changes file captures a piece standing on the target
    by_cases hp : f.pieceMoved = PAWN
    · obtain ⟨-, -, hfile, -⟩ := hpawn hp
      by_cases hfl : f.source % 8 = f.target % 8
      · have : (Spec.fileOf f.source != Spec.fileOf f.target) = false := by
          simp only [Spec.fileOf, bne_eq_false_iff_eq]; omega
        simp [this]
      · rcases hfile hfl with h | h
        · rw [hee] at h; exact absurd h (by decide)
        · have : testU (b.active.full ||| b.passive.full) f.target = true := testU_or_right h
          simp [this]
    · have : (f.pieceMoved == PAWN) = false := by simpa using hp
      simp [this]
  · obtain ⟨hpp, -, -, -, hbe, hb0, hempty, hfl, -⟩ := hep hee
    have h1 : (f.pieceMoved == PAWN) = true := by simp [hpp]
    have h2 : ((abs b).ep == some f.target) = true := by
      have : (b.ep == 0) = false := by simpa using hb0
      show ((if (b.ep == 0) = true then none else some b.ep : Option Nat) == some f.target) = true
      rw [this, hbe]; simp
    have h3 : (Spec.fileOf f.source != Spec.fileOf f.target) = true := by
      simp only [Spec.fileOf, bne_iff_ne, ne_eq]; omega
    rw [h1, h2, h3, hempty]; rfl

theorem isCastle_eq (he : Env b) (hf : GenFacts b f) : Spec.isCastle (abs b) (absMove f) = f.castle := by
  have hat := at_src he hf
  obtain ⟨-, -, -, -, -, -, -, -, -, -, -, -, -, -, hcall⟩ := hf
  obtain ⟨hs, ht, hp1, hp6, -, -, -, hcastle, -, -, -, -, hkstep⟩ := hcall
  unfold Spec.isCastle
  rw [hat]
  simp only [kindOf_king hp1 hp6]
  show (f.pieceMoved == KING && (Spec.fileOf f.target - Spec.fileOf f.source).natAbs == 2) = f.castle
  cases hc : f.castle
  · by_cases hk : f.pieceMoved = KING
    · have := hkstep hk hc
      have : ((Spec.fileOf f.target - Spec.fileOf f.source).natAbs == 2) = false := by
        simp only [Spec.fileOf, beq_eq_false_iff_ne, ne_eq]; omega
      simp [this]
    · have : (f.pieceMoved == KING) = false := by simpa using hk
      simp [this]
  · obtain ⟨hpk, -, -, -, hsE, -, hside⟩ := hcastle hc
    have h1 : (f.pieceMoved == KING) = true := by simp [hpk]
    rw [h1, Bool.true_and]
    simp only [Spec.fileOf, beq_iff_eq]
    unfold dHome at hsE hside
    simp only [E1, C1, G1] at hsE hside
    cases hw : b.whiteTurn <;> rw [hw] at hsE hside <;> rcases hside with ⟨h, -⟩ | ⟨h, -⟩ <;> rw [hsE, h] <;> decide

theorem isCapture_eq (he : Env b) (hf : GenFacts b f) :
    Spec.isCapture (abs b) (absMove f) = (f.pieceAttacked != NO_PIECE) := by
  have hiep := isEnPassant_eq he hf
  obtain ⟨-, -, -, -, -, hcs, -, hpa0, -, -, -, -, -, -, hcall⟩ := hf
  obtain ⟨hs, ht, hp1, hp6, -, htgt, -, -, hep, -, -, -, -⟩ := hcall
  unfold Spec.isCapture
  rw [hiep]
  show (((abs b).at f.target).isSome || f.enPassant) = _
  rw [at_isSome', Bits.testU_or, htgt, Bool.false_or]
  cases hee : f.enPassant
  · simp only [capSq, hee, Bool.false_eq_true, if_false] at hpa0
    cases hP : testU b.passive.full f.target
    · have := hpa0.mpr hP; simp [this, NO_PIECE]
    · have : f.pieceAttacked ≠ 0 := fun h => by rw [hpa0.mp h] at hP; exact absurd hP (by decide)
      simp [this, NO_PIECE]
  · obtain ⟨-, -, -, -, -, -, -, -, hv⟩ := hep hee
    have : testU b.passive.full (capSq b.whiteTurn f.enPassant f.target) = true := by
      simp only [capSq, hee, if_true]
      split at hv <;> simp_all <;> exact get_le_full b.passive (p := 1) (by decide) (by decide) hv.2
    have : f.pieceAttacked ≠ 0 := fun h => by rw [hpa0.mp h] at this; exact absurd this (by decide)
    simp [this, NO_PIECE]

end

/-! ## Castling rights: dropped by square in the code, by `touches` in the Spec -/

theorem mkMover_ks (f : MoveF) (s : Side) : (mkMover f s).ks = (if f.selfLostKing then false else s.ks) := by
  unfold mkMover dropRights
  cases f.castle <;> cases f.enPassant <;> cases (f.promotion != NO_PIECE) <;> cases castleRook f.target <;>
    simp [ks_set]
theorem mkMover_qs (f : MoveF) (s : Side) : (mkMover f s).qs = (if f.selfLostQueen then false else s.qs) := by
  unfold mkMover dropRights
  cases f.castle <;> cases f.enPassant <;> cases (f.promotion != NO_PIECE) <;> cases castleRook f.target <;>
    simp [qs_set]
theorem mkOther_ks (f : MoveF) (w : Bool) (s : Side) : (mkOther f w s).ks = (if f.oppLostKing then false else s.ks) := by
  unfold mkOther dropRights
  cases f.castle <;> cases f.enPassant <;> simp [ks_set]
theorem mkOther_qs (f : MoveF) (w : Bool) (s : Side) : (mkOther f w s).qs = (if f.oppLostQueen then false else s.qs) := by
  unfold mkOther dropRights
  cases f.castle <;> cases f.enPassant <;> simp [qs_set]

theorem right_mover {r : Bool} {src tgt kh rh : Nat} (h : r = true → tgt ≠ kh ∧ tgt ≠ rh) :
    (if (r && (src == rh || src == kh)) = true then false else r)
      = (r && !(src == kh || tgt == kh) && !(src == rh || tgt == rh)) := by
  cases r
  · rfl
  · obtain ⟨h1, h2⟩ := h rfl
    have e1 : (tgt == kh) = false := by simpa using h1
    have e2 : (tgt == rh) = false := by simpa using h2
    rw [e1, e2]
    cases (src == rh) <;> cases (src == kh) <;> rfl

theorem right_other {r : Bool} {src tgt kh rh : Nat} (h : r = true → src ≠ kh ∧ src ≠ rh ∧ tgt ≠ kh) :
    (if (r && tgt == rh) = true then false else r)
      = (r && !(src == kh || tgt == kh) && !(src == rh || tgt == rh)) := by
  cases r
  · rfl
  · obtain ⟨h1, h2, h3⟩ := h rfl
    have e1 : (src == kh) = false := by simpa using h1
    have e2 : (src == rh) = false := by simpa using h2
    have e3 : (tgt == kh) = false := by simpa using h3
    rw [e1, e2, e3]
    cases (tgt == rh) <;> rfl

theorem ne_of_bits {x : UInt64} {a c : Nat} (ha : testU x a = true) (hc : testU x c = false) : c ≠ a := by
  intro h; rw [h, ha] at hc; exact absurd hc (by decide)

section
variable {b : Board} {f : MoveF}

/-- **the four castling rights after the move** are the Spec's: a right survives iff it was held and neither its
king's nor its rook's home square is the source or the target of the move -/
theorem rights_eq (he : Env b) (hf : GenFacts b f) :
    (makeF b f).white.ks = (b.white.ks && !(f.source == 60 || f.target == 60) && !(f.source == 63 || f.target == 63)) ∧
    (makeF b f).white.qs = (b.white.qs && !(f.source == 60 || f.target == 60) && !(f.source == 56 || f.target == 56)) ∧
    (makeF b f).black.ks = (b.black.ks && !(f.source == 4 || f.target == 4) && !(f.source == 7 || f.target == 7)) ∧
    (makeF b f).black.qs = (b.black.qs && !(f.source == 4 || f.target == 4) && !(f.source == 0 || f.target == 0)) := by
  obtain ⟨hturn, -, -, -, -, -, -, -, -, -, hoq, hok, hsq, hsk, hcall⟩ := hf
  obtain ⟨hs, ht, hp1, hp6, hsrc, htgt, hking, -⟩ := hcall
  have hAsrc : testU b.active.full f.source = true := get_le_full _ hp1 hp6 hsrc
  have hPsrc : testU b.passive.full f.source = false := he.cross _ hAsrc
  have hw := he.w
  -- a home square holding a piece of the mover is not the target; one holding a piece of the other side is not the
  -- source; the other side's king square is not the target
  have mover : ∀ {p k : Nat}, 1 ≤ p → p ≤ 6 → testU (b.active.get p) k = true → f.target ≠ k :=
    fun h1 h6 h => ne_of_bits (get_le_full _ h1 h6 h) htgt
  have other : ∀ {p k : Nat}, 1 ≤ p → p ≤ 6 → testU (b.passive.get p) k = true → f.source ≠ k :=
    fun h1 h6 h => ne_of_bits (get_le_full _ h1 h6 h) hPsrc
  have oking : ∀ {k : Nat}, testU b.passive.kings k = true → f.target ≠ k := fun h => ne_of_bits h hking
  rw [MakeUnmake.makeF_eq]
  cases hwt : b.whiteTurn
  · have hA : b.active = b.black := by simp [Board.active, hwt]
    have hP : b.passive = b.white := by simp [Board.passive, hwt]
    rw [hA] at mover hsk hsq; rw [hP] at other oking hok hoq
    simp only [hwt, dHome, Bool.false_eq_true, if_false, H1, E1, A1, A8, H8, Nat.reduceSub, Nat.reduceAdd] at hsk hsq hok hoq
    simp only [Bool.false_eq_true, if_false]
    rw [mkOther_ks, mkOther_qs, mkMover_ks, mkMover_qs, hA, hP, hsk, hsq, hok, hoq]
    refine ⟨right_other ?_, ?_, right_mover ?_, right_mover ?_⟩
    · intro h; have := hw.wks h
      exact ⟨other (p := 6) (by decide) (by decide) this.1, other (p := 4) (by decide) (by decide) this.2, oking this.1⟩
    · have := @right_other b.white.qs f.source f.target 60 56 (fun h => by
        have := hw.wqs h
        exact ⟨other (p := 6) (by decide) (by decide) this.1, other (p := 4) (by decide) (by decide) this.2, oking this.1⟩)
      exact this
    · intro h; have := hw.bks h
      exact ⟨mover (p := 6) (by decide) (by decide) this.1, mover (p := 4) (by decide) (by decide) this.2⟩
    · intro h; have := hw.bqs h
      exact ⟨mover (p := 6) (by decide) (by decide) this.1, mover (p := 4) (by decide) (by decide) this.2⟩
  · have hA : b.active = b.white := by simp [Board.active, hwt]
    have hP : b.passive = b.black := by simp [Board.passive, hwt]
    rw [hA] at mover hsk hsq; rw [hP] at other oking hok hoq
    simp only [hwt, dHome, if_true, H1, E1, A1, A8, H8, Nat.sub_zero, Nat.add_zero] at hsk hsq hok hoq
    simp only [if_true]
    rw [mkOther_ks, mkOther_qs, mkMover_ks, mkMover_qs, hA, hP, hsk, hsq, hok, hoq]
    refine ⟨right_mover ?_, right_mover ?_, right_other ?_, right_other ?_⟩
    · intro h; have := hw.wks h
      exact ⟨mover (p := 6) (by decide) (by decide) this.1, mover (p := 4) (by decide) (by decide) this.2⟩
    · intro h; have := hw.wqs h
      exact ⟨mover (p := 6) (by decide) (by decide) this.1, mover (p := 4) (by decide) (by decide) this.2⟩
    · intro h; have := hw.bks h
      exact ⟨other (p := 6) (by decide) (by decide) this.1, other (p := 4) (by decide) (by decide) this.2, oking this.1⟩
    · intro h; have := hw.bqs h
      exact ⟨other (p := 6) (by decide) (by decide) this.1, other (p := 4) (by decide) (by decide) this.2, oking this.1⟩

end

/-! ## E.p. target and clocks -/

section
variable {b : Board} {f : MoveF}

/-- the next e.p. target: the code's `nextEp` (0 = none) is the Spec's "middle square after a double step" -/
theorem ep_eq (_he : Env b) (hf : GenFacts b f) :
    (if (f.nextEp == 0) = true then none else some f.nextEp) =
      (if (kindOf f.pieceMoved == Spec.Kind.pawn && (Spec.rowOf f.target - Spec.rowOf f.source).natAbs == 2) = true
       then some (Spec.mkSq (Spec.fileOf f.source) ((Spec.rowOf f.source + Spec.rowOf f.target) / 2)) else none) := by
  obtain ⟨-, -, -, -, -, -, -, -, -, -, -, -, -, -, hcall⟩ := hf
  obtain ⟨hs, ht, hp1, hp6, -, -, -, -, -, -, hpawn, hnp, -⟩ := hcall
  rw [kindOf_pawn hp1 hp6]
  by_cases hp : f.pieceMoved = PAWN
  · obtain ⟨-, -, -, h4⟩ := hpawn hp
    have e1 : (f.pieceMoved == PAWN) = true := by simp [hp]
    rw [e1, Bool.true_and]
    by_cases h0 : f.nextEp = 0
    · rw [if_pos h0] at h4
      have : ((Spec.rowOf f.target - Spec.rowOf f.source).natAbs == 2) = false := by
        simp only [Spec.rowOf, beq_eq_false_iff_ne, ne_eq]
        split at h4 <;> omega
      simp [h0, this]
    · rw [if_neg h0] at h4
      obtain ⟨-, -, -, h5⟩ := h4
      have e2 : ((Spec.rowOf f.target - Spec.rowOf f.source).natAbs == 2) = true := by
        simp only [Spec.rowOf, beq_iff_eq]
        split at h5 <;> omega
      have e3 : Spec.mkSq (Spec.fileOf f.source) ((Spec.rowOf f.source + Spec.rowOf f.target) / 2) = f.nextEp := by
        simp only [Spec.rowOf, Spec.fileOf, Spec.mkSq]
        split at h5 <;> omega
      have e4 : (f.nextEp == 0) = false := by simpa using h0
      rw [e2, e3, e4]; rfl
  · have h0 := (hnp hp).2.2
    have e1 : (f.pieceMoved == PAWN) = false := by simpa using hp
    rw [e1, h0]; rfl

theorem side_eq (hf : GenFacts b f) : ((1 - b.turn) == 0) = !(b.turn == 0) := by
  have hturn := hf.1
  have : b.turn = 0 ∨ b.turn = 1 := by omega
  rcases this with h | h <;> rw [h] <;> rfl

theorem full_eq (hf : GenFacts b f) :
    b.fullmove + b.turn = (if (b.turn == 0) = true then b.fullmove else b.fullmove + 1) := by
  have hturn := hf.1
  have : b.turn = 0 ∨ b.turn = 1 := by omega
  rcases this with h | h <;> rw [h] <;> rfl

theorem half_eq (he : Env b) (hf : GenFacts b f) :
    (if f.halfmoveReset = true then 0 else b.halfmove + 1) =
      (if (kindOf f.pieceMoved == Spec.Kind.pawn || Spec.isCapture (abs b) (absMove f)) = true then 0
       else b.halfmove + 1) := by
  rw [isCapture_eq he hf]
  obtain ⟨-, -, -, -, -, -, -, -, -, hreset, -, -, -, -, hcall⟩ := hf
  obtain ⟨-, -, hp1, hp6, -⟩ := hcall
  rw [kindOf_pawn hp1 hp6, hreset]

/-- the fields of a position other than the piece placement -/
def MetaEq (p p' : Spec.Pos) : Prop :=
  p.whiteToMove = p'.whiteToMove ∧ p.wk = p'.wk ∧ p.wq = p'.wq ∧ p.bk = p'.bk ∧ p.bq = p'.bq ∧ p.ep = p'.ep ∧
  p.half = p'.half ∧ p.full = p'.full

/-- **side to move, castling rights, e.p. target and both clocks after `make` are the Spec's — every move kind** -/
theorem meta_eq (he : Env b) (hf : GenFacts b f) : MetaEq (abs (makeF b f)) (Spec.apply (abs b) (absMove f)) := by
  rw [apply_eq (at_src he hf)]
  obtain ⟨r1, r2, r3, r4⟩ := rights_eq he hf
  exact ⟨side_eq hf, r1, r2, r3, r4, ep_eq he hf, half_eq he hf, full_eq hf⟩

end

/-! ## Piece placement -/

theorem sq_ext (b' : Board) (arr : Array (Option Spec.Piece)) (hsize : arr.size = 64)
    (h : ∀ q (hq : q < 64), arr[q]'(by omega) = pieceOn b' q) : (abs b').sq = arr := by
  apply Array.ext
  · simp [abs, hsize]
  · intro q h1 h2
    have hq : q < 64 := by omega
    rw [h q hq]
    simp [abs]

theorem base_size (b : Board) : ((abs b).sq).size = 64 := by simp [abs]
theorem base_get (b : Board) (q : Nat) (hq : q < ((abs b).sq).size) : ((abs b).sq)[q] = pieceOn b q := by simp [abs]

section
variable {b : Board} {f : MoveF}

/-- piece codes of both sides at `q` after an ordinary move, a capture or a promotion -/
theorem codes_plain (he : Env b) (hf : GenFacts b f) (hc : f.castle = false) (hee : f.enPassant = false)
    {q : Nat} (hq : q < 64) :
    (mkMover f b.active).pieceAt q =
      (if q = f.target then (if f.promotion = 0 then f.pieceMoved else f.promotion)
       else if q = f.source then 0 else b.active.pieceAt q) ∧
    (mkOther f b.whiteTurn b.passive).pieceAt q = (if q = f.target then 0 else b.passive.pieceAt q) := by
  obtain ⟨-, -, -, -, hpm, hcs, hpa, -, -, -, -, -, -, -, hcall⟩ := hf
  obtain ⟨hs, ht, hp1, hp6, hsrc, htgt, -, -, -, hpromo, -, -, -⟩ := hcall
  have hA := onehot_drop f.selfLostKing f.selfLostQueen (onehot_of_excl hq (he.act q))
  have hO := onehot_drop f.oppLostKing f.oppLostQueen (onehot_of_excl hq (he.pas q))
  have hAt : q = f.target → b.active.pieceAt q = 0 := fun h => by rw [h]; exact (pieceAt_zero _ _ ht).mpr htgt
  have hA6 := pieceAt_le b.active q
  have hO6 := pieceAt_le b.passive q
  simp only [capSq, hee, Bool.false_eq_true, if_false] at hpa
  constructor
  · by_cases hp : f.promotion = 0
    · rw [mkMover_normal _ hc hee hp hp6, if_pos hp]
      refine pieceAt_of_onehot hq ?_
        (onehot_move hs ht hp1 hp6 hp1 hp6 hA (fun h => by rw [h]; exact hpm.symm) hAt)
      split <;> (try split) <;> omega
    · obtain ⟨hpp, h2, h5⟩ := hpromo hp
      rw [mkMover_promo _ hc hee hp, if_neg hp]
      refine pieceAt_of_onehot hq ?_
        (onehot_move hs ht (by decide) (by decide) (by omega) (by omega) hA
          (fun h => by rw [h, ← hpm, hpp]; rfl) hAt)
      split <;> (try split) <;> omega
  · rw [mkOther_normal _ _ hc hee]
    by_cases h0 : f.pieceAttacked = 0
    · have : b.passive.pieceAt q = (if q = f.target then 0 else b.passive.pieceAt q) := by
        split
        · next h => rw [h, ← hpa, h0]
        · rfl
      rw [← this, h0]
      exact pieceAt_of_onehot hq hO6 (onehot_set0 _ hO)
    · have h6 : f.pieceAttacked ≤ 6 := by rw [hpa]; exact pieceAt_le _ _
      refine pieceAt_of_onehot hq ?_
        (onehot_rem ht (by omega) h6 hO (fun h => by rw [h]; exact hpa.symm))
      split <;> omega

/-- piece codes of both sides at `q` after an en-passant capture -/
theorem codes_ep (he : Env b) (hf : GenFacts b f) (hee : f.enPassant = true) {q : Nat} (hq : q < 64) :
    (mkMover f b.active).pieceAt q = (if q = f.target then 1 else if q = f.source then 0 else b.active.pieceAt q) ∧
    (mkOther f b.whiteTurn b.passive).pieceAt q =
      (if q = capSq b.whiteTurn true f.target then 0 else b.passive.pieceAt q) := by
  obtain ⟨-, -, -, -, hpm, hcs, -, -, -, -, -, -, -, -, hcall⟩ := hf
  obtain ⟨hs, ht, hp1, hp6, hsrc, htgt, -, -, hep, -, -, -, -⟩ := hcall
  obtain ⟨hpp, hc, -, -, -, -, -, -, hv⟩ := hep hee
  rw [hee] at hcs
  have hA := onehot_drop f.selfLostKing f.selfLostQueen (onehot_of_excl hq (he.act q))
  have hO := onehot_drop f.oppLostKing f.oppLostQueen (onehot_of_excl hq (he.pas q))
  have hAt : q = f.target → b.active.pieceAt q = 0 := fun h => by rw [h]; exact (pieceAt_zero _ _ ht).mpr htgt
  have hA6 := pieceAt_le b.active q
  have hO6 := pieceAt_le b.passive q
  constructor
  · rw [mkMover_ep _ hc hee]
    refine pieceAt_of_onehot hq ?_
      (onehot_move hs ht (by decide) (by decide) (by decide) (by decide) hA
        (fun h => by rw [h, ← hpm, hpp]; rfl) hAt)
    split <;> (try split) <;> omega
  · have hvm : epVictim b.whiteTurn (bitU f.target) = bitU (capSq b.whiteTurn true f.target) ∧
        testU b.passive.pawns (capSq b.whiteTurn true f.target) = true := by
      unfold epVictim capSq
      cases hw : b.whiteTurn <;> rw [hw] at hv
      · simp only [Bool.false_eq_true, if_false] at hv ⊢
        exact ⟨GenOK.shr8 _ ht hv.1, hv.2⟩
      · simp only [if_true] at hv ⊢
        exact ⟨GenOK.shl8 _ (by omega), hv.2⟩
    rw [mkOther_ep _ _ hc hee hvm.1]
    refine pieceAt_of_onehot hq ?_
      (onehot_rem hcs (by decide) (by decide) hO
        (fun h => by rw [h]; exact pieceAt_of_get _ hcs (he.pas _) (by decide) (by decide) hvm.2))
    split <;> omega

/-- the four squares of a castling move -/
theorem castle_squares (hf : GenFacts b f) (hc : f.castle = true) :
    ∃ rs rt, castleRook f.target = some (rs, rt) ∧
      Spec.castleSquares b.whiteTurn (Spec.fileOf f.target == 6) = (f.source, f.target, rs, rt) ∧
      rs < 64 ∧ rt < 64 ∧ f.source ≠ f.target ∧ f.source ≠ rs ∧ f.source ≠ rt ∧ f.target ≠ rs ∧ f.target ≠ rt ∧ rs ≠ rt ∧
      testU b.active.rooks rs = true ∧ testU (b.active.full ||| b.passive.full) rt = false ∧
      testU (b.active.full ||| b.passive.full) f.target = false ∧ f.pieceMoved = KING := by
  obtain ⟨-, -, -, -, -, -, -, -, -, -, -, -, -, -, hcall⟩ := hf
  obtain ⟨-, -, -, -, -, -, -, hcastle, -⟩ := hcall
  obtain ⟨hpk, -, -, -, hsE, hfree, hside⟩ := hcastle hc
  unfold dHome at hsE hside
  simp only [E1, C1, G1, A1, D1, H1, F1] at hsE hside
  cases hw : b.whiteTurn <;> rw [hw] at hsE hside <;> rcases hside with ⟨h, -, hr, hfr⟩ | ⟨h, -, hr, hfr⟩ <;>
    rw [h] at hfree ⊢ <;> rw [hsE]
  · exact ⟨0, 3, by decide, by decide, by decide, by decide, by decide, by decide, by decide, by decide, by decide,
      by decide, hr, hfr, hfree, hpk⟩
  · exact ⟨7, 5, by decide, by decide, by decide, by decide, by decide, by decide, by decide, by decide, by decide,
      by decide, hr, hfr, hfree, hpk⟩
  · exact ⟨56, 59, by decide, by decide, by decide, by decide, by decide, by decide, by decide, by decide, by decide,
      by decide, hr, hfr, hfree, hpk⟩
  · exact ⟨63, 61, by decide, by decide, by decide, by decide, by decide, by decide, by decide, by decide, by decide,
      by decide, hr, hfr, hfree, hpk⟩

/-- piece codes of both sides at `q` after castling -/
theorem codes_castle (he : Env b) (hf : GenFacts b f) (hc : f.castle = true) {rs rt : Nat}
    (hr : castleRook f.target = some (rs, rt)) (hrs : rs < 64) (hrt : rt < 64)
    (hd : f.source ≠ rs ∧ f.source ≠ rt ∧ f.target ≠ rs ∧ f.target ≠ rt)
    (hrook : testU b.active.rooks rs = true) (hfr : testU (b.active.full ||| b.passive.full) rt = false)
    (hpk : f.pieceMoved = KING) {q : Nat} (hq : q < 64) :
    (mkMover f b.active).pieceAt q =
      (if q = f.target then 6 else if q = f.source then 0 else if q = rt then 4 else if q = rs then 0
       else b.active.pieceAt q) ∧
    (mkOther f b.whiteTurn b.passive).pieceAt q = b.passive.pieceAt q := by
  obtain ⟨-, -, -, -, hpm, -, -, -, -, -, -, -, -, -, hcall⟩ := hf
  obtain ⟨hs, ht, -, -, -, htgt, -, -⟩ := hcall
  have hA := onehot_drop f.selfLostKing f.selfLostQueen (onehot_of_excl hq (he.act q))
  have hO := onehot_drop f.oppLostKing f.oppLostQueen (onehot_of_excl hq (he.pas q))
  have hA6 := pieceAt_le b.active q
  constructor
  · rw [mkMover_castle _ hc hr]
    have h1 := onehot_move (p := 4) (p' := 4) hrs hrt (by decide) (by decide) (by decide) (by decide) hA
      (fun h => by rw [h]; exact pieceAt_of_get _ hrs (he.act _) (by decide) (by decide) hrook)
      (fun h => by rw [h]; exact (pieceAt_zero _ _ hrt).mpr (occ_false hfr).1)
    refine pieceAt_of_onehot hq ?_ (onehot_move hs ht (by decide) (by decide) (by decide)
      (by decide) h1 (fun h => ?_) (fun h => ?_))
    · repeat' split
      all_goals omega
    · rw [if_neg (by omega), if_neg (by omega), h, ← hpm, hpk]; rfl
    · rw [if_neg (by omega), if_neg (by omega), h]; exact (pieceAt_zero _ _ ht).mpr htgt
  · rw [mkOther_castle _ _ hc]
    exact pieceAt_of_onehot hq (pieceAt_le _ _) hO

end

section
variable {b : Board} {f : MoveF}

/-- **piece placement after an ordinary move, a capture or a promotion (with or without capture)** -/
theorem sq_plain (he : Env b) (hf : GenFacts b f) (hc : f.castle = false) (hee : f.enPassant = false) :
    (abs (makeF b f)).sq = applySq (abs b) (absMove f) ⟨b.whiteTurn, kindOf f.pieceMoved⟩ := by
  unfold applySq
  rw [isEnPassant_eq he hf, isCastle_eq he hf, hc, hee]
  simp only [Bool.false_eq_true, if_false]
  refine sq_ext _ _ (by simp [Spec.setSq, abs]) ?_
  intro q hq
  simp only [Spec.setSq, Array.getElem_setIfInBounds, Array.size_setIfInBounds, base_size, hq, base_get, absMove]
  obtain ⟨hM, hO⟩ := codes_plain he hf hc hee hq
  rw [pieceOn_make, hM, hO]
  obtain ⟨-, -, -, -, -, -, -, -, -, -, -, -, -, -, hcall⟩ := hf
  obtain ⟨hs, ht, hp1, hp6, hsrc, -, -, -, -, hpromo, -, -, -⟩ := hcall
  by_cases h1 : q = f.target
  · rw [h1]
    simp only [↓reduceIte]
    by_cases hp : f.promotion = 0
    · simp only [hp, beq_self_eq_true, ↓reduceIte]
      exact (cell_mover _ (by omega)).symm
    · have hb : (f.promotion == 0) = false := by simpa using hp
      simp only [hb, hp, ↓reduceIte, Bool.false_eq_true]
      exact (cell_mover _ hp).symm
  · have h1' : ¬ f.target = q := fun e => h1 e.symm
    by_cases h2 : q = f.source
    · rw [h2] at h1 h1' ⊢
      simp only [h1, h1', ↓reduceIte]
      rw [passive_empty_of_active he hs (get_le_full _ hp1 hp6 hsrc)]
      exact (cell_none _).symm
    · have h2' : ¬ f.source = q := fun e => h2 e.symm
      simp only [h1, h1', h2, h2', ↓reduceIte]
      exact pieceOn_cell b q

end

section
variable {b : Board} {f : MoveF}

/-- **piece placement after an en-passant capture**: the capturing pawn lands on the e.p. square, the captured pawn
disappears from the square behind it -/
theorem sq_ep (he : Env b) (hf : GenFacts b f) (hee : f.enPassant = true) :
    (abs (makeF b f)).sq = applySq (abs b) (absMove f) ⟨b.whiteTurn, kindOf f.pieceMoved⟩ := by
  have hf' := hf
  obtain ⟨-, -, -, -, -, -, -, -, -, -, -, -, -, -, hcall⟩ := hf'
  obtain ⟨hs, ht, hp1, hp6, hsrc, htgt, -, -, hep, -, hpawn, -, -⟩ := hcall
  obtain ⟨hpp, hc, hpr, heo, -, -, hempty, hfl, hv⟩ := hep hee
  obtain ⟨-, -, -, hrow⟩ := hpawn hpp
  rw [if_pos heo] at hrow
  -- the victim's square, in the code's and in the Spec's terms
  have hvs : Spec.mkSq (Spec.fileOf f.target) (Spec.rowOf f.source) = capSq b.whiteTurn true f.target ∧
      capSq b.whiteTurn true f.target < 64 ∧ capSq b.whiteTurn true f.target ≠ f.target ∧
      capSq b.whiteTurn true f.target ≠ f.source ∧ testU b.passive.pawns (capSq b.whiteTurn true f.target) = true := by
    unfold capSq
    simp only [Spec.mkSq, Spec.fileOf, Spec.rowOf, if_true]
    cases hw : b.whiteTurn <;> rw [hw] at hv hrow
    · simp only [Bool.false_eq_true, if_false] at hv hrow ⊢
      exact ⟨by omega, by omega, by omega, by omega, hv.2⟩
    · simp only [if_true] at hv hrow ⊢
      exact ⟨by omega, by omega, by omega, by omega, hv.2⟩
  obtain ⟨hv1, hv2, hv3, hv4, hv5⟩ := hvs
  generalize hcsd : capSq b.whiteTurn true f.target = cs at *
  unfold applySq
  rw [isEnPassant_eq he hf, isCastle_eq he hf, hc, hee]
  simp only [Bool.false_eq_true, if_false, if_true]
  refine sq_ext _ _ (by simp [Spec.setSq, abs]) ?_
  intro q hq
  have hb : (f.promotion == 0) = true := by simp [hpr]
  simp only [Spec.setSq, Array.getElem_setIfInBounds, Array.size_setIfInBounds, base_size, hq, base_get, absMove, hv1,
    hb, ↓reduceIte]
  obtain ⟨hM, hO⟩ := codes_ep he hf hee hq
  rw [hcsd] at hO
  rw [pieceOn_make, hM, hO]
  have hPsrc := passive_empty_of_active he hs (get_le_full _ hp1 hp6 hsrc)
  have hPtgt : b.passive.pieceAt f.target = 0 := (pieceAt_zero _ _ ht).mpr (occ_false hempty).2
  have hAcs : b.active.pieceAt cs = 0 :=
    active_empty_of_passive he hv2 (get_le_full b.passive (p := 1) (by decide) (by decide) hv5)
  by_cases h0 : q = cs
  · rw [h0]
    simp only [hv3, hv4, ↓reduceIte, hAcs]
    exact (cell_none _).symm
  · have h0' : ¬ cs = q := fun e => h0 e.symm
    by_cases h1 : q = f.target
    · rw [h1] at h0 h0' ⊢
      simp only [h0, h0', ↓reduceIte, hPtgt, hpp]
      exact (cell_mover (m := 1) _ (by decide)).symm
    · have h1' : ¬ f.target = q := fun e => h1 e.symm
      by_cases h2 : q = f.source
      · rw [h2] at h0 h0' h1 h1' ⊢
        simp only [h0, h0', h1, h1', ↓reduceIte, hPsrc]
        exact (cell_none _).symm
      · have h2' : ¬ f.source = q := fun e => h2 e.symm
        simp only [h0, h0', h1, h1', h2, h2', ↓reduceIte]
        exact pieceOn_cell b q

/-- **piece placement after castling**: the king moves two files, the rook jumps over it -/
theorem sq_castle (he : Env b) (hf : GenFacts b f) (hc : f.castle = true) :
    (abs (makeF b f)).sq = applySq (abs b) (absMove f) ⟨b.whiteTurn, kindOf f.pieceMoved⟩ := by
  obtain ⟨rs, rt, hr, hsq, hrs, hrt, d1, d2, d3, d4, d5, d6, hrook, hfr, hft, hpk⟩ := castle_squares hf hc
  have hf' := hf
  obtain ⟨-, -, -, -, -, -, -, -, -, -, -, -, -, -, hcall⟩ := hf'
  obtain ⟨hs, ht, hp1, hp6, hsrc, htgt, -, hcastle, -, -, -, -, -⟩ := hcall
  obtain ⟨-, hee, hpr, -⟩ := hcastle hc
  unfold applySq
  rw [isEnPassant_eq he hf, isCastle_eq he hf, hc, hee]
  have hsq' : Spec.castleSquares b.whiteTurn (Spec.fileOf (absMove f).tgt == 6) = (f.source, f.target, rs, rt) := hsq
  simp only [Bool.false_eq_true, if_false, if_true, hsq']
  refine sq_ext _ _ (by simp [Spec.setSq, abs]) ?_
  intro q hq
  have hb : (f.promotion == 0) = true := by simp [hpr]
  simp only [Spec.setSq, Array.getElem_setIfInBounds, Array.size_setIfInBounds, base_size, hq, base_get, absMove,
    hb, ↓reduceIte]
  obtain ⟨hM, hO⟩ := codes_castle he hf hc hr hrs hrt ⟨d2, d3, d4, d5⟩ hrook hfr hpk hq
  rw [pieceOn_make, hM, hO]
  have hPsrc := passive_empty_of_active he hs (get_le_full _ hp1 hp6 hsrc)
  have hPtgt : b.passive.pieceAt f.target = 0 := (pieceAt_zero _ _ ht).mpr (occ_false hft).2
  have hPrt : b.passive.pieceAt rt = 0 := (pieceAt_zero _ _ hrt).mpr (occ_false hfr).2
  have hPrs := passive_empty_of_active he hrs (get_le_full b.active (p := 4) (by decide) (by decide) hrook)
  by_cases h0 : q = rt
  · rw [h0]
    simp only [Ne.symm d3, Ne.symm d5, ↓reduceIte, hPrt]
    exact (cell_mover (m := 4) _ (by decide)).symm
  · have h0' : ¬ rt = q := fun e => h0 e.symm
    by_cases h1 : q = rs
    · rw [h1] at h0 h0' ⊢
      simp only [h0, h0', Ne.symm d2, Ne.symm d4, ↓reduceIte, hPrs]
      exact (cell_none _).symm
    · have h1' : ¬ rs = q := fun e => h1 e.symm
      by_cases h2 : q = f.target
      · rw [h2] at h0 h0' h1 h1' ⊢
        simp only [h0', h1', ↓reduceIte, hPtgt, hpk]
        exact (cell_mover (m := 6) _ (by decide)).symm
      · have h2' : ¬ f.target = q := fun e => h2 e.symm
        by_cases h3 : q = f.source
        · rw [h3] at h0 h0' h1 h1' h2 h2' ⊢
          simp only [h0', h1', h2, h2', ↓reduceIte, hPsrc]
          exact (cell_none _).symm
        · have h3' : ¬ f.source = q := fun e => h3 e.symm
          simp only [h0, h0', h1, h1', h2, h2', h3, h3', ↓reduceIte]
          exact pieceOn_cell b q

end

/-! ## Assembly -/

theorem pos_ext {p p' : Spec.Pos} (hsq : p.sq = p'.sq) (hm : MetaEq p p') : p = p' := by
  obtain ⟨a1, a2, a3, a4, a5, a6, a7, a8, a9⟩ := p
  obtain ⟨b1, b2, b3, b4, b5, b6, b7, b8, b9⟩ := p'
  obtain ⟨m1, m2, m3, m4, m5, m6, m7, m8⟩ := hm
  simp only at hsq m1 m2 m3 m4 m5 m6 m7 m8
  subst hsq m1 m2 m3 m4 m5 m6 m7 m8
  rfl

/-- the piece placement, all move kinds -/
theorem sq_eq {b : Board} {f : MoveF} (he : Env b) (hf : GenFacts b f) :
    (abs (makeF b f)).sq = (Spec.apply (abs b) (absMove f)).sq := by
  rw [apply_eq (at_src he hf)]
  cases hc : f.castle
  · cases hee : f.enPassant
    · exact sq_plain he hf hc hee
    · exact sq_ep he hf hee
  · exact sq_castle he hf hc

/-- `make` on a move with the generator's guarantees computes the Spec's successor position -/
theorem abs_makeF_eq {b : Board} {f : MoveF} (he : Env b) (hf : GenFacts b f) :
    abs (makeF b f) = Spec.apply (abs b) (absMove f) :=
  pos_ext (sq_eq he hf) (meta_eq he hf)

/-- **C02**: for every well-formed position and every generated (pseudo-legal, hence every legal) move, the position
after `make`, seen through the abstraction map, is the successor position defined by the rules -/
theorem make_eq_apply {b : Board} (h : wf b = true) {m : Move} (hm : m ∈ genPseudo b) :
    abs (make b m) = Spec.apply (abs b) (absMove m.f) :=
  abs_makeF_eq (env_of_wf h) (genPseudo_facts h m hm)

/-- the non-placement fields alone (side, rights, e.p. target, clocks), all move kinds -/
theorem make_eq_apply_meta {b : Board} (h : wf b = true) {m : Move} (hm : m ∈ genPseudo b) :
    MetaEq (abs (make b m)) (Spec.apply (abs b) (absMove m.f)) :=
  meta_eq (env_of_wf h) (genPseudo_facts h m hm)

/-- the same for the capture/promotion-only generator of the quiescence search -/
theorem make_eq_apply_nonQuiescent {b : Board} (h : wf b = true) {m : Move} (hm : m ∈ genNonQuiescent b) :
    abs (make b m) = Spec.apply (abs b) (absMove m.f) :=
  abs_makeF_eq (env_of_wf h) (genNonQuiescent_facts h m hm)


/-! ## The special cases the property names, one by one -/

section
variable {b : Board} {f : MoveF}

theorem at_make {q : Nat} (hq : q < 64) : (abs (makeF b f)).at q =
    cell b.whiteTurn ((mkMover f b.active).pieceAt q) ((mkOther f b.whiteTurn b.passive).pieceAt q) := by
  rw [abs_at, if_pos hq, pieceOn_make]

theorem cell_other (white : Bool) {o : Nat} (ho : o ≠ 0) : cell white 0 o = some ⟨!white, kindOf o⟩ := by
  unfold cell; cases white <;> simp [ho]

/-- castling: before, king and rook stand on their home squares; after, both home squares are empty, the king stands
two files away and the rook on the square the king crossed (the four squares are the ones of `Spec.castleSquares`) -/
theorem castle_relocates_rook' (he : Env b) (hf : GenFacts b f) (hc : f.castle = true) :
    ∃ rs rt, Spec.castleSquares b.whiteTurn (Spec.fileOf f.target == 6) = (f.source, f.target, rs, rt) ∧
      castleRook f.target = some (rs, rt) ∧
      (abs b).at f.source = some ⟨b.whiteTurn, .king⟩ ∧ (abs b).at rs = some ⟨b.whiteTurn, .rook⟩ ∧
      (abs (makeF b f)).at f.source = none ∧ (abs (makeF b f)).at rs = none ∧
      (abs (makeF b f)).at f.target = some ⟨b.whiteTurn, .king⟩ ∧
      (abs (makeF b f)).at rt = some ⟨b.whiteTurn, .rook⟩ := by
  obtain ⟨rs, rt, hr, hsq, hrs, hrt, d1, d2, d3, d4, d5, d6, hrook, hfr, hft, hpk⟩ := castle_squares hf hc
  have hsrcAt := at_src he hf
  have hf' := hf
  obtain ⟨-, -, -, -, -, -, -, -, -, -, -, -, -, -, hcall⟩ := hf'
  obtain ⟨hs, ht, hp1, hp6, hsrc, htgt, -⟩ := hcall
  have codes := fun q (hq : q < 64) => codes_castle he hf hc hr hrs hrt ⟨d2, d3, d4, d5⟩ hrook hfr hpk hq
  have hPsrc := passive_empty_of_active he hs (get_le_full _ hp1 hp6 hsrc)
  have hPtgt : b.passive.pieceAt f.target = 0 := (pieceAt_zero _ _ ht).mpr (occ_false hft).2
  have hPrt : b.passive.pieceAt rt = 0 := (pieceAt_zero _ _ hrt).mpr (occ_false hfr).2
  have hPrs := passive_empty_of_active he hrs (get_le_full b.active (p := 4) (by decide) (by decide) hrook)
  refine ⟨rs, rt, hsq, hr, ?_, ?_, ?_, ?_, ?_, ?_⟩
  · rw [hpk] at hsrcAt; exact hsrcAt
  · rw [at_cell b hrs, pieceAt_of_get _ hrs (he.act _) (p := 4) (by decide) (by decide) hrook, hPrs]
    exact cell_mover (m := 4) _ (by decide)
  · rw [at_make hs, (codes _ hs).1, (codes _ hs).2, hPsrc]
    simp only [d1, ↓reduceIte]
    exact cell_none _
  · rw [at_make hrs, (codes _ hrs).1, (codes _ hrs).2, hPrs]
    simp only [Ne.symm d2, Ne.symm d4, d6, ↓reduceIte]
    exact cell_none _
  · rw [at_make ht, (codes _ ht).1, (codes _ ht).2, hPtgt]
    simp only [↓reduceIte]
    exact cell_mover (m := 6) _ (by decide)
  · rw [at_make hrt, (codes _ hrt).1, (codes _ hrt).2, hPrt]
    simp only [Ne.symm d3, Ne.symm d5, ↓reduceIte]
    exact cell_mover (m := 4) _ (by decide)

/-- en passant: the victim `v` is the enemy pawn on the mover's rank and the target's file (one rank behind the empty
target); after the move it is gone, the capturing pawn stands on the target and the source is empty -/
theorem en_passant_removes_pawn' (he : Env b) (hf : GenFacts b f) (hee : f.enPassant = true) :
    ∃ v, v = (if b.whiteTurn then f.target + 8 else f.target - 8) ∧ v < 64 ∧ v / 8 = f.source / 8 ∧
      v % 8 = f.target % 8 ∧ v ≠ f.target ∧ (abs b).ep = some f.target ∧
      (abs b).at f.source = some ⟨b.whiteTurn, .pawn⟩ ∧ (abs b).at v = some ⟨!b.whiteTurn, .pawn⟩ ∧
      (abs b).at f.target = none ∧
      (abs (makeF b f)).at v = none ∧ (abs (makeF b f)).at f.target = some ⟨b.whiteTurn, .pawn⟩ ∧
      (abs (makeF b f)).at f.source = none := by
  have hsrcAt := at_src he hf
  have hf' := hf
  obtain ⟨-, -, -, -, -, -, -, -, -, -, -, -, -, -, hcall⟩ := hf'
  obtain ⟨hs, ht, hp1, hp6, hsrc, htgt, -, -, hep, -, hpawn, -, -⟩ := hcall
  obtain ⟨hpp, hc, hpr, heo, hbe, hb0, hempty, hfl, hv⟩ := hep hee
  obtain ⟨-, -, -, hrow⟩ := hpawn hpp
  rw [if_pos heo] at hrow
  have hvs : ∀ v, v = (if b.whiteTurn then f.target + 8 else f.target - 8) → v < 64 ∧ v / 8 = f.source / 8 ∧
      v % 8 = f.target % 8 ∧ v ≠ f.target ∧ v ≠ f.source ∧ testU b.passive.pawns v = true := by
    intro v hvd
    cases hw : b.whiteTurn <;> rw [hw] at hv hrow hvd
    · simp only [Bool.false_eq_true, if_false] at hv hrow hvd
      subst hvd; exact ⟨by omega, by omega, by omega, by omega, by omega, hv.2⟩
    · simp only [if_true] at hv hrow hvd
      subst hvd; exact ⟨by omega, by omega, by omega, by omega, by omega, hv.2⟩
  have hcsd : capSq b.whiteTurn true f.target = (if b.whiteTurn then f.target + 8 else f.target - 8) := rfl
  have codes := fun q (hq : q < 64) => codes_ep he hf hee hq
  rw [hcsd] at codes
  refine ⟨_, rfl, ?_⟩
  generalize hvd : (if b.whiteTurn then f.target + 8 else f.target - 8) = v at codes ⊢
  obtain ⟨v1, v2, v3, v4, v5, v6⟩ := hvs v hvd.symm
  have hPsrc := passive_empty_of_active he hs (get_le_full _ hp1 hp6 hsrc)
  have hPtgt : b.passive.pieceAt f.target = 0 := (pieceAt_zero _ _ ht).mpr (occ_false hempty).2
  have hAtgt : b.active.pieceAt f.target = 0 := (pieceAt_zero _ _ ht).mpr (occ_false hempty).1
  have hAv : b.active.pieceAt v = 0 :=
    active_empty_of_passive he v1 (get_le_full b.passive (p := 1) (by decide) (by decide) v6)
  have hPv : b.passive.pieceAt v = 1 := pieceAt_of_get _ v1 (he.pas _) (p := 1) (by decide) (by decide) v6
  refine ⟨v1, v2, v3, v4, ?_, ?_, ?_, ?_, ?_, ?_, ?_⟩
  · show (if (b.ep == 0) = true then none else some b.ep : Option Nat) = some f.target
    have : (b.ep == 0) = false := by simpa using hb0
    rw [this, hbe]; rfl
  · rw [hpp] at hsrcAt; exact hsrcAt
  · rw [at_cell b v1, hAv, hPv]; exact cell_other (o := 1) _ (by decide)
  · rw [at_cell b ht, hAtgt, hPtgt]; exact cell_none _
  · rw [at_make v1, (codes _ v1).1, (codes _ v1).2, hAv]
    simp only [v4, v5, ↓reduceIte]
    exact cell_none _
  · rw [at_make ht, (codes _ ht).1, (codes _ ht).2, hPtgt]
    simp only [Ne.symm v4, ↓reduceIte]
    exact cell_mover (m := 1) _ (by decide)
  · rw [at_make hs, (codes _ hs).1, (codes _ hs).2, hPsrc]
    have : f.source ≠ f.target := by omega
    simp only [Ne.symm v5, this, ↓reduceIte]
    exact cell_none _

/-- promotion: a pawn of the mover stands on the source, the target is on the last rank; after the move the source is
empty and a piece of the chosen kind (knight..queen) of the mover's colour stands on the target -/
theorem promotion_replaces_pawn' (he : Env b) (hf : GenFacts b f) (hp : f.promotion ≠ 0) :
    2 ≤ f.promotion ∧ f.promotion ≤ 5 ∧ (if b.whiteTurn then f.target < 8 else 56 ≤ f.target) ∧
    (abs b).at f.source = some ⟨b.whiteTurn, .pawn⟩ ∧
    (abs (makeF b f)).at f.source = none ∧
    (abs (makeF b f)).at f.target = some ⟨b.whiteTurn, kindOf f.promotion⟩ := by
  have hsrcAt := at_src he hf
  have hf' := hf
  obtain ⟨-, -, -, -, -, -, -, -, -, -, -, -, -, -, hcall⟩ := hf'
  obtain ⟨hs, ht, hp1, hp6, hsrc, htgt, -, hcastle, hep, hpromo, hpawn, -, -⟩ := hcall
  obtain ⟨hpp, h2, h5⟩ := hpromo hp
  obtain ⟨hc, hlast, -, -⟩ := hpawn hpp
  have hee : f.enPassant = false := by
    cases h : f.enPassant
    · rfl
    · exact absurd (hep h).2.2.1 hp
  have codes := fun q (hq : q < 64) => codes_plain he hf hc hee hq
  have hPsrc := passive_empty_of_active he hs (get_le_full _ hp1 hp6 hsrc)
  have hne : f.source ≠ f.target := fun e => by
    rw [← e, get_le_full _ hp1 hp6 hsrc] at htgt; exact absurd htgt (by decide)
  refine ⟨h2, h5, hlast.mp hp, by rw [hpp] at hsrcAt; exact hsrcAt, ?_, ?_⟩
  · rw [at_make hs, (codes _ hs).1, (codes _ hs).2, hPsrc]
    simp only [hne, ↓reduceIte]
    exact cell_none _
  · rw [at_make ht, (codes _ ht).1, (codes _ ht).2]
    simp only [hp, ↓reduceIte]
    exact cell_mover _ hp

/-- the clocks, for every value of the half-move clock: reset exactly on pawn moves and captures -/
theorem clock_reset' (he : Env b) (hf : GenFacts b f) :
    (makeF b f).halfmove =
      (if f.pieceMoved = PAWN ∨ Spec.isCapture (abs b) (absMove f) = true then 0 else b.halfmove + 1) := by
  rw [isCapture_eq he hf]
  obtain ⟨-, -, -, -, -, -, -, -, -, hreset, -⟩ := hf
  show (if f.halfmoveReset = true then 0 else b.halfmove + 1) = _
  rw [hreset]
  by_cases h1 : f.pieceMoved = PAWN
  · simp [h1]
  · have : (f.pieceMoved == PAWN) = false := by simpa using h1
    cases h2 : (f.pieceAttacked != NO_PIECE) <;> simp [h1, this]

end

#print axioms make_eq_apply
#print axioms make_eq_apply_meta

end Inkayaku.Successor
