import Inkayaku.Proofs.SearchSimLoop
/-!
# C08, simulation step 4b: a node of `search_negamax`

`negamax_sim`: under the explicit hypotheses `Hyp b0 D` (`HashInj`, `HashNonzero`, `QBound`, `D ≤ 3`, clocks), for every
fuel, the concrete `Search.negamax` at a position reached from the root `b0` in `k ≤ D` legal moves, entered with a state
satisfying `SOK` (table invariant `TTOK`, fresh repetition history below the root, not stopped, no `searchmoves`), with
adequate fuel and without interruption (`NoIntr`: the node counter it returns is below the poll period, or polls find an
empty channel and no move time), satisfies the fail-soft contract
w.r.t. the plain minimax value `mm game (D − k)` of its position, restores the visible position, and keeps `SOK`.
Phases: `enter` only counts and records (`EnterShape`); the repetition return is not taken (`isRep_enter_false`); the table
probe is sound (`probe_ok` with `ttok_entry`: every hit is an entry of this position at this ply with exactly the
remaining draft); horizon = `quiescence_sim` or the static value; the move loop = `nLoop_sim`; the store keeps `TTOK`.
-/
namespace Inkayaku.SearchSim
open Inkayaku.Board Inkayaku.Eval Inkayaku.WF Inkayaku.BoardCongr Inkayaku.Minimax Inkayaku.SpecSearch Inkayaku.Search

/-- `search_negamax` after a table miss -/
def nodeBody (fuel : Nat) (turn : Nat) (s3 : St) (ply maxPly : Nat) (alpha0 alpha beta : Int) (isPv : Bool)
    (hash ph : UInt64) : VM × St :=
  if ply == 0 && (rootBuffer s3 ply).isEmpty then (VM.leaf 0, s3)
  else if ply == maxPly then horizon fuel turn s3 (rootBuffer s3 ply) alpha beta
  else
    finish turn alpha0 beta hash (maxPly - ply)
      (negamaxLoop fuel s3
        (sortMoves (rootBuffer s3 ply) (pvMoveOf s3 isPv ply) (ttMoveOf (s3.tt.get? hash))
          (killerGet s3.killers (maxPly - ply)))
        ply maxPly beta isPv (pvMoveOf s3 isPv ply) hash ph (maxPly - ply) (acc0 alpha))

theorem negamax_succ_noPoll (fuel : Nat) (s : St) (ply maxPly : Nat) (α β : Int) (isPv : Bool) (hash ph : UInt64)
    (hto : timedOut s = false) (hrep : isRep (enter s hash) ply = false) :
    negamax (fuel + 1) s ply maxPly α β isPv hash ph =
      match probe ((enter s hash).tt.get? hash) (maxPly - ply) α β with
      | (some r, _, _) => (r, enter s hash)
      | (none, alpha, beta) => nodeBody fuel s.board.turn (enter s hash) ply maxPly α alpha beta isPv hash ph := by
  rw [negamax_succ, hto]
  simp only [Bool.false_eq_true, if_false, hrep]
  rfl

theorem sok_enter {b0 : Board} {D : Nat} {s : St} (h : SOK b0 D s) (hash : UInt64) (hent : EnterShape s hash)
    (hpc : plyClock b0 ≤ plyClock s.board) : SOK b0 D (enter s hash) := by
  obtain ⟨o, he⟩ := hent
  rw [he]
  refine ⟨h.tt, ?_, h.stop, h.sm⟩
  intro j hj
  show (historySet s.history (plyClock s.board) hash.toNat).getD j 0 = 0
  rw [getD_historySet, if_neg (by omega)]
  exact h.hist j hj

theorem finish_nodes (c : Nat) (a b : Int) (h : UInt64) (rem : Nat) (r : LoopAcc × Bool × St) :
    (finish c a b h rem r).2.negamaxNodes = r.2.2.negamaxNodes := by
  obtain ⟨acc, ab, s⟩ := r
  unfold finish
  simp only
  split
  · rfl
  · split
    · rfl
    · split <;> rfl

theorem probe_fresh' {entry : Option TtEntry} {rem : Nat} (a b : Int) (h : ∀ e, entry = some e → e.depth < rem) :
    Search.probe entry rem a b = (none, a, b) := by
  unfold Search.probe
  cases entry with
  | none => rfl
  | some e =>
    have := h e rfl
    simp only
    rw [if_neg (by omega)]

theorem toNat_ne_zero {x : UInt64} (h : x ≠ 0) : x.toNat ≠ 0 := by
  intro e
  apply h
  apply UInt64.toNat_inj.mp
  rw [e]; rfl

/-! ## the horizon node -/

theorem horizon_sim {b0 : Board} {D : Nat} (H : Hyp b0 D) (fuel : Nat) (s3 : St) (hreach : Reach b0 D s3.board)
    (hinv : Inv fuel s3.board) (hfuel : 65 ≤ fuel) (hsok : SOK b0 D s3) (α β : Int) (hL : lossScore ≤ α) (hαβ : α < β)
    (hU : β ≤ -lossScore) :
    Ok (mm game 0 (s3.board, [])) (horizon fuel s3.board.turn s3 (genPseudo s3.board) α β).1.value α β ∧
    vis (horizon fuel s3.board.turn s3 (genPseudo s3.board) α β).2.board = vis s3.board ∧
    SOK b0 D (horizon fuel s3.board.turn s3 (genPseudo s3.board) α β).2 := by
  unfold horizon
  rw [isAnyMoveLegal_genPseudo, mm_zero, game_moves]
  by_cases hne : (genLegal s3.board).isEmpty = true
  · rw [hne]
    simp only [Bool.not_true, Bool.false_and, Bool.false_eq_true, if_false]
    exact ⟨Ok.refl _ _ _, trivial, hsok⟩
  · have hne' : (genLegal s3.board).isEmpty = false := by simpa using hne
    rw [hne']
    simp only [Bool.not_false, Bool.true_and, Bool.false_eq_true, if_false]
    have hnoisy : ((genPseudo s3.board).any fun m => m.isAttack || m.isPromotion) = noisy s3.board := rfl
    rw [hnoisy]
    by_cases hq : noisy s3.board = true
    · rw [if_pos hq]
      obtain ⟨q1, q2, b', qn, q3⟩ := quiescence_sim fuel quiescenceFuel quiescenceFuel s3 α β hinv
        (H.qb D _ (Nat.le_refl _) hreach) (by unfold quiescenceFuel; omega) (Nat.le_refl _)
      refine ⟨?_, q2, ?_⟩
      · rw [q1]
        have hl := game_leafOk qorder isOrder_qorder (s3.board, []) α β hL hαβ hU
        have e1 : (chess.game qorder).leaf (s3.board, []) α β = q chess.qgame qorder quiescenceFuel (s3.board, []) α β := by
          show (if noisy s3.board then q chess.qgame qorder chess.fuel (s3.board, []) α β else _) = _
          rw [if_pos hq]; rfl
        rw [e1] at hl
        exact hl
      · rw [q3]
        exact ⟨hsok.tt, hsok.hist, hsok.stop, hsok.sm⟩
    · rw [if_neg hq]
      refine ⟨?_, rfl, hsok⟩
      have e1 : game.leafExact (s3.board, []) = evalFor s3.board s3.board.turn true := by
        show (if noisy s3.board then _ else evalFor s3.board s3.board.turn true) = _
        rw [if_neg hq]
      rw [e1]
      exact Ok.refl _ _ _

/-! ## the node -/

theorem negamax_sim {b0 : Board} {D : Nat} (H : Hyp b0 D) : ∀ fuel, NSim b0 D fuel := by
  intro fuel
  induction fuel with
  | zero => intro s k α β isPv hash ph _ _ _ hf; omega
  | succ fuel ih =>
    intro s k α β isPv hash ph hk hreach hinv hfuel hsok hhash hroot hL hαβ hU hN
    have hframe := negamax_rel (frame_stepRel D) (fuel + 1) s k α β isPv hash ph
    obtain ⟨hto, hent⟩ := enter_of_noIntr hN hframe.nn hash
    obtain ⟨_, hply⟩ := Reach.inv H.rootInv hk hreach
    have hD3 := H.hD
    have hnw := H.nowrap
    have hpc : plyClock s.board = plyClock b0 + k := by
      rw [plyClock_eq, plyClock_eq, hply, Nat.mod_eq_of_lt (by omega), Nat.mod_eq_of_lt (by omega)]
    have hrep : isRep (enter s hash) k = false := by
      by_cases h0 : k = 0
      · subst h0; exact isRep_zero _
      · refine isRep_enter_false' hsok.hist hash hent k (by omega) (by omega) ?_
        rw [hhash]
        exact toNat_ne_zero (H.nz k s.board (by omega) hk hreach)
    have hb3 : (enter s hash).board = s.board := enter_board s hash
    have htt3 : (enter s hash).tt = s.tt := by obtain ⟨o, he⟩ := hent; rw [he]
    have hpp3 : (enter s hash).pollPeriod = s.pollPeriod := by obtain ⟨o, he⟩ := hent; rw [he]
    have hcalm3 : Calm s → Calm (enter s hash) := by obtain ⟨o, he⟩ := hent; rw [he]; exact fun h => h
    have hsok3 : SOK b0 D (enter s hash) := sok_enter hsok hash hent (by omega)
    unfold NodePost
    rw [negamax_succ_noPoll fuel s k D α β isPv hash ph hto hrep] at hN ⊢
    -- the probe
    have hpo := probe_ok (mm game (D - k) (s.board, [])) ((enter s hash).tt.get? hash) (D - k) α β hαβ (by
      intro e he hd
      rw [htt3, hhash] at he
      obtain ⟨_, h2, h3, h4⟩ := ttok_entry hsok.tt H.inj hk hreach he
      have : e.depth = D - k := by omega
      rw [this] at h4
      exact ⟨h3, h4⟩)
    generalize hs3 : enter s hash = s3 at hN hpo hb3 htt3 hpp3 hcalm3 hsok3 ⊢
    generalize hp : Search.probe (s3.tt.get? hash) (D - k) α β = pr at hN hpo ⊢
    obtain ⟨o, α', β'⟩ := pr
    cases o with
    | some r =>
      simp only at hpo ⊢
      refine ⟨hpo, by rw [hb3], hsok3, ?_⟩
      intro hfresh
      have := probe_fresh' α β hfresh
      rw [← htt3, hp] at this
      cases this
    | none =>
      simp only at hpo hN ⊢
      obtain ⟨w1, w2, w3, w4, w5⟩ := hpo
      have hbuf : rootBuffer s3 k = genPseudo s.board := by rw [rootBuffer_nil_sm hsok3.sm, hb3]
      unfold nodeBody at hN ⊢
      rw [hbuf] at hN ⊢
      have hnotEmpty : (k == 0 && (genPseudo s.board).isEmpty) = false := by
        by_cases h0 : k = 0
        · have hl := hroot h0
          have : (genPseudo s.board).isEmpty = false := by
            cases hg : genPseudo s.board with
            | nil => exfalso; apply hl; unfold genLegal; rw [hg]; rfl
            | cons _ _ => rfl
          rw [this, Bool.and_false]
        · have : (k == 0) = false := by simpa using h0
          rw [this, Bool.false_and]
      rw [hnotEmpty] at hN ⊢
      simp only [Bool.false_eq_true, if_false] at hN ⊢
      by_cases hkD : k = D
      · -- horizon
        have hbeq : (k == D) = true := by simpa using hkD
        rw [hbeq] at hN ⊢
        simp only [if_true] at hN ⊢
        subst hkD
        have hh := horizon_sim H fuel s3 (by rw [hb3]; exact hreach) (by rw [hb3]; exact Inv_mono (Nat.le_succ _) hinv)
          (by omega) hsok3 α' β' (by omega) w3 (by omega)
        rw [hb3] at hh
        obtain ⟨x1, x2, x3⟩ := hh
        rw [Nat.sub_self] at w4 w5 ⊢
        exact ⟨ok_widen _ _ α β α' β' w1 w2 w4 w5 x1, x2, x3, fun _ h => absurd h (Nat.lt_irrefl _)⟩
      · -- the move loop
        have hbeq : (k == D) = false := by simpa using hkD
        rw [hbeq] at hN ⊢
        simp only [Bool.false_eq_true, if_false] at hN ⊢
        have hkD' : k < D := by omega
        rw [finish_nodes] at hN
        have hmem : ∀ m ∈ sortMoves (genPseudo s.board) (pvMoveOf s3 isPv k) (ttMoveOf (s3.tt.get? hash))
            (killerGet s3.killers (D - k)), m ∈ genPseudo s.board := fun m hm => mem_sortMoves.mp hm
        have hloop := nLoop_sim ih s.board k hkD' hreach hinv (by omega) hash ph hhash β' α' (by omega) (by omega)
          isPv (pvMoveOf s3 isPv k) (D - k) _ hmem s3 (acc0 α') lossScore (by rw [hb3]) hsok3
          (by unfold acc0; exact w3) (by unfold acc0; simp only; omega) (fun _ => Int.le_refl _)
          (by unfold acc0; simp only; intro; omega) (by unfold acc0; simp only; intro; omega)
          (by
            rcases hN with hN | hN
            · left; rw [hpp3]; exact hN
            · right; exact hcalm3 hN)
        unfold LoopPost at hloop
        have hperm : ((sortMoves (genPseudo s.board) (pvMoveOf s3 isPv k) (ttMoveOf (s3.tt.get? hash))
            (killerGet s3.killers (D - k))).filter (isMoveLegal s.board)).Perm (genLegal s.board) :=
          (List.mergeSort_perm _ _).filter _
        generalize negamaxLoop fuel s3 (sortMoves (genPseudo s.board) (pvMoveOf s3 isPv k) (ttMoveOf (s3.tt.get? hash))
          (killerGet s3.killers (D - k))) k D β' isPv (pvMoveOf s3 isPv k) hash ph (D - k) (acc0 α') = R at hloop ⊢
        generalize (sortMoves (genPseudo s.board) (pvMoveOf s3 isPv k) (ttMoveOf (s3.tt.get? hash))
          (killerGet s3.killers (D - k))).filter (isMoveLegal s.board) = legal at hloop hperm
        obtain ⟨acc, ab, sR⟩ := R
        obtain ⟨p1, p2, p3, p4, p5, p6⟩ := hloop
        simp only at p1 p2 p3 p4 p5 p6
        subst p1
        have hDk : D - k = (D - k - 1) + 1 := by omega
        have hmm : mm game (D - k) (s.board, []) =
            if (genLegal s.board).isEmpty then evalFor s.board s.board.turn false
            else mmFold (mm game (D - k - 1)) lossScore ((genLegal s.board).map fun m => ((make s.board m, []) : Pos)) := by
          rw [hDk, mm_succ, game_moves]
          simp only [Nat.add_sub_cancel]
          rfl
        have hempty : legal.isEmpty = (genLegal s.board).isEmpty := by
          rw [Bool.eq_iff_iff, List.isEmpty_iff, List.isEmpty_iff]
          exact ⟨fun h => by rw [h] at hperm; exact hperm.symm.eq_nil, fun h => by rw [h] at hperm; exact hperm.eq_nil⟩
        unfold finish
        simp only [Bool.false_eq_true, if_false]
        rw [hempty] at p3
        by_cases hne : (genLegal s.board).isEmpty = true
        · -- no legal move: mate or stalemate
          have hls : acc.legalSeen = false := by rw [p3, hne]; rfl
          rw [hls]
          simp only [Bool.not_false, if_true]
          refine ⟨?_, p5, p6, ?_⟩
          · rw [hmm, if_pos hne]
            show Ok _ (evalFor sR.board s.board.turn false) α β
            rw [evalFor_congr p5]
            exact Ok.refl _ _ _
          · intro _ _ hl
            exact absurd (List.isEmpty_iff.mp hne) hl
        · have hne' : (genLegal s.board).isEmpty = false := by simpa using hne
          have hls : acc.legalSeen = true := by rw [p3, hne']; rfl
          rw [hls]
          simp only [Bool.not_true, Bool.false_eq_true, if_false]
          rw [mmFold_perm _ _ (hperm.map fun m => ((make s.board m, []) : Pos))] at p2
          have hok' : Ok (mm game (D - k) (s.board, [])) acc.bestValue α' β' := by
            rw [hmm, hne']; exact p2
          have hok := ok_widen _ _ α β α' β' w1 w2 w4 w5 hok'
          have hchosen : TTRootFresh s hash (D - k) → k < D → genLegal s.board ≠ [] → α < acc.bestValue →
              acc.bestValue < β → ChosenC s.board (D - k - 1) acc.bestMove acc.bestValue := by
            intro hfresh _ _ h1 h2
            have := probe_fresh' α β hfresh
            rw [← htt3, hp] at this
            simp only [Prod.mk.injEq, true_and] at this
            obtain ⟨rfl, rfl⟩ := this
            exact p4 h1 h2
          by_cases hmate : isCheckmateValue acc.bestValue = true
          · rw [hmate]
            simp only [Bool.not_true, Bool.false_eq_true, if_false]
            exact ⟨hok, p5, p6, hchosen⟩
          · have hmate' : isCheckmateValue acc.bestValue = false := by simpa using hmate
            rw [hmate']
            simp only [Bool.not_false, if_true]
            refine ⟨hok, p5, ⟨?_, p6.hist, p6.stop, p6.sm⟩, hchosen⟩
            rw [hhash]
            apply ttok_insert p6.tt hkD' hreach _ (by show D - k + k ≤ D; omega)
            refine ⟨rfl, ?_⟩
            obtain ⟨a1, a2, a3⟩ := hok
            obtain ⟨b1, b2, b3⟩ := hok'
            show match (if acc.bestValue ≤ α then NodeType.upper else if acc.bestValue ≥ β' then NodeType.lower
              else NodeType.exact) with
              | .exact => acc.bestValue = mm game (D - k) (s.board, [])
              | .lower => acc.bestValue ≤ mm game (D - k) (s.board, [])
              | .upper => mm game (D - k) (s.board, []) ≤ acc.bestValue
            by_cases x : acc.bestValue ≤ α
            · rw [if_pos x]; exact a1 x
            · rw [if_neg x]
              by_cases y : acc.bestValue ≥ β'
              · rw [if_pos y]; exact b2 y
              · rw [if_neg y]; exact a3 (by omega) (by omega)

end Inkayaku.SearchSim
