import Inkayaku.Model.Board
/-!
# A crude bound on the number of pseudo-legal moves, for EVERY board (no well-formedness needed)

Every generator pass is a fold over the set bits of a 64-bit word (≤ 64 sources) whose step is again a fold over the
set bits of a 64-bit word (≤ 64 targets) pushing at most one move (four for a promotion).  Hence

  6 passes of sliding / single movers   ≤ 6 · 64 · 64 = 24 576
  pawn attacks (≤ 4 moves per target)   ≤ 64 · 64 · 4 = 16 384
  pawn pushes (≤ 4 moves per source)    ≤ 64 · 4      =    256
  castling                              ≤ 2

so `(genPseudo b).length ≤ 41 218 < 100 000` = the engine's poll period.  (The chess bound 218 is not needed.)
-/
namespace Inkayaku.GenLength
open Inkayaku.Board

theorem bitsAsc_length_le (x : UInt64) : (bitsAsc x).length ≤ 64 := by
  unfold bitsAsc
  have := List.length_filter_le (testU x) (List.range 64)
  simpa using this

/-- a fold whose step appends at most `k` elements appends at most `k · length` elements -/
theorem foldl_length_le {α β : Type} (xs : List α) (step : List β → α → List β) (k : Nat)
    (h : ∀ acc x, (step acc x).length ≤ acc.length + k) (acc : List β) :
    (xs.foldl step acc).length ≤ acc.length + k * xs.length := by
  induction xs generalizing acc with
  | nil => simp
  | cons x xs ih =>
    rw [List.foldl_cons, List.length_cons]
    have h1 := ih (step acc x)
    have h2 := h acc x
    rw [Nat.mul_succ]
    omega

/-- a fold over the set bits of a word -/
theorem foldl_bits_length_le {β : Type} (x : UInt64) (step : List β → Nat → List β) (k : Nat)
    (h : ∀ acc s, (step acc s).length ≤ acc.length + k) (acc : List β) :
    ((bitsAsc x).foldl step acc).length ≤ acc.length + k * 64 := by
  have h1 := foldl_length_le (bitsAsc x) step k h acc
  have h2 := bitsAsc_length_le x
  have h3 : k * (bitsAsc x).length ≤ k * 64 := Nat.mul_le_mul_left k h2
  omega

theorem pushOpt_length_le (acc : List Move) (o : Option Move) : (pushOpt acc o).length ≤ acc.length + 1 := by
  unfold pushOpt
  cases o with
  | none => exact Nat.le_succ _
  | some x => simp

theorem genAttacks_length_le (b : Board) (nq : Bool) (src : Nat) (att : UInt64) (piece : Nat) (acc : List Move) :
    (genAttacks b nq src att piece acc).length ≤ acc.length + 64 := by
  unfold genAttacks
  have := foldl_bits_length_le att (fun acc tgt => pushOpt acc (mkMove b nq src tgt piece false false NO_PIECE 0)) 1
    (fun acc _ => pushOpt_length_le acc _) acc
  omega

theorem slidingMoves_length_le (b : Board) (nq : Bool) (pieceOcc activeOcc fullOcc : UInt64) (rook : Bool) (piece : Nat)
    (acc : List Move) : (slidingMoves b nq pieceOcc activeOcc fullOcc rook piece acc).length ≤ acc.length + 4096 := by
  unfold slidingMoves
  have := foldl_bits_length_le pieceOcc (fun acc src =>
      genAttacks b nq src ((if rook then rookAttacks src fullOcc else bishopAttacks src fullOcc) &&& ~~~activeOcc) piece acc)
    64 (fun acc src => genAttacks_length_le b nq src _ piece acc) acc
  omega

theorem singleMoves_length_le (b : Board) (nq : Bool) (pieceOcc activeOcc : UInt64) (tbl : List Nat) (piece : Nat)
    (acc : List Move) : (singleMoves b nq pieceOcc activeOcc tbl piece acc).length ≤ acc.length + 4096 := by
  unfold singleMoves
  have := foldl_bits_length_le pieceOcc (fun acc src =>
      genAttacks b nq src (leaperAttacks tbl src &&& ~~~activeOcc) piece acc)
    64 (fun acc src => genAttacks_length_le b nq src _ piece acc) acc
  omega

theorem promotions_length_le (b : Board) (src tgt : Nat) (acc : List Move) :
    (promotions b src tgt acc).length ≤ acc.length + 4 := by
  unfold promotions
  have := foldl_length_le [QUEEN, ROOK, BISHOP, KNIGHT]
    (fun acc p => pushOpt acc (mkMove b false src tgt PAWN false false p 0)) 1 (fun acc _ => pushOpt_length_le acc _) acc
  simpa using this

theorem pawnAttacks_length_le (b : Board) (pawnOcc activeOcc passiveOcc : UInt64) (acc : List Move) :
    (pawnAttacks b pawnOcc activeOcc passiveOcc acc).length ≤ acc.length + 16384 := by
  unfold pawnAttacks
  simp only
  refine Nat.le_trans (foldl_bits_length_le pawnOcc _ 256 ?_ acc) (by omega)
  intro acc src
  refine Nat.le_trans (foldl_bits_length_le _ _ 4 ?_ acc) (by omega)
  intro acc tgt
  split
  · exact promotions_length_le b src tgt acc
  · have := pushOpt_length_le acc (mkMove b false src tgt PAWN false (tgt == b.ep) NO_PIECE 0)
    omega

theorem pushOpt2_length_le (acc : List Move) (o1 o2 : Option Move) :
    (pushOpt (pushOpt acc o1) o2).length ≤ acc.length + 2 := by
  have h1 := pushOpt_length_le acc o1
  have h2 := pushOpt_length_le (pushOpt acc o1) o2
  omega

theorem pawnMoves_length_le (b : Board) (nq : Bool) (pawnOcc fullOcc : UInt64) (acc : List Move) :
    (pawnMoves b nq pawnOcc fullOcc acc).length ≤ acc.length + 256 := by
  unfold pawnMoves
  refine Nat.le_trans (foldl_bits_length_le pawnOcc _ 4 ?_ acc) (by omega)
  intro acc src
  simp only
  repeat' split
  all_goals first
    | exact Nat.le_trans (pushOpt2_length_le _ _ _) (by omega)
    | exact Nat.le_trans (pushOpt_length_le _ _) (by omega)
    | exact promotions_length_le b src _ acc
    | exact Nat.le_add_right _ _

theorem castleMoves_length_le (b : Board) (fullOcc : UInt64) (acc : List Move) :
    (castleMoves b fullOcc acc).length ≤ acc.length + 2 := by
  unfold castleMoves
  simp only
  repeat' split
  all_goals first
    | exact pushOpt2_length_le _ _ _
    | exact Nat.le_trans (pushOpt_length_le _ _) (by omega)
    | exact Nat.le_add_right _ _

theorem comp_length_le {f g : List Move → List Move} {k l : Nat} (hf : ∀ acc, (f acc).length ≤ acc.length + k)
    (hg : ∀ acc, (g acc).length ≤ acc.length + l) : ∀ acc, (g (f acc)).length ≤ acc.length + (k + l) := by
  intro acc
  have h1 := hf acc
  have h2 := hg (f acc)
  omega

/-- **every board has at most 41 218 pseudo-legal moves** (crude; the chess maximum is 218) -/
theorem genPseudo_length_le (b : Board) : (genPseudo b).length ≤ 41218 := by
  have h := comp_length_le (comp_length_le (comp_length_le (comp_length_le (comp_length_le (comp_length_le
    (comp_length_le (comp_length_le
      (slidingMoves_length_le b false b.active.queens b.active.full (b.active.full ||| b.passive.full) true QUEEN)
      (slidingMoves_length_le b false b.active.queens b.active.full (b.active.full ||| b.passive.full) false QUEEN))
      (slidingMoves_length_le b false b.active.bishops b.active.full (b.active.full ||| b.passive.full) false BISHOP))
      (slidingMoves_length_le b false b.active.rooks b.active.full (b.active.full ||| b.passive.full) true ROOK))
      (singleMoves_length_le b false b.active.knights b.active.full Gen.knightTable KNIGHT))
      (singleMoves_length_le b false b.active.kings b.active.full Gen.kingTable KING))
      (pawnAttacks_length_le b b.active.pawns b.active.full b.passive.full))
      (pawnMoves_length_le b false b.active.pawns (b.active.full ||| b.passive.full)))
      (castleMoves_length_le b (b.active.full ||| b.passive.full)) []
  exact h

/-- the pseudo-legal move list of ANY board is shorter than the engine's poll period -/
theorem genPseudo_length_lt (b : Board) : (genPseudo b).length < 100000 :=
  Nat.lt_of_le_of_lt (genPseudo_length_le b) (by decide)

end Inkayaku.GenLength
