import Inkayaku.Proofs.EndToEndSearch
import Inkayaku.Model.AppOps
import Inkayaku.Proofs.FenRoundtrip
/-!
# End-to-end, projection half: the run-independent part of an `info` line

The `app` driver op compares the stdout of the real binary and of the process model after a projection that removes what
depends on the run (`time`, `nodes`, `hashfull`, `nps`, `string …`): `AppOps.projectLine`, written with `String.splitOn` and
`String.intercalate`.  `projectChars` is the same function on character lists (`FenSyntax.splitOnChar ' '`, `Console.joinSp`);
`project_infoLine` computes it on the iteration info text `infoLineChars`:

    info depth D [time T] nodes N pv m1 … mk score S hashfull H nps P [string …]   ↦   info depth D pv m1 … mk score S

TARGET (not proved):

    theorem projectLine_eq (l : String) : AppOps.projectLine l = String.ofList (projectChars l.toList)

for every string `l` (a theory of `String.splitOn` / `String.intercalate` over byte positions is missing); the `#guard`s at the
end evaluate it on printed lines, periodic infos, non-info lines and degenerate texts, and `Props/EndToEnd.lean` on the lines
of the example scripts.
-/
namespace Inkayaku.EndToEnd
open Inkayaku.FenSyntax (splitOnChar)
open Inkayaku.Console (natText intText joinSp)
open Inkayaku.Board

/-! ## the projection on characters -/

/-- the fields dropped together with their value -/
def dropKeys : List (List Char) := ["time".toList, "nodes".toList, "hashfull".toList, "nps".toList]

/-- `AppOps.projectInfo` on character tokens -/
def projectTokens : List (List Char) → List (List Char)
  | [] => []
  | [t] => if t = "string".toList then [] else [t]
  | k :: v :: rest =>
    if k = "string".toList then []
    else if k ∈ dropKeys then projectTokens rest
    else k :: projectTokens (v :: rest)
termination_by l => l.length

/-- `AppOps.projectLine` on characters -/
def projectChars (line : List Char) : List Char :=
  match splitOnChar ' ' line with
  | t :: rest =>
    if t = "info".toList then
      let kept := projectTokens rest
      if kept.head? = some "depth".toList then joinSp ("info".toList :: kept) else "info poll".toList
    else line
  | [] => line

/-! ## tokens joined by single spaces, and split again -/

/-- every token preceded by a space -/
def spTail (ts : List (List Char)) : List Char := ts.flatMap (fun t => ' ' :: t)

theorem joinSp_cons' (t : List Char) (ts : List (List Char)) : joinSp (t :: ts) = t ++ spTail ts := by
  induction ts generalizing t with
  | nil => simp [joinSp, spTail]
  | cons t' ts ih => simp [joinSp, ih t', spTail]

theorem spTail_cons (t : List Char) (ts : List (List Char)) : spTail (t :: ts) = ' ' :: (t ++ spTail ts) := by
  simp [spTail]

theorem spTail_append (a b : List (List Char)) : spTail (a ++ b) = spTail a ++ spTail b := by
  simp [spTail, List.flatMap_append]

theorem spTail_nil : spTail [] = [] := rfl

/-- a space and the joined tokens = the tokens each preceded by a space (non-empty list) -/
theorem sp_joinSp {ts : List (List Char)} (h : ts ≠ []) : ' ' :: joinSp ts = spTail ts := by
  cases ts with
  | nil => exact absurd rfl h
  | cons t ts => rw [joinSp_cons', spTail_cons]

theorem split_spTail : ∀ (ts : List (List Char)) (t : List Char), (∀ w ∈ t :: ts, ' ' ∉ w) →
    splitOnChar ' ' (t ++ spTail ts) = t :: ts
  | [], t, h => by
    rw [spTail_nil, List.append_nil]
    exact FenRoundtrip.splitOnChar_of_not_mem (h t (by simp))
  | u :: ts, t, h => by
    rw [spTail_cons, FenRoundtrip.splitOnChar_append (h t (by simp)),
      split_spTail ts u (fun w hw => h w (List.mem_cons_of_mem _ hw))]

theorem split_spTail_sfx : ∀ (ts : List (List Char)) (t : List Char) (x : List Char), (∀ w ∈ t :: ts, ' ' ∉ w) →
    splitOnChar ' ' (t ++ (spTail ts ++ ' ' :: x)) = t :: ts ++ splitOnChar ' ' x
  | [], t, x, h => by
    rw [spTail_nil, List.nil_append, FenRoundtrip.splitOnChar_append (h t (by simp))]
    rfl
  | u :: ts, t, x, h => by
    rw [spTail_cons, List.cons_append, FenRoundtrip.splitOnChar_append (h t (by simp)), List.append_assoc,
      split_spTail_sfx ts u x (fun w hw => h w (List.mem_cons_of_mem _ hw))]
    rfl

/-! ## how `projectTokens` walks -/

/-- a token that is neither `string` nor one of the dropped keys -/
def Plain (w : List Char) : Prop := w ≠ "string".toList ∧ w ∉ dropKeys

instance (w : List Char) : Decidable (Plain w) := by unfold Plain; infer_instance

theorem pt_keep {k : List Char} (hk : Plain k) (v : List Char) (rest : List (List Char)) :
    projectTokens (k :: v :: rest) = k :: projectTokens (v :: rest) := by
  rw [projectTokens, if_neg hk.1, if_neg hk.2]

theorem pt_drop {k : List Char} (hk : k ∈ dropKeys) (v : List Char) (rest : List (List Char)) :
    projectTokens (k :: v :: rest) = projectTokens rest := by
  have hs : k ≠ "string".toList := by
    intro e; subst e; revert hk; decide
  rw [projectTokens, if_neg hs, if_pos hk]

theorem pt_string (rest : List (List Char)) : projectTokens ("string".toList :: rest) = [] := by
  cases rest with
  | nil => rw [projectTokens, if_pos rfl]
  | cons v rest => rw [projectTokens, if_pos rfl]

theorem pt_keep_list : ∀ (ws : List (List Char)) (v : List Char) (rest : List (List Char)), (∀ w ∈ ws, Plain w) →
    projectTokens (ws ++ v :: rest) = ws ++ projectTokens (v :: rest)
  | [], _, _, _ => rfl
  | w :: ws, v, rest, h => by
    cases ws with
    | nil => exact pt_keep (h w (by simp)) v rest
    | cons w' ws =>
      have ih := pt_keep_list (w' :: ws) v rest (fun x hx => h x (List.mem_cons_of_mem _ hx))
      rw [List.cons_append, List.cons_append, pt_keep (h w (by simp)), ← List.cons_append, ih]
      rfl

/-- keywords start with a letter -/
theorem keyword_head : ∀ k ∈ "string".toList :: dropKeys, ∀ c, k.head? = some c → UciOut.isDigit c = false ∧ c ≠ '-' := by
  decide

theorem plain_of_head {w : List Char} {c : Char} (h : w.head? = some c) (hc : UciOut.isDigit c = true ∨ c = '-') :
    Plain w := by
  have key : ∀ k ∈ "string".toList :: dropKeys, w ≠ k := by
    intro k hk e
    subst e
    obtain ⟨h1, h2⟩ := keyword_head _ hk c h
    rcases hc with hc | hc
    · rw [h1] at hc; cases hc
    · exact h2 hc
  exact ⟨key _ (by simp), fun hm => key w (List.mem_cons_of_mem _ hm) rfl⟩

theorem natText_head (n : Nat) : ∃ c, (natText n).head? = some c ∧ UciOut.isDigit c = true := by
  obtain ⟨h1, h2⟩ := C16Console.natText_digits n
  cases h : natText n with
  | nil => exact absurd h h1
  | cons c r =>
    rw [h] at h2
    simp only [List.all_cons, Bool.and_eq_true] at h2
    exact ⟨c, rfl, h2.1⟩

theorem plain_natText (n : Nat) : Plain (natText n) := by
  obtain ⟨c, h1, h2⟩ := natText_head n
  exact plain_of_head h1 (Or.inl h2)

theorem plain_intText (v : Int) : Plain (intText v) := by
  unfold intText
  split
  · exact plain_of_head (c := '-') rfl (Or.inr rfl)
  · exact plain_natText _

theorem nosp_natText (n : Nat) : ' ' ∉ natText n := by
  intro h
  have := List.all_eq_true.mp (C16Console.natText_digits n).2 ' ' h
  revert this; decide

theorem nosp_intText (v : Int) : ' ' ∉ intText v := by
  unfold intText
  split
  · intro h
    rcases List.mem_cons.mp h with e | h
    · revert e; decide
    · exact nosp_natText _ h
  · exact nosp_natText _

/-! ## the info line -/

/-- the two tokens of a score text -/
def scoreTokens : Console.Score → List (List Char)
  | .cp v => ["cp".toList, intText v]
  | .mate v => ["mate".toList, intText v]
  | .cpBounded v b => ["cp".toList, intText v, b.text]

/-- the tokens of an iteration info line up to `nps P` -/
def infoTokens (d : Nat) (t : Option Nat) (n : Nat) (pv : List (List Char)) (sc : Console.Score) (hashfull nps : Nat) :
    List (List Char) :=
  ["depth".toList, natText d] ++ ((match t with | some t => ["time".toList, natText t] | none => []) ++
    (["nodes".toList, natText n, "pv".toList] ++ (pv ++ ("score".toList :: (scoreTokens sc ++
    ["hashfull".toList, natText hashfull, "nps".toList, natText nps])))))

theorem scoreText_tokens (sc : Console.Score) : ' ' :: Console.scoreText sc = spTail (scoreTokens sc) := by
  cases sc with
  | cp v =>
    have e : "cp ".toList = "cp".toList ++ [' '] := by decide
    simp [Console.scoreText, scoreTokens, spTail, e]
  | mate v =>
    have e : "mate ".toList = "mate".toList ++ [' '] := by decide
    simp [Console.scoreText, scoreTokens, spTail, e]
  | cpBounded v b =>
    have e : "cp ".toList = "cp".toList ++ [' '] := by decide
    simp [Console.scoreText, scoreTokens, spTail, e]

/-- the info text is `info`, its tokens each preceded by a space, and the optional ` string …` -/
theorem infoLineChars_tokens (d : Nat) (t : Option Nat) (n : Nat) {pv : List (List Char)} (hpv : pv ≠ []) (sc : Console.Score)
    (hashfull nps : Nat) (dbg : Option (List Char)) :
    infoLineChars d t n pv (Console.scoreText sc) hashfull nps dbg =
      "info".toList ++ (spTail (infoTokens d t n pv sc hashfull nps) ++
        (match dbg with | some s => ' ' :: ("string".toList ++ ' ' :: s) | none => [])) := by
  have k1 : "info depth ".toList = "info".toList ++ ' ' :: ("depth".toList ++ [' ']) := by decide
  have k2 : " time ".toList = ' ' :: ("time".toList ++ [' ']) := by decide
  have k3 : " nodes ".toList = ' ' :: ("nodes".toList ++ [' ']) := by decide
  have k4 : " pv ".toList = ' ' :: ("pv".toList ++ [' ']) := by decide
  have k5 : " score ".toList = ' ' :: ("score".toList ++ [' ']) := by decide
  have k6 : " hashfull ".toList = ' ' :: ("hashfull".toList ++ [' ']) := by decide
  have k7 : " nps ".toList = ' ' :: ("nps".toList ++ [' ']) := by decide
  have k8 : " string ".toList = ' ' :: ("string".toList ++ [' ']) := by decide
  have hs := scoreText_tokens sc
  have hp := sp_joinSp hpv
  unfold infoLineChars infoTokens
  rw [k1, k3, k4, k5, k6, k7]
  cases t <;> cases dbg <;>
    simp only [spTail_cons, spTail_append, spTail_nil, ← hp, ← hs, k2, k8, List.append_assoc, List.cons_append,
      List.nil_append, List.append_nil]

/-- the tokens after `nps P`: nothing, or `string` and the words of the debug text -/
def extraTokens : Option (List Char) → List (List Char)
  | some s => "string".toList :: splitOnChar ' ' s
  | none => []

theorem pt_nil : projectTokens [] = [] := by rw [projectTokens]

theorem walk_score (sc : Console.Score) (hsc : ∀ v b, sc ≠ .cpBounded v b) (hashfull nps : Nat) {extra : List (List Char)}
    (hextra : projectTokens extra = []) :
    projectTokens ("score".toList :: (scoreTokens sc ++
      ("hashfull".toList :: natText hashfull :: "nps".toList :: natText nps :: extra))) =
      "score".toList :: scoreTokens sc := by
  have hpS : Plain "score".toList := by decide
  cases sc with
  | cp v =>
    show projectTokens ("score".toList :: "cp".toList :: intText v :: "hashfull".toList :: natText hashfull ::
      "nps".toList :: natText nps :: extra) = _
    rw [pt_keep hpS, pt_keep (by decide), pt_keep (plain_intText v), pt_drop (by decide), pt_drop (by decide), hextra]
    rfl
  | mate v =>
    show projectTokens ("score".toList :: "mate".toList :: intText v :: "hashfull".toList :: natText hashfull ::
      "nps".toList :: natText nps :: extra) = _
    rw [pt_keep hpS, pt_keep (by decide), pt_keep (plain_intText v), pt_drop (by decide), pt_drop (by decide), hextra]
    rfl
  | cpBounded v b => exact absurd rfl (hsc v b)

theorem walk_tail (n hashfull nps : Nat) {pv : List (List Char)} (hplain : ∀ w ∈ pv, Plain w) (sc : Console.Score)
    (hsc : ∀ v b, sc ≠ .cpBounded v b) {extra : List (List Char)} (hextra : projectTokens extra = []) :
    projectTokens ("nodes".toList :: natText n :: "pv".toList :: (pv ++ ("score".toList :: (scoreTokens sc ++
      ("hashfull".toList :: natText hashfull :: "nps".toList :: natText nps :: extra))))) =
      "pv".toList :: (pv ++ ("score".toList :: scoreTokens sc)) := by
  rw [pt_drop (by decide)]
  have e : "pv".toList :: (pv ++ ("score".toList :: (scoreTokens sc ++
      ("hashfull".toList :: natText hashfull :: "nps".toList :: natText nps :: extra)))) =
      ("pv".toList :: pv) ++ "score".toList :: (scoreTokens sc ++
      ("hashfull".toList :: natText hashfull :: "nps".toList :: natText nps :: extra)) := rfl
  rw [e, pt_keep_list ("pv".toList :: pv) _ _
    (by intro w hw
        rcases List.mem_cons.mp hw with rfl | hw
        · decide
        · exact hplain w hw), walk_score sc hsc hashfull nps hextra]
  rfl

theorem walk_info (d : Nat) (t : Option Nat) (n hashfull nps : Nat) {pv : List (List Char)} (hplain : ∀ w ∈ pv, Plain w)
    (sc : Console.Score) (hsc : ∀ v b, sc ≠ .cpBounded v b) {extra : List (List Char)} (hextra : projectTokens extra = []) :
    projectTokens (infoTokens d t n pv sc hashfull nps ++ extra) =
      "depth".toList :: natText d :: "pv".toList :: (pv ++ ("score".toList :: scoreTokens sc)) := by
  have hpD : Plain "depth".toList := by decide
  have ht := walk_tail n hashfull nps hplain sc hsc hextra
  unfold infoTokens
  cases t with
  | none =>
    simp only [List.append_assoc, List.cons_append, List.nil_append]
    rw [pt_keep hpD, pt_keep (plain_natText d), ht]
  | some tm =>
    simp only [List.append_assoc, List.cons_append, List.nil_append]
    rw [pt_keep hpD, pt_keep (plain_natText d), pt_drop (by decide), ht]

/-- **the projection of an iteration info line**: depth, PV and score survive, everything run dependent is removed -/
theorem project_infoLine (d : Nat) (t : Option Nat) (n : Nat) {pv : List (List Char)} (hpv : pv ≠ [])
    (hplain : ∀ w ∈ pv, Plain w ∧ ' ' ∉ w) (sc : Console.Score) (hsc : ∀ v b, sc ≠ .cpBounded v b) (hashfull nps : Nat)
    (dbg : Option (List Char)) :
    projectChars (infoLineChars d t n pv (Console.scoreText sc) hashfull nps dbg) =
      "info depth ".toList ++ (natText d ++ (" pv ".toList ++ (joinSp pv ++ (" score ".toList ++ Console.scoreText sc)))) := by
  -- 1. the tokens of the line
  have hscT : ∀ w ∈ scoreTokens sc, Plain w ∧ ' ' ∉ w := by
    cases sc with
    | cp v =>
      intro w hw
      simp only [scoreTokens, List.mem_cons, List.not_mem_nil, or_false] at hw
      rcases hw with rfl | rfl
      · exact ⟨by decide, by decide⟩
      · exact ⟨plain_intText v, nosp_intText v⟩
    | mate v =>
      intro w hw
      simp only [scoreTokens, List.mem_cons, List.not_mem_nil, or_false] at hw
      rcases hw with rfl | rfl
      · exact ⟨by decide, by decide⟩
      · exact ⟨plain_intText v, nosp_intText v⟩
    | cpBounded v b => exact absurd rfl (hsc v b)
  have hnosp : ∀ w ∈ "info".toList :: infoTokens d t n pv sc hashfull nps, ' ' ∉ w := by
    have htail : ∀ w ∈ ["nodes".toList, natText n, "pv".toList] ++ (pv ++ ("score".toList :: (scoreTokens sc ++
        ["hashfull".toList, natText hashfull, "nps".toList, natText nps]))), ' ' ∉ w := by
      intro w hw
      rcases List.mem_append.mp hw with hw | hw
      · rcases List.mem_cons.mp hw with rfl | hw
        · decide
        rcases List.mem_cons.mp hw with rfl | hw
        · exact nosp_natText _
        rcases List.mem_cons.mp hw with rfl | hw
        · decide
        cases hw
      rcases List.mem_append.mp hw with hw | hw
      · exact (hplain w hw).2
      rcases List.mem_cons.mp hw with rfl | hw
      · decide
      rcases List.mem_append.mp hw with hw | hw
      · exact (hscT w hw).2
      rcases List.mem_cons.mp hw with rfl | hw
      · decide
      rcases List.mem_cons.mp hw with rfl | hw
      · exact nosp_natText _
      rcases List.mem_cons.mp hw with rfl | hw
      · decide
      rcases List.mem_cons.mp hw with rfl | hw
      · exact nosp_natText _
      cases hw
    intro w hw
    rcases List.mem_cons.mp hw with rfl | hw
    · decide
    unfold infoTokens at hw
    rcases List.mem_append.mp hw with hw | hw
    · rcases List.mem_cons.mp hw with rfl | hw
      · decide
      rcases List.mem_cons.mp hw with rfl | hw
      · exact nosp_natText _
      cases hw
    rcases List.mem_append.mp hw with hw | hw
    · cases t with
      | none => cases hw
      | some tm =>
        rcases List.mem_cons.mp hw with rfl | hw
        · decide
        rcases List.mem_cons.mp hw with rfl | hw
        · exact nosp_natText _
        cases hw
    · exact htail w hw
  have hsplit : splitOnChar ' ' (infoLineChars d t n pv (Console.scoreText sc) hashfull nps dbg) =
      "info".toList :: (infoTokens d t n pv sc hashfull nps ++
        extraTokens dbg) := by
    rw [infoLineChars_tokens d t n hpv]
    cases dbg with
    | none =>
      simp only [List.append_nil, extraTokens]
      exact split_spTail _ _ hnosp
    | some s =>
      simp only
      rw [split_spTail_sfx _ _ _ hnosp, FenRoundtrip.splitOnChar_append (by decide)]
      rfl
  -- 2. the walk of `projectTokens`
  have hextra : projectTokens (extraTokens dbg) = [] := by
    cases dbg with
    | none => exact pt_nil
    | some s => exact pt_string _
  have hwalk := walk_info d t n hashfull nps (fun w hw => (hplain w hw).1) sc hsc hextra
  -- 3. put together
  unfold projectChars
  rw [hsplit]
  simp only [if_true]
  rw [hwalk]
  have hh : ("depth".toList :: natText d :: "pv".toList :: (pv ++ ("score".toList :: scoreTokens sc))).head? =
      some "depth".toList := rfl
  rw [if_pos hh, joinSp_cons']
  have k1 : "info depth ".toList = "info".toList ++ ' ' :: ("depth".toList ++ [' ']) := by decide
  have k4 : " pv ".toList = ' ' :: ("pv".toList ++ [' ']) := by decide
  have k5 : " score ".toList = ' ' :: ("score".toList ++ [' ']) := by decide
  have hs := scoreText_tokens sc
  have hp := sp_joinSp hpv
  have e : spTail (pv ++ ("score".toList :: scoreTokens sc)) =
      ' ' :: (joinSp pv ++ (' ' :: ("score".toList ++ ' ' :: Console.scoreText sc))) := by
    rw [spTail_append, spTail_cons, ← hp, ← hs]
    simp only [List.cons_append]
  rw [k1, k4, k5, spTail_cons, spTail_cons, spTail_cons, e]
  simp only [List.append_assoc, List.cons_append, List.nil_append]

/-- UCI move texts are plain tokens: their second character is a digit -/
theorem plain_uci (m : Move) : Plain m.uci.toList ∧ ' ' ∉ m.uci.toList := by
  have hs := C16Wf.source_lt m
  have ht := C16Wf.target_lt m
  have hform : ∃ a b r, m.uci.toList = a :: b :: r ∧ UciOut.isDigit b = true := by
    rw [← uciOf_render_toList]
    refine ⟨_, _, _, rfl, ?_⟩
    show UciOut.isDigit (Char.ofNat (56 - m.f.source / 8)) = true
    have : ∀ k, k < 8 → UciOut.isDigit (Char.ofNat (56 - k)) = true := by decide
    exact this _ (by omega)
  obtain ⟨a, b, r, hab, hb⟩ := hform
  constructor
  · have key : ∀ k ∈ "string".toList :: dropKeys, ∀ y, k[1]? = some y → UciOut.isDigit y = false := by decide
    have hne : ∀ k ∈ "string".toList :: dropKeys, m.uci.toList ≠ k := by
      intro k hk e
      have := key k hk b (by rw [← e, hab]; rfl)
      rw [hb] at this; cases this
    exact ⟨hne _ (by simp), fun hm => hne _ (List.mem_cons_of_mem _ hm) rfl⟩
  · intro hsp
    have hw := SanProofs.uci_noWhitespace m ' ' hsp
    revert hw; decide

/-! ## agreement with `AppOps.projectLine` on examples (the TARGET of the header, evaluated) -/

/-- the two projections agree on a line -/
def projAgree (l : String) : Bool := AppOps.projectLine l == String.ofList (projectChars l.toList)

#guard projAgree "info depth 2 time 0 nodes 181 pv b8c6 b1c3 score cp -40 hashfull 0 nps 766358"
#guard projAgree "info depth 1 time 0 nodes 21 pv b8c6 score cp 10 hashfull 0 nps 986146 string tphitrate 0 nrate 1 qrate 0"
#guard projAgree "info time 12 nodes 100000 hashfull 3 nps 7000000"
#guard projAgree "info depth 0 time 0 nodes 1 hashfull 0 nps 0"
#guard projAgree "bestmove b8c6 ponder b1c3"
#guard projAgree "info depth 3 time 1 nodes 9 pv e7e8q score mate 1 hashfull 0 nps 0"
#guard projAgree "" && projAgree "info" && projAgree "info " && projAgree " info depth 1" && projAgree "info  depth 1"
#guard projAgree "info depth" && projAgree "info depth 1 string" && projAgree "info string depth 1" && projAgree "info nps"
#guard projAgree "info depth 1 time" && projAgree "info time depth 1 2" && projAgree "infodepth 1" && projAgree "readyok"
#guard String.ofList (projectChars "info depth 2 time 0 nodes 181 pv b8c6 b1c3 score cp -40 hashfull 0 nps 7".toList) ==
  "info depth 2 pv b8c6 b1c3 score cp -40"

#print axioms project_infoLine
#print axioms plain_uci

end Inkayaku.EndToEnd
