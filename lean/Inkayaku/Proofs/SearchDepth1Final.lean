import Inkayaku.Proofs.SearchDepth1
import Inkayaku.Proofs.AlphaBeta
import Inkayaku.Proofs.GenLength
/-!
# The value-range invariant of iteration 1 and `depth1_completes` (C07)

`HorizonBelowWin`: every depth-1 child search returns a value `< winScore`, so the first legal root move beats the
initial `bestValue = lossScore` and iteration 1 returns a move.

The children are horizon nodes.  Their value is
* the repetition value `drawScore - contempt = -50`, or
* a static evaluation with legal moves remaining: `|v| ≤ 176000` (`SpecSearch.standPat_bound`, every board), or
* the terminal value `lossScore + fullmove` (mated) or `0` (stalemate) — below `winScore` iff `fullmove < 2^25`
  (this is where the side condition on the full-move counter is needed, and it IS needed: from `fullmove ≥ 2^25` on a
  mating move would be valued `≤ lossScore` and never recorded), or
* a quiescence value.  `search_quiescence` is fail-hard, and that alone bounds it: a node searched with fuel ≥ 1
  returns its `β` or something `≥` its stand-pat (`quiescence_lb`, no induction); hence at a node with fuel ≥ 2 every
  child value, negated, is `≤ max α 176000`, and so is the result (`quiescence_ub`).  Running out of fuel deeper in
  the tree can only produce fail-lows, so no adequacy of the quiescence fuel is needed.
-/
namespace Inkayaku.Search
open Inkayaku.Board Inkayaku.Eval Inkayaku.WF Inkayaku.BoardCongr

theorem VM.leaf_value (v : Int) : (VM.leaf v).value = v := rfl
theorem VM.mk_value (v : Int) (m : Option Move) (c : Option VM) : (VM.mk v m c).value = v := rfl

/-! ## quiescence values -/

/-- fail-hard move loop: the result is the cut-off bound `β` or at least the entry `α` (for every fuel) -/
theorem qLoop_ge (fuel : Nat) : ∀ (moves : List Move) (s : St) (a β : Int) (bm : Option Move) (bc : Option VM),
    (quiescenceLoop fuel s moves a β bm bc).1.value = β ∨ a ≤ (quiescenceLoop fuel s moves a β bm bc).1.value := by
  intro moves
  induction moves with
  | nil => intro s a β bm bc; rw [quiescenceLoop_nil]; right; exact Int.le_refl _
  | cons m rest ih =>
    intro s a β bm bc
    rw [quiescenceLoop_cons]
    split
    · exact ih _ a β bm bc
    · generalize quiescence fuel { s with board := make s.board m, quiescenceNodes := s.quiescenceNodes + 1 } (-β) (-a) = r
      simp only
      split
      · left; rfl
      · split
        · rename_i hgt
          refine Or.imp id (fun h => ?_) (ih _ (-r.1.value) β (some m) (some r.1))
          omega
        · exact ih _ a β bm bc

/-- a quiescence node with fuel returns its `β` or a value not below its stand-pat, hence `≥ -176000` -/
theorem quiescence_lb (fuel : Nat) (s : St) (α β : Int) :
    (quiescence (fuel + 1) s α β).1.value = β ∨ -176000 ≤ (quiescence (fuel + 1) s α β).1.value := by
  rw [quiescence_succ]
  split
  · left; rfl
  · have hsp := (SpecSearch.standPat_bound s.board s.board.turn).1
    rcases qLoop_ge fuel (sortMoves (genNonQuiescent s.board) none none none) s
      (max α (evalFor s.board s.board.turn true)) β none none with h | h
    · left; exact h
    · right; omega

/-- if every child returns its `β` or a value `≥ -176000`, the loop result stays below any `M ≥ max α 176000` -/
theorem qLoop_ub {fuel : Nat}
    (hchild : ∀ (s : St) (a b : Int), (quiescence fuel s a b).1.value = b ∨ -176000 ≤ (quiescence fuel s a b).1.value)
    (M : Int) (hM : 176000 ≤ M) :
    ∀ (moves : List Move) (s : St) (a β : Int) (bm : Option Move) (bc : Option VM), a ≤ M →
      (quiescenceLoop fuel s moves a β bm bc).1.value ≤ M := by
  intro moves
  induction moves with
  | nil => intro s a β bm bc ha; rw [quiescenceLoop_nil]; exact ha
  | cons m rest ih =>
    intro s a β bm bc ha
    rw [quiescenceLoop_cons]
    split
    · exact ih _ a β bm bc ha
    · have hc := hchild { s with board := make s.board m, quiescenceNodes := s.quiescenceNodes + 1 } (-β) (-a)
      simp only
      split
      · rename_i hge
        show β ≤ M
        omega
      · split
        · exact ih _ _ β _ _ (by omega)
        · exact ih _ a β bm bc ha

/-- **value range of the fail-hard quiescence search**: with fuel ≥ 2 the result is `≤ max α 176000` -/
theorem quiescence_ub (fuel : Nat) (s : St) (α β : Int) :
    (quiescence (fuel + 2) s α β).1.value ≤ max α 176000 := by
  rw [quiescence_succ]
  have hsp := (SpecSearch.standPat_bound s.board s.board.turn).2
  split
  · rename_i hge
    show β ≤ max α 176000
    omega
  · exact qLoop_ub (quiescence_lb fuel) (max α 176000) (by omega) _ s _ β none none (by omega)

/-! ## the horizon nodes of iteration 1 -/

theorem repValue_one_lt : repValue 1 < Gen.winScore := by decide

/-- **`HorizonBelowWin` holds** whenever a mate score delivered after the root move stays below `winScore`
(`fullmove + turn < 2^25`) and the fuel reaches the quiescence search with 2 units left -/
theorem horizonBelowWin (b0 : Board) (hfm : b0.fullmove + b0.turn < 33554432) (fuel : Nat) :
    HorizonBelowWin b0 (fuel + 3) := by
  have hw := SpecSearch.winScore_val
  have hl := SpecSearch.lossScore_val
  intro c β isPv h ph ⟨m, _, _, hvis⟩ htt _ hnn hlt hβ
  have hf := pollFlag_false_of_lt hnn hlt
  have he := enter_of_noFlag hf h
  have hb : (enter c h).board = c.board := enter_board c h
  have hprobe : probe ((enter c h).tt.get? h) (1 - 1) lossScore β = (none, lossScore, β) := by
    have : (enter c h).tt.get? h = none := by rw [he]; exact htt _
    rw [this]; rfl
  have hfull : c.board.fullmove = b0.fullmove + b0.turn := by
    have h1 : c.board.fullmove = (make b0 m).fullmove := by
      rw [← fullmove_vis c.board, hvis, fullmove_vis]
    rw [h1]; rfl
  rw [negamax_succ, timedOut_of_noFlag hf]
  simp only [Bool.false_eq_true, if_false]
  split
  · rw [VM.leaf_value]; exact repValue_one_lt
  · split
    · rename_i r x y heq
      rw [hprobe] at heq
      cases heq
    · rename_i x alpha beta heq
      rw [hprobe] at heq
      have hal : alpha = lossScore := by injection heq with _ h'; injection h' with h' _; exact h'.symm
      subst hal
      split
      · rename_i hz; simp at hz
      · split
        · unfold horizon
          simp only
          split
          · have := quiescence_ub fuel (enter c h) lossScore beta
            omega
          · rw [VM.leaf_value, hb]
            cases hlr : isAnyMoveLegal c.board (rootBuffer (enter c h) 1) with
            | true =>
              have := (SpecSearch.standPat_bound c.board c.board.turn).2
              omega
            | false =>
              rw [SpecSearch.term_value']
              split <;> omega
        · rename_i hne; simp at hne

/-! ## `depth1_completes` -/

theorem wf_turn_le {b : Board} (h : wf b = true) : b.turn ≤ 1 := by
  have := h
  simp only [WF.wf, Bool.and_eq_true, decide_eq_true_eq] at this
  omega

theorem horizonBelowWin_of_wf {b : Board} (hwf : wf b = true) (hfm : b.fullmove < 33554431) :
    HorizonBelowWin b (fuelFor 1 - 1) := by
  have := wf_turn_le hwf
  exact horizonBelowWin b (by omega) 197

section
variable (L : BoardLaws)
include L

/-- **a position with a legal move never gets the null move** (model level): the first iteration cannot be
interrupted and returns a move; later iterations can only replace it by another completed result -/
theorem depth1_completes (s : St) (g : GoParams) (maxIter : Nat) (hwf : Inv (fuelFor 1) s.board)
    (hfm : s.board.fullmove < 33554431) (hiter : 1 ≤ maxIter) (hpoll : 41218 < s.pollPeriod)
    (hlegal : ∃ m, LegalRoot s.board g.searchMoves m) :
    bestMoveOf (goDeepen s g maxIter).1 ≠ none :=
  depth1_completes_partial L s g maxIter hwf hiter
    (Nat.lt_of_le_of_lt (GenLength.genPseudo_length_le s.board) hpoll) hlegal
    (horizonBelowWin_of_wf hwf.wf hfm)

end

end Inkayaku.Search
