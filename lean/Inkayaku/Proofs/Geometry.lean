import Inkayaku.Spec.Rays
import Inkayaku.Spec.Chess
import Inkayaku.Gen.Leapers
import Inkayaku.Proofs.RayWalk
/-!
Ray lists and leaper tables versus the arithmetic of the rules (`Spec.Chess`): items 3 and 4 of the C05 plan.

All facts about the 64 × 64 pairs of squares are finite and are established by kernel evaluation
(`decide +kernel`) of Boolean checks over `List.range 64`; the lemmas below only unpack them.
`Gen.Leapers` is regenerated from the current build, so the leaper facts are re-checked against the tables the
code has now.
-/
namespace Inkayaku.Geometry
open Inkayaku.Spec Inkayaku.Rays Inkayaku.Gen

/-! ## The Spec's predicates, with the position factored out -/

/-- the squares `Spec.clearBetween` inspects, in its order (from `a` towards `b`) -/
def between (a b : Nat) : List Nat :=
  let df := sgn (fileOf b - fileOf a)
  let dr := sgn (rowOf b - rowOf a)
  let n := max (fileOf b - fileOf a).natAbs (rowOf b - rowOf a).natAbs
  (List.range (n - 1)).map fun i => mkSq (fileOf a + df * (i + 1 : Nat)) (rowOf a + dr * (i + 1 : Nat))

theorem clearBetween_eq (p : Pos) (a b : Nat) :
    clearBetween p a b = (between a b).all fun q => (p.at q).isNone := by
  simp [clearBetween, between, List.all_map, Function.comp_def]

def rookLine (a b : Nat) : Bool :=
  a != b && ((fileOf b - fileOf a).natAbs == 0 || (rowOf b - rowOf a).natAbs == 0)
def bishLine (a b : Nat) : Bool :=
  a != b && ((fileOf b - fileOf a).natAbs == (rowOf b - rowOf a).natAbs)
def knightGeom (a b : Nat) : Bool :=
  a != b && (((fileOf b - fileOf a).natAbs == 1 && (rowOf b - rowOf a).natAbs == 2)
    || ((fileOf b - fileOf a).natAbs == 2 && (rowOf b - rowOf a).natAbs == 1))
def kingGeom (a b : Nat) : Bool :=
  a != b && (decide ((fileOf b - fileOf a).natAbs ≤ 1) && decide ((rowOf b - rowOf a).natAbs ≤ 1))
/-- a pawn of colour `white` on `a` attacks `b` -/
def pawnGeom (white : Bool) (a b : Nat) : Bool :=
  a != b && ((fileOf b - fileOf a).natAbs == 1 && rowOf b - rowOf a == (if white then -1 else 1))

theorem attacksGeom_rook (p : Pos) (w : Bool) (a b : Nat) :
    attacksGeom p .rook w a b = (rookLine a b && clearBetween p a b) := by
  simp [attacksGeom, rookLine, Bool.and_assoc]
theorem attacksGeom_bishop (p : Pos) (w : Bool) (a b : Nat) :
    attacksGeom p .bishop w a b = (bishLine a b && clearBetween p a b) := by
  simp [attacksGeom, bishLine, Bool.and_assoc]
theorem attacksGeom_queen (p : Pos) (w : Bool) (a b : Nat) :
    attacksGeom p .queen w a b = ((rookLine a b || bishLine a b) && clearBetween p a b) := by
  simp only [attacksGeom, rookLine, bishLine]
  cases a != b <;> simp [Bool.or_assoc]
theorem attacksGeom_knight (p : Pos) (w : Bool) (a b : Nat) : attacksGeom p .knight w a b = knightGeom a b := by
  simp [attacksGeom, knightGeom]
theorem attacksGeom_king (p : Pos) (w : Bool) (a b : Nat) : attacksGeom p .king w a b = kingGeom a b := by
  simp [attacksGeom, kingGeom]
theorem attacksGeom_pawn (p : Pos) (w : Bool) (a b : Nat) : attacksGeom p .pawn w a b = pawnGeom w a b := by
  simp [attacksGeom, pawnGeom]

/-! ## Finite checks -/

/-- every square met on a ray from `a` is on the line, is a board square, and the ray squares before it are exactly
the squares the Spec calls "strictly between", in the same order -/
def rayOK (dirs : List Dir) (line : Nat → Nat → Bool) : Bool :=
  (List.range 64).all fun a => dirs.all fun d =>
    (List.range (ray a d).length).all fun i =>
      line a ((ray a d).getD i 0) && ((ray a d).take i == between a ((ray a d).getD i 0))
        && decide ((ray a d).getD i 0 < 64)

/-- every square on the line is met by one of the rays -/
def lineOK (dirs : List Dir) (line : Nat → Nat → Bool) : Bool :=
  (List.range 64).all fun a => (List.range 64).all fun b =>
    !line a b || dirs.any fun d => (ray a d).contains b

/-- the line relation is symmetric and the squares between are the same from both ends (reversed order) -/
def symOK (line : Nat → Nat → Bool) : Bool :=
  (List.range 64).all fun a => (List.range 64).all fun b =>
    (line a b == line b a) && (!line a b || between a b == (between b a).reverse)

/-- the leaper table entry of `a` is the set of squares `b` with `geom a b` -/
def tableOK (tbl : List Nat) (geom : Nat → Nat → Bool) : Bool :=
  (List.range 64).all fun a => (List.range 64).all fun b => (tbl.getD a 0).testBit b == geom a b

def relSymOK (g h : Nat → Nat → Bool) : Bool :=
  (List.range 64).all fun a => (List.range 64).all fun b => g a b == h b a

theorem rook_rayOK : rayOK rookDirs rookLine = true := by decide +kernel
theorem bishop_rayOK : rayOK bishopDirs bishLine = true := by decide +kernel
theorem rook_lineOK : lineOK rookDirs rookLine = true := by decide +kernel
theorem bishop_lineOK : lineOK bishopDirs bishLine = true := by decide +kernel
theorem rook_symOK : symOK rookLine = true := by decide +kernel
theorem bishop_symOK : symOK bishLine = true := by decide +kernel
theorem knight_tableOK : tableOK knightTable knightGeom = true := by decide +kernel
theorem king_tableOK : tableOK kingTable kingGeom = true := by decide +kernel
theorem whitePawn_tableOK : tableOK whitePawnTable (pawnGeom true) = true := by decide +kernel
theorem blackPawn_tableOK : tableOK blackPawnTable (pawnGeom false) = true := by decide +kernel
theorem knight_relSymOK : relSymOK knightGeom knightGeom = true := by decide +kernel
theorem king_relSymOK : relSymOK kingGeom kingGeom = true := by decide +kernel
/-- a white pawn on `a` attacks `b` iff a black pawn on `b` attacks `a` -/
theorem pawn_relSymOK : relSymOK (pawnGeom true) (pawnGeom false) = true := by decide +kernel

/-! ## Unpacked -/

private theorem all2 {f : Nat → Nat → Bool} (h : ((List.range 64).all fun a => (List.range 64).all fun b => f a b) = true)
    {a b : Nat} (ha : a < 64) (hb : b < 64) : f a b = true := by
  rw [List.all_eq_true] at h
  have := h a (List.mem_range.mpr ha)
  rw [List.all_eq_true] at this
  exact this b (List.mem_range.mpr hb)

theorem ray_spec {dirs : List Dir} {line : Nat → Nat → Bool} (h : rayOK dirs line = true)
    {a : Nat} (ha : a < 64) {d : Dir} (hd : d ∈ dirs) {i b : Nat} (hi : (ray a d)[i]? = some b) :
    line a b = true ∧ (ray a d).take i = between a b ∧ b < 64 := by
  unfold rayOK at h
  rw [List.all_eq_true] at h
  have h1 := h a (List.mem_range.mpr ha)
  rw [List.all_eq_true] at h1
  have h2 := h1 d hd
  rw [List.all_eq_true] at h2
  obtain ⟨hlt, hget⟩ := List.getElem?_eq_some_iff.mp hi
  have h3 := h2 i (List.mem_range.mpr hlt)
  have hgetD : (ray a d).getD i 0 = b := by
    rw [List.getD_eq_getElem?_getD, hi]; rfl
  rw [hgetD] at h3
  simp only [Bool.and_eq_true, beq_iff_eq, decide_eq_true_eq] at h3
  exact ⟨h3.1.1, h3.1.2, h3.2⟩

/-- a slider's attack set in the vocabulary of the Spec: the target is on the line and the squares strictly
between are empty -/
theorem slide_iff {dirs : List Dir} {line : Nat → Nat → Bool} (h1 : rayOK dirs line = true)
    (h2 : lineOK dirs line = true) (a b occ : Nat) (ha : a < 64) (hb : b < 64) :
    (slide dirs a occ).testBit b = true ↔ line a b = true ∧ ∀ q ∈ between a b, occ.testBit q = false := by
  rw [RayWalk.slide_testBit]
  constructor
  · rintro ⟨d, hd, i, hi, hfree⟩
    obtain ⟨hl, htake, _⟩ := ray_spec h1 ha hd hi
    exact ⟨hl, by rwa [← htake]⟩
  · rintro ⟨hl, hfree⟩
    have := all2 h2 ha hb
    simp only [hl, Bool.not_true, Bool.false_or, List.any_eq_true, List.contains_iff_mem] at this
    obtain ⟨d, hd, hmem⟩ := this
    obtain ⟨i, hi⟩ := List.mem_iff_getElem?.mp hmem
    obtain ⟨_, htake, _⟩ := ray_spec h1 ha hd hi
    exact ⟨d, hd, i, hi, by rwa [htake]⟩

theorem slide_lt {dirs : List Dir} {line : Nat → Nat → Bool} (h1 : rayOK dirs line = true)
    (a b occ : Nat) (ha : a < 64) (h : (slide dirs a occ).testBit b = true) : b < 64 := by
  rw [RayWalk.slide_testBit] at h
  obtain ⟨d, hd, i, hi, _⟩ := h
  exact (ray_spec h1 ha hd hi).2.2

theorem line_symm {line : Nat → Nat → Bool} (h : symOK line = true) {a b : Nat} (ha : a < 64) (hb : b < 64) :
    line a b = line b a := by
  have := all2 h ha hb
  simp only [Bool.and_eq_true, beq_iff_eq] at this
  exact this.1

theorem between_symm {line : Nat → Nat → Bool} (h : symOK line = true) {a b : Nat} (ha : a < 64) (hb : b < 64)
    (hl : line a b = true) : between a b = (between b a).reverse := by
  have := all2 h ha hb
  simp only [hl, Bool.and_eq_true, beq_iff_eq, Bool.not_true, Bool.false_or] at this
  exact this.2

/-- **reverse lookup for sliders**: looking from `s` along the lines finds `t` iff a slider on `t` attacks `s` -/
theorem slide_rev_iff {dirs : List Dir} {line : Nat → Nat → Bool} (h1 : rayOK dirs line = true)
    (h2 : lineOK dirs line = true) (h3 : symOK line = true) (s t occ : Nat) (hs : s < 64) (ht : t < 64) :
    (slide dirs s occ).testBit t = true ↔ line t s = true ∧ ∀ q ∈ between t s, occ.testBit q = false := by
  rw [slide_iff h1 h2 s t occ hs ht, line_symm h3 hs ht]
  constructor
  · rintro ⟨hl, hfree⟩
    refine ⟨hl, fun q hq => hfree q ?_⟩
    rw [between_symm h3 hs ht (by rwa [line_symm h3 hs ht])]
    exact List.mem_reverse.mpr hq
  · rintro ⟨hl, hfree⟩
    refine ⟨hl, fun q hq => hfree q ?_⟩
    rw [between_symm h3 ht hs hl]
    exact List.mem_reverse.mpr hq

theorem table_spec {tbl : List Nat} {geom : Nat → Nat → Bool} (h : tableOK tbl geom = true)
    {a b : Nat} (ha : a < 64) (hb : b < 64) : (tbl.getD a 0).testBit b = geom a b := by
  have := all2 h ha hb
  simpa using this

theorem rel_symm {g h : Nat → Nat → Bool} (hs : relSymOK g h = true) {a b : Nat} (ha : a < 64) (hb : b < 64) :
    g a b = h b a := by
  have := all2 hs ha hb
  simpa using this

end Inkayaku.Geometry
