import Inkayaku.Proofs.GenSpecPawn
import Inkayaku.Props.C05
/-!
# C01, part 6: castling

* `castle_masks_eq_fide` (item 1 of C01): the eight castling masks of the CURRENT build (`Gen.BoardConsts`,
  regenerated from the Rust on every run) are the squares of the FIDE text, and the rank/file masks equal their
  geometric definition.  Squares: a8 = 0 … h8 = 7, a1 = 56, b1 = 57, c1 = 58, d1 = 59, e1 = 60, f1 = 61, g1 = 62, h1 = 63.
* `mem_castleK`: a castling key is generated iff the Spec allows that castling move.  The Spec also asks for king and
  rook on their home squares; the code does not test this, conjunct (5) of `WF.wf` provides it.
-/
namespace Inkayaku.GenSpec
open Inkayaku.Board Inkayaku.Gen Inkayaku.Bits Inkayaku.Geometry Inkayaku.Attack Inkayaku.Abs Inkayaku.Spec

/-! ## the masks -/

/-- **Item 1 of C01.**  "Empty" masks = the squares strictly between king and rook (b1 c1 d1 / f1 g1 / b8 c8 d8 / f8 g8)
= the squares the Spec's `clearBetween` inspects; "check" masks = the king's start, crossing and landing squares
(c1 d1 e1 / e1 f1 g1 / c8 d8 e8 / e8 f8 g8); rank/file masks = "row / file of the square". -/
theorem castle_masks_eq_fide :
    -- squares that must be empty
    bitsAsc whiteQueenSideCastleEmpty.toUInt64 = [57, 58, 59] ∧
    bitsAsc whiteKingSideCastleEmpty.toUInt64 = [61, 62] ∧
    bitsAsc blackQueenSideCastleEmpty.toUInt64 = [1, 2, 3] ∧
    bitsAsc blackKingSideCastleEmpty.toUInt64 = [5, 6] ∧
    -- squares that must not be attacked
    bitsAsc whiteQueenSideCastleCheck.toUInt64 = [58, 59, 60] ∧
    bitsAsc whiteKingSideCastleCheck.toUInt64 = [60, 61, 62] ∧
    bitsAsc blackQueenSideCastleCheck.toUInt64 = [2, 3, 4] ∧
    bitsAsc blackKingSideCastleCheck.toUInt64 = [4, 5, 6] ∧
    -- no stray bits above bit 63
    (∀ m ∈ [whiteQueenSideCastleEmpty, whiteKingSideCastleEmpty, blackQueenSideCastleEmpty, blackKingSideCastleEmpty,
        whiteQueenSideCastleCheck, whiteKingSideCastleCheck, blackQueenSideCastleCheck, blackKingSideCastleCheck,
        rank1, rank2, rank3, rank4, rank5, rank6, rank7, rank8,
        fileA, fileB, fileC, fileD, fileE, fileF, fileG, fileH], m < 2 ^ 64) ∧
    -- the same squares in the Spec's terms: strictly between king and rook; king's source, crossing, target
    (between 60 56 = [59, 58, 57] ∧ between 60 63 = [61, 62] ∧ between 4 0 = [3, 2, 1] ∧ between 4 7 = [5, 6]) ∧
    (castleSquares true false = (60, 58, 56, 59) ∧ castleSquares true true = (60, 62, 63, 61) ∧
      castleSquares false false = (4, 2, 0, 3) ∧ castleSquares false true = (4, 6, 7, 5)) ∧
    -- ranks and files
    (∀ s, s < 64 →
      rank8.testBit s = decide (s / 8 = 0) ∧ rank7.testBit s = decide (s / 8 = 1) ∧
      rank6.testBit s = decide (s / 8 = 2) ∧ rank5.testBit s = decide (s / 8 = 3) ∧
      rank4.testBit s = decide (s / 8 = 4) ∧ rank3.testBit s = decide (s / 8 = 5) ∧
      rank2.testBit s = decide (s / 8 = 6) ∧ rank1.testBit s = decide (s / 8 = 7) ∧
      fileA.testBit s = decide (s % 8 = 0) ∧ fileB.testBit s = decide (s % 8 = 1) ∧
      fileC.testBit s = decide (s % 8 = 2) ∧ fileD.testBit s = decide (s % 8 = 3) ∧
      fileE.testBit s = decide (s % 8 = 4) ∧ fileF.testBit s = decide (s % 8 = 5) ∧
      fileG.testBit s = decide (s % 8 = 6) ∧ fileH.testBit s = decide (s % 8 = 7)) := by
  refine ⟨by decide, by decide, by decide, by decide, by decide, by decide, by decide, by decide, by decide,
    by decide, by decide, by decide⟩

/-! ## the Spec's castling condition, per side -/

def specCastleCond (p : Pos) (white kingSide : Bool) : Bool :=
  let right := match white, kingSide with
    | true, true => p.wk | true, false => p.wq | false, true => p.bk | false, false => p.bq
  let ks := (castleSquares white kingSide).1
  let kt := (castleSquares white kingSide).2.1
  let rs := (castleSquares white kingSide).2.2.1
  let crossing := (ks + kt) / 2
  right && p.at ks == some ⟨white, .king⟩ && p.at rs == some ⟨white, .rook⟩ && clearBetween p ks rs
        && !attacked p (!white) ks && !attacked p (!white) crossing && !attacked p (!white) kt

theorem castleMoves_eq' (p : Pos) (white : Bool) : Spec.castleMoves p white =
    [true, false].filterMap fun kingSide =>
      if specCastleCond p white kingSide then
        some ⟨(castleSquares white kingSide).1, (castleSquares white kingSide).2.1, none⟩ else none := by
  cases white <;> rfl

theorem mem_castleMoves (p : Pos) (white : Bool) (sm : SMove) :
    sm ∈ Spec.castleMoves p white ↔
      (specCastleCond p white false = true ∧
        sm = ⟨(castleSquares white false).1, (castleSquares white false).2.1, none⟩) ∨
      (specCastleCond p white true = true ∧
        sm = ⟨(castleSquares white true).1, (castleSquares white true).2.1, none⟩) := by
  rw [castleMoves_eq']
  simp only [List.filterMap_cons, List.filterMap_nil]
  cases specCastleCond p white true <;> cases specCastleCond p white false <;> simp [or_comm]

/-! ## the model's castling condition -/

theorem and_eq_zero_all (x m : UInt64) : (x &&& m == 0) = (bitsAsc m).all fun q => !testU x q := by
  rw [Bool.eq_iff_iff, beq_iff_eq, and_eq_zero_iff, List.all_eq_true]
  constructor
  · intro h q hq
    have hq' := (mem_bitsAsc _ _).mp hq
    cases hx : testU x q
    · rfl
    · exact absurd ⟨hx, hq'⟩ (h q (testU_lt hq'))
  · intro h t _ ht
    have := h t ((mem_bitsAsc _ _).mpr ht.2)
    rw [ht.1] at this
    cases this

theorem castleCond_core (b : Board) (hd : Disjoint b) (c : Nat) (right : Bool) (em cm : Nat) (E C : List Nat)
    (hE : bitsAsc em.toUInt64 = E) (hC : bitsAsc cm.toUInt64 = C) :
    castleCond right (b.white.full ||| b.black.full) em cm c (sideOf b (c != 0)) =
      (right && (E.all fun q => ((abs b).at q).isNone) && !C.any fun s => attacked (abs b) (c != 0) s) := by
  unfold castleCond
  rw [C05.occupancy_in_check b hd c, hC, and_eq_zero_all, hE]
  congr 2
  congr 1
  funext q
  rw [← at_isSome]
  cases (abs b).at q <;> rfl

/-- home squares from conjunct (5) of `wf` -/
theorem home_squares {b : Board} (hd : Disjoint b) {w : Bool} {right : Bool} {ks rs : Nat} (hks : ks < 64) (hrs : rs < 64)
    (h : right = true → testU (sideOf b w).kings ks = true ∧ testU (sideOf b w).rooks rs = true) :
    right = true → ((abs b).at ks == some ⟨w, .king⟩) = true ∧ ((abs b).at rs == some ⟨w, .rook⟩) = true := by
  intro hr
  obtain ⟨h1, h2⟩ := h hr
  rw [beq_iff_eq, beq_iff_eq]
  exact ⟨(at_iff b hd ks hks w .king).mpr h1, (at_iff b hd rs hrs w .rook).mpr h2⟩

theorem or_comm_full (b : Board) : b.black.full ||| b.white.full = b.white.full ||| b.black.full := UInt64.or_comm _ _

section
variable {b : Board} (hw : PawnWF b)
include hw

theorem cond_wq : castleCond b.white.qs (b.white.full ||| b.black.full) whiteQueenSideCastleEmpty
    whiteQueenSideCastleCheck 0 b.black = specCastleCond (abs b) true false := by
  have hh := home_squares hw.disjoint (w := true) (ks := 60) (rs := 56) (by decide) (by decide) hw.facts.wqs
  have := castleCond_core b hw.disjoint 0 b.white.qs _ _ _ _ castle_masks_eq_fide.1 castle_masks_eq_fide.2.2.2.2.1
  simp only [sideOf, bne_self_eq_false, Bool.false_eq_true, if_false] at this
  rw [this]
  unfold specCastleCond
  simp only [castleSquares, clearBetween_eq, castle_masks_eq_fide.2.2.2.2.2.2.2.2.2.1.1]
  show _ = (b.white.qs && _ && _ && _ && _ && _ && _)
  cases hr : b.white.qs
  · rfl
  · have := hh hr
    simp only [this.1, this.2, List.all_cons, List.all_nil, List.any_cons, List.any_nil, Bool.not_true,
      Bool.true_and, Bool.and_true, Bool.or_false, Bool.not_or]
    generalize attacked (abs b) false 58 = a1
    generalize attacked (abs b) false 59 = a2
    generalize attacked (abs b) false 60 = a3
    generalize ((abs b).at 57).isNone = e1
    generalize ((abs b).at 58).isNone = e2
    generalize ((abs b).at 59).isNone = e3
    cases a1 <;> cases a2 <;> cases a3 <;> cases e1 <;> cases e2 <;> cases e3 <;> rfl

theorem cond_wk : castleCond b.white.ks (b.white.full ||| b.black.full) whiteKingSideCastleEmpty
    whiteKingSideCastleCheck 0 b.black = specCastleCond (abs b) true true := by
  have hh := home_squares hw.disjoint (w := true) (ks := 60) (rs := 63) (by decide) (by decide) hw.facts.wks
  have := castleCond_core b hw.disjoint 0 b.white.ks _ _ _ _ castle_masks_eq_fide.2.1 castle_masks_eq_fide.2.2.2.2.2.1
  simp only [sideOf, bne_self_eq_false, Bool.false_eq_true, if_false] at this
  rw [this]
  unfold specCastleCond
  simp only [castleSquares, clearBetween_eq, castle_masks_eq_fide.2.2.2.2.2.2.2.2.2.1.2.1]
  show _ = (b.white.ks && _ && _ && _ && _ && _ && _)
  cases hr : b.white.ks
  · rfl
  · have := hh hr
    simp only [this.1, this.2, List.all_cons, List.all_nil, List.any_cons, List.any_nil, Bool.not_true,
      Bool.true_and, Bool.and_true, Bool.or_false, Bool.not_or]
    generalize attacked (abs b) false 60 = a1
    generalize attacked (abs b) false 61 = a2
    generalize attacked (abs b) false 62 = a3
    generalize ((abs b).at 61).isNone = e1
    generalize ((abs b).at 62).isNone = e2
    cases a1 <;> cases a2 <;> cases a3 <;> cases e1 <;> cases e2 <;> rfl

theorem cond_bq : castleCond b.black.qs (b.black.full ||| b.white.full) blackQueenSideCastleEmpty
    blackQueenSideCastleCheck 1 b.white = specCastleCond (abs b) false false := by
  have hh := home_squares hw.disjoint (w := false) (ks := 4) (rs := 0) (by decide) (by decide) hw.facts.bqs
  have := castleCond_core b hw.disjoint 1 b.black.qs _ _ _ _ castle_masks_eq_fide.2.2.1
    castle_masks_eq_fide.2.2.2.2.2.2.1
  simp only [sideOf, show ((1 : Nat) != 0) = true from rfl, if_true] at this
  rw [or_comm_full, this]
  unfold specCastleCond
  simp only [castleSquares, clearBetween_eq, castle_masks_eq_fide.2.2.2.2.2.2.2.2.2.1.2.2.1]
  show _ = (b.black.qs && _ && _ && _ && _ && _ && _)
  cases hr : b.black.qs
  · rfl
  · have := hh hr
    simp only [this.1, this.2, List.all_cons, List.all_nil, List.any_cons, List.any_nil, Bool.not_false,
      Bool.true_and, Bool.and_true, Bool.or_false, Bool.not_or]
    generalize attacked (abs b) true 2 = a1
    generalize attacked (abs b) true 3 = a2
    generalize attacked (abs b) true 4 = a3
    generalize ((abs b).at 1).isNone = e1
    generalize ((abs b).at 2).isNone = e2
    generalize ((abs b).at 3).isNone = e3
    cases a1 <;> cases a2 <;> cases a3 <;> cases e1 <;> cases e2 <;> cases e3 <;> rfl

theorem cond_bk : castleCond b.black.ks (b.black.full ||| b.white.full) blackKingSideCastleEmpty
    blackKingSideCastleCheck 1 b.white = specCastleCond (abs b) false true := by
  have hh := home_squares hw.disjoint (w := false) (ks := 4) (rs := 7) (by decide) (by decide) hw.facts.bks
  have := castleCond_core b hw.disjoint 1 b.black.ks _ _ _ _ castle_masks_eq_fide.2.2.2.1
    castle_masks_eq_fide.2.2.2.2.2.2.2.1
  simp only [sideOf, show ((1 : Nat) != 0) = true from rfl, if_true] at this
  rw [or_comm_full, this]
  unfold specCastleCond
  simp only [castleSquares, clearBetween_eq, castle_masks_eq_fide.2.2.2.2.2.2.2.2.2.1.2.2.2]
  show _ = (b.black.ks && _ && _ && _ && _ && _ && _)
  cases hr : b.black.ks
  · rfl
  · have := hh hr
    simp only [this.1, this.2, List.all_cons, List.all_nil, List.any_cons, List.any_nil, Bool.not_false,
      Bool.true_and, Bool.and_true, Bool.or_false, Bool.not_or]
    generalize attacked (abs b) true 4 = a1
    generalize attacked (abs b) true 5 = a2
    generalize attacked (abs b) true 6 = a3
    generalize ((abs b).at 5).isNone = e1
    generalize ((abs b).at 6).isNone = e2
    cases a1 <;> cases a2 <;> cases a3 <;> cases e1 <;> cases e2 <;> rfl

/-- **castling**: a castling key is generated iff the Spec allows the castling move -/
theorem mem_castleK (x : Key) :
    x ∈ castleK b (b.active.full ||| b.passive.full) ↔
      x.piece = KING ∧ x.castle = true ∧ x.mv ∈ Spec.castleMoves (abs b) (abs b).whiteToMove := by
  rw [whiteToMove_eq, mem_castleMoves]
  unfold castleK
  obtain ⟨xp, xc, xm⟩ := x
  cases hwt : b.whiteTurn
  · have ha : b.active = b.black := by simp [Board.active, hwt]
    have hp : b.passive = b.white := by simp [Board.passive, hwt]
    simp only [Bool.false_eq_true, if_false, ha, hp, cond_bq hw, cond_bk hw, List.mem_append, mem_ite_nil,
      List.mem_singleton, castleKey, Key.mk.injEq, castleSquares, E8, C8, G8]
    constructor
    · rintro (⟨h, rfl, rfl, rfl⟩ | ⟨h, rfl, rfl, rfl⟩)
      · exact ⟨rfl, rfl, Or.inl ⟨h, rfl⟩⟩
      · exact ⟨rfl, rfl, Or.inr ⟨h, rfl⟩⟩
    · rintro ⟨rfl, rfl, ⟨h, rfl⟩ | ⟨h, rfl⟩⟩
      · exact Or.inl ⟨h, rfl, rfl, rfl⟩
      · exact Or.inr ⟨h, rfl, rfl, rfl⟩
  · have ha : b.active = b.white := by simp [Board.active, hwt]
    have hp : b.passive = b.black := by simp [Board.passive, hwt]
    simp only [if_true, ha, hp, cond_wq hw, cond_wk hw, List.mem_append, mem_ite_nil,
      List.mem_singleton, castleKey, Key.mk.injEq, castleSquares, E1, C1, G1]
    constructor
    · rintro (⟨h, rfl, rfl, rfl⟩ | ⟨h, rfl, rfl, rfl⟩)
      · exact ⟨rfl, rfl, Or.inl ⟨h, rfl⟩⟩
      · exact ⟨rfl, rfl, Or.inr ⟨h, rfl⟩⟩
    · rintro ⟨rfl, rfl, ⟨h, rfl⟩ | ⟨h, rfl⟩⟩
      · exact Or.inl ⟨h, rfl, rfl, rfl⟩
      · exact Or.inr ⟨h, rfl, rfl, rfl⟩

end

end Inkayaku.GenSpec
