import Inkayaku.Proofs.SearchPvRules
/-!
# A checkable sufficient condition for the no-collision hypotheses of `pv_legal_line`

`reachList root N` lists (with repetitions) the positions at most `N` legal moves below `root`; every position of
`ReachLe root N` has the visible position of a member (`reachList_cover`).  `injCheck key L` tests by brute force that any
two members of `L` with equal Zobrist hash have equal `key`.  With `key = vis` this gives `HashInjVis (ReachLe root N)`,
with `key = coreB` (the visible position with both clocks zeroed) it gives `HashInjCore (ReachLe root N)`.
The test is evaluated by `decide +kernel` for concrete roots in `Props/C16Pv.lean`.
-/
namespace Inkayaku.Search
open Inkayaku.Board Inkayaku.WF Inkayaku.BoardCongr Inkayaku.Abs

/-- the positions exactly `n` legal moves below `root` (one entry per path) -/
def level (root : Board) : Nat → List Board
  | 0 => [root]
  | n + 1 => (level root n).flatMap fun x => (genLegal x).map (make x)

def reachList (root : Board) (N : Nat) : List Board := (List.range (N + 1)).flatMap (level root)

theorem level_cover {root b : Board} {n : Nat} (h : Reach root n b) : ∃ x ∈ level root n, vis b = vis x := by
  induction n generalizing b with
  | zero => exact ⟨root, List.mem_singleton.mpr rfl, h⟩
  | succ n ih =>
    obtain ⟨b0, m, hr, -, hm, hv, hb⟩ := h
    obtain ⟨x0, hx0, hvis⟩ := ih hr
    refine ⟨make x0 m, ?_, hb.trans (make_congr hvis m)⟩
    show make x0 m ∈ (level root n).flatMap fun x => (genLegal x).map (make x)
    refine List.mem_flatMap.mpr ⟨x0, hx0, List.mem_map.mpr ⟨m, ?_, rfl⟩⟩
    refine List.mem_filter.mpr ⟨by rw [← genPseudo_congr hvis]; exact hm, ?_⟩
    show isValid (make x0 m) = true
    rw [← isValid_congr (make_congr hvis m)]; exact hv

theorem reachList_cover {root b : Board} {N : Nat} (h : ReachLe root N b) : ∃ x ∈ reachList root N, vis b = vis x := by
  obtain ⟨n, hn, hr⟩ := h
  obtain ⟨x, hx, hv⟩ := level_cover hr
  exact ⟨x, List.mem_flatMap.mpr ⟨n, List.mem_range.mpr (by omega), hx⟩, hv⟩

/-- any two members of `L` with the same hash have the same `key` (hashes and keys are computed once per member) -/
def injCheck {α : Type} [DecidableEq α] (key : Board → α) (L : List Board) : Bool :=
  let K := L.map fun x => ((Zobrist.hash x).toNat, key x)
  K.all fun a => K.all fun b => a.1 != b.1 || decide (a.2 = b.2)

theorem inj_of_check {α : Type} [DecidableEq α] (key : Board → α) (hkey : ∀ b b', vis b = vis b' → key b = key b')
    {S : Board → Prop} (L : List Board) (hcover : ∀ b, S b → ∃ x ∈ L, vis b = vis x) (hc : injCheck key L = true) :
    ∀ b1 b2, S b1 → S b2 → Zobrist.hash b1 = Zobrist.hash b2 → key b1 = key b2 := by
  intro b1 b2 h1 h2 hh
  obtain ⟨x1, hx1, hv1⟩ := hcover b1 h1
  obtain ⟨x2, hx2, hv2⟩ := hcover b2 h2
  unfold injCheck at hc
  simp only at hc
  have := List.all_eq_true.mp (List.all_eq_true.mp hc _ (List.mem_map.mpr ⟨x1, hx1, rfl⟩)) _ (List.mem_map.mpr ⟨x2, hx2, rfl⟩)
  simp only [Bool.or_eq_true, bne_iff_ne, ne_eq, decide_eq_true_eq] at this
  have hxx : key x1 = key x2 := by
    rcases this with h | h
    · exact absurd (by rw [← hash_congr hv1, ← hash_congr hv2, hh]) h
    · exact h
  rw [hkey b1 x1 hv1, hkey b2 x2 hv2]; exact hxx

/-- the visible position without the clocks -/
def coreB (b : Board) : Board := { vis b with halfmove := 0, fullmove := 0 }

theorem coreB_congr {b b' : Board} (h : vis b = vis b') : coreB b = coreB b' := by
  unfold coreB; rw [h]

theorem clockless_abs_coreB (b : Board) : clockless (abs (coreB b)) = clockless (abs b) := rfl

theorem hashInjVis_of_check (root : Board) (N : Nat) (hc : injCheck vis (reachList root N) = true) :
    HashInjVis (ReachLe root N) :=
  inj_of_check vis (fun _ _ h => h) (reachList root N) (fun _ h => reachList_cover h) hc

theorem hashInjCore_of_check (root : Board) (N : Nat) (hc : injCheck coreB (reachList root N) = true) :
    HashInjCore (ReachLe root N) := by
  intro b1 b2 h1 h2 hh
  have := inj_of_check coreB (fun _ _ h => coreB_congr h) (reachList root N) (fun _ h => reachList_cover h) hc b1 b2 h1 h2 hh
  rw [← clockless_abs_coreB b1, ← clockless_abs_coreB b2, this]

end Inkayaku.Search
