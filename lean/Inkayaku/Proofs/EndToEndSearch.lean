import Inkayaku.Props.C16App
import Inkayaku.Props.C09
import Inkayaku.Props.Closure
import Inkayaku.Proofs.SearchRepHist
import Inkayaku.Proofs.SearchPvRules
import Inkayaku.Proofs.SanProofs
import Inkayaku.Spec.UciGrammar
/-!
# End-to-end, search half: from the `Out` stream of `Search.goCmd` to printed lines, and `position … moves …` by the rules

Helper file of `Props/EndToEnd.lean`.

* `uciOf_text`            – the move text the printer writes (`EngineOut.uciOf` + `UciMove.render`) is `Move.uci`;
* `render_bestMove`       – the printed `bestmove` line as a text;
* `render_info`           – the printed iteration `info` line as a text (`infoLineChars`);
* `searchLines_shape`     – the lines of an output `bestMove :: infos`: the infos in order, then the bestmove line;
* `goCmd_iters`           – `goCmd` depends on its iteration bound only through `goIters`;
* `eqv_setPosition_vis`   – `position` with a board and with its visible part give states that differ in scratch words only;
* `toSMove`, `moveText`   – a UCI move value as a move of the rules / as its text;
* `play_legal`, `play_illegal`, `setPosition_go_rules` – `set_position_from` walks exactly the legal lines of the rules Spec.
-/
namespace Inkayaku.EndToEnd
open Inkayaku.Board Inkayaku.WF Inkayaku.BoardCongr Inkayaku.Search Inkayaku.EngineOut Inkayaku.Abs
open Inkayaku.Uci (UciMove)
open Inkayaku.Console (renderChars render natText intText)

/-! ## 1. move texts -/

theorem pieceString_eq : ∀ p : Nat,
    pieceString p = String.ofList (match pieceOfIndex p with | none => [] | some q => [q.fen])
  | 0 => by decide
  | 1 => by decide
  | 2 => by decide
  | 3 => by decide
  | 4 => by decide
  | 5 => by decide
  | 6 => by decide
  | _ + 7 => by
    show "" = String.ofList []
    decide

/-- **the printed move text is `Move.uci`** (for every packed move: the square fields are 6 bits wide) -/
theorem uciOf_text (m : Move) : String.ofList (uciOf m).render = m.uci := by
  have hs := C16Wf.source_lt m
  have ht := C16Wf.target_lt m
  show _ = squareString m.f.source ++ squareString m.f.target ++ pieceString m.f.promotion
  unfold squareString
  rw [if_pos hs, if_pos ht, pieceString_eq, ← String.ofList_append, ← String.ofList_append]
  rfl

theorem uciOf_render_toList (m : Move) : (uciOf m).render = m.uci.toList := by
  rw [← uciOf_text, String.toList_ofList]

/-! ## 2. the printed lines -/

/-- the `bestmove` line of a non-null best move, as a text -/
def bestLine (m : Move) (ponder : Option Move) : String :=
  "bestmove " ++ m.uci ++ (match ponder with | none => "" | some p => " ponder " ++ p.uci)

theorem render_bestMove (aux : Aux) (m : Move) (ponder : Option Move) :
    render (toTx aux (.bestMove (some m) ponder)) = bestLine m ponder := by
  show String.ofList (Console.bestMoveText (some (uciOf m)) (ponder.map uciOf)) = _
  unfold Console.bestMoveText bestLine
  cases ponder with
  | none =>
    simp only [Option.map_none, List.append_nil, String.ofList_append, uciOf_text, String.ofList_toList,
      String.append_empty]
  | some p =>
    simp only [Option.map_some, String.ofList_append, uciOf_text, String.ofList_toList, String.append_assoc]

/-- the null-move line -/
theorem render_bestMove_none (aux : Aux) (ponder : Option Move) :
    render (toTx aux (.bestMove none ponder)) =
      "bestmove 0000" ++ (match ponder with | none => "" | some p => " ponder " ++ p.uci) := by
  show String.ofList (Console.bestMoveText none (ponder.map uciOf)) = _
  unfold Console.bestMoveText
  cases ponder with
  | none => decide
  | some p =>
    simp only [Option.map_some, String.ofList_append, uciOf_text, String.ofList_toList]
    rw [← String.append_assoc]
    rfl

/-- the text of an iteration info: `info depth D [time T] nodes N pv m1 … mk score S hashfull H nps P [string …]` -/
def infoLineChars (d : Nat) (t : Option Nat) (n : Nat) (pv : List (List Char)) (score : List Char) (hashfull nps : Nat)
    (dbg : Option (List Char)) : List Char :=
  "info depth ".toList ++ (natText d ++ ((match t with | some t => " time ".toList ++ natText t | none => []) ++
    (" nodes ".toList ++ (natText n ++ (" pv ".toList ++ (Console.joinSp pv ++ (" score ".toList ++ (score ++
    (" hashfull ".toList ++ (natText hashfull ++ (" nps ".toList ++ (natText nps ++
    (match dbg with | some s => " string ".toList ++ s | none => [])))))))))))))

theorem appendMaybe_some (key v : List Char) : Console.appendMaybe key (some v) = ' ' :: (key ++ ' ' :: v) := rfl
theorem appendMaybe_none (key : List Char) : Console.appendMaybe key none = [] := rfl

/-- **the printed iteration info, as a text** -/
theorem render_info (aux : Aux) (d : Nat) (t : Option Nat) (n : Nat) (sc : Eval.Score) (pv : List Move) :
    renderChars (toTx aux (.info (some d) t n (some sc) (some pv))) =
      infoLineChars d t n (pv.map fun m => m.uci.toList) (Console.scoreText (scoreOf sc)) aux.hashfull aux.nps
        (aux.debug.map debugText) := by
  have epv : (pv.map uciOf).map UciMove.render = pv.map fun m => m.uci.toList := by
    rw [List.map_map]; exact List.map_congr_left (fun m _ => uciOf_render_toList m)
  have k1 : "info depth ".toList = "info".toList ++ ' ' :: ("depth".toList ++ [' ']) := by decide
  have k2 : " time ".toList = ' ' :: ("time".toList ++ [' ']) := by decide
  have k3 : " nodes ".toList = ' ' :: ("nodes".toList ++ [' ']) := by decide
  have k4 : " pv ".toList = ' ' :: ("pv".toList ++ [' ']) := by decide
  have k5 : " score ".toList = ' ' :: ("score".toList ++ [' ']) := by decide
  have k6 : " hashfull ".toList = ' ' :: ("hashfull".toList ++ [' ']) := by decide
  have k7 : " nps ".toList = ' ' :: ("nps".toList ++ [' ']) := by decide
  have k8 : " string ".toList = ' ' :: ("string".toList ++ [' ']) := by decide
  show Console.infoText _ = _
  unfold Console.infoText Console.infoSegments infoLineChars Console.movesText
  simp only [Option.map_some, Option.map_none, appendMaybe_some, appendMaybe_none, epv, k1, k2, k3, k4, k5, k6, k7,
    k8]
  cases t <;> cases aux.debug <;>
    simp only [Option.map_some, Option.map_none, appendMaybe_some, appendMaybe_none, List.flatten_cons, List.flatten_nil,
      List.append_assoc, List.cons_append, List.nil_append, List.append_nil]

/-- the lines of an output that ends with a bestmove: the infos in the order of emission, then the bestmove line -/
theorem searchLines_shape (aux : Out → Aux) (bm : Out) (infos : List Out) :
    searchLines aux (bm :: infos) = searchLines aux infos ++ [render (toTx (aux bm) bm)] := by
  simp [searchLines]

/-- an emitted message is printed: its line stands between the lines printed before and after it -/
theorem searchLines_mem (aux : Out → Aux) {o : Out} {outs : List Out} (h : o ∈ outs) :
    ∃ pre post, searchLines aux outs = pre ++ render (toTx (aux o) o) :: post := by
  have : render (toTx (aux o) o) ∈ searchLines aux outs :=
    List.mem_map.mpr ⟨o, List.mem_reverse.mpr h, rfl⟩
  exact List.append_of_mem this

/-- a bestmove message in an output with exactly one bestmove is the head -/
theorem bestMove_is_head {b : Option Move} {p : Option Move} {b' p' : Option Move} {infos : List Out}
    (hn : bestMoves infos = []) (h : Out.bestMove b p ∈ Out.bestMove b' p' :: infos) : b = b' ∧ p = p' := by
  rcases List.mem_cons.mp h with e | h
  · injection e with e1 e2; exact ⟨e1, e2⟩
  · exfalso
    have hf := C16App.filter_isBestOut_of_bestMoves_nil infos hn
    have : Out.bestMove b p ∈ infos.filter C16App.isBestOut := List.mem_filter.mpr ⟨h, rfl⟩
    rw [hf] at this
    cases this

theorem info_mem_tail {d t n sc pv} {bm : Out} {infos : List Out} (hbm : C16App.isBestOut bm = true)
    (h : Out.info d t n sc pv ∈ bm :: infos) : Out.info d t n sc pv ∈ infos := by
  rcases List.mem_cons.mp h with e | h
  · subst e; cases hbm
  · exact h

/-! ## 3. the iteration bound; scratch words -/

/-- `goCmd` depends on its iteration bound only through `goIters` -/
theorem goCmd_iters (s : St) (g : GoParams) {n n' : Nat} (h : goIters g n = goIters g n') : goCmd s g n = goCmd s g n' := by
  have : goDeepen s g n = goDeepen s g n' := by unfold goDeepen; rw [h]
  rw [goCmd_eq, goCmd_eq, this]

theorem goIters_depth {g : GoParams} {d n : Nat} (hg : g.depth = some d) (h1 : 1 ≤ d) (hn : d ≤ n) : goIters g n = d := by
  unfold goIters; rw [hg]
  show min (max d 1) n = d
  omega

/-- `position` with a board and with its visible part: the states differ in scratch words only -/
theorem eqv_setPosition_vis (s : St) (b : Board) : Eqv (setPosition s b []) (setPosition s (vis b) []) := by
  refine ⟨vis b, ?_, ?_⟩
  · rw [SearchSim.setPosition_nil]; exact vis_vis b
  · rw [SearchSim.setPosition_nil, SearchSim.setPosition_nil, hash_vis, plyClock_vis]

theorem inv_vis {k : Nat} {b : Board} (h : Inv k b) : Inv k (vis b) := Inv_congr (vis_vis b).symm h

/-! ## 4. UCI move values as moves of the rules -/

def kindOfPiece : Uci.Piece → Spec.Kind
  | .pawn => .pawn | .knight => .knight | .bishop => .bishop | .rook => .rook | .queen => .queen | .king => .king

/-- the move of the rules a UCI move value denotes: source, target, promotion piece -/
def toSMove (u : UciMove) : Spec.SMove := ⟨u.source, u.target, u.promotion.map kindOfPiece⟩

/-- the text of a UCI move value -/
def moveText (u : UciMove) : String := String.ofList u.render

theorem toSMove_uci (u : UciMove) : (toSMove u).uci = moveText u := by
  obtain ⟨s, t, p⟩ := u
  show Spec.sqName s ++ Spec.sqName t ++ _ = String.ofList (Uci.squareFen s ++ Uci.squareFen t ++ _)
  rw [String.ofList_append, String.ofList_append]
  cases p with
  | none => rfl
  | some q => cases q <;> rfl

theorem squareFen_noRustWs : ∀ i, i < 64 → ∀ c ∈ Uci.squareFen i, Util.isRustWhitespace c = false := by decide

theorem rustTrim_moveText (u : UciMove) (h : UciGrammar.MoveWf u) : Util.rustTrim (moveText u) = moveText u := by
  unfold Util.rustTrim moveText
  rw [String.toList_ofList, SanProofs.rustTrimChars_id]
  intro c hc
  simp only [UciMove.render, List.mem_append] at hc
  rcases hc with (hc | hc) | hc
  · exact squareFen_noRustWs _ h.1 c hc
  · exact squareFen_noRustWs _ h.2 c hc
  · cases hp : u.promotion with
    | none => rw [hp] at hc; simp at hc
    | some p =>
      rw [hp] at hc
      simp at hc; subst hc
      cases p <;> decide

/-- a generated move prints as the text of its abstraction -/
theorem uci_smove {b : Board} (hwf : wf b = true) {m : Move} (hm : m ∈ genPseudo b) : m.uci = (smove m).uci := by
  obtain ⟨hs, ht, hp⟩ := GenSpec.gen_bounds hwf hm
  exact C01.uci_agree _ hs ht hp

/-- **a legal move of the rules, written as UCI text, is accepted by `find_uci`** and denotes that move -/
theorem play_legal {b : Board} (hwf : wf b = true) {u : UciMove}
    (hl : toSMove u ∈ Spec.legalMoves (abs b)) :
    ∃ m b', San.findUci b (moveText u) = (.ok m, b') ∧ vis b' = vis b ∧ m ∈ genLegal b ∧ smove m = toSMove u := by
  obtain ⟨m, hm, hmu⟩ := List.mem_map.mp ((Closure.genLegal_eq_rules hwf (toSMove u)).mpr hl)
  have hmu' : smove m = toSMove u := hmu
  have hmp : m ∈ genPseudo b := (List.mem_filter.mp hm).1
  have htxt : m.uci = moveText u := by rw [uci_smove hwf hmp, hmu', toSMove_uci]
  have hok : (San.findUci b (moveText u)).1 = .ok m :=
    (Closure.findUci_ok_iff_legal_wf b hwf (moveText u) m).mpr
      ⟨hm, by rw [← htxt, SanProofs.rustTrim_uci]⟩
  refine ⟨m, (San.findUci b (moveText u)).2, ?_, MoveText.findUci_pure hwf _, hm, hmu'⟩
  rw [← hok]

/-- **a text that is not a legal move of the rules is rejected** -/
theorem play_illegal {b : Board} (hwf : wf b = true) {u : UciMove} (hu : UciGrammar.MoveWf u)
    (hl : toSMove u ∉ Spec.legalMoves (abs b)) : ∃ e b', San.findUci b (moveText u) = (.error e, b') := by
  rcases hf : San.findUci b (moveText u) with ⟨r, b'⟩
  cases r with
  | error e => exact ⟨e, b', rfl⟩
  | ok m =>
    exfalso
    obtain ⟨hm, htxt⟩ := (Closure.findUci_ok_iff_legal_wf b hwf (moveText u) m).mp (by rw [hf])
    rw [rustTrim_moveText u hu] at htxt
    have hmp : m ∈ genPseudo b := (List.mem_filter.mp hm).1
    obtain ⟨hs, ht, -⟩ := GenSpec.gen_bounds hwf hmp
    have e : smove m = toSMove u :=
      C01.uci_injective (a := smove m) (c := toSMove u) ⟨hs, ht⟩ hu (by rw [← uci_smove hwf hmp, htxt, toSMove_uci])
    apply hl
    rw [← e]
    exact smove_legal hwf hmp (List.mem_filter.mp hm).2

/-- the texts of a list of UCI move values, as `App.runPosition` hands them to `set_position_from` -/
def moveTexts (us : List UciMove) : List String := us.map fun m => String.ofList m.render

/-- the position reached by a line of the rules -/
def applyLine (p : Spec.Pos) (l : List Spec.SMove) : Spec.Pos := l.foldl Spec.apply p

/-- **`set_position_from` follows exactly the legal lines of the rules**: if every move is legal where it is played
(`RulesLine`), the loop ends on a well-formed board (with the remaining clock budget `k`) that stands for the position the
rules Spec reaches, `n` plies later; otherwise it returns `none` (the engine keeps its old state) -/
theorem setPosition_go_rules (k : Nat) : ∀ (us : List UciMove) (b : Board) (h : Array Nat) (made : List Move),
    (∀ u ∈ us, UciGrammar.MoveWf u) → Inv (us.length + k) b →
    (RulesLine (abs b) (us.map toSMove) →
      ∃ b' h' mv, setPosition.go b h made (moveTexts us) = some (b', h', mv) ∧ Inv k b' ∧
        abs b' = applyLine (abs b) (us.map toSMove) ∧ mv.length = made.length + us.length ∧
        SearchSim.ply2 b' = SearchSim.ply2 b + us.length) ∧
    (¬ RulesLine (abs b) (us.map toSMove) → setPosition.go b h made (moveTexts us) = none)
  | [], b, h, made, _, hinv => by
    refine ⟨fun _ => ⟨b, h, made.reverse, SearchRep.setPosition_go_nil b h made, ?_, rfl, by simp, rfl⟩, ?_⟩
    · simpa using hinv
    · intro hn; exact absurd trivial hn
  | u :: us, b, h, made, hus, hinv => by
    have hwf := hinv.wf
    have hinv' : Inv (us.length + k + 1) b := by
      have e : (u :: us).length + k = us.length + k + 1 := by simp only [List.length_cons]; omega
      rw [e] at hinv; exact hinv
    show (RulesLine (abs b) (toSMove u :: us.map toSMove) → _) ∧ (¬ RulesLine (abs b) (toSMove u :: us.map toSMove) → _)
    have hcons : moveTexts (u :: us) = moveText u :: moveTexts us := rfl
    rw [hcons, SearchRep.setPosition_go_cons]
    by_cases hl : toSMove u ∈ Spec.legalMoves (abs b)
    · obtain ⟨m, b1, hf, hv, hm, hsm⟩ := play_legal hwf hl
      have hmp : m ∈ genPseudo b := (List.mem_filter.mp hm).1
      have hstep : SearchRep.Step b (make b1 m) := ⟨m, hm, make_congr hv m⟩
      obtain ⟨hinv2, hply⟩ := hstep.inv hinv'
      have habs : abs (make b1 m) = Spec.apply (abs b) (toSMove u) := by
        rw [abs_congr (make_congr hv m), ← hsm]; exact C02.make_eq_apply hwf hmp
      obtain ⟨ih1, ih2⟩ := setPosition_go_rules k us (make b1 m)
        (historySet h (plyClock (make b1 m)) (Zobrist.hash (make b1 m)).toNat) (m :: made)
        (fun x hx => hus x (List.mem_cons_of_mem _ hx)) hinv2
      rw [hf]
      simp only
      rw [habs] at ih1 ih2
      constructor
      · intro hr
        obtain ⟨b', h', mv, e1, e2, e3, e4, e5⟩ := ih1 hr.2
        exact ⟨b', h', mv, e1, e2, e3, by rw [e4]; simp only [List.length_cons]; omega,
          by rw [e5, hply]; simp only [List.length_cons]; omega⟩
      · intro hr
        exact ih2 (fun hr' => hr ⟨hl, hr'⟩)
    · obtain ⟨e, b1, hf⟩ := play_illegal hwf (hus u List.mem_cons_self) hl
      rw [hf]
      exact ⟨fun hr => absurd hr.1 hl, fun _ => rfl⟩

/-- the full-move number after `n` plies -/
theorem fullmove_of_ply2 {b b' : Board} {n : Nat} (hwf : wf b = true) (hwf' : wf b' = true)
    (h : SearchSim.ply2 b' = SearchSim.ply2 b + n) : b'.fullmove ≤ b.fullmove + n := by
  have t1 : b.turn ≤ 1 ∧ 1 ≤ b.fullmove := by
    have := hwf
    simp only [WF.wf, Bool.and_eq_true, decide_eq_true_eq] at this
    omega
  have t2 : b'.turn ≤ 1 ∧ 1 ≤ b'.fullmove := by
    have := hwf'
    simp only [WF.wf, Bool.and_eq_true, decide_eq_true_eq] at this
    omega
  unfold SearchSim.ply2 at h
  omega

#print axioms uciOf_text
#print axioms render_info
#print axioms render_bestMove
#print axioms play_legal
#print axioms play_illegal
#print axioms setPosition_go_rules

end Inkayaku.EndToEnd
