import Inkayaku.Proofs.ZobristLinear
/-!
The incremental Zobrist update: for a move `f` that fits the board `b` (`HashMoveOK b f`, a decidable predicate that lists
exactly the facts the argument needs), XOR-ing the delta `Zobrist.xorOf f` into the hashes of `b` gives the hashes
computed from scratch for `makeF b f`.

Structure: the from-scratch hashes are split into per-side parts (`npHash`, `pwHash`, `rightsHash`) plus side and e.p.
keys; `makeF` is split into "drop the lost rights" followed by `moveSides` (the four branches); every branch is shown
to toggle exactly the keys that the corresponding branch of `xorOf` toggles; `combine` assembles the pieces.

Core Lean only.
-/
namespace Inkayaku.ZobristStep
open Inkayaku.Board Inkayaku.Zobrist Inkayaku.ZobristLinear

/-! ## The applicability predicate -/

/-- castling branch: the king's target names a rook move, the packed source square is the king's home square that
`zobrist_xor` hard-codes, king and rook of the mover stand on their source squares and not on their target squares -/
def CastleOK (m : Side) (f : MoveF) : Prop :=
  match castleRook f.target with
  | some (rs, rt) =>
    f.source = (if f.target == C1 || f.target == G1 then E1 else E8) ∧
    testU m.kings f.source = true ∧ testU m.kings f.target = false ∧
    testU m.rooks rs = true ∧ testU m.rooks rt = false
  | none => False

instance (m : Side) (f : MoveF) : Decidable (CastleOK m f) := by
  unfold CastleOK; split <;> infer_instance

/-- the move fields `f` fit the board `b` as far as the hashes are concerned.
Everything here holds for the moves produced by the generator on a well-formed board; nothing is said about the
geometry of the move, about check, about clocks, or (for a quiet move) about the target square being empty in the
passive words (the scratch word `o0` that `make` clears there is not hashed). -/
def HashMoveOK (b : Board) (f : MoveF) : Prop :=
  b.turn ≤ 1 ∧ f.side = b.turn ∧ f.prevEp = b.ep ∧ f.source < 64 ∧ f.target < 64 ∧
  -- a "lost right" flag is only set when the right is held
  (f.selfLostKing = true → b.active.ks = true) ∧ (f.selfLostQueen = true → b.active.qs = true) ∧
  (f.oppLostKing = true → b.passive.ks = true) ∧ (f.oppLostQueen = true → b.passive.qs = true) ∧
  (if f.castle = true then CastleOK b.active f
   else if f.enPassant = true then
     -- the capturing pawn moves source → target, the victim stands one rank behind the target (target ± 8, in range)
     testU b.active.pawns f.source = true ∧ testU b.active.pawns f.target = false ∧
     (if b.turn = 0 then f.target + 8 < 64 ∧ testU b.passive.pawns (f.target + 8) = true
      else 8 ≤ f.target ∧ testU b.passive.pawns (f.target - 8) = true)
   else
     (if f.promotion ≠ NO_PIECE then
        -- a pawn leaves the source, a non-pawn piece of kind `promotion` appears on the target
        KNIGHT ≤ f.promotion ∧ f.promotion ≤ KING ∧
        testU b.active.pawns f.source = true ∧ testU (b.active.get f.promotion) f.target = false
      else
        PAWN ≤ f.pieceMoved ∧ f.pieceMoved ≤ KING ∧
        testU (b.active.get f.pieceMoved) f.source = true ∧ testU (b.active.get f.pieceMoved) f.target = false) ∧
     -- `pieceAttacked` is a piece code; if it is a real piece, that piece of the passive side stands on the target
     f.pieceAttacked ≤ KING ∧ (f.pieceAttacked ≠ NO_PIECE → testU (b.passive.get f.pieceAttacked) f.target = true))

instance (b : Board) (f : MoveF) : Decidable (HashMoveOK b f) := by
  unfold HashMoveOK; infer_instance

/-! ## The from-scratch hashes, split by side -/

/-- non-pawn placement part of one side -/
def npHash (s : Side) (c : Nat) : UInt64 :=
  hashOcc s.kings KING c ^^^ hashOcc s.queens QUEEN c ^^^ hashOcc s.rooks ROOK c
    ^^^ hashOcc s.bishops BISHOP c ^^^ hashOcc s.knights KNIGHT c

/-- pawn placement part of one side -/
def pwHash (s : Side) (c : Nat) : UInt64 := hashOcc s.pawns PAWN c

/-- castling rights part of one side -/
def rightsHash (s : Side) (c : Nat) : UInt64 :=
  (if s.qs then castle QUEEN c else 0) ^^^ (if s.ks then castle KING c else 0)

/-- `BLACK_TO_MOVE_HASH * (1 - turn)` -/
def sideKey (turn : Nat) : UInt64 := if turn == 0 then blackToMove else 0

/-- the e.p. contribution -/
def epKey (ep : Nat) : UInt64 := if ep != 0 then enPassant ep else 0

theorem ite_xor (c : Prop) [Decidable c] (x k : UInt64) :
    (if c then x ^^^ k else x) = x ^^^ (if c then k else 0) := by
  split <;> simp

theorem pawnHash_eq (b : Board) :
    pawnHash b = pwHash b.white 0 ^^^ pwHash b.black 1 ^^^ sideKey b.turn ^^^ epKey b.ep := by
  unfold pawnHash pwHash sideKey epKey
  cases b.turn == 0 <;> cases b.ep != 0 <;> simp

theorem hash_eq (b : Board) :
    Zobrist.hash b = npHash b.white 0 ^^^ npHash b.black 1 ^^^ rightsHash b.white 0 ^^^ rightsHash b.black 1
      ^^^ pawnHash b := by
  unfold Zobrist.hash npHash rightsHash
  simp only [ite_xor]
  xor_norm

/-! ## `make`, split into "drop rights" and "move the pieces" -/

def dropRights (s : Side) (lk lq : Bool) : Side :=
  { s with ks := if lk then false else s.ks, qs := if lq then false else s.qs }

/-- the four branches of `Bitboard::make` on the two sides -/
def moveSides (mover other : Side) (white : Bool) (f : MoveF) : Side × Side :=
  let srcM := bitU f.source
  let tgtM := bitU f.target
  if f.castle then
    match castleRook f.target with
    | some (rs, rt) =>
      ({ mover with rooks := clearBit mover.rooks (bitU rs) ||| bitU rt,
                    kings := clearBit mover.kings srcM ||| tgtM }, other)
    | none => (mover, other)
  else if f.enPassant then
    let victim := if white then tgtM <<< 8 else tgtM >>> 8
    ({ mover with pawns := clearBit mover.pawns srcM ||| tgtM }, { other with pawns := clearBit other.pawns victim })
  else if f.promotion != NO_PIECE then
    let mover := { mover with pawns := clearBit mover.pawns srcM }
    let mover := mover.set f.promotion (mover.get f.promotion ||| tgtM)
    (mover, other.set f.pieceAttacked (clearBit (other.get f.pieceAttacked) tgtM))
  else
    let mover := mover.set f.pieceMoved (clearBit (mover.get f.pieceMoved) srcM ||| tgtM)
    (mover, other.set f.pieceAttacked (clearBit (other.get f.pieceAttacked) tgtM))

theorem makeF_eq (b : Board) (f : MoveF) :
    makeF b f =
      (match moveSides (dropRights b.active f.selfLostKing f.selfLostQueen)
          (dropRights b.passive f.oppLostKing f.oppLostQueen) b.whiteTurn f with
       | (mover, other) =>
         { white := if b.whiteTurn then mover else other
           black := if b.whiteTurn then other else mover
           turn := 1 - b.turn
           ep := f.nextEp
           fullmove := b.fullmove + b.turn
           halfmove := if f.halfmoveReset then 0 else b.halfmove + 1 }) := rfl

/-! ## Per-side lemmas -/

@[simp] theorem npHash_dropRights (s : Side) (lk lq : Bool) (c : Nat) : npHash (dropRights s lk lq) c = npHash s c := rfl
@[simp] theorem pwHash_dropRights (s : Side) (lk lq : Bool) (c : Nat) : pwHash (dropRights s lk lq) c = pwHash s c := rfl
@[simp] theorem get_dropRights (s : Side) (lk lq : Bool) (p : Nat) : (dropRights s lk lq).get p = s.get p := by
  unfold Side.get dropRights; split <;> rfl

theorem rightsHash_dropRights (s : Side) (lk lq : Bool) (c : Nat)
    (hk : lk = true → s.ks = true) (hq : lq = true → s.qs = true) :
    rightsHash (dropRights s lk lq) c
      = rightsHash s c ^^^ ((if lk then castle KING c else 0) ^^^ (if lq then castle QUEEN c else 0)) := by
  unfold rightsHash dropRights
  cases lk <;> cases lq <;> cases hks : s.ks <;> cases hqs : s.qs <;> simp_all <;> xor_norm

theorem set_qs (s : Side) (p : Nat) (v : UInt64) : (s.set p v).qs = s.qs := by
  unfold Side.set; split <;> rfl
theorem set_ks (s : Side) (p : Nat) (v : UInt64) : (s.set p v).ks = s.ks := by
  unfold Side.set; split <;> rfl

theorem rightsHash_congr {s s' : Side} (hq : s'.qs = s.qs) (hk : s'.ks = s.ks) (c : Nat) :
    rightsHash s' c = rightsHash s c := by
  unfold rightsHash; rw [hq, hk]

theorem le6_cases {p : Nat} (h : p ≤ 6) : p = 0 ∨ p = 1 ∨ p = 2 ∨ p = 3 ∨ p = 4 ∨ p = 5 ∨ p = 6 := by omega

/-- writing one word changes the non-pawn part by the old and the new hash of that word (nothing for pawns/scratch) -/
theorem npHash_set (s : Side) {p : Nat} (hp : p ≤ 6) (v : UInt64) (c : Nat) :
    npHash (s.set p v) c
      = npHash s c ^^^ (if p == PAWN then 0 else hashOcc (s.get p) p c ^^^ hashOcc v p c) := by
  rcases le6_cases hp with rfl | rfl | rfl | rfl | rfl | rfl | rfl
  · simp [npHash, Side.set, Side.get, hashOcc_noPiece, PAWN]
  · simp [npHash, Side.set, PAWN]
  all_goals
    simp only [npHash, Side.set, Side.get, PAWN, KNIGHT, BISHOP, ROOK, QUEEN, KING, Nat.reduceBEq, Bool.false_eq_true,
      if_false]
    xor_norm

theorem pwHash_set (s : Side) {p : Nat} (hp : p ≤ 6) (v : UInt64) (c : Nat) :
    pwHash (s.set p v) c
      = pwHash s c ^^^ (if p == PAWN then hashOcc (s.get p) p c ^^^ hashOcc v p c else 0) := by
  rcases le6_cases hp with rfl | rfl | rfl | rfl | rfl | rfl | rfl
  · simp [pwHash, Side.set, PAWN]
  · simp only [pwHash, Side.set, Side.get, PAWN, Nat.reduceBEq, if_true]
    xor_norm
  all_goals simp [pwHash, Side.set, PAWN]

/-- the key removed from the passive side by a capture (`NO_PIECE` = scratch word: nothing) -/
theorem capture_delta (o : Side) {pa t : Nat} (hpa : pa ≤ 6) (h : pa ≠ 0 → testU (o.get pa) t = true) (c : Nat) :
    hashOcc (o.get pa) pa c ^^^ hashOcc (clearBit (o.get pa) (bitU t)) pa c = pieceSquare pa t c := by
  by_cases h0 : pa = 0
  · subst h0; simp [hashOcc_noPiece, pieceSquare_noPiece]
  · rw [hashOcc_clearBit (h h0)]; xor_norm

theorem bitU_shl8 : ∀ t, t < 56 → bitU t <<< 8 = bitU (t + 8) := by decide +kernel
theorem bitU_shr8 : ∀ t, t < 64 → 8 ≤ t → bitU t >>> 8 = bitU (t - 8) := by decide +kernel

/-! ## The delta, branch by branch -/

def flagsSelf (f : MoveF) : UInt64 :=
  (if f.selfLostKing then castle KING f.side else 0) ^^^ (if f.selfLostQueen then castle QUEEN f.side else 0)
def flagsOpp (f : MoveF) : UInt64 :=
  (if f.oppLostKing then castle KING (1 - f.side) else 0) ^^^ (if f.oppLostQueen then castle QUEEN (1 - f.side) else 0)
def baseP (f : MoveF) : UInt64 := blackToMove ^^^ epKey f.prevEp ^^^ epKey f.nextEp

/-- shape of `xorOf`: flags, non-pawn keys `R`, and the pawn part `baseP ^^^ P` -/
def XorShape (f : MoveF) (R P : UInt64) : Prop :=
  xorOf f = (flagsSelf f ^^^ flagsOpp f ^^^ R ^^^ (baseP f ^^^ P), baseP f ^^^ P)

theorem xorOf_castle {f : MoveF} {rs rt : Nat} (hc : f.castle = true) (hr : castleRook f.target = some (rs, rt)) :
    XorShape f (pieceSquare ROOK rs f.side ^^^ pieceSquare ROOK rt f.side
      ^^^ pieceSquare KING (if f.target == C1 || f.target == G1 then E1 else E8) f.side
      ^^^ pieceSquare KING f.target f.side) 0 := by
  unfold XorShape xorOf
  simp only [hc, hr, if_true, flagsSelf, flagsOpp, baseP, epKey, ite_xor]
  simp only [Prod.mk.injEq]
  constructor <;> xor_norm

theorem xorOf_enPassant {f : MoveF} (hc : f.castle = false) (he : f.enPassant = true) :
    XorShape f 0 (pieceSquare PAWN f.source f.side ^^^ pieceSquare PAWN f.target f.side
      ^^^ pieceSquare PAWN (if f.side == 0 then f.target + 8 else f.target - 8) (1 - f.side)) := by
  unfold XorShape xorOf
  simp only [hc, he, if_true, if_false, Bool.false_eq_true, flagsSelf, flagsOpp, baseP, epKey, ite_xor]
  simp only [Prod.mk.injEq]
  constructor <;> xor_norm

theorem xorOf_promotion {f : MoveF} (hc : f.castle = false) (he : f.enPassant = false)
    (hp : (f.promotion != NO_PIECE) = true) :
    XorShape f (pieceSquare f.promotion f.target f.side
        ^^^ (if f.pieceAttacked == PAWN then 0 else pieceSquare f.pieceAttacked f.target (1 - f.side)))
      (pieceSquare PAWN f.source f.side
        ^^^ (if f.pieceAttacked == PAWN then pieceSquare PAWN f.target (1 - f.side) else 0)) := by
  unfold XorShape xorOf
  simp only [hc, he, hp, if_true, if_false, Bool.false_eq_true, flagsSelf, flagsOpp, baseP, epKey, ite_xor]
  cases f.pieceAttacked == PAWN <;>
    simp only [if_true, if_false, Bool.false_eq_true, Prod.mk.injEq] <;> constructor <;> xor_norm

theorem xorOf_normal {f : MoveF} (hc : f.castle = false) (he : f.enPassant = false)
    (hp : (f.promotion != NO_PIECE) = false) :
    XorShape f ((if f.pieceMoved == PAWN then 0
          else pieceSquare f.pieceMoved f.source f.side ^^^ pieceSquare f.pieceMoved f.target f.side)
        ^^^ (if f.pieceAttacked == PAWN then 0 else pieceSquare f.pieceAttacked f.target (1 - f.side)))
      ((if f.pieceMoved == PAWN then pieceSquare PAWN f.source f.side ^^^ pieceSquare PAWN f.target f.side else 0)
        ^^^ (if f.pieceAttacked == PAWN then pieceSquare PAWN f.target (1 - f.side) else 0)) := by
  unfold XorShape xorOf
  simp only [hc, he, hp, if_false, Bool.false_eq_true, flagsSelf, flagsOpp, baseP, epKey, ite_xor]
  cases f.pieceAttacked == PAWN <;> cases f.pieceMoved == PAWN <;>
    simp only [if_true, if_false, Bool.false_eq_true, Prod.mk.injEq] <;> constructor <;> xor_norm

/-! ## Assembly -/


/-- if the two sides after the move differ from the sides before it by the keys `Rm, Pm` (mover) and `Ro, Po`
(other), and `xorOf` has the matching shape, both incremental identities hold -/
theorem combine (b : Board) (f : MoveF) (m' o' : Side) (Rm Ro Pm Po : UInt64)
    (ht : b.turn ≤ 1) (hside : f.side = b.turn) (hep : f.prevEp = b.ep)
    (hk1 : f.selfLostKing = true → b.active.ks = true) (hq1 : f.selfLostQueen = true → b.active.qs = true)
    (hk2 : f.oppLostKing = true → b.passive.ks = true) (hq2 : f.oppLostQueen = true → b.passive.qs = true)
    (hs : moveSides (dropRights b.active f.selfLostKing f.selfLostQueen)
      (dropRights b.passive f.oppLostKing f.oppLostQueen) b.whiteTurn f = (m', o'))
    (hmq : m'.qs = (dropRights b.active f.selfLostKing f.selfLostQueen).qs)
    (hmk : m'.ks = (dropRights b.active f.selfLostKing f.selfLostQueen).ks)
    (hoq : o'.qs = (dropRights b.passive f.oppLostKing f.oppLostQueen).qs)
    (hok : o'.ks = (dropRights b.passive f.oppLostKing f.oppLostQueen).ks)
    (hnm : npHash m' f.side = npHash (dropRights b.active f.selfLostKing f.selfLostQueen) f.side ^^^ Rm)
    (hno : npHash o' (1 - f.side) = npHash (dropRights b.passive f.oppLostKing f.oppLostQueen) (1 - f.side) ^^^ Ro)
    (hpm : pwHash m' f.side = pwHash (dropRights b.active f.selfLostKing f.selfLostQueen) f.side ^^^ Pm)
    (hpo : pwHash o' (1 - f.side) = pwHash (dropRights b.passive f.oppLostKing f.oppLostQueen) (1 - f.side) ^^^ Po)
    {R P : UInt64} (hx : XorShape f R P) (hR : R = Rm ^^^ Ro) (hP : P = Pm ^^^ Po) :
    Zobrist.hash (makeF b f) = Zobrist.hash b ^^^ (xorOf f).1 ∧ pawnHash (makeF b f) = pawnHash b ^^^ (xorOf f).2 := by
  have hrm := (rightsHash_congr hmq hmk f.side).trans (rightsHash_dropRights b.active _ _ f.side hk1 hq1)
  have hro := (rightsHash_congr hoq hok (1 - f.side)).trans (rightsHash_dropRights b.passive _ _ (1 - f.side) hk2 hq2)
  have hmake := makeF_eq b f
  rw [hs] at hmake
  subst hR hP
  rw [npHash_dropRights] at hnm hno
  rw [pwHash_dropRights] at hpm hpo
  obtain ⟨w, k, turn, ep, fm, hm⟩ := b
  have hturn : turn = 0 ∨ turn = 1 := by simp only at ht; omega
  simp only at hside hep
  have hp : pawnHash (makeF ⟨w, k, turn, ep, fm, hm⟩ f) = pawnHash ⟨w, k, turn, ep, fm, hm⟩ ^^^ (xorOf f).2 := by
    rw [hx, hmake, pawnHash_eq, pawnHash_eq ⟨w, k, turn, ep, fm, hm⟩]
    rcases hturn with rfl | rfl
    · simp only [Board.active, Board.passive, Board.whiteTurn, hside, beq_self_eq_true, if_true, Nat.sub_zero]
        at hpm hpo ⊢
      rw [hpm, hpo, baseP, hep]
      simp only [sideKey, Nat.reduceBEq, beq_self_eq_true, if_true, if_false, Bool.false_eq_true]
      xor_norm
    · simp only [Board.active, Board.passive, Board.whiteTurn, hside, Nat.sub_self, Nat.reduceBEq, if_false,
        Bool.false_eq_true] at hpm hpo ⊢
      rw [hpm, hpo, baseP, hep]
      simp only [sideKey, Nat.reduceBEq, beq_self_eq_true, if_true, if_false, Bool.false_eq_true]
      xor_norm
  refine ⟨?_, hp⟩
  rw [hash_eq, hp, hash_eq ⟨w, k, turn, ep, fm, hm⟩, hx, hmake]
  rcases hturn with rfl | rfl
  · simp only [Board.active, Board.passive, Board.whiteTurn, hside, beq_self_eq_true, if_true, Nat.sub_zero]
      at hnm hno hrm hro ⊢
    rw [hnm, hno, hrm, hro, flagsSelf, flagsOpp, hside]
    simp only [Nat.sub_zero]
    xor_norm
  · simp only [Board.active, Board.passive, Board.whiteTurn, hside, Nat.sub_self, Nat.reduceBEq, if_false,
      Bool.false_eq_true] at hnm hno hrm hro ⊢
    rw [hnm, hno, hrm, hro, flagsSelf, flagsOpp, hside]
    simp only [Nat.sub_self]
    xor_norm

/-! ## The branches on the sides -/

theorem castleRook_lt {t rs rt : Nat} (h : castleRook t = some (rs, rt)) : rt < 64 ∧ t < 64 := by
  unfold castleRook at h
  by_cases h1 : (t == C1) = true
  · rw [if_pos h1] at h; cases h; simp only [C1, beq_iff_eq] at h1; subst h1; decide
  · rw [if_neg h1] at h
    by_cases h2 : (t == G1) = true
    · rw [if_pos h2] at h; cases h; simp only [G1, beq_iff_eq] at h2; subst h2; decide
    · rw [if_neg h2] at h
      by_cases h3 : (t == C8) = true
      · rw [if_pos h3] at h; cases h; simp only [C8, beq_iff_eq] at h3; subst h3; decide
      · rw [if_neg h3] at h
        by_cases h4 : (t == G8) = true
        · rw [if_pos h4] at h; cases h; simp only [G8, beq_iff_eq] at h4; subst h4; decide
        · rw [if_neg h4] at h; cases h

theorem castle_np (m : Side) {s t rs rt : Nat} (c : Nat) (hks : testU m.kings s = true) (ht : t < 64)
    (hkt : testU m.kings t = false) (hrs : testU m.rooks rs = true) (hrt64 : rt < 64)
    (hrt : testU m.rooks rt = false) :
    npHash { m with rooks := clearBit m.rooks (bitU rs) ||| bitU rt, kings := clearBit m.kings (bitU s) ||| bitU t } c
      = npHash m c ^^^ (pieceSquare ROOK rs c ^^^ pieceSquare ROOK rt c ^^^ pieceSquare KING s c
          ^^^ pieceSquare KING t c) := by
  simp only [npHash]
  rw [hashOcc_moveBit hks ht hkt, hashOcc_moveBit hrs hrt64 hrt]
  xor_norm

theorem get_withPawns (m : Side) (v : UInt64) {p : Nat} (hp : p ≠ 1) : ({ m with pawns := v }).get p = m.get p := by
  unfold Side.get; split <;> first | rfl | exact absurd rfl hp

theorem promo_np (m : Side) {p s t : Nat} (c : Nat) (hp2 : 2 ≤ p) (hp6 : p ≤ 6) (ht : t < 64)
    (hclear : testU (m.get p) t = false) :
    npHash (({ m with pawns := clearBit m.pawns (bitU s) }).set p
        (({ m with pawns := clearBit m.pawns (bitU s) }).get p ||| bitU t)) c
      = npHash m c ^^^ pieceSquare p t c := by
  have hp1 : p ≠ 1 := by omega
  have hpp : (p == PAWN) = false := by simp [PAWN, hp1]
  rw [npHash_set _ hp6, hpp, get_withPawns m _ hp1, hashOcc_setBit ht hclear]
  simp only [Bool.false_eq_true, if_false]
  have : npHash { m with pawns := clearBit m.pawns (bitU s) } c = npHash m c := rfl
  rw [this]
  xor_norm

theorem promo_pw (m : Side) {p s t : Nat} (c : Nat) (hp2 : 2 ≤ p) (hp6 : p ≤ 6)
    (hs : testU m.pawns s = true) :
    pwHash (({ m with pawns := clearBit m.pawns (bitU s) }).set p
        (({ m with pawns := clearBit m.pawns (bitU s) }).get p ||| bitU t)) c
      = pwHash m c ^^^ pieceSquare PAWN s c := by
  have hp1 : p ≠ 1 := by omega
  have hpp : (p == PAWN) = false := by simp [PAWN, hp1]
  rw [pwHash_set _ hp6, hpp]
  simp only [Bool.false_eq_true, if_false, UInt64.xor_zero]
  exact hashOcc_clearBit hs PAWN c

theorem normal_np (m : Side) {p s t : Nat} (c : Nat) (hp6 : p ≤ 6) (hs : testU (m.get p) s = true) (ht : t < 64)
    (hclear : testU (m.get p) t = false) :
    npHash (m.set p (clearBit (m.get p) (bitU s) ||| bitU t)) c
      = npHash m c ^^^ (if p == PAWN then 0 else pieceSquare p s c ^^^ pieceSquare p t c) := by
  rw [npHash_set _ hp6, hashOcc_moveBit hs ht hclear]
  congr 1
  split
  · rfl
  · xor_norm

theorem normal_pw (m : Side) {p s t : Nat} (c : Nat) (hp6 : p ≤ 6) (hs : testU (m.get p) s = true) (ht : t < 64)
    (hclear : testU (m.get p) t = false) :
    pwHash (m.set p (clearBit (m.get p) (bitU s) ||| bitU t)) c
      = pwHash m c ^^^ (if p == PAWN then pieceSquare PAWN s c ^^^ pieceSquare PAWN t c else 0) := by
  rw [pwHash_set _ hp6, hashOcc_moveBit hs ht hclear]
  congr 1
  split
  · rename_i h
    have : p = PAWN := by simpa using h
    subst this
    xor_norm
  · rfl

theorem capture_np (o : Side) {pa t : Nat} (c : Nat) (hpa : pa ≤ 6) (h : pa ≠ 0 → testU (o.get pa) t = true) :
    npHash (o.set pa (clearBit (o.get pa) (bitU t))) c
      = npHash o c ^^^ (if pa == PAWN then 0 else pieceSquare pa t c) := by
  rw [npHash_set _ hpa, capture_delta o hpa h]

theorem capture_pw (o : Side) {pa t : Nat} (c : Nat) (hpa : pa ≤ 6) (h : pa ≠ 0 → testU (o.get pa) t = true) :
    pwHash (o.set pa (clearBit (o.get pa) (bitU t))) c
      = pwHash o c ^^^ (if pa == PAWN then pieceSquare PAWN t c else 0) := by
  rw [pwHash_set _ hpa, capture_delta o hpa h]
  congr 1
  split
  · rename_i h
    have : pa = PAWN := by simpa using h
    subst this
    rfl
  · rfl

theorem moveSides_castle (m o : Side) (white : Bool) {f : MoveF} {rs rt : Nat} (hc : f.castle = true)
    (heq : castleRook f.target = some (rs, rt)) :
    moveSides m o white f
      = ({ m with rooks := clearBit m.rooks (bitU rs) ||| bitU rt,
                  kings := clearBit m.kings (bitU f.source) ||| bitU f.target }, o) := by
  simp only [moveSides, hc, heq, if_true]

theorem moveSides_enPassant (m o : Side) (white : Bool) {f : MoveF} (hc : ¬ f.castle = true) (he : f.enPassant = true) :
    moveSides m o white f
      = ({ m with pawns := clearBit m.pawns (bitU f.source) ||| bitU f.target },
         { o with pawns := clearBit o.pawns (if white then bitU f.target <<< 8 else bitU f.target >>> 8) }) := by
  simp only [moveSides, hc, he, if_true, if_false, Bool.false_eq_true]

theorem moveSides_promotion (m o : Side) (white : Bool) {f : MoveF} (hc : ¬ f.castle = true) (he : ¬ f.enPassant = true)
    (hp : (f.promotion != NO_PIECE) = true) :
    moveSides m o white f
      = (({ m with pawns := clearBit m.pawns (bitU f.source) }).set f.promotion
            (({ m with pawns := clearBit m.pawns (bitU f.source) }).get f.promotion ||| bitU f.target),
         o.set f.pieceAttacked (clearBit (o.get f.pieceAttacked) (bitU f.target))) := by
  simp only [moveSides, hc, he, hp, if_true, if_false, Bool.false_eq_true]

theorem moveSides_normal (m o : Side) (white : Bool) {f : MoveF} (hc : ¬ f.castle = true) (he : ¬ f.enPassant = true)
    (hp : ¬ (f.promotion != NO_PIECE) = true) :
    moveSides m o white f
      = (m.set f.pieceMoved (clearBit (m.get f.pieceMoved) (bitU f.source) ||| bitU f.target),
         o.set f.pieceAttacked (clearBit (o.get f.pieceAttacked) (bitU f.target))) := by
  simp only [moveSides, hc, he, hp, if_false, Bool.false_eq_true]

/-! ## The theorem -/

theorem step (b : Board) (f : MoveF) (h : HashMoveOK b f) :
    Zobrist.hash (makeF b f) = Zobrist.hash b ^^^ (xorOf f).1 ∧ pawnHash (makeF b f) = pawnHash b ^^^ (xorOf f).2 := by
  obtain ⟨ht, hside, hep, hsrc, htgt, hk1, hq1, hk2, hq2, hbr⟩ := h
  by_cases hc : f.castle = true
  · -- castling
    rw [if_pos hc] at hbr
    unfold CastleOK at hbr
    split at hbr
    · rename_i rs rt heq
      obtain ⟨hsE, hks, hkt, hrs, hrt⟩ := hbr
      have hlt := castleRook_lt heq
      have hx := xorOf_castle hc heq
      rw [← hsE] at hx
      exact combine b f _ _ _ 0 0 0 ht hside hep hk1 hq1 hk2 hq2 (moveSides_castle _ _ _ hc heq) rfl rfl rfl rfl
        (castle_np (dropRights b.active f.selfLostKing f.selfLostQueen) f.side hks htgt hkt hrs hlt.1 hrt)
        (UInt64.xor_zero).symm (UInt64.xor_zero).symm (UInt64.xor_zero).symm hx
        (UInt64.xor_zero).symm (UInt64.xor_zero).symm
    · exact hbr.elim
  rw [if_neg hc] at hbr
  have hc' : f.castle = false := by simpa using hc
  by_cases he : f.enPassant = true
  · -- en passant
    rw [if_pos he] at hbr
    obtain ⟨hps, hpt, hv⟩ := hbr
    have hx := xorOf_enPassant hc' he
    have hpm : pwHash { (dropRights b.active f.selfLostKing f.selfLostQueen) with
          pawns := clearBit (dropRights b.active f.selfLostKing f.selfLostQueen).pawns (bitU f.source) ||| bitU f.target }
          f.side
        = pwHash (dropRights b.active f.selfLostKing f.selfLostQueen) f.side
          ^^^ (pieceSquare PAWN f.source f.side ^^^ pieceSquare PAWN f.target f.side) :=
      (hashOcc_moveBit hps htgt hpt PAWN f.side).trans (UInt64.xor_assoc _ _ _)
    by_cases h0 : b.turn = 0
    · rw [if_pos h0] at hv
      have hw : b.whiteTurn = true := by simp [Board.whiteTurn, h0]
      have hs0 : (f.side == 0) = true := by simp [hside, h0]
      have hs := moveSides_enPassant (dropRights b.active f.selfLostKing f.selfLostQueen)
        (dropRights b.passive f.oppLostKing f.oppLostQueen) true hc he
      rw [if_pos rfl, bitU_shl8 _ (by omega), ← hw] at hs
      rw [hs0, if_pos rfl] at hx
      exact combine b f _ _ 0 0 _ _ ht hside hep hk1 hq1 hk2 hq2 hs rfl rfl rfl rfl
        (UInt64.xor_zero).symm (UInt64.xor_zero).symm hpm
        (hashOcc_clearBit hv.2 PAWN (1 - f.side)) hx (UInt64.xor_zero).symm rfl
    · rw [if_neg h0] at hv
      have hw : b.whiteTurn = false := by simp [Board.whiteTurn, h0]
      have hs1 : (f.side == 0) = false := by simp [hside, h0]
      have hs := moveSides_enPassant (dropRights b.active f.selfLostKing f.selfLostQueen)
        (dropRights b.passive f.oppLostKing f.oppLostQueen) false hc he
      rw [if_neg (by decide), bitU_shr8 _ htgt hv.1, ← hw] at hs
      rw [hs1, if_neg (by decide)] at hx
      exact combine b f _ _ 0 0 _ _ ht hside hep hk1 hq1 hk2 hq2 hs rfl rfl rfl rfl
        (UInt64.xor_zero).symm (UInt64.xor_zero).symm hpm
        (hashOcc_clearBit hv.2 PAWN (1 - f.side)) hx (UInt64.xor_zero).symm rfl
  rw [if_neg he] at hbr
  have he' : f.enPassant = false := by simpa using he
  obtain ⟨hmv, hpa6, hpat⟩ := hbr
  simp only [KING, NO_PIECE] at hpa6 hpat
  have hno := capture_np (dropRights b.passive f.oppLostKing f.oppLostQueen) (t := f.target) (1 - f.side) hpa6
    (by rw [get_dropRights]; exact hpat)
  have hpo := capture_pw (dropRights b.passive f.oppLostKing f.oppLostQueen) (t := f.target) (1 - f.side) hpa6
    (by rw [get_dropRights]; exact hpat)
  by_cases hp : f.promotion ≠ NO_PIECE
  · -- promotion
    rw [if_pos hp] at hmv
    obtain ⟨hp2, hp6, hps, hclear⟩ := hmv
    simp only [KNIGHT, KING] at hp2 hp6
    have hp' : (f.promotion != NO_PIECE) = true := by simpa using hp
    exact combine b f _ _ _ _ _ _ ht hside hep hk1 hq1 hk2 hq2 (moveSides_promotion _ _ _ hc he hp')
      (set_qs _ _ _) (set_ks _ _ _) (set_qs _ _ _) (set_ks _ _ _)
      (promo_np (dropRights b.active f.selfLostKing f.selfLostQueen) f.side hp2 hp6 htgt
        (by rw [get_dropRights]; exact hclear)) hno
      (promo_pw (dropRights b.active f.selfLostKing f.selfLostQueen) f.side hp2 hp6 hps) hpo
      (xorOf_promotion hc' he' hp') rfl rfl
  · -- ordinary move or capture
    rw [if_neg hp] at hmv
    obtain ⟨hp1, hp6, hs, hclear⟩ := hmv
    simp only [KING] at hp6
    have hp' : (f.promotion != NO_PIECE) = false := by simpa using hp
    exact combine b f _ _ _ _ _ _ ht hside hep hk1 hq1 hk2 hq2
      (moveSides_normal _ _ _ hc he (by rw [hp']; decide))
      (set_qs _ _ _) (set_ks _ _ _) (set_qs _ _ _) (set_ks _ _ _)
      (normal_np (dropRights b.active f.selfLostKing f.selfLostQueen) f.side hp6
        (by rw [get_dropRights]; exact hs) htgt (by rw [get_dropRights]; exact hclear)) hno
      (normal_pw (dropRights b.active f.selfLostKing f.selfLostQueen) f.side hp6
        (by rw [get_dropRights]; exact hs) htgt (by rw [get_dropRights]; exact hclear)) hpo
      (xorOf_normal hc' he' hp') rfl rfl

/-- C06, hash: the incremental update of the position hash is exact -/
theorem hash_incremental {b : Board} {f : MoveF} (h : HashMoveOK b f) :
    Zobrist.hash (makeF b f) = Zobrist.hash b ^^^ (Zobrist.xorOf f).1 := (step b f h).1

/-- C06, pawn hash: the incremental update of the pawn hash is exact -/
theorem pawnHash_incremental {b : Board} {f : MoveF} (h : HashMoveOK b f) :
    Zobrist.pawnHash (makeF b f) = Zobrist.pawnHash b ^^^ (Zobrist.xorOf f).2 := (step b f h).2

end Inkayaku.ZobristStep
