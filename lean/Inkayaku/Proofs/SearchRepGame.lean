import Inkayaku.Proofs.SearchSimHash
import Inkayaku.Proofs.MoveText
import Inkayaku.Props.C10
/-!
# C10 at the search level, step 1: games, occurrences, and the counting theorem on games

* `playUci`, `gameBoards`  – the positions `b0, b1, …, bn` of a game given as a root board and a list of UCI strings (each accepted
                             by `San.findUci`); this is literally what `Search.setPosition` walks through;
* `Step`, `IsLine`         – a list of boards in which every board is reached from its predecessor by a legal move
                             (`gameBoards_isLine`); `line_facts`: clock budget and ply clock along a line;
* `occurrences L p`        – how often the position `p` (identified by `C06.HashKey` = placement, side to move, castling rights,
                             e.p. file) has occurred when it is reached after the line `L`: `p` itself plus the positions of `L`
                             within the last `p.halfmove` plies.  Defined on POSITIONS, no hash involved;
* `countRepetitions_ge3_iff` – **the counting theorem**: for a history function that holds zeros below the root index `r`, the
                             hashes of the line at `r, r+1, …` and the hash of `p` at `r + |L|`:
                             `count_repetitions(r + |L|, p.halfmove) ≥ 3  ⇔  3 ≤ occurrences L p`,
                             under: no hash collision between `p` and the line positions in the window, `hash p ≠ 0`.
                             Chess facts used (proved, not assumed): the side to move alternates, a position does not recur after
                             exactly two plies (`key_cross02`; that is why the engine's skipping of `start − 2` loses nothing);
* `window_reversible`, `window_stops_at_reset` – the window `p.halfmove` is exactly the reversible suffix of the line.
-/
namespace Inkayaku.SearchRep
open Inkayaku.Board Inkayaku.WF Inkayaku.BoardCongr Inkayaku.Search Inkayaku.SearchSim Inkayaku.History
open Inkayaku.C06 (HashKey)

/-! ## games -/

/-- one UCI string played on `b`: `none` if `find_uci` rejects it.  (`make` is applied to the board `find_uci` leaves behind,
exactly as `set_position_from` does.) -/
def playUci (b : Board) (u : String) : Option Board :=
  match San.findUci b u with
  | (.ok m, b') => some (make b' m)
  | (.error _, _) => none

/-- the positions of a game: `b0 :: b1 :: … :: bn`; `none` if some string is rejected -/
def gameBoards : Board → List String → Option (List Board)
  | b, [] => some [b]
  | b, u :: us =>
    match playUci b u with
    | some b' => (gameBoards b' us).map (b :: ·)
    | none => none

/-- `q` is the position after a legal move of `p` (up to the scratch words) -/
def Step (p q : Board) : Prop := ∃ m, m ∈ genLegal p ∧ vis q = vis (make p m)

/-- every board is reached from its predecessor by a legal move -/
def IsLine : List Board → Prop
  | [] => True
  | [_] => True
  | p :: q :: rest => Step p q ∧ IsLine (q :: rest)

theorem isLine_cons2 (p q : Board) (rest : List Board) : IsLine (p :: q :: rest) ↔ Step p q ∧ IsLine (q :: rest) := Iff.rfl

theorem IsLine.tail {p : Board} {L : List Board} (h : IsLine (p :: L)) : IsLine L := by
  cases L with
  | nil => trivial
  | cons q rest => exact h.2

theorem playUci_step {b b' : Board} (hwf : wf b = true) {u : String} (h : playUci b u = some b') : Step b b' := by
  unfold playUci at h
  have hp := MoveText.findUci_pure hwf u
  rcases hf : San.findUci b u with ⟨r, bb⟩
  rw [hf] at h hp
  cases r with
  | error e => cases h
  | ok m =>
    simp only [Option.some.injEq] at h
    subst h
    have hl := (MoveText.findUci_ok_legal (b := b) (s := u) (m := m) (by rw [hf])).1
    exact ⟨m, hl, make_congr hp m⟩

theorem Step.inv {k : Nat} {p q : Board} (h : Step p q) (hinv : Inv (k + 1) p) : Inv k q ∧ ply2 q = ply2 p + 1 := by
  obtain ⟨m, hm, hv⟩ := h
  obtain ⟨g, l⟩ := List.mem_filter.mp hm
  have := boardLaws.make_inv k p m hinv (Or.inl g) l
  exact ⟨Inv_congr hv.symm this, by rw [ply2_congr hv, ply2_make hinv.wf]⟩

theorem gameBoards_cons (b : Board) (u : String) (us : List String) :
    gameBoards b (u :: us) = match playUci b u with
      | some b' => (gameBoards b' us).map (b :: ·)
      | none => none := rfl

/-- shape of a game: it starts with the root and has one position per string -/
theorem gameBoards_shape : ∀ (us : List String) (b : Board) (L : List Board), gameBoards b us = some L →
    L.length = us.length + 1 ∧ ∃ T, L = b :: T
  | [], b, L, h => by
    simp only [gameBoards, Option.some.injEq] at h
    subst h
    exact ⟨rfl, [], rfl⟩
  | u :: us, b, L, h => by
    rw [gameBoards_cons] at h
    cases hp : playUci b u with
    | none => rw [hp] at h; cases h
    | some b' =>
      rw [hp] at h
      simp only at h
      cases hg : gameBoards b' us with
      | none => rw [hg] at h; cases h
      | some L' =>
        rw [hg] at h
        simp only [Option.map_some, Option.some.injEq] at h
        subst h
        obtain ⟨h1, _⟩ := gameBoards_shape us b' L' hg
        exact ⟨by simp only [List.length_cons, h1], _, rfl⟩

/-- a game is a line starting at the root, one position per string -/
theorem gameBoards_isLine : ∀ (us : List String) (b : Board) (B : Nat) (L : List Board), Inv B b → us.length ≤ B →
    gameBoards b us = some L → IsLine L ∧ L.length = us.length + 1 ∧ ∃ T, L = b :: T
  | [], b, _, L, _, _, h => by
    simp only [gameBoards, Option.some.injEq] at h
    subst h
    exact ⟨trivial, rfl, [], rfl⟩
  | u :: us, b, B, L, hinv, hB, h => by
    rw [gameBoards_cons] at h
    cases hp : playUci b u with
    | none => rw [hp] at h; cases h
    | some b' =>
      rw [hp] at h
      simp only at h
      cases hg : gameBoards b' us with
      | none => rw [hg] at h; cases h
      | some L' =>
        rw [hg] at h
        simp only [Option.map_some, Option.some.injEq] at h
        subst h
        have hst := playUci_step hinv.wf hp
        obtain ⟨k, rfl⟩ : ∃ k, B = k + 1 := ⟨B - 1, by simp only [List.length_cons] at hB; omega⟩
        obtain ⟨h1, h2, T, rfl⟩ := gameBoards_isLine us b' k L' (hst.inv hinv).1
          (by simp only [List.length_cons] at hB; omega) hg
        exact ⟨⟨hst, h1⟩, by simp only [List.length_cons] at h2 ⊢; omega, _, rfl⟩

theorem lt_of_getElem? {α : Type} {L : List α} {i : Nat} {b : α} (h : L[i]? = some b) : i < L.length := by
  obtain ⟨hi, _⟩ := List.getElem?_eq_some_iff.mp h
  exact hi

/-- clock budget and ply clock along a line -/
theorem line_facts : ∀ (T : List Board) (b0 : Board) (B : Nat), IsLine (b0 :: T) → Inv B b0 → T.length ≤ B →
    ∀ i b, (b0 :: T)[i]? = some b → Inv (B - i) b ∧ ply2 b = ply2 b0 + i
  | [], b0, B, _, hinv, _, i, b, hb => by
    cases i with
    | zero =>
      simp only [List.getElem?_cons_zero, Option.some.injEq] at hb
      subst hb; exact ⟨hinv, rfl⟩
    | succ i => simp at hb
  | q :: T, b0, B, hl, hinv, hB, i, b, hb => by
    cases i with
    | zero =>
      simp only [List.getElem?_cons_zero, Option.some.injEq] at hb
      subst hb; exact ⟨hinv, rfl⟩
    | succ i =>
      rw [List.getElem?_cons_succ] at hb
      obtain ⟨k, rfl⟩ : ∃ k, B = k + 1 := ⟨B - 1, by simp only [List.length_cons] at hB; omega⟩
      obtain ⟨hq, hp⟩ := hl.1.inv hinv
      obtain ⟨h1, h2⟩ := line_facts T q k hl.2 hq (by simp only [List.length_cons] at hB; omega) i b hb
      refine ⟨?_, by rw [h2, hp]; omega⟩
      have : k + 1 - (i + 1) = k - i := by omega
      rw [this]; exact h1

/-- consecutive positions of a line -/
theorem line_step : ∀ (L : List Board) (i : Nat) (p q : Board), IsLine L → L[i]? = some p → L[i + 1]? = some q → Step p q
  | [], _, _, _, _, hp, _ => by simp at hp
  | [_], i, _, _, _, _, hq => by simp at hq
  | a :: b :: rest, i, p, q, hl, hp, hq => by
    cases i with
    | zero =>
      simp only [List.getElem?_cons_zero, Option.some.injEq, Nat.zero_add, List.getElem?_cons_succ] at hp hq
      subst hp; subst hq; exact hl.1
    | succ i =>
      rw [List.getElem?_cons_succ] at hp hq
      exact line_step (b :: rest) i p q hl.2 hp hq

/-! ## occurrences -/

/-- **how often has `p` occurred** when it is reached after the line `L` (`L` = the earlier positions, oldest first):
`p` itself, plus the positions of `L` with `p`'s `HashKey` among the last `p.halfmove` ones (`i ≥ |L| − p.halfmove`:
truncated subtraction, so a clock larger than the line means "the whole line") -/
def occurrences (L : List Board) (p : Board) : Nat :=
  1 + ((List.range L.length).filter
    (fun i => decide (L.length - p.halfmove ≤ i) && decide (HashKey (L.getD i p) = HashKey p))).length

theorem one_le_filter_range (p : Nat → Bool) (n : Nat) :
    1 ≤ ((List.range n).filter p).length ↔ ∃ j, j < n ∧ p j = true := by
  rw [← List.countP_eq_length_filter, Nat.succ_le_iff, List.countP_pos_iff]
  simp [List.mem_range]

theorem two_le_filter_range (p : Nat → Bool) (n : Nat) :
    2 ≤ ((List.range n).filter p).length ↔ ∃ j1 j2, j1 < j2 ∧ j2 < n ∧ p j1 = true ∧ p j2 = true := by
  induction n with
  | zero => simp
  | succ n ih =>
    rw [List.range_succ, List.filter_append, List.length_append]
    by_cases hp : p n = true
    · have e : (List.filter p [n]).length = 1 := by simp [hp]
      rw [e]
      constructor
      · intro hl
        have : 1 ≤ ((List.range n).filter p).length := by omega
        obtain ⟨j, hj, hpj⟩ := (one_le_filter_range p n).mp this
        exact ⟨j, n, hj, Nat.lt_succ_self n, hpj, hp⟩
      · rintro ⟨j1, j2, h12, h2, hp1, _⟩
        have : 1 ≤ ((List.range n).filter p).length :=
          (one_le_filter_range p n).mpr ⟨j1, by omega, hp1⟩
        omega
    · have e : (List.filter p [n]).length = 0 := by simp [hp]
      rw [e, Nat.add_zero, ih]
      constructor
      · rintro ⟨j1, j2, h12, h2, hp1, hp2⟩
        exact ⟨j1, j2, h12, by omega, hp1, hp2⟩
      · rintro ⟨j1, j2, h12, h2, hp1, hp2⟩
        have : j2 ≠ n := fun e => hp (e ▸ hp2)
        exact ⟨j1, j2, h12, by omega, hp1, hp2⟩

/-- three occurrences = two earlier positions of the line, inside the window, with the key of `p` -/
theorem three_le_occurrences (L : List Board) (p : Board) :
    3 ≤ occurrences L p ↔ ∃ i1 i2 b1 b2, i1 < i2 ∧ L[i1]? = some b1 ∧ L[i2]? = some b2 ∧ L.length - p.halfmove ≤ i1 ∧
      HashKey b1 = HashKey p ∧ HashKey b2 = HashKey p := by
  unfold occurrences
  have : ∀ n, 3 ≤ 1 + n ↔ 2 ≤ n := fun n => by omega
  rw [this, two_le_filter_range]
  simp only [Bool.and_eq_true, decide_eq_true_eq]
  constructor
  · rintro ⟨i1, i2, h12, h2, ⟨w1, k1⟩, ⟨_, k2⟩⟩
    have e1 : L[i1]? = some L[i1] := List.getElem?_eq_getElem (by omega)
    have e2 : L[i2]? = some L[i2] := List.getElem?_eq_getElem h2
    refine ⟨i1, i2, L[i1], L[i2], h12, e1, e2, w1, ?_, ?_⟩
    · rw [List.getD_eq_getElem?_getD, e1] at k1; exact k1
    · rw [List.getD_eq_getElem?_getD, e2] at k2; exact k2
  · rintro ⟨i1, i2, b1, b2, h12, e1, e2, w1, k1, k2⟩
    have h2 : i2 < L.length := lt_of_getElem? e2
    refine ⟨i1, i2, h12, h2, ⟨w1, ?_⟩, ⟨by omega, ?_⟩⟩
    · rw [List.getD_eq_getElem?_getD, e1]; exact k1
    · rw [List.getD_eq_getElem?_getD, e2]; exact k2

theorem occurrences_pos (L : List Board) (p : Board) : 1 ≤ occurrences L p := by unfold occurrences; omega

/-! ## the side to move along a line -/

theorem turn_of_ply2 {b : Board} (hwf : wf b = true) : b.turn = ply2 b % 2 := by
  have hP := (MakeWf.wf_iff b).mp hwf
  have := hP.turn
  unfold ply2
  omega

/-! ## the counting theorem -/

/-- **`count_repetitions ≥ 3` ⇔ third occurrence**, on a game.
`b0 :: T` = the earlier positions (root first), `c` = the position just reached, `r` = the history index of the root,
`h` = the history: zeros below `r`, `hash` of the line at `r + i`, `hash c` at `r + |b0 :: T|` (cells above are irrelevant). -/
theorem countRepetitions_ge3_iff (b0 : Board) (T : List Board) (c : Board) (h : Nat → Nat) (r : Nat)
    (hline : IsLine (b0 :: (T ++ [c]))) (hinv : Inv (T.length + 1) b0)
    (hz : ∀ j, j < r → h j = 0)
    (hh : ∀ i b, (b0 :: T)[i]? = some b → h (r + i) = (Zobrist.hash b).toNat)
    (hc : h (r + (T.length + 1)) = (Zobrist.hash c).toNat)
    (hnz : Zobrist.hash c ≠ 0)
    (hcoll : ∀ i b, (b0 :: T)[i]? = some b → T.length + 1 - c.halfmove ≤ i → Zobrist.hash b = Zobrist.hash c →
      HashKey b = HashKey c) :
    countRepetitions h (r + (T.length + 1)) c.halfmove ≥ 3 ↔ 3 ≤ occurrences (b0 :: T) c := by
  have hlen : (b0 :: T).length = T.length + 1 := rfl
  have hTc : (T ++ [c]).length = T.length + 1 := by simp
  -- facts about the positions of the line and about `c`
  have hfacts := line_facts (T ++ [c]) b0 (T.length + 1) hline hinv (by rw [hTc]; exact Nat.le_refl _)
  have hget : ∀ (i : Nat) (b : Board), (b0 :: T)[i]? = some b → (b0 :: (T ++ [c]))[i]? = some b := by
    intro i b hb
    have hi : i < (b0 :: T).length := lt_of_getElem? hb
    rw [← List.cons_append, List.getElem?_append_left hi]; exact hb
  have hgetc : (b0 :: (T ++ [c]))[T.length + 1]? = some c := by
    rw [← List.cons_append, List.getElem?_append_right (by rw [hlen]; exact Nat.le_refl _)]
    simp
  obtain ⟨hcinv, hcply⟩ := hfacts _ c hgetc
  have hcturn := turn_of_ply2 hcinv.wf
  have hnz' : (Zobrist.hash c).toNat ≠ 0 := by
    intro e
    apply hnz
    apply UInt64.toNat_inj.mp
    rw [e]; rfl
  rw [C10.countRepetitions_spec_exists, three_le_occurrences, hlen]
  constructor
  · rintro ⟨j1, j2, h12, h2, hw, _, _, e1, e2⟩
    rw [hc] at e1 e2
    have hr1 : r ≤ j1 := by
      false_or_by_contra
      rename_i hn
      rw [hz j1 (by omega)] at e1
      exact hnz' e1.symm
    have hi1 : j1 - r < (b0 :: T).length := by rw [hlen]; omega
    have hi2 : j2 - r < (b0 :: T).length := by rw [hlen]; omega
    have g1 : (b0 :: T)[j1 - r]? = some (b0 :: T)[j1 - r] := List.getElem?_eq_getElem hi1
    have g2 : (b0 :: T)[j2 - r]? = some (b0 :: T)[j2 - r] := List.getElem?_eq_getElem hi2
    have hh1 := hh _ _ g1
    have hh2 := hh _ _ g2
    rw [show r + (j1 - r) = j1 from by omega, e1] at hh1
    rw [show r + (j2 - r) = j2 from by omega, e2] at hh2
    have k1 := hcoll _ _ g1 (by omega) (UInt64.toNat_inj.mp hh1.symm)
    have k2 := hcoll _ _ g2 (by omega) (UInt64.toNat_inj.mp hh2.symm)
    exact ⟨j1 - r, j2 - r, _, _, by omega, g1, g2, by omega, k1, k2⟩
  · rintro ⟨i1, i2, b1, b2, h12, g1, g2, hw, k1, k2⟩
    have hi2 : i2 < T.length + 1 := lt_of_getElem? g2
    -- parity and distance of the two witnesses
    have dist : ∀ (i : Nat) (b : Board), (b0 :: T)[i]? = some b → i < T.length + 1 → HashKey b = HashKey c → i + 4 ≤ T.length + 1 := by
      intro i b g hi k
      obtain ⟨hbinv, hbply⟩ := hfacts i b (hget i b g)
      have hbt := turn_of_ply2 hbinv.wf
      have ht := key_turn k
      have hpar : (T.length + 1 - i) % 2 = 0 := by omega
      false_or_by_contra
      rename_i hlt
      have hi2 : i + 2 = T.length + 1 := by omega
      -- the position two plies before `c`
      have hlt' : i + 1 < (b0 :: (T ++ [c])).length := by simp only [List.length_cons, hTc]; omega
      obtain ⟨q, gq⟩ : ∃ q, (b0 :: (T ++ [c]))[i + 1]? = some q := ⟨_, List.getElem?_eq_getElem hlt'⟩
      have s1 := line_step _ i b q hline (hget i b g) gq
      have s2 := line_step _ (i + 1) q c hline gq (by rw [show i + 1 + 1 = T.length + 1 from by omega]; exact hgetc)
      obtain ⟨m1, hm1, hv1⟩ := s1
      obtain ⟨m2, hm2, hv2⟩ := s2
      have hm2' : m2 ∈ genLegal (make b m1) := by rw [← genLegal_congr hv1]; exact hm2
      have hvc : vis c = vis (make (make b m1) m2) := hv2.trans (make_congr hv1 m2)
      have hb1 : Inv 1 b := Inv_mono (by omega) hbinv
      exact key_cross02 hb1 hm1 hm2' ((hashKey_vis hvc).symm.trans k.symm)
    have d1 := dist i1 b1 g1 (by omega) k1
    have d2 := dist i2 b2 g2 hi2 k2
    obtain ⟨hb1inv, hb1ply⟩ := hfacts i1 b1 (hget i1 b1 g1)
    obtain ⟨hb2inv, hb2ply⟩ := hfacts i2 b2 (hget i2 b2 g2)
    have t1 := key_turn k1
    have t2 := key_turn k2
    have hb1t := turn_of_ply2 hb1inv.wf
    have hb2t := turn_of_ply2 hb2inv.wf
    refine ⟨r + i1, r + i2, by omega, by omega, by omega, by omega, by omega, ?_, ?_⟩
    · rw [hh i1 b1 g1, hc, (C06.hash_congr k1).1]
    · rw [hh i2 b2 g2, hc, (C06.hash_congr k2).1]

/-! ## the window is the reversible suffix -/

/-- one step: the half-move clock is reset or incremented -/
theorem Step.halfmove {p q : Board} (h : Step p q) : q.halfmove = 0 ∨ q.halfmove = p.halfmove + 1 := by
  obtain ⟨m, _, hv⟩ := h
  rw [halfmove_congr hv, make_halfmove]
  split
  · left; rfl
  · right; rfl

/-- a step is irreversible (pawn move or capture, `C02.clock_reset_iff`) exactly when it resets the clock; the positions
before an irreversible step are outside the window of every later position of the line:
if the clock of the position at index `i + 1` is zero, then for every later index `k` the window `k − halfmove` starts above `i` -/
theorem window_stops_at_reset : ∀ (L : List Board), IsLine L → ∀ (i k : Nat) (q p : Board), L[i + 1]? = some q → q.halfmove = 0 →
    i + 1 ≤ k → L[k]? = some p → i + 1 ≤ k - p.halfmove := by
  intro L hl i k
  induction k with
  | zero => intro q p _ _ hk; omega
  | succ k ih =>
    intro q p hq h0 hk hp
    by_cases hik : i = k
    · subst hik
      rw [hq] at hp
      cases hp
      omega
    · have hk' : k < L.length := by have := lt_of_getElem? hp; omega
      have gk : L[k]? = some L[k] := List.getElem?_eq_getElem hk'
      have := ih q L[k] hq h0 (by omega) gk
      have hs := (line_step L k _ p hl gk hp).halfmove
      omega

/-- conversely, while no step resets the clock the window keeps growing: if the clocks of the positions `i+1 … k` are all
non-zero, then index `i` is inside the window of the position at index `k` -/
theorem window_reversible : ∀ (L : List Board), IsLine L → ∀ (i k : Nat) (p : Board), i ≤ k → L[k]? = some p →
    (∀ j q, i < j → j ≤ k → L[j]? = some q → q.halfmove ≠ 0) → k - p.halfmove ≤ i := by
  intro L hl i k
  induction k with
  | zero => intro p _ _ _; omega
  | succ k ih =>
    intro p hik hp hno
    by_cases hi : i = k + 1
    · omega
    · have hk' : k < L.length := by have := lt_of_getElem? hp; omega
      have gk : L[k]? = some L[k] := List.getElem?_eq_getElem hk'
      have := ih L[k] (by omega) gk (fun j q h1 h2 => hno j q h1 (by omega))
      have hs := (line_step L k _ p hl gk hp).halfmove
      have := hno (k + 1) p (by omega) (Nat.le_refl _) hp
      omega

end Inkayaku.SearchRep
