import Inkayaku.Proofs.SearchRoot
/-!
# Iteration 1 of a `go` cannot be interrupted (towards `depth1_completes`, C07)

`go` zeroes the node counter and clears the stop flag.  Iteration 1 visits the root and one horizon node per legal
root move; horizon nodes do not recurse into `negamax`.  If the pseudo-legal move list of the position is shorter than
the poll period, no node of iteration 1 sees a node counter that is a positive multiple of the poll period, so
no flag poll — hence no stop, quit or time-out — happens before iteration 1 has finished (`root1_not_interrupted`).

`depth1_completes_partial` then reduces "the answer is not the null move" to the value-range hypothesis
`HorizonBelowWin` (every depth-1 child value is `< winScore`).
-/
namespace Inkayaku.Search
open Inkayaku.Board Inkayaku.Eval Inkayaku.WF Inkayaku.BoardCongr

/-- everything but the board and the quiescence node counter is unchanged -/
def Quiet (s s' : St) : Prop := ∃ b q, s' = { s with board := b, quiescenceNodes := q }

theorem quiet_qStepRel : QStepRel Quiet where
  refl := fun s => ⟨s.board, s.quiescenceNodes, rfl⟩
  trans := by
    rintro a b c ⟨b1, q1, rfl⟩ ⟨b2, q2, rfl⟩
    exact ⟨b2, q2, rfl⟩
  board := fun s b => ⟨b, s.quiescenceNodes, rfl⟩
  qnode := fun s => ⟨s.board, _, rfl⟩

theorem pollFlag_false_of_lt {s : St} (h1 : 0 < s.negamaxNodes) (h2 : s.negamaxNodes < s.pollPeriod) : pollFlag s = false := by
  unfold pollFlag
  rw [Nat.mod_eq_of_lt h2]
  have : (s.negamaxNodes == 0) = false := by rw [beq_eq_false_iff_ne]; omega
  rw [this]; rfl

theorem pollFlag_false_of_zero {s : St} (h : s.negamaxNodes = 0) : pollFlag s = false := by
  unfold pollFlag
  rw [h]
  simp

theorem pollStep_of_noFlag {s : St} (h : pollFlag s = false) : pollStep s = s := by
  unfold pollStep; rw [h]; rfl

theorem timedOut_of_noFlag {s : St} (h : pollFlag s = false) : timedOut s = false := by
  unfold timedOut; rw [h]; rfl

theorem enter_of_noFlag {s : St} (h : pollFlag s = false) (hash : UInt64) :
    enter s hash = { s with negamaxNodes := s.negamaxNodes + 1,
                            history := historySet s.history (plyClock s.board) hash.toNat } := by
  unfold enter; rw [pollStep_of_noFlag h]

/-- a horizon node entered between two polls: only board (restored up to the scratch word), quiescence counter,
history and the negamax counter (+1) change -/
theorem horizon_child (fuel : Nat) (c : St) (ply : Nat) (α β : Int) (isPv : Bool) (h ph : UInt64)
    (hnn : 0 < c.negamaxNodes) (hlt : c.negamaxNodes < c.pollPeriod) :
    ∃ b q hist nn, (negamax fuel c (ply + 1) (ply + 1) α β isPv h ph).2 =
        { c with board := b, quiescenceNodes := q, history := hist, negamaxNodes := nn } ∧
      c.negamaxNodes ≤ nn ∧ nn ≤ c.negamaxNodes + 1 := by
  cases fuel with
  | zero => rw [negamax_zero]; exact ⟨_, _, _, _, rfl, Nat.le_refl _, Nat.le_succ _⟩
  | succ fuel =>
    have hf := pollFlag_false_of_lt hnn hlt
    have he := enter_of_noFlag hf h
    have hs3 : ∃ b q hist nn, enter c h = { c with board := b, quiescenceNodes := q, history := hist, negamaxNodes := nn } ∧
        c.negamaxNodes ≤ nn ∧ nn ≤ c.negamaxNodes + 1 := ⟨_, _, _, _, he, Nat.le_succ _, Nat.le_refl _⟩
    have hqall : ∀ a b', ∃ b q hist nn, (quiescence fuel (enter c h) a b').2 =
        { c with board := b, quiescenceNodes := q, history := hist, negamaxNodes := nn } ∧
        c.negamaxNodes ≤ nn ∧ nn ≤ c.negamaxNodes + 1 := by
      intro a b'
      obtain ⟨b, q, hq⟩ := quiescence_rel quiet_qStepRel fuel (enter c h) a b'
      rw [hq, he]
      exact ⟨_, _, _, _, rfl, Nat.le_succ _, Nat.le_refl _⟩
    rw [negamax_succ, timedOut_of_noFlag hf]
    simp only [Bool.false_eq_true, if_false]
    split
    · exact hs3
    · split
      · exact hs3
      · split
        · exact hs3
        · split
          · unfold horizon
            simp only
            split
            · exact hqall _ _
            · exact hs3
          · rename_i hne
            simp at hne

/-- the accumulator has found a move -/
def Found (acc : LoopAcc) : Prop := acc.bestMove.isSome = true ∧ acc.legalSeen = true

theorem accUpdate_found (acc : LoopAcc) (m : Move) (child : VM) (h : Found acc ∨ acc.bestValue < -child.value) :
    Found (accUpdate acc m child) := by
  unfold accUpdate Found
  simp only
  split
  · exact ⟨rfl, rfl⟩
  · rename_i hle
    rcases h with h | h
    · exact ⟨h.1, rfl⟩
    · exact absurd h hle

theorem accUpdate_alpha (acc : LoopAcc) (m : Move) (child : VM) : acc.alpha ≤ (accUpdate acc m child).alpha := by
  unfold accUpdate
  simp only
  split <;> exact Int.le_max_left _ _

theorem accUpdate_bestValue (acc : LoopAcc) (m : Move) (child : VM) : acc.bestValue ≤ (accUpdate acc m child).bestValue := by
  unfold accUpdate
  simp only
  split
  · rename_i h; exact Int.le_of_lt h
  · exact Int.le_refl _

/-- **value-range hypothesis**: in the position `b0`, every depth-1 child search started between two polls with an
empty transposition table, lower bound `lossScore` and an upper bound `β ≤ winScore` returns a value `< winScore` -/
def HorizonBelowWin (b0 : Board) (fuel : Nat) : Prop :=
  ∀ (c : St) (β : Int) (isPv : Bool) (h ph : UInt64),
    (∃ m, m ∈ genPseudo b0 ∧ isValid (make b0 m) = true ∧ vis c.board = vis (make b0 m)) →
    (∀ k, c.tt.get? k = none) → c.stop = false → 0 < c.negamaxNodes → c.negamaxNodes < c.pollPeriod →
    β ≤ Gen.winScore →
    (negamax fuel c 1 1 lossScore β isPv h ph).1.value < Gen.winScore

theorem mem_rootBuffer_of_legal {s : St} {m : Move} (h1 : m ∈ genPseudo s.board)
    (h2 : s.go.searchMoves ≠ [] → m.uci ∈ s.go.searchMoves) : m ∈ rootBuffer s 0 := by
  unfold rootBuffer
  split
  · rename_i hc
    have hne : s.go.searchMoves ≠ [] := by
      intro h; rw [h] at hc; simp at hc
    exact List.mem_filter.mpr ⟨h1, by simpa using h2 hne⟩
  · exact h1

theorem length_rootBuffer_le (s : St) (ply : Nat) : (rootBuffer s ply).length ≤ (genPseudo s.board).length := by
  unfold rootBuffer
  split
  · exact List.length_filter_le _ _
  · exact Nat.le_refl _

theorem length_sortMoves (ms : List Move) (a b c : Option Move) : (sortMoves ms a b c).length = ms.length := by
  unfold sortMoves; exact List.length_mergeSort _

theorem finish_notAborted (c : Nat) (a b : Int) (h : UInt64) (rem : Nat) (acc : LoopAcc) (s : St) :
    (∃ tt, (finish c a b h rem (acc, false, s)).2 = { s with tt := tt }) ∧
    (Found acc → (finish c a b h rem (acc, false, s)).1.mv = acc.bestMove) := by
  unfold finish
  simp only [Bool.false_eq_true, if_false]
  split
  · rename_i hl
    exact ⟨⟨_, rfl⟩, fun hf => by rw [hf.2] at hl; simp at hl⟩
  · split
    · exact ⟨⟨_, rfl⟩, fun _ => rfl⟩
    · exact ⟨⟨_, rfl⟩, fun _ => rfl⟩

/-- once an iteration has completed, `best_move` ends with a move -/
theorem deepen_some (n : Nat) (s : St) (d mt : Nat) (c : VM) (u : Option (List Move)) (sc : Option Score)
    (hc : c.mv.isSome = true) : bestMoveOf (deepen n s d mt (some c) u sc).1 ≠ none := by
  rw [deepen_best]
  cases hl : (completed (iters n s d mt u sc)).getLast? with
  | none =>
    simp only [bestMoveOf]
    intro h; rw [h] at hc; cases hc
  | some r =>
    have hr := (List.mem_filter.mp (List.mem_of_getLast? hl)).2
    unfold iterAborted at hr
    simp only [Bool.not_eq_true', Bool.or_eq_false_iff] at hr
    simp only [bestMoveOf]
    intro h; rw [h] at hr; simp at hr

section
variable (L : BoardLaws)
include L

/-- the root move loop of iteration 1 when the moves fit between two polls: it is not aborted, the stop flag stays
clear, nothing but board / counters / history / killers changes; and if a legal move is among the moves (or a move
was found before) and the value-range hypothesis holds, a move is found -/
theorem root1_loop {fuel : Nat} (b0 : Board) (hinv : Inv (fuel + 1) b0) (beta : Int) :
    ∀ (moves : List Move), (∀ m ∈ moves, m ∈ genPseudo b0) →
    ∀ (s : St) (isPv : Bool) (pvMove : Option Move) (h ph : UInt64) (rem : Nat) (acc : LoopAcc),
      vis s.board = vis b0 → s.stop = false → 0 < s.negamaxNodes → s.negamaxNodes + moves.length ≤ s.pollPeriod →
      (∃ b q hist nn k, (negamaxLoop fuel s moves 0 1 beta isPv pvMove h ph rem acc).2.2 =
          { s with board := b, quiescenceNodes := q, history := hist, negamaxNodes := nn, killers := k }) ∧
      (negamaxLoop fuel s moves 0 1 beta isPv pvMove h ph rem acc).2.1 = false ∧
      (HorizonBelowWin b0 fuel → beta = Gen.winScore → (∀ k, s.tt.get? k = none) → lossScore ≤ acc.alpha → lossScore ≤ acc.bestValue →
        (Found acc ∨ (acc.bestValue = lossScore ∧ ∃ m ∈ moves, isValid (make b0 m) = true)) →
        Found (negamaxLoop fuel s moves 0 1 beta isPv pvMove h ph rem acc).1) := by
  have hwf := hinv.wf
  intro moves
  induction moves with
  | nil =>
    intro _ s isPv pvMove h ph rem acc hs hstop hnn hlen
    rw [negamaxLoop_nil]
    refine ⟨⟨_, _, _, _, _, rfl⟩, rfl, ?_⟩
    intro _ _ _ _ _ hf
    rcases hf with hf | ⟨-, m, hm, -⟩
    · exact hf
    · cases hm
  | cons m rest ih =>
    intro hmem s isPv pvMove h ph rem acc hs hstop hnn hlen
    have hm : Generated b0 m := Or.inl (hmem m (List.mem_cons_self ..))
    have hrest : ∀ m ∈ rest, m ∈ genPseudo b0 := fun x hx => hmem x (List.mem_cons_of_mem _ hx)
    have hmk : vis (make s.board m) = vis (make b0 m) := make_congr hs m
    have hlen' : s.negamaxNodes + rest.length + 1 ≤ s.pollPeriod := by
      simpa [List.length_cons, Nat.add_assoc] using hlen
    rw [negamaxLoop_cons]
    split
    · rename_i hv
      have hinv : isValid (make b0 m) = false := by
        rw [← isValid_congr hmk]; simpa using hv
      obtain ⟨⟨b, q, hist, nn, k, h1⟩, h2, h3⟩ := ih hrest { s with board := unmake (make s.board m) m } isPv pvMove h ph rem acc
        (back hwf hm hmk) hstop hnn (by show s.negamaxNodes + rest.length ≤ s.pollPeriod; omega)
      refine ⟨⟨b, q, hist, nn, k, by rw [h1]⟩, h2, ?_⟩
      intro hv' hbeta htt ha hbv hf
      refine h3 hv' hbeta htt ha hbv ?_
      rcases hf with hf | ⟨hbv', x, hx, hxv⟩
      · exact Or.inl hf
      · rcases List.mem_cons.mp hx with rfl | hx
        · rw [hinv] at hxv; cases hxv
        · exact Or.inr ⟨hbv', x, hx, hxv⟩
    · rename_i hv
      have hv' : isValid (make b0 m) = true := by
        rw [← isValid_congr hmk]; simpa using hv
      have hwf1 : Inv fuel (make s.board m) := (child_inv L hinv hs hm (by simpa using hv)).1
      obtain ⟨b, q, hist, nn, hr, hnn1, hnn2⟩ := horizon_child fuel { s with board := make s.board m } 0 (-beta)
        (-acc.alpha) (childPvOf isPv pvMove m) (h ^^^ (Zobrist.xorOf m.f).1) (ph ^^^ (Zobrist.xorOf m.f).2)
        hnn (by show s.negamaxNodes < s.pollPeriod; omega)
      have hnn1' : s.negamaxNodes ≤ nn := hnn1
      have hnn2' : nn ≤ s.negamaxNodes + 1 := hnn2
      have hrb := negamax_ok L fuel { s with board := make s.board m } (0 + 1) 1 (-beta) (-acc.alpha)
        (childPvOf isPv pvMove m) (h ^^^ (Zobrist.xorOf m.f).1) (ph ^^^ (Zobrist.xorOf m.f).2) hwf1
      have hvalue : HorizonBelowWin b0 fuel → beta = Gen.winScore → (∀ k, s.tt.get? k = none) → lossScore ≤ acc.alpha →
          (negamax fuel { s with board := make s.board m } (0 + 1) 1 (-beta) (-acc.alpha)
            (childPvOf isPv pvMove m) (h ^^^ (Zobrist.xorOf m.f).1) (ph ^^^ (Zobrist.xorOf m.f).2)).1.value < Gen.winScore := by
        intro hvl hbeta htt ha
        subst hbeta
        exact hvl { s with board := make s.board m } (-acc.alpha) (childPvOf isPv pvMove m)
          (h ^^^ (Zobrist.xorOf m.f).1) (ph ^^^ (Zobrist.xorOf m.f).2)
          ⟨m, hmem m (List.mem_cons_self ..), hv', hmk⟩ htt hstop hnn (by show s.negamaxNodes < s.pollPeriod; omega)
          (by unfold lossScore at ha; omega)
      simp only
      generalize negamax fuel { s with board := make s.board m } (0 + 1) 1 (-beta) (-acc.alpha)
        (childPvOf isPv pvMove m) (h ^^^ (Zobrist.xorOf m.f).1) (ph ^^^ (Zobrist.xorOf m.f).2) = r at hr hrb hvalue ⊢
      obtain ⟨child, s2⟩ := r
      simp only at hr hrb hvalue ⊢
      subst hr
      have hb := back hwf hm (hrb.trans hmk)
      have hfound : HorizonBelowWin b0 fuel → beta = Gen.winScore → (∀ k, s.tt.get? k = none) → lossScore ≤ acc.alpha →
          (Found acc ∨ acc.bestValue = lossScore) → Found (accUpdate acc m child) := by
        intro hvl hbeta htt ha hf
        apply accUpdate_found
        rcases hf with hf | hf
        · exact Or.inl hf
        · right
          have := hvalue hvl hbeta htt ha
          rw [hf]
          unfold lossScore
          omega
      split
      · rename_i habs
        have habs' : s.stop = true := habs
        rw [hstop] at habs'; cases habs'
      split
      · refine ⟨⟨_, _, _, _, _, rfl⟩, rfl, ?_⟩
        intro hvl hbeta htt ha hbv hf
        exact hfound hvl hbeta htt ha (hf.imp id (fun x => x.1))
      · obtain ⟨⟨b', q', hist', nn', k', h1⟩, h2, h3⟩ := ih hrest
          { s with board := unmake b m, quiescenceNodes := q, history := hist, negamaxNodes := nn }
          isPv pvMove h ph rem (accUpdate acc m child)
          hb hstop (by show 0 < nn; omega) (by show nn + rest.length ≤ s.pollPeriod; omega)
        refine ⟨⟨b', q', hist', nn', k', by rw [h1]⟩, h2, ?_⟩
        intro hvl hbeta htt ha hbv hf
        refine h3 hvl hbeta htt (Int.le_trans ha (accUpdate_alpha _ _ _))
          (Int.le_trans hbv (accUpdate_bestValue _ _ _)) (Or.inl ?_)
        exact hfound hvl hbeta htt ha (hf.imp id (fun x => x.1))

/-- **iteration 1 cannot be interrupted**: started with a zero node counter and a clear stop flag in a position whose
pseudo-legal move list is shorter than the poll period, the depth-1 root search ends with the stop flag clear, without
having consumed a message or emitted an info; and it returns a move if the position has a legal move, the table is
empty and the value-range hypothesis holds -/
theorem root1 (p : St) (hwf : Inv (fuelFor 1) p.board) (hstop : p.stop = false) (hnn : p.negamaxNodes = 0)
    (hpoll : (genPseudo p.board).length < p.pollPeriod) :
    (rootSearch p 1).2.stop = false ∧ (rootSearch p 1).2.pending = p.pending ∧ (rootSearch p 1).2.out = p.out ∧
    (HorizonBelowWin p.board (fuelFor 1 - 1) → (∀ k, p.tt.get? k = none) →
      (∃ m, LegalRoot p.board p.go.searchMoves m) → (rootSearch p 1).1.mv.isSome = true) := by
  have hf := pollFlag_false_of_zero hnn
  have he := enter_of_noFlag hf (Zobrist.hash p.board)
  have hrep : isRep (enter p (Zobrist.hash p.board)) 0 = false := by unfold isRep; simp
  have hbuf : rootBuffer (enter p (Zobrist.hash p.board)) 0 = rootBuffer p 0 := by rw [he]; rfl
  have hs3 : (enter p (Zobrist.hash p.board)).stop = false ∧ (enter p (Zobrist.hash p.board)).pending = p.pending ∧
      (enter p (Zobrist.hash p.board)).out = p.out := by rw [he]; exact ⟨hstop, rfl, rfl⟩
  have hprobe : (∀ k, p.tt.get? k = none) →
      probe ((enter p (Zobrist.hash p.board)).tt.get? (Zobrist.hash p.board)) (1 - 0) lossScore Gen.winScore =
        (none, lossScore, Gen.winScore) := by
    intro htt
    have : (enter p (Zobrist.hash p.board)).tt.get? (Zobrist.hash p.board) = none := by rw [he]; exact htt _
    rw [this]; rfl
  have hfuel : fuelFor 1 = 200 + 1 := rfl
  unfold rootSearch
  rw [hfuel, negamax_succ, timedOut_of_noFlag hf]
  simp only [Bool.false_eq_true, if_false, hrep]
  split
  · rename_i r x y heq
    refine ⟨hs3.1, hs3.2.1, hs3.2.2, ?_⟩
    intro _ htt _
    rw [hprobe htt] at heq
    cases heq
  · rename_i x alpha beta heq
    split
    · rename_i hempty
      refine ⟨hs3.1, hs3.2.1, hs3.2.2, ?_⟩
      intro _ _ ⟨m, hm1, _, hm3⟩
      have := mem_rootBuffer_of_legal hm1 hm3
      rw [← hbuf] at this
      simp only [Bool.and_eq_true, beq_self_eq_true, true_and, List.isEmpty_iff] at hempty
      rw [hempty] at this
      cases this
    · split
      · rename_i hz; simp at hz
      · -- the move loop
        have hwf3 : Inv (200 + 1) (enter p (Zobrist.hash p.board)).board := by rw [he]; exact hwf
        obtain ⟨⟨b, q, hist, nn, k, h1⟩, h2, h3⟩ := root1_loop L (enter p (Zobrist.hash p.board)).board hwf3 beta
          (sortMoves (rootBuffer (enter p (Zobrist.hash p.board)) 0)
            (pvMoveOf (enter p (Zobrist.hash p.board)) p.pv.isSome 0)
            (ttMoveOf ((enter p (Zobrist.hash p.board)).tt.get? (Zobrist.hash p.board)))
            (killerGet (enter p (Zobrist.hash p.board)).killers (1 - 0)))
          (fun m hm => mem_rootBuffer_genPseudo (mem_sortMoves.mp hm))
          (enter p (Zobrist.hash p.board)) p.pv.isSome (pvMoveOf (enter p (Zobrist.hash p.board)) p.pv.isSome 0)
          (Zobrist.hash p.board) (Zobrist.pawnHash p.board) (1 - 0) (acc0 alpha) rfl hs3.1
          (by rw [he]; show 0 < p.negamaxNodes + 1; omega)
          (by
            rw [length_sortMoves]
            have h1 := length_rootBuffer_le (enter p (Zobrist.hash p.board)) 0
            have h2 : (enter p (Zobrist.hash p.board)).negamaxNodes = 1 := by rw [he]; show p.negamaxNodes + 1 = 1; omega
            have h3 : (enter p (Zobrist.hash p.board)).pollPeriod = p.pollPeriod := by rw [he]
            have h4 : (enter p (Zobrist.hash p.board)).board = p.board := by rw [he]
            rw [h2, h3]; rw [h4] at h1; omega)
        generalize negamaxLoop 200 (enter p (Zobrist.hash p.board)) _ 0 1 beta p.pv.isSome _ _ _ (1 - 0) (acc0 alpha) = res
          at h1 h2 h3 ⊢
        obtain ⟨acc, ab, st⟩ := res
        simp only at h1 h2 h3
        subst h2
        obtain ⟨⟨tt, hfin⟩, hmv⟩ := finish_notAborted p.board.turn lossScore beta (Zobrist.hash p.board) (1 - 0) acc st
        have hst : st.stop = false ∧ st.pending = p.pending ∧ st.out = p.out := by rw [h1]; exact hs3
        rw [hfin]
        refine ⟨hst.1, hst.2.1, hst.2.2, ?_⟩
        intro hvl htt ⟨m, hm1, hm2, hm3⟩
        have hpr := hprobe htt
        rw [hpr] at heq
        have hal : alpha = lossScore := by injection heq with _ h; injection h with h _; exact h.symm
        have hbe : beta = Gen.winScore := by injection heq with _ h; injection h with _ h; exact h.symm
        have hmem : m ∈ rootBuffer (enter p (Zobrist.hash p.board)) 0 := by rw [hbuf]; exact mem_rootBuffer_of_legal hm1 hm3
        have hb4 : (enter p (Zobrist.hash p.board)).board = p.board := by rw [he]
        have hfound := h3 (by rw [hb4]; exact hvl) hbe (by rw [he]; exact htt) (by rw [hal]; exact Int.le_refl _)
          (Int.le_refl _) (Or.inr ⟨rfl, m, mem_sortMoves.mpr hmem, by rw [hb4]; exact hm2⟩)
        rw [hmv hfound]
        exact hfound.1

/-- TARGET `depth1_completes`, reduced to the value-range hypothesis and to the move-count hypothesis:
a position with a legal move never gets the null move -/
theorem depth1_completes_partial (s : St) (g : GoParams) (maxIter : Nat) (hwf : Inv (fuelFor 1) s.board) (hiter : 1 ≤ maxIter)
    (hpoll : (genPseudo s.board).length < s.pollPeriod)
    (hlegal : ∃ m, LegalRoot s.board g.searchMoves m)
    (hval : HorizonBelowWin s.board (fuelFor 1 - 1)) :
    bestMoveOf (goDeepen s g maxIter).1 ≠ none := by
  obtain ⟨k, pv, g', hp⟩ := goPrep_eq s g
  have hb : (goPrep s g).board = s.board := goPrep_board s g
  have hsm := goPrep_searchMoves s g
  obtain ⟨hst, -, -, hmv⟩ := root1 L (goPrep s g) (by rw [hb]; exact hwf) (by rw [hp]) (by rw [hp])
    (by rw [hb]; rw [hp]; exact hpoll)
  have hmv' := hmv (by rw [hb]; exact hval)
    (by intro k'; rw [hp]; simp [Std.HashMap.get?_eq_getElem?])
    (by rw [hb, hsm]; exact hlegal)
  have hna : iterAborted (rootSearch (goPrep s g) 1) = false := by
    unfold iterAborted
    rw [hst]
    cases hm : (rootSearch (goPrep s g) 1).1.mv with
    | none => rw [hm] at hmv'; cases hmv'
    | some m => rfl
  unfold goDeepen
  obtain ⟨n, hn⟩ : ∃ n, goIters g maxIter = n + 1 := by
    refine ⟨goIters g maxIter - 1, ?_⟩
    unfold goIters
    cases g.depth with
    | none => simp only; omega
    | some d => simp only; omega
  rw [hn, deepen_succ]
  simp only [hna, Bool.false_eq_true, if_false]
  split
  · simp only [bestMoveOf]
    intro h; rw [h] at hmv'; cases hmv'
  · exact deepen_some _ _ _ _ _ _ _ hmv'

/-- **no interruption before iteration 1 has completed**: whatever is waiting in the channel and whatever the time
limit, the first iteration of a `go` ends with the stop flag clear -/
theorem depth1_not_interrupted (s : St) (g : GoParams) (hwf : Inv (fuelFor 1) s.board)
    (hpoll : (genPseudo s.board).length < s.pollPeriod) :
    (rootSearch (goPrep s g) 1).2.stop = false ∧ (rootSearch (goPrep s g) 1).2.pending = s.pending := by
  obtain ⟨k, pv, g', hp⟩ := goPrep_eq s g
  have hb : (goPrep s g).board = s.board := goPrep_board s g
  obtain ⟨hst, hpe, -, -⟩ := root1 L (goPrep s g) (by rw [hb]; exact hwf) (by rw [hp]) (by rw [hp])
    (by rw [hb]; rw [hp]; exact hpoll)
  exact ⟨hst, by rw [hpe, hp]⟩

end

end Inkayaku.Search
