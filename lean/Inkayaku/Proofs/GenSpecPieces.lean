import Inkayaku.Proofs.GenSpecKeys
import Inkayaku.Proofs.GenSpecNoisy
import Inkayaku.Proofs.Check
/-!
# C01, part 4: sliders, knights and kings — the generated targets are the targets of the rules

For a board with pairwise disjoint piece words (`Attack.Disjoint`, first conjunct of `WF.wf`):

* forward readings of the attack lookups (`fwd_rook`, `fwd_bishop`, `fwd_knight`, `fwd_king`, `fwd_pawn`): the lookup
  FROM the piece's square holds `t` iff `Spec.attacksGeom … s t` (C04 + `Geometry.slide_iff` + the leaper tables);
* "target not in the mover's occupancy" is the Spec's "target empty or enemy" (`notOwn_iff`);
* `mem_slidingK`, `mem_singleK`: membership in the key lists of part 2 in the vocabulary of the Spec (`StepG`).
-/
namespace Inkayaku.GenSpec
open Inkayaku.Board Inkayaku.Gen Inkayaku.Bits Inkayaku.Geometry Inkayaku.Attack Inkayaku.Abs

/-! ## forward lookups -/

theorem rookAttacks_fwd (s t : Nat) (occ : UInt64) (hs : s < 64) (ht : t < 64) :
    testU (rookAttacks s occ) t = true ↔ rookLine s t = true ∧ ∀ q ∈ between s t, testU occ q = false := by
  unfold rookAttacks
  rw [testU_ofNat _ _ ht, (C04.rook_correct_u64 s hs occ).2]
  exact slide_iff rook_rayOK rook_lineOK s t occ.toNat hs ht

theorem bishopAttacks_fwd (s t : Nat) (occ : UInt64) (hs : s < 64) (ht : t < 64) :
    testU (bishopAttacks s occ) t = true ↔ bishLine s t = true ∧ ∀ q ∈ between s t, testU occ q = false := by
  unfold bishopAttacks
  rw [testU_ofNat _ _ ht, (C04.bishop_correct_u64 s hs occ).2]
  exact slide_iff bishop_rayOK bishop_lineOK s t occ.toNat hs ht

section
variable (b : Board) (occ : UInt64) (hocc : ∀ q, testU occ q = testU (b.white.full ||| b.black.full) q)
include hocc

theorem fwd_rook (w : Bool) (s t : Nat) (hs : s < 64) (ht : t < 64) :
    testU (rookAttacks s occ) t = true ↔ Spec.attacksGeom (abs b) .rook w s t = true := by
  rw [rookAttacks_fwd s t occ hs ht, attacksGeom_rook, Bool.and_eq_true, clear_iff b occ hocc]

theorem fwd_bishop (w : Bool) (s t : Nat) (hs : s < 64) (ht : t < 64) :
    testU (bishopAttacks s occ) t = true ↔ Spec.attacksGeom (abs b) .bishop w s t = true := by
  rw [bishopAttacks_fwd s t occ hs ht, attacksGeom_bishop, Bool.and_eq_true, clear_iff b occ hocc]

end

theorem fwd_knight (p : Spec.Pos) (w : Bool) (s t : Nat) (hs : s < 64) (ht : t < 64) :
    testU (leaperAttacks knightTable s) t = Spec.attacksGeom p .knight w s t := by
  rw [leaperAttacks_eq knight_tableOK s t hs ht, attacksGeom_knight]

theorem fwd_king (p : Spec.Pos) (w : Bool) (s t : Nat) (hs : s < 64) (ht : t < 64) :
    testU (leaperAttacks kingTable s) t = Spec.attacksGeom p .king w s t := by
  rw [leaperAttacks_eq king_tableOK s t hs ht, attacksGeom_king]

theorem fwd_pawn (p : Spec.Pos) (w : Bool) (s t : Nat) (hs : s < 64) (ht : t < 64) :
    testU (leaperAttacks (if w then whitePawnTable else blackPawnTable) s) t = Spec.attacksGeom p .pawn w s t := by
  rw [attacksGeom_pawn]
  cases w
  · exact leaperAttacks_eq blackPawn_tableOK s t hs ht
  · exact leaperAttacks_eq whitePawn_tableOK s t hs ht

/-- a queen moves like a rook or like a bishop -/
theorem queen_geom (p : Spec.Pos) (w : Bool) (s t : Nat) :
    Spec.attacksGeom p .queen w s t = (Spec.attacksGeom p .rook w s t || Spec.attacksGeom p .bishop w s t) := by
  rw [attacksGeom_queen, attacksGeom_rook, attacksGeom_bishop]
  cases rookLine s t <;> cases bishLine s t <;> cases Spec.clearBetween p s t <;> rfl

/-! ## sides, words, own pieces -/

theorem active_eq (b : Board) : b.active = sideOf b b.whiteTurn := rfl

theorem passive_eq (b : Board) : b.passive = sideOf b (!b.whiteTurn) := by
  unfold Board.passive sideOf
  cases b.whiteTurn <;> rfl

theorem whiteToMove_eq (b : Board) : (abs b).whiteToMove = b.whiteTurn := rfl

theorem fullOcc_eq (b : Board) (q : Nat) :
    testU (b.active.full ||| b.passive.full) q = testU (b.white.full ||| b.black.full) q := by
  rw [active_eq, passive_eq]
  exact Check.side_full_occ b b.whiteTurn q

theorem full_iff_kind (s : Side) (t : Nat) :
    testU s.full t = true ↔ ∃ k : Spec.Kind, testU (s.get (kindCode k)) t = true := by
  rw [full_iff]
  simp only [sideWords, List.mem_cons, List.not_mem_nil, or_false, exists_eq_or_imp, exists_eq_left]
  constructor
  · rintro (h | h | h | h | h | h)
    · exact ⟨.pawn, h⟩
    · exact ⟨.knight, h⟩
    · exact ⟨.bishop, h⟩
    · exact ⟨.rook, h⟩
    · exact ⟨.queen, h⟩
    · exact ⟨.king, h⟩
  · rintro ⟨k, h⟩
    cases k <;> simp only [kindCode, Side.get] at h <;> simp [h]

/-- the Spec's "target square is empty or holds an enemy piece" -/
def notOwn (p : Spec.Pos) (white : Bool) (t : Nat) : Bool :=
  match p.at t with
  | some o => o.white != white
  | none => true

theorem own_iff (b : Board) (hd : Disjoint b) (w : Bool) (t : Nat) (ht : t < 64) :
    testU (sideOf b w).full t = true ↔ ∃ k, (abs b).at t = some ⟨w, k⟩ := by
  rw [full_iff_kind]
  constructor
  · rintro ⟨k, h⟩; exact ⟨k, (at_iff b hd t ht w k).mpr h⟩
  · rintro ⟨k, h⟩; exact ⟨k, (at_iff b hd t ht w k).mp h⟩

theorem notOwn_iff (b : Board) (hd : Disjoint b) (w : Bool) (t : Nat) (ht : t < 64) :
    notOwn (abs b) w t = !testU (sideOf b w).full t := by
  have h := own_iff b hd w t ht
  unfold notOwn
  cases hat : (abs b).at t with
  | none =>
    cases hf : testU (sideOf b w).full t
    · rfl
    · obtain ⟨k, hk⟩ := h.mp hf
      rw [hat] at hk; cases hk
  | some o =>
    obtain ⟨ow, ok⟩ := o
    by_cases hw : ow = w
    · subst hw
      have : testU (sideOf b ow).full t = true := h.mpr ⟨ok, hat⟩
      simp [this]
    · have : testU (sideOf b w).full t = false := by
        cases hf : testU (sideOf b w).full t
        · rfl
        · obtain ⟨k, hk⟩ := h.mp hf
          rw [hat] at hk
          simp only [Option.some.injEq, Spec.Piece.mk.injEq] at hk
          exact absurd hk.1 hw
      simp [this, hw]

/-! ## one step of a non-pawn piece in the vocabulary of the Spec -/

/-- a piece of kind `k` of the side to move stands on `s`, a piece moving like `g` would reach `t` from `s`
(geometry and blockers), and `t` is empty or holds an enemy piece -/
def StepG (p : Spec.Pos) (k g : Spec.Kind) (s t : Nat) : Prop :=
  s < 64 ∧ t < 64 ∧ p.at s = some ⟨p.whiteToMove, k⟩ ∧ Spec.attacksGeom p g p.whiteToMove s t = true ∧
    notOwn p p.whiteToMove t = true

/-- the Spec's condition for a non-pawn move -/
def Step (p : Spec.Pos) (k : Spec.Kind) (s t : Nat) : Prop := StepG p k k s t

theorem step_queen (p : Spec.Pos) (s t : Nat) : Step p .queen s t ↔ StepG p .queen .rook s t ∨ StepG p .queen .bishop s t := by
  unfold Step StepG
  rw [queen_geom, Bool.or_eq_true]
  constructor
  · rintro ⟨a, b, c, d | d, e⟩
    · exact Or.inl ⟨a, b, c, d, e⟩
    · exact Or.inr ⟨a, b, c, d, e⟩
  · rintro (⟨a, b, c, d, e⟩ | ⟨a, b, c, d, e⟩)
    · exact ⟨a, b, c, Or.inl d, e⟩
    · exact ⟨a, b, c, Or.inr d, e⟩

/-! ## membership in the key lists -/

theorem mem_stepK (piece s : Nat) (att : UInt64) (x : Key) :
    x ∈ stepK piece s att ↔ ∃ t, testU att t = true ∧ x = quiet piece s t := by
  unfold stepK
  rw [List.mem_map]
  constructor
  · rintro ⟨t, ht, rfl⟩; exact ⟨t, (mem_bitsAsc _ _).mp ht, rfl⟩
  · rintro ⟨t, ht, rfl⟩; exact ⟨t, (mem_bitsAsc _ _).mpr ht, rfl⟩

theorem quiet_eq (piece s t : Nat) (x : Key) :
    x = quiet piece s t ↔ x.piece = piece ∧ x.castle = false ∧ x.mv = ⟨s, t, none⟩ := by
  obtain ⟨p, c, m⟩ := x
  simp [quiet]

def gkind (rook : Bool) : Spec.Kind := if rook then .rook else .bishop

theorem mem_slidingK (b : Board) (hd : Disjoint b) (k : Spec.Kind) (rook : Bool) (piece : Nat) (x : Key) :
    x ∈ slidingK (b.active.get (kindCode k)) b.active.full (b.active.full ||| b.passive.full) rook piece ↔
      x.piece = piece ∧ x.castle = false ∧ ∃ s t, StepG (abs b) k (gkind rook) s t ∧ x.mv = ⟨s, t, none⟩ := by
  unfold slidingK
  rw [List.mem_flatMap]
  simp only [mem_stepK, mem_bitsAsc, quiet_eq]
  have hocc := fullOcc_eq b
  constructor
  · rintro ⟨s, hs, t, ht, h1, h2, h3⟩
    have hs64 := testU_lt hs
    have ht64 := testU_lt ht
    refine ⟨h1, h2, s, t, ⟨hs64, ht64, ?_, ?_, ?_⟩, h3⟩
    · exact (at_iff b hd s hs64 _ k).mpr hs
    · rw [testU_and] at ht
      have ht1 := (Bool.and_eq_true _ _ ▸ ht).1
      cases rook
      · exact (fwd_bishop b _ hocc _ s t hs64 ht64).mp ht1
      · exact (fwd_rook b _ hocc _ s t hs64 ht64).mp ht1
    · rw [testU_and, testU_not] at ht
      rw [whiteToMove_eq, notOwn_iff b hd _ t ht64, ← active_eq]
      simp only [Bool.and_eq_true] at ht
      exact ht.2.2
  · rintro ⟨h1, h2, s, t, ⟨hs64, ht64, hat, hg, hn⟩, h3⟩
    refine ⟨s, (at_iff b hd s hs64 _ k).mp hat, t, ?_, h1, h2, h3⟩
    rw [testU_and, testU_not, Bool.and_eq_true, Bool.and_eq_true]
    refine ⟨?_, by simpa using ht64, ?_⟩
    · cases rook
      · exact (fwd_bishop b _ hocc _ s t hs64 ht64).mpr hg
      · exact (fwd_rook b _ hocc _ s t hs64 ht64).mpr hg
    · rw [whiteToMove_eq, notOwn_iff b hd _ t ht64, ← active_eq] at hn
      exact hn

/-- knights and kings: `tbl` is the table of kind `k` -/
theorem mem_singleK (b : Board) (hd : Disjoint b) (k : Spec.Kind) (tbl : List Nat)
    (htbl : ∀ s t, s < 64 → t < 64 →
      testU (leaperAttacks tbl s) t = Spec.attacksGeom (abs b) k (abs b).whiteToMove s t)
    (piece : Nat) (x : Key) :
    x ∈ singleK (b.active.get (kindCode k)) b.active.full tbl piece ↔
      x.piece = piece ∧ x.castle = false ∧ ∃ s t, Step (abs b) k s t ∧ x.mv = ⟨s, t, none⟩ := by
  unfold singleK
  rw [List.mem_flatMap]
  simp only [mem_stepK, mem_bitsAsc, quiet_eq]
  constructor
  · rintro ⟨s, hs, t, ht, h1, h2, h3⟩
    have hs64 := testU_lt hs
    have ht64 := testU_lt ht
    rw [testU_and, testU_not] at ht
    simp only [Bool.and_eq_true] at ht
    refine ⟨h1, h2, s, t, ⟨hs64, ht64, ?_, ?_, ?_⟩, h3⟩
    · exact (at_iff b hd s hs64 _ k).mpr hs
    · rw [← htbl s t hs64 ht64]; exact ht.1
    · rw [whiteToMove_eq, notOwn_iff b hd _ t ht64, ← active_eq]
      exact ht.2.2
  · rintro ⟨h1, h2, s, t, ⟨hs64, ht64, hat, hg, hn⟩, h3⟩
    refine ⟨s, (at_iff b hd s hs64 _ k).mp hat, t, ?_, h1, h2, h3⟩
    rw [testU_and, testU_not, Bool.and_eq_true, Bool.and_eq_true]
    refine ⟨?_, by simpa using ht64, ?_⟩
    · rw [htbl s t hs64 ht64]; exact hg
    · rw [whiteToMove_eq, notOwn_iff b hd _ t ht64, ← active_eq] at hn
      exact hn

end Inkayaku.GenSpec
