import Inkayaku.Proofs.GenSpecLegal
import Inkayaku.Proofs.MakeWf
/-!
# C01, part 10: `make` keeps the structural invariant, so `genLegal_eq_spec` needs the successor property only

`struct_make`: for a pseudo-legal move of a legal position the twelve piece words of the successor are pairwise disjoint
and both sides still have exactly one king (`Check.Struct`, the hypothesis of `C05.move_legal`).  This is the
well-formedness step of the board layer (`MakeWf.step_disj`, `MakeWf.step_kings` over `GenStrong.genPseudo_strong`);
it does not use the validity of the successor.
-/
namespace Inkayaku.GenSpec
open Inkayaku.Board Inkayaku.Abs Inkayaku.Spec

theorem struct_make {b : Board} (h : WF.wf b = true) {m : Move} (hm : m ∈ genPseudo b) :
    Check.Struct (make b m) := by
  have hwf := (MakeWf.wf_iff b).mp h
  obtain ⟨src, tgt, piece, castle, ep, promo, epOpp, hf, ha⟩ := GenStrong.genPseudo_strong h m hm
  have hdisj := MakeWf.step_disj hwf ha
  unfold make
  rw [hf, BoardCongr.makeF_eq]
  rcases MakeWf.sides_of_turn b hwf.turn with ⟨hw, -, hact, hpas⟩ | ⟨hw, -, hact, hpas⟩
  · have hk := MakeWf.step_kings hwf ha (by rw [hact]; exact hwf.wk) (by rw [hpas]; exact hwf.bk)
    simp only [hw, if_true]
    rw [hw] at hdisj hk
    exact ⟨(MakeWf.disj_iff _ _).mpr ⟨hdisj.1, hdisj.2.1, hdisj.2.2⟩, hk.1, hk.2⟩
  · have hk := MakeWf.step_kings hwf ha (by rw [hact]; exact hwf.bk) (by rw [hpas]; exact hwf.wk)
    simp only [hw, Bool.false_eq_true, if_false]
    rw [hw] at hdisj hk
    exact ⟨(MakeWf.disj_iff _ _).mpr ⟨hdisj.2.1, hdisj.1, hdisj.2.2.symm⟩, hk.2, hk.1⟩

/-- **Item 5 of C01**, with the successor property (C02) as the only hypothesis -/
theorem genLegal_eq_spec_of_succ {b : Board} (h : WF.wf b = true)
    (hsucc : ∀ m ∈ genPseudo b, abs (make b m) = Spec.apply (abs b) (absMove m.f)) (sm : SMove) :
    sm ∈ (genLegal b).map (absMove ∘ Move.f) ↔ sm ∈ Spec.legalMoves (abs b) :=
  genLegal_eq_spec h hsucc (fun _ hm => struct_make h hm) sm

theorem genLegal_uci_eq_spec_of_succ {b : Board} (h : WF.wf b = true)
    (hsucc : ∀ m ∈ genPseudo b, abs (make b m) = Spec.apply (abs b) (absMove m.f)) (s : String) :
    s ∈ (genLegal b).map Move.uci ↔ s ∈ (Spec.legalMoves (abs b)).map SMove.uci :=
  genLegal_uci_eq_spec h hsucc (fun _ hm => struct_make h hm) s

end Inkayaku.GenSpec
