import Inkayaku.Proofs.GenSpecCastle
/-!
# C01, part 7: pseudo-legal generation = the movement rules (item 3 of C01)

* `mem_pseudoMoves`: `Spec.pseudoMoves` split by piece kind;
* `mem_genK`: the generated keys split by piece kind, in the vocabulary of the Spec;
* `genPseudo_iff`: the generated (source, target, promotion) triples are exactly `Spec.pseudoMoves (abs b)`;
* `sliding_iff` (queen, rook, bishop), `knight_iff`, `king_iff`, `pawn_iff`, `castle_iff`: the per-kind statements on
  the moves of `genPseudo b` themselves.
-/
namespace Inkayaku.GenSpec
open Inkayaku.Board Inkayaku.Gen Inkayaku.Bits Inkayaku.Geometry Inkayaku.Attack Inkayaku.Abs Inkayaku.Spec

/-! ## the Spec's pseudo-legal moves by kind -/

/-- the Spec's non-pawn moves of a piece of kind `k` on `s` -/
def stepMoves (p : Pos) (k : Kind) (s : Nat) : List SMove :=
  (List.range 64).filterMap fun t =>
    if attacksGeom p k p.whiteToMove s t && notOwn p p.whiteToMove t then some ⟨s, t, none⟩ else none

/-- the Spec's moves from square `s` -/
def sqMoves (p : Pos) (s : Nat) : List SMove :=
  match p.at s with
  | some pc =>
    if pc.white != p.whiteToMove then []
    else if pc.kind == .pawn then Spec.pawnMoves p p.whiteToMove s
    else stepMoves p pc.kind s
  | none => []

theorem pseudoMoves_eq (p : Pos) :
    Spec.pseudoMoves p = (List.range 64).flatMap (sqMoves p) ++ Spec.castleMoves p p.whiteToMove := rfl

theorem mem_stepMoves (p : Pos) (k : Kind) (s : Nat) (sm : SMove) :
    sm ∈ stepMoves p k s ↔ ∃ t, t < 64 ∧ attacksGeom p k p.whiteToMove s t = true ∧
      notOwn p p.whiteToMove t = true ∧ sm = ⟨s, t, none⟩ := by
  unfold stepMoves
  rw [List.mem_filterMap]
  constructor
  · rintro ⟨t, ht, h⟩
    split at h
    · next hc =>
      rw [Bool.and_eq_true] at hc
      simp only [Option.some.injEq] at h
      exact ⟨t, List.mem_range.mp ht, hc.1, hc.2, h.symm⟩
    · cases h
  · rintro ⟨t, ht, hg, hn, rfl⟩
    refine ⟨t, List.mem_range.mpr ht, ?_⟩
    rw [if_pos (by rw [Bool.and_eq_true]; exact ⟨hg, hn⟩)]

theorem mem_sqMoves (p : Pos) (s : Nat) (hs : s < 64) (sm : SMove) :
    sm ∈ sqMoves p s ↔
      (∃ k, k ≠ Kind.pawn ∧ ∃ t, Step p k s t ∧ sm = ⟨s, t, none⟩) ∨
      (p.at s = some ⟨p.whiteToMove, .pawn⟩ ∧ sm ∈ Spec.pawnMoves p p.whiteToMove s) := by
  unfold sqMoves
  cases hat : p.at s with
  | none =>
    simp only [List.not_mem_nil, false_iff, not_or, not_exists, not_and]
    refine ⟨?_, ?_⟩
    · rintro k - t ⟨-, -, h, -⟩; rw [hat] at h; cases h
    · intro h; cases h
  | some pc =>
    obtain ⟨pw, pk⟩ := pc
    simp only
    by_cases hw : pw = p.whiteToMove
    · subst hw
      simp only [bne_self_eq_false, Bool.false_eq_true, if_false]
      by_cases hk : pk = Kind.pawn
      · subst hk
        simp only [BEq.rfl, if_true, true_and]
        constructor
        · intro h; exact Or.inr h
        · rintro (⟨k, hk, t, ⟨-, -, h, -⟩, -⟩ | h)
          · rw [hat] at h
            simp only [Option.some.injEq, Piece.mk.injEq, true_and] at h
            exact absurd h.symm hk
          · exact h
      · have hkb : (pk == Kind.pawn) = false := by simpa using hk
        simp only [hkb, Bool.false_eq_true, if_false]
        rw [mem_stepMoves]
        constructor
        · rintro ⟨t, ht, hg, hn, e⟩
          exact Or.inl ⟨pk, hk, t, ⟨hs, ht, hat, hg, hn⟩, e⟩
        · rintro (⟨k, -, t, ⟨-, ht, h, hg, hn⟩, e⟩ | ⟨h, -⟩)
          · rw [hat] at h
            simp only [Option.some.injEq, Piece.mk.injEq, true_and] at h
            subst h
            exact ⟨t, ht, hg, hn, e⟩
          · simp only [Option.some.injEq, Piece.mk.injEq, true_and] at h
            exact absurd h hk
    · have hwb : (pw != p.whiteToMove) = true := by simpa using hw
      simp only [hwb, if_true, List.not_mem_nil, false_iff, not_or, not_exists, not_and]
      refine ⟨?_, ?_⟩
      · rintro k - t ⟨-, -, h, -⟩
        rw [hat] at h
        simp only [Option.some.injEq, Piece.mk.injEq] at h
        exact absurd h.1 hw
      · intro h
        simp only [Option.some.injEq, Piece.mk.injEq] at h
        exact absurd h.1 hw

theorem mem_pseudoMoves (p : Pos) (sm : SMove) :
    sm ∈ Spec.pseudoMoves p ↔
      (∃ k, k ≠ Kind.pawn ∧ ∃ s t, Step p k s t ∧ sm = ⟨s, t, none⟩) ∨ PawnStep p sm ∨
        sm ∈ Spec.castleMoves p p.whiteToMove := by
  rw [pseudoMoves_eq, List.mem_append, List.mem_flatMap, ← or_assoc]
  apply or_congr_left
  constructor
  · rintro ⟨s, hs, h⟩
    have hs64 := List.mem_range.mp hs
    rcases (mem_sqMoves p s hs64 sm).mp h with ⟨k, hk, t, hst, e⟩ | ⟨hat, h⟩
    · exact Or.inl ⟨k, hk, s, t, hst, e⟩
    · exact Or.inr ⟨s, hs64, hat, h⟩
  · rintro (⟨k, hk, s, t, hst, e⟩ | ⟨s, hs64, hat, h⟩)
    · exact ⟨s, List.mem_range.mpr hst.1, (mem_sqMoves p s hst.1 sm).mpr (Or.inl ⟨k, hk, t, hst, e⟩)⟩
    · exact ⟨s, List.mem_range.mpr hs64, (mem_sqMoves p s hs64 sm).mpr (Or.inr ⟨hat, h⟩)⟩

/-! ## the generated keys by kind -/

/-- a quiet-step key of kind `k` the Spec allows -/
def KStep (p : Pos) (k : Kind) (x : Key) : Prop :=
  x.piece = kindCode k ∧ x.castle = false ∧ ∃ s t, Step p k s t ∧ x.mv = ⟨s, t, none⟩

theorem mem_genK {b : Board} (hw : PawnWF b) (x : Key) :
    x ∈ genK b ↔
      KStep (abs b) .queen x ∨ KStep (abs b) .bishop x ∨ KStep (abs b) .rook x ∨ KStep (abs b) .knight x ∨
      KStep (abs b) .king x ∨ (x.piece = PAWN ∧ x.castle = false ∧ PawnStep (abs b) x.mv) ∨
      (x.piece = KING ∧ x.castle = true ∧ x.mv ∈ Spec.castleMoves (abs b) (abs b).whiteToMove) := by
  have hd := hw.disjoint
  have h1 := mem_slidingK b hd .queen true QUEEN x
  have h2 := mem_slidingK b hd .queen false QUEEN x
  have h3 := mem_slidingK b hd .bishop false BISHOP x
  have h4 := mem_slidingK b hd .rook true ROOK x
  have h5 := mem_singleK b hd .knight knightTable (fun s t hs ht => fwd_knight _ _ s t hs ht) KNIGHT x
  have h6 := mem_singleK b hd .king kingTable (fun s t hs ht => fwd_king _ _ s t hs ht) KING x
  have h78 := mem_pawnK hw x
  have h9 := mem_castleK hw x
  unfold genK
  simp only [List.mem_append]
  rw [or_assoc (c := x ∈ pawnMovesK _ _ _), h78]
  have e1 : b.active.queens = b.active.get (kindCode .queen) := rfl
  have e3 : b.active.bishops = b.active.get (kindCode .bishop) := rfl
  have e4 : b.active.rooks = b.active.get (kindCode .rook) := rfl
  have e5 : b.active.knights = b.active.get (kindCode .knight) := rfl
  have e6 : b.active.kings = b.active.get (kindCode .king) := rfl
  rw [e1, e3, e4, e5, e6, h1, h2, h3, h4, h5, h6, h9]
  unfold KStep
  simp only [gkind, if_true, Bool.false_eq_true, if_false]
  constructor
  · rintro (((((((⟨a, c, s, t, h, e⟩ | ⟨a, c, s, t, h, e⟩) | h) | h) | h) | h) | h) | h)
    · exact Or.inl ⟨a, c, s, t, (step_queen _ s t).mpr (Or.inl h), e⟩
    · exact Or.inl ⟨a, c, s, t, (step_queen _ s t).mpr (Or.inr h), e⟩
    · exact Or.inr (Or.inl h)
    · exact Or.inr (Or.inr (Or.inl h))
    · exact Or.inr (Or.inr (Or.inr (Or.inl h)))
    · exact Or.inr (Or.inr (Or.inr (Or.inr (Or.inl h))))
    · exact Or.inr (Or.inr (Or.inr (Or.inr (Or.inr (Or.inl h)))))
    · exact Or.inr (Or.inr (Or.inr (Or.inr (Or.inr (Or.inr h)))))
  · rintro (⟨a, c, s, t, h, e⟩ | h | h | h | h | h | h)
    · rcases (step_queen _ s t).mp h with h | h
      · exact Or.inl (Or.inl (Or.inl (Or.inl (Or.inl (Or.inl (Or.inl ⟨a, c, s, t, h, e⟩))))))
      · exact Or.inl (Or.inl (Or.inl (Or.inl (Or.inl (Or.inl (Or.inr ⟨a, c, s, t, h, e⟩))))))
    · exact Or.inl (Or.inl (Or.inl (Or.inl (Or.inl (Or.inr h)))))
    · exact Or.inl (Or.inl (Or.inl (Or.inl (Or.inr h))))
    · exact Or.inl (Or.inl (Or.inl (Or.inr h)))
    · exact Or.inl (Or.inl (Or.inr h))
    · exact Or.inl (Or.inr h)
    · exact Or.inr h

/-! ## the combined statement on triples -/

theorem map_absMove_eq (b : Board) : (genPseudo b).map (absMove ∘ Move.f) = ((genPseudo b).map key).map Key.mv := by
  rw [List.map_map]
  rfl

/-- **Item 3 of C01 (combined).**  On a legal position the (source, target, promotion) triples of the generated
pseudo-legal moves are exactly the moves the movement rules allow. -/
theorem genPseudo_iff' {b : Board} (hw : PawnWF b) (sm : SMove) :
    sm ∈ (genPseudo b).map (absMove ∘ Move.f) ↔ sm ∈ Spec.pseudoMoves (abs b) := by
  rw [map_absMove_eq, map_key_genPseudo hw.facts, List.mem_map, mem_pseudoMoves]
  constructor
  · rintro ⟨x, hx, rfl⟩
    rcases (mem_genK hw x).mp hx with h | h | h | h | h | h | h
    · obtain ⟨-, -, s, t, hs, e⟩ := h; exact Or.inl ⟨.queen, by decide, s, t, hs, e⟩
    · obtain ⟨-, -, s, t, hs, e⟩ := h; exact Or.inl ⟨.bishop, by decide, s, t, hs, e⟩
    · obtain ⟨-, -, s, t, hs, e⟩ := h; exact Or.inl ⟨.rook, by decide, s, t, hs, e⟩
    · obtain ⟨-, -, s, t, hs, e⟩ := h; exact Or.inl ⟨.knight, by decide, s, t, hs, e⟩
    · obtain ⟨-, -, s, t, hs, e⟩ := h; exact Or.inl ⟨.king, by decide, s, t, hs, e⟩
    · exact Or.inr (Or.inl h.2.2)
    · exact Or.inr (Or.inr h.2.2)
  · rintro (⟨k, hk, s, t, hs, rfl⟩ | h | h)
    · refine ⟨⟨kindCode k, false, ⟨s, t, none⟩⟩, (mem_genK hw _).mpr ?_, rfl⟩
      cases k
      · exact absurd rfl hk
      · exact Or.inr (Or.inr (Or.inr (Or.inl ⟨rfl, rfl, s, t, hs, rfl⟩)))
      · exact Or.inr (Or.inl ⟨rfl, rfl, s, t, hs, rfl⟩)
      · exact Or.inr (Or.inr (Or.inl ⟨rfl, rfl, s, t, hs, rfl⟩))
      · exact Or.inl ⟨rfl, rfl, s, t, hs, rfl⟩
      · exact Or.inr (Or.inr (Or.inr (Or.inr (Or.inl ⟨rfl, rfl, s, t, hs, rfl⟩))))
    · exact ⟨⟨PAWN, false, sm⟩, (mem_genK hw _).mpr (Or.inr (Or.inr (Or.inr (Or.inr (Or.inr (Or.inl ⟨rfl, rfl, h⟩)))))),
        rfl⟩
    · exact ⟨⟨KING, true, sm⟩, (mem_genK hw _).mpr (Or.inr (Or.inr (Or.inr (Or.inr (Or.inr (Or.inr ⟨rfl, rfl, h⟩)))))),
        rfl⟩

theorem genPseudo_iff {b : Board} (h : WF.wf b = true) (sm : SMove) :
    sm ∈ (genPseudo b).map (absMove ∘ Move.f) ↔ sm ∈ Spec.pseudoMoves (abs b) :=
  genPseudo_iff' (pawnWF_of_wf h) sm

/-! ## per piece kind, on the moves of `genPseudo b` -/

theorem exists_move_iff_key {b : Board} (hw : PawnWF b) (x : Key) :
    (∃ m ∈ genPseudo b, m.f.pieceMoved = x.piece ∧ m.f.castle = x.castle ∧ absMove m.f = x.mv) ↔ x ∈ genK b := by
  rw [← map_key_genPseudo hw.facts, List.mem_map]
  obtain ⟨xp, xc, xm⟩ := x
  constructor
  · rintro ⟨m, hm, h1, h2, h3⟩
    refine ⟨m, hm, ?_⟩
    unfold key; simp only at h1 h2 h3; rw [h1, h2, h3]
  · rintro ⟨m, hm, h⟩
    unfold key at h
    simp only [Key.mk.injEq] at h
    exact ⟨m, hm, h.1, h.2.1, h.2.2⟩

/-- a quiet-step key of a non-pawn kind is generated iff the Spec allows the step -/
theorem mem_genK_step {b : Board} (hw : PawnWF b) (k : Kind) (hk : k ≠ .pawn) (s t : Nat) :
    (⟨kindCode k, false, ⟨s, t, none⟩⟩ : Key) ∈ genK b ↔ Step (abs b) k s t := by
  rw [mem_genK hw]
  unfold KStep
  constructor
  · intro h
    have same : ∀ k', kindCode k = kindCode k' → (∃ s' t', Step (abs b) k' s' t' ∧
        (⟨s, t, none⟩ : SMove) = ⟨s', t', none⟩) → Step (abs b) k s t := by
      intro k' hkk ⟨s', t', hs, e⟩
      have : k = k' := by cases k <;> cases k' <;> first | rfl | (exact absurd hkk (by decide))
      subst this
      simp only [SMove.mk.injEq, and_true] at e
      rw [e.1, e.2]; exact hs
    rcases h with h | h | h | h | h | h | h
    · exact same _ h.1 h.2.2
    · exact same _ h.1 h.2.2
    · exact same _ h.1 h.2.2
    · exact same _ h.1 h.2.2
    · exact same _ h.1 h.2.2
    · have : kindCode k = PAWN := h.1
      cases k <;> first | exact absurd rfl hk | exact absurd this (by decide)
    · exact absurd h.2.1 Bool.false_ne_true
  · intro hs
    cases k
    · exact absurd rfl hk
    · exact Or.inr (Or.inr (Or.inr (Or.inl ⟨rfl, rfl, s, t, hs, rfl⟩)))
    · exact Or.inr (Or.inl ⟨rfl, rfl, s, t, hs, rfl⟩)
    · exact Or.inr (Or.inr (Or.inl ⟨rfl, rfl, s, t, hs, rfl⟩))
    · exact Or.inl ⟨rfl, rfl, s, t, hs, rfl⟩
    · exact Or.inr (Or.inr (Or.inr (Or.inr (Or.inl ⟨rfl, rfl, s, t, hs, rfl⟩))))

/-- **queens, rooks, bishops** (`k` one of them): a non-castling move of piece code `kindCode k` from `s` to `t` is
generated iff a piece of that kind of the side to move stands on `s`, `t` is on one of its lines with nothing strictly
between, and `t` is empty or holds an enemy piece.  (Queens are generated in two passes, rook rays and bishop rays.) -/
theorem sliding_iff {b : Board} (h : WF.wf b = true) (k : Kind) (hk : k = .queen ∨ k = .rook ∨ k = .bishop)
    (s t : Nat) :
    (∃ m ∈ genPseudo b, m.f.pieceMoved = kindCode k ∧ m.f.castle = false ∧ absMove m.f = ⟨s, t, none⟩) ↔
      Step (abs b) k s t := by
  rw [exists_move_iff_key (pawnWF_of_wf h) ⟨kindCode k, false, ⟨s, t, none⟩⟩]
  exact mem_genK_step (pawnWF_of_wf h) k (by rcases hk with rfl | rfl | rfl <;> decide) s t

theorem knight_iff {b : Board} (h : WF.wf b = true) (s t : Nat) :
    (∃ m ∈ genPseudo b, m.f.pieceMoved = KNIGHT ∧ m.f.castle = false ∧ absMove m.f = ⟨s, t, none⟩) ↔
      Step (abs b) .knight s t := by
  rw [exists_move_iff_key (pawnWF_of_wf h) ⟨KNIGHT, false, ⟨s, t, none⟩⟩]
  exact mem_genK_step (pawnWF_of_wf h) .knight (by decide) s t

/-- king steps (castling is `castle_iff`) -/
theorem king_iff {b : Board} (h : WF.wf b = true) (s t : Nat) :
    (∃ m ∈ genPseudo b, m.f.pieceMoved = KING ∧ m.f.castle = false ∧ absMove m.f = ⟨s, t, none⟩) ↔
      Step (abs b) .king s t := by
  rw [exists_move_iff_key (pawnWF_of_wf h) ⟨KING, false, ⟨s, t, none⟩⟩]
  exact mem_genK_step (pawnWF_of_wf h) .king (by decide) s t

/-- **pawns**: pushes, double pushes, captures, en passant and all four promotions -/
theorem pawn_iff {b : Board} (h : WF.wf b = true) (sm : SMove) :
    (∃ m ∈ genPseudo b, m.f.pieceMoved = PAWN ∧ absMove m.f = sm) ↔ PawnStep (abs b) sm := by
  have hw := pawnWF_of_wf h
  constructor
  · rintro ⟨m, hm, h1, h2⟩
    have hx : key m ∈ genK b := by rw [← map_key_genPseudo hw.facts]; exact List.mem_map.mpr ⟨m, hm, rfl⟩
    have hp : (key m).piece = PAWN := h1
    rcases (mem_genK hw _).mp hx with h | h | h | h | h | h | h
    · have h' := h.1; rw [hp] at h'; exact absurd h' (by decide)
    · have h' := h.1; rw [hp] at h'; exact absurd h' (by decide)
    · have h' := h.1; rw [hp] at h'; exact absurd h' (by decide)
    · have h' := h.1; rw [hp] at h'; exact absurd h' (by decide)
    · have h' := h.1; rw [hp] at h'; exact absurd h' (by decide)
    · rw [← h2]; exact h.2.2
    · have h' := h.1; rw [hp] at h'; exact absurd h' (by decide)
  · intro hs
    have := (exists_move_iff_key hw ⟨PAWN, false, sm⟩).mpr
      ((mem_genK hw _).mpr (Or.inr (Or.inr (Or.inr (Or.inr (Or.inr (Or.inl ⟨rfl, rfl, hs⟩)))))))
    obtain ⟨m, hm, h1, -, h3⟩ := this
    exact ⟨m, hm, h1, h3⟩

/-- **castling** -/
theorem castle_iff {b : Board} (h : WF.wf b = true) (sm : SMove) :
    (∃ m ∈ genPseudo b, m.f.castle = true ∧ absMove m.f = sm) ↔
      sm ∈ Spec.castleMoves (abs b) (abs b).whiteToMove := by
  have hw := pawnWF_of_wf h
  constructor
  · rintro ⟨m, hm, h1, h2⟩
    have hx : key m ∈ genK b := by rw [← map_key_genPseudo hw.facts]; exact List.mem_map.mpr ⟨m, hm, rfl⟩
    have hc : (key m).castle = true := h1
    rcases (mem_genK hw _).mp hx with h | h | h | h | h | h | h
    · have h' := h.2.1; rw [hc] at h'; cases h'
    · have h' := h.2.1; rw [hc] at h'; cases h'
    · have h' := h.2.1; rw [hc] at h'; cases h'
    · have h' := h.2.1; rw [hc] at h'; cases h'
    · have h' := h.2.1; rw [hc] at h'; cases h'
    · have h' := h.2.1; rw [hc] at h'; cases h'
    · rw [← h2]; exact h.2.2
  · intro hs
    have := (exists_move_iff_key hw ⟨KING, true, sm⟩).mpr
      ((mem_genK hw _).mpr (Or.inr (Or.inr (Or.inr (Or.inr (Or.inr (Or.inr ⟨rfl, rfl, hs⟩)))))))
    obtain ⟨m, hm, -, h2, h3⟩ := this
    exact ⟨m, hm, h2, h3⟩

end Inkayaku.GenSpec
